// implrun runs the implementation side of a property check against /repo's current tree (linked in through
// the replace directive), drives the extracted model, compares, monitors and writes a JSON report.
package main

import (
	"encoding/json"
	"flag"
	"fmt"
	"os"
	"time"

	"verifharness/internal/core"
	"verifharness/internal/model"
	"verifharness/internal/props"
)

func main() {
	prop := flag.String("prop", "", "property id (C01..C20)")
	tier := flag.String("tier", "quick", "quick|thorough")
	seed := flag.Int64("seed", 1, "random seed")
	modelPath := flag.String("model", "", "path to the extracted model runner")
	out := flag.String("out", "", "report file (JSON)")
	replay := flag.String("replay", "", "replay file: re-run exactly that case")
	flag.Parse()

	run, ok := props.Registry[*prop]
	if !ok {
		fmt.Fprintln(os.Stderr, "unknown property", *prop)
		os.Exit(2)
	}
	var m *model.Runner
	if *modelPath != "" {
		var err error
		m, err = model.Start(*modelPath, props.StdOracle)
		if err != nil {
			fmt.Fprintln(os.Stderr, "cannot start model runner:", err)
			os.Exit(2)
		}
		defer m.Close()
	}
	c := core.New(*prop, *tier, *seed, m)
	if *replay != "" {
		os.Exit(doReplay(c, run, *replay))
	}
	// overall watchdog: a runner that blocks outside the per-case watchdogs is itself a finding (something hangs)
	limit := 20 * time.Minute
	if *tier == "thorough" {
		limit = 4 * time.Hour
	}
	done := make(chan struct{})
	go func() { run(c); close(done) }()
	select {
	case <-done:
	case <-time.After(limit):
		c.Fail("hang@runner", fmt.Sprintf("the runner of %s did not finish within %v: some call into the library blocks", *prop, limit), "runner", core.Params{}, core.Obs{})
	}
	if err := c.Finish(*out); err != nil {
		fmt.Fprintln(os.Stderr, err)
		os.Exit(2)
	}
}

// A replay file carries {"kind":..., "params":{...}}; the property's kinds are registered by a dry run of
// its registration function (props.RegisterOnly), then the single case is evaluated on both sides.
func doReplay(c *core.Ctx, run func(*core.Ctx), path string) int {
	raw, err := os.ReadFile(path)
	if err != nil {
		fmt.Fprintln(os.Stderr, err)
		return 2
	}
	var rp struct {
		Kind   string      `json:"kind"`
		Params core.Params `json:"params"`
	}
	if err := json.Unmarshal(raw, &rp); err != nil {
		fmt.Fprintln(os.Stderr, err)
		return 2
	}
	props.RegisterOnly(c)
	k := c.KindByName(rp.Kind)
	if k == nil {
		fmt.Fprintln(os.Stderr, "replay: unknown kind", rp.Kind)
		return 2
	}
	o := core.EvalImpl(k, rp.Params)
	fmt.Println("case :", o.Line)
	fmt.Println("impl :", o.Impl, "(alloc", o.AllocB, "bytes)")
	if c.Model != nil && !k.NoModel {
		mres, _ := c.Model.Call(o.Line)
		fmt.Println("model:", mres)
		if mres != o.Impl {
			fmt.Println("DISAGREE")
			return 1
		}
	}
	return 0
}
