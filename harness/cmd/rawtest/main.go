// Command rawtest exercises internal/raw against real deployments: the honest sequences, every fault once in an otherwise
// honest session, and a few token / ordering / replay probes. Usage: rawtest <work-dir>
package main

import (
	"context"
	"encoding/hex"
	"fmt"
	"hash"
	"os"
	"runtime"
	"strings"
	"time"

	"github.com/fido-device-onboard/go-fdo/kex"
	"github.com/fido-device-onboard/go-fdo/protocol"

	"verifharness/internal/env"
	"verifharness/internal/raw"
)

var deviations int

// prefix is the honest run-up to a message inside its protocol.
var prefix = map[int][]int{12: {10}, 22: {20}, 32: {30}, 62: {60}, 64: {60, 62}, 66: {60, 62, 64}, 68: {60, 62, 64, 66}, 70: {60, 62, 64, 66, 68, 68}}

var honest = []struct {
	name    string
	msgs    []int
	resp    []int
	effects string // kind@position
}{
	{"DI", []int{10, 12}, []int{11, 13}, "di-voucher@1"},
	{"TO0", []int{20, 22}, []int{21, 23}, "rv-blob@1"},
	{"TO1", []int{30, 32}, []int{31, 33}, ""},
	{"TO2", []int{60, 62, 64, 66, 68, 68, 70}, []int{61, 63, 65, 67, 69, 69, 71}, "module-invoke@5 voucher-replace@6"},
}

func main() {
	dir := "/verif/.build/work/rawtest"
	if len(os.Args) > 1 {
		dir = os.Args[1]
	}
	g0 := runtime.NumGoroutine()
	for _, c := range []struct {
		spec env.KeySpec
		cfg  raw.Config
	}{
		{env.P256, raw.Config{Kex: kex.ECDH256Suite, Cipher: kex.A128GcmCipher}},
		{env.RSA2048, raw.Config{Kex: kex.DHKEXid14Suite, Cipher: kex.CoseAes128CtrCipher}},
	} {
		if err := run(dir, c.spec, c.cfg); err != nil {
			fmt.Println("FATAL", c.spec.Name, err)
			deviations++
		}
	}
	time.Sleep(100 * time.Millisecond)
	fmt.Printf("\ngoroutines before/after: %d/%d\ndeviations: %d\n", g0, runtime.NumGoroutine(), deviations)
}

func run(dir string, spec env.KeySpec, cfg raw.Config) error {
	name := fmt.Sprintf("%s/%s/%s", spec.Name, cfg.Kex, cfg.Cipher)
	e, err := env.New(dir, spec)
	if err != nil {
		return err
	}
	defer e.Close()
	e.OwnerModules = raw.OneShot(e)
	ctx, cancel := context.WithTimeout(context.Background(), time.Minute)
	defer cancel()
	var dr [2]*raw.Driver // 0: honest onboarding (its voucher is replaced at the end), 1: everything else
	var devs [2]*env.Device
	for i := range dr {
		if devs[i], err = e.NewDevice(ctx, protocol.X509KeyEnc); err != nil {
			return err
		}
		dr[i] = raw.NewDriver(e, devs[i], cfg)
	}

	fmt.Printf("\n== %s: honest sequences ==\n", name)
	for _, h := range honest {
		sess := -1
		for i, m := range h.msgs {
			r := do(dr[0], &sess, raw.Step{Msg: m, BodyFrom: -1})
			want := ""
			for _, f := range strings.Fields(h.effects) {
				if k, pos, _ := strings.Cut(f, "@"); pos == fmt.Sprint(i) {
					want = k
				}
			}
			row(name, m, "", r, r.RespType == h.resp[i] && kinds(r) == want && r.OK && r.Enc == (m > 64) && r.Hmac == (m == 66 && !cfg.Reuse),
				fmt.Sprintf("want %d [%s]", h.resp[i], want))
			if m == 70 && len(r.Effects) == 1 { // the replacement voucher must carry the HMAC the driver sent in 66
				var g protocol.GUID
				id, _ := hex.DecodeString(r.Effects[0].Info)
				copy(g[:], id)
				h256, h384 := devs[0].Hmacs()
				ov, err := e.DB.Voucher(ctx, g)
				if err == nil {
					err = ov.VerifyHeader(h256.(hash.Hash), h384.(hash.Hash))
				}
				rowS(name, "-", "replacement voucher header HMAC verifies", raw.Result{RespType: -1, NewSess: -1}, err == nil, fmt.Sprint(err))
			}
		}
	}

	e.Reuse = true // credential reuse: 66 without HMAC, no voucher replacement at 70
	rd, rs := raw.NewDriver(e, devs[1], raw.Config{Kex: cfg.Kex, Cipher: cfg.Cipher, Reuse: true}), -1
	for i, m := range honest[3].msgs {
		r := do(rd, &rs, raw.Step{Msg: m, BodyFrom: -1})
		want := map[int]string{5: "module-invoke"}[i]
		row(name, m, "(credential reuse)", r, r.RespType == honest[3].resp[i] && kinds(r) == want && r.OK && !r.Hmac, fmt.Sprintf("want %d [%s]", honest[3].resp[i], want))
	}
	e.Reuse = false

	fmt.Printf("\n== %s: faults (expect 255, no effects) ==\n", name)
	s0 := -1
	do(dr[1], &s0, raw.Step{Msg: 20, BodyFrom: -1}) // TO1 needs a registered blob for this device
	do(dr[1], &s0, raw.Step{Msg: 22, BodyFrom: -1})
	for _, m := range []int{10, 12, 20, 22, 30, 32, 60, 62, 64, 66, 68, 70} {
		for _, f := range raw.Faults(m) {
			sess := -1
			ok := true
			for _, p := range prefix[m] {
				if r := do(dr[1], &sess, raw.Step{Msg: p, BodyFrom: -1}); r.RespType != p+1 {
					row(name, p, "(run-up to "+fmt.Sprint(m, " ", f)+")", r, false, "")
					ok = false
				}
			}
			if !ok {
				continue
			}
			r := do(dr[1], &sess, raw.Step{Msg: m, BodyFrom: -1, Fault: f})
			und := dr[1].Undetectable(m, f)
			good := r.RespType == 255 && len(r.Effects) == 0 && !r.OK
			note := ""
			if und {
				good, note = r.RespType == m+1 && r.OK, "declared undetectable: accepted"
			}
			wantEnc := m > 64 && (f == "enc-garbage" || f == "enc-truncated" || f == "nonce")
			row(name, m, f, r, good && r.Enc == wantEnc, note)
			if m == 68 || (m == 64 && r.RespType == 65) {
				do(dr[1], &sess, raw.Step{Msg: 255, BodyFrom: -1}) // release the server's module state, if any
			}
		}
	}

	fmt.Printf("\n== %s: tokens, order, replay ==\n", name)
	probe := func(what string, d *raw.Driver, s raw.Step, wantType int, wantOK, wantEnc bool) raw.Result {
		r := d.Do(s)
		rowS(name, fmt.Sprint(s.Msg), what, r, r.RespType == wantType && len(r.Effects) == 0 && r.OK == wantOK && r.Enc == wantEnc, fmt.Sprint("want ", wantType))
		return r
	}
	d := dr[1]
	open := func(upto ...int) int {
		sess := -1
		for _, m := range upto {
			do(d, &sess, raw.Step{Msg: m, BodyFrom: -1})
		}
		return sess
	}
	a := open(60)
	probe("no token", d, raw.Step{Msg: 62, Sess: a, Tok: raw.TokNone, BodyFrom: -1}, 255, false, false)
	probe("forged token", d, raw.Step{Msg: 62, Sess: a, Tok: raw.TokForged, BodyFrom: -1}, 255, false, false)
	for v := 0; v < 4; v++ {
		probe(fmt.Sprint("damaged token ", v), d, raw.Step{Msg: 62, Sess: a, Tok: raw.TokDamaged, BodyFrom: -1, Variant: v}, 255, false, false)
	}
	probe("session alive after bad tokens", d, raw.Step{Msg: 62, Sess: a, BodyFrom: -1}, 63, true, false)
	b := open(60)
	probe("62 body from other session", d, raw.Step{Msg: 62, Sess: a, BodyFrom: b}, 63, true, false)
	probe("64 body from other session", d, raw.Step{Msg: 64, Sess: a, BodyFrom: b}, 255, false, false)
	probe("64 without 61 in context (TO1 token)", d, raw.Step{Msg: 64, Sess: open(30), BodyFrom: -1}, 255, false, false)
	c1, c2 := open(60, 62, 64), open(60, 62, 64)
	probe("66 encrypted by other session", d, raw.Step{Msg: 66, Sess: c1, BodyFrom: c2}, 255, false, false)
	probe("66 own after failed replay", d, raw.Step{Msg: 66, Sess: c2, BodyFrom: -1}, 67, true, true)
	e1 := open(60, 62, 64)
	probe("61 sent by client", d, raw.Step{Msg: 61, Sess: e1, BodyFrom: -1}, 0, true, false)
	probe("67 sent by client", d, raw.Step{Msg: 67, Sess: e1, BodyFrom: -1}, 0, true, true)
	probe("100 (no protocol)", d, raw.Step{Msg: 100, Sess: e1, BodyFrom: -1}, 255, true, true)
	probe("40 (no protocol)", d, raw.Step{Msg: 40, Sess: e1, BodyFrom: -1}, 255, true, false)
	probe("1000 (not a type)", d, raw.Step{Msg: 1000, Sess: e1, BodyFrom: -1}, 255, true, false)
	probe("12 with TO2 token", d, raw.Step{Msg: 12, Sess: e1, BodyFrom: -1}, 255, false, false)
	probe("60 replayed from other session", d, raw.Step{Msg: 60, Tok: raw.TokNone, BodyFrom: b}, 61, true, false)
	f1 := open(60, 62)
	probe("255 with token", d, raw.Step{Msg: 255, Sess: f1, BodyFrom: -1}, -1, true, false)
	probe("62 after 255", d, raw.Step{Msg: 62, Sess: f1, BodyFrom: -1}, 255, true, false)
	probe("unknown fault", d, raw.Step{Msg: 62, Sess: f1, BodyFrom: -1, Fault: "nope"}, -1, false, false)
	e.AcceptTTL = func(req uint32) (uint32, error) { return max(req, 60), nil }
	t0 := open(20)
	r := d.Do(raw.Step{Msg: 22, Sess: t0, BodyFrom: -1, Fault: "ttl-zero"})
	rowS(name, "22", "ttl-zero, AcceptTTL lifts it to 60", r, r.RespType == 23 && kinds(r) == "rv-blob" && r.OK && r.Effects[0].Info == "60", "want 23 [rv-blob 60]")
	e.AcceptTTL = nil
	r = d.Do(raw.Step{Msg: 70, Sess: c2, BodyFrom: -1}) // last: if accepted, the device's voucher is replaced
	fmt.Printf("info %-34s msg=70   %-46s resp=%-3d http=%d effects=[%s] OK=%v Enc=%v\n", name, "70 right after 67 (no service info at all)", r.RespType, r.Status, kinds(r), r.OK, r.Enc)
	return nil
}

// do sends a step in the session *sess (-1: none yet) and follows a newly created session.
func do(d *raw.Driver, sess *int, s raw.Step) raw.Result {
	s.Sess = *sess
	if *sess < 0 {
		s.Tok = raw.TokNone
	}
	r := d.Do(s)
	if r.NewSess >= 0 {
		*sess = r.NewSess
	}
	return r
}

func kinds(r raw.Result) string {
	var k []string
	for _, e := range r.Effects {
		k = append(k, e.Kind)
	}
	return strings.Join(k, ",")
}

func row(cfg string, msg int, fault string, r raw.Result, good bool, note string) {
	rowS(cfg, fmt.Sprint(msg), fault, r, good, note)
}

func rowS(cfg, msg, fault string, r raw.Result, good bool, note string) {
	mark := "ok  "
	if !good || r.Panic != "" {
		mark = "DEV "
		deviations++
	}
	if r.Panic != "" {
		note += " PANIC: " + r.Panic
	}
	if r.Err != "" {
		note += " ERR: " + r.Err
	}
	if r.ErrStr != "" {
		note += " <" + r.ErrStr + ">"
	}
	fmt.Printf("%s%-34s msg=%-4s fault=%-40s resp=%-3d http=%d effects=[%s] OK=%-5v Enc=%-5v Hmac=%-5v %s\n",
		mark, cfg, msg, fault, r.RespType, r.Status, kinds(r), r.OK, r.Enc, r.Hmac, note)
}
