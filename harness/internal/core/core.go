// Package core is the small framework shared by all property runners: evaluate the implementation on a
// case (with panic / hang / allocation capture), ask the extracted Rocq model the same question, compare
// the projected observables, run the property monitor, and collect what the evidence file needs.
package core

import (
	"crypto/sha256"
	"encoding/json"
	"fmt"
	"math/rand"
	"os"
	"runtime"
	"sort"
	"strings"
	"time"

	"verifharness/internal/model"
)

type Params map[string]string

// Kind is one sort of case: a deterministic function from parameters to (model input line, implementation
// observation).  The observation is canonical text in the same syntax the model renders.
type Kind struct {
	Name string
	Eval func(p Params) (line string, impl string)
	// NoModel: the kind has a monitor only (no model prediction).
	NoModel bool
}

type Obs struct {
	Impl    string
	Model   string
	Line    string
	AllocB  uint64
	WallUs  int64
	Timeout bool
}

type Disagreement struct {
	Kind   string `json:"kind"`
	Params Params `json:"params"`
	Line   string `json:"line"`
	Impl   string `json:"impl"`
	Model  string `json:"model"`
	Meta   string `json:"meta"`
}

type Failure struct {
	Signature string `json:"signature"`
	Detail    string `json:"detail"`
	Kind      string `json:"kind"`
	Params    Params `json:"params"`
	Impl      string `json:"impl"`
	Model     string `json:"model,omitempty"`
}

type Report struct {
	Property      string                    `json:"property"`
	Tier          string                    `json:"tier"`
	Seed          int64                     `json:"seed"`
	Evaluations   int                       `json:"evaluations"`
	Distinct      int                       `json:"distinct_nontrivial"`
	Rule          string                    `json:"rule"`
	ModelCalls    int                       `json:"model_calls"`
	OracleCalls   int                       `json:"oracle_calls"`
	Samples       []map[string]string       `json:"samples"`
	Hist          map[string]map[string]int `json:"histograms"`
	Disagreements []Disagreement            `json:"disagreements"`
	Failures      []Failure                 `json:"monitor_failures"`
	Notes         []string                  `json:"notes"`
	Exhaustive    bool                      `json:"exhaustive"`
	WallS         float64                   `json:"wall_s"`
}

type Ctx struct {
	Prop    string
	Tier    string
	Seed    int64
	Rng     *rand.Rand
	Model   *model.Runner
	Rep     *Report
	seen    map[string]struct{}
	kinds   map[string]*Kind
	maxKeep int
	start   time.Time
	// Trivial decides whether an observation counts as non-trivial (default: implementation result is not a
	// plain parse error).
	Trivial func(o Obs) bool
}

func New(prop, tier string, seed int64, m *model.Runner) *Ctx {
	return &Ctx{
		Prop: prop, Tier: tier, Seed: seed, Rng: rand.New(rand.NewSource(seed)), Model: m,
		Rep:  &Report{Property: prop, Tier: tier, Seed: seed, Hist: map[string]map[string]int{}},
		seen: map[string]struct{}{}, kinds: map[string]*Kind{}, maxKeep: 40, start: time.Now(),
	}
}

func (c *Ctx) Quick() bool { return c.Tier != "thorough" }

func (c *Ctx) Register(k *Kind)          { c.kinds[k.Name] = k }
func (c *Ctx) KindByName(n string) *Kind { return c.kinds[n] }

func (c *Ctx) Count(hist, key string) {
	h := c.Rep.Hist[hist]
	if h == nil {
		h = map[string]int{}
		c.Rep.Hist[hist] = h
	}
	h[key]++
}

func (c *Ctx) Note(format string, a ...any) {
	c.Rep.Notes = append(c.Rep.Notes, fmt.Sprintf(format, a...))
}

func panicClass(r any) string {
	msg := fmt.Sprint(r)
	switch {
	case strings.Contains(msg, "makeslice") || strings.Contains(msg, "len out of range") || strings.Contains(msg, "cap out of range"):
		return "panic 1"
	case strings.Contains(msg, "index out of range") || strings.Contains(msg, "slice bounds out of range"):
		return "panic 2"
	case strings.Contains(msg, "nil pointer") || strings.Contains(msg, "nil map"):
		return "panic 3"
	case strings.Contains(msg, "not registered") || strings.Contains(msg, "unavailable") || strings.Contains(msg, "unknown hash"):
		return "panic 5"
	default:
		return "panic 4"
	}
}

// PanicText is the text of the last recovered panic (diagnostic only).
var PanicText string

// EvalImpl runs the implementation side of a case with panic, hang and allocation capture.
func EvalImpl(k *Kind, p Params) (o Obs) {
	type res struct {
		line, impl string
		alloc      uint64
	}
	ch := make(chan res, 1)
	start := time.Now()
	go func() {
		var r res
		var ms0, ms1 runtime.MemStats
		defer func() {
			if rec := recover(); rec != nil {
				PanicText = fmt.Sprint(rec)
				r.impl = panicClass(rec)
				if r.line == "" {
					// the line does not depend on running the implementation; recompute it defensively
					func() {
						defer func() { _ = recover() }()
						r.line, _ = k.Eval(withFlag(p, "lineonly"))
					}()
				}
			}
			if p["alloc"] != "" {
				runtime.ReadMemStats(&ms1)
				r.alloc = ms1.TotalAlloc - ms0.TotalAlloc
			}
			ch <- r
		}()
		if p["alloc"] != "" {
			runtime.ReadMemStats(&ms0)
		}
		r.line, r.impl = k.Eval(p)
	}()
	select {
	case r := <-ch:
		o.Line, o.Impl, o.AllocB = r.line, r.impl, r.alloc
	case <-time.After(20 * time.Second):
		o.Timeout = true
		o.Impl = "hang"
		// the model line, if the kind can produce it without running the implementation (itself under a watchdog:
		// a kind that ignores the flag would block again)
		lc := make(chan string, 1)
		go func() {
			defer func() { _ = recover() }()
			l, _ := k.Eval(withFlag(p, "lineonly"))
			lc <- l
		}()
		select {
		case o.Line = <-lc:
		case <-time.After(5 * time.Second):
		}
	}
	o.WallUs = time.Since(start).Microseconds()
	return o
}

func withFlag(p Params, f string) Params {
	q := Params{}
	for k, v := range p {
		q[k] = v
	}
	q[f] = "1"
	return q
}

// Do evaluates one case on both sides and records the comparison.  It returns the observation so that the
// caller's monitor can inspect it.
func (c *Ctx) Do(kind string, p Params, meta string) Obs {
	k := c.kinds[kind]
	if k == nil {
		panic("unknown kind " + kind)
	}
	o := EvalImpl(k, p)
	c.Rep.Evaluations++
	c.Count("gen", meta)
	c.Count("impl_outcome", firstWord(o.Impl))
	if !k.NoModel && c.Model != nil {
		m, err := c.Model.Call(o.Line)
		if err != nil {
			m = "model-error " + err.Error()
		}
		o.Model = m
		c.Count("model_outcome", firstWord(m))
		if m != o.Impl {
			c.Rep.Disagreements = append(c.Rep.Disagreements, Disagreement{Kind: kind, Params: p, Line: o.Line, Impl: o.Impl, Model: m, Meta: meta})
		}
	}
	sum := sha256.Sum256([]byte(kind + "|" + o.Line + "|" + paramKey(p))) // (lines can be tens of kB: keep the digest only)
	key := string(sum[:16])
	if _, dup := c.seen[key]; !dup {
		c.seen[key] = struct{}{}
		triv := strings.HasPrefix(o.Impl, "err")
		if c.Trivial != nil {
			triv = c.Trivial(o)
		}
		if !triv {
			c.Rep.Distinct++
			if len(c.Rep.Samples) < c.maxKeep && c.Rng.Intn(1+c.Rep.Distinct/8) == 0 {
				c.Rep.Samples = append(c.Rep.Samples, map[string]string{"kind": kind, "case": clip(o.Line, 400), "impl": clip(o.Impl, 300), "gen": meta})
			}
		}
	}
	return o
}

func paramKey(p Params) string {
	if len(p) == 0 {
		return ""
	}
	keys := make([]string, 0, len(p))
	for k := range p {
		keys = append(keys, k)
	}
	sort.Strings(keys)
	var sb strings.Builder
	for _, k := range keys {
		sb.WriteString(k + "=" + p[k] + ";")
	}
	return sb.String()
}

func clip(s string, n int) string {
	if len(s) > n {
		return s[:n] + "…"
	}
	return s
}

func firstWord(s string) string {
	if i := strings.IndexByte(s, ' '); i >= 0 {
		return s[:i]
	}
	return s
}

// Fail records a monitor failure (a concrete input on which the property's conclusion is false).
func (c *Ctx) Fail(sig, detail, kind string, p Params, o Obs) {
	c.Count("failure_signature", sig)
	for _, f := range c.Rep.Failures {
		if f.Signature == sig && len(c.Rep.Failures) > 200 {
			return
		}
	}
	c.Rep.Failures = append(c.Rep.Failures, Failure{Signature: sig, Detail: clip(detail, 2000), Kind: kind, Params: p, Impl: clip(o.Impl, 2000), Model: clip(o.Model, 2000)})
}

func (c *Ctx) Finish(out string) error {
	if c.Model != nil {
		c.Rep.ModelCalls = c.Model.Calls
		c.Rep.OracleCalls = c.Model.Asked
	}
	c.Rep.WallS = time.Since(c.start).Seconds()
	if len(c.Rep.Disagreements) > 300 {
		c.Note("disagreements truncated from %d to 300", len(c.Rep.Disagreements))
		c.Rep.Disagreements = c.Rep.Disagreements[:300]
	}
	b, err := json.MarshalIndent(c.Rep, "", " ")
	if err != nil {
		return err
	}
	return os.WriteFile(out, b, 0o644)
}
