package raw

import (
	"bytes"
	"crypto/rand"
)

// Open decrypts a tunnelled reply (67, 69, 71) with the tunnel keys of session context i. It reports false when the
// context has no keys or the body does not decrypt. Together with Driver.Mutate (which replaces the plaintext of a 68)
// this lets a caller conduct the service-info exchange message by message: chosen IsMoreServiceInfo flag and key/value
// entries out, IsMoreServiceInfo / IsDone / entries of the owner's reply back.
func (d *Driver) Open(i int, body []byte) ([]byte, bool) {
	c := d.sess(i)
	if c == nil || c.kx == nil {
		return nil, false
	}
	p, err := c.kx.Decrypt(rand.Reader, bytes.NewReader(body))
	return p, err == nil
}
