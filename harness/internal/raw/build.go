package raw

import (
	"bytes"
	"crypto"
	"crypto/ecdsa"
	"crypto/hmac"
	"crypto/rand"
	"crypto/rsa"
	"crypto/sha256"
	"crypto/sha512"
	"crypto/x509"
	"crypto/x509/pkix"
	"errors"
	"fmt"
	"io"
	"time"

	fdo "github.com/fido-device-onboard/go-fdo"
	"github.com/fido-device-onboard/go-fdo/cbor"
	"github.com/fido-device-onboard/go-fdo/cose"
	"github.com/fido-device-onboard/go-fdo/custom"
	"github.com/fido-device-onboard/go-fdo/kex"
	"github.com/fido-device-onboard/go-fdo/protocol"
	"github.com/fido-device-onboard/go-fdo/serviceinfo"

	"verifharness/internal/env"
)

// wire types (the library keeps its own unexported)
type (
	sigInfo struct {
		Type cose.SignatureAlgorithm
		Info []byte
	}
	to0d struct {
		Voucher     fdo.Voucher
		WaitSeconds uint32
		Nonce       protocol.Nonce
	}
	helloDevice struct {
		MaxMsg  uint16
		GUID    protocol.GUID
		Nonce   protocol.Nonce
		Kex     kex.Suite
		Cipher  kex.CipherSuiteID
		SigInfo sigInfo
	}
	ovhProof struct {
		OVH        cbor.Bstr[fdo.VoucherHeader]
		NumEntries uint8
		Hmac       protocol.Hmac
		NonceOV    protocol.Nonce
		SigInfoB   sigInfo
		XA         []byte
		HelloHash  protocol.Hash
		MaxMsg     uint16
	}
	deviceSetup struct {
		RvInfo    [][]protocol.RvInstruction
		GUID      protocol.GUID
		Nonce     protocol.Nonce
		Owner2Key protocol.PublicKey
	}
	svcInfo struct {
		IsMore bool
		Info   []*serviceinfo.KV
	}
)

// WaitSeconds is the TTL an honest 22 asks for.
const WaitSeconds = 3600

func enc(v any) []byte {
	b, err := cbor.Marshal(v)
	if err != nil {
		panic(err)
	}
	return b
}

// build makes the plaintext body of a message from a context, honest or with one message-specific fault.
func (d *Driver) build(msg int, c *sess, fault string) built {
	switch msg {
	case 10:
		return d.build10(c, fault)
	case 12:
		b := built{has: c.diOVH != nil}
		var h protocol.Hmac
		if b.has {
			mk, _ := c.diOVH.ManufacturerKey.Public()
			h = hmacOf(c.diKey.Public(), mk, c.diSecret, c.diOVH)
		}
		b.plain = enc(struct{ Hmac protocol.Hmac }{h})
		return b
	case 20:
		return built{plain: []byte{0x80}, has: true, onResp: func(typ int, body []byte) {
			var ack struct{ Nonce protocol.Nonce }
			if typ == 21 && cbor.Unmarshal(body, &ack) == nil {
				c.nonce, c.hasNonce = ack.Nonce, true
			}
		}}
	case 22:
		return d.build22(c, fault)
	case 30:
		guid := d.dev.Cred.GUID
		if fault == "unknown-guid" {
			guid = protocol.GUID(rnd(16))
		}
		b := built{has: true, onResp: func(typ int, body []byte) {
			var ack struct {
				Nonce protocol.Nonce
				Sig   sigInfo
			}
			if typ == 31 && cbor.Unmarshal(body, &ack) == nil {
				c.nonce, c.hasNonce = ack.Nonce, true
			}
		}}
		b.plain = startBody(c, fault, func() []byte {
			return enc(struct {
				GUID protocol.GUID
				Sig  sigInfo
			}{guid, sigInfo{Type: sigAlg(d.dev.Key, d.pss)}})
		})
		return b
	case 32:
		f := eatFaults{nonce: fault == "nonce", guid: fault == "ueid-guid", ueidType: fault == "ueid-type", noNonce: fault == "no-nonce-claim"}
		o := s1opt{nullPayload: fault == "null-payload", flip: fault == "sig-flip"}
		f.nonceType = fault == "nonce-type"
		f.nonceEmpty, f.noncePrefix = fault == "nonce-empty", fault == "nonce-prefix"
		key, guid := d.signer(fault == "signer"), d.dev.Cred.GUID
		if fault == "other-device" {
			key, guid = d.otherDevice()
		}
		return built{has: c.hasNonce, plain: sign1(key, d.pss, nil, eat(guid, c.nonce, nil, f), o)}
	case 60:
		return d.build60(c, fault)
	case 62:
		i := map[string]int{"index-len": c.nEntries, "index-neg": -1, "index-big": 1000}[fault]
		if fault == "index-len" && !c.has61 {
			i = 1
		}
		return built{has: true, plain: enc(struct{ I int }{i})}
	case 64:
		return d.build64(c, fault)
	case 66:
		b := built{has: c.has65}
		var h *protocol.Hmac
		if !d.cfg.Reuse {
			hm := protocol.Hmac{Algorithm: protocol.HmacSha256Hash, Value: rnd(32)} // without a 65 there is no header to authenticate
			if c.has65 {
				o2, _ := c.repl.ManufacturerKey.Public()
				hm = hmacOf(d.dev.Key.Public(), o2, d.dev.Secret, &c.repl)
			}
			h, b.hmac = &hm, true
		}
		mtu := uint16(serviceinfo.DefaultMTU)
		b.plain = enc(struct {
			Hmac *protocol.Hmac
			Max  *uint16
		}{h, &mtu})
		b.onResp = func(typ int, body []byte) {
			var r struct{ Max *uint16 }
			if p, ok := c.open(typ, 67, body); ok && cbor.Unmarshal(p, &r) == nil && r.Max != nil {
				c.mtu = *r.Max
			}
		}
		return b
	case 68:
		// a device sends its devmod in the first DeviceServiceInfo and nothing (it has no active module) afterwards
		m := svcInfo{}
		if !c.devmodSent {
			m.Info = d.devmod(c.mtu)
		}
		return built{has: c.has65, plain: enc(m), onResp: func(typ int, body []byte) {
			if _, ok := c.open(typ, 69, body); ok {
				c.devmodSent = true
			}
		}}
	case 70:
		n := c.proveDv
		if fault == "nonce" {
			n = protocol.Nonce(rnd(16))
		}
		return built{has: c.has65, plain: enc(struct{ N protocol.Nonce }{n})}
	case 255:
		prev := map[protocol.Protocol]uint8{protocol.DIProtocol: 11, protocol.TO0Protocol: 21, protocol.TO1Protocol: 31}[c.proto]
		if prev == 0 {
			prev = 61
		}
		if v, ok := map[string]uint8{"prev-0": 0, "prev-99": 99, "prev-255": 255}[fault]; ok {
			prev = v
		}
		return built{has: true, plain: enc(protocol.ErrorMessage{Code: protocol.InternalServerErrCode, PrevMsgType: prev, ErrString: "raw client gives up", Timestamp: time.Now().Unix()})}
	}
	return built{has: true, plain: []byte{0x80}}
}

// open decrypts a tunnelled reply of the expected type.
func (c *sess) open(typ, want int, body []byte) ([]byte, bool) {
	if typ != want || c.kx == nil {
		return nil, false
	}
	p, err := c.kx.Decrypt(rand.Reader, bytes.NewReader(body))
	return p, err == nil
}

// startBody returns the start message: on an honest replay the very bytes of the source session, else a fresh build.
func startBody(c *sess, fault string, fresh func() []byte) []byte {
	if fault == "" && c.startBody != nil {
		return c.startBody
	}
	b := fresh()
	if fault == "" {
		c.startBody = b
	}
	return b
}

// ---- DI ----

func (d *Driver) build10(c *sess, fault string) built {
	b := built{has: true, onResp: func(typ int, body []byte) {
		var sc struct{ OVH cbor.Bstr[fdo.VoucherHeader] }
		if typ == 11 && cbor.Unmarshal(body, &sc) == nil {
			c.diOVH = &sc.OVH.Val
		}
	}}
	b.plain = startBody(c, fault, func() []byte {
		// same construction as env.NewDevice
		d.nDI++
		c.diKey, c.diSecret = env.Key(d.e.Spec, fmt.Sprintf("rawdi%d", d.nDI%4)), rnd(32)
		der, err := x509.CreateCertificateRequest(rand.Reader, &x509.CertificateRequest{Subject: pkix.Name{CommonName: "device"}}, c.diKey)
		if err != nil {
			panic(err)
		}
		csr, _ := x509.ParseCertificateRequest(der)
		info := custom.DeviceMfgInfo{KeyType: d.e.Spec.Type, KeyEncoding: protocol.X509KeyEnc, SerialNumber: fmt.Sprintf("raw%d", d.nDI),
			DeviceInfo: "verif", CertInfo: cbor.X509CertificateRequest(*csr)}
		return enc(struct {
			Info *cbor.Bstr[custom.DeviceMfgInfo]
		}{cbor.NewBstr(info)})
	})
	return b
}

// ---- TO0 ----

func (d *Driver) build22(c *sess, fault string) built {
	b := built{has: c.hasNonce}
	ov, err := d.e.DB.Voucher(d.ctx, d.dev.Cred.GUID)
	if err != nil || len(ov.Entries) == 0 || ov.Entries[0].Payload == nil {
		return built{plain: []byte{0x80}} // the device has no extended voucher (any more): nothing honest can be built
	}
	alg := ov.Entries[0].Payload.Val.PreviousHash.Algorithm
	v := *ov
	switch fault {
	case "no-entries":
		v.Entries = nil
	case "header-from-other-voucher":
		// the splice of someone who legitimately owns another device of the same manufacturer: the victim's header, HMAC and
		// certificate chain around the entries of his own voucher, with a blob he signs himself
		if d.Other != nil {
			if o, err := d.e.DB.Voucher(d.ctx, d.Other.Cred.GUID); err == nil {
				v.Header, v.Hmac, v.CertChain = o.Header, o.Hmac, o.CertChain
			}
		}
	case "entry-sig-flip":
		v.Entries = append([]cose.Sign1Tag[fdo.VoucherEntryPayload, []byte](nil), ov.Entries...)
		v.Entries[0].Signature = flip(v.Entries[0].Signature)
	}
	t := to0d{Voucher: v, WaitSeconds: WaitSeconds, Nonce: c.nonce}
	if fault == "ttl-zero" {
		t.WaitSeconds = 0
	}
	if fault == "nonce" {
		t.Nonce = protocol.Nonce(rnd(16))
	}
	hashed := enc(t)
	if fault == "to0d-hash" {
		hashed = append(hashed, 0)
	}
	h := alg.HashFunc().New()
	h.Write(hashed)
	role := map[string]string{"to1d-signer-stranger": "stranger", "to1d-signer-mfg": "mfg", "to1d-signer-former-owner": "owner"}[fault]
	if role == "" {
		role = "owner"
		if d.cfg.OwnerRole != "" {
			role = d.cfg.OwnerRole
		}
	}
	key := env.Key(d.e.Spec, role)
	to1d := cose.Sign1[protocol.To1d, []byte]{Payload: cbor.NewByteWrap(protocol.To1d{RV: d.rvTo, To0dHash: protocol.Hash{Algorithm: alg, Value: h.Sum(nil)}})}
	if err := to1d.Sign(key, nil, nil, signOpts(key, d.pss)); err != nil {
		panic(err)
	}
	if fault == "to1d-sig-flip" {
		to1d.Signature = flip(to1d.Signature)
	}
	if fault == "to1d-sig-short" && len(to1d.Signature) > 2 {
		to1d.Signature = to1d.Signature[:len(to1d.Signature)-2]
	}
	b.plain = enc(struct {
		To0d cbor.Bstr[to0d]
		To1d cose.Sign1Tag[protocol.To1d, []byte]
	}{*cbor.NewBstr(t), *to1d.Tag()})
	return b
}

// ---- TO2 ----

func (d *Driver) build60(c *sess, fault string) built {
	b := built{has: true, onResp: func(typ int, body []byte) {
		var p cose.Sign1Tag[ovhProof, []byte]
		if typ != 61 || cbor.Unmarshal(body, &p) != nil || p.Payload == nil {
			return
		}
		var pk protocol.PublicKey
		if ok, err := p.Unprotected.Parse(cose.Label{Int64: 257}, &pk); ok && err == nil {
			c.ownerPub, _ = pk.Public()
		}
		if ok, err := p.Unprotected.Parse(cose.Label{Int64: 256}, &c.proveDv); !ok || err != nil {
			return
		}
		v := p.Payload.Val
		c.xA, c.nEntries, c.ovh, c.has61 = bytes.Clone(v.XA), int(v.NumEntries), v.OVH.Val, true
	}}
	b.plain = startBody(c, fault, func() []byte {
		rsaDev := false
		if _, ok := d.dev.Key.Public().(*rsa.PublicKey); ok {
			rsaDev = true
		}
		h := helloDevice{MaxMsg: 65535, GUID: d.dev.Cred.GUID, Nonce: protocol.Nonce(rnd(16)), Kex: d.cfg.Kex, Cipher: d.cfg.Cipher,
			SigInfo: sigInfo{Type: sigAlg(d.dev.Key, d.pss)}}
		switch fault {
		case "unknown-guid":
			h.GUID = protocol.GUID(rnd(16))
		case "kex-invalid": // a suite FDO 1.1 section 3.6.5 does not allow for the owner key type
			h.Kex = kex.DHKEXid14Suite
			if rsaDev {
				h.Kex = kex.ECDH256Suite
			}
			c.badKex = true
		case "cipher-unknown":
			h.Cipher = 9999
		case "sigtype-mismatch": // another key type than the device's (and the manufacturer's)
			h.SigInfo.Type = cose.ES384Alg
			if h.SigInfo.Type == sigAlg(d.dev.Key, d.pss) {
				h.SigInfo.Type = cose.ES256Alg
			}
		}
		return enc(h)
	})
	return b
}

func (d *Driver) build64(c *sess, fault string) built {
	b := built{has: c.has61 && !c.badKex} // after a HelloDevice naming another suite the driver's parameter cannot fit
	var pend kex.Session
	var xB []byte
	if c.has61 {
		if pend = d.cfg.Kex.New(bytes.Clone(c.xA), d.cfg.Cipher); pend != nil {
			rsaOwner, _ := c.ownerPub.(*rsa.PublicKey)
			xB, _ = pend.Parameter(rand.Reader, rsaOwner)
		}
	}
	if xB == nil {
		xB, pend, b.has = make([]byte, 16), nil, false
	}
	if fault == "xb-garbage" {
		xB = rnd(len(xB))
	}
	setup := protocol.Nonce(rnd(16))
	unprot := cose.HeaderMap{{Int64: -259}: setup}
	if fault == "no-setup-nonce" {
		unprot = nil
	}
	var fdoClaim any = []any{xB}
	f := eatFaults{nonce: fault == "nonce", guid: fault == "ueid", nonceEmpty: fault == "nonce-empty", noncePrefix: fault == "nonce-prefix"}
	if fault == "no-fdo-claim" {
		fdoClaim = nil
	}
	o := s1opt{nullPayload: fault == "null-payload", flip: fault == "sig-flip", algZero: fault == "alg-unknown"}
	o.alg512, o.short = fault == "alg-512", fault == "sig-short"
	key, guid := d.signer(fault == "signer"), d.dev.Cred.GUID
	if fault == "other-device" {
		key, guid = d.otherDevice()
	}
	b.plain = sign1(key, d.pss, unprot, eat(guid, c.proveDv, fdoClaim, f), o)
	b.onResp = func(typ int, body []byte) {
		if typ != 65 && pend != nil && d.KeepRejectedKeys {
			c.kx, c.has65 = pend, true
		}
		if typ != 65 || pend == nil {
			return
		}
		plain, err := pend.Decrypt(rand.Reader, bytes.NewReader(body))
		var sd cose.Sign1Tag[deviceSetup, []byte]
		if err != nil || cbor.Unmarshal(plain, &sd) != nil || sd.Payload == nil {
			return
		}
		v := sd.Payload.Val
		c.repl = fdo.VoucherHeader{Version: c.ovh.Version, GUID: v.GUID, RvInfo: v.RvInfo, DeviceInfo: c.ovh.DeviceInfo,
			ManufacturerKey: v.Owner2Key, CertChainHash: c.ovh.CertChainHash}
		c.kx, c.has65 = pend, true
	}
	return b
}

// devmod is what serviceinfo.Devmod writes for the module list [ModuleName], read back as one batch of KVs.
func (d *Driver) devmod(mtu uint16) (kvs []*serviceinfo.KV) {
	r, w := serviceinfo.NewChunkOutPipe(64) // buffered: Write below completes without a reader
	dm := serviceinfo.Devmod{Os: "linux", Arch: "amd64", Version: "1", Device: "verif", FileSep: "/", Bin: "amd64"}
	dm.Write(d.ctx, map[string]serviceinfo.DeviceModule{ModuleName: serviceinfo.UnknownModule{}}, mtu, w)
	for {
		kv, err := r.ReadChunk(60000)
		switch {
		case err == nil:
			kvs = append(kvs, kv)
		case errors.Is(err, serviceinfo.ErrSizeTooSmall): // a forced message boundary
		case errors.Is(err, io.EOF):
			return kvs
		default:
			panic(err)
		}
	}
}

// ---- keys, signatures, hashes ----

// SignOpts gives the signer options the library's clients use for a key.
func SignOpts(key crypto.Signer, pss bool) crypto.SignerOpts { return signOpts(key, pss) }

// otherDevice: key and GUID of the second enrolled device (a stranger's when there is none).
func (d *Driver) otherDevice() (crypto.Signer, protocol.GUID) {
	if d.Other != nil {
		return d.Other.Key, d.Other.Cred.GUID
	}
	return env.Key(d.e.Spec, "rawother"), protocol.GUID(rnd(16))
}

// signer is the device key, or for the "signer" faults another key of the same type.
func (d *Driver) signer(other bool) crypto.Signer {
	if other {
		return env.Key(d.e.Spec, "rawother")
	}
	return d.dev.Key
}

func signOpts(key crypto.Signer, pss bool) crypto.SignerOpts {
	pub, ok := key.Public().(*rsa.PublicKey)
	if !ok {
		return nil
	}
	h := crypto.SHA256
	if pub.Size() > 256 {
		h = crypto.SHA384
	}
	if pss {
		return &rsa.PSSOptions{SaltLength: rsa.PSSSaltLengthEqualsHash, Hash: h}
	}
	return h
}

func sigAlg(key crypto.Signer, pss bool) cose.SignatureAlgorithm {
	a, err := cose.SignatureAlgorithmFor(key.Public(), signOpts(key, pss))
	if err != nil {
		panic(err)
	}
	return a
}

// hmacOf is the HMAC of a voucher header under the device secret, with the hash the library selects for the key pair.
func hmacOf(dev, owner crypto.PublicKey, secret []byte, ovh *fdo.VoucherHeader) protocol.Hmac {
	size := func(k crypto.PublicKey) int {
		switch k := k.(type) {
		case *ecdsa.PublicKey:
			return k.Curve.Params().BitSize
		case *rsa.PublicKey:
			return k.Size()
		}
		return 256
	}
	alg, h := protocol.HmacSha256Hash, hmac.New(sha256.New, secret)
	if min(size(dev), size(owner)) > 256 {
		alg, h = protocol.HmacSha384Hash, hmac.New(sha512.New384, secret)
	}
	h.Write(enc(ovh))
	return protocol.Hmac{Algorithm: alg, Value: h.Sum(nil)}
}

func flip(b []byte) []byte {
	b = bytes.Clone(b)
	if len(b) > 0 {
		b[len(b)/2] ^= 0x04
	}
	return b
}
