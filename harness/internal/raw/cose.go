package raw

import (
	"crypto"
	"crypto/ecdsa"
	"crypto/rand"

	"github.com/fido-device-onboard/go-fdo/cbor"
	"github.com/fido-device-onboard/go-fdo/cose"
	"github.com/fido-device-onboard/go-fdo/protocol"
)

type eatFaults struct{ nonce, guid, ueidType, noNonce, nonceType, nonceEmpty, noncePrefix bool }

// eat encodes the claims map of a device attestation token: {10: nonce, 256: 0x01||GUID, -257: fdo claim}.
func eat(guid protocol.GUID, nonce protocol.Nonce, fdoClaim any, f eatFaults) []byte {
	if f.nonce {
		nonce = protocol.Nonce(rnd(16))
	}
	if f.guid {
		guid = protocol.GUID(rnd(16))
	}
	ueid := append([]byte{0x01}, guid[:]...)
	if f.ueidType {
		ueid[0] = 0x02
	}
	m := map[int64]any{256: ueid}
	if !f.noNonce {
		m[10] = nonce[:]
	}
	if f.nonceEmpty {
		m[10] = []byte{}
	}
	if f.noncePrefix { // the first half of the right nonce
		m[10] = nonce[:8]
	}
	if f.nonceType { // the right nonce, but not as a byte string
		m[10] = []any{nonce[:]}
	}
	if fdoClaim != nil {
		m[-257] = fdoClaim
	}
	return enc(m)
}

type s1opt struct{ nullPayload, flip, algZero, alg512, short bool }

// sign1 encodes a tagged COSE_Sign1 over payload, signed as the library's clients sign.
func sign1(key crypto.Signer, pss bool, unprot cose.HeaderMap, payload []byte, o s1opt) []byte {
	opts := signOpts(key, pss)
	s := cose.Sign1[cbor.RawBytes, []byte]{Header: cose.Header{Unprotected: unprot}, Payload: cbor.NewByteWrap(cbor.RawBytes(payload))}
	if err := s.Sign(key, nil, nil, opts); err != nil {
		panic(err)
	}
	if o.algZero {
		// the same signature computation over a protected header that names algorithm 0
		s.Protected[cose.AlgLabel] = int64(0)
		tbs := enc(struct {
			Context   string
			Protected []byte
			Aad       []byte
			Payload   []byte
		}{"Signature1", enc(map[int64]int64{1: 0}), []byte{}, payload})
		h := sigAlg(key, pss).HashFunc().New()
		h.Write(tbs)
		sk := key
		if _, ok := key.Public().(*ecdsa.PublicKey); ok {
			sk = cose.RFC8152Signer{Signer: key}
		}
		sig, err := sk.Sign(rand.Reader, h.Sum(nil), opts)
		if err != nil {
			panic(err)
		}
		s.Signature = sig
	}
	if o.alg512 {
		// a registered algorithm the key types of FDO never use, with signature bytes of the usual length that nobody computed
		alg := int64(-36) // ES512
		if _, ok := key.Public().(*ecdsa.PublicKey); !ok {
			alg = -259 // RS512
			if pss {
				alg = -39 // PS512
			}
		}
		s.Protected[cose.AlgLabel] = alg
		s.Signature = rnd(len(s.Signature))
	}
	if o.flip {
		s.Signature = flip(s.Signature)
	}
	if o.short && len(s.Signature) > 2 {
		s.Signature = s.Signature[:len(s.Signature)-2]
	}
	if o.nullPayload {
		s.Payload = nil
	}
	return enc(s.Tag())
}
