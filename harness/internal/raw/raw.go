// Package raw is a hand-built FDO client for the server-side protocol checks: it sends any message type, in any order,
// with any token, honest or with exactly one named fault, to the real http.Handler of an env.Env and reports the reply,
// the journal effects and the facts (OK/Enc/Hmac) it established by construction. The library's client functions are
// not used for the messages of the sessions under test.
package raw

import (
	"bytes"
	"context"
	"crypto"
	"crypto/rand"
	"crypto/rsa"
	"encoding/base64"
	"fmt"
	"io"
	"iter"
	"net/http"
	"strconv"
	"strings"

	fdo "github.com/fido-device-onboard/go-fdo"
	"github.com/fido-device-onboard/go-fdo/cbor"
	"github.com/fido-device-onboard/go-fdo/cose"
	"github.com/fido-device-onboard/go-fdo/kex"
	"github.com/fido-device-onboard/go-fdo/protocol"
	"github.com/fido-device-onboard/go-fdo/serviceinfo"

	"verifharness/internal/env"
)

type TokKind int

const (
	TokSession TokKind = iota // the token of session Sess
	TokNone                   // no Authorization header
	TokForged                 // well-formed base64url of 48 random bytes
	TokDamaged                // Variant%4: 0 "!!", 1 three characters, 2 truncated real token, 3 real token without "Bearer "
)

type Step struct {
	Msg      int     // message type to send
	Sess     int     // session context whose token is presented and (unless BodyFrom>=0) whose state builds the body
	Tok      TokKind //
	BodyFrom int     // -1 = same as Sess; otherwise build the body from that context (cross-session replay)
	Fault    string  // "" = honest, otherwise one of Faults(Msg)
	Variant  int     // selects the form of a damaged token
}

type Result struct {
	RespType int          // Message-Type of the reply; 255 error; 0 "no such handler"; -1 no Message-Type header
	Status   int          // HTTP status
	Panic    string       // the handler panicked
	ErrStr   string       // the error string of a 255 reply (which check refused the message)
	Err      string       // the driver could not build/send the step (unknown fault, driver-side panic); nothing else is valid
	Body     []byte       // the reply body as received
	Effects  []env.Effect // journal entries added by this request
	NewSess  int          // index of the session context created by this step, else -1
	OK       bool         // every check the responder makes on this body should pass
	Enc      bool         // body encrypted under the tunnel keys of the session the token names
	Hmac     bool         // (66) the body carries a replacement HMAC
}

type Config struct {
	Kex    kex.Suite
	Cipher kex.CipherSuiteID
	Reuse  bool // false: 66 carries an HMAC
	// OwnerRole names the key (env.Key role) that currently owns the device's voucher; "" = "owner". With a voucher
	// extended beyond the deployment's owner, "owner" is a FORMER owner.
	OwnerRole string
}

// sess is the client-side context of one protocol session.
type sess struct {
	proto     protocol.Protocol
	token     string
	startMsg  int
	startBody []byte // the honest start message as first built, resent on replays

	diKey    crypto.Signer // DI: the device under manufacture
	diSecret []byte
	diOVH    *fdo.VoucherHeader // from 11

	nonce    protocol.Nonce // TO0: from 21; TO1: from 31
	hasNonce bool

	badKex   bool // TO2: the HelloDevice named a suite that is not the driver's
	has61    bool // TO2: learned from 61
	proveDv  protocol.Nonce
	xA       []byte
	nEntries int
	ovh      fdo.VoucherHeader
	ownerPub crypto.PublicKey

	has65      bool        // 64/65 completed: kx holds the tunnel keys
	srvKex     bool        // the owner answered a ProveDevice of this session with 65: its key exchange is complete (whether or not this client could derive the keys)
	rekeyed    bool        // the owner accepted a SECOND ProveDevice (ASYMKEX): it now holds keys derived from its own cleared parameter, nobody else has them
	kx         kex.Session //
	repl       fdo.VoucherHeader
	mtu        uint16 // from 67
	devmodSent bool   // a 68 with the devmod KVs was answered with 69
}

type Driver struct {
	// KeepRejectedKeys: after a ProveDevice that was refused the driver keeps the tunnel keys it derived (as an attacker
	// would) and encrypts later messages with them
	KeepRejectedKeys bool
	Other            *env.Device // a second device enrolled with the same owner: faults "other-device" present its genuine proof
	// Mutate (optional) alters the plaintext body of a message after it was built and before tunnel encryption, so that an
	// altered 66/68/70 body still decrypts and reaches the responder. Send (optional) replaces the transmission of the
	// finished request (default: e.RT.Do); it sees the bytes as they go on the wire. Both leave the facts OK/Enc/Hmac as
	// computed for the unaltered message: callers that alter a message must not rely on them.
	Mutate func(msg int, plain []byte) []byte
	Send   func(msg int, body []byte, hdr http.Header) *http.Response
	e      *env.Env
	dev    *env.Device
	cfg    Config
	ss     []*sess
	nDI    int
	pss    bool
	ctx    context.Context
	rvTo   []protocol.RvTO2Addr
}

// NewDriver: dev is a device onboarded by DI whose voucher (1 entry, owner = env owner key) is in e.DB.
func NewDriver(e *env.Env, dev *env.Device, cfg Config) *Driver {
	host := "owner.test"
	return &Driver{e: e, dev: dev, cfg: cfg, pss: e.Spec.Type == protocol.RsaPssKeyType, ctx: context.Background(),
		rvTo: []protocol.RvTO2Addr{{DNSAddress: &host, Port: 8043, TransportProtocol: protocol.HTTPSTransport}}}
}

func (d *Driver) Sessions() int { return len(d.ss) }

// Token is the session token of context i ("" when there is none).
func (d *Driver) Token(i int) string {
	if c := d.sess(i); c != nil {
		return c.token
	}
	return ""
}

// SessionFacts reports what session context i learned from the responder: the TO0/TO1 nonce (from 21/31) and the
// ProveDevice nonce (from 61). Used to state, outside the driver, what a proof for that session must contain.
func (d *Driver) SessionFacts(i int) (nonce protocol.Nonce, hasNonce bool, proveDv protocol.Nonce, has61 bool) {
	c := d.sess(i)
	if c == nil {
		return nonce, false, proveDv, false
	}
	return c.nonce, c.hasNonce, c.proveDv, c.has61
}

func (d *Driver) sess(i int) *sess {
	if i < 0 || i >= len(d.ss) {
		return nil
	}
	return d.ss[i]
}

func isStart(m int) bool   { return m == 10 || m == 20 || m == 30 || m == 60 }
func tunnelled(m int) bool { return m >= 65 && m <= 254 }

var faults = map[int][]string{
	22:  {"to0d-hash", "nonce", "to1d-signer-stranger", "to1d-signer-mfg", "to1d-sig-flip", "no-entries", "entry-sig-flip", "ttl-zero", "header-from-other-voucher", "to1d-sig-short", "to1d-signer-former-owner"},
	30:  {"unknown-guid"},
	32:  {"nonce", "nonce-empty", "nonce-prefix", "ueid-guid", "ueid-type", "signer", "sig-flip", "no-nonce-claim", "null-payload", "other-device", "nonce-type"},
	60:  {"unknown-guid", "kex-invalid", "cipher-unknown", "sigtype-mismatch"},
	62:  {"index-len", "index-neg", "index-big"},
	64:  {"nonce", "nonce-empty", "nonce-prefix", "ueid", "signer", "sig-flip", "no-setup-nonce", "no-fdo-claim", "xb-garbage", "null-payload", "alg-unknown", "other-device", "alg-512", "sig-short"},
	70:  {"nonce"},
	255: {"prev-0", "prev-99", "prev-255"}, // error messages naming a previous message type outside every protocol
}

// Faults lists the faults the driver implements for a message type. "garbage", "empty", "truncated" replace or cut the
// body as sent; for tunnelled types "plaintext", "wrong-keys", "bitflip" break the encryption (Enc=false) and
// "enc-garbage" (the text string "x": refused by the responder) and "enc-truncated" (honest plaintext minus its last
// byte: refused when the handler decodes the plaintext) are properly encrypted (Enc=true, OK=false).
func Faults(msg int) []string {
	out := append([]string{"garbage", "empty", "truncated"}, faults[msg]...)
	if tunnelled(msg) {
		out = append(out, "plaintext", "wrong-keys", "zero-keys", "bitflip", "enc-garbage", "enc-truncated")
	}
	return out
}

// Undetectable reports faults the server cannot (or, by its configuration, does not) reject: the fact OK stays true.
//   - 22 ttl-zero when the deployment's AcceptTTL turns 0 into a positive TTL (AcceptTTL(0) is called to find out);
//   - 64 xb-garbage under DHKEXid14/15: every integer in [2, p-2] is an acceptable Diffie-Hellman public value, so random
//     bytes of the right length pass every check the server can make (the sender merely cannot compute the keys).
func (d *Driver) Undetectable(msg int, fault string) bool {
	switch {
	case msg == 22 && fault == "ttl-zero" && d.e.AcceptTTL != nil:
		ttl, err := d.e.AcceptTTL(0)
		return err == nil && ttl > 0
	case msg == 60 && fault == "kex-invalid":
		// kex.Suite.Valid accepts every suite for RSA owner keys (tracked under C09), so the server cannot tell
		_, isRSA := d.dev.Key.Public().(*rsa.PublicKey)
		return isRSA
	case msg == 22 && fault == "to1d-signer-former-owner":
		return d.cfg.OwnerRole == "" || d.cfg.OwnerRole == "owner" // with an unextended voucher "owner" IS the current owner
	case msg == 64 && fault == "xb-garbage":
		return d.cfg.Kex == kex.DHKEXid14Suite || d.cfg.Kex == kex.DHKEXid15Suite
	}
	return false
}

// built is one message ready to be sent.
type built struct {
	plain  []byte // body before tunnel encryption
	has    bool   // the context held everything the message needs
	hmac   bool
	onResp func(typ int, body []byte) // learns from the reply; run only when the body context is the token's session
}

func (d *Driver) Do(s Step) (res Result) {
	res = Result{RespType: -1, NewSess: -1}
	j0 := d.e.Journal.Len()
	defer func() {
		if r := recover(); r != nil {
			res.Err = fmt.Sprint("driver panic: ", r)
		}
		res.Effects = d.e.Journal.Since(j0)
	}()
	if !known(s.Msg, s.Fault) {
		res.Err = fmt.Sprintf("unknown fault %q for message %d", s.Fault, s.Msg)
		return res
	}

	// contexts: tc is named by the token, bc builds the body
	var tc *sess
	if s.Tok == TokSession {
		tc = d.sess(s.Sess)
	}
	start := isStart(s.Msg)
	var bc *sess
	switch {
	case start:
		bc = d.newSess(s.Msg, d.sess(s.BodyFrom))
	case s.BodyFrom >= 0:
		bc = d.sess(s.BodyFrom)
	default:
		bc = d.sess(s.Sess)
	}
	if bc == nil {
		bc = &sess{proto: protocol.Of(uint8(s.Msg))} // a context that never learned anything
	}
	own := start || (tc != nil && tc == bc)

	b := d.build(s.Msg, bc, s.Fault)
	if d.Mutate != nil {
		b.plain = d.Mutate(s.Msg, b.plain)
	}
	body, enc := d.wrap(s.Msg, bc, b, s.Fault)

	// 62 has no session-dependent content; 12 carries an HMAC the manufacturer cannot check (it never sees the device secret)
	res.OK = (s.Fault == "" || d.Undetectable(s.Msg, s.Fault)) && b.has && (own || (tc != nil && s.Msg == 62))
	if s.Msg == 12 && s.Fault == "" {
		res.OK = true // any well-formed HMAC structure passes: nothing in it can be checked by the manufacturer
	}
	// the owner looks the voucher up by GUID at 60, 62, 64, at 66 when the deployment sizes the device's messages per
	// voucher (MaxDeviceServiceInfoSize), and, when replacing it, at 70: once a completed TO2 has replaced
	// it (the device now lives under the replacement GUID) those requests name a voucher that is gone
	if s.Msg == 60 || s.Msg == 62 || s.Msg == 64 || (s.Msg == 66 && d.e.TO2S.MaxDeviceServiceInfoSize != nil) || (s.Msg == 70 && !d.cfg.Reuse) {
		if _, err := d.e.DB.Voucher(d.ctx, d.dev.Cred.GUID); err != nil {
			res.OK = false
		}
	}
	// a second ProveDevice in a session whose key exchange is complete: ECDH and DH sessions take no second parameter
	// ("already completed"), the ASYMKEX session simply re-keys
	if s.Msg == 64 && tc != nil && tc.srvKex && d.cfg.Kex != kex.ASYMKEX2048Suite && d.cfg.Kex != kex.ASYMKEX3072Suite {
		res.OK = false
	}
	res.Enc = tunnelled(s.Msg) && enc && own
	if tc != nil && tc.rekeyed && tunnelled(s.Msg) {
		res.Enc, res.OK = false, false
	}
	second64 := s.Msg == 64 && tc != nil && tc.srvKex
	res.Hmac = s.Msg == 66 && b.hmac && !mangles(s.Fault)
	if tunnelled(s.Msg) && !enc {
		res.OK = false
	}
	if s.Msg == 22 && d.e.AcceptTTL != nil && s.Fault != "ttl-zero" { // the deployment's policy may refuse or shorten
		if ttl, err := d.e.AcceptTTL(WaitSeconds); err != nil || ttl == 0 {
			res.OK = false
		}
	}

	hdr := http.Header{}
	hdr.Set("Content-Type", "application/cbor")
	if a := d.auth(s); a != "" {
		hdr.Set("Authorization", a)
	}
	var resp *http.Response
	if d.Send != nil {
		resp = d.Send(s.Msg, body, hdr)
	} else {
		resp = d.e.RT.Do(s.Msg, body, hdr)
	}
	rb, _ := io.ReadAll(resp.Body)
	_ = resp.Body.Close()
	res.Body = rb
	res.Status = resp.StatusCode
	if log := d.e.RT.Log; len(log) > 0 { // Do has just appended its exchange
		res.Panic = log[len(log)-1].Panic
	}
	if mt := resp.Header.Get("Message-Type"); mt != "" {
		res.RespType, _ = strconv.Atoi(strings.TrimSpace(mt))
	}
	var em protocol.ErrorMessage
	if res.RespType == 255 && cbor.Unmarshal(rb, &em) == nil {
		res.ErrStr = fmt.Sprintf("%d: %s", em.Code, em.ErrString)
	}
	if start {
		if tok := strings.TrimPrefix(resp.Header.Get("Authorization"), "Bearer "); tok != "" {
			bc.token = tok
			d.ss = append(d.ss, bc)
			res.NewSess = len(d.ss) - 1
		}
	}
	if own && b.onResp != nil && res.Panic == "" {
		b.onResp(res.RespType, rb)
	}
	if second64 && res.RespType == 65 {
		tc.rekeyed = true
	}
	if s.Msg == 64 && tc != nil && res.RespType == 65 {
		tc.srvKex = true
	}
	return res
}

// mangles: the fault destroys the structure of the (plaintext) body.
func mangles(fault string) bool {
	switch fault {
	case "garbage", "empty", "truncated", "enc-garbage", "enc-truncated":
		return true
	}
	return false
}

func known(msg int, fault string) bool {
	if fault == "" {
		return true
	}
	for _, f := range Faults(msg) {
		if f == fault {
			return true
		}
	}
	return false
}

func (d *Driver) auth(s Step) string {
	real := ""
	if c := d.sess(s.Sess); c != nil {
		real = c.token
	}
	switch s.Tok {
	case TokSession:
		if real == "" {
			return ""
		}
		return "Bearer " + real
	case TokForged:
		return "Bearer " + base64.RawURLEncoding.EncodeToString(rnd(48))
	case TokDamaged:
		if real == "" {
			real = base64.RawURLEncoding.EncodeToString(rnd(48))
		}
		switch ((s.Variant % 4) + 4) % 4 {
		case 0:
			return "Bearer !!"
		case 1:
			return "Bearer abc"
		case 2:
			return "Bearer " + real[:len(real)-5]
		default:
			return real
		}
	}
	return ""
}

// newSess makes the context of a start message; with a source of the same kind the start message is a replay of it.
func (d *Driver) newSess(msg int, src *sess) *sess {
	ns := &sess{proto: protocol.Of(uint8(msg)), startMsg: msg, mtu: serviceinfo.DefaultMTU}
	if src != nil && src.startMsg == msg && src.startBody != nil {
		ns.startBody, ns.diKey, ns.diSecret = src.startBody, src.diKey, src.diSecret
	}
	return ns
}

// wrap applies the tunnel encryption and the body-level faults.
func (d *Driver) wrap(msg int, bc *sess, b built, fault string) (body []byte, enc bool) {
	body = b.plain
	if tunnelled(msg) {
		switch fault {
		case "enc-garbage":
			body = []byte{0x61, 0x78} // well-formed CBOR (the text "x") that is no message body: reaches the responder
		case "enc-truncated":
			body = body[:max(len(body)-1, 0)]
		}
		switch {
		case fault == "plaintext":
		case fault == "wrong-keys" || fault == "zero-keys":
			cs := d.cfg.Cipher.Suite()
			key := rnd
			if fault == "zero-keys" { // what a half-initialised session object might hold
				key = func(n int) []byte { return make([]byte, n) }
			}
			c := kex.SessionCrypter{ID: d.cfg.Cipher, Cipher: cs, SEK: key(int(cs.EncryptAlg.KeySize()))}
			if cs.MacAlg != 0 {
				c.SVK = key(int(cs.MacAlg.KeySize()))
			}
			body, _ = seal(c, body)
		case bc.has65:
			var ct []byte
			body, ct = seal(bc.kx, body)
			enc = body != nil
			if fault == "bitflip" {
				if i := bytes.LastIndex(body, ct); enc && i >= 0 && len(ct) > 0 {
					body[i+len(ct)/2] ^= 0x10
				}
				enc = false
			}
		}
	}
	switch fault {
	case "garbage":
		return []byte{0xff, 0x00}, false
	case "empty":
		return nil, false
	case "truncated":
		return body[:max(len(body)-1, 0)], false
	}
	return body, enc
}

// seal encrypts a plaintext as the session would and also returns the ciphertext field inside the result.
func seal(s interface {
	Encrypt(io.Reader, any) (any, error)
}, plain []byte) (body, ct []byte) {
	v, err := s.Encrypt(rand.Reader, cbor.RawBytes(plain))
	if err != nil {
		return nil, nil
	}
	switch t := v.(type) {
	case *cose.Encrypt0Tag[any, []byte]:
		ct = *t.Ciphertext
	case *cose.Mac0Tag[cose.Encrypt0[any, []byte], []byte]:
		ct = *t.Payload.Val.Ciphertext
	}
	body, _ = cbor.Marshal(v)
	return body, ct
}

func rnd(n int) []byte {
	b := make([]byte, n)
	_, _ = rand.Read(b)
	return b
}

// ---- the owner module of the deployments under test ----

// ModuleName is the only module the honest devmod advertises and the deployment runs.
const ModuleName = "fdo.verif"

// OneShotModule completes on its first ProduceInfo and journals every invocation.
type OneShotModule struct{ J *env.Journal }

func (m *OneShotModule) HandleInfo(_ context.Context, _ string, body io.Reader) error {
	m.J.Add("module-invoke", "", "handle")
	_, _ = io.Copy(io.Discard, body)
	return nil
}

func (m *OneShotModule) ProduceInfo(context.Context, *serviceinfo.Producer) (bool, bool, error) {
	m.J.Add("module-invoke", "", "produce")
	return false, true, nil
}

// OneShot is the OwnerModules setting the driver assumes: exactly one fresh OneShotModule per session.
func OneShot(e *env.Env) env.OwnerModules {
	return func(context.Context, protocol.GUID, serviceinfo.Devmod, []string) iter.Seq2[string, serviceinfo.OwnerModule] {
		return func(yield func(string, serviceinfo.OwnerModule) bool) {
			yield(ModuleName, &OneShotModule{J: e.Journal})
		}
	}
}
