// Package desc translates Go types (by reflection over the compiled go-fdo packages) into the
// descriptor syntax of the Rocq model (Cbor/Ty.v) and Go values into the model's value syntax.
package desc

import (
	"encoding/hex"
	"fmt"
	"math/big"
	"reflect"
	"sort"
	"strings"
	"time"

	"github.com/fido-device-onboard/go-fdo/cbor"
	"github.com/fido-device-onboard/go-fdo/cose"
)

var (
	tRaw       = reflect.TypeOf(cbor.RawBytes(nil))
	tCert      = reflect.TypeOf(cbor.X509Certificate{})
	tCsr       = reflect.TypeOf(cbor.X509CertificateRequest{})
	tTimestamp = reflect.TypeOf(cbor.Timestamp{})
	tLabel     = reflect.TypeOf(cose.IntOrStr{})
	tHeader    = reflect.TypeOf(cose.Header{})
	tBytes     = reflect.TypeOf([]byte(nil))
	tMarshaler = reflect.TypeOf((*cbor.Marshaler)(nil)).Elem()
	tStreamM   = reflect.TypeOf((*cbor.StreamMarshaler)(nil)).Elem()
	tUnm       = reflect.TypeOf((*cbor.Unmarshaler)(nil)).Elem()
	tStreamU   = reflect.TypeOf((*cbor.StreamUnmarshaler)(nil)).Elem()
)

const cborPkg = "github.com/fido-device-onboard/go-fdo/cbor"
const cosePkg = "github.com/fido-device-onboard/go-fdo/cose"

func generic(t reflect.Type, pkg, name string) bool {
	return t.PkgPath() == pkg && strings.HasPrefix(t.Name(), name+"[")
}

// ErrUnsupported marks shapes outside the model's universe (custom marshalers etc).
type ErrUnsupported struct{ T reflect.Type }

func (e ErrUnsupported) Error() string { return "unsupported shape: " + e.T.String() }

func custom(t reflect.Type) bool {
	// structs embedding cose.Header only inherit its (ErrSkip-returning) stream methods by promotion
	if t.Kind() == reflect.Struct {
		for i := 0; i < t.NumField(); i++ {
			if f := t.Field(i); f.Anonymous && f.Type == tHeader {
				return false
			}
		}
	}
	pt := reflect.PointerTo(t)
	return t.Implements(tMarshaler) || pt.Implements(tMarshaler) || t.Implements(tStreamM) || pt.Implements(tStreamM) ||
		t.Implements(tUnm) || pt.Implements(tUnm) || t.Implements(tStreamU) || pt.Implements(tStreamU)
}

// Of returns the model descriptor (s-expression) of a Go type.
func Of(t reflect.Type) (string, error) {
	switch {
	case t == tRaw:
		return "raw", nil
	case t == tCert:
		return "cert", nil
	case t == tCsr:
		return "csr", nil
	case t == tTimestamp:
		return "timestamp", nil
	case t == tLabel:
		return "label", nil
	case generic(t, cborPkg, "Tag"):
		in, err := Of(t.Field(1).Type)
		return "(tag " + in + ")", err
	case generic(t, cborPkg, "Bstr"):
		in, err := Of(t.Field(0).Type)
		return "(bstr " + in + ")", err
	case generic(t, cborPkg, "ByteWrap"):
		if t.Field(0).Type == tBytes {
			return "bwbytes", nil
		}
		in, err := Of(t.Field(0).Type)
		return "(bstr " + in + ")", err
	case generic(t, cosePkg, "Sign1Tag"):
		in, err := Of(t.Field(0).Type)
		return "(tagged n:12 " + in + ")", err
	case generic(t, cosePkg, "Mac0Tag"):
		in, err := Of(t.Field(0).Type)
		return "(tagged n:11 " + in + ")", err
	case generic(t, cosePkg, "Encrypt0Tag"):
		in, err := Of(t.Field(0).Type)
		return "(tagged n:10 " + in + ")", err
	}
	if custom(t) && t.Kind() != reflect.Pointer && t.Kind() != reflect.Interface {
		return "", ErrUnsupported{t}
	}
	switch t.Kind() {
	case reflect.Uint8:
		return "u8", nil
	case reflect.Uint16:
		return "u16", nil
	case reflect.Uint32:
		return "u32", nil
	case reflect.Uint64:
		return "u64", nil
	case reflect.Uint:
		return "uint", nil
	case reflect.Int8:
		return "i8", nil
	case reflect.Int16:
		return "i16", nil
	case reflect.Int32:
		return "i32", nil
	case reflect.Int64:
		return "i64", nil
	case reflect.Int:
		return "int", nil
	case reflect.Bool:
		return "bool", nil
	case reflect.String:
		return "text", nil
	case reflect.Slice:
		if t.Elem().Kind() == reflect.Uint8 {
			return "bytes", nil
		}
		in, err := Of(t.Elem())
		return "(slice " + in + ")", err
	case reflect.Array:
		if t.Elem().Kind() == reflect.Uint8 {
			return fmt.Sprintf("(fixed n:%x)", t.Len()), nil
		}
		return "", ErrUnsupported{t}
	case reflect.Pointer:
		in, err := Of(t.Elem())
		return "(ptr " + in + ")", err
	case reflect.Interface:
		if t.NumMethod() == 0 {
			return "any", nil
		}
		return "", ErrUnsupported{t}
	case reflect.Map:
		k, err := Of(t.Key())
		if err != nil {
			return "", err
		}
		v, err := Of(t.Elem())
		return "(map " + k + " " + v + ")", err
	case reflect.Struct:
		var sb strings.Builder
		sb.WriteString("(struct")
		fields := cbor.VerifFieldOrder(t)
		for i := 0; i < len(fields); i++ {
			f := fields[i]
			ft := t.FieldByIndex(f.Index).Type
			if f.Flat > 0 {
				if ft != tHeader || f.Flat != 2 {
					return "", ErrUnsupported{t}
				}
				sb.WriteString(" (r prothdr) (r (map label any))")
				i++ // the duplicate slot
				continue
			}
			in, err := Of(ft)
			if err != nil {
				return "", err
			}
			if f.Omittable {
				sb.WriteString(" (o " + in + ")")
			} else {
				sb.WriteString(" (r " + in + ")")
			}
		}
		sb.WriteString(")")
		return sb.String(), nil
	}
	return "", ErrUnsupported{t}
}

func hexInt(z *big.Int) string {
	if z.Sign() < 0 {
		return "-" + new(big.Int).Neg(z).Text(16)
	}
	return z.Text(16)
}

// Val renders a Go value in the model's value syntax, following the same shape rules as Of.
func Val(v reflect.Value) string {
	if !v.IsValid() {
		return "N"
	}
	t := v.Type()
	switch {
	case t == tRaw:
		return "(r b:" + hex.EncodeToString(v.Bytes()) + ")"
	case t == tCert:
		raw := v.FieldByName("Raw").Bytes()
		if raw == nil {
			return "N"
		}
		return "(b b:" + hex.EncodeToString(raw) + ")"
	case t == tCsr:
		raw := v.FieldByName("Raw").Bytes()
		if raw == nil {
			return "N"
		}
		return "(b b:" + hex.EncodeToString(raw) + ")"
	case t == tTimestamp:
		ts := time.Time(v.Interface().(cbor.Timestamp))
		if ts.IsZero() {
			return "N"
		}
		return "(i z:" + hexInt(big.NewInt(ts.Unix())) + ")"
	case t == tLabel:
		l := v.Interface().(cose.IntOrStr)
		if l.Int64 != 0 {
			return "(i z:" + hexInt(big.NewInt(l.Int64)) + ")"
		}
		return "(t b:" + hex.EncodeToString([]byte(l.Str)) + ")"
	case generic(t, cborPkg, "Tag"):
		return fmt.Sprintf("(tag n:%x %s)", v.Field(0).Uint(), Val(v.Field(1)))
	case generic(t, cborPkg, "Bstr"), generic(t, cborPkg, "ByteWrap"):
		return Val(v.Field(0))
	case generic(t, cosePkg, "Sign1Tag"), generic(t, cosePkg, "Mac0Tag"), generic(t, cosePkg, "Encrypt0Tag"):
		return Val(v.Field(0))
	}
	switch t.Kind() {
	case reflect.Uint8, reflect.Uint16, reflect.Uint32, reflect.Uint64, reflect.Uint:
		return "(i z:" + new(big.Int).SetUint64(v.Uint()).Text(16) + ")"
	case reflect.Int8, reflect.Int16, reflect.Int32, reflect.Int64, reflect.Int:
		return "(i z:" + hexInt(big.NewInt(v.Int())) + ")"
	case reflect.Bool:
		if v.Bool() {
			return "T"
		}
		return "F"
	case reflect.String:
		return "(t b:" + hex.EncodeToString([]byte(v.String())) + ")"
	case reflect.Slice:
		if t.Elem().Kind() == reflect.Uint8 {
			return "(b b:" + hex.EncodeToString(v.Bytes()) + ")"
		}
		var sb strings.Builder
		sb.WriteString("(l")
		for i := 0; i < v.Len(); i++ {
			sb.WriteString(" " + Val(v.Index(i)))
		}
		sb.WriteString(")")
		return sb.String()
	case reflect.Array:
		b := make([]byte, v.Len())
		reflect.Copy(reflect.ValueOf(b), v)
		return "(b b:" + hex.EncodeToString(b) + ")"
	case reflect.Pointer, reflect.Interface:
		if v.IsNil() {
			return "N"
		}
		return Val(v.Elem())
	case reflect.Map:
		type ent struct{ k, s string }
		items := make([]ent, 0, v.Len())
		it := v.MapRange()
		for it.Next() {
			items = append(items, ent{keyOrder(it.Key()), "(" + Val(it.Key()) + " " + Val(it.Value()) + ")"})
		}
		// encoder order: bytewise by the canonical CBOR encoding of the key (computed here, not by go-fdo)
		sort.SliceStable(items, func(i, j int) bool { return items[i].k < items[j].k })
		if len(items) == 0 {
			return "(m)"
		}
		strs := make([]string, len(items))
		for i := range items {
			strs[i] = items[i].s
		}
		return "(m " + strings.Join(strs, " ") + ")"
	case reflect.Struct:
		var sb strings.Builder
		sb.WriteString("(l")
		fields := cbor.VerifFieldOrder(t)
		for i := 0; i < len(fields); i++ {
			f := fields[i]
			fv := v.FieldByIndex(f.Index)
			if f.Flat == 2 && fv.Type() == tHeader {
				sb.WriteString(" " + Val(fv.Field(0)) + " " + Val(fv.Field(1)))
				i++
				continue
			}
			sb.WriteString(" " + Val(fv))
		}
		sb.WriteString(")")
		return sb.String()
	}
	return "?" + t.String()
}

func cborHead(mt byte, n uint64) []byte {
	switch {
	case n < 24:
		return []byte{mt<<5 | byte(n)}
	case n < 1<<8:
		return []byte{mt<<5 | 24, byte(n)}
	case n < 1<<16:
		return []byte{mt<<5 | 25, byte(n >> 8), byte(n)}
	case n < 1<<32:
		return []byte{mt<<5 | 26, byte(n >> 24), byte(n >> 16), byte(n >> 8), byte(n)}
	}
	out := []byte{mt<<5 | 27}
	for i := 7; i >= 0; i-- {
		out = append(out, byte(n>>(8*uint(i))))
	}
	return out
}

// keyOrder is the canonical CBOR encoding of a map key of one of the key kinds the library supports.
func keyOrder(k reflect.Value) string {
	for k.Kind() == reflect.Interface || k.Kind() == reflect.Pointer {
		if k.IsNil() {
			return "\xf6"
		}
		k = k.Elem()
	}
	if k.Type() == tLabel {
		l := k.Interface().(cose.IntOrStr)
		if l.Int64 != 0 {
			return keyOrder(reflect.ValueOf(l.Int64))
		}
		return keyOrder(reflect.ValueOf(l.Str))
	}
	switch k.Kind() {
	case reflect.Uint8, reflect.Uint16, reflect.Uint32, reflect.Uint64, reflect.Uint:
		return string(cborHead(0, k.Uint()))
	case reflect.Int8, reflect.Int16, reflect.Int32, reflect.Int64, reflect.Int:
		if i := k.Int(); i < 0 {
			return string(cborHead(1, uint64(-(i + 1))))
		}
		return string(cborHead(0, uint64(k.Int())))
	case reflect.String:
		return string(cborHead(3, uint64(len(k.String())))) + k.String()
	case reflect.Bool:
		if k.Bool() {
			return "\xf5"
		}
		return "\xf4"
	}
	return Val(k)
}
