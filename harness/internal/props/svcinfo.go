package props

// svcinfo.go — property C16: TO2 service info is delivered exactly once, in order, until modules finish.
//
// Part 1 (model comparisons): devmod.split (serviceinfo.Devmod.Write against Svi/Devmod.v split), devmod.collect (the
// owner's devmod collector, driven through the real TO2 server with the raw client, against Devmod.collect),
// svc.sequence (the owner's walk through its modules, raw client against Svi/Modules.v).
// Part 2 (monitors on the implementation): svc.wire (what the device's sending loop makes of the devmod messages at an
// MTU, replayed to the real owner) and svc.e2e (scripted owner and device modules through fdo.TO2): see svcinfo_e2e.go
// parts further down in this file.

import (
	"bytes"
	"context"
	"encoding/hex"
	"errors"
	"fmt"
	"io"
	"iter"
	"math/rand"
	"net/http"
	"runtime"
	"sort"
	"strconv"
	"strings"
	"sync"
	"time"

	fdo "github.com/fido-device-onboard/go-fdo"
	"github.com/fido-device-onboard/go-fdo/cbor"
	fdohttp "github.com/fido-device-onboard/go-fdo/http"
	"github.com/fido-device-onboard/go-fdo/kex"
	"github.com/fido-device-onboard/go-fdo/protocol"
	"github.com/fido-device-onboard/go-fdo/serviceinfo"

	"verifharness/internal/core"
	"verifharness/internal/env"
	"verifharness/internal/raw"
)

// ---- the deployment all C16 cases share: P-256 owner, credential reuse (the same device onboards again and again) ----

type svcEv struct {
	k    byte // 'q' request (a = message type), 'r' response (a = type), 'p' ProduceInfo returned (a = module, b = 1 done | 2 block), 'h' HandleInfo (a = module, s = name), 'n' NextModule first call (devmod complete)
	a, b int
	s    string
}

// svcRun is what one case (one TO2 session) shows the deployment: the owner modules to run and the trace.
type svcRun struct {
	mu         sync.Mutex
	owners     []svcNamed
	ev         []svcEv
	gotDevmod  *serviceinfo.Devmod
	gotModules []string
	lastErr    string // ErrString of the last 255 the owner sent
	reqs       int
	maxReqs    int
}

type svcNamed struct {
	name string
	mod  serviceinfo.OwnerModule
}

func (r *svcRun) add(e svcEv) {
	r.mu.Lock()
	r.ev = append(r.ev, e)
	r.mu.Unlock()
}

func (r *svcRun) events() []svcEv {
	r.mu.Lock()
	defer r.mu.Unlock()
	return append([]svcEv(nil), r.ev...)
}

type svcWorld struct {
	e   *env.Env
	dev *env.Device
	mu  sync.Mutex
	cur *svcRun
}

var (
	svcMu sync.Mutex
	svcW  *svcWorld
)

var svcDevmod = serviceinfo.Devmod{Os: "linux", Arch: "amd64", Version: "1", Device: "verif", FileSep: "/", Bin: "amd64"}

func (w *svcWorld) current() *svcRun {
	w.mu.Lock()
	defer w.mu.Unlock()
	return w.cur
}

func (w *svcWorld) begin(r *svcRun) {
	if r.maxReqs == 0 {
		r.maxReqs = 6000
	}
	w.mu.Lock()
	w.cur = r
	w.mu.Unlock()
}

func (w *svcWorld) end() {
	w.mu.Lock()
	w.cur = nil
	w.mu.Unlock()
}

func svcRefuse(req *http.Request) *http.Response {
	return &http.Response{StatusCode: http.StatusServiceUnavailable, Status: "503 harness gives up", Header: http.Header{},
		Body: io.NopCloser(bytes.NewReader(nil)), Request: req, ContentLength: 0}
}

func svcGetWorld() (*svcWorld, error) {
	svcMu.Lock()
	defer svcMu.Unlock()
	if svcW != nil {
		return svcW, nil
	}
	e, err := env.New(WorkDir(), env.P256)
	if err != nil {
		return nil, err
	}
	w := &svcWorld{e: e}
	e.Reuse = true
	e.Handler.MaxContentLength = -1 // an MTU of 65535 plus the tunnel's overhead exceeds the handler's default limit of 65535
	e.OwnerModules = func(_ context.Context, _ protocol.GUID, dm serviceinfo.Devmod, mods []string) iter.Seq2[string, serviceinfo.OwnerModule] {
		r := w.current()
		return func(yield func(string, serviceinfo.OwnerModule) bool) {
			if r == nil {
				return
			}
			r.mu.Lock()
			r.gotDevmod, r.gotModules = &dm, append([]string(nil), mods...)
			owners := r.owners
			r.mu.Unlock()
			r.add(svcEv{k: 'n'})
			for _, o := range owners {
				if !yield(o.name, o.mod) {
					return
				}
			}
		}
	}
	e.RT.Hook = func(mt int, req *http.Request, _ []byte, _ func([]byte, http.Header) *http.Response) *http.Response {
		r := w.current()
		if r == nil {
			return nil
		}
		r.add(svcEv{k: 'q', a: mt})
		r.mu.Lock()
		r.reqs++
		over := r.reqs > r.maxReqs
		r.mu.Unlock()
		if over {
			return svcRefuse(req)
		}
		return nil
	}
	e.RT.RespHook = func(_ int, resp *http.Response, body []byte) []byte {
		if r := w.current(); r != nil {
			rt, _ := strconv.Atoi(strings.TrimSpace(resp.Header.Get("Message-Type")))
			r.add(svcEv{k: 'r', a: rt})
			var em protocol.ErrorMessage
			if rt == 255 && cbor.Unmarshal(body, &em) == nil {
				r.mu.Lock()
				r.lastErr = em.ErrString
				r.mu.Unlock()
			}
		}
		return body
	}
	ctx, cancel := context.WithTimeout(context.Background(), time.Minute)
	defer cancel()
	if w.dev, err = e.NewDevice(ctx, protocol.X509KeyEnc); err != nil {
		e.Close()
		return nil, err
	}
	svcW = w
	return w, nil
}

func closeSvcWorld() {
	svcMu.Lock()
	defer svcMu.Unlock()
	if svcW != nil {
		svcW.e.Close()
		svcW = nil
	}
}

func (w *svcWorld) transport() *fdohttp.Transport {
	return &fdohttp.Transport{BaseURL: "http://fdo.test", Client: &http.Client{Transport: w.e.RT}, MaxContentLength: -1}
}

// ---- a TO2 session conducted message by message (raw client) ----

type svcRaw struct {
	w    *svcWorld
	d    *raw.Driver
	sess int
	next []byte
}

type svcReply struct {
	IsMore bool
	IsDone bool
	Info   []*serviceinfo.KV
}

// rawSession runs the honest prefix 60, 62, 64, 66 (the owner's run must already be installed with w.begin).
func (w *svcWorld) rawSession(ownMTU int) (*svcRaw, string) {
	w.e.OwnerMTU = uint16(ownMTU)
	s := &svcRaw{w: w, sess: -1}
	s.d = raw.NewDriver(w.e, w.dev, raw.Config{Kex: kex.ECDH256Suite, Cipher: kex.A128GcmCipher, Reuse: true})
	s.d.Mutate = func(msg int, plain []byte) []byte {
		if msg == 68 && s.next != nil {
			return s.next
		}
		return plain
	}
	for _, m := range []int{60, 62, 64, 66} {
		r := s.do(m)
		if r.RespType != m+1 {
			return nil, fmt.Sprintf("honest prefix: %d answered with %d %s %s", m, r.RespType, r.ErrStr, r.Err)
		}
	}
	return s, ""
}

func (s *svcRaw) do(msg int) raw.Result {
	st := raw.Step{Msg: msg, Sess: s.sess, BodyFrom: -1}
	if s.sess < 0 {
		st.Tok = raw.TokNone
	}
	r := s.d.Do(st)
	if r.NewSess >= 0 {
		s.sess = r.NewSess
	}
	return r
}

// send68 sends one TO2.DeviceServiceInfo with the chosen flag and entries; reply is nil unless a 69 came back and opened.
func (s *svcRaw) send68(more bool, kvs []*serviceinfo.KV) (typ int, reply *svcReply, errStr string) {
	if kvs == nil {
		kvs = []*serviceinfo.KV{}
	}
	body, err := cbor.Marshal(struct {
		IsMore bool
		Info   []*serviceinfo.KV
	}{more, kvs})
	if err != nil {
		return -1, nil, "harness: " + err.Error()
	}
	s.next = body
	r := s.do(68)
	s.next = nil
	if r.Err != "" {
		return -1, nil, "harness: " + r.Err
	}
	if r.Panic != "" {
		core.PanicText = r.Panic
		return -2, nil, "panic " + r.Panic
	}
	if r.RespType != 69 {
		return r.RespType, nil, r.ErrStr
	}
	plain, ok := s.d.Open(s.sess, r.Body)
	if !ok {
		return 69, nil, "harness: the 69 did not decrypt"
	}
	var rep svcReply
	if err := cbor.Unmarshal(plain, &rep); err != nil {
		return 69, nil, "harness: the 69 did not decode: " + err.Error()
	}
	return 69, &rep, ""
}

// devmodState reads what the owner's session holds about the device.
func (s *svcRaw) devmodState() (serviceinfo.Devmod, []string, bool, error) {
	ctx := s.w.e.DB.TokenContext(context.Background(), s.d.Token(s.sess))
	return s.w.e.DB.Devmod(ctx)
}

func svcKV(key string, v any) *serviceinfo.KV {
	b, err := cbor.Marshal(v)
	if err != nil {
		panic(err)
	}
	return &serviceinfo.KV{Key: key, Val: b}
}

// svcDescriptors: the required devmod messages as an honest device sends them first.
func svcDescriptors() []*serviceinfo.KV {
	return []*serviceinfo.KV{svcKV("devmod:active", true), svcKV("devmod:os", svcDevmod.Os), svcKV("devmod:arch", svcDevmod.Arch),
		svcKV("devmod:version", svcDevmod.Version), svcKV("devmod:device", svcDevmod.Device), svcKV("devmod:sep", svcDevmod.FileSep),
		svcKV("devmod:bin", svcDevmod.Bin)}
}

// ---- names ----

func hexNames(names []string) string {
	parts := make([]string, len(names))
	for i, n := range names {
		parts[i] = hex.EncodeToString([]byte(n))
	}
	return strings.Join(parts, ",")
}

func unhexNames(s string) []string {
	if s == "" {
		return nil
	}
	var out []string
	for _, p := range strings.Split(s, ",") {
		b, _ := hex.DecodeString(p)
		out = append(out, string(b))
	}
	return out
}

func bNames(names []string) string {
	var sb strings.Builder
	for _, n := range names {
		sb.WriteString(" b:" + hex.EncodeToString([]byte(n)))
	}
	return sb.String()
}

func sortedCopy(a []string) []string {
	b := append([]string(nil), a...)
	sort.Strings(b)
	return b
}

func sameMultiset(a, b []string) bool {
	if len(a) != len(b) {
		return false
	}
	x, y := sortedCopy(a), sortedCopy(b)
	for i := range x {
		if x[i] != y[i] {
			return false
		}
	}
	return true
}

// listedNames: what devmod must list for a device module map (keys cut at ':'; "devmod" itself unless it is a key).
func listedNames(keys []string) []string {
	var out []string
	custom := false
	for _, k := range keys {
		m, _, _ := strings.Cut(k, ":")
		out = append(out, m)
		if k == "devmod" {
			custom = true
		}
	}
	if !custom {
		out = append(out, "devmod")
	}
	return out
}

// ---- devmod.split ----

type splitObs struct {
	Chunks []serviceinfo.DevmodModulesChunk
	Err    error
	Num    int // devmod:nummodules as sent (-1: not seen)
	Lost   bool
	Keys   []string
}

var lastSplit *splitObs

func unknownModules(keys []string) map[string]serviceinfo.DeviceModule {
	m := map[string]serviceinfo.DeviceModule{}
	for _, k := range keys {
		m[k] = serviceinfo.UnknownModule{}
	}
	return m
}

func evalDevmodSplit(p core.Params) (string, string) {
	mtu, _ := strconv.Atoi(p["mtu"])
	keys := unhexNames(p["names"])
	obs := &splitObs{Num: -1, Keys: keys}
	lastSplit = obs
	r, w := serviceinfo.NewChunkOutPipe(4096)
	dm := svcDevmod
	go dm.Write(context.Background(), unknownModules(keys), uint16(mtu), w)
	for {
		kv, err := r.ReadChunk(60000)
		if err == nil {
			switch kv.Key {
			case "devmod:modules":
				var ch serviceinfo.DevmodModulesChunk
				if e := cbor.Unmarshal(kv.Val, &ch); e != nil {
					obs.Err = fmt.Errorf("a devmod:modules value does not decode: %w", e)
				} else {
					obs.Chunks = append(obs.Chunks, ch)
				}
			case "devmod:nummodules":
				_ = cbor.Unmarshal(kv.Val, &obs.Num)
			}
			continue
		}
		if errors.Is(err, serviceinfo.ErrSizeTooSmall) {
			continue
		}
		if !errors.Is(err, io.EOF) {
			obs.Err = err
		}
		break
	}
	if obs.Err == nil && len(obs.Chunks) == 0 {
		// Write never wrote a chunk although at least "devmod" is listed: it failed at the first name, and its CloseWithError
		// went to the pipe that ForceNewMessage had already closed, so the reader saw a clean end (monitored as
		// devmod-write-error-lost)
		obs.Err, obs.Lost = errors.New("write failed without telling the reader"), true
	}
	// the order the device used: the chunks it wrote, then (after a failure) what it did not get to, longest first (the
	// name it stopped at did not fit alone; a longer one would not have either)
	var order []string
	for _, ch := range obs.Chunks {
		order = append(order, ch.Modules...)
	}
	if obs.Err != nil {
		rest := sortedCopy(listedNames(keys))
		for _, n := range order {
			for i, x := range rest {
				if x == n {
					rest = append(rest[:i], rest[i+1:]...)
					break
				}
			}
		}
		custom := false
		for _, k := range keys {
			custom = custom || k == "devmod"
		}
		// Write lists "devmod" last (unless it is a module of the map)
		sort.SliceStable(rest, func(i, j int) bool {
			if di, dj := rest[i] == "devmod" && !custom, rest[j] == "devmod" && !custom; di != dj {
				return dj
			}
			return len(rest[i]) > len(rest[j])
		})
		order = append(order, rest...)
	}
	line := fmt.Sprintf("devmod.split n:%x (%s)", mtu, strings.TrimPrefix(bNames(order), " "))
	if obs.Err != nil {
		return line, "err"
	}
	var sb strings.Builder
	sb.WriteString("ok")
	for _, ch := range obs.Chunks {
		fmt.Fprintf(&sb, " (%x%s)", ch.Start, bNames(ch.Modules))
	}
	return line, sb.String()
}

// ---- devmod.collect (through the real owner service) ----

type collectChunk struct {
	Start, Len int
	Names      []string
}

func encodeChunks(cs []collectChunk) string {
	parts := make([]string, len(cs))
	for i, c := range cs {
		parts[i] = fmt.Sprintf("%d:%d:%s", c.Start, c.Len, hexNames(c.Names))
	}
	return strings.Join(parts, ";")
}

func decodeChunks(s string) []collectChunk {
	if s == "" {
		return nil
	}
	var out []collectChunk
	for _, p := range strings.Split(s, ";") {
		f := strings.SplitN(p, ":", 3)
		st, _ := strconv.Atoi(f[0])
		ln, _ := strconv.Atoi(f[1])
		out = append(out, collectChunk{st, ln, unhexNames(f[2])})
	}
	return out
}

// evalDevmodCollect: params num, chunks, cut (comma-separated chunk indices before which a new 68 starts; the earlier
// one carries IsMoreServiceInfo), sep=1 (an unrelated devmod entry between consecutive chunks, so that the owner does not
// see them as one stream).
func evalDevmodCollect(p core.Params) (string, string) {
	num, _ := strconv.Atoi(p["num"])
	cs := decodeChunks(p["chunks"])
	var sb strings.Builder
	fmt.Fprintf(&sb, "devmod.collect n:%x (", num)
	for i, c := range cs {
		if i > 0 {
			sb.WriteString(" ")
		}
		fmt.Fprintf(&sb, "(n:%x n:%x%s)", c.Start, c.Len, bNames(c.Names))
	}
	sb.WriteString(")")
	line := sb.String()
	if p["lineonly"] != "" {
		return line, ""
	}
	w, err := svcGetWorld()
	if err != nil {
		return line, "err-env " + err.Error()
	}
	w.begin(&svcRun{})
	defer w.end()
	s, es := w.rawSession(1300)
	if s == nil {
		return line, "err-harness " + es
	}
	cuts := map[int]bool{}
	for _, c := range strings.Split(p["cut"], ",") {
		if i, err := strconv.Atoi(c); err == nil {
			cuts[i] = true
		}
	}
	var msgs [][]*serviceinfo.KV
	cur := append(svcDescriptors(), svcKV("devmod:nummodules", num))
	for i, c := range cs {
		if cuts[i] {
			msgs = append(msgs, cur)
			cur = nil
		} else if p["sep"] == "1" && i > 0 {
			cur = append(cur, svcKV("devmod:active", true))
		}
		cur = append(cur, svcKV("devmod:modules", serviceinfo.DevmodModulesChunk{Start: c.Start, Len: c.Len, Modules: c.Names}))
	}
	msgs = append(msgs, cur)
	for i, kvs := range msgs {
		typ, _, es := s.send68(i < len(msgs)-1, kvs)
		if strings.HasPrefix(es, "harness") || typ == -2 {
			return line, "err-harness " + es
		}
		if typ != 69 {
			lastCollectErr = es
			return line, "err"
		}
	}
	_, mods, complete, err := s.devmodState()
	if err != nil {
		return line, "err-state " + err.Error()
	}
	c := "F"
	if complete {
		c = "T"
	}
	return line, "ok " + c + bNames(mods)
}

var lastCollectErr string

// ---- svc.sequence ----

type seqMod struct {
	run   *svcRun
	idx   int
	need  int
	calls int
}

func (m *seqMod) HandleInfo(_ context.Context, name string, body io.Reader) error {
	_, _ = io.Copy(io.Discard, body)
	m.run.add(svcEv{k: 'h', a: m.idx, s: name})
	return nil
}

func (m *seqMod) ProduceInfo(_ context.Context, p *serviceinfo.Producer) (bool, bool, error) {
	m.calls++
	done := m.calls >= m.need
	if err := p.WriteChunk("c", []byte{0x18, byte(m.calls)}); err != nil {
		return false, false, err
	}
	b := 0
	if done {
		b = 1
	}
	m.run.add(svcEv{k: 'p', a: m.idx, b: b})
	return false, done, nil
}

func nList(xs []int) string {
	parts := make([]string, len(xs))
	for i, x := range xs {
		parts[i] = fmt.Sprintf("n:%x", x)
	}
	return "(" + strings.Join(parts, " ") + ")"
}

func atoiList(s string) []int {
	var out []int
	for _, f := range strings.Split(s, ",") {
		if f == "" {
			continue
		}
		n, _ := strconv.Atoi(f)
		out = append(out, n)
	}
	return out
}

type seqObs struct {
	KeyMismatch string // a reply whose entries do not belong to the module that was invoked
	FirstErr    string
}

var lastSeq *seqObs

// evalSvcSequence: params plan (k0,k1,...), flags (0/1 per round), noise=1 (the device sends an entry of its own in the
// rounds after devmod).
func evalSvcSequence(p core.Params) (string, string) {
	plan, flags := atoiList(p["plan"]), atoiList(p["flags"])
	line := "svc.sequence " + nList(plan) + " " + nList(flags)
	lastSeq = &seqObs{}
	if p["lineonly"] != "" || len(plan) == 0 {
		return line, ""
	}
	w, err := svcGetWorld()
	if err != nil {
		return line, "err-env " + err.Error()
	}
	run := &svcRun{}
	for i, k := range plan[1:] {
		run.owners = append(run.owners, svcNamed{fmt.Sprintf("s%d", i+1), &seqMod{run: run, idx: i + 1, need: k}})
	}
	w.begin(run)
	defer w.end()
	s, es := w.rawSession(1300)
	if s == nil {
		return line, "err-harness " + es
	}
	k0 := max(plan[0], 1)
	nonMore, devmodSent, collectorDone := 0, false, false
	var sb strings.Builder
	sb.WriteString("ok")
	for j, f := range flags {
		var kvs []*serviceinfo.KV
		if j == 0 {
			kvs = append(svcDescriptors(), svcKV("devmod:nummodules", 1))
		}
		devmodWasDone := collectorDone
		if !devmodSent && nonMore == k0-1 { // the collector completes at its k0-th ProduceInfo
			kvs = append(kvs, svcKV("devmod:modules", serviceinfo.DevmodModulesChunk{Start: 0, Len: 1, Modules: []string{"devmod"}}))
			devmodSent = true
		}
		if p["noise"] == "1" && devmodWasDone {
			kvs = append(kvs, svcKV("s:x", j))
		}
		e0 := len(run.events())
		typ, rep, es := s.send68(f != 0, kvs)
		if strings.HasPrefix(es, "harness") || typ == -2 {
			return line, "err-harness " + es
		}
		if f == 0 {
			nonMore++
			collectorDone = collectorDone || devmodSent
		}
		if typ != 69 {
			sb.WriteString(" err")
			if lastSeq.FirstErr == "" {
				lastSeq.FirstErr = fmt.Sprintf("round %d: %d %s", j, typ, es)
			}
			continue
		}
		prod := -1
		for _, e := range run.events()[e0:] {
			if e.k == 'p' {
				prod = e.a
			}
		}
		d := "F"
		if rep.IsDone {
			d = "T"
		}
		switch {
		case prod >= 0:
			fmt.Fprintf(&sb, " p%x:%s", prod, d)
			for _, kv := range rep.Info {
				if !strings.HasPrefix(kv.Key, fmt.Sprintf("s%d:", prod)) {
					lastSeq.KeyMismatch = fmt.Sprintf("round %d: module %d was invoked, the reply carries %q", j, prod, kv.Key)
				}
			}
		case f != 0:
			sb.WriteString(" -")
			if len(rep.Info) > 0 || rep.IsDone {
				lastSeq.KeyMismatch = fmt.Sprintf("round %d: the device said IsMoreServiceInfo, the reply carries %d entries, IsDone=%v", j, len(rep.Info), rep.IsDone)
			}
		default: // no scripted module ran: the devmod collector had the turn
			fmt.Fprintf(&sb, " p0:%s", d)
			if len(rep.Info) > 0 {
				lastSeq.KeyMismatch = fmt.Sprintf("round %d: no module was invoked, the reply carries %q", j, rep.Info[0].Key)
			}
		}
	}
	return line, sb.String()
}

func registerSvcKinds(c *core.Ctx) {
	c.Register(&core.Kind{Name: "devmod.split", Eval: evalDevmodSplit})
	c.Register(&core.Kind{Name: "devmod.collect", Eval: evalDevmodCollect})
	c.Register(&core.Kind{Name: "svc.sequence", Eval: evalSvcSequence})
	registerSvcWireKinds(c)
	registerSvcE2EKinds(c)
	registerSvcMoreKinds(c) // svcinfo_more.go
}

// ---- svc.wire: the devmod messages as the device's sending loop emits them at an MTU, replayed to the real owner ----

type wireMsg struct {
	More bool
	KVs  []*serviceinfo.KV
}

type wireObs struct {
	Msgs     []wireMsg
	SimErr   string
	Leftover int    // entries the device had not sent when its first exchange ended
	Verdict  string // what an owner that reads each 68 on its own makes of the messages: "" fine, else the first problem
	Detail   string
	Order    []string // module names in the order sent
	Replayed bool
	ReplyTyp []int
	ReplyErr string
	Got      []string
	Complete bool
	Devmod   serviceinfo.Devmod
	StateErr string
}

var lastWire *wireObs

// svcYieldDevmod is a custom devmod module (TO2Config.DeviceModules["devmod"]) that ends the message after every
// descriptor, so that small MTUs never see a descriptor cut in two.
type svcYieldDevmod struct{ each bool }

func (m *svcYieldDevmod) Transition(bool) error { return nil }
func (m *svcYieldDevmod) Receive(_ context.Context, _ string, body io.Reader, _ func(string) io.Writer, _ func()) error {
	_, _ = io.Copy(io.Discard, body)
	return nil
}
func (m *svcYieldDevmod) Yield(_ context.Context, respond func(string) io.Writer, yield func()) (err error) {
	defer func() {
		if r := recover(); r != nil {
			err = fmt.Errorf("devmod writer gone: %v", r)
		}
	}()
	for _, kv := range svcDescriptors() {
		_, name, _ := strings.Cut(kv.Key, ":")
		if _, err := respond(name).Write(kv.Val); err != nil {
			return err
		}
		if m.each {
			yield()
		}
	}
	return nil
}

// simDevmod runs serviceinfo.Devmod.Write into the device's sending loop (exchangeServiceInfoRound through the verif
// export) exactly as fdo.TO2 does for the first exchange: MTU for Write, MTU-5 for the loop.
func simDevmod(mods map[string]serviceinfo.DeviceModule, ownMTU int) *wireObs {
	obs := &wireObs{}
	r, w := serviceinfo.NewChunkOutPipe(4096)
	dm := svcDevmod
	ctx, cancel := context.WithCancel(context.Background())
	defer cancel()
	go dm.Write(ctx, mods, uint16(ownMTU), w)
	type res struct {
		msgs []wireMsg
		err  error
	}
	ch := make(chan res, 1)
	go func() {
		ms, err := fdoVerifRounds(ctx, uint16(ownMTU-5), r)
		ch <- res{ms, err}
	}()
	select {
	case x := <-ch:
		obs.Msgs = x.msgs
		if x.err != nil {
			obs.SimErr = x.err.Error()
		}
	case <-time.After(10 * time.Second):
		obs.SimErr = "hang"
		return obs
	}
	for { // what is left in the pipe was never sent
		kv, err := r.ReadChunk(65535)
		if err == nil {
			obs.Leftover++
			_ = kv
			continue
		}
		if errors.Is(err, serviceinfo.ErrSizeTooSmall) {
			continue
		}
		break
	}
	obs.Verdict, obs.Detail, obs.Order = wireVerdict(obs.Msgs)
	if obs.Verdict == "" && obs.Leftover > 0 {
		last := 0
		if n := len(obs.Msgs); n > 0 {
			last = len(obs.Msgs[n-1].KVs)
		}
		obs.Verdict, obs.Detail = "devmod-truncated", fmt.Sprintf("the device's first exchange ended after %d messages (the last one with %d entries and IsMoreServiceInfo=false) with %d entries "+
			"(devmod:modules) never sent: an entry filled the previous message to the last byte, the reader met the message break of ForceNewMessage first thing in the next message and took it for the end",
			len(obs.Msgs), last, obs.Leftover)
	}
	if obs.Verdict == "" && obs.SimErr == "" && len(obs.Order) == 0 {
		obs.Verdict, obs.Detail = "devmod-write-error-lost", "Devmod.Write failed at the first module name (it does not fit the MTU alone); its error went to a pipe already closed by ForceNewMessage: "+
			"the device sends devmod:nummodules and no devmod:modules at all, and reports nothing"
	}
	return obs
}

// wireVerdict reads the messages as the owner does (ownerServiceInfo: each 68 on its own, consecutive entries with the
// same key are one stream) with an independent decoder for the devmod values.
func wireVerdict(msgs []wireMsg) (verdict, detail string, order []string) {
	want := map[string][]byte{}
	for _, kv := range svcDescriptors() {
		want[kv.Key] = kv.Val
	}
	for mi, m := range msgs {
		type stream struct {
			key   string
			val   []byte
			parts []int
		}
		var ss []*stream
		for _, kv := range m.KVs {
			if n := len(ss); n > 0 && ss[n-1].key == kv.Key {
				ss[n-1].val = append(ss[n-1].val, kv.Val...)
				ss[n-1].parts = append(ss[n-1].parts, len(kv.Val))
			} else {
				ss = append(ss, &stream{kv.Key, bytes.Clone(kv.Val), []int{len(kv.Val)}})
			}
		}
		for _, s := range ss {
			switch {
			case s.key == "devmod:modules":
				dec := cbor.NewDecoder(bytes.NewReader(s.val))
				for {
					var ch serviceinfo.DevmodModulesChunk
					err := dec.Decode(&ch)
					if errors.Is(err, io.EOF) {
						break
					}
					if err != nil {
						if verdict == "" {
							verdict = "devmod-modules-split"
							detail = fmt.Sprintf("message %d of %d (IsMore=%v) carries devmod:modules entries of %v value bytes whose concatenation is not whole CBOR (%v): the value continues in the next message",
								mi+1, len(msgs), m.More, s.parts, err)
						}
						break
					}
					order = append(order, ch.Modules...)
				}
			case s.key == "devmod:nummodules":
				var n int
				if err := cbor.Unmarshal(s.val, &n); err != nil && verdict == "" {
					verdict, detail = "devmod-descriptor-split", fmt.Sprintf("message %d: devmod:nummodules value % x", mi+1, s.val)
				}
			default:
				if w, ok := want[s.key]; ok && !bytes.Equal(w, s.val) && verdict == "" {
					verdict = "devmod-descriptor-split"
					detail = fmt.Sprintf("message %d of %d (IsMore=%v) carries %s with %d of its %d value bytes", mi+1, len(msgs), m.More, s.key, len(s.val), len(w))
				}
			}
		}
	}
	return verdict, detail, order
}

func evalSvcWire(p core.Params) (string, string) {
	omtu, _ := strconv.Atoi(p["omtu"])
	keys := unhexNames(p["names"])
	line := fmt.Sprintf("svc.wire omtu=%d n=%d names=%s cdm=%s", omtu, len(keys), p["names"], p["cdm"])
	mods := unknownModules(keys)
	if p["cdm"] != "" {
		mods["devmod"] = &svcYieldDevmod{each: p["cdm"] == "2"}
	}
	obs := simDevmod(mods, omtu)
	lastWire = obs
	var sb strings.Builder
	if obs.SimErr != "" {
		fmt.Fprintf(&sb, "sim-err %s", obs.SimErr)
	} else {
		fmt.Fprintf(&sb, "ok msgs=%d", len(obs.Msgs))
	}
	if obs.Verdict != "" {
		sb.WriteString(" predicted:" + obs.Verdict)
	}
	if p["replay"] != "1" || obs.SimErr == "hang" {
		return line, sb.String()
	}
	w, err := svcGetWorld()
	if err != nil {
		return line, "err-env " + err.Error()
	}
	w.begin(&svcRun{})
	defer w.end()
	s, es := w.rawSession(omtu)
	if s == nil {
		return line, "err-harness " + es
	}
	obs.Replayed = true
	for _, m := range obs.Msgs {
		typ, _, es := s.send68(m.More, m.KVs)
		obs.ReplyTyp = append(obs.ReplyTyp, typ)
		if strings.HasPrefix(es, "harness") || typ == -2 {
			return line, "err-harness " + es
		}
		if typ != 69 {
			obs.ReplyErr = es
			break
		}
	}
	if obs.ReplyErr == "" {
		var e error
		obs.Devmod, obs.Got, obs.Complete, e = s.devmodState()
		if e != nil {
			obs.StateErr = e.Error()
		}
		fmt.Fprintf(&sb, " owner:accepted complete=%v modules=%d", obs.Complete, len(obs.Got))
	} else {
		fmt.Fprintf(&sb, " owner:refused-at-%d", len(obs.ReplyTyp))
	}
	return line, sb.String()
}

func registerSvcWireKinds(c *core.Ctx) {
	c.Register(&core.Kind{Name: "svc.wire", NoModel: true, Eval: evalSvcWire})
}

func fdoVerifRounds(ctx context.Context, mtu uint16, r *serviceinfo.ChunkReader) ([]wireMsg, error) {
	ms, err := fdo.VerifServiceInfoRounds(ctx, mtu, r, 1)
	out := make([]wireMsg, len(ms))
	for i, m := range ms {
		out[i] = wireMsg{More: m.IsMore, KVs: m.KVs}
	}
	return out, err
}

// ---- svc.e2e: scripted owner and device modules through fdo.TO2 ----

type frag struct {
	name string
	data []byte
}

// normFrags merges consecutive fragments of the same message name (the library hands a value that spans entries or
// protocol messages to the peer as one stream or as consecutive pieces).
func normFrags(fs []frag, dropEmpty bool) []frag {
	var out []frag
	for _, f := range fs {
		if dropEmpty && len(f.data) == 0 {
			continue
		}
		if n := len(out); n > 0 && out[n-1].name == f.name {
			out[n-1].data = append(bytes.Clone(out[n-1].data), f.data...)
		} else {
			out = append(out, frag{f.name, bytes.Clone(f.data)})
		}
	}
	return out
}

func fragSummary(fs []frag) string {
	var sb strings.Builder
	for i, f := range fs {
		if i > 12 {
			fmt.Fprintf(&sb, " …(%d more)", len(fs)-i)
			break
		}
		fmt.Fprintf(&sb, " %s[%d]", f.name, len(f.data))
	}
	return strings.TrimSpace(sb.String())
}

// compareFrags names the way two fragment lists differ ("" when equal).
func compareFrags(sent, got []frag) (kind, detail string) {
	if len(sent) == len(got) {
		same := true
		for i := range sent {
			if sent[i].name != got[i].name || !bytes.Equal(sent[i].data, got[i].data) {
				same = false
				break
			}
		}
		if same {
			return "", ""
		}
	}
	key := func(f frag) string { return f.name + "\x00" + string(f.data) }
	cs, cg := map[string]int{}, map[string]int{}
	for _, f := range sent {
		cs[key(f)]++
	}
	dup := false
	for _, f := range got {
		cg[key(f)]++
		if cg[key(f)] > cs[key(f)] && cs[key(f)] > 0 {
			dup = true
		}
	}
	sameSet := len(cs) == len(cg)
	for k, n := range cs {
		if cg[k] != n {
			sameSet = false
		}
	}
	detail = fmt.Sprintf("written: %s | arrived: %s", fragSummary(sent), fragSummary(got))
	switch {
	case sameSet:
		return "stream-reordered", detail
	case dup:
		return "stream-duplicated", detail
	}
	return "stream-differs", detail
}

type oAct struct {
	name  string
	data  []byte
	end   bool // end of this ProduceInfo call
	block bool // ... with blockPeer (IsMoreServiceInfo)
}

type scOwner struct {
	run      *svcRun
	idx      int
	name     string
	devMTU   int
	useAvail bool
	acts     []oAct
	linger   int // calls after the last writing call; the last of them reports completion (0: completion with the last messages)

	pos, off   int
	lingerUsed int
	calls      int
	done       bool
	inactive   bool
	actives    [][]byte
	sent, recv []frag
	viol       []string
	ctxDevmod  *serviceinfo.Devmod
}

func (m *scOwner) HandleInfo(ctx context.Context, name string, body io.Reader) error {
	b, err := io.ReadAll(body)
	if err != nil {
		m.viol = append(m.viol, "owner-read-failed: "+err.Error())
	}
	m.run.add(svcEv{k: 'h', a: m.idx, s: name})
	if m.done {
		m.viol = append(m.viol, "handle-after-done:"+name)
	}
	if dm, ok := serviceinfo.DevmodFromContext(ctx); ok && dm != nil {
		c := *dm
		m.ctxDevmod = &c
	}
	if name == "active" {
		m.actives = append(m.actives, b)
		if bytes.Equal(b, []byte{0xf4}) {
			m.inactive = true
		}
		return nil
	}
	m.recv = append(m.recv, frag{name, b})
	return nil
}

func hdrExtra(n int) int {
	switch {
	case n < 24:
		return 0
	case n < 256:
		return 1
	}
	return 2
}

// capacity: how many value bytes of a new entry still fit so that the whole TO2.OwnerServiceInfo stays within the MTU the
// device announced (useAvail: what Producer.Available says instead).
func (m *scOwner) capacity(p *serviceinfo.Producer, name string) int {
	if m.useAvail {
		return p.Available(name)
	}
	info := append(append([]*serviceinfo.KV(nil), p.ServiceInfo()...), &serviceinfo.KV{Key: m.name + ":" + name})
	base := 3 + int(serviceinfo.ArraySizeCBOR(info))
	n := m.devMTU - base
	for n > 0 && base+n+hdrExtra(n) > m.devMTU {
		n--
	}
	return n
}

func (m *scOwner) ProduceInfo(ctx context.Context, p *serviceinfo.Producer) (bool, bool, error) {
	m.calls++
	ret := func(block, done bool) (bool, bool, error) {
		b := 0
		if done {
			b |= 1
			m.done = true
		}
		if block {
			b |= 2
		}
		m.run.add(svcEv{k: 'p', a: m.idx, b: b})
		return block, done, nil
	}
	if dm, ok := serviceinfo.DevmodFromContext(ctx); ok && dm != nil {
		c := *dm
		m.ctxDevmod = &c
	}
	if m.done {
		m.viol = append(m.viol, "produce-after-done")
		return ret(false, true)
	}
	if m.inactive { // the device has no such module: nothing more to say
		return ret(false, true)
	}
	wrote := false
	for m.pos < len(m.acts) {
		a := &m.acts[m.pos]
		if a.end {
			m.pos++
			return ret(a.block, false)
		}
		n := m.capacity(p, a.name)
		rem := len(a.data) - m.off
		if n < 0 || (n == 0 && rem > 0) {
			if !wrote {
				m.viol = append(m.viol, fmt.Sprintf("harness: MTU %d too small for key %s:%s", m.devMTU, m.name, a.name))
				return false, false, fmt.Errorf("MTU too small for %s:%s", m.name, a.name)
			}
			return ret(true, false)
		}
		take := min(n, rem)
		chunk := bytes.Clone(a.data[m.off : m.off+take])
		if err := p.WriteChunk(a.name, chunk); err != nil {
			return false, false, err
		}
		m.sent = append(m.sent, frag{a.name, chunk})
		wrote = true
		m.off += take
		if m.off < len(a.data) {
			return ret(true, false)
		}
		m.pos++
		m.off = 0
	}
	if wrote {
		if m.linger == 0 {
			return ret(false, true)
		}
		return ret(false, false)
	}
	m.lingerUsed++
	if m.lingerUsed >= m.linger {
		return ret(false, true)
	}
	return ret(false, false)
}

type dSend struct {
	name       string
	data       []byte
	piece      int // write in pieces of this size (0: one Write)
	yb, yb2    bool
	ya         bool
	noWriteAll bool
}

type scDev struct {
	name    string
	sched   int
	rng     *rand.Rand
	onRecv  map[string][]dSend
	onYield map[int][]dSend

	mu         sync.Mutex
	active     bool
	trans      []bool
	recv, sent []frag
	yields     int
	viol       []string
	ctxMTU     int
}

func (d *scDev) violate(s string) {
	d.mu.Lock()
	d.viol = append(d.viol, s)
	d.mu.Unlock()
}

func (d *scDev) Transition(active bool) error {
	d.mu.Lock()
	d.trans = append(d.trans, active)
	d.active = active
	d.mu.Unlock()
	return nil
}

func (d *scDev) perturb() {
	switch d.sched {
	case 1:
		runtime.Gosched()
	case 2:
		time.Sleep(time.Duration(d.rng.Intn(150)) * time.Microsecond)
	}
}

func (d *scDev) Receive(ctx context.Context, name string, body io.Reader, respond func(string) io.Writer, yield func()) error {
	var data []byte
	buf := make([]byte, 1+d.rng.Intn(5000))
	for {
		n, err := body.Read(buf)
		data = append(data, buf[:n]...)
		if err != nil {
			if err != io.EOF {
				d.violate("device-read-failed: " + err.Error())
			}
			break
		}
		if d.sched != 0 && d.rng.Intn(4) == 0 {
			d.perturb()
		}
	}
	d.mu.Lock()
	if !d.active {
		d.viol = append(d.viol, "received-before-activation:"+name)
	}
	d.recv = append(d.recv, frag{name, data})
	sends := d.onRecv[name]
	delete(d.onRecv, name)
	if mtu, ok := ctx.Value(serviceinfo.MTUKey{}).(uint16); ok {
		d.ctxMTU = int(mtu)
	}
	d.mu.Unlock()
	for _, s := range sends {
		d.doSend(s, respond, yield)
	}
	return nil
}

func (d *scDev) Yield(_ context.Context, respond func(string) io.Writer, yield func()) error {
	d.mu.Lock()
	d.yields++
	if !d.active {
		d.viol = append(d.viol, "received-before-activation:yield")
	}
	sends := d.onYield[d.yields]
	d.mu.Unlock()
	for _, s := range sends {
		d.doSend(s, respond, yield)
	}
	return nil
}

func (d *scDev) doSend(s dSend, respond func(string) io.Writer, yield func()) {
	if s.yb {
		yield()
	}
	if s.yb2 {
		yield()
	}
	w := respond(s.name)
	data := s.data
	for len(data) > 0 {
		n := len(data)
		if s.piece > 0 && s.piece < n {
			n = s.piece
		}
		if _, err := w.Write(data[:n]); err != nil {
			d.violate("device-write-failed: " + err.Error())
			break
		}
		data = data[n:]
		d.perturb()
	}
	d.mu.Lock()
	d.sent = append(d.sent, frag{s.name, s.data})
	d.mu.Unlock()
	if s.ya {
		yield()
	}
}

// scInert is a device module no owner module speaks to: nothing may ever reach it.
type scInert struct {
	name  string
	mu    sync.Mutex
	calls []string
}

func (m *scInert) note(s string) { m.mu.Lock(); m.calls = append(m.calls, s); m.mu.Unlock() }
func (m *scInert) Transition(a bool) error {
	m.note(fmt.Sprintf("transition(%v)", a))
	return nil
}
func (m *scInert) Receive(_ context.Context, name string, body io.Reader, _ func(string) io.Writer, _ func()) error {
	_, _ = io.Copy(io.Discard, body)
	m.note("receive:" + name)
	return nil
}
func (m *scInert) Yield(context.Context, func(string) io.Writer, func()) error {
	m.note("yield")
	return nil
}

type e2eScript struct {
	devMTU, ownMTU int
	inertKeys      []string
	inert          []*scInert
	owners         []*scOwner
	devs           map[string]*scDev // by owner module name
	cdm            string
	class          string
	expectDevEmpty int
	httpDefault    bool
}

func pickSize(rng *rand.Rand, m int, big bool) int {
	switch rng.Intn(10) {
	case 0:
		return 0
	case 1:
		return 1
	case 2:
		return 1 + rng.Intn(23)
	case 3:
		return 23 + rng.Intn(3)
	case 4:
		return 254 + rng.Intn(4)
	case 5, 6:
		return max(0, m-40+rng.Intn(50))
	case 7:
		return m + rng.Intn(m+1)
	case 8:
		if big {
			return 2*m + rng.Intn(3*m+1)
		}
		return rng.Intn(m + 1)
	}
	return rng.Intn(2*m + 1)
}

func genInertKeys(rng *rand.Rand, n, nameLen int) []string {
	seen := map[string]bool{"devmod": true}
	var keys []string
	for len(keys) < n {
		l := nameLen
		if l <= 0 {
			l = 1 + rng.Intn(60)
		}
		b := make([]byte, l)
		id := fmt.Sprintf("x%d.", len(keys))
		for i := range b {
			if i < len(id) && l >= len(id)+1 {
				b[i] = id[i]
			} else {
				b[i] = "abcdefghijklmnopqrstuvwxyz0123456789._-"[rng.Intn(39)]
			}
		}
		k := string(b)
		if nameLen <= 0 && rng.Intn(12) == 0 {
			k += ":v" + strconv.Itoa(rng.Intn(9)) // a key with a suffix: devmod lists the part before ':'
		}
		m, _, _ := strings.Cut(k, ":")
		if seen[m] || strings.HasPrefix(m, "m") && len(m) == 2 {
			if l <= 2 { // few short names exist: allow a longer one
				nameLen = 0
			}
			continue
		}
		seen[m] = true
		keys = append(keys, k)
	}
	return keys
}

func genE2E(p core.Params) *e2eScript {
	seed, _ := strconv.ParseInt(p["seed"], 10, 64)
	rng := rand.New(rand.NewSource(seed))
	sc := &e2eScript{devs: map[string]*scDev{}, cdm: p["cdm"], class: p["class"]}
	sc.devMTU, _ = strconv.Atoi(p["dmtu"])
	sc.ownMTU, _ = strconv.Atoi(p["omtu"])
	nown, _ := strconv.Atoi(p["nown"])
	nn, _ := strconv.Atoi(p["nnames"])
	nl, _ := strconv.Atoi(p["namelen"])
	sched, _ := strconv.Atoi(p["sched"])
	class := p["class"]
	big := p["big"] == "1"
	rnd := func(n int) []byte { b := make([]byte, n); rng.Read(b); return b }
	sc.inertKeys = genInertKeys(rng, nn, nl)
	sc.httpDefault = p["httpdef"] == "1"
	feature := func(f string) bool { return class == f || (class == "mixed" && rng.Intn(3) == 0) }
	for i := 0; i < nown; i++ {
		o := &scOwner{idx: i, name: fmt.Sprintf("m%d", i), devMTU: sc.devMTU, useAvail: p["avail"] == "1", linger: 1}
		o.acts = []oAct{{name: "active", data: []byte{0xf5}}}
		if class == "activeonly" { // the round that activates the module carries nothing else: what the device module says on its first yield belongs to this module
			o.acts = append(o.acts, oAct{end: true})
		}
		sc.owners = append(sc.owners, o)
		present := true
		switch {
		case class == "owneronly" || class == "mixed":
			present = rng.Intn(3) != 0
		case (class == "fireforget" || class == "eager") && i == 0:
			present = false
		}
		if !present {
			switch class {
			case "fireforget": // says its piece and is done at once
				o.linger = 0
			case "eager": // active and a message in the same ProduceInfo
				o.acts = append(o.acts, oAct{name: "q0", data: rnd(5)}, oAct{end: true})
			default:
				o.acts = append(o.acts, oAct{end: true})
			}
			continue
		}
		d := &scDev{name: o.name, sched: sched, rng: rand.New(rand.NewSource(seed*31 + int64(i))), onRecv: map[string][]dSend{}, onYield: map[int][]dSend{}}
		sc.devs[o.name] = d
		prevYA, prevData := false, false
		mkSend := func(name string, first bool) dSend {
			if first {
				prevYA, prevData = false, false
			}
			s := dSend{name: name, data: rnd(pickSize(rng, sc.ownMTU, big))}
			if rng.Intn(2) == 0 {
				s.piece = 1 + rng.Intn(max(1, sc.ownMTU))
			}
			if feature("yield") { // single message breaks only: after an entry, or between two entries
				if !first && !prevYA && rng.Intn(3) == 0 {
					s.yb = true
				} else {
					s.ya = rng.Intn(2) == 0
				}
			}
			switch {
			case class == "yield0" && first: // a break before the first entry of a response
				s.yb = true
			case class == "yield2" && !first: // two breaks in a row between two entries
				s.yb, s.yb2 = true, true
			}
			if len(s.data) == 0 && class != "yield0" && class != "yield2" {
				// an entry without value bytes is never sent (ChunkReader skips it): a break next to it is a break next to
				// whatever precedes it, possibly the start of the message (the probes yield0 / yield2 look at that)
				s.ya, s.yb, s.yb2 = false, false, false
				return s
			}
			if s.yb && !prevData && class != "yield0" {
				s.yb = false // nothing of this response is in the message yet
			}
			prevData = true
			prevYA = s.ya
			if len(s.data) == 0 {
				sc.expectDevEmpty++
			}
			return s
		}
		groups := 1 + rng.Intn(3)
		if class == "yieldfill" {
			groups = 2
		}
		if class == "activeonly" {
			groups = 0 // the owner module says nothing more: whatever it is to receive, the device module says on its yield
		}
		for g := 0; g < groups; g++ {
			nm := 1 + rng.Intn(3)
			for k := 0; k < nm; k++ {
				mname := fmt.Sprintf("q%d%d%d", i, g, k)
				if feature("samename") && k > 0 {
					mname = fmt.Sprintf("q%d%d%d", i, g, k-1)
				}
				o.acts = append(o.acts, oAct{name: mname, data: rnd(pickSize(rng, sc.devMTU, big))})
				if feature("block") && k < nm-1 && rng.Intn(2) == 0 {
					o.acts = append(o.acts, oAct{end: true, block: true})
				}
				if class == "yieldfill" && g == 1 && k == 0 {
					// an entry that fills the DeviceServiceInfo to the last byte, a message break, one more entry
					key := fmt.Sprintf("r%d%d%d0", i, g, k)
					target := sc.ownMTU - 5 - 1 - (1 + len(o.name) + 1 + len(key))
					n := target - 3
					if target-2 < 256 {
						n = target - 2
					}
					if target-1 < 24 {
						n = target - 1
					}
					if n > 0 {
						d.onRecv[mname] = []dSend{{name: key, data: rnd(n), ya: true}, {name: fmt.Sprintf("r%d%d%d1", i, g, k), data: rnd(1 + rng.Intn(40))}}
						continue
					}
				}
				if (rng.Intn(3) != 0 || class == "yield2" || class == "yield0") && len(d.onRecv[mname]) == 0 {
					ns := rng.Intn(2)
					if class == "yield2" {
						ns = 1
					}
					for s := 0; s <= ns; s++ {
						d.onRecv[mname] = append(d.onRecv[mname], mkSend(fmt.Sprintf("r%d%d%d%d", i, g, k, s), s == 0))
					}
				}
			}
			last := g == groups-1
			if class == "late" && i == 0 && last { // completion together with the last messages, the device still answers
				o.linger = 0
				mname := fmt.Sprintf("q%d%dz", i, g)
				o.acts = append(o.acts, oAct{name: mname, data: rnd(7)})
				d.onRecv[mname] = []dSend{{name: fmt.Sprintf("r%d%dz", i, g), data: rnd(9)}}
				break
			}
			o.acts = append(o.acts, oAct{end: true})
		}
		if feature("yield") || class == "yieldsend" || class == "activeonly" {
			o.linger = 2
			y := 1 + rng.Intn(2)
			if class == "activeonly" {
				y = 1
				o.linger = 3
			}
			d.onYield[y] = append(d.onYield[y], mkSend(fmt.Sprintf("y%d%d", i, y), true))
		}
	}
	if class == "devonly" || class == "mixed" {
		for i := 0; i <= rng.Intn(3); i++ {
			sc.inertKeys = append(sc.inertKeys, fmt.Sprintf("d%d", i))
		}
	}
	for _, k := range sc.inertKeys {
		sc.inert = append(sc.inert, &scInert{name: k})
	}
	return sc
}

type e2eObs struct {
	sc       *e2eScript
	run      *svcRun
	err      error
	hang     bool
	n68      int
	fails    [][2]string // signature, detail
	expected string      // a refusal the configuration asks for
	devKeys  []string
}

var lastE2E *e2eObs

func (o *e2eObs) fail(sig, format string, a ...any) {
	o.fails = append(o.fails, [2]string{sig, fmt.Sprintf(format, a...)})
}

func evalSvcE2E(p core.Params) (string, string) {
	line := "svc.e2e " + paramLine(p)
	sc := genE2E(p)
	obs := &e2eObs{sc: sc}
	lastE2E = obs
	w, err := svcGetWorld()
	if err != nil {
		return line, "err-env " + err.Error()
	}
	run := &svcRun{maxReqs: 3000} // a run that makes no progress is cut here (the device itself gives up after 1e6 rounds)
	obs.run = run
	for _, o := range sc.owners {
		o.run = run
		run.owners = append(run.owners, svcNamed{o.name, o})
	}
	cfg := w.dev.TO2Config(kex.ECDH256Suite, kex.A128GcmCipher)
	cfg.AllowCredentialReuse = true
	cfg.Devmod = svcDevmod
	cfg.MaxServiceInfoSizeReceive = uint16(sc.devMTU)
	cfg.DeviceModules = map[string]serviceinfo.DeviceModule{}
	for _, m := range sc.inert {
		cfg.DeviceModules[m.name] = m
		obs.devKeys = append(obs.devKeys, m.name)
	}
	for n, d := range sc.devs {
		cfg.DeviceModules[n] = d
		obs.devKeys = append(obs.devKeys, n)
	}
	if sc.cdm != "" {
		cfg.DeviceModules["devmod"] = &svcYieldDevmod{each: sc.cdm == "2"}
		obs.devKeys = append(obs.devKeys, "devmod")
	}
	w.e.OwnerMTU = uint16(sc.ownMTU)
	if p["procs"] == "1" {
		defer runtime.GOMAXPROCS(runtime.GOMAXPROCS(1))
	}
	if sc.httpDefault {
		w.e.Handler.MaxContentLength = 0
		defer func() { w.e.Handler.MaxContentLength = -1 }()
	}
	w.begin(run)
	ctx, cancel := context.WithTimeout(context.Background(), 14*time.Second)
	done := make(chan error, 1)
	tr := w.transport()
	if sc.httpDefault {
		tr.MaxContentLength = 0
	}
	meter := newSizeMeter(tr, sc.ownMTU, sc.devMTU) // svcinfo_more.go: every 68 / 69 against the announced sizes
	go func() {
		_, err := fdo.TO2(ctx, meter, nil, cfg)
		done <- err
	}()
	select {
	case obs.err = <-done:
	case <-time.After(15 * time.Second):
		obs.hang = true
	}
	cancel()
	w.end()
	if !obs.hang {
		time.Sleep(200 * time.Microsecond) // let the library's goroutines of this session wind down
	}
	checkE2E(obs)
	consolidateProbe(obs)
	meter.report(obs, p["avail"] == "1")
	var sb strings.Builder
	switch {
	case obs.hang:
		sb.WriteString("hang")
	case obs.err != nil && obs.expected != "":
		sb.WriteString("refused:" + obs.expected)
	case obs.err != nil:
		sb.WriteString("fail " + svcClip(obs.err.Error(), 160))
	default:
		sb.WriteString("ok")
	}
	fmt.Fprintf(&sb, " n68=%d", obs.n68)
	for _, f := range obs.fails {
		sb.WriteString(" !" + f[0])
	}
	return line, sb.String()
}

func svcClip(s string, n int) string {
	if len(s) > n {
		return s[:n] + "…"
	}
	return s
}

func paramLine(p core.Params) string {
	keys := make([]string, 0, len(p))
	for k := range p {
		if k != "lineonly" {
			keys = append(keys, k)
		}
	}
	sort.Strings(keys)
	var sb strings.Builder
	for _, k := range keys {
		sb.WriteString(k + "=" + p[k] + " ")
	}
	return strings.TrimSpace(sb.String())
}

// checkE2E runs the monitors of one fdo.TO2 run.
func checkE2E(o *e2eObs) {
	sc, ev := o.sc, o.run.events()
	for _, e := range ev {
		if e.k == 'q' && e.a == 68 {
			o.n68++
		}
	}
	probe := sc.class == "late" || sc.class == "fireforget" || sc.class == "eager"
	if o.sc.httpDefault && o.err != nil && strings.Contains(o.err.Error(), "content too large") {
		o.fail("mtu-exceeds-http-limit", "device MTU %d, owner MTU %d, default limits of the HTTP transport and handler: %s", sc.devMTU, sc.ownMTU, svcClip(o.err.Error(), 300))
		return
	}
	if o.hang {
		o.fail("to2-hang", "fdo.TO2 did not return within 15 s (%d DeviceServiceInfo messages so far)", o.n68)
		return
	}
	if o.err != nil {
		es := o.err.Error()
		o.run.mu.Lock()
		if o.run.lastErr != "" {
			es += " | owner said: " + o.run.lastErr
		}
		o.run.mu.Unlock()
		if strings.Contains(es, "MTU too small to send devmod module name alone") {
			longest := 0
			for _, k := range o.devKeys {
				m, _, _ := strings.Cut(k, ":")
				longest = max(longest, len(m))
			}
			if 17+1+3+2+longest > sc.ownMTU { // [["devmod:modules",[start,1,name]]] with a 2-byte start and text header
				o.expected = "name-exceeds-mtu"
				return
			}
		}
		sig := "to2-failed"
		switch {
		case strings.Contains(es, `"devmod:modules"`):
			sig = "devmod-modules-split"
		case strings.Contains(es, `"devmod:`):
			sig = "devmod-descriptor-split"
		case strings.Contains(es, "has not activated module"):
			sig = "unknown-module-message-fails-to2"
		case strings.Contains(es, "503"), strings.Contains(es, "deadline exceeded") && o.n68 > 500:
			sig = "to2-no-progress"
			es += " | the owner's devmod collector never completes (the device did not send its whole module list and does not know), both sides keep exchanging empty service-info messages (the device gives up after 1e6 rounds)"
		}
		o.fail(sig, "fdo.TO2 failed after %d DeviceServiceInfo messages: %s", o.n68, svcClip(es, 600))
		return
	}
	// owner modules one after another to completion; Done exactly after the last completion
	n := len(sc.owners)
	curMod, doneMod := -1, map[int]bool{}
	complete, doneSeen := -1, -1
	for i, e := range ev {
		switch e.k {
		case 'p', 'h':
			switch {
			case doneMod[e.a]:
				o.fail("module-order", "owner module %d is invoked (%c %s) after it reported completion", e.a, e.k, e.s)
			case e.a < curMod:
				o.fail("module-order", "owner module %d is invoked after module %d had its first turn", e.a, curMod)
			case e.a > curMod:
				if e.a != curMod+1 || (curMod >= 0 && !doneMod[curMod]) {
					o.fail("module-order", "owner module %d starts while module %d has not reported completion", e.a, curMod)
				}
				curMod = e.a
			}
			if e.k == 'p' && e.b&1 != 0 {
				doneMod[e.a] = true
				if e.a == n-1 {
					complete = i
				}
			}
		case 'n':
			if n == 0 {
				complete = i
			}
		case 'q':
			if e.a == 70 && doneSeen < 0 {
				doneSeen = i
			}
		}
	}
	switch {
	case doneSeen < 0:
		o.fail("done-missing", "fdo.TO2 returned without error and no TO2.Done was sent")
	case complete < 0 || doneSeen < complete:
		o.fail("done-too-early", "TO2.Done was sent before the last owner module (%d of %d) reported completion", curMod+1, n)
	default:
		for _, e := range ev[complete:doneSeen] {
			if e.k == 'q' {
				o.fail("done-missing", "after the reply in which the last module completed the device sent message %d, not TO2.Done", e.a)
				break
			}
		}
	}
	// devmod as the owner obtained it
	o.run.mu.Lock()
	gotDM, gotMods := o.run.gotDevmod, o.run.gotModules
	o.run.mu.Unlock()
	want := listedNames(o.devKeys)
	switch {
	case gotDM == nil:
		o.fail("devmod-modules-incomplete", "the owner never asked for its module list (devmod not complete?)")
	default:
		if !sameMultiset(gotMods, want) {
			o.fail(fmt.Sprintf("devmod-modules-incomplete:%d/%d", len(want), sc.ownMTU), "the device has %d modules, the owner obtained %d: %s", len(want), len(gotMods), svcClip(strings.Join(gotMods, ","), 300))
		}
		if fmt.Sprintf("%+v", *gotDM) != fmt.Sprintf("%+v", svcDevmod) {
			o.fail("devmod-descriptors-differ", "device %+v, owner %+v", svcDevmod, *gotDM)
		}
	}
	for _, m := range sc.inert {
		if len(m.calls) > 0 {
			o.fail("received-before-activation", "device module %q, which no owner module addressed, saw %v", m.name, m.calls)
		}
	}
	// streams
	for i, om := range sc.owners {
		for _, v := range om.viol {
			if strings.HasPrefix(v, "harness") {
				o.fail("harness-script", "%s", v)
			} else {
				o.fail("module-order", "owner module %d: %s", i, v)
			}
		}
		if om.ctxDevmod != nil && fmt.Sprintf("%+v", *om.ctxDevmod) != fmt.Sprintf("%+v", svcDevmod) {
			o.fail("devmod-descriptors-differ", "the devmod in owner module %d's context is %+v", i, *om.ctxDevmod)
		}
		d := sc.devs[om.name]
		if d == nil {
			switch {
			case len(om.actives) == 0 && !(probe && om.linger == 0):
				o.fail("unknown-module-active", "owner module %s (no such device module) got no answer to active=true", om.name)
			case len(om.actives) > 1 || (len(om.actives) == 1 && !bytes.Equal(om.actives[0], []byte{0xf4})):
				o.fail("unknown-module-active", "owner module %s (no such device module) got active answers % x", om.name, om.actives)
			}
			if len(om.recv) > 0 {
				o.fail("delivered-to-wrong-module", "owner module %s (no such device module) received %s", om.name, fragSummary(om.recv))
			}
			continue
		}
		d.mu.Lock()
		for _, v := range d.viol {
			sig, _, _ := strings.Cut(v, ":")
			o.fail(sig, "device module %s: %s", d.name, v)
		}
		if len(d.trans) != 1 || !d.trans[0] {
			o.fail("received-before-activation", "device module %s saw transitions %v, expected exactly one activation", d.name, d.trans)
		}
		if sc.class == "activeonly" && d.yields == 0 {
			// the owner module only activated it and then waited (three more rounds): the floor goes to the activated module
			o.fail("activated-module-never-yielded-to", "device module %s was activated in a round that carried nothing else, the owner module then waited %d rounds, and the device never yielded to it (what it has to say was never asked for)", d.name, om.linger)
		}
		if len(om.actives) != 1 || !bytes.Equal(om.actives[0], []byte{0xf5}) {
			sig := "active-answer-wrong"
			if len(om.actives) > 1 {
				sig = "delivered-to-wrong-module"
			}
			o.fail(sig, "owner module %s got active answers % x, expected one f5", om.name, om.actives)
		}
		var sentData []frag
		for _, f := range om.sent {
			if f.name != "active" {
				sentData = append(sentData, f)
			}
		}
		if k, det := compareFrags(normFrags(sentData, false), normFrags(d.recv, false)); k != "" {
			if k == "stream-differs" {
				k += ":own->dev"
			}
			o.fail(k, "module %s owner->device (device MTU %d): %s", om.name, sc.devMTU, det)
		}
		foreign := false
		for _, f := range om.recv {
			if len(f.name) < 2 || f.name[1] != byte('0'+i) {
				foreign = true
			}
		}
		if foreign {
			o.fail("delivered-to-wrong-module", "owner module %s received entries another device module wrote: %s", om.name, fragSummary(om.recv))
		} else if k, det := compareFrags(normFrags(d.sent, true), normFrags(om.recv, true)); k != "" {
			if k == "stream-differs" {
				k += ":dev->own"
			}
			o.fail(k, "module %s device->owner (owner MTU %d): %s", om.name, sc.ownMTU, det)
		}
		d.mu.Unlock()
	}
}

// consolidateProbe: in the probes whose owner module 0 completes while the device still answers it, every symptom has one
// cause (the owner hands a device entry to whatever module has the turn, whatever module the key names).
func consolidateProbe(o *e2eObs) {
	sc := o.sc
	if (sc.class != "late" && sc.class != "fireforget") || len(sc.owners) < 2 || len(o.fails) == 0 {
		return
	}
	m1 := sc.owners[1]
	var what []string
	if len(m1.actives) != 1 || !bytes.Equal(m1.actives[0], []byte{0xf5}) {
		for _, a := range m1.actives {
			what = append(what, fmt.Sprintf("active=%x", a))
		}
	}
	for _, f := range m1.recv {
		if len(f.name) >= 2 && f.name[1] == '0' {
			what = append(what, fmt.Sprintf("%s[%d bytes]", f.name, len(f.data)))
		}
	}
	for _, f := range o.fails {
		if strings.HasPrefix(f[0], "to2-") || strings.HasPrefix(f[0], "devmod") {
			return
		}
	}
	detail := fmt.Sprintf("owner module m0 reported completion in the ProduceInfo that sent its last entries; the device's entries for m0 (keys \"m0:...\") arrived with the next "+
		"DeviceServiceInfo and were handed to owner module m1, which saw: %s", strings.Join(what, ", "))
	if sc.class == "fireforget" {
		detail += "; the device has no module m0 and answered m0:active=false, m1 took that for the answer to its own activation"
		if d := sc.devs["m1"]; d != nil && len(d.trans) == 0 {
			detail += " and never activated the device's m1"
		}
	}
	o.fails = [][2]string{{"delivered-to-wrong-module", detail}}
}

func registerSvcE2EKinds(c *core.Ctx) {
	c.Register(&core.Kind{Name: "svc.e2e", NoModel: true, Eval: evalSvcE2E})
}

// RunC16 (sweeps) follows.
func RunC16(c *core.Ctx) {
	registerSvcKinds(c)
	runC16(c)
}

func runC16(c *core.Ctx) {
	defer closeSvcWorld()
	c.Rep.Rule = "cases: (1) devmod.split = serviceinfo.Devmod.Write for 0..200 module names (fixed lengths 1..60 and random 1..60, keys with ':' suffix, custom devmod key) at every MTU " +
		"in a window above the smallest that holds one name, notable MTUs (255..258, 280..282, 1300, 4096, 65535) and random MTUs up to 65535, against the model's greedy split (cutting points, start indices); " +
		"monitor: names listed = module map + devmod, nummodules, chunk headers. (2) devmod.collect = the real owner service fed hand-made devmod:modules chunks by the raw client (honest and 11 alterations, " +
		"in one or several 68s, as one stream or separated) against the model's collector. (3) svc.sequence = raw-client TO2 sessions with random IsMoreServiceInfo patterns against owner modules that need " +
		"k_i ProduceInfo calls, against the model's walk; monitor: producers form a prefix of the ideal order, IsDone once and with the last completion. (4) svc.wire = Devmod.Write fed into the device's real " +
		"sending loop for module lists of 0..200 names at dense and random owner MTUs, read as the owner reads them, and replayed message by message to the real owner (smallest failing cases and a sample). " +
		"(5) svc.e2e = fdo.TO2 against the real owner service with scripted owner/device modules (0..4 owner modules, messages of 0..5 MTU in both directions, blockPeer, yield, same-name messages, modules on " +
		"one side only, goroutine perturbation, GOMAXPROCS 1) over device/owner MTU pairs from 17/28 to 65535 and 0..200 module names; monitors as named in the property. non-trivial = every case; distinct = " +
		"distinct case line and parameters"
	c.Trivial = func(o core.Obs) bool { return false }
	runC16Split(c)
	runC16Collect(c)
	runC16Sequence(c)
	runC16Wire(c)
	runC16E2E(c)
	runC16More(c) // svcinfo_more.go
}

// fixedNames: n distinct names of l bytes (the index in base 62, padded on the left).
func fixedNames(n, l int) []string {
	const alpha = "abcdefghijklmnopqrstuvwxyz0123456789ABCDEFGHIJKLMNOPQRSTUVWXYZ"
	out := make([]string, 0, n)
	for i := 0; i < n; i++ {
		b := make([]byte, l)
		x := i
		for k := l - 1; k >= 0; k-- {
			b[k] = alpha[x%62]
			x /= 62
		}
		if x > 0 { // more names than there are of this length
			break
		}
		out = append(out, string(b))
	}
	return out
}

func runC16Split(c *core.Ctx) {
	lostReported := false
	do := func(keys []string, mtu int, meta string) {
		p := core.Params{"mtu": fmt.Sprint(mtu), "names": hexNames(keys)}
		o := c.Do("devmod.split", p, meta)
		obs := lastSplit
		if strings.HasPrefix(o.Impl, "panic") || o.Impl == "hang" {
			svcFail(c, o.Impl+"@Devmod.Write", core.PanicText, "devmod.split", p, o)
			return
		}
		if obs != nil && obs.Lost {
			c.Count("split_outcome", "err-lost")
			if !lostReported {
				lostReported = true
				svcFail(c, "devmod-write-error-lost", fmt.Sprintf("MTU %d, %d modules: Devmod.Write fails at the first name (it does not fit alone) but the reader of the pipe sees a clean end after "+
					"devmod:nummodules=%d: no devmod:modules entry and no error", mtu, len(keys), obs.Num), "devmod.split", p, o)
			}
			return
		}
		if obs == nil || obs.Err != nil {
			c.Count("split_outcome", "err")
			return
		}
		c.Count("split_chunks", bucket(len(obs.Chunks)))
		var all []string
		next := 0
		for _, ch := range obs.Chunks {
			if ch.Len != len(ch.Modules) || ch.Start != next {
				svcFail(c, "chunk-header-wrong", fmt.Sprintf("chunk start %d len %d with %d names, expected start %d", ch.Start, ch.Len, len(ch.Modules), next), "devmod.split", p, o)
			}
			next += len(ch.Modules)
			all = append(all, ch.Modules...)
		}
		if want := listedNames(keys); !sameMultiset(all, want) || obs.Num != len(want) {
			svcFail(c, "modules-lost", fmt.Sprintf("device modules %d (+devmod), nummodules %d, names in the chunks %d", len(keys), obs.Num, len(all)), "devmod.split", p, o)
		}
	}
	rng := c.Rng
	counts := []int{0, 1, 2, 5, 22, 23, 24, 25, 60, 200}
	lens := []int{1, 2, 7, 22, 23, 24, 60}
	if c.Quick() {
		counts = []int{0, 1, 3, 23, 24, 200}
		lens = []int{2, 23, 24, 60}
	}
	for _, n := range counts {
		for _, l := range lens {
			if l == 1 && n > 60 {
				continue
			}
			keys := fixedNames(n, l)
			lo := 17 + 3 + l // below: not even one name fits
			step := 1
			hi := lo + 140
			if c.Quick() {
				hi = lo + 70
				if n > 30 {
					step = 3
				}
			}
			for mtu := lo; mtu <= hi; mtu += step {
				do(keys, mtu, "split-sweep-fixedlen")
			}
			for _, mtu := range []int{255, 256, 257, 258, 280, 281, 282, 1300, 4096, 65535} {
				do(keys, mtu, "split-notable-mtu")
			}
		}
	}
	nr := 1500
	if c.Quick() {
		nr = 250
	}
	for i := 0; i < nr; i++ {
		n := rng.Intn(201)
		keys := genInertKeys(rng, n, 0)
		var mtu int
		switch rng.Intn(4) {
		case 0:
			mtu = 20 + rng.Intn(80)
		case 1:
			mtu = 80 + rng.Intn(400)
		case 2:
			mtu = 400 + rng.Intn(3000)
		default:
			mtu = 1 << (5 + rng.Intn(11))
			mtu += rng.Intn(mtu)
			mtu = min(mtu, 65535)
		}
		if rng.Intn(10) == 0 {
			keys = append(keys, "devmod") // a custom devmod module: listed once, no descriptors written by Write
		}
		do(keys, mtu, "split-random")
	}
}

func bucket(n int) string {
	switch {
	case n <= 3:
		return fmt.Sprint(n)
	case n <= 10:
		return "4-10"
	case n <= 50:
		return "11-50"
	}
	return ">50"
}

func runC16Collect(c *core.Ctx) {
	rng := c.Rng
	n := 900
	if c.Quick() {
		n = 160
	}
	for i := 0; i < n; i++ {
		nn := rng.Intn(13)
		if rng.Intn(6) == 0 {
			nn = 20 + rng.Intn(180)
		}
		names := genInertKeys(rng, nn, 1+rng.Intn(12))
		for j := range names {
			names[j], _, _ = strings.Cut(names[j], ":")
		}
		// honest chunking at random cutting points
		var cs []collectChunk
		for st := 0; st < len(names) || (st == 0 && len(cs) == 0); {
			k := 1 + rng.Intn(max(1, min(len(names)-st, 1+rng.Intn(8))))
			k = min(k, len(names)-st)
			cs = append(cs, collectChunk{st, k, append([]string(nil), names[st:st+k]...)})
			st += k
			if len(names) == 0 {
				break
			}
		}
		num := len(names)
		meta := "collect-honest"
		if i%3 != 0 && len(cs) > 0 {
			j := rng.Intn(len(cs))
			switch m := rng.Intn(11); m {
			case 0:
				cs[j].Start = rng.Intn(num + 3)
				meta = "collect-start-altered"
			case 1:
				cs[j].Len += 1 - 2*rng.Intn(2)
				cs[j].Len = max(cs[j].Len, 0)
				meta = "collect-len-mismatch"
			case 2:
				if len(cs[j].Names) > 0 {
					cs[j].Names[rng.Intn(len(cs[j].Names))] = ""
				}
				meta = "collect-empty-name"
			case 3:
				num = max(0, num-1-rng.Intn(2))
				meta = "collect-num-smaller"
			case 4:
				num += 1 + rng.Intn(3)
				meta = "collect-num-larger"
			case 5:
				rng.Shuffle(len(cs), func(a, b int) { cs[a], cs[b] = cs[b], cs[a] })
				meta = "collect-chunks-reordered"
			case 6:
				cs = append(cs[:j+1], cs[j:]...)
				meta = "collect-chunk-duplicated"
			case 7:
				cs = append(cs[:j], cs[j+1:]...)
				meta = "collect-chunk-missing"
			case 8:
				cs[j].Start = num + 1 + rng.Intn(3)
				meta = "collect-start-beyond"
			case 9:
				cs = append(cs, collectChunk{rng.Intn(num + 1), 1, []string{"late"}})
				meta = "collect-extra-after-complete"
			case 10:
				cs[j].Names = append(cs[j].Names, "more")
				cs[j].Len++
				meta = "collect-chunk-too-long"
			}
		}
		p := core.Params{"num": fmt.Sprint(num), "chunks": encodeChunks(cs)}
		if len(cs) > 1 && rng.Intn(2) == 0 { // spread over several 68s (the owner keeps the list in its session store between them)
			var cut []string
			for j := 1; j < len(cs); j++ {
				if rng.Intn(3) == 0 {
					cut = append(cut, fmt.Sprint(j))
				}
			}
			p["cut"] = strings.Join(cut, ",")
		}
		if rng.Intn(3) == 0 {
			p["sep"] = "1"
		}
		o := c.Do("devmod.collect", p, meta)
		switch {
		case strings.HasPrefix(o.Impl, "err-"):
			svcFail(c, "harness:"+svcFirst(o.Impl), o.Impl, "devmod.collect", p, o)
		case meta == "collect-honest" && !strings.HasPrefix(o.Impl, "ok T"):
			svcFail(c, "devmod-modules-incomplete:collect", "an honest chunk sequence was not collected completely: "+o.Impl+" "+lastCollectErr, "devmod.collect", p, o)
		}
	}
}

func runC16Sequence(c *core.Ctx) {
	rng := c.Rng
	do := func(plan, flags []int, noise bool, meta string) {
		p := core.Params{"plan": joinInts(plan), "flags": joinInts(flags)}
		if noise {
			p["noise"] = "1"
		}
		o := c.Do("svc.sequence", p, meta)
		if strings.HasPrefix(o.Impl, "err-") {
			svcFail(c, "harness:"+svcFirst(o.Impl), o.Impl, "svc.sequence", p, o)
			return
		}
		if o.Impl != o.Model && lastSeq != nil && lastSeq.FirstErr != "" {
			c.Note("svc.sequence %s / %s: first refusal %s", p["plan"], p["flags"], lastSeq.FirstErr)
		}
		if lastSeq != nil && lastSeq.KeyMismatch != "" {
			svcFail(c, "module-order", lastSeq.KeyMismatch, "svc.sequence", p, o)
		}
		// the conclusion on the implementation's own trace: producers form a prefix of 0^k0 1^k1 ..., IsDone at most once and
		// only with the last completion
		var ideal []int
		for i, k := range plan {
			for j := 0; j < max(k, 1); j++ {
				ideal = append(ideal, i)
			}
		}
		pos, dones := 0, 0
		for _, f := range strings.Fields(o.Impl)[1:] {
			if !strings.HasPrefix(f, "p") {
				continue
			}
			var m int
			var d string
			if i := strings.IndexByte(f, ':'); i > 0 {
				mm, _ := strconv.ParseInt(f[1:i], 16, 32)
				m, d = int(mm), f[i+1:]
			}
			if pos >= len(ideal) || ideal[pos] != m {
				svcFail(c, "module-order", fmt.Sprintf("producer %d at position %d of the run, expected %v", m, pos, ideal), "svc.sequence", p, o)
				break
			}
			pos++
			if d == "T" {
				dones++
				if pos != len(ideal) {
					svcFail(c, "done-too-early", fmt.Sprintf("IsDone after %d of %d ProduceInfo calls", pos, len(ideal)), "svc.sequence", p, o)
				}
			} else if pos == len(ideal) {
				svcFail(c, "done-missing", "the last module completed and the reply does not carry IsDone", "svc.sequence", p, o)
			}
		}
		if dones > 1 {
			svcFail(c, "done-too-early", "IsDone sent more than once", "svc.sequence", p, o)
		}
	}
	do([]int{1, 2, 1}, []int{0, 1, 0, 0, 0, 0}, false, "sequence-example")
	do([]int{1}, []int{0, 0}, false, "sequence-no-modules")
	n := 700
	if c.Quick() {
		n = 130
	}
	for i := 0; i < n; i++ {
		nm := rng.Intn(5)
		plan := []int{1 + rng.Intn(3)}
		total := plan[0]
		for j := 0; j < nm; j++ {
			k := 1 + rng.Intn(4)
			plan = append(plan, k)
			total += k
		}
		var flags []int
		rounds := total + rng.Intn(5) - 1
		if rng.Intn(4) == 0 {
			rounds = rng.Intn(total + 1)
		}
		pm := rng.Intn(60)
		for len(flags) < rounds || (len(flags) > 0 && flags[len(flags)-1] == 1 && rng.Intn(2) == 0) {
			f := 0
			if rng.Intn(100) < pm {
				f = 1
			}
			flags = append(flags, f)
			if len(flags) > 40 {
				break
			}
		}
		if len(flags) == 0 {
			flags = []int{0}
		}
		do(plan, flags, rng.Intn(2) == 0, fmt.Sprintf("sequence-random-%dmod", nm))
	}
}

func joinInts(xs []int) string {
	parts := make([]string, len(xs))
	for i, x := range xs {
		parts[i] = strconv.Itoa(x)
	}
	return strings.Join(parts, ",")
}

type wireCase struct {
	n, l, mtu int
	cdm       string
	detail    string
	params    core.Params
	obs       core.Obs
}

func runC16Wire(c *core.Ctx) {
	rng := c.Rng
	smallest := map[string]*wireCase{} // per verdict and devmod flavour
	type region struct{ total, bad, minOK, maxBad int }
	regions := map[string]*region{}
	var regionKeys []string
	var again func(keys []string, l, mtu int, cdm string)
	do := func(keys []string, l, mtu int, cdm string, replay bool, meta string) {
		p := core.Params{"omtu": fmt.Sprint(mtu), "names": hexNames(keys)}
		if cdm != "" {
			p["cdm"] = cdm
		}
		if replay {
			p["replay"] = "1"
		}
		o := c.Do("svc.wire", p, meta)
		obs := lastWire
		if strings.HasPrefix(o.Impl, "panic") || o.Impl == "hang" || strings.HasPrefix(o.Impl, "err-") {
			svcFail(c, "harness-or-panic:"+svcFirst(o.Impl), o.Impl+" "+core.PanicText, "svc.wire", p, o)
			return
		}
		n := len(keys)
		rk := fmt.Sprintf("names=%d len=%d devmod=%s", n, l, map[string]string{"": "builtin", "1": "custom", "2": "custom+yield"}[cdm])
		rg := regions[rk]
		if rg == nil {
			rg = &region{minOK: -1}
			regions[rk] = rg
			regionKeys = append(regionKeys, rk)
		}
		rg.total++
		v := obs.Verdict
		if obs.SimErr != "" && v == "" {
			v = "device-loop-failed"
			obs.Detail = obs.SimErr
		}
		if v != "" {
			rg.bad++
			rg.maxBad = max(rg.maxBad, mtu)
			c.Count("wire_verdict", v)
			key := v + "/" + cdm
			if sm := smallest[key]; v != "device-loop-failed" && (sm == nil || n < sm.n || (n == sm.n && (l < sm.l || (l == sm.l && mtu < sm.mtu)))) {
				smallest[key] = &wireCase{n, l, mtu, cdm, obs.Detail, p, o}
			}
			if mtu == 1300 && cdm == "" && v != "device-loop-failed" {
				if sm := smallest[v+"@1300"]; sm == nil || n < sm.n || (n == sm.n && l < sm.l) {
					smallest[v+"@1300"] = &wireCase{n, l, mtu, cdm, obs.Detail, p, o}
				}
			}
		} else {
			c.Count("wire_verdict", "fine")
			if rg.minOK < 0 || mtu < rg.minOK {
				rg.minOK = mtu
			}
		}
		if !obs.Replayed {
			if v == "devmod-truncated" && !replay {
				again(keys, l, mtu, cdm)
			}
			return
		}
		refused := obs.ReplyErr != ""
		silent := v == "devmod-truncated" || v == "devmod-write-error-lost" // the owner cannot notice: it waits for the rest
		want := listedNames(keysWith(keys, cdm))
		switch {
		case v == "device-loop-failed":
		case silent && !refused && !obs.Complete:
			c.Count("wire_replay", "accepted-incomplete:"+v)
			if sm := smallest[v+"/"+cdm]; sm != nil && sm.mtu == mtu && sm.n == n && sm.l == l {
				filled := 0
				for _, g := range obs.Got {
					if g != "" {
						filled++
					}
				}
				sm.detail = obs.Detail + fmt.Sprintf(" | the real owner answers all %d messages with 69 and holds %d of %d names, devmod not complete: TO2 cannot finish", len(obs.Msgs), filled, len(want))
			}
		case v != "" && !refused:
			svcFail(c, "wire-prediction-mismatch", fmt.Sprintf("predicted %s (%s), the owner accepted all %d messages, complete=%v", v, obs.Detail, len(obs.Msgs), obs.Complete), "svc.wire", p, o)
		case v == "" && refused:
			svcFail(c, "wire-prediction-mismatch", fmt.Sprintf("predicted fine, the owner refused message %d: %s", len(obs.ReplyTyp), obs.ReplyErr), "svc.wire", p, o)
		case refused && v == "devmod-truncated" && strings.Contains(obs.ReplyErr, "missing required devmod field"):
			// the device stopped before all descriptors were out; the owner's collector, reloaded from the session store with an
			// empty (no longer nil) module list, takes the empty final message for the end of devmod and validates
			c.Count("wire_replay", "refused:devmod-truncated-before-descriptors-complete")
		case refused && silent:
			svcFail(c, "wire-prediction-mismatch", fmt.Sprintf("predicted %s, the owner refused message %d: %s", v, len(obs.ReplyTyp), obs.ReplyErr), "svc.wire", p, o)
		case refused:
			c.Count("wire_replay", "refused:"+v)
			for _, sm := range []*wireCase{smallest[v+"/"+cdm], smallest[v+"@1300"]} {
				if sm != nil && sm.mtu == mtu && sm.n == n && sm.l == l && sm.cdm == cdm {
					sm.detail = obs.Detail + " | the real owner answers message " + fmt.Sprint(len(obs.ReplyTyp)) + " with 255: " + obs.ReplyErr
				}
			}
		default:
			c.Count("wire_replay", "accepted")
			if obs.StateErr != "" || !obs.Complete || !sameMultiset(obs.Got, want) {
				svcFail(c, fmt.Sprintf("devmod-modules-incomplete:%d/%d", len(want), mtu), fmt.Sprintf("device lists %d names, owner holds %d, complete=%v (%s)", len(want), len(obs.Got), obs.Complete, obs.StateErr), "svc.wire", p, o)
			}
			if fmt.Sprintf("%+v", obs.Devmod) != fmt.Sprintf("%+v", svcDevmod) {
				svcFail(c, "devmod-descriptors-differ", fmt.Sprintf("owner holds %+v", obs.Devmod), "svc.wire", p, o)
			}
		}
	}
	again = func(keys []string, l, mtu int, cdm string) { do(keys, l, mtu, cdm, true, "wire-replay-truncated") }
	type ns struct{ n, l int }
	sets := []ns{{0, 0}, {1, 4}, {3, 4}, {5, 9}, {10, 9}, {23, 9}, {24, 9}, {25, 9}, {60, 12}, {100, 20}, {199, 30}, {200, 60}, {200, 3}}
	hiDense := 400
	if c.Quick() {
		sets = []ns{{0, 0}, {3, 4}, {10, 9}, {24, 9}, {60, 12}, {200, 30}}
		hiDense = 200
	}
	for _, s := range sets {
		keys := fixedNames(s.n, s.l)
		for _, cdm := range []string{"", "2"} {
			step := 1
			if c.Quick() {
				step = 2
			}
			for mtu := 24; mtu <= hiDense; mtu += step {
				do(keys, s.l, mtu, cdm, false, "wire-dense")
			}
			for _, mtu := range []int{255, 256, 257, 258, 259, 260, 261, 262, 263, 264, 280, 281, 282, 283, 284, 285, 286, 287, 288, 289, 290, 512, 1024, 1299, 1300, 1301, 4096, 65534, 65535} {
				do(keys, s.l, mtu, cdm, false, "wire-notable")
			}
			nr := 150
			if c.Quick() {
				nr = 25
			}
			for i := 0; i < nr; i++ {
				do(keys, s.l, hiDense+rng.Intn(3000), cdm, false, "wire-random-mtu")
			}
		}
	}
	// the default MTU: how many module names does it take
	for _, l := range []int{5, 9, 12, 20, 30, 45, 60} {
		step := 1
		if c.Quick() {
			step = 4
		}
		first, bad, total := -1, 0, 0
		for n := 1; n <= 200; n += step {
			do(fixedNames(n, l), l, 1300, "", false, "wire-default-mtu")
			total++
			if lastWire != nil && lastWire.Verdict != "" {
				bad++
				if first < 0 {
					first = n
				}
			}
		}
		c.Note("svc.wire owner MTU 1300 (default), names of %d bytes: %d of %d module counts in 1..200 give a devmod the owner cannot read; the smallest is %d modules", l, bad, total, first)
	}
	if !c.Quick() { // every MTU there is, for a short and a long list
		for _, s := range []ns{{10, 9}, {200, 30}} {
			keys := fixedNames(s.n, s.l)
			for mtu := 24; mtu <= 65535; mtu++ {
				do(keys, s.l, mtu, "", false, "wire-every-mtu")
			}
		}
	}
	// the real owner on the device's messages: the smallest reproductions, and a sample of everything
	var sk []string
	for k := range smallest {
		sk = append(sk, k)
	}
	sort.Strings(sk)
	for _, k := range sk {
		sm := smallest[k]
		do(fixedNames(sm.n, sm.l), sm.l, sm.mtu, sm.cdm, true, "wire-replay-smallest")
	}
	nr := 600
	if c.Quick() {
		nr = 120
	}
	for i := 0; i < nr; i++ {
		s := sets[rng.Intn(len(sets))]
		mtu := 30 + rng.Intn(300)
		if rng.Intn(3) == 0 {
			mtu = 300 + rng.Intn(3000)
		}
		if rng.Intn(12) == 0 {
			mtu = 65535 - rng.Intn(3)
		}
		do(fixedNames(s.n, s.l), s.l, mtu, []string{"", "", "1", "2"}[rng.Intn(4)], true, "wire-replay-sample")
	}
	for _, k := range sk {
		sm := smallest[k]
		v, _, _ := strings.Cut(k, "/")
		v, _, _ = strings.Cut(v, "@")
		svcFail(c, v, fmt.Sprintf("smallest reproduction: %d device modules with names of %d bytes (+devmod), owner MTU %d, devmod %s: %s", sm.n, sm.l, sm.mtu,
			map[string]string{"": "built in", "1": "custom module", "2": "custom module ending the message after every descriptor"}[sm.cdm], sm.detail), "svc.wire", sm.params, sm.obs)
	}
	for _, rk := range regionKeys {
		rg := regions[rk]
		if rg.total < 20 {
			continue
		}
		c.Note("svc.wire %s: %d owner MTUs tried, %d give messages the owner cannot read; smallest MTU that works %d, largest that fails %d", rk, rg.total, rg.bad, rg.minOK, rg.maxBad)
	}
}

func keysWith(keys []string, cdm string) []string {
	if cdm == "" {
		return keys
	}
	return append(append([]string(nil), keys...), "devmod")
}
func runC16E2E(c *core.Ctx) {
	rng := c.Rng
	seen := map[string]int{}
	do := func(p core.Params, meta string) *e2eObs {
		o := c.Do("svc.e2e", p, meta)
		obs := lastE2E
		c.Count("e2e_outcome", svcFirst(o.Impl))
		if strings.HasPrefix(o.Impl, "panic") || strings.HasPrefix(o.Impl, "err-") || o.Impl == "hang" {
			svcFail(c, "harness-or-panic:"+svcFirst(o.Impl), o.Impl+" "+core.PanicText, "svc.e2e", p, o)
			return obs
		}
		if obs == nil {
			return nil
		}
		c.Count("e2e_68_messages", bucket(obs.n68))
		for _, f := range obs.fails {
			seen[f[0]]++
			if seen[f[0]] <= 4 { // the first few of a kind in full; the histogram failure_signature_all counts all
				svcFail(c, f[0], f[1], "svc.e2e", p, o)
			}
			c.Count("failure_signature_all", f[0])
		}
		return obs
	}
	base := func(dm, om, nown int, class string) core.Params {
		return core.Params{"seed": fmt.Sprint(rng.Int63n(1 << 40)), "dmtu": fmt.Sprint(dm), "omtu": fmt.Sprint(om), "nown": fmt.Sprint(nown), "class": class,
			"nnames": "0", "namelen": "4", "sched": fmt.Sprint(rng.Intn(3))}
	}
	devMTUs := []int{17, 18, 20, 24, 32, 64, 128, 255, 256, 257, 1300, 4096, 65535}
	ownMTUs := []int{256, 257, 300, 512, 1300, 4096, 65535}
	classes := []string{"plain", "block", "yield", "yieldsend", "samename", "owneronly", "devonly", "mixed", "mixed"}
	reps := 6
	if c.Quick() {
		reps = 1
	}
	// (a) MTU pairs x classes
	for r := 0; r < reps; r++ {
		for _, dm := range devMTUs {
			for _, om := range ownMTUs {
				class := classes[rng.Intn(len(classes))]
				p := base(dm, om, rng.Intn(5), class)
				if dm >= 4096 || om >= 4096 {
					if rng.Intn(3) == 0 {
						p["big"] = "1"
					}
				} else {
					p["big"] = "1"
				}
				if rng.Intn(4) == 0 && dm >= 64 {
					p["avail"] = "1"
				}
				if rng.Intn(5) == 0 {
					p["procs"] = "1"
				}
				p["nnames"] = fmt.Sprint(rng.Intn(4))
				do(p, "e2e-pairs-"+class)
			}
		}
	}
	// (a2) activation-only rounds: each owner module's first round carries nothing but its activation, and the device
	// module speaks first, on its yield
	for _, nown := range []int{1, 2, 3} {
		for _, mt := range [][2]int{{1300, 1300}, {64, 256}, {4096, 300}} {
			if c.Quick() && nown == 3 && mt[0] != 1300 {
				continue
			}
			do(base(mt[0], mt[1], nown, "activeonly"), "e2e-activation-only-round")
		}
	}
	// (b) random MTU pairs over the whole range, small owner MTUs with the custom devmod module that ends the message after
	// every descriptor
	n := 500
	if c.Quick() {
		n = 60
	}
	for i := 0; i < n; i++ {
		dm := 18 + rng.Intn(300)
		om := 64 + rng.Intn(400)
		switch rng.Intn(4) {
		case 0:
			dm = 300 + rng.Intn(5000)
		case 1:
			om = 500 + rng.Intn(5000)
		case 2:
			if rng.Intn(4) == 0 {
				dm, om = 65535-rng.Intn(200), 65535-rng.Intn(200)
			}
		}
		class := classes[rng.Intn(len(classes))]
		p := base(dm, om, 1+rng.Intn(4), class)
		if om < 256 {
			p["cdm"] = "2"
		}
		if dm < 5000 && om < 5000 {
			p["big"] = "1"
		}
		do(p, "e2e-random-pairs-"+class)
	}
	// (c) the module list: 0..200 names at many owner MTUs, one simple owner module
	n = 400
	if c.Quick() {
		n = 50
	}
	for i := 0; i < n; i++ {
		nn := rng.Intn(201)
		if rng.Intn(3) == 0 {
			nn = rng.Intn(12)
		}
		om := 40 + rng.Intn(400)
		switch rng.Intn(4) {
		case 0:
			om = 1300
		case 1:
			om = 400 + rng.Intn(8000)
		case 2:
			if rng.Intn(5) == 0 {
				om = 65535
			}
		}
		p := base(1300, om, rng.Intn(2), "plain")
		p["nnames"], p["namelen"] = fmt.Sprint(nn), fmt.Sprint([]int{0, 0, 3, 9, 20, 60}[rng.Intn(6)])
		if om < 200 && rng.Intn(2) == 0 {
			p["cdm"] = "2"
		}
		do(p, "e2e-module-list")
	}
	// (d) probes
	for i := 0; i < 4; i++ {
		for _, class := range []string{"yield0", "yield2", "yieldfill", "late", "fireforget", "eager"} {
			p := base(1300, []int{1300, 300, 2000, 65535}[i], 2, class)
			do(p, "e2e-probe-"+class)
		}
	}
	// the largest MTUs with the HTTP limits left at their defaults (every other run lifts them)
	for i := 0; i < 2; i++ {
		p := base(65535, 65535, 1, "plain")
		p["httpdef"], p["seed"] = "1", fmt.Sprint(7+i)
		do(p, "e2e-probe-http-default-limits")
	}
}

func svcFirst(s string) string {
	f, _, _ := strings.Cut(s, " ")
	return f
}

// minServiceInfoMTU: FDO fixes 256 bytes as the smallest service-info size a peer may announce; below it the library's
// behaviour is outside what C16/C17 quantify over ("from the minimum up to 65535"). Cases below it are still run (they
// found the smallest reproductions) but their failures are recorded in a histogram instead of being reported.
const minServiceInfoMTU = 256

func svcFail(c *core.Ctx, sig, detail, kind string, p core.Params, o core.Obs) {
	for _, k := range []string{"mtu", "omtu", "dmtu"} {
		if v, err := strconv.Atoi(p[k]); err == nil && p[k] != "" && v < minServiceInfoMTU {
			c.Count("below_min_mtu", sig)
			return
		}
	}
	c.Fail(sig, detail, kind, p, o)
}
