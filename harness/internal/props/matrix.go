package props

// C09: every combination of key type, public-key encoding, key-exchange suite and cipher suite the library treats as
// valid completes DI, voucher extension, TO0, TO1, TO2 (with and without credential reuse, with and without rendezvous
// bypass), resale and a second TO2 over the HTTP transport with the tunnel really encrypted; combinations the
// specification forbids end in an error on both sides and are never silently negotiated to something else.
//
// Part 1 ties the library's decision functions (kex.Suite.Valid, kex.Available) to the model on their whole finite
// domain (kinds kex.valid, kex.available).  Part 2 (kind chain.run, monitor only) runs the real chain per tuple.

import (
	"bytes"
	"context"
	"crypto"
	"crypto/ecdsa"
	"crypto/ed25519"
	"crypto/elliptic"
	"crypto/hmac"
	"crypto/rand"
	"crypto/rsa"
	"crypto/sha256"
	"crypto/sha512"
	"crypto/x509"
	"crypto/x509/pkix"
	"fmt"
	"io"
	"iter"
	"math/big"
	"net/http"
	"regexp"
	"runtime"
	"sort"
	"strconv"
	"strings"
	"sync"
	"time"

	fdo "github.com/fido-device-onboard/go-fdo"
	"github.com/fido-device-onboard/go-fdo/cbor"
	"github.com/fido-device-onboard/go-fdo/cose"
	"github.com/fido-device-onboard/go-fdo/custom"
	"github.com/fido-device-onboard/go-fdo/kex"
	"github.com/fido-device-onboard/go-fdo/protocol"
	"github.com/fido-device-onboard/go-fdo/serviceinfo"

	"verifharness/internal/core"
	"verifharness/internal/env"
	"verifharness/internal/raw"
)

// ---------------------------------------------------------------------------------------------------------------------
// Part 1: the decision functions on their whole domain
// ---------------------------------------------------------------------------------------------------------------------

type mxRep struct {
	name  string
	class int
	val   func() any
}

var (
	mxKeyMu    sync.Mutex
	mxKeyCache = map[string]any{}
)

func mxCached(name string, mk func() any) any {
	mxKeyMu.Lock()
	defer mxKeyMu.Unlock()
	if v, ok := mxKeyCache[name]; ok {
		return v
	}
	v := mk()
	mxKeyCache[name] = v
	return v
}

func mxEC(curve elliptic.Curve, name string) func() any {
	return func() any {
		return mxCached(name, func() any {
			k, _ := ecdsa.GenerateKey(curve, rand.Reader)
			return &k.PublicKey
		})
	}
}

func mxRSAReal(spec env.KeySpec) func() any {
	return func() any { return env.Key(spec, "c09").Public() }
}

// mxRSASynthetic: Valid only looks at the modulus size; a 4096-bit (or 1024-bit) modulus need not be a product of two primes.
func mxRSASynthetic(bits int) func() any {
	return func() any {
		n := new(big.Int).Lsh(big.NewInt(1), uint(bits-1))
		n.Add(n, big.NewInt(12345677))
		return &rsa.PublicKey{N: n, E: 65537}
	}
}

func mxEd() any {
	return mxCached("ed25519", func() any {
		pub, _, _ := ed25519.GenerateKey(rand.Reader)
		return pub
	})
}

// device representatives: real public keys and the cose.SignatureAlgorithm forms the owner service passes
var mxDevReps = []mxRep{
	{"p256", 0, mxEC(elliptic.P256(), "p256")},
	{"ES256", 0, func() any { return cose.ES256Alg }},
	{"p384", 1, mxEC(elliptic.P384(), "p384")},
	{"ES384", 1, func() any { return cose.ES384Alg }},
	{"rsa2048", 2, mxRSAReal(env.RSA2048)},
	{"rsa3072", 2, mxRSAReal(env.RSAPKCS)},
	{"rsa4096", 2, mxRSASynthetic(4096)},
	{"RS256", 2, func() any { return cose.RS256Alg }},
	{"RS384", 2, func() any { return cose.RS384Alg }},
	{"PS256", 2, func() any { return cose.PS256Alg }},
	{"PS384", 2, func() any { return cose.PS384Alg }},
	{"p521", 3, mxEC(elliptic.P521(), "p521")},
	{"p224", 3, mxEC(elliptic.P224(), "p224")},
	{"ed25519", 3, mxEd},
	{"alg-eddsa", 3, func() any { return cose.SignatureAlgorithm(-8) }},
	{"alg-zero", 3, func() any { return cose.SignatureAlgorithm(0) }},
	{"nil", 3, func() any { return nil }},
	{"p256-value", 3, func() any { return *(mxEC(elliptic.P256(), "p256")().(*ecdsa.PublicKey)) }}, // not a pointer: not a key form the library knows
}

var mxOwnReps = []mxRep{
	{"p256", 0, mxEC(elliptic.P256(), "own-p256")},
	{"p384", 1, mxEC(elliptic.P384(), "own-p384")},
	{"rsa2048", 2, mxRSAReal(env.RSA2048)},
	{"rsa2048pss", 2, mxRSAReal(env.RSAPSS2)},
	{"rsa3072", 3, mxRSAReal(env.RSAPKCS)},
	{"rsa3072pss", 3, mxRSAReal(env.RSAPSS3)},
	{"rsa4096", 4, mxRSASynthetic(4096)},
	{"rsa1024", 4, mxRSASynthetic(1024)},
	{"rsa2056", 4, mxRSASynthetic(2056)},
	{"p521", 4, mxEC(elliptic.P521(), "own-p521")},
	{"ed25519", 4, mxEd},
	{"nil", 4, func() any { return nil }},
	{"ES256", 4, func() any { return cose.ES256Alg }}, // an algorithm number is a device form only
}

var mxSuiteReps = []struct {
	s     string
	class int
}{
	{"DHKEXid14", 0}, {"DHKEXid15", 1}, {"ASYMKEX2048", 2}, {"ASYMKEX3072", 3}, {"ECDH256", 4}, {"ECDH384", 5},
	{"", 6}, {"ECDH521", 6}, {"dhkexid14", 6}, {"ECDH256 ", 6}, {"ASYMKEX4096", 6}, {"ecdh384", 6},
}

var mxCipherDomain = []int64{-17760707, -17760706, -17760705, -17760704, -17760703, -17760702, -1, 0, 1, 2, 3, 4, 10, 30, 31, 32, 33, 34, 9999}

func mxFindRep(l []mxRep, name string) *mxRep {
	for i := range l {
		if l[i].name == name {
			return &l[i]
		}
	}
	return nil
}

func mxSuiteClass(s string) int {
	for _, r := range mxSuiteReps {
		if r.s == s {
			return r.class
		}
	}
	return 6
}

func boolTF(b bool) string {
	if b {
		return "T"
	}
	return "F"
}

func registerMatrixKinds(c *core.Ctx) {
	c.Register(&core.Kind{Name: "kex.valid", Eval: func(p core.Params) (string, string) {
		d, o := mxFindRep(mxDevReps, p["dev"]), mxFindRep(mxOwnReps, p["owner"])
		if d == nil || o == nil {
			return "kex.valid n:9 n:9 n:9", "bad-params"
		}
		line := fmt.Sprintf("kex.valid n:%x n:%x n:%x", d.class, o.class, mxSuiteClass(p["suite"]))
		if p["lineonly"] != "" {
			return line, ""
		}
		return line, boolTF(kex.Suite(p["suite"]).Valid(d.val(), o.val()))
	}})
	c.Register(&core.Kind{Name: "kex.available", Eval: func(p core.Params) (string, string) {
		id, _ := strconv.ParseInt(p["cipher"], 10, 64)
		line := fmt.Sprintf("kex.available n:%x z:%s", mxSuiteClass(p["suite"]), zhex(id))
		if p["lineonly"] != "" {
			return line, ""
		}
		return line, boolTF(kex.Available(kex.Suite(p["suite"]), kex.CipherSuiteID(id)))
	}})
	c.Register(&core.Kind{Name: "chain.run", NoModel: true, Eval: func(p core.Params) (string, string) {
		t, err := mxTupleOf(p)
		line := "chain.run " + p["dev"] + ">" + p["spec"] + "/" + p["enc"] + "/" + p["kex"] + "/" + p["cipher"] + "/" + p["reuse"] + "/" + p["bypass"]
		if err != nil {
			return line, "bad-params " + err.Error()
		}
		if p["lineonly"] != "" {
			return line, ""
		}
		w := newMxWorker()
		defer w.close()
		w.self = p["selftest"] // "", "flip", "plain", "tag": see mxSelfTests
		r := w.run(t)
		return line, r.text()
	}})
}

// ---------------------------------------------------------------------------------------------------------------------
// Part 2: the end-to-end matrix
// ---------------------------------------------------------------------------------------------------------------------

type mxTuple struct {
	Spec   env.KeySpec
	Enc    protocol.KeyEncoding
	Kex    kex.Suite
	Cipher kex.CipherSuiteID
	Reuse  bool
	Bypass bool
	Dev    string // key type of the device when it differs from the manufacturer's and owners' (Spec); "" = the same
}

func (t mxTuple) devSpec() env.KeySpec {
	for _, s := range env.AllKeys {
		if s.Name == t.Dev {
			return s
		}
	}
	return t.Spec
}

func mxFamily(s env.KeySpec) string {
	if s.Bits == 0 {
		return "EC"
	}
	return "RSA"
}

// families: "EC>RSA" = EC device key, RSA manufacturer and owner keys
func (t mxTuple) families() string { return mxFamily(t.devSpec()) + ">" + mxFamily(t.Spec) }

func (t mxTuple) mixed() bool { return t.Dev != "" && t.Dev != t.Spec.Name }

// keys renders "device key type>owner key type" ("P-256" alone when they are the same)
func (t mxTuple) keys() string {
	if t.mixed() {
		return t.Dev + ">" + t.Spec.Name
	}
	return t.Spec.Name
}

func mxEncName(e protocol.KeyEncoding) string {
	switch e {
	case protocol.X509KeyEnc:
		return "X509"
	case protocol.X5ChainKeyEnc:
		return "X5Chain"
	case protocol.CoseKeyEnc:
		return "COSE"
	}
	return fmt.Sprint(int(e))
}

func (t mxTuple) params() core.Params {
	return core.Params{"spec": t.Spec.Name, "enc": mxEncName(t.Enc), "kex": string(t.Kex), "cipher": strconv.FormatInt(int64(t.Cipher), 10),
		"reuse": boolTF(t.Reuse), "bypass": boolTF(t.Bypass), "dev": t.Dev}
}

func (t mxTuple) String() string {
	ru, bp := "replace", "to1"
	if t.Reuse {
		ru = "reuse"
	}
	if t.Bypass {
		bp = "bypass"
	}
	return fmt.Sprintf("%s/%s/%s/%s/%s/%s", t.keys(), mxEncName(t.Enc), t.Kex, mxCipherName(t.Cipher), ru, bp)
}

func mxTupleOf(p core.Params) (mxTuple, error) {
	var t mxTuple
	found := false
	for _, s := range env.AllKeys {
		if s.Name == p["spec"] {
			t.Spec, found = s, true
		}
	}
	if !found {
		return t, fmt.Errorf("unknown key spec %q", p["spec"])
	}
	switch p["enc"] {
	case "X509":
		t.Enc = protocol.X509KeyEnc
	case "X5Chain":
		t.Enc = protocol.X5ChainKeyEnc
	case "COSE":
		t.Enc = protocol.CoseKeyEnc
	default:
		return t, fmt.Errorf("unknown encoding %q", p["enc"])
	}
	id, err := strconv.ParseInt(p["cipher"], 10, 64)
	if err != nil {
		return t, err
	}
	t.Kex, t.Cipher, t.Reuse, t.Bypass, t.Dev = kex.Suite(p["kex"]), kex.CipherSuiteID(id), p["reuse"] == "T", p["bypass"] == "T", p["dev"]
	if t.Dev != "" && t.devSpec().Name != t.Dev {
		return t, fmt.Errorf("unknown device key spec %q", t.Dev)
	}
	return t, nil
}

var mxRegisteredCiphers = []kex.CipherSuiteID{kex.A128GcmCipher, kex.A192GcmCipher, kex.A256GcmCipher,
	kex.CoseAes128CbcCipher, kex.CoseAes128CtrCipher, kex.CoseAes256CbcCipher, kex.CoseAes256CtrCipher}

var mxSuites = []kex.Suite{kex.ECDH256Suite, kex.ECDH384Suite, kex.DHKEXid14Suite, kex.DHKEXid15Suite, kex.ASYMKEX2048Suite, kex.ASYMKEX3072Suite}

func mxCipherName(id kex.CipherSuiteID) string {
	for _, r := range mxRegisteredCiphers {
		if r == id {
			return id.String()
		}
	}
	return "cipher" + strconv.FormatInt(int64(id), 10)
}

// mxCipherClass: "gcm", "etm" (encrypt-then-MAC: CBC/CTR), or "unreg"
func mxCipherClass(id kex.CipherSuiteID) string {
	switch id {
	case kex.A128GcmCipher, kex.A192GcmCipher, kex.A256GcmCipher:
		return "gcm"
	case kex.CoseAes128CbcCipher, kex.CoseAes128CtrCipher, kex.CoseAes256CbcCipher, kex.CoseAes256CtrCipher:
		return "etm"
	}
	return "unreg"
}

func mxEncodings(spec env.KeySpec) []protocol.KeyEncoding {
	if spec.Bits == 0 {
		return []protocol.KeyEncoding{protocol.X509KeyEnc, protocol.X5ChainKeyEnc, protocol.CoseKeyEnc}
	}
	return []protocol.KeyEncoding{protocol.X509KeyEnc, protocol.X5ChainKeyEnc}
}

// ---- plaintext markers and the service-info modules that carry them through the tunnel ----

const (
	mxOwnerMarker  = "C09-OWNER-PLAINTEXT-MARKER-0123456789"
	mxDeviceMarker = "C09-DEVICE-PLAINTEXT-MARKER-9876543210"
)

var mxMarkers = []string{"devmod:active", "devmod:os", raw.ModuleName, mxOwnerMarker, mxDeviceMarker, "verif-device"}

// mxOwnerMod: first round sends active=true and a secret; it is done once the device had its turn.
type mxOwnerMod struct {
	j *env.Journal
	n int
}

func (m *mxOwnerMod) HandleInfo(_ context.Context, name string, body io.Reader) error {
	b, _ := io.ReadAll(body)
	m.j.Add("module-invoke", "", "handle:"+name)
	if name == "echo" && bytes.Contains(b, []byte(mxDeviceMarker)) {
		m.j.Add("module-echo", "", "")
	}
	return nil
}

func (m *mxOwnerMod) ProduceInfo(_ context.Context, p *serviceinfo.Producer) (bool, bool, error) {
	m.n++
	m.j.Add("module-invoke", "", "produce")
	if m.n == 1 {
		if err := p.WriteChunk("active", []byte{0xf5}); err != nil {
			return false, false, err
		}
		v, _ := cbor.Marshal([]byte(mxOwnerMarker))
		if err := p.WriteChunk("secret", v); err != nil {
			return false, false, err
		}
		return false, false, nil
	}
	return false, true, nil
}

func mxOwnerModules(e *env.Env) env.OwnerModules {
	return func(context.Context, protocol.GUID, serviceinfo.Devmod, []string) iter.Seq2[string, serviceinfo.OwnerModule] {
		return func(yield func(string, serviceinfo.OwnerModule) bool) {
			yield(raw.ModuleName, &mxOwnerMod{j: e.Journal})
		}
	}
}

// mxDevMod answers the owner's secret with its own marker.
type mxDevMod struct {
	mu  sync.Mutex
	got bool
}

func (m *mxDevMod) Transition(bool) error { return nil }
func (m *mxDevMod) Receive(_ context.Context, name string, body io.Reader, respond func(string) io.Writer, _ func()) error {
	b, _ := io.ReadAll(body)
	if name == "secret" {
		m.mu.Lock()
		m.got = bytes.Contains(b, []byte(mxOwnerMarker))
		m.mu.Unlock()
		return cbor.NewEncoder(respond("echo")).Encode([]byte(mxDeviceMarker))
	}
	return nil
}
func (m *mxDevMod) Yield(context.Context, func(string) io.Writer, func()) error { return nil }

// ---- wire recording ----

type mxWire struct {
	env  int // 1 or 2
	resp bool
	typ  int // message type of this body
	body []byte
}

type mxPair struct {
	e1, e2 *env.Env
	mu     sync.Mutex
	rec    []mxWire
}

func (pr *mxPair) add(w mxWire) {
	pr.mu.Lock()
	pr.rec = append(pr.rec, w)
	pr.mu.Unlock()
}

func (pr *mxPair) hook(e *env.Env, idx int) {
	e.RT.Hook = func(mt int, _ *http.Request, body []byte, _ func([]byte, http.Header) *http.Response) *http.Response {
		pr.add(mxWire{env: idx, typ: mt, body: bytes.Clone(body)})
		return nil
	}
	e.RT.RespHook = func(_ int, resp *http.Response, body []byte) []byte {
		rt, _ := strconv.Atoi(strings.TrimSpace(resp.Header.Get("Message-Type")))
		pr.add(mxWire{env: idx, resp: true, typ: rt, body: bytes.Clone(body)})
		return body
	}
}

// ---- a worker owns one pair of deployments (seller, buyer) per key type ----

type mxWorker struct {
	pairs map[string]*mxPair
	// self makes the run lie to its own monitors, which must then speak up: "flip" inverts the prediction, "plain" plants a
	// marker in a recorded 68, "tag" swaps the COSE tag of a recorded 69.
	self string
}

func newMxWorker() *mxWorker { return &mxWorker{pairs: map[string]*mxPair{}} }

func (w *mxWorker) close() {
	for k, p := range w.pairs {
		p.e1.Close()
		p.e2.Close()
		delete(w.pairs, k)
	}
}

func (w *mxWorker) pair(spec env.KeySpec) (*mxPair, error) {
	if p := w.pairs[spec.Name]; p != nil {
		return p, nil
	}
	e1, err := env.New(WorkDir(), spec)
	if err != nil {
		return nil, err
	}
	e2, err := env.NewWithOwner(WorkDir(), spec, "owner2")
	if err != nil {
		e1.Close()
		return nil, err
	}
	p := &mxPair{e1: e1, e2: e2}
	e1.OwnerModules, e2.OwnerModules = mxOwnerModules(e1), mxOwnerModules(e2)
	p.hook(e1, 1)
	p.hook(e2, 2)
	w.pairs[spec.Name] = p
	return p, nil
}

type mxFail struct{ sig, detail string }

type mxResult struct {
	t         mxTuple
	predicted bool
	outcome   string // ok | failed:<step> | refused | onboarded | harness:<what>
	err       string
	fails     []mxFail
	wall      time.Duration
	stats     map[string]int
}

func (r *mxResult) fail(sig, format string, a ...any) {
	r.fails = append(r.fails, mxFail{sig, r.t.String() + ": " + fmt.Sprintf(format, a...)})
}

func (r *mxResult) text() string {
	var sb strings.Builder
	fmt.Fprintf(&sb, "%s predicted=%s", r.outcome, boolTF(r.predicted))
	if r.err != "" {
		fmt.Fprintf(&sb, " err=%q", r.err)
	}
	for _, f := range r.fails {
		fmt.Fprintf(&sb, " FAIL[%s]", f.sig)
	}
	return sb.String()
}

var mxAddrs = []protocol.RvTO2Addr{{DNSAddress: strp("owner.test"), Port: 8043, TransportProtocol: protocol.HTTPSTransport}}

func (w *mxWorker) run(t mxTuple) (res mxResult) {
	t0 := time.Now()
	res = mxResult{t: t, stats: map[string]int{}}
	defer func() {
		if r := recover(); r != nil {
			res.outcome = "harness:panic"
			res.err = fmt.Sprint(r)
			res.fail("panic@chain:"+panicClass2(r), "panic during the chain: %v", r)
		}
		if pr := w.pairs[t.Spec.Name]; pr != nil {
			for _, e := range []*env.Env{pr.e1, pr.e2} {
				for _, x := range e.RT.Log {
					if x.Panic != "" {
						res.fail(fmt.Sprintf("panic@owner:%d:%s:%s", x.MsgType, t.Kex, t.keys()), "the owner service panicked on message %d: %s", x.MsgType, x.Panic)
					}
				}
			}
		}
		res.wall = time.Since(t0)
	}()
	pr, err := w.pair(t.Spec)
	if err != nil {
		res.outcome, res.err = "harness:env", err.Error()
		res.fail("harness:env", "cannot create deployments: %v", err)
		return res
	}
	e1, e2 := pr.e1, pr.e2
	e1.Reuse, e2.Reuse = t.Reuse, t.Reuse
	pr.mu.Lock()
	pr.rec = nil
	pr.mu.Unlock()
	e1.RT.Reset()
	e2.RT.Reset()
	ctx, cancel := context.WithTimeout(context.Background(), 120*time.Second)
	defer cancel()

	owner1, owner2 := env.Key(t.Spec, "owner"), env.Key(t.Spec, "owner2")

	// the chain up to the first TO2 is the same for allowed and forbidden combinations
	sig := func(step string) string {
		if t.mixed() {
			// no pair of different device and owner key types gets through the owner service (see the report of C09): few signatures
			return fmt.Sprintf("mixed-keys:valid-config-failed:%s:%s", step, t.families())
		}
		return fmt.Sprintf("valid-config-failed:%s:%s:%s:%s", step, t.Kex, mxCipherClass(t.Cipher), t.keys())
	}
	stepFail := func(step string, err error) {
		res.outcome, res.err = "failed:"+step, err.Error()
		res.fail(sig(step), "step %s: %v", step, err)
	}
	var dev *env.Device
	if t.mixed() {
		dev, err = mxNewDevice(ctx, e1, t.devSpec(), t.Enc)
	} else {
		dev, err = e1.NewDevice(ctx, t.Enc)
	}
	if err != nil {
		stepFail("DI", err)
		return res
	}
	res.predicted = t.Kex.Valid(dev.Key.Public(), owner1.Public()) && kex.Available(t.Kex, t.Cipher)
	if p2 := t.Kex.Valid(dev.Key.Public(), owner2.Public()) && kex.Available(t.Kex, t.Cipher); p2 != res.predicted {
		res.fail("harness:prediction", "owner 1 and owner 2 keys of one type give different predictions")
	}
	if w.self == "flip" {
		res.predicted = !res.predicted
	}
	guid0 := dev.Cred.GUID
	if _, err := e1.TO0(ctx, guid0, mxAddrs); err != nil {
		stepFail("TO0", err)
		return res
	}
	var to1d *cose.Sign1[protocol.To1d, []byte]
	if !t.Bypass {
		if to1d, err = e1.TO1(ctx, dev); err != nil {
			stepFail("TO1", err)
			return res
		}
	}

	if !res.predicted {
		w.forbidden(ctx, pr, dev, to1d, &res)
		return res
	}

	// ---- first onboarding ----
	if !w.onboard(ctx, pr, 1, dev, to1d, "TO2", &res, stepFail) {
		return res
	}
	// ---- resale: owner 1 extends the voucher it now holds to owner 2 ----
	ov, err := e1.DB.Voucher(ctx, dev.Cred.GUID)
	if err != nil {
		stepFail("resale-voucher", err)
		return res
	}
	var ov2 *fdo.Voucher
	switch {
	case t.Enc == protocol.X5ChainKeyEnc:
		ov2, err = fdo.ExtendVoucher(ov, owner1, env.Chain(owner2, "owner2"), nil)
	default:
		switch pub := owner2.Public().(type) {
		case *ecdsa.PublicKey:
			ov2, err = fdo.ExtendVoucher(ov, owner1, pub, nil)
		case *rsa.PublicKey:
			ov2, err = fdo.ExtendVoucher(ov, owner1, pub, nil)
		}
	}
	if err != nil {
		stepFail("resale-extend", err)
		return res
	}
	if err := ov2.VerifyEntries(); err != nil {
		stepFail("resale-verify", err)
		return res
	}
	if err := e2.DB.AddVoucher(ctx, ov2); err != nil {
		stepFail("resale-store", err)
		return res
	}
	if _, err := e2.TO0(ctx, dev.Cred.GUID, mxAddrs); err != nil {
		stepFail("TO0'", err)
		return res
	}
	to1d = nil
	if !t.Bypass {
		if to1d, err = e2.TO1(ctx, dev); err != nil {
			stepFail("TO1'", err)
			return res
		}
	}
	if !w.onboard(ctx, pr, 2, dev, to1d, "TO2'", &res, stepFail) {
		return res
	}
	res.outcome = "ok"
	return res
}

// mxTO2 is the device's fdo.TO2 with a panic in the device library told apart from everything else.
func mxTO2(ctx context.Context, e *env.Env, dev *env.Device, to1d *cose.Sign1[protocol.To1d, []byte], cfg fdo.TO2Config, res *mxResult) (cred *fdo.DeviceCredential, err error) {
	defer func() {
		if r := recover(); r != nil {
			buf := make([]byte, 4096)
			buf = buf[:runtime.Stack(buf, false)]
			where := ""
			for _, l := range strings.Split(string(buf), "\n") {
				if strings.Contains(l, "/repo/") && !strings.Contains(l, "/verif/") {
					where = strings.TrimSpace(l)
					break
				}
			}
			err = fmt.Errorf("PANIC in fdo.TO2 (device side): %v at %s", r, where)
			res.fail(fmt.Sprintf("panic@device:TO2:%s:%s", res.t.Kex, res.t.keys()), "the device library panicked: %v at %s", r, where)
		}
	}()
	return e.TO2(ctx, dev, to1d, cfg)
}

var mxDevSeq struct {
	sync.Mutex
	n int
}

// mxNewDevice is env.NewDevice for a device whose attestation key has another type than the manufacturer's and the owners'
// keys (FDO 1.1 section 3.6.5 is about exactly these pairs): the manufacturer key type stays the deployment's.
func mxNewDevice(ctx context.Context, e *env.Env, spec env.KeySpec, enc protocol.KeyEncoding) (*env.Device, error) {
	mxDevSeq.Lock()
	mxDevSeq.n++
	n := mxDevSeq.n
	mxDevSeq.Unlock()
	d := &env.Device{Spec: spec, Enc: enc, Key: env.Key(spec, fmt.Sprintf("dev%d", n%4)), Secret: make([]byte, 32)}
	_, _ = rand.Read(d.Secret)
	csrDER, err := x509.CreateCertificateRequest(rand.Reader, &x509.CertificateRequest{Subject: pkix.Name{CommonName: "device"}}, d.Key)
	if err != nil {
		return nil, err
	}
	csr, _ := x509.ParseCertificateRequest(csrDER)
	cred, err := fdo.DI(ctx, e.Transport(), custom.DeviceMfgInfo{KeyType: e.Spec.Type, KeyEncoding: enc, SerialNumber: fmt.Sprintf("mx%d", n),
		DeviceInfo: "verif", CertInfo: cbor.X509CertificateRequest(*csr)},
		fdo.DIConfig{HmacSha256: hmac.New(sha256.New, d.Secret), HmacSha384: hmac.New(sha512.New384, d.Secret), Key: d.Key, PSS: spec.Type == protocol.RsaPssKeyType})
	if err != nil {
		return nil, err
	}
	d.Cred = cred
	return d, nil
}

func panicClass2(r any) string {
	s := fmt.Sprint(r)
	if len(s) > 40 {
		s = s[:40]
	}
	return s
}

// onboard runs one TO2 that must succeed and checks what it must leave behind; dev.Cred is advanced to the new credential.
func (w *mxWorker) onboard(ctx context.Context, pr *mxPair, idx int, dev *env.Device, to1d *cose.Sign1[protocol.To1d, []byte], step string,
	res *mxResult, stepFail func(string, error)) bool {
	t := res.t
	e := pr.e1
	ownerKey := env.Key(t.Spec, "owner")
	if idx == 2 {
		e, ownerKey = pr.e2, env.Key(t.Spec, "owner2")
	}
	pr.mu.Lock()
	rec0 := len(pr.rec)
	pr.mu.Unlock()
	j0 := e.Journal.Len()
	guidBefore := dev.Cred.GUID
	before, err := e.DB.Voucher(ctx, guidBefore)
	if err != nil {
		stepFail(step+"-pre", err)
		return false
	}
	cfg := dev.TO2Config(t.Kex, t.Cipher)
	cfg.AllowCredentialReuse = t.Reuse
	dm := &mxDevMod{}
	cfg.DeviceModules = map[string]serviceinfo.DeviceModule{raw.ModuleName: dm}
	newCred, err := mxTO2(ctx, e, dev, to1d, cfg, res)
	if err != nil {
		stepFail(step, err)
		return false
	}

	eff := e.Journal.Since(j0)
	nInvoke, nEcho, nReplace := 0, 0, 0
	for _, f := range eff {
		switch f.Kind {
		case "module-invoke":
			nInvoke++
		case "module-echo":
			nEcho++
		case "voucher-replace":
			nReplace++
		}
	}
	post := func(what, format string, a ...any) {
		res.outcome = "failed:" + step + "-post"
		res.fail(fmt.Sprintf("valid-config-failed:%s-post:%s:%s:%s:%s", step, what, t.Kex, mxCipherClass(t.Cipher), t.keys()), format, a...)
	}
	okAll := true
	if nInvoke == 0 || nEcho == 0 || !dm.got {
		post("svcinfo", "service info did not flow both ways: owner module calls %d, echoes %d, device saw the owner's secret %v", nInvoke, nEcho, dm.got)
		okAll = false
	}
	if t.Reuse {
		if newCred != nil {
			post("reuse-cred", "credential reuse: fdo.TO2 returned a new credential (GUID %x)", newCred.GUID[:])
			okAll = false
		}
		if nReplace != 0 {
			post("reuse-replaced", "credential reuse: the owner replaced the voucher %d times", nReplace)
			okAll = false
		}
		after, err := e.DB.Voucher(ctx, guidBefore)
		if err != nil {
			post("reuse-voucher-gone", "credential reuse: the owner no longer holds the voucher: %v", err)
			okAll = false
		} else {
			a, _ := cbor.Marshal(after)
			b, _ := cbor.Marshal(before)
			if !bytes.Equal(a, b) {
				post("reuse-voucher-changed", "credential reuse: the stored voucher changed")
				okAll = false
			}
		}
	} else {
		switch {
		case newCred == nil:
			post("no-cred", "credential replacement: fdo.TO2 returned no credential")
			return false
		case newCred.GUID == guidBefore:
			post("same-guid", "credential replacement: the GUID did not change")
			okAll = false
		}
		if nReplace != 1 {
			post("replace-count", "credential replacement: the owner replaced the voucher %d times", nReplace)
			okAll = false
		}
		nov, err := e.DB.Voucher(ctx, newCred.GUID)
		if err != nil {
			post("no-voucher", "credential replacement: the owner holds no voucher for the new GUID %x: %v", newCred.GUID[:], err)
			okAll = false
		} else {
			if err := nov.VerifyHeader(hmac.New(sha256.New, dev.Secret), hmac.New(sha512.New384, dev.Secret)); err != nil {
				post("hmac", "credential replacement: the replacement voucher's header HMAC does not verify under the device secret: %v", err)
				okAll = false
			}
			if len(nov.Entries) != 0 {
				post("entries", "credential replacement: the replacement voucher has %d entries", len(nov.Entries))
				okAll = false
			}
			if mk, err := nov.Header.Val.ManufacturerKey.Public(); err != nil || !ownerKey.Public().(interface{ Equal(crypto.PublicKey) bool }).Equal(mk) {
				post("mfgkey", "credential replacement: the replacement voucher's manufacturer key is not the owner key (%v)", err)
				okAll = false
			}
			if err := nov.VerifyManufacturerKey(newCred.PublicKeyHash); err != nil {
				post("keyhash", "credential replacement: the new credential's key hash does not match the replacement voucher: %v", err)
				okAll = false
			}
		}
		if _, err := e.DB.Voucher(ctx, guidBefore); err == nil {
			post("old-voucher-kept", "credential replacement: the owner still holds the voucher of the old GUID")
			okAll = false
		}
		dev.Cred = newCred
	}

	// ---- the wire ----
	pr.mu.Lock()
	rec := append([]mxWire(nil), pr.rec[rec0:]...)
	pr.mu.Unlock()
	for i := range rec {
		if w.self == "plain" && rec[i].typ == 68 {
			rec[i].body = append(bytes.Clone(rec[i].body), []byte("devmod:os")...)
			break
		}
		if w.self == "tag" && rec[i].typ == 69 && len(rec[i].body) > 0 {
			rec[i].body = bytes.Clone(rec[i].body)
			rec[i].body[0] ^= 0x01 // d0 (tag 16) <-> d1 (tag 17)
			break
		}
	}
	w.checkWire(rec, idx, step, newCred, res)
	return okAll
}

// COSE algorithm number in a protected header
func mxAlg(h cose.HeaderMap) (int64, bool) {
	var a int64
	ok, err := h.Parse(cose.AlgLabel, &a)
	return a, ok && err == nil
}

type mxSign1 struct {
	Protected   []byte
	Unprotected cbor.RawBytes
	Payload     []byte
	Signature   []byte
}

type mxProof struct {
	OVH      cbor.RawBytes
	N        uint8
	Hmac     cbor.RawBytes
	Nonce    cbor.RawBytes
	SigInfoB cbor.RawBytes
	XA       []byte
	Hash     cbor.RawBytes
	Max      uint16
}

type mxHello struct {
	Max     uint16
	GUID    protocol.GUID
	Nonce   protocol.Nonce
	Kex     string
	Cipher  int64
	SigInfo cbor.RawBytes
}

func mxXALenOK(s kex.Suite, n int) bool {
	switch s {
	case kex.ECDH256Suite:
		return n >= 60 && n <= 86
	case kex.ECDH384Suite:
		return n >= 124 && n <= 150
	case kex.DHKEXid14Suite:
		return n >= 224 && n <= 256
	case kex.DHKEXid15Suite:
		return n >= 352 && n <= 384
	case kex.ASYMKEX2048Suite:
		return n == 32
	case kex.ASYMKEX3072Suite:
		return n == 96
	}
	return false
}

func (w *mxWorker) checkWire(rec []mxWire, idx int, step string, newCred *fdo.DeviceCredential, res *mxResult) {
	t := res.t
	seen := map[int]int{}
	markers := make([][]byte, 0, len(mxMarkers)+1)
	for _, m := range mxMarkers {
		markers = append(markers, []byte(m))
	}
	if newCred != nil {
		markers = append(markers, newCred.GUID[:]) // the replacement GUID travels in 65 only
	}
	suite := t.Cipher.Suite()
	for _, r := range rec {
		if r.env != idx {
			continue
		}
		switch {
		case !r.resp && r.typ == 60:
			seen[60]++
			var h mxHello
			if err := cbor.Unmarshal(r.body, &h); err != nil {
				res.fail("harness:decode60", "%s: cannot decode the HelloDevice on the wire: %v", step, err)
				continue
			}
			if h.Kex != string(t.Kex) || h.Cipher != int64(t.Cipher) {
				res.fail(fmt.Sprintf("silently-negotiated:hello:%s:%s", t.Kex, mxCipherClass(t.Cipher)),
					"%s: the HelloDevice names %q/%d, configured %q/%d", step, h.Kex, h.Cipher, t.Kex, int64(t.Cipher))
			}
		case r.resp && r.typ == 61:
			seen[61]++
			var tag cbor.Tag[mxSign1]
			var p mxProof
			if err := cbor.Unmarshal(r.body, &tag); err != nil {
				res.fail("harness:decode61", "%s: cannot decode ProveOVHdr: %v", step, err)
				continue
			}
			if err := cbor.Unmarshal(tag.Val.Payload, &p); err != nil {
				res.fail("harness:decode61", "%s: cannot decode ProveOVHdr payload: %v", step, err)
				continue
			}
			if !mxXALenOK(t.Kex, len(p.XA)) {
				res.fail(fmt.Sprintf("silently-negotiated:xA:%s", t.Kex), "%s: the owner's key-exchange parameter has %d bytes, not what %s produces", step, len(p.XA), t.Kex)
			}
			res.stats[fmt.Sprintf("xA %s %d", t.Kex, len(p.XA))]++
		case r.typ == 255:
			res.fail("valid-config-failed:error-on-wire:"+string(t.Kex), "%s: an error message on the wire of a run that succeeded", step)
		case r.typ >= 65 && r.typ <= 71:
			seen[r.typ]++
			name := strconv.Itoa(r.typ)
			if (r.typ%2 == 1) != r.resp {
				res.fail("harness:direction", "%s: message %d in the wrong direction", step, r.typ)
			}
			for _, m := range markers {
				if bytes.Contains(r.body, m) {
					res.fail("tunnel-plaintext:"+name+":"+mxCipherClass(t.Cipher), "%s: message %d contains the plaintext %q", step, r.typ, mxPrintable(m))
				}
			}
			var tag cbor.Tag[cbor.RawBytes]
			if err := cbor.Unmarshal(r.body, &tag); err != nil {
				res.fail("tunnel-plaintext:"+name+":untagged", "%s: message %d is not a tagged COSE object: %v (%x)", step, r.typ, err, mxClipB(r.body, 24))
				continue
			}
			var enc0 cose.Encrypt0[cbor.RawBytes, []byte]
			switch {
			case tag.Num == 16 && suite.MacAlg == 0:
				if err := cbor.Unmarshal(tag.Val, &enc0); err != nil {
					res.fail("tunnel-plaintext:"+name+":enc0", "%s: message %d: bad COSE_Encrypt0: %v", step, r.typ, err)
					continue
				}
			case tag.Num == 17 && suite.MacAlg != 0:
				var mac0 cose.Mac0[cose.Encrypt0[cbor.RawBytes, []byte], []byte]
				if err := cbor.Unmarshal(tag.Val, &mac0); err != nil || mac0.Payload == nil {
					res.fail("tunnel-plaintext:"+name+":mac0", "%s: message %d: bad COSE_Mac0: %v", step, r.typ, err)
					continue
				}
				if a, ok := mxAlg(mac0.Protected); !ok || a != int64(suite.MacAlg) {
					res.fail("tunnel-wrong-cipher:"+name+":mac", "%s: message %d: MAC algorithm %d (present %v), cipher suite %s uses %d", step, r.typ, a, ok, t.Cipher, int64(suite.MacAlg))
				}
				if len(mac0.Value) < 32 {
					res.fail("tunnel-wrong-cipher:"+name+":maclen", "%s: message %d: MAC of %d bytes", step, r.typ, len(mac0.Value))
				}
				enc0 = mac0.Payload.Val
			default:
				res.fail("tunnel-plaintext:"+name+":tag", "%s: message %d carries tag %d; cipher suite %s (%s) needs %s", step, r.typ, tag.Num, t.Cipher, mxCipherClass(t.Cipher),
					map[bool]string{true: "COSE_Mac0 (17)", false: "COSE_Encrypt0 (16)"}[suite.MacAlg != 0])
				continue
			}
			// AEAD algorithms name themselves in the protected header; AES-CTR/CBC have no authenticated header (the protected
			// bucket must be empty) and name themselves in the unprotected one
			hdr := enc0.Protected
			if suite.MacAlg != 0 {
				hdr = enc0.Unprotected
				if len(enc0.Protected) != 0 {
					res.fail("tunnel-wrong-cipher:"+name+":prot", "%s: message %d: non-AEAD COSE_Encrypt0 with a protected header", step, r.typ)
				}
			}
			if a, ok := mxAlg(hdr); !ok || a != int64(suite.EncryptAlg) {
				res.fail("tunnel-wrong-cipher:"+name+":enc", "%s: message %d: encryption algorithm %d (present %v), cipher suite %s uses %d", step, r.typ, a, ok, t.Cipher, int64(suite.EncryptAlg))
			}
			if enc0.Ciphertext == nil || len(*enc0.Ciphertext) == 0 {
				res.fail("tunnel-plaintext:"+name+":empty", "%s: message %d has no ciphertext", step, r.typ)
			}
		}
	}
	for _, m := range []int{60, 61, 65, 66, 67, 68, 69, 70, 71} {
		if seen[m] == 0 {
			res.fail("harness:wire-incomplete", "%s: message %d was not seen on the wire", step, m)
		}
	}
}

func mxPrintable(b []byte) string {
	for _, c := range b {
		if c < 0x20 || c > 0x7e {
			return fmt.Sprintf("%x", b)
		}
	}
	return string(b)
}

func mxClipB(b []byte, n int) []byte {
	if len(b) > n {
		return b[:n]
	}
	return b
}

// forbidden: the combination is not allowed for the keys in use: both sides must end in an error and the owner must not
// have served the device.
func (w *mxWorker) forbidden(ctx context.Context, pr *mxPair, dev *env.Device, to1d *cose.Sign1[protocol.To1d, []byte], res *mxResult) {
	t := res.t
	e := pr.e1
	j0 := e.Journal.Len()
	pr.mu.Lock()
	rec0 := len(pr.rec)
	pr.mu.Unlock()
	cfg := dev.TO2Config(t.Kex, t.Cipher)
	cfg.AllowCredentialReuse = t.Reuse
	cfg.DeviceModules = map[string]serviceinfo.DeviceModule{raw.ModuleName: &mxDevMod{}}
	tail := fmt.Sprintf("%s/%s/%s", t.Kex, mxCipherName(t.Cipher), t.keys())
	cred, err := mxTO2(ctx, e, dev, to1d, cfg, res)
	res.outcome = "refused"
	if err == nil {
		res.outcome = "onboarded"
		res.fail("forbidden-config-onboarded:"+tail, "fdo.TO2 succeeded (new credential %v)", cred != nil)
	} else {
		res.err = err.Error()
	}
	for _, f := range e.Journal.Since(j0) {
		if f.Kind == "module-invoke" || f.Kind == "module-echo" || f.Kind == "voucher-replace" || f.Kind == "voucher-remove" {
			res.outcome = "onboarded"
			res.fail("forbidden-config-onboarded:"+tail, "the owner service acted on the device: %s %s", f.Kind, f.Info)
			break
		}
	}
	// what the owner answered to the device's HelloDevice
	pr.mu.Lock()
	rec := append([]mxWire(nil), pr.rec[rec0:]...)
	pr.mu.Unlock()
	var helloSeen, answered bool
	for _, r := range rec {
		switch {
		case !r.resp && r.typ == 60:
			helloSeen = true
			var h mxHello
			if err := cbor.Unmarshal(r.body, &h); err == nil && (h.Kex != string(t.Kex) || h.Cipher != int64(t.Cipher)) {
				res.fail(fmt.Sprintf("silently-negotiated:hello:%s:%s", t.Kex, mxCipherClass(t.Cipher)),
					"the HelloDevice names %q/%d, configured %q/%d", h.Kex, h.Cipher, t.Kex, int64(t.Cipher))
			}
		case r.resp && helloSeen && !answered:
			answered = true
			if r.typ != 255 {
				res.fail("forbidden-config-accepted-by-owner:"+tail, "the owner answered the device's HelloDevice with message %d", r.typ)
			}
		case !r.resp && r.typ >= 64:
			res.fail("forbidden-config-continued:"+tail, "the device went on to send message %d", r.typ)
		}
	}
	if !helloSeen {
		res.stats["device refused before HelloDevice"]++
	}
	// the same HelloDevice straight to the owner service, without the device library's own checks in the way
	d := raw.NewDriver(e, dev, raw.Config{Kex: t.Kex, Cipher: t.Cipher, Reuse: t.Reuse})
	rr := d.Do(raw.Step{Msg: 60, Sess: -1, BodyFrom: -1, Tok: raw.TokNone})
	switch {
	case rr.Err != "":
		res.fail("harness:raw", "raw driver: %s", rr.Err)
	case rr.Panic != "":
		res.fail("panic@owner:60:"+tail, "the owner service panicked on the HelloDevice: %s", rr.Panic)
	case rr.RespType != 255:
		res.fail("forbidden-config-accepted-by-owner:"+tail, "the owner answered a raw HelloDevice with message %d (status %d)", rr.RespType, rr.Status)
	default:
		res.stats["owner error: "+mxClip(rr.ErrStr, 60)]++
	}
	// the device must still be able to onboard properly afterwards: nothing was consumed
	if _, err := e.DB.Voucher(ctx, dev.Cred.GUID); err != nil {
		res.fail("forbidden-config-onboarded:"+tail, "the voucher is gone after the refused attempt: %v", err)
	}
}

func mxClip(s string, n int) string {
	if len(s) > n {
		return s[:n]
	}
	return s
}

// ---- tuple sets ----

func mxAllTuples() (valid []mxTuple) {
	for _, spec := range env.AllKeys {
		for _, enc := range mxEncodings(spec) {
			for _, s := range mxSuites {
				for _, ci := range mxRegisteredCiphers {
					for _, reuse := range []bool{false, true} {
						for _, bypass := range []bool{false, true} {
							valid = append(valid, mxTuple{spec, enc, s, ci, reuse, bypass, ""})
						}
					}
				}
			}
		}
	}
	return valid
}

// mxMixedTuples: device keys of another type than the manufacturer's and owners' keys (the pairs section 3.6.5 is about).
func mxMixedTuples() (l []mxTuple) {
	for _, own := range env.AllKeys {
		for _, dev := range env.AllKeys {
			if dev.Name == own.Name {
				continue
			}
			for i, s := range mxSuites {
				encs := mxEncodings(own)
				l = append(l, mxTuple{own, encs[i%len(encs)], s, kex.A128GcmCipher, false, false, dev.Name},
					mxTuple{own, encs[(i+1)%len(encs)], s, kex.CoseAes256CbcCipher, true, true, dev.Name})
			}
		}
	}
	return l
}

// mxExtraForbidden: unregistered cipher ids and suite names the library does not know, per key type.
func mxExtraForbidden() (l []mxTuple) {
	for i, spec := range env.AllKeys {
		encs := mxEncodings(spec)
		for j, ci := range []int64{30, 31, 32, 33, 9999, -17760707, -17760702, 4, 10, -1} {
			l = append(l, mxTuple{spec, encs[(i+j)%len(encs)], env.DefaultKex(spec), kex.CipherSuiteID(ci), j%2 == 0, j%3 == 0, ""})
		}
		for j, s := range []kex.Suite{"ECDH521", "dhkexid14", "ASYMKEX4096", "ECDH256 "} {
			l = append(l, mxTuple{spec, encs[(i+j)%len(encs)], s, mxRegisteredCiphers[(i+j)%len(mxRegisteredCiphers)], j%2 == 1, j%2 == 0, ""})
		}
	}
	return l
}

func mxQuickTuples() []mxTuple {
	x509, x5c, cs := protocol.X509KeyEnc, protocol.X5ChainKeyEnc, protocol.CoseKeyEnc
	return []mxTuple{
		// every key type, every suite with a matching key, every registered cipher, reuse/replace, TO1/bypass
		{env.P256, x509, kex.ECDH256Suite, kex.A128GcmCipher, false, false, ""},
		{env.P256, x5c, kex.ECDH256Suite, kex.CoseAes128CbcCipher, true, true, ""},
		{env.P256, cs, kex.ECDH256Suite, kex.A256GcmCipher, false, true, ""},
		{env.P384, x509, kex.ECDH384Suite, kex.A256GcmCipher, true, false, ""},
		{env.P384, cs, kex.ECDH384Suite, kex.CoseAes256CtrCipher, false, false, ""},
		{env.P384, x5c, kex.ECDH384Suite, kex.A192GcmCipher, false, true, ""},
		{env.RSA2048, x509, kex.DHKEXid14Suite, kex.CoseAes128CtrCipher, false, false, ""},
		{env.RSA2048, x5c, kex.ASYMKEX2048Suite, kex.A128GcmCipher, true, true, ""},
		{env.RSAPKCS, x509, kex.DHKEXid15Suite, kex.CoseAes256CbcCipher, false, true, ""},
		{env.RSAPKCS, x5c, kex.ASYMKEX3072Suite, kex.A256GcmCipher, true, false, ""},
		{env.RSAPSS2, x509, kex.ASYMKEX2048Suite, kex.A192GcmCipher, false, false, ""},
		{env.RSAPSS2, x5c, kex.ECDH256Suite, kex.CoseAes128CbcCipher, true, false, ""},
		{env.RSAPSS3, x509, kex.ASYMKEX3072Suite, kex.CoseAes256CtrCipher, false, false, ""},
		{env.RSAPSS3, x5c, kex.DHKEXid15Suite, kex.A256GcmCipher, true, true, ""},
		// forbidden for the keys in use
		{env.P256, x509, kex.ECDH384Suite, kex.A128GcmCipher, false, false, ""},
		{env.P256, cs, kex.DHKEXid14Suite, kex.A128GcmCipher, false, true, ""},
		{env.P256, x5c, kex.ASYMKEX2048Suite, kex.A256GcmCipher, true, false, ""},
		{env.P384, x509, kex.ECDH256Suite, kex.A256GcmCipher, false, false, ""},
		{env.P384, cs, kex.ASYMKEX3072Suite, kex.CoseAes256CbcCipher, true, true, ""},
		{env.P384, x5c, kex.DHKEXid15Suite, kex.A192GcmCipher, false, false, ""},
		{env.P256, x509, kex.ECDH256Suite, 32, false, false, ""},
		{env.P384, x509, kex.ECDH384Suite, 33, false, true, ""},
		{env.RSA2048, x509, kex.DHKEXid14Suite, 9999, false, false, ""},
		{env.RSAPSS2, x5c, kex.ASYMKEX2048Suite, 30, true, false, ""},
		{env.RSA2048, x5c, "dhkexid14", kex.A128GcmCipher, false, false, ""},
		{env.P384, cs, "ECDH521", kex.A256GcmCipher, false, false, ""},
		{env.RSAPKCS, x509, kex.DHKEXid15Suite, -17760707, false, true, ""},
		// the rows of the table in FDO 1.1 section 3.6.5 with different device and owner key types
		{env.RSA2048, x509, kex.DHKEXid14Suite, kex.A128GcmCipher, false, false, "P-256"},
		{env.RSAPSS2, x5c, kex.ASYMKEX2048Suite, kex.CoseAes128CtrCipher, true, true, "P-256"},
		{env.RSA2048, x5c, kex.ASYMKEX2048Suite, kex.A256GcmCipher, false, true, "P-384"},
		{env.RSAPKCS, x509, kex.DHKEXid15Suite, kex.A256GcmCipher, false, false, "P-256"},
		{env.RSAPSS3, x509, kex.ASYMKEX3072Suite, kex.CoseAes256CbcCipher, true, false, "P-384"},
		{env.P256, cs, kex.ECDH256Suite, kex.A128GcmCipher, false, false, "P-384"},
		{env.P384, x509, kex.ECDH384Suite, kex.A256GcmCipher, true, true, "P-256"},
		// RSA device keys: the library allows every suite whatever the owner key is
		{env.P256, x509, kex.ECDH256Suite, kex.A128GcmCipher, false, false, "RSA2048RESTR"},
		{env.P384, x5c, kex.DHKEXid15Suite, kex.A256GcmCipher, false, false, "RSAPKCS-3072"},
		{env.P256, x509, kex.ASYMKEX2048Suite, kex.A128GcmCipher, false, false, "RSAPSS-2048"},
		// and pairs the table does not allow
		{env.RSA2048, x509, kex.DHKEXid15Suite, kex.A128GcmCipher, false, false, "P-256"},
		{env.RSAPKCS, x509, kex.ASYMKEX2048Suite, kex.A128GcmCipher, false, false, "P-384"},
		{env.P256, x509, kex.ECDH384Suite, kex.A256GcmCipher, false, false, "P-384"},
	}
}

// mxSelfTests: a lie and the signature prefix the monitors must answer it with.
var mxSelfTests = []struct {
	self string
	t    mxTuple
	want string
}{
	{"flip", mxTuple{env.P256, protocol.X509KeyEnc, kex.ECDH256Suite, kex.A128GcmCipher, false, false, ""}, "forbidden-config-onboarded"},
	{"flip", mxTuple{env.P256, protocol.X509KeyEnc, kex.ECDH256Suite, kex.A128GcmCipher, true, true, ""}, "forbidden-config-accepted-by-owner"},
	{"flip", mxTuple{env.P384, protocol.CoseKeyEnc, kex.ECDH256Suite, kex.A256GcmCipher, false, false, ""}, "valid-config-failed:TO2:"},
	{"flip", mxTuple{env.P256, protocol.X5ChainKeyEnc, kex.ECDH256Suite, 32, false, true, ""}, "valid-config-failed:TO2:"},
	{"plain", mxTuple{env.P384, protocol.X509KeyEnc, kex.ECDH384Suite, kex.CoseAes256CtrCipher, false, false, ""}, "tunnel-plaintext:68"},
	{"tag", mxTuple{env.P256, protocol.CoseKeyEnc, kex.ECDH256Suite, kex.A192GcmCipher, true, false, ""}, "tunnel-plaintext:69"},
}

// ---- the runner ----

func RunC09(c *core.Ctx) {
	registerMatrixKinds(c)
	c.Trivial = func(o core.Obs) bool { return false }
	c.Rep.Rule = "part 1: kex.Suite.Valid on every (device class representative x owner class representative x suite name) and kex.Available on every " +
		"(suite name x cipher id in a fixed list around the registered ids): the whole finite domain, every run. part 2: quick = fixed covering set " +
		"(every key type, every suite with a matching key, every registered cipher, reuse and replace, TO1 and bypass, 13 forbidden tuples) plus seeded random " +
		"tuples of the full product while the time budget lasts; thorough = the full product key type x encoding x suite x registered cipher x reuse x bypass " +
		"plus unregistered cipher ids and unknown suite names per key type; both tiers add tuples whose device key has another type than the manufacturer and " +
		"owner keys (quick: 13 fixed, thorough: every ordered pair of key types x suite x 2 ciphers; failures carry the prefix mixed-keys:); the expected outcome of a tuple is the library's own Valid && Available"

	c.Rep.Rule += ckRule
	if ckOnly() { // development aid: matrix_more.go alone
		runC09CoseKeys(c)
		return
	}
	// ---- part 1 ----
	t1 := time.Now()
	for _, d := range mxDevReps {
		for _, o := range mxOwnReps {
			for _, s := range mxSuiteReps {
				c.Do("kex.valid", core.Params{"dev": d.name, "owner": o.name, "suite": s.s}, fmt.Sprintf("valid d%d o%d s%d", d.class, o.class, s.class))
			}
		}
	}
	for _, s := range mxSuiteReps {
		for _, ci := range mxCipherDomain {
			c.Do("kex.available", core.Params{"suite": s.s, "cipher": strconv.FormatInt(ci, 10)}, fmt.Sprintf("available s%d", s.class))
		}
	}
	c.Note("part 1: %d decision cases in %.1fs", c.Rep.Evaluations, time.Since(t1).Seconds())

	// ---- part 2 ----
	var tuples []mxTuple
	budget := 20 * time.Second
	if c.Quick() {
		tuples = mxQuickTuples()
	} else {
		tuples = append(append(mxAllTuples(), mxExtraForbidden()...), mxMixedTuples()...)
		budget = 0
	}
	nWorkers := runtime.NumCPU()
	if nWorkers > 8 {
		nWorkers = 8
	}
	// warm the key cache in parallel: RSA-3072 generation dominates a cold start
	t2 := time.Now()
	var wg sync.WaitGroup
	for _, spec := range env.AllKeys {
		if spec.Bits == 0 {
			continue
		}
		for _, role := range []string{"mfg", "owner", "owner2", "dev0", "dev1", "dev2", "dev3"} {
			if c.Quick() && (role == "dev0" || role == "dev3") {
				continue
			}
			wg.Add(1)
			go func() { defer wg.Done(); env.Key(spec, role) }()
		}
	}
	wg.Wait()
	c.Note("part 2: keys ready after %.1fs", time.Since(t2).Seconds())

	// the monitors must not be vacuous: runs that lie to them must be reported
	for _, st := range mxSelfTests {
		w := newMxWorker()
		w.self = st.self
		r := w.run(st.t)
		w.close()
		c.Rep.Evaluations++
		caught := false
		for _, f := range r.fails {
			if strings.HasPrefix(f.sig, st.want) {
				caught = true
			}
		}
		c.Count("selftest", fmt.Sprintf("%s %s caught=%s", st.self, st.want, boolTF(caught)))
		if !caught {
			p := st.t.params()
			p["selftest"] = st.self
			c.Fail("monitor-selftest-missed:"+st.self+":"+st.want, st.t.String()+": the monitor stayed silent: "+r.text(), "chain.run", p, core.Obs{Impl: r.text()})
		}
	}

	results := make(chan mxResult, 64)
	work := make(chan mxTuple)
	t3 := time.Now()
	go func() {
		defer close(work)
		for _, t := range tuples {
			work <- t
		}
		if budget > 0 {
			// seeded random tuples from the full product while the budget lasts (RSA-3072 with DHKEXid15 is the slow corner)
			all := append(mxAllTuples(), mxExtraForbidden()...)
			c.Rng.Shuffle(len(all), func(i, j int) { all[i], all[j] = all[j], all[i] })
			for _, t := range all {
				if time.Since(t3) >= budget {
					break
				}
				work <- t
			}
		}
	}()
	var wwg sync.WaitGroup
	for i := 0; i < nWorkers; i++ {
		wwg.Add(1)
		go func() {
			defer wwg.Done()
			w := newMxWorker()
			defer w.close()
			for t := range work {
				results <- w.run(t)
			}
		}()
	}
	go func() { wwg.Wait(); close(results) }()

	nValid, nForbidden := 0, 0
	var slow time.Duration
	var slowT string
	stats := map[string]int{}
	for r := range results {
		c.Rep.Evaluations++
		t := r.t
		if r.predicted {
			nValid++
		} else if !strings.HasPrefix(r.outcome, "failed:") || r.outcome != "failed:DI" {
			nForbidden++
		}
		c.Count("gen", "chain "+map[bool]string{true: "allowed", false: "forbidden"}[r.predicted])
		c.Count("impl_outcome", r.outcome)
		c.Count("tuple", fmt.Sprintf("%s %s %s -> %s", t.keys(), t.Kex, mxCipherClass(t.Cipher), r.outcome))
		c.Count("tuple_key", t.keys()+"/"+mxEncName(t.Enc))
		c.Count("tuple_kex", string(t.Kex)+" "+boolTF(r.predicted))
		c.Count("tuple_cipher", mxCipherName(t.Cipher)+" "+boolTF(r.predicted))
		c.Count("tuple_mode", fmt.Sprintf("reuse=%s bypass=%s %s", boolTF(t.Reuse), boolTF(t.Bypass), boolTF(r.predicted)))
		if !r.predicted && r.err != "" {
			c.Count("refusal", mxClip(mxReStamp.ReplaceAllString(r.err, ""), 120))
		}
		if t.mixed() {
			c.Count("mixed_keys", fmt.Sprintf("%s predicted=%s %s %s", t.families(), boolTF(r.predicted), r.outcome, mxClip(mxReStamp.ReplaceAllString(r.err, ""), 100)))
		}
		for k, v := range r.stats {
			stats[k] += v
		}
		if r.wall > slow {
			slow, slowT = r.wall, t.String()
		}
		if r.outcome == "ok" || r.outcome == "refused" {
			c.Rep.Distinct++
		}
		for _, f := range r.fails {
			if t.mixed() {
				// device and owner keys of different types are outside C09's product (one key type per tuple): the outcomes
				// are recorded (histogram mixed_keys, DESIGN.md) but are not violations of the property as stated
				c.Count("mixed_keys_outside_scope", f.sig)
				continue
			}
			c.Fail(f.sig, f.detail, "chain.run", t.params(), core.Obs{Impl: r.text()})
		}
	}
	keys := make([]string, 0, len(stats))
	for k := range stats {
		keys = append(keys, k)
	}
	sort.Strings(keys)
	for _, k := range keys {
		c.Rep.Hist["wire"] = mergeCount(c.Rep.Hist["wire"], k, stats[k])
	}
	c.Note("part 2: %d tuples (%d predicted allowed, %d forbidden) on %d workers in %.1fs; slowest %s %.1fs", nValid+nForbidden, nValid, nForbidden, nWorkers,
		time.Since(t3).Seconds(), slowT, slow.Seconds())
	runC09CoseKeys(c) // matrix_more.go: COSE-key encoded EC keys with short coordinates
	c.Rep.Exhaustive = !c.Quick()
}

// mxReStamp: the time stamp and correlation fields of a printed protocol.ErrorMessage
var mxReStamp = regexp.MustCompile(`\d{4}-\d\d-\d\d \d\d:\d\d:\d\d[^\[]*`)

func mergeCount(h map[string]int, k string, n int) map[string]int {
	if h == nil {
		h = map[string]int{}
	}
	h[k] += n
	return h
}
