package props

// voucher_more.go — alterations of encoded ownership vouchers that the generic generator of RunC04 (bit flips, entry
// shuffles, random CBOR mutations) does not reach, all built by byte surgery with an independent CBOR walker (no go-fdo
// encoder or decoder is involved in making them):
//
//   (a) inside the three "bstr .cbor" wrappers of a voucher — the header, every entry's protected header and every
//       entry's payload: bytes appended after the serialized item inside the byte string, the wrapper emptied / removed /
//       doubled, the item re-encoded non-canonically (longer heads, indefinite length, duplicated map keys), unknown
//       labels or extra elements added, counts that disagree with the content; every alteration also with the entry
//       signed again by the right key over the Sig_structure that embeds the altered bytes;
//   (b) the hash-type numbers: OVHeaderHMac, OVDevCertChainHash and both hashes of every entry set to every number of
//       {-16,-43,-44,5,6,7,0,1} — in particular HMAC-SHA256/384 (5, 6) against SHA256/384 (-16, -43), which name the same
//       digest — on vouchers of every length including never-extended ones; and whole entry chains rebuilt and signed by
//       the right keys with the type numbers of the other family.
//
// Every case goes through c.Do("voucher.verify") (model against library) and through the monitor "a voucher whose bound
// bytes were changed does not pass every step".

import (
	"bytes"
	"crypto"
	"crypto/ecdsa"
	"crypto/rand"
	"crypto/rsa"
	"crypto/sha256"
	"crypto/sha512"
	"encoding/asn1"
	"encoding/hex"
	"fmt"
	"math/big"
	"strings"

	"github.com/fido-device-onboard/go-fdo/protocol"

	"verifharness/internal/core"
	"verifharness/internal/env"
)

// ---- independent byte-level navigation (definite lengths only: everything the library emits) ----

// craw splits off the first data item of b.
func craw(b []byte) (item, rest []byte, ok bool) {
	_, rest, ok = cread(b)
	if !ok {
		return nil, nil, false
	}
	return b[:len(b)-len(rest)], rest, true
}

// ckids returns the raw encodings of the items contained in the array, map (k, v, k, v...) or tag at the start of b,
// and the content of a string.
func ckids(b []byte) (mt byte, kids [][]byte, content []byte, ok bool) {
	it, rest, ok := cread(b)
	if !ok || len(rest) != 0 {
		return 0, nil, nil, false
	}
	mt = it.mt
	hl := 1
	if ai := b[0] & 31; ai >= 24 {
		hl += 1 << (ai - 24)
	}
	switch mt {
	case 2, 3:
		return mt, nil, b[hl:], true
	case 4, 5, 6:
		r := b[hl:]
		for len(r) > 0 {
			var k []byte
			if k, r, ok = craw(r); !ok {
				return 0, nil, nil, false
			}
			kids = append(kids, k)
		}
		return mt, kids, nil, true
	}
	return mt, nil, nil, true
}

func cat(parts ...[]byte) []byte {
	var out []byte
	for _, p := range parts {
		out = append(out, p...)
	}
	return out
}

func encInt(z int64) []byte {
	if z < 0 {
		return head(1, uint64(-z-1))
	}
	return head(0, uint64(z))
}

func bstrOf(content []byte) []byte { return cat(head(2, uint64(len(content))), content) }

// longHead re-encodes the head of the item at the start of b in the next longer form (non-shortest; nil if there is none).
func longHead(b []byte) []byte {
	if len(b) == 0 {
		return nil
	}
	mt, ai := b[0]>>5, b[0]&31
	switch {
	case ai < 24:
		return cat([]byte{mt<<5 | 24, ai}, b[1:])
	case ai == 24 && len(b) >= 2:
		return cat([]byte{mt<<5 | 25, 0, b[1]}, b[2:])
	case ai == 25 && len(b) >= 3:
		return cat([]byte{mt<<5 | 26, 0, 0, b[1], b[2]}, b[3:])
	case ai == 26 && len(b) >= 5:
		return cat([]byte{mt<<5 | 27, 0, 0, 0, 0}, b[1:])
	}
	return nil
}

// ceq: the two encodings denote the same data item (same tree, whatever the head sizes) — decided by the independent reader.
func ceq(a, b []byte) bool {
	x, ra, ok1 := cread(a)
	y, rb, ok2 := cread(b)
	if !ok1 || !ok2 || len(ra) != 0 || len(rb) != 0 {
		return false
	}
	var eq func(x, y citem) bool
	eq = func(x, y citem) bool {
		if x.mt != y.mt || x.n != y.n || !bytes.Equal(x.b, y.b) || len(x.kids) != len(y.kids) {
			return false
		}
		for i := range x.kids {
			if !eq(x.kids[i], y.kids[i]) {
				return false
			}
		}
		return true
	}
	return eq(x, y)
}

// ---- a voucher taken apart into raw items ----

type ventry struct{ prot, unprot, payload, sig []byte }

type vsplit struct {
	ver, hdr, hmac, chain []byte
	entries               []ventry
}

func splitVoucher(vb []byte) (*vsplit, bool) {
	mt, top, _, ok := ckids(vb)
	if !ok || mt != 4 || len(top) != 5 {
		return nil, false
	}
	s := &vsplit{ver: top[0], hdr: top[1], hmac: top[2], chain: top[3]}
	mt, es, _, ok := ckids(top[4])
	if !ok || mt != 4 {
		return nil, false
	}
	for _, e := range es {
		mt, tk, _, ok := ckids(e)
		if !ok || mt != 6 || len(tk) != 1 {
			return nil, false
		}
		mt, f, _, ok := ckids(tk[0])
		if !ok || mt != 4 || len(f) != 4 {
			return nil, false
		}
		s.entries = append(s.entries, ventry{f[0], f[1], f[2], f[3]})
	}
	return s, true
}

func (e ventry) raw() []byte { return cat([]byte{0xd2, 0x84}, e.prot, e.unprot, e.payload, e.sig) }

func (s *vsplit) bytes() []byte {
	out := cat([]byte{0x85}, s.ver, s.hdr, s.hmac, s.chain, head(4, uint64(len(s.entries))))
	for _, e := range s.entries {
		out = append(out, e.raw()...)
	}
	return out
}

func (s *vsplit) clone() *vsplit {
	cp := *s
	cp.entries = append([]ventry(nil), s.entries...)
	return &cp
}

// ---- alterations of a "bstr .cbor X" wrapper ----

const (
	altMalformed = "malformed" // not a well-formed wrapper of one item of the expected shape
	altChanged   = "changed"   // well-formed, denotes another value (or the same value with a duplicated key)
	altReenc     = "reencoded" // the same data item in a non-canonical encoding
)

type wrapAlt struct {
	name, class string
	raw         []byte // replaces the whole bstr item
	sweep       bool   // member of a thorough-tier sweep (not repeated with the entry signed again)
}

// wrapAlts lists the alterations of the byte string item wrapped (content: one serialized array or map).
// deep: 0 = the fixed list; 1 = also every number of trailing bytes up to 40; 2 = also every value of one trailing byte.
func wrapAlts(wrapped []byte, deep int) []wrapAlt {
	_, _, in, ok := ckids(wrapped)
	if !ok {
		return nil
	}
	var out []wrapAlt
	seen := map[string]bool{string(wrapped): true}
	add := func(name, class string, raw []byte) {
		if raw != nil && !seen[string(raw)] {
			seen[string(raw)] = true
			out = append(out, wrapAlt{name: name, class: class, raw: raw})
		}
	}
	inner := func(name, class string, content []byte) {
		if content != nil {
			add(name, class, bstrOf(content))
		}
	}
	// bytes after the serialized item, inside the byte string
	for _, t := range []struct {
		n string
		b []byte
	}{{"00", []byte{0x00}}, {"a0", []byte{0xa0}}, {"f6", []byte{0xf6}}, {"ff", []byte{0xff}}, {"text", []byte{0x61, 0x78}},
		{"two-bytes", []byte{0x00, 0x00}}, {"empty-bstr", []byte{0x40}}, {"second-item", in}, {"17-bytes", bytes.Repeat([]byte{0x01}, 17)}} {
		inner("trailing-"+t.n, altMalformed, cat(in, t.b))
	}
	sweep := func(name string, tail []byte) {
		if k := len(out); true {
			inner(name, altMalformed, cat(in, tail))
			if len(out) > k {
				out[len(out)-1].sweep = true
			}
		}
	}
	if deep >= 1 {
		for l := 2; l <= 40; l++ {
			sweep(fmt.Sprintf("trailing-%d-bytes", l), bytes.Repeat([]byte{0xf6}, l))
		}
	}
	if deep >= 2 {
		for v := 0; v < 256; v++ {
			sweep(fmt.Sprintf("trailing-byte-%02x", v), []byte{byte(v)})
		}
	}
	// a byte before it
	inner("leading-00", altMalformed, cat([]byte{0x00}, in))
	// the wrapper itself
	add("emptied", altMalformed, []byte{0x40})
	add("unwrapped", altMalformed, in)
	add("null", altChanged, []byte{0xf6})
	add("wrapped-twice", altMalformed, bstrOf(bstrOf(in)))
	add("wrapper-head-long", altReenc, longHead(wrapped))
	add("wrapper-as-text", altReenc, cat([]byte{wrapped[0] | 0x20}, wrapped[1:]))
	add("wrapper-length+1", altMalformed, cat(head(2, uint64(len(in)+1)), in))
	if len(in) > 0 {
		add("wrapper-length-1", altMalformed, cat(head(2, uint64(len(in)-1)), in))
		inner("last-byte-dropped", altMalformed, in[:len(in)-1])
	}
	// the serialized item
	mt, kids, _, ok := ckids(in)
	if !ok || (mt != 4 && mt != 5) {
		return out
	}
	per := 1
	if mt == 5 {
		per = 2
	}
	cnt := uint64(len(kids) / per)
	body := cat(kids...)
	inner("count-head-2-bytes", altReenc, longHead(in))
	if l := longHead(in); l != nil {
		inner("count-head-3-bytes", altReenc, longHead(l))
		inner("count-head-9-bytes", altReenc, cat([]byte{mt<<5 | 27, 0, 0, 0, 0, 0, 0, 0, byte(cnt)}, body))
	}
	inner("indefinite-length", altMalformed, cat([]byte{mt<<5 | 31}, body, []byte{0xff}))
	if cnt == 0 { // (the same bytes as additional info 31 in place of a zero count)
		inner("reserved-additional-info-31", altMalformed, []byte{mt<<5 | 31})
	} else {
		inner("indefinite-length-no-break", altMalformed, cat([]byte{mt<<5 | 31}, body))
	}
	inner("count+1", altMalformed, cat(head(mt, cnt+1), body))
	if cnt > 0 {
		inner("count-1", altMalformed, cat(head(mt, cnt-1), body))
	}
	// a scalar somewhere inside, in a longer head (first integer found)
	for i, k := range kids {
		if len(k) > 0 && k[0]>>5 <= 1 {
			if l := longHead(k); l != nil {
				nk := append(append([][]byte(nil), kids[:i]...), l)
				inner("inner-int-head-long", altReenc, cat(head(mt, cnt), cat(nk...), cat(kids[i+1:]...)))
			}
			break
		}
	}
	if mt == 5 {
		if cnt > 0 {
			k0, v0 := kids[0], kids[1]
			other := []byte{0x00}
			if bytes.Equal(v0, other) {
				other = []byte{0x01}
			}
			inner("duplicate-key-same-value", altChanged, cat(head(5, cnt+1), k0, v0, body))
			inner("duplicate-key-other-value-first", altChanged, cat(head(5, cnt+1), k0, other, body))
			inner("duplicate-key-other-value-last", altChanged, cat(head(5, cnt+1), body, k0, other))
			inner("first-value-changed", altChanged, cat(head(5, cnt), k0, other, cat(kids[2:]...)))
			inner("pairs-reversed", altReenc, func() []byte {
				if cnt < 2 {
					return nil
				}
				var r []byte
				for i := len(kids) - 2; i >= 0; i -= 2 {
					r = append(r, kids[i]...)
					r = append(r, kids[i+1]...)
				}
				return cat(head(5, cnt), r)
			}())
		}
		inner("extra-label-int-after", altChanged, cat(head(5, cnt+1), body, []byte{0x18, 0x63, 0x00}))
		inner("extra-label-int-before", altChanged, cat(head(5, cnt+1), []byte{0x00, 0x00}, body))
		inner("extra-label-negative", altChanged, cat(head(5, cnt+1), body, []byte{0x20, 0x41, 0x01}))
		inner("extra-label-text", altChanged, cat(head(5, cnt+1), body, []byte{0x61, 0x78, 0xf6}))
		inner("extra-label-crit", altChanged, cat(head(5, cnt+1), body, []byte{0x02, 0x81, 0x01}))
		inner("map-emptied", altChanged, []byte{0xa0})
		inner("array-instead-of-map", altMalformed, cat(head(4, cnt*2), body))
	} else {
		inner("extra-element-null", altChanged, cat(head(4, cnt+1), body, []byte{0xf6}))
		inner("extra-element-first", altChanged, cat(head(4, cnt+1), []byte{0x00}, body))
		if cnt > 0 {
			inner("last-element-dropped", altChanged, cat(head(4, cnt-1), cat(kids[:len(kids)-1]...)))
			inner("last-element-null", altChanged, cat(head(4, cnt), cat(kids[:len(kids)-1]...), []byte{0xf6}))
		}
		if cnt%2 == 0 {
			inner("map-instead-of-array", altMalformed, cat(head(5, cnt/2), body))
		}
		inner("array-emptied", altChanged, []byte{0x80})
	}
	return out
}

// ---- COSE_Sign1 signatures made by hand (Sig_structure of RFC 8152 4.4 over the bytes as they are transmitted) ----

func sign1OverBytes(key crypto.Signer, alg int64, protItem, payloadItem []byte) []byte {
	tbs := cat([]byte{0x84, 0x6a}, []byte("Signature1"), protItem, []byte{0x40}, payloadItem)
	var h crypto.Hash
	var digest []byte
	switch alg {
	case -7, -257, -37:
		h = crypto.SHA256
		d := sha256.Sum256(tbs)
		digest = d[:]
	case -35, -258, -38:
		h = crypto.SHA384
		d := sha512.Sum384(tbs)
		digest = d[:]
	case -36, -259, -39:
		h = crypto.SHA512
		d := sha512.Sum512(tbs)
		digest = d[:]
	default:
		return nil
	}
	switch pub := key.Public().(type) {
	case *ecdsa.PublicKey:
		der, err := key.Sign(rand.Reader, digest, h)
		if err != nil {
			return nil
		}
		var rs struct{ R, S *big.Int }
		if _, err := asn1.Unmarshal(der, &rs); err != nil {
			return nil
		}
		n := (pub.Params().N.BitLen() + 7) / 8
		sig := make([]byte, 2*n)
		rs.R.FillBytes(sig[:n])
		rs.S.FillBytes(sig[n:])
		return sig
	case *rsa.PublicKey:
		var opts crypto.SignerOpts = h
		if alg == -37 || alg == -38 || alg == -39 {
			opts = &rsa.PSSOptions{SaltLength: rsa.PSSSaltLengthEqualsHash, Hash: h}
		}
		sig, err := key.Sign(rand.Reader, digest, opts)
		if err != nil {
			return nil
		}
		return sig
	}
	return nil
}

// protAlg reads label 1 of a protected header item (bstr of a map).
func protAlg(protItem []byte) (int64, bool) {
	_, _, in, ok := ckids(protItem)
	if !ok {
		return 0, false
	}
	it, rest, ok := cread(in)
	if !ok || len(rest) != 0 || it.mt != 5 {
		return 0, false
	}
	for i := 0; i+1 < len(it.kids); i += 2 {
		if k, v := it.kids[i], it.kids[i+1]; k.mt == 0 && k.n == 1 {
			switch v.mt {
			case 0:
				return int64(v.n), true
			case 1:
				return -int64(v.n) - 1, true
			}
		}
	}
	return 0, false
}

func digestFor(alg int64, msg []byte) []byte {
	switch alg {
	case -16, 5:
		d := sha256.Sum256(msg)
		return d[:]
	case -43, 6:
		d := sha512.Sum384(msg)
		return d[:]
	}
	return nil
}

// hashTypeNumbers: both families of type numbers, their neighbours, and small numbers
var hashTypeNumbers = []int64{-16, -43, -44, 5, 6, 7, 0, 1}

// hashItemAlg reads [alg, value] and returns alg and the raw value item.
func hashItemAlg(item []byte) (alg int64, val []byte, ok bool) {
	mt, k, _, ok := ckids(item)
	if !ok || mt != 4 || len(k) != 2 || len(k[0]) == 0 || k[0][0]>>5 > 1 {
		return 0, nil, false
	}
	it, _, _ := cread(k[0])
	alg = int64(it.n)
	if it.mt == 1 {
		alg = -int64(it.n) - 1
	}
	return alg, k[1], true
}

func hashItem(alg int64, val []byte) []byte { return cat([]byte{0x82}, encInt(alg), val) }

// otherFamily maps a hash type number to the number that names the same digest in the other family.
func otherFamily(alg int64) (int64, bool) {
	switch alg {
	case -16:
		return 5, true
	case 5:
		return -16, true
	case -43:
		return 6, true
	case 6:
		return -43, true
	}
	return 0, false
}

// lenientDecodingIsTampering decides what happens with altered vouchers that pass every step only because the library's
// decoder maps malformed input to the value the voucher had before — a duplicated map key (last one wins) and the reserved
// additional-information values 28..31 (read as 0) — and the library verifies its own re-encoding: true = they are
// reported as tamper-accepted (the bytes of a bound part changed and no step failed); false = they are only counted
// (histograms voucher_more, voucher_more_lenient_decoding) and noted once per class with the bytes. C04 is read at the
// level of values — a bound FIELD changes —, as the bit-flip monitor of RunC04 does (0x58 -> 0x78 on a wrapper is the
// same voucher), and the model agrees with the library on all of these inputs: false.
const lenientDecodingIsTampering = false

var lenientNoted = map[string]bool{}

// sigOf turns the description of an alteration into a violation signature: the entry number goes (it stays in the detail
// text), and the two kinds of input that the library's lenient decoder maps to the value it had before get one signature
// each, wherever they are applied.
func sigOf(what string) string {
	switch {
	case strings.Contains(what, "reserved-additional-info"):
		return "reserved-additional-info"
	case strings.Contains(what, "duplicate-key"):
		return "duplicate-map-key"
	}
	if len(what) > 3 && what[0] == 'e' && what[1] >= '0' && what[1] <= '9' && what[2] == '-' {
		what = what[3:]
	}
	if i := strings.Index(what, "-trailing-"); i >= 0 { // which bytes were appended is in the detail text
		what = what[:i] + "-trailing-bytes" + map[bool]string{true: "+signed-again"}[strings.HasSuffix(what, "+signed-again")]
	}
	return what
}

// headOffsets lists the offsets of all item heads in the well-formed definite-length item at the start of b, descending
// into arrays, maps and tags (not into strings).
func headOffsets(b []byte) []int {
	var out []int
	var walk func(off int) int
	walk = func(off int) int {
		if off >= len(b) {
			return -1
		}
		out = append(out, off)
		mt, ai := b[off]>>5, b[off]&31
		hl := 1
		var n uint64
		switch {
		case ai < 24:
			n = uint64(ai)
		case ai <= 27:
			k := 1 << (ai - 24)
			if off+1+k > len(b) {
				return -1
			}
			for i := 0; i < k; i++ {
				n = n<<8 | uint64(b[off+1+i])
			}
			hl += k
		default:
			return -1
		}
		off += hl
		switch mt {
		case 2, 3:
			if uint64(len(b)-off) < n {
				return -1
			}
			return off + int(n)
		case 4, 5, 6:
			cnt := n
			if mt == 5 {
				cnt *= 2
			}
			if mt == 6 {
				cnt = 1
			}
			for i := uint64(0); i < cnt; i++ {
				if off = walk(off); off < 0 {
					return -1
				}
			}
		}
		return off
	}
	if walk(0) < 0 {
		return nil
	}
	return out
}

// voucherMore runs the additional alterations on one honest voucher vb of length n. keys[i] signs entry i
// (keys[0] is the manufacturer key).
func voucherMore(c *core.Ctx, spec env.KeySpec, n int, vb, secret []byte, kh protocol.Hash, wantOwner string, keys []crypto.Signer) {
	s, ok := splitVoucher(vb)
	if !ok || len(s.entries) != n || !bytes.Equal(s.bytes(), vb) {
		c.Fail("voucher-not-canonical:"+spec.Name, "the independent walker cannot take the encoded voucher apart and put it together again byte for byte", "voucher.verify",
			core.Params{"voucher": hex.EncodeToString(vb)}, core.Obs{})
		return
	}
	do := func(b []byte, meta, what string, mustFail, mustPass bool) {
		p := core.Params{"voucher": hex.EncodeToString(b), "secret": hex.EncodeToString(secret), "kalg": fmt.Sprint(int64(kh.Algorithm)), "kval": hex.EncodeToString(kh.Value)}
		o := c.Do("voucher.verify", p, meta)
		if strings.Contains(o.Impl, "panic") {
			c.Fail("panic@fdo.Voucher.Verify", core.PanicText+" ("+what+")", "voucher.verify", p, o)
			return
		}
		passed := false
		if strings.HasPrefix(o.Impl, "ok ") {
			passed = strings.Contains(o.Impl, "hdr=ok mfg=ok cch=ok entries=ok") && o.Impl[strings.Index(o.Impl, "owner=")+6:] == wantOwner
		}
		res := "rejected"
		switch {
		case passed:
			res = "passes-every-step"
		case !strings.HasPrefix(o.Impl, "ok "):
			res = "does-not-decode"
		}
		c.Count("voucher_more", meta+":"+res)
		if cl := sigOf(what); mustFail && passed && !lenientDecodingIsTampering && (cl == "reserved-additional-info" || cl == "duplicate-map-key") {
			c.Count("voucher_more_lenient_decoding", cl+":"+spec.Name)
			if !lenientNoted[cl] {
				lenientNoted[cl] = true
				at := 0
				for at < len(b) && at < len(vb) && b[at] == vb[at] {
					at++
				}
				lo, hiA, hiB := max(at-3, 0), min(at+8, len(vb)), min(at+8, len(b))
				c.Note("altered vouchers that pass every step because the decoder maps them to the value they had (%s; counted in histogram voucher_more_lenient_decoding, "+
					"not a violation under the value-level reading of C04): e.g. %s, %s voucher of length %d, bytes at offset %d: % x -> % x", cl, what, spec.Name, n, lo, vb[lo:hiA], b[lo:hiB])
			}
			return
		}
		if mustFail && passed {
			c.Fail("tamper-accepted:"+sigOf(what)+":"+spec.Name, fmt.Sprintf("every verification step passed and the owner is unchanged although the encoded voucher was altered (%s, voucher of length %d)", what, n), "voucher.verify", p, o)
		}
		if mustPass && !passed {
			c.Fail("honest-rejected:"+what+":"+spec.Name, fmt.Sprintf("a voucher rebuilt and signed by the right keys failed (%s, length %d): %s", what, n, o.Impl[:min(70, len(o.Impl))]), "voucher.verify", p, o)
		}
	}
	resign := func(e ventry, i int) (ventry, bool) {
		if i >= len(keys) {
			return e, false
		}
		alg, ok := protAlg(s.entries[i].prot)
		if !ok {
			return e, false
		}
		sig := sign1OverBytes(keys[i], alg, e.prot, e.payload)
		if sig == nil {
			return e, false
		}
		e.sig = bstrOf(sig)
		return e, true
	}

	// ---- (a) the three wrappers ----
	alterWrapper := func(where string, get func(v *vsplit) *[]byte, entry int) {
		deep := 0
		if !c.Quick() {
			deep = 1
			if strings.HasSuffix(where, "protected") {
				deep = 2
			}
		}
		for _, a := range wrapAlts(*get(s), deep) {
			if a.class == altReenc {
				_, _, in0, _ := ckids(*get(s))
				_, _, in1, ok := ckids(a.raw)
				if !ok || (!ceq(in0, in1) && a.name != "pairs-reversed") {
					c.Note("generator: %s/%s is not a re-encoding", where, a.name)
					continue
				}
			}
			cp := s.clone()
			*get(cp) = a.raw
			// a re-encoding of the same data item leaves the bound VALUE as it was: the library, which verifies its own
			// canonical re-encoding, is expected to accept it (counted in the histogram voucher_more; see DESIGN/notes)
			do(cp.bytes(), "wrapper-"+a.class, where+"-"+a.name, a.class != altReenc, false)
			if entry >= 0 && !a.sweep {
				// the same alteration inside the to-be-signed structure: signed by the right key over the bytes as transmitted.
				// Later entries no longer chain to it; a malformed wrapper must not get through in any case.
				cp2 := s.clone()
				*get(cp2) = a.raw
				if e, ok := resign(cp2.entries[entry], entry); ok {
					cp2.entries[entry] = e
					do(cp2.bytes(), "wrapper-"+a.class+"+signed-again", where+"-"+a.name+"+signed-again", a.class == altMalformed, false)
				}
			}
		}
	}
	alterWrapper("header", func(v *vsplit) *[]byte { return &v.hdr }, -1)
	for i := range s.entries {
		i := i
		alterWrapper(fmt.Sprintf("e%d-protected", i), func(v *vsplit) *[]byte { return &v.entries[i].prot }, i)
		alterWrapper(fmt.Sprintf("e%d-payload", i), func(v *vsplit) *[]byte { return &v.entries[i].payload }, i)
	}

	// OVEExtra: a "bstr .cbor" inside the payload's "bstr .cbor"
	for i := range s.entries {
		_, _, pin, _ := ckids(s.entries[i].payload)
		_, pk, _, pok := ckids(pin)
		if !pok || len(pk) != 4 || len(pk[2]) == 0 || pk[2][0]>>5 != 2 {
			continue
		}
		for _, a := range wrapAlts(pk[2], 0) {
			cp := s.clone()
			cp.entries[i].payload = bstrOf(cat([]byte{0x84}, pk[0], pk[1], a.raw, pk[3]))
			what := fmt.Sprintf("e%d-extra-%s", i, a.name)
			do(cp.bytes(), "wrapper-"+a.class, what, a.class != altReenc, false)
			if e, ok := resign(cp.entries[i], i); ok {
				cp.entries[i] = e
				do(cp.bytes(), "wrapper-"+a.class+"+signed-again", what+"+signed-again", a.class == altMalformed, false)
			}
		}
	}

	// every head that carries the argument 0 in its first byte (integer 0 / -1, empty string, empty array or map), anywhere
	// in a bound part, with the reserved additional-information values 28..30 and 31 (indefinite length): not well-formed
	{
		type piece struct {
			name    string
			item    []byte // raw item, or the content of the wrapper
			wrapped bool
			put     func(v *vsplit, raw []byte)
		}
		content := func(w []byte) []byte { _, _, in, _ := ckids(w); return in }
		pieces := []piece{
			{"header", content(s.hdr), true, func(v *vsplit, r []byte) { v.hdr = r }},
			{"hmac", s.hmac, false, func(v *vsplit, r []byte) { v.hmac = r }},
			{"certchain", s.chain, false, func(v *vsplit, r []byte) { v.chain = r }},
		}
		for i := range s.entries {
			i := i
			pieces = append(pieces,
				piece{fmt.Sprintf("e%d-protected", i), content(s.entries[i].prot), true, func(v *vsplit, r []byte) { v.entries[i].prot = r }},
				piece{fmt.Sprintf("e%d-payload", i), content(s.entries[i].payload), true, func(v *vsplit, r []byte) { v.entries[i].payload = r }},
				piece{fmt.Sprintf("e%d-signature", i), s.entries[i].sig, false, func(v *vsplit, r []byte) { v.entries[i].sig = r }})
			_, pk, _, pok := ckids(content(s.entries[i].payload))
			if pok && len(pk) == 4 && len(pk[2]) > 0 && pk[2][0]>>5 == 2 {
				pk := pk
				pieces = append(pieces, piece{fmt.Sprintf("e%d-extra", i), content(pk[2]), true, func(v *vsplit, r []byte) {
					v.entries[i].payload = bstrOf(cat([]byte{0x84}, pk[0], pk[1], r, pk[3]))
				}})
			}
		}
		for _, pc := range pieces {
			for _, off := range headOffsets(pc.item) {
				if hb := pc.item[off]; hb&31 != 0 || hb>>5 > 5 {
					continue
				}
				for ai := byte(28); ai <= 31; ai++ {
					m := append([]byte(nil), pc.item...)
					m[off] |= ai
					if pc.wrapped {
						m = bstrOf(m)
					}
					cp := s.clone()
					pc.put(cp, m)
					do(cp.bytes(), "reserved-additional-info", fmt.Sprintf("%s-reserved-additional-info-%d@%d", pc.name, ai, off), true, false)
				}
			}
		}
	}

	// ---- (b) hash-type numbers ----
	// OVHeaderHMac
	if alg, val, ok := hashItemAlg(s.hmac); ok {
		for _, x := range hashTypeNumbers {
			if x == alg {
				continue
			}
			cp := s.clone()
			cp.hmac = hashItem(x, val)
			do(cp.bytes(), "hash-type", fmt.Sprintf("hmac-type-%d-to-%d", alg, x), true, false)
		}
	}
	// OVDevCertChainHash (inside the header)
	_, _, hin, _ := ckids(s.hdr)
	_, hk, _, hok := ckids(hin)
	if hok && len(hk) == 6 {
		if alg, val, ok := hashItemAlg(hk[5]); ok {
			for _, x := range hashTypeNumbers {
				if x == alg {
					continue
				}
				cp := s.clone()
				cp.hdr = bstrOf(cat([]byte{0x86}, cat(hk[:5]...), hashItem(x, val)))
				do(cp.bytes(), "hash-type", fmt.Sprintf("certchainhash-type-%d-to-%d", alg, x), true, false)
			}
		}
	}
	// both hashes of every entry
	for i := range s.entries {
		_, _, pin, _ := ckids(s.entries[i].payload)
		_, pk, _, pok := ckids(pin)
		if !pok || len(pk) != 4 {
			continue
		}
		for f, fname := range []string{"prevhash", "hdrhash"} {
			alg, val, ok := hashItemAlg(pk[f])
			if !ok {
				continue
			}
			for _, x := range hashTypeNumbers {
				if x == alg {
					continue
				}
				npk := append([][]byte(nil), pk...)
				npk[f] = hashItem(x, val)
				cp := s.clone()
				cp.entries[i].payload = bstrOf(cat([]byte{0x84}, cat(npk...)))
				do(cp.bytes(), "hash-type", fmt.Sprintf("e%d-%s-type-%d-to-%d", i, fname, alg, x), true, false)
				// the last entry signed again by its rightful signer (an extension by the current owner, not an alteration:
				// model against library only; the library does not look at the type number of OVEHashPrevEntry after entry 0)
				if i == len(s.entries)-1 {
					if e, ok := resign(cp.entries[i], i); ok {
						cp.entries[i] = e
						do(cp.bytes(), "hash-type+signed-again", fmt.Sprintf("e%d-%s-type-%d-to-%d+signed-again", i, fname, alg, x), false, false)
					}
				}
			}
		}
	}
	// every type number of the voucher moved to the other family at once (digests kept)
	{
		cp := s.clone()
		moved := 0
		if alg, val, ok := hashItemAlg(cp.hmac); ok {
			if x, ok := otherFamily(alg); ok {
				cp.hmac = hashItem(x, val)
				moved++
			}
		}
		if hok && len(hk) == 6 {
			if alg, val, ok := hashItemAlg(hk[5]); ok {
				if x, ok := otherFamily(alg); ok {
					cp.hdr = bstrOf(cat([]byte{0x86}, cat(hk[:5]...), hashItem(x, val)))
					moved++
				}
			}
		}
		for i := range cp.entries {
			_, _, pin, _ := ckids(cp.entries[i].payload)
			_, pk, _, pok := ckids(pin)
			if !pok || len(pk) != 4 {
				continue
			}
			npk := append([][]byte(nil), pk...)
			for f := 0; f < 2; f++ {
				if alg, val, ok := hashItemAlg(pk[f]); ok {
					if x, ok := otherFamily(alg); ok {
						npk[f] = hashItem(x, val)
						moved++
					}
				}
			}
			cp.entries[i].payload = bstrOf(cat([]byte{0x84}, cat(npk...)))
		}
		if moved > 0 {
			do(cp.bytes(), "hash-type", "all-types-to-other-family", true, false)
		}
	}
	// the entry chain rebuilt from scratch and signed by the right keys: with the type numbers it had (control: must pass,
	// which also checks the walker's idea of what each hash covers), and with the numbers of the other family / unknown
	// numbers in every entry (must fail: 5 and 6 name MACs, not hashes)
	if n >= 1 && len(keys) >= n {
		rebuild := func(mapAlg func(int64) int64) ([]byte, bool) {
			cp := s.clone()
			_, _, hin, _ := ckids(cp.hdr)
			prevMsg := cat(hin, cp.hmac)
			for i := range cp.entries {
				_, _, pin, _ := ckids(cp.entries[i].payload)
				_, pk, _, pok := ckids(pin)
				if !pok || len(pk) != 4 {
					return nil, false
				}
				alg, _, ok1 := hashItemAlg(pk[0])
				_, hval, ok2 := hashItemAlg(pk[1])
				d := digestFor(alg, prevMsg)
				if !ok1 || !ok2 || d == nil {
					return nil, false
				}
				x := mapAlg(alg)
				cp.entries[i].payload = bstrOf(cat([]byte{0x84}, hashItem(x, bstrOf(d)), hashItem(x, hval), pk[2], pk[3]))
				e, ok := resign(cp.entries[i], i)
				if !ok {
					return nil, false
				}
				cp.entries[i] = e
				prevMsg = e.raw()
			}
			return cp.bytes(), true
		}
		if b, ok := rebuild(func(a int64) int64 { return a }); ok {
			do(b, "chain-rebuilt", "chain-rebuilt-same-types", false, true)
		} else {
			c.Note("generator: chain of %s length %d could not be rebuilt", spec.Name, n)
		}
		if b, ok := rebuild(func(a int64) int64 { x, _ := otherFamily(a); return x }); ok {
			do(b, "chain-rebuilt-hash-type", "chain-rebuilt-with-hmac-type-numbers", true, false)
		}
		for _, x := range []int64{-44, 7, 0} {
			x := x
			if b, ok := rebuild(func(int64) int64 { return x }); ok {
				do(b, "chain-rebuilt-hash-type", fmt.Sprintf("chain-rebuilt-with-type-%d", x), true, false)
			}
		}
	}
}
