package props

import (
	"context"
	"fmt"
	"io"
	"iter"
	"sync"
	"time"

	"github.com/fido-device-onboard/go-fdo/kex"
	"github.com/fido-device-onboard/go-fdo/protocol"
	"github.com/fido-device-onboard/go-fdo/serviceinfo"

	"verifharness/internal/core"
	"verifharness/internal/env"
)

// Device modules that are plugins (plugin.Module: Start / GracefulStop / Stop) are stopped when TO2 ends, each on
// goroutines of its own: a module's graceful stop gets the time it needs (up to the shared limit) whatever the other
// modules do, and Stop is not called on a module while its graceful stop is still running and its context is live.

type c19Plug struct {
	name     string
	need     time.Duration // how long the graceful stop takes
	mu       sync.Mutex
	active   bool
	gStart   time.Time
	gEnd     time.Time
	gCtxErr  error // the context's error when the graceful stop finished its work
	cutShort bool  // the context was cancelled before the work was done
	stopAt   time.Time
	stops    int
}

func (m *c19Plug) Transition(active bool) error {
	m.mu.Lock()
	m.active = active
	m.mu.Unlock()
	return nil
}
func (m *c19Plug) Receive(_ context.Context, _ string, body io.Reader, _ func(string) io.Writer, _ func()) error {
	_, _ = io.Copy(io.Discard, body)
	return nil
}
func (m *c19Plug) Yield(context.Context, func(string) io.Writer, func()) error { return nil }
func (m *c19Plug) Start() (io.Writer, io.Reader, error)                        { return io.Discard, eofReader{}, nil }
func (m *c19Plug) GracefulStop(ctx context.Context) error {
	m.mu.Lock()
	m.gStart = time.Now()
	m.mu.Unlock()
	select {
	case <-time.After(m.need):
	case <-ctx.Done():
		m.mu.Lock()
		m.cutShort = true
		m.mu.Unlock()
	}
	m.mu.Lock()
	m.gEnd, m.gCtxErr = time.Now(), ctx.Err()
	m.mu.Unlock()
	return ctx.Err()
}
func (m *c19Plug) Stop() error {
	m.mu.Lock()
	m.stops++
	if m.stopAt.IsZero() {
		m.stopAt = time.Now()
	}
	m.mu.Unlock()
	return nil
}

type eofReader struct{}

func (eofReader) Read([]byte) (int, error) { return 0, io.EOF }

// c19PlugOwner activates its device module and is done.
type c19PlugOwner struct{ sent bool }

func (o *c19PlugOwner) HandleInfo(_ context.Context, _ string, body io.Reader) error {
	_, _ = io.Copy(io.Discard, body)
	return nil
}
func (o *c19PlugOwner) ProduceInfo(_ context.Context, p *serviceinfo.Producer) (bool, bool, error) {
	if !o.sent {
		o.sent = true
		return false, false, p.WriteChunk("active", []byte{0xf5})
	}
	return false, true, nil
}

func c19PluginStops(c *core.Ctx, dp *c19Deploy) {
	needs := [][]time.Duration{{0, 300 * time.Millisecond}, {300 * time.Millisecond, 0}, {0, 0, 400 * time.Millisecond}, {200 * time.Millisecond}}
	if !c.Quick() {
		needs = append(needs, []time.Duration{0, 50 * time.Millisecond, 100 * time.Millisecond, 800 * time.Millisecond}, []time.Duration{500 * time.Millisecond, 500 * time.Millisecond})
	}
	for ci, ns := range needs {
		ctx, cancel := context.WithTimeout(context.Background(), 40*time.Second)
		var plugs []*c19Plug
		devMods := map[string]serviceinfo.DeviceModule{}
		for i, n := range ns {
			p := &c19Plug{name: fmt.Sprintf("verif.plug%d", i), need: n}
			plugs = append(plugs, p)
			devMods[p.name] = p
		}
		prev := dp.e.OwnerModules
		dp.e.OwnerModules = func(context.Context, protocol.GUID, serviceinfo.Devmod, []string) iter.Seq2[string, serviceinfo.OwnerModule] {
			return func(yield func(string, serviceinfo.OwnerModule) bool) {
				for _, p := range plugs {
					if !yield(p.name, &c19PlugOwner{}) {
						return
					}
				}
			}
		}
		dp.trDelay.Store(0)
		dev, err := dp.newDevice(ctx, env.P256, protocol.X509KeyEnc, fmt.Sprintf("plug%d", ci))
		if err != nil {
			dp.e.OwnerModules = prev
			cancel()
			c.Note("plugin stop probe: %v", err)
			return
		}
		cfg := dev.TO2Config(kex.ECDH256Suite, kex.A128GcmCipher)
		cfg.DeviceModules = devMods
		t0 := time.Now()
		_, terr := dp.e.TO2(ctx, dev, nil, cfg)
		took := time.Since(t0)
		dp.e.OwnerModules = prev
		cancel()
		c.Rep.Evaluations++
		params := core.Params{"case": fmt.Sprint(ci), "needs": fmt.Sprint(ns)}
		if terr != nil {
			c.Fail("harness:plugin-stop-to2", terr.Error(), "c19.plugins", params, core.Obs{})
			continue
		}
		for _, p := range plugs {
			p.mu.Lock()
			act, cut, gs, ge, st, stops, need := p.active, p.cutShort, p.gStart, p.gEnd, p.stopAt, p.stops, p.need
			p.mu.Unlock()
			c.Count("plugin_stop", fmt.Sprintf("need=%s active=%v graceful-ran=%v cut-short=%v stops=%d", need, act, !gs.IsZero(), cut, stops))
			switch {
			case !act:
				c.Fail("harness:plugin-not-activated", p.name, "c19.plugins", params, core.Obs{})
			case gs.IsZero() || stops == 0:
				c.Fail("plugin-not-stopped", fmt.Sprintf("%s: graceful stop ran=%v, Stop calls=%d after TO2 returned (%s)", p.name, !gs.IsZero(), stops, took), "c19.plugins", params, core.Obs{})
			case cut:
				c.Fail("plugin-graceful-stop-cut-short", fmt.Sprintf("%s needs %s for its graceful stop (limit 5 s); its context was cancelled after %s because another module finished", p.name, need, ge.Sub(gs).Round(time.Millisecond)), "c19.plugins", params, core.Obs{})
			case st.Before(ge):
				c.Fail("plugin-stopped-during-graceful-stop", fmt.Sprintf("%s: Stop was called %s before its graceful stop finished", p.name, ge.Sub(st).Round(time.Millisecond)), "c19.plugins", params, core.Obs{})
			}
		}
	}
}
