package props

// C18 — the SQLite state store: whatever is stored is what is later read for the same token and only for that
// token, across restarts; bad / invalidated tokens grant nothing; expired rendezvous blobs are not found; a
// replaced voucher is gone and its replacement is there.
//
// Kind "store.history": a history of state-interface operations over several tokens is executed against a real
// sqlite.DB (encrypted file under WorkDir) and, with every value replaced by a short digest of its canonical
// encoding, handed to the reference model (coq/Store/Store.v).

import (
	"context"
	"crypto"
	"crypto/ecdsa"
	"crypto/rand"
	"crypto/rsa"
	"crypto/sha256"
	"crypto/x509"
	"crypto/x509/pkix"
	"database/sql"
	"encoding"
	"encoding/base64"
	"encoding/hex"
	"errors"
	"fmt"
	"math/big"
	mrand "math/rand"
	"net"
	"os"
	"path/filepath"
	"sort"
	"strconv"
	"strings"
	"sync"
	"sync/atomic"
	"time"

	fdo "github.com/fido-device-onboard/go-fdo"
	"github.com/fido-device-onboard/go-fdo/cbor"
	"github.com/fido-device-onboard/go-fdo/cose"
	"github.com/fido-device-onboard/go-fdo/custom"
	"github.com/fido-device-onboard/go-fdo/kex"
	"github.com/fido-device-onboard/go-fdo/protocol"
	"github.com/fido-device-onboard/go-fdo/serviceinfo"
	"github.com/fido-device-onboard/go-fdo/sqlite"

	"verifharness/internal/core"
	"verifharness/internal/env"
)

const stNFields = 14

// value seeds from stEdge up select values the protocol never produces
const stEdge = 1 << 24

var stFieldNames = [stNFields]string{"DeviceCertChain", "DeviceSelfInfo", "IncompleteVoucherHeader", "TO0SignNonce", "TO1ProofNonce",
	"GUID", "RvInfo", "ReplacementGUID", "ReplacementHmac", "XSession", "ProveDeviceNonce", "SetupDeviceNonce", "MTU", "Devmod"}

// number of value shapes per field (shape = value seed mod this number)
var stNShapes = [stNFields]int{6, 6, 8, 3, 3, 3, 9, 3, 4, 0 /* set in pool */, 3, 3, 5, 10}

// bad token classes (all of them are "not issued by the store" to the model: z:-1)
var stBadClasses = []string{"empty", "bang", "three", "tr1", "tr5", "tr20", "flipid", "flipmac", "extra4", "extra1", "pad", "foreign", "rand48", "short12", "none"}

func stDig(b []byte) string {
	h := sha256.Sum256(b)
	return hex.EncodeToString(h[:8])
}

func stMustCBOR(v any) []byte {
	b, err := cbor.Marshal(v)
	if err != nil {
		panic("harness: cbor.Marshal: " + err.Error())
	}
	return b
}

// ---------------------------------------------------------------------------------------------------------------
// pools of expensive values (built once per process)

type stKexEntry struct {
	suite kex.Suite
	sess  kex.Session
	name  string
}

type stPoolT struct {
	chains   [][]*x509.Certificate // 1, 2 and 3 certificates, several key types
	csrs     []*x509.CertificateRequest
	kex      []stKexEntry
	vtmpl    [4]*fdo.Voucher // 0..3 entries (P-256, X509 encoding)
	vtmplAlt [2]*fdo.Voucher // 0 entries: P-384/COSE key, RSA2048/X5Chain
	mfgKeys  []*protocol.PublicKey
	blobKey  crypto.Signer
	err      error
}

var (
	stPoolOnce sync.Once
	stPoolV    *stPoolT
)

func stChain3(spec env.KeySpec, cn string) []*x509.Certificate {
	root := env.Key(env.P256, cn+"-root")
	rootC := env.SelfSigned(root, cn+" root")
	mid := env.Key(env.P384, cn+"-mid")
	mk := func(parent *x509.Certificate, signer crypto.Signer, pub crypto.PublicKey, name string, ca bool) *x509.Certificate {
		tmpl := &x509.Certificate{SerialNumber: big.NewInt(time.Now().UnixNano()), Subject: pkix.Name{CommonName: name},
			NotBefore: time.Now().Add(-time.Hour), NotAfter: time.Now().Add(30 * 365 * 24 * time.Hour), BasicConstraintsValid: true, IsCA: ca,
			KeyUsage: x509.KeyUsageDigitalSignature | x509.KeyUsageCertSign}
		der, err := x509.CreateCertificate(rand.Reader, tmpl, parent, pub, signer)
		if err != nil {
			panic(err)
		}
		c, _ := x509.ParseCertificate(der)
		return c
	}
	midC := mk(rootC[0], root, mid.Public(), cn+" mid", true)
	leaf := mk(midC, mid, env.Key(spec, cn+"-leaf").Public(), cn+" leaf", false)
	return []*x509.Certificate{leaf, midC, rootC[0]}
}

func stPool() *stPoolT {
	stPoolOnce.Do(func() {
		p := &stPoolT{}
		stPoolV = p
		defer func() {
			if r := recover(); r != nil {
				p.err = fmt.Errorf("pool: %v", r)
			}
		}()
		// certificate chains
		p.chains = append(p.chains,
			env.SelfSigned(env.Key(env.P256, "c18a"), "c18 a"),
			env.Chain(env.Key(env.P384, "c18b"), "c18 b"),
			stChain3(env.P256, "c18c"),
			env.SelfSigned(env.Key(env.RSA2048, "c18d"), "c18 d"),
			env.Chain(env.Key(env.RSA2048, "c18e"), "c18 e"),
			stChain3(env.P384, "c18f"))
		// certificate requests
		for i, spec := range []env.KeySpec{env.P256, env.P384, env.RSA2048} {
			der, err := x509.CreateCertificateRequest(rand.Reader, &x509.CertificateRequest{Subject: pkix.Name{CommonName: fmt.Sprint("device", i)}}, env.Key(spec, "c18dev"))
			if err != nil {
				panic(err)
			}
			csr, err := x509.ParseCertificateRequest(der)
			if err != nil {
				panic(err)
			}
			p.csrs = append(p.csrs, csr)
		}
		// key exchange sessions: every suite, several ciphers, every stage
		rsa2 := env.Key(env.RSA2048, "owner").(*rsa.PrivateKey)
		rsa3 := env.Key(env.RSAPKCS, "owner").(*rsa.PrivateKey)
		suites := []kex.Suite{kex.ECDH256Suite, kex.ECDH384Suite, kex.DHKEXid14Suite, kex.DHKEXid15Suite, kex.ASYMKEX2048Suite, kex.ASYMKEX3072Suite}
		ciphers := []kex.CipherSuiteID{kex.A128GcmCipher, kex.A256GcmCipher, kex.AesCcm64_128_128Cipher, kex.CoseAes128CbcCipher, kex.CoseAes256CtrCipher, kex.A192GcmCipher, kex.AesCcm64_128_256Cipher, kex.CoseAes256CbcCipher, kex.CoseAes128CtrCipher}
		for si, suite := range suites {
			var priv *rsa.PrivateKey
			switch suite {
			case kex.ASYMKEX2048Suite:
				priv = rsa2
			case kex.ASYMKEX3072Suite:
				priv = rsa3
			}
			var pub *rsa.PublicKey
			if priv != nil {
				pub = &priv.PublicKey
			}
			for ci := 0; ci < 3; ci++ {
				cipher := ciphers[(si*3+ci)%len(ciphers)]
				if !kex.Available(suite, cipher) {
					continue
				}
				for stage := 0; stage <= 3; stage++ {
					owner := suite.New(nil, cipher)
					var keep kex.Session = owner
					if stage >= 1 {
						xA, err := owner.Parameter(rand.Reader, pub)
						if err != nil {
							panic(fmt.Sprintf("kex %s Parameter: %v", suite, err))
						}
						if stage >= 2 {
							dev := suite.New(xA, cipher)
							xB, err := dev.Parameter(rand.Reader, pub)
							if err != nil {
								panic(fmt.Sprintf("kex %s device Parameter: %v", suite, err))
							}
							if stage == 2 {
								if err := owner.SetParameter(xB, priv); err != nil {
									panic(fmt.Sprintf("kex %s SetParameter: %v", suite, err))
								}
							} else {
								keep = dev // a device-side session (has the peer's parameter and keys)
							}
						}
					}
					p.kex = append(p.kex, stKexEntry{suite, keep, fmt.Sprintf("%s/st%d", suite, stage)})
				}
			}
		}
		stNShapes[9] = len(p.kex)
		// voucher templates
		mfg := env.Key(env.P256, "c18mfg")
		owners := []crypto.Signer{mfg, env.Key(env.P256, "c18o1"), env.Key(env.P256, "c18o2"), env.Key(env.P256, "c18o3")}
		mk := func(typ protocol.KeyType, pub any, asCOSE bool) *protocol.PublicKey {
			var pk *protocol.PublicKey
			var err error
			switch k := pub.(type) {
			case *ecdsa.PublicKey:
				pk, err = protocol.NewPublicKey(typ, k, asCOSE)
			case *rsa.PublicKey:
				pk, err = protocol.NewPublicKey(typ, k, asCOSE)
			case []*x509.Certificate:
				pk, err = protocol.NewPublicKey(typ, k, asCOSE)
			}
			if err != nil {
				panic(err)
			}
			return pk
		}
		p.mfgKeys = []*protocol.PublicKey{
			mk(protocol.Secp256r1KeyType, mfg.Public(), false),
			mk(protocol.Secp384r1KeyType, env.Key(env.P384, "c18mfg").Public(), true),
			mk(protocol.Rsa2048RestrKeyType, env.Chain(env.Key(env.RSA2048, "c18mfg"), "c18 mfg"), false),
		}
		chainHash := sha256.Sum256([]byte("chain"))
		devChain := []*cbor.X509Certificate{}
		for _, c := range p.chains[1] {
			devChain = append(devChain, (*cbor.X509Certificate)(c))
		}
		base := func(pk *protocol.PublicKey, withChain bool) *fdo.Voucher {
			v := &fdo.Voucher{Version: 101,
				Header: *cbor.NewBstr(fdo.VoucherHeader{Version: 101, DeviceInfo: "tmpl", ManufacturerKey: *pk,
					RvInfo: [][]protocol.RvInstruction{{{Variable: protocol.RVDns, Value: stMustCBOR("rv.test")}}}}),
				Hmac: protocol.Hmac{Algorithm: protocol.HmacSha256Hash, Value: make([]byte, 32)}}
			if withChain {
				v.Header.Val.CertChainHash = &protocol.Hash{Algorithm: protocol.Sha256Hash, Value: chainHash[:]}
				v.CertChain = &devChain
			}
			return v
		}
		p.vtmpl[0] = base(p.mfgKeys[0], true)
		for i := 1; i <= 3; i++ {
			next, err := fdo.ExtendVoucher(p.vtmpl[i-1], owners[i-1], owners[i].Public().(*ecdsa.PublicKey), nil)
			if err != nil {
				panic(fmt.Sprintf("ExtendVoucher %d: %v", i, err))
			}
			p.vtmpl[i] = next
		}
		p.vtmplAlt[0] = base(p.mfgKeys[1], false)
		p.vtmplAlt[1] = base(p.mfgKeys[2], true)
		p.blobKey = env.Key(env.P256, "c18blob")
	})
	return stPoolV
}

// ---------------------------------------------------------------------------------------------------------------
// values

func stRng(hseed int64, vseed int) *mrand.Rand {
	return mrand.New(mrand.NewSource(hseed*1000003 + int64(vseed)*7919 + 17))
}

func stBytes(r *mrand.Rand, n int) []byte {
	b := make([]byte, n)
	_, _ = r.Read(b)
	return b
}

func stGUIDOf(hseed int64, g int) protocol.GUID {
	h := sha256.Sum256([]byte(fmt.Sprintf("c18-guid-%d-%d", hseed, g)))
	var out protocol.GUID
	copy(out[:], h[:16])
	return out
}

func stRvInfo(r *mrand.Rand, shape int) ([][]protocol.RvInstruction, string) {
	switch shape {
	case 0:
		return nil, "rv-nil"
	case 1:
		return [][]protocol.RvInstruction{}, "rv-empty"
	case 2:
		return [][]protocol.RvInstruction{{}}, "rv-one-empty-directive"
	case 3:
		return [][]protocol.RvInstruction{{{Variable: protocol.RVDevOnly}}}, "rv-novalue"
	case 4:
		return [][]protocol.RvInstruction{{{Variable: protocol.RVDns, Value: stMustCBOR(fmt.Sprintf("h%d.test", r.Intn(1000)))}, {Variable: protocol.RVDevPort, Value: stMustCBOR(r.Intn(65536))}}}, "rv-small"
	case 5:
		return [][]protocol.RvInstruction{{{Variable: protocol.RVDevOnly, Value: []byte{}}}, nil}, "rv-emptyvalue+nil-directive"
	case 6, 7:
		n := 300 + r.Intn(400)
		out := make([][]protocol.RvInstruction, n)
		for i := range out {
			out[i] = []protocol.RvInstruction{
				{Variable: protocol.RVIPAddress, Value: stMustCBOR(stBytes(r, 4))},
				{Variable: protocol.RVDevPort, Value: stMustCBOR(r.Intn(65536))},
				{Variable: protocol.RVDelaysec, Value: stMustCBOR(r.Intn(1 << 20))}}
		}
		return out, "rv-large"
	default:
		n := 1 + r.Intn(4)
		out := make([][]protocol.RvInstruction, n)
		for i := range out {
			out[i] = []protocol.RvInstruction{{Variable: protocol.RvVar(r.Intn(16)), Value: stBytes(r, r.Intn(40))}}
		}
		return out, "rv-random"
	}
}

type stVal struct {
	shape string
	dig   string
	write func(ctx context.Context, db *sqlite.DB) error
}

func stStr(r *mrand.Rand, n int) string {
	const al = "abcdefghijklmnopqrstuvwxyz0123456789-_. é"
	rs := []rune(al)
	out := make([]rune, n)
	for i := range out {
		out[i] = rs[r.Intn(len(rs))]
	}
	return string(out)
}

func stSelfInfoDig(kt, ke int64, sn, info string, csr []byte) string {
	return stDig(stMustCBOR([]any{kt, ke, sn, info, csr}))
}

func stKexDig(suite kex.Suite, sess kex.Session) (string, error) {
	m, ok := sess.(encoding.BinaryMarshaler)
	if !ok {
		return "", fmt.Errorf("session %T does not marshal", sess)
	}
	b, err := m.MarshalBinary()
	if err != nil {
		return "", err
	}
	return stDig(append([]byte(string(suite)+"|"), b...)), nil
}

type stDevmodRec struct {
	Devmod   serviceinfo.Devmod
	Modules  []string
	Complete bool
}

func stChainDig(chain []*x509.Certificate) string {
	var der []byte
	for _, c := range chain {
		der = append(der, c.Raw...)
	}
	return stDig(der)
}

// stValue builds the value number vseed for field f (shape = vseed mod number of shapes; content from the seeds).
func stValue(f int, hseed int64, vseed int) *stVal {
	p := stPool()
	r := stRng(hseed, vseed)
	shape := 0
	if stNShapes[f] > 0 {
		shape = vseed % stNShapes[f]
	}
	if vseed >= stEdge { // values outside what the protocol produces ("sys/edge" scenarios only)
		switch {
		case f == 0:
			return &stVal{"edge/chain0", stChainDig(nil), func(ctx context.Context, db *sqlite.DB) error { return db.SetDeviceCertChain(ctx, nil) }}
		case f == 6:
			rv := make([][]protocol.RvInstruction, 20000)
			for i := range rv {
				rv[i] = []protocol.RvInstruction{{Variable: protocol.RVIPAddress, Value: stMustCBOR(stBytes(r, 4))}, {Variable: protocol.RVDevPort, Value: stMustCBOR(r.Intn(65536))}}
			}
			return &stVal{"edge/rv-20000-directives", stDig(stMustCBOR(rv)), func(ctx context.Context, db *sqlite.DB) error { return db.SetRvInfo(ctx, rv) }}
		}
		vseed -= stEdge
	}
	switch f {
	case 0:
		chain := p.chains[shape%len(p.chains)]
		return &stVal{fmt.Sprintf("chain%d/%s", len(chain), chain[0].PublicKeyAlgorithm), stChainDig(chain),
			func(ctx context.Context, db *sqlite.DB) error { return db.SetDeviceCertChain(ctx, chain) }}
	case 1:
		info := &custom.DeviceMfgInfo{KeyType: protocol.Secp256r1KeyType, KeyEncoding: protocol.X509KeyEnc, SerialNumber: stStr(r, 8), DeviceInfo: stStr(r, 12)}
		name := "selfinfo"
		switch shape {
		case 1:
			info.KeyType, info.KeyEncoding = protocol.Secp384r1KeyType, protocol.CoseKeyEnc
			name += "-p384cose"
		case 2:
			info.KeyType, info.KeyEncoding = protocol.Rsa2048RestrKeyType, protocol.X5ChainKeyEnc
			name += "-rsa"
		case 3:
			info.SerialNumber, info.DeviceInfo = "", ""
			name += "-emptystrings"
		case 4:
			info.SerialNumber, info.DeviceInfo = stStr(r, 3000), stStr(r, 5000)
			name += "-long"
		case 5:
			info.KeyType, info.KeyEncoding = protocol.RsaPssKeyType, protocol.X509KeyEnc
			name += "-pss"
		}
		csr := p.csrs[(shape+vseed/7)%len(p.csrs)]
		info.CertInfo = cbor.X509CertificateRequest(*csr)
		return &stVal{name, stSelfInfoDig(int64(info.KeyType), int64(info.KeyEncoding), info.SerialNumber, info.DeviceInfo, csr.Raw),
			func(ctx context.Context, db *sqlite.DB) error { return db.SetDeviceSelfInfo(ctx, info) }}
	case 2:
		rvShape := []int{4, 0, 1, 6, 8, 2, 4, 5}[shape]
		rv, rvName := stRvInfo(r, rvShape)
		var g protocol.GUID
		copy(g[:], stBytes(r, 16))
		ovh := &fdo.VoucherHeader{Version: 101, GUID: g, RvInfo: rv, DeviceInfo: stStr(r, 1+r.Intn(20)), ManufacturerKey: *p.mfgKeys[shape%len(p.mfgKeys)]}
		name := "ovh/" + rvName + "/" + ovh.ManufacturerKey.Type.String() + "-" + ovh.ManufacturerKey.Encoding.String()
		if shape%2 == 0 {
			ovh.CertChainHash = &protocol.Hash{Algorithm: protocol.Sha384Hash, Value: stBytes(r, 48)}
			name += "/cchash"
		}
		return &stVal{name, stDig(stMustCBOR(ovh)),
			func(ctx context.Context, db *sqlite.DB) error { return db.SetIncompleteVoucherHeader(ctx, ovh) }}
	case 3, 4, 10, 11:
		var n protocol.Nonce
		name := "nonce-random"
		switch shape {
		case 0:
			name = "nonce-zero"
		case 1:
			for i := range n {
				n[i] = 0xff
			}
			name = "nonce-ff"
		default:
			copy(n[:], stBytes(r, 16))
		}
		d := stDig(stMustCBOR(n))
		switch f {
		case 3:
			return &stVal{name, d, func(ctx context.Context, db *sqlite.DB) error { return db.SetTO0SignNonce(ctx, n) }}
		case 4:
			return &stVal{name, d, func(ctx context.Context, db *sqlite.DB) error { return db.SetTO1ProofNonce(ctx, n) }}
		case 10:
			return &stVal{name, d, func(ctx context.Context, db *sqlite.DB) error { return db.SetProveDeviceNonce(ctx, n) }}
		default:
			return &stVal{name, d, func(ctx context.Context, db *sqlite.DB) error { return db.SetSetupDeviceNonce(ctx, n) }}
		}
	case 5, 7:
		var g protocol.GUID
		name := "guid-random"
		if shape == 0 {
			name = "guid-zero"
		} else {
			copy(g[:], stBytes(r, 16))
		}
		d := stDig(stMustCBOR(g))
		if f == 5 {
			return &stVal{name, d, func(ctx context.Context, db *sqlite.DB) error { return db.SetGUID(ctx, g) }}
		}
		return &stVal{name, d, func(ctx context.Context, db *sqlite.DB) error { return db.SetReplacementGUID(ctx, g) }}
	case 6:
		rv, name := stRvInfo(r, shape)
		return &stVal{name, stDig(stMustCBOR(rv)), func(ctx context.Context, db *sqlite.DB) error { return db.SetRvInfo(ctx, rv) }}
	case 8:
		var h protocol.Hmac
		name := ""
		switch shape {
		case 0, 2:
			h, name = protocol.Hmac{Algorithm: protocol.HmacSha256Hash, Value: stBytes(r, 32)}, "hmac-sha256"
		default:
			h, name = protocol.Hmac{Algorithm: protocol.HmacSha384Hash, Value: stBytes(r, 48)}, "hmac-sha384"
		}
		return &stVal{name, stDig(stMustCBOR(h)), func(ctx context.Context, db *sqlite.DB) error { return db.SetReplacementHmac(ctx, h) }}
	case 9:
		e := p.kex[shape%len(p.kex)]
		d, err := stKexDig(e.suite, e.sess)
		if err != nil {
			panic("harness: " + err.Error())
		}
		return &stVal{"kex/" + e.name, d, func(ctx context.Context, db *sqlite.DB) error { return db.SetXSession(ctx, e.suite, e.sess) }}
	case 12:
		var mtu uint16
		switch shape {
		case 0:
			mtu = 0
		case 1:
			mtu = 1300
		case 2:
			mtu = 65535
		default:
			mtu = uint16(r.Intn(65536))
		}
		name := "mtu-random"
		if shape < 3 {
			name = fmt.Sprint("mtu-", mtu)
		}
		return &stVal{name, stDig(stMustCBOR(mtu)), func(ctx context.Context, db *sqlite.DB) error { return db.SetMTU(ctx, mtu) }}
	case 13:
		rec := stDevmodRec{Devmod: serviceinfo.Devmod{Os: "linux", Arch: "arm64", Version: stStr(r, 6), Device: stStr(r, 10), FileSep: ";", Bin: "arm64"}}
		name := "devmod-required-only"
		if shape%2 == 1 {
			rec.Devmod.Serial, rec.Devmod.PathSep, rec.Devmod.Newline, rec.Devmod.Temp, rec.Devmod.Dir, rec.Devmod.ProgEnv, rec.Devmod.MudURL =
				stBytes(r, 12), "/", "\n", "/tmp", "/var/fdo", "sh", "https://mud.test/"+stStr(r, 5)
			name = "devmod-all-fields"
		}
		switch shape / 2 {
		case 0:
			rec.Modules, name = nil, name+"/modules-nil"
		case 1:
			rec.Modules, name = []string{}, name+"/modules-0"
		case 2:
			rec.Modules, name = []string{"fdo.download"}, name+"/modules-1"
		case 3:
			for i := 0; i < 200; i++ {
				rec.Modules = append(rec.Modules, fmt.Sprintf("vendor.module%d.%s", i, stStr(r, 6)))
			}
			name += "/modules-200"
		default:
			rec.Devmod = serviceinfo.Devmod{}
			rec.Modules, name = []string{"a", "b"}, "devmod-zero/modules-2"
		}
		rec.Complete = (vseed/stNShapes[13])%2 == 0
		name += fmt.Sprint("/complete-", rec.Complete)
		return &stVal{name, stDig(stMustCBOR(rec)),
			func(ctx context.Context, db *sqlite.DB) error {
				return db.SetDevmod(ctx, rec.Devmod, rec.Modules, rec.Complete)
			}}
	}
	panic("harness: unknown field")
}

// stRead reads field f through ctx and digests what came back (same canonical encoding as stValue).
func stRead(ctx context.Context, db *sqlite.DB, f int, token string) (string, error) {
	switch f {
	case 0:
		chain, err := db.DeviceCertChain(ctx)
		if err != nil {
			return "", err
		}
		return stChainDig(chain), nil
	case 1:
		// no getter in the state interface: validate the token with a getter of the same table, then read the columns
		// through the exported *sql.DB handle
		if _, err := db.DeviceCertChain(ctx); errors.Is(err, fdo.ErrInvalidSession) {
			return "", err
		}
		raw, err := base64.RawURLEncoding.DecodeString(token)
		if err != nil || len(raw) < 16 {
			return "", fdo.ErrInvalidSession
		}
		var kt, ke sql.NullInt64
		var sn, info sql.NullString
		var csr []byte
		row := db.DB().QueryRowContext(ctx, "SELECT key_type, key_encoding, serial_number, info_string, csr FROM device_info WHERE session = ?", raw[:16])
		if err := row.Scan(&kt, &ke, &sn, &info, &csr); errors.Is(err, sql.ErrNoRows) {
			return "", fdo.ErrNotFound
		} else if err != nil {
			return "", err
		}
		if !kt.Valid {
			return "", fdo.ErrNotFound
		}
		return stSelfInfoDig(kt.Int64, ke.Int64, sn.String, info.String, csr), nil
	case 2:
		ovh, err := db.IncompleteVoucherHeader(ctx)
		if err != nil {
			return "", err
		}
		return stDig(stMustCBOR(ovh)), nil
	case 3:
		n, err := db.TO0SignNonce(ctx)
		if err != nil {
			return "", err
		}
		return stDig(stMustCBOR(n)), nil
	case 4:
		n, err := db.TO1ProofNonce(ctx)
		if err != nil {
			return "", err
		}
		return stDig(stMustCBOR(n)), nil
	case 5:
		g, err := db.GUID(ctx)
		if err != nil {
			return "", err
		}
		return stDig(stMustCBOR(g)), nil
	case 6:
		rv, err := db.RvInfo(ctx)
		if err != nil {
			return "", err
		}
		return stDig(stMustCBOR(rv)), nil
	case 7:
		g, err := db.ReplacementGUID(ctx)
		if err != nil {
			return "", err
		}
		return stDig(stMustCBOR(g)), nil
	case 8:
		h, err := db.ReplacementHmac(ctx)
		if err != nil {
			return "", err
		}
		return stDig(stMustCBOR(h)), nil
	case 9:
		suite, sess, err := db.XSession(ctx)
		if err != nil {
			return "", err
		}
		return stKexDig(suite, sess)
	case 10:
		n, err := db.ProveDeviceNonce(ctx)
		if err != nil {
			return "", err
		}
		return stDig(stMustCBOR(n)), nil
	case 11:
		n, err := db.SetupDeviceNonce(ctx)
		if err != nil {
			return "", err
		}
		return stDig(stMustCBOR(n)), nil
	case 12:
		m, err := db.MTU(ctx)
		if err != nil {
			return "", err
		}
		return stDig(stMustCBOR(m)), nil
	case 13:
		dm, mods, complete, err := db.Devmod(ctx)
		if err != nil {
			return "", err
		}
		return stDig(stMustCBOR(stDevmodRec{dm, mods, complete})), nil
	}
	panic("harness: unknown field")
}

const stNVoucherShapes = 12

// stVoucherShape: entries, header variety
func stVoucher(hseed int64, g protocol.GUID, vseed int) (*fdo.Voucher, string) {
	p := stPool()
	r := stRng(hseed, vseed+500000)
	shape := vseed % stNVoucherShapes
	var v fdo.Voucher
	name := ""
	switch {
	case shape < 8:
		v = *p.vtmpl[shape%4]
		name = fmt.Sprintf("voucher-%d-entries", shape%4)
	default:
		v = *p.vtmplAlt[shape%2]
		name = "voucher-0-entries/" + v.Header.Val.ManufacturerKey.Type.String()
	}
	hdr := v.Header.Val // copy
	hdr.GUID = g
	hdr.DeviceInfo = stStr(r, r.Intn(24))
	rvShape := []int{4, 4, 1, 6, 0, 8}[(vseed/stNVoucherShapes)%6]
	var rvName string
	hdr.RvInfo, rvName = stRvInfo(r, rvShape)
	v.Header = *cbor.NewBstr(hdr)
	if shape >= 4 && shape < 8 {
		v.Hmac = protocol.Hmac{Algorithm: protocol.HmacSha384Hash, Value: stBytes(r, 48)}
		name += "/hmac384"
	} else {
		v.Hmac = protocol.Hmac{Algorithm: protocol.HmacSha256Hash, Value: stBytes(r, 32)}
		name += "/hmac256"
	}
	return &v, name + "/" + rvName
}

func stVoucherDig(v *fdo.Voucher) string { return stDig(stMustCBOR(v)) }

func stBlob(hseed int64, g protocol.GUID, vseed int) (*fdo.Voucher, *cose.Sign1[protocol.To1d, []byte], string) {
	p := stPool()
	ov, vname := stVoucher(hseed, g, vseed)
	r := stRng(hseed, vseed+900000)
	var addrs []protocol.RvTO2Addr
	n := []int{1, 0, 3, 40}[vseed%4]
	for i := 0; i < n; i++ {
		a := protocol.RvTO2Addr{Port: uint16(r.Intn(65536)), TransportProtocol: protocol.HTTPSTransport}
		if i%2 == 0 {
			a.DNSAddress = strp(fmt.Sprintf("o%d.test", r.Intn(1000)))
		} else {
			ip := net.IP(stBytes(r, 4))
			a.IPAddress = &ip
		}
		addrs = append(addrs, a)
	}
	to1d := &cose.Sign1[protocol.To1d, []byte]{Payload: cbor.NewByteWrap(protocol.To1d{RV: addrs, To0dHash: protocol.Hash{Algorithm: protocol.Sha256Hash, Value: stBytes(r, 32)}})}
	if err := to1d.Sign(p.blobKey, nil, nil, nil); err != nil {
		panic("harness: sign to1d: " + err.Error())
	}
	return ov, to1d, fmt.Sprintf("blob-%d-addrs/%s", n, vname)
}

func stBlobDig(to1d *cose.Sign1[protocol.To1d, []byte], ov *fdo.Voucher) string {
	return stDig(append(stMustCBOR(to1d), stMustCBOR(ov)...))
}

// ---------------------------------------------------------------------------------------------------------------
// op descriptors
//
//	n<p>                      NewToken(protocol p)
//	s<tok>.<f>.<vseed>        set field f
//	g<tok>.<f>                get field f
//	i<tok>                    InvalidateToken
//	av<g>.<vseed>             AddVoucher (GUID number g)
//	rv<g>.<g2>.<vseed>        ReplaceVoucher(g, voucher with GUID g2); vseed selects a voucher WITHOUT entries unless e<vseed>
//	dv<g>  qv<g>              RemoveVoucher / Voucher
//	sb<g>.<vseed>.<expclass>  SetRVBlob; expiry class 0: now-3600s 1: now-2s 2: now+3600s 3: now+1s (boundary)
//	qb<g>                     RVBlob
//	W                         sleep until 1.03 s after the last class-3 expiry second (no model op)
//	R0 R1 R2 R3               restart: close+reopen / fresh sqlite.New on the same handle / open a second handle, then close the first /
//	                          switch to a second instance that stays open on the same file (and back at the next R3)
//
// <tok> is the decimal index of an issued token, or x<class>-<base index> for a token the store did not issue.

type stOp struct {
	k     string
	tok   int    // issued index, or -1
	bad   string // class if tok == -1
	base  int    // token to derive a bad token from
	f     int
	vseed int
	g, g2 int
	e     int
	raw   string
}

func stParseTok(s string, o *stOp) error {
	if strings.HasPrefix(s, "x") {
		cls, base, ok := strings.Cut(s[1:], "-")
		if !ok {
			return fmt.Errorf("bad token spec %q", s)
		}
		b, err := strconv.Atoi(base)
		if err != nil {
			return err
		}
		o.tok, o.bad, o.base = -1, cls, b
		return nil
	}
	n, err := strconv.Atoi(s)
	if err != nil {
		return err
	}
	o.tok = n
	return nil
}

func stInts(s string, n int) ([]int, error) {
	parts := strings.Split(s, ".")
	if len(parts) != n {
		return nil, fmt.Errorf("want %d numbers in %q", n, s)
	}
	out := make([]int, n)
	for i, p := range parts {
		v, err := strconv.Atoi(p)
		if err != nil {
			return nil, err
		}
		out[i] = v
	}
	return out, nil
}

func stParseOps(s string) ([]stOp, error) {
	var ops []stOp
	for _, w := range strings.Fields(s) {
		o := stOp{raw: w}
		var err error
		var v []int
		switch {
		case w == "W":
			o.k = "wait"
		case w == "R0" || w == "R1" || w == "R2" || w == "R3":
			o.k, o.e = "restart", int(w[1]-'0')
		case strings.HasPrefix(w, "av"):
			o.k = "addv"
			if v, err = stInts(w[2:], 2); err == nil {
				o.g, o.vseed = v[0], v[1]
			}
		case strings.HasPrefix(w, "rv"):
			o.k = "replv"
			if v, err = stInts(w[2:], 3); err == nil {
				o.g, o.g2, o.vseed = v[0], v[1], v[2]
			}
		case strings.HasPrefix(w, "dv"):
			o.k = "remv"
			if v, err = stInts(w[2:], 1); err == nil {
				o.g = v[0]
			}
		case strings.HasPrefix(w, "qv"):
			o.k = "getv"
			if v, err = stInts(w[2:], 1); err == nil {
				o.g = v[0]
			}
		case strings.HasPrefix(w, "sb"):
			o.k = "setblob"
			if v, err = stInts(w[2:], 3); err == nil {
				o.g, o.vseed, o.e = v[0], v[1], v[2]
			}
		case strings.HasPrefix(w, "qb"):
			o.k = "getblob"
			if v, err = stInts(w[2:], 1); err == nil {
				o.g = v[0]
			}
		case strings.HasPrefix(w, "n"):
			o.k = "new"
			if v, err = stInts(w[1:], 1); err == nil {
				o.f = v[0]
			}
		case strings.HasPrefix(w, "s"):
			o.k = "set"
			parts := strings.SplitN(w[1:], ".", 2)
			if len(parts) != 2 {
				return nil, fmt.Errorf("bad op %q", w)
			}
			if err = stParseTok(parts[0], &o); err == nil {
				if v, err = stInts(parts[1], 2); err == nil {
					o.f, o.vseed = v[0], v[1]
				}
			}
		case strings.HasPrefix(w, "g"):
			o.k = "get"
			parts := strings.SplitN(w[1:], ".", 2)
			if len(parts) != 2 {
				return nil, fmt.Errorf("bad op %q", w)
			}
			if err = stParseTok(parts[0], &o); err == nil {
				if v, err = stInts(parts[1], 1); err == nil {
					o.f = v[0]
				}
			}
		case strings.HasPrefix(w, "i"):
			o.k = "inval"
			err = stParseTok(w[1:], &o)
		default:
			err = fmt.Errorf("unknown op %q", w)
		}
		if err != nil {
			return nil, fmt.Errorf("op %q: %v", w, err)
		}
		if (o.k == "set" || o.k == "get") && (o.f < 0 || o.f >= stNFields) {
			return nil, fmt.Errorf("op %q: no such field", w)
		}
		ops = append(ops, o)
	}
	return ops, nil
}

// ---------------------------------------------------------------------------------------------------------------
// execution

var stFileSeq atomic.Int64

// evaluations that have started and not yet returned (an evaluation abandoned by the 20 s watchdog keeps running)
var stInflight atomic.Int64

// tokens issued by another database file (another secret), made once per process
var (
	stForeignOnce sync.Once
	stForeign     []string
	stForeignErr  error
)

type stRun struct {
	path    string
	db      *sqlite.DB
	extra   []*sqlite.DB // superseded wrappers that still hold a handle to close
	tokens  []string
	hseed   int64
	lastExp int64
	fast    bool
	alt     *sqlite.DB // a second instance on the same file (R3)
}

var stOpenNs, stOpenCount, stOpNs, stOpCount atomic.Int64

func stOpen(path string, fast bool) (*sqlite.DB, error) {
	t0 := time.Now()
	defer func() { stOpenNs.Add(int64(time.Since(t0))); stOpenCount.Add(1) }()
	db, err := sqlite.Open(path, "pw")
	if err != nil {
		return nil, err
	}
	db.DB().SetMaxOpenConns(1)
	if fast { // most of an operation's time is fsync; part of the thorough tier's random histories run without it
		if _, err := db.DB().Exec("PRAGMA synchronous = OFF"); err != nil {
			_ = db.Close()
			return nil, err
		}
	}
	return db, nil
}

func stFlip(tok string, pos int) string {
	if pos >= len(tok) {
		return tok + "A"
	}
	b := []byte(tok)
	if b[pos] == 'A' {
		b[pos] = 'B'
	} else {
		b[pos] = 'A'
	}
	return string(b)
}

// badToken makes a token string of the given class; base is the issued token it is derived from (if any).
func (r *stRun) badToken(cls string, base int, salt int) (string, bool, error) {
	real := ""
	if base >= 0 && base < len(r.tokens) {
		real = r.tokens[base]
	} else if len(r.tokens) > 0 {
		real = r.tokens[len(r.tokens)-1]
	} else {
		real = base64.RawURLEncoding.EncodeToString(stBytes(stRng(r.hseed, salt), 48))
	}
	cut := func(n int) string {
		if len(real) <= n {
			return ""
		}
		return real[:len(real)-n]
	}
	switch cls {
	case "empty":
		return "", true, nil
	case "bang":
		return "!!", true, nil
	case "three":
		return "abc", true, nil
	case "tr1":
		return cut(1), true, nil
	case "tr5":
		return cut(5), true, nil
	case "tr20":
		return cut(20), true, nil
	case "flipid":
		return stFlip(real, 3+salt%15), true, nil
	case "flipmac":
		return stFlip(real, 24+salt%40), true, nil
	case "extra4":
		return real + "AAAA", true, nil
	case "extra1":
		return real + "A", true, nil
	case "pad":
		return real + "=", true, nil
	case "rand48":
		return base64.RawURLEncoding.EncodeToString(stBytes(stRng(r.hseed, salt+77), 48)), true, nil
	case "short12":
		return base64.RawURLEncoding.EncodeToString(stBytes(stRng(r.hseed, salt+78), 12)), true, nil
	case "none":
		return "", false, nil
	case "foreign":
		stForeignOnce.Do(func() {
			path := filepath.Join(WorkDir(), fmt.Sprintf("c18-foreign-%d-%d.db", os.Getpid(), stFileSeq.Add(1)))
			defer os.Remove(path)
			other, err := stOpen(path, false)
			if err != nil {
				stForeignErr = err
				return
			}
			defer other.Close()
			for i := 0; i < 8 && stForeignErr == nil; i++ {
				var t string
				t, stForeignErr = other.NewToken(context.Background(), protocol.Protocol(1+i%4))
				stForeign = append(stForeign, t)
			}
		})
		if stForeignErr != nil {
			return "", true, stForeignErr
		}
		return stForeign[salt%len(stForeign)], true, nil
	}
	return "", true, fmt.Errorf("unknown bad token class %q", cls)
}

func stErrItem(err error) string {
	switch {
	case err == nil:
		return " ok"
	case errors.Is(err, fdo.ErrNotFound):
		return " nf"
	case errors.Is(err, fdo.ErrInvalidSession):
		return " inv"
	default:
		return " err"
	}
}

// StoreLastErrors keeps the texts of "other" errors of the last evaluation (diagnostic only).
var StoreLastErrors []string

// StoreLastSecretRows is the number of rows of the secrets table at the end of the last evaluation (diagnostic only).
var StoreLastSecretRows int

func runStoreHistory(p core.Params) (string, string) {
	ops, err := stParseOps(p["ops"])
	if err != nil {
		return "store.history ()", "err-harness " + err.Error()
	}
	hseed, _ := strconv.ParseInt(p["seed"], 10, 64)
	lineOnly := p["lineonly"] != ""
	pool := stPool()
	if pool.err != nil {
		return "store.history ()", "err-harness " + pool.err.Error()
	}
	r := &stRun{hseed: hseed, fast: p["fast"] != ""}
	if !lineOnly {
		stInflight.Add(1)
		defer stInflight.Add(-1)
		r.path = filepath.Join(WorkDir(), fmt.Sprintf("c18-%d-%d.db", os.Getpid(), stFileSeq.Add(1)))
		_ = os.Remove(r.path)
		db, err := stOpen(r.path, r.fast)
		if err != nil {
			return "store.history ()", "err-harness open: " + err.Error()
		}
		r.db = db
		defer func() {
			for _, x := range r.extra {
				_ = x.Close()
			}
			if r.db != nil {
				_ = r.db.Close()
			}
			if r.alt != nil {
				_ = r.alt.Close()
			}
			for _, suf := range []string{"", "-journal", "-wal", "-shm"} {
				_ = os.Remove(r.path + suf)
			}
		}()
	}
	StoreLastErrors = nil
	var line, impl strings.Builder
	line.WriteString("store.history (")
	impl.WriteString("ok")
	first := true
	emit := func(s string) {
		if !first {
			line.WriteByte(' ')
		}
		first = false
		line.WriteString(s)
	}
	bg := context.Background()
	nIssued := 0 // tokens issued according to the line (also in lineonly mode)
	for i, o := range ops {
		op := o
		if op.k == "wait" {
			if !lineOnly && r.lastExp != 0 {
				until := time.Unix(r.lastExp+1, 30_000_000)
				if d := time.Until(until); d > 0 && d < 10*time.Second {
					time.Sleep(d)
				}
			}
			continue
		}
		// the model line of this op and the action
		var item string
		act := func() string { return "" }
		tokZ := func() string {
			if op.tok < 0 {
				return "z:-1"
			}
			return "z:" + zhex(int64(op.tok))
		}
		ctxOf := func() (context.Context, string, error) {
			if op.tok >= 0 {
				if op.tok >= len(r.tokens) {
					return nil, "", fmt.Errorf("token %d not issued", op.tok)
				}
				return r.db.TokenContext(bg, r.tokens[op.tok]), r.tokens[op.tok], nil
			}
			t, has, err := r.badToken(op.bad, op.base, i)
			if err != nil {
				return nil, "", err
			}
			if !has {
				return bg, "", nil
			}
			return r.db.TokenContext(bg, t), t, nil
		}
		switch op.k {
		case "new":
			item = fmt.Sprintf("(new n:%x)", op.f)
			idx := nIssued
			nIssued++
			act = func() string {
				t, err := r.db.NewToken(bg, protocol.Protocol(op.f))
				if err != nil {
					r.tokens = append(r.tokens, "")
					StoreLastErrors = append(StoreLastErrors, op.raw+": "+err.Error())
					return stErrItem(err)
				}
				r.tokens = append(r.tokens, t)
				return " t" + zhex(int64(idx))
			}
		case "set":
			if op.tok >= nIssued {
				return "store.history ()", "err-harness token not issued in " + op.raw
			}
			v := stValue(op.f, hseed, op.vseed)
			item = fmt.Sprintf("(set %s n:%x b:%s)", tokZ(), op.f, v.dig)
			act = func() string {
				ctx, _, err := ctxOf()
				if err != nil {
					return " harness-error:" + err.Error()
				}
				err = v.write(ctx, r.db)
				if err != nil && stErrItem(err) == " err" {
					StoreLastErrors = append(StoreLastErrors, op.raw+": "+err.Error())
				}
				return stErrItem(err)
			}
		case "get":
			if op.tok >= nIssued {
				return "store.history ()", "err-harness token not issued in " + op.raw
			}
			item = fmt.Sprintf("(get %s n:%x)", tokZ(), op.f)
			act = func() string {
				ctx, tok, err := ctxOf()
				if err != nil {
					return " harness-error:" + err.Error()
				}
				d, err := stRead(ctx, r.db, op.f, tok)
				if err != nil {
					if stErrItem(err) == " err" {
						StoreLastErrors = append(StoreLastErrors, op.raw+": "+err.Error())
					}
					return stErrItem(err)
				}
				return " v:" + d
			}
		case "inval":
			if op.tok >= nIssued {
				return "store.history ()", "err-harness token not issued in " + op.raw
			}
			item = fmt.Sprintf("(inval %s)", tokZ())
			act = func() string {
				ctx, _, err := ctxOf()
				if err != nil {
					return " harness-error:" + err.Error()
				}
				err = r.db.InvalidateToken(ctx)
				if err != nil && stErrItem(err) == " err" {
					StoreLastErrors = append(StoreLastErrors, op.raw+": "+err.Error())
				}
				return stErrItem(err)
			}
		case "addv":
			g := stGUIDOf(hseed, op.g)
			ov, _ := stVoucher(hseed, g, op.vseed)
			item = fmt.Sprintf("(addv b:%x b:%s)", g[:], stVoucherDig(ov))
			act = func() string {
				err := r.db.AddVoucher(bg, ov)
				if err != nil && stErrItem(err) == " err" {
					StoreLastErrors = append(StoreLastErrors, op.raw+": "+err.Error())
				}
				return stErrItem(err)
			}
		case "replv":
			g, g2 := stGUIDOf(hseed, op.g), stGUIDOf(hseed, op.g2)
			ov, _ := stVoucher(hseed, g2, op.vseed)
			item = fmt.Sprintf("(replv b:%x b:%x b:%s)", g[:], g2[:], stVoucherDig(ov))
			act = func() string {
				err := r.db.ReplaceVoucher(bg, g, ov)
				if err != nil && stErrItem(err) == " err" {
					StoreLastErrors = append(StoreLastErrors, op.raw+": "+err.Error())
				}
				return stErrItem(err)
			}
		case "remv", "getv":
			g := stGUIDOf(hseed, op.g)
			item = fmt.Sprintf("(%s b:%x)", op.k, g[:])
			act = func() string {
				var ov *fdo.Voucher
				var err error
				if op.k == "remv" {
					ov, err = r.db.RemoveVoucher(bg, g)
				} else {
					ov, err = r.db.Voucher(bg, g)
				}
				if err != nil {
					if stErrItem(err) == " err" {
						StoreLastErrors = append(StoreLastErrors, op.raw+": "+err.Error())
					}
					return stErrItem(err)
				}
				return " v:" + stVoucherDig(ov)
			}
		case "setblob":
			g := stGUIDOf(hseed, op.g)
			ov, to1d, _ := stBlob(hseed, g, op.vseed)
			now := time.Now()
			var sec int64
			switch op.e {
			case 0:
				sec = now.Unix() - 3600
			case 1:
				sec = now.Unix() - 2
			case 2:
				sec = now.Unix() + 3600
			default:
				sec = now.Unix() + 1
				r.lastExp = sec
			}
			// the store keeps whole seconds: hand it a time with a sub-second part, the model gets exp.Unix()
			exp := time.Unix(sec, int64(op.vseed%1000)*999_999)
			item = fmt.Sprintf("(setblob b:%x b:%s z:%s)", g[:], stBlobDig(to1d, ov), zhex(exp.Unix()))
			act = func() string {
				err := r.db.SetRVBlob(bg, ov, to1d, exp)
				if err != nil && stErrItem(err) == " err" {
					StoreLastErrors = append(StoreLastErrors, op.raw+": "+err.Error())
				}
				return stErrItem(err)
			}
		case "getblob":
			g := stGUIDOf(hseed, op.g)
			item = fmt.Sprintf("(getblob b:%x z:%s)", g[:], zhex(time.Now().UnixMilli()))
			act = func() string {
				to1d, ov, err := r.db.RVBlob(bg, g)
				if err != nil {
					if stErrItem(err) == " err" {
						StoreLastErrors = append(StoreLastErrors, op.raw+": "+err.Error())
					}
					return stErrItem(err)
				}
				return " v:" + stBlobDig(to1d, ov)
			}
		case "restart":
			item = "(restart)"
			act = func() string {
				switch op.e {
				case 1: // a fresh server object over the same database handle
					r.db = sqlite.New(r.db.DB())
				case 3: // two instances stay open on the same file; every R3 hands the conversation to the other one
					if r.alt == nil {
						nd, err := stOpen(r.path, r.fast)
						if err != nil {
							StoreLastErrors = append(StoreLastErrors, op.raw+": "+err.Error())
							return " err"
						}
						r.alt = nd
					}
					r.db, r.alt = r.alt, r.db
				case 2: // another instance opens the file while the first is still open; the first then goes away
					nd, err := stOpen(r.path, r.fast)
					if err != nil {
						StoreLastErrors = append(StoreLastErrors, op.raw+": "+err.Error())
						return " err"
					}
					old := r.db
					r.db = nd
					if err := old.Close(); err != nil {
						StoreLastErrors = append(StoreLastErrors, op.raw+": close: "+err.Error())
						return " err"
					}
				default:
					if err := r.db.Close(); err != nil {
						StoreLastErrors = append(StoreLastErrors, op.raw+": close: "+err.Error())
						return " err"
					}
					nd, err := stOpen(r.path, r.fast)
					if err != nil {
						r.db = nil
						StoreLastErrors = append(StoreLastErrors, op.raw+": "+err.Error())
						return " err"
					}
					r.db = nd
				}
				return " ok"
			}
		}
		emit(item)
		if lineOnly {
			continue
		}
		if r.db == nil {
			impl.WriteString(" harness-error:no-db")
			continue
		}
		res := func() (s string) {
			t0 := time.Now()
			defer func() {
				stOpNs.Add(int64(time.Since(t0)))
				stOpCount.Add(1)
				if rec := recover(); rec != nil {
					core.PanicText = fmt.Sprint(rec)
					if strings.HasPrefix(core.PanicText, "harness:") {
						s = " harness-error:" + core.PanicText
					} else {
						s = " panic"
					}
				}
			}()
			return act()
		}()
		impl.WriteString(res)
	}
	StoreLastSecretRows = -1
	if !lineOnly && r.db != nil {
		func() {
			defer func() { _ = recover() }()
			_ = r.db.DB().QueryRow("SELECT COUNT(*) FROM secrets").Scan(&StoreLastSecretRows)
		}()
	}
	line.WriteString(")")
	return line.String(), impl.String()
}

func registerStoreKinds(c *core.Ctx) {
	c.Register(&core.Kind{Name: "store.history", Eval: runStoreHistory})
}

// ---------------------------------------------------------------------------------------------------------------
// generators, monitors

var stProtoFields = map[int][]int{1: {0, 1, 2}, 2: {3}, 3: {4}, 4: {5, 6, 7, 8, 9, 10, 11, 12, 13}}

func clipStr(s string, n int) string {
	if len(s) > n {
		return s[:n]
	}
	return s
}

func stSplitLine(line string) []string {
	s := strings.TrimPrefix(line, "store.history (")
	s = strings.TrimSuffix(s, ")")
	if s == "" {
		return nil
	}
	s = strings.TrimPrefix(s, "(")
	s = strings.TrimSuffix(s, ")")
	return strings.Split(s, ") (")
}

func stItems(s string) []string {
	f := strings.Fields(s)
	if len(f) == 0 {
		return nil
	}
	return f[1:]
}

func stAbs(item string) string {
	if strings.HasPrefix(item, "v:") {
		return "v"
	}
	if strings.HasPrefix(item, "t") {
		return "t"
	}
	return item
}

// stCheck runs one history, compares item by item and runs the monitors.
func stCheck(c *core.Ctx, ops string, hseed int64, meta string) core.Obs {
	p := core.Params{"ops": ops, "seed": fmt.Sprint(hseed)}
	if strings.HasSuffix(meta, "/nosync") {
		p["fast"] = "1"
	}
	parsed, _ := stParseOps(ops)
	for _, o := range parsed {
		c.Count("op", o.k)
		switch o.k {
		case "set":
			c.Count("field_set", fmt.Sprintf("%02d %s", o.f, stFieldNames[o.f]))
			c.Count("value_shape", fmt.Sprintf("%02d %s", o.f, stValue(o.f, hseed, o.vseed).shape))
		case "get":
			c.Count("field_get", fmt.Sprintf("%02d %s", o.f, stFieldNames[o.f]))
		case "new":
			c.Count("protocol", protocol.Protocol(o.f).String())
		case "restart":
			c.Count("restart_mode", []string{"close+reopen", "fresh-object-same-handle", "second-handle-then-close-first", "switch-between-two-open-instances"}[o.e])
		case "addv", "replv":
			_, n := stVoucher(hseed, protocol.GUID{}, o.vseed)
			c.Count("voucher_shape", n)
		case "setblob":
			c.Count("blob_expiry", []string{"now-3600s", "now-2s", "now+3600s", "now+1s then wait"}[o.e])
		}
		if (o.k == "set" || o.k == "get" || o.k == "inval") && o.tok < 0 {
			c.Count("bad_token_class", o.bad+"/"+o.k)
		}
	}
	o := c.Do("store.history", p, meta)
	if o.Timeout {
		// under heavy I/O load a history can exceed the watchdog without anything being stuck: run it once more; the
		// runner checks at the end that the abandoned evaluation did return
		c.Count("watchdog", "exceeded 20 s, retried")
		if n := len(c.Rep.Disagreements); n > 0 && c.Rep.Disagreements[n-1].Impl == "hang" {
			c.Rep.Disagreements = c.Rep.Disagreements[:n-1]
		}
		p["retry"] = "1"
		o = c.Do("store.history", p, meta+"/retry")
	}
	if o.Model != "" && o.Model != o.Impl {
		c.Count("disagreements_by_generator", meta)
	}
	for _, e := range StoreLastErrors {
		opw, text, _ := strings.Cut(e, ": ")
		kind := strings.TrimRight(strings.SplitN(opw, ".", 2)[0], "0123456789-")
		if i := strings.IndexAny(opw, "0123456789x"); i > 0 {
			kind = opw[:i]
		}
		if kind == "s" {
			if q, err := stParseOps(opw); err == nil && len(q) == 1 {
				kind = "set " + stFieldNames[q[0].f]
			}
		}
		c.Count("other_error_text", kind+": "+clipStr(text, 110))
	}
	if strings.HasPrefix(o.Impl, "err-harness") || strings.Contains(o.Impl, "harness-error") {
		c.Fail("harness", o.Impl, "store.history", p, o)
		return o
	}
	if o.Timeout {
		c.Fail("hang@store", "history exceeded the watchdog twice", "store.history", p, o)
		return o
	}
	if strings.HasPrefix(o.Impl, "panic") {
		c.Fail("panic@store", "whole history: "+o.Impl+" "+core.PanicText, "store.history", p, o)
		return o
	}
	lops := stSplitLine(o.Line)
	im, mo := stItems(o.Impl), stItems(o.Model)
	if n := StoreLastSecretRows; n >= 0 {
		nTokOps := 0
		for _, q := range parsed {
			if q.k == "new" || q.k == "set" || q.k == "get" || q.k == "inval" {
				nTokOps++
			}
		}
		switch {
		case n <= 1:
			c.Count("secrets_table_rows", "at most 1")
		case n >= nTokOps:
			c.Count("secrets_table_rows", "one (or more) per token operation")
		default:
			c.Count("secrets_table_rows", "between")
		}
	}
	c.Count("history_length", fmt.Sprintf("%02d-%02d", len(lops)/10*10, len(lops)/10*10+9))
	if len(im) != len(lops) {
		c.Fail("harness", fmt.Sprintf("%d ops but %d results", len(lops), len(im)), "store.history", p, o)
		return o
	}
	lastBlob := map[string][2]string{}
	written := map[string]map[string]bool{} // token -> digests written through it
	firedOverwrite := false
	chainSets := map[string][]string{} // live token -> digests of the successful SetDeviceCertChain calls, in order
	dead := map[string]bool{}
	firstDev := true
	for i, lop := range lops {
		w := strings.Fields(lop)
		res := im[i]
		if res == "panic" {
			c.Fail("panic@store", fmt.Sprintf("op %d %s: %s", i, lop, core.PanicText), "store.history", p, o)
		}
		tokState := ""
		if len(w) > 1 && strings.HasPrefix(w[1], "z:") && (w[0] == "set" || w[0] == "get" || w[0] == "inval") {
			switch {
			case w[1] == "z:-1":
				tokState = "bad"
			case dead[w[1]]:
				tokState = "dead"
			default:
				tokState = "live"
			}
		}
		// a token the store issued and nobody invalidated must keep working, also after every kind of restart
		if (w[0] == "set" || w[0] == "get" || w[0] == "inval") && tokState == "live" && res == "inv" {
			c.Fail("live-token-refused", fmt.Sprintf("op %d %s -> %s: the store issued this token and it was never invalidated", i, lop, res), "store.history", p, o)
		}
		switch w[0] {
		case "setblob":
			if res == "ok" && len(w) >= 4 {
				lastBlob[w[1]] = [2]string{strings.TrimPrefix(w[2], "b:"), w[3]}
			}
		case "getblob":
			if lb, ok := lastBlob[w[1]]; ok && strings.HasPrefix(res, "v:") && res[2:] != lb[0] {
				c.Fail("blob-not-the-latest", fmt.Sprintf("op %d %s returned %s, the last registration for this GUID stored %s", i, lop, res, lb[0]), "store.history", p, o)
			}
		case "set":
			if tokState == "bad" && res == "ok" {
				c.Fail("bad-token-granted", fmt.Sprintf("op %d %s -> %s", i, lop, res), "store.history", p, o)
			}
			if res == "ok" {
				// (a set through an invalidated token that answers ok is a deviation from the model; whether it granted
				// anything is decided by the reads below)
				if written[w[1]] == nil {
					written[w[1]] = map[string]bool{}
				}
				written[w[1]][strings.TrimPrefix(w[3], "b:")] = true
				if tokState == "live" && w[2] == "n:0" {
					chainSets[w[1]] = append(chainSets[w[1]], strings.TrimPrefix(w[3], "b:"))
				}
			}
		case "get":
			if strings.HasPrefix(res, "v:") {
				if tokState != "live" {
					c.Fail(tokState+"-token-granted", fmt.Sprintf("op %d %s -> %s", i, lop, res), "store.history", p, o)
				}
				d := res[2:]
				if cs := chainSets[w[1]]; w[2] == "n:0" && tokState == "live" && len(cs) >= 2 && d == cs[0] && cs[len(cs)-1] != cs[0] {
					const sig = "overwrite-keeps-first-value:devcertchain"
					if firedOverwrite {
						// one report per history
					} else if firedOverwrite = true; c.Rep.Hist["failure_signature"][sig] < 3 {
						c.Fail(sig, fmt.Sprintf("op %d %s returned the chain of the first SetDeviceCertChain (%s) although %d later calls in the same session "+
							"answered without error (last wrote %s): SetDeviceCertChain is a plain INSERT into device_info, DeviceCertChain reads the oldest row",
							i, lop, cs[0], len(cs)-1, cs[len(cs)-1]), "store.history", p, o)
					} else {
						c.Count("overwrite_keeps_first_value_devcertchain", "further occurrences (not listed as failures)")
					}
				}
				if !written[w[1]][d] {
					for t, ds := range written {
						if t != w[1] && ds[d] {
							c.Fail("value-leaked-across-tokens", fmt.Sprintf("op %d %s returned %s, written only through %s", i, lop, d, t), "store.history", p, o)
							break
						}
					}
				}
			}
		case "inval":
			if tokState == "bad" && res == "ok" {
				c.Fail("bad-token-granted", fmt.Sprintf("op %d %s -> %s", i, lop, res), "store.history", p, o)
			}
			if tokState == "live" && res == "ok" {
				dead[w[1]] = true
			}
		}
		if i < len(mo) && mo[i] != res {
			key := w[0]
			if w[0] == "set" || w[0] == "get" {
				f, _ := strconv.ParseInt(strings.TrimPrefix(w[2], "n:"), 16, 32)
				key += fmt.Sprintf(" f%02d", f)
			}
			if tokState != "" {
				key += " tok=" + tokState
			}
			key += " model=" + stAbs(mo[i]) + " impl=" + stAbs(res)
			c.Count("deviation", key)
			if firstDev {
				c.Count("first_deviation", key)
				firstDev = false
			}
		}
	}
	return o
}

type stGen struct {
	r      *mrand.Rand
	ops    []string
	protos []int
	live   []bool
	setF   [][]int // fields set per token
}

func (g *stGen) add(s string) { g.ops = append(g.ops, s) }
func (g *stGen) nextV() int   { return g.r.Intn(1 << 20) }
func (g *stGen) newTok(p int) {
	g.add(fmt.Sprint("n", p))
	g.protos = append(g.protos, p)
	g.live = append(g.live, true)
	g.setF = append(g.setF, nil)
}
func (g *stGen) anyTok() int { return g.r.Intn(len(g.protos)) }
func (g *stGen) liveTok() int {
	var l []int
	for i, a := range g.live {
		if a {
			l = append(l, i)
		}
	}
	if len(l) == 0 {
		return -1
	}
	return l[g.r.Intn(len(l))]
}
func (g *stGen) deadTok() int {
	var l []int
	for i, a := range g.live {
		if !a {
			l = append(l, i)
		}
	}
	if len(l) == 0 {
		return -1
	}
	return l[g.r.Intn(len(l))]
}
func (g *stGen) badSpec() string {
	return fmt.Sprintf("x%s-%d", stBadClasses[g.r.Intn(len(stBadClasses))], g.anyTok())
}

// stRandomHistory: everything the reference model covers, including the store's quirks it models (invalidated tokens,
// repeated SetDeviceCertChain / SetIncompleteVoucherHeader, SetDeviceSelfInfo without a chain, replacing absent
// vouchers). Outside the model's domain and not generated: ReplaceVoucher with a voucher that has entries.
func stRandomHistory(r *mrand.Rand) string {
	g := &stGen{r: r}
	nTok := 3 + r.Intn(4)
	nOps := 20 + r.Intn(61)
	g.newTok(1 + r.Intn(4))
	pendingNew := nTok - 1
	nGuid := 4
	vLive := map[int]bool{} // vouchers believed present
	for len(g.ops) < nOps {
		if pendingNew > 0 && r.Intn(nOps/3/nTok+1) == 0 {
			g.newTok(1 + r.Intn(4))
			pendingNew--
			continue
		}
		x := r.Intn(100)
		switch {
		case x < 40: // set
			t := g.liveTok()
			if r.Intn(10) == 0 {
				if d := g.deadTok(); d >= 0 {
					t = d
				}
			}
			if t < 0 {
				g.newTok(1 + r.Intn(4))
				continue
			}
			var f int
			if pf := stProtoFields[g.protos[t]]; r.Intn(5) > 0 {
				f = pf[r.Intn(len(pf))]
			} else {
				f = r.Intn(stNFields)
			}
			g.add(fmt.Sprintf("s%d.%d.%d", t, f, g.nextV()))
			if g.live[t] {
				g.setF[t] = append(g.setF[t], f)
			}
		case x < 70: // get
			t := g.liveTok()
			if r.Intn(10) == 0 {
				if d := g.deadTok(); d >= 0 {
					t = d
				}
			}
			if t < 0 {
				continue
			}
			f := r.Intn(stNFields)
			if len(g.setF[t]) > 0 && r.Intn(10) < 7 {
				f = g.setF[t][r.Intn(len(g.setF[t]))]
			}
			g.add(fmt.Sprintf("g%d.%d", t, f))
		case x < 75: // inval
			t := g.liveTok()
			if r.Intn(5) == 0 {
				if d := g.deadTok(); d >= 0 {
					t = d
				}
			}
			if t < 0 {
				continue
			}
			g.add(fmt.Sprint("i", t))
			g.live[t] = false
			g.setF[t] = nil
		case x < 80: // new
			if len(g.protos) < 9 {
				g.newTok(1 + r.Intn(4))
			}
		case x < 85:
			g.add(fmt.Sprint("R", r.Intn(4)))
		case x < 95: // vouchers and blobs
			gn := r.Intn(nGuid)
			switch r.Intn(8) {
			case 0, 1:
				g.add(fmt.Sprintf("av%d.%d", gn, g.nextV()))
				vLive[gn] = true
			case 2:
				g2 := r.Intn(nGuid)
				if r.Intn(10) < 6 { // mostly: replace a voucher that is there (the protocol's use)
					var present []int
					for k := 0; k < nGuid; k++ {
						if vLive[k] {
							present = append(present, k)
						}
					}
					if len(present) > 0 {
						gn = present[r.Intn(len(present))]
					}
				}
				v := g.nextV()
				v = v - v%stNVoucherShapes + []int{0, 4, 8, 9}[r.Intn(4)] // a voucher without entries (ReplaceVoucher's precondition)
				g.add(fmt.Sprintf("rv%d.%d.%d", gn, g2, v))
				if vLive[gn] && !vLive[g2] {
					vLive[gn], vLive[g2] = false, true
				}
			case 3:
				g.add(fmt.Sprint("dv", gn))
				vLive[gn] = false
			case 4:
				g.add(fmt.Sprint("qv", gn))
			case 5:
				g.add(fmt.Sprintf("sb%d.%d.%d", gn, g.nextV(), r.Intn(3)))
			default:
				g.add(fmt.Sprint("qb", gn))
			}
		default: // bad tokens
			switch r.Intn(5) {
			case 0, 1:
				g.add(fmt.Sprintf("s%s.%d.%d", g.badSpec(), r.Intn(stNFields), g.nextV()))
			case 2, 3:
				g.add(fmt.Sprintf("g%s.%d", g.badSpec(), r.Intn(stNFields)))
			default:
				g.add("i" + g.badSpec())
			}
		}
	}
	// closing sweep: read a few fields through every token after a restart
	g.add(fmt.Sprint("R", r.Intn(4)))
	for t := range g.protos {
		for _, f := range g.setF[t] {
			if r.Intn(2) == 0 {
				g.add(fmt.Sprintf("g%d.%d", t, f))
			}
		}
		g.add(fmt.Sprintf("g%d.%d", t, r.Intn(stNFields)))
	}
	return strings.Join(g.ops, " ")
}

// RunC18: random and systematic histories against the reference model.
func RunC18(c *core.Ctx) {
	registerStoreKinds(c)
	registerTokenKind(c)
	doTokenCases(c)
	c.Rep.Rule = "a case is one history of store operations; the implementation's result items must equal the reference model's item by item. " +
		"generators: systematic per-field scenarios (isolation, restart, invalidation, overwrite, foreign-protocol token, every value shape), every bad-token " +
		"class, voucher and blob scenarios incl. expiry boundary; random histories of all operations over 3-9 tokens. " +
		"monitor overwrite-keeps-first-value:devcertchain: a second successful SetDeviceCertChain in a live session after which the first chain is still read. " +
		" non-trivial = history executed; distinct = distinct (ops, seed)"
	c.Trivial = func(o core.Obs) bool { return !strings.HasPrefix(o.Impl, "ok") }
	if p := stPool(); p.err != nil {
		c.Fail("harness", p.err.Error(), "store.history", core.Params{}, core.Obs{})
		return
	}
	if os.Getenv("VERIF_C18_PART") == "conc" { // development aid (the check never sets it): store_conc.go alone
		stConcurrent(c)
		stDIRestart(c)
		return
	}
	t0 := time.Now()
	hs := c.Seed * 1000
	next := func() int64 { hs++; return hs }
	quick := c.Quick()

	// --- systematic, per field
	for f := 0; f < stNFields; f++ {
		pre := ""
		if f == 1 {
			pre = "s0.0.1 "
		}
		pre1 := ""
		if f == 1 {
			pre1 = "s1.0.2 "
		}
		pf := 4
		for p, fs := range stProtoFields {
			for _, x := range fs {
				if x == f {
					pf = p
				}
			}
		}
		// isolation: the other live token sees nothing
		stCheck(c, fmt.Sprintf("n%d n%d %ss0.%d.11 g1.%d g0.%d %ss1.%d.12 g0.%d g1.%d", pf, pf, pre, f, f, f, pre1, f, f, f), next(), "sys/isolation")
		// restart, every mode
		stCheck(c, fmt.Sprintf("n%d %ss0.%d.21 R0 g0.%d R1 g0.%d R2 g0.%d R0 R0 g0.%d R3 g0.%d n%d %ss1.%d.22 R3 g1.%d g0.%d R3 g1.%d R0 g1.%d", pf, pre, f, f, f, f, f, f, pf, pre1, f, f, f, f, f), next(), "sys/restart")
		// invalidation
		stCheck(c, fmt.Sprintf("n%d n%d %ss0.%d.31 %ss1.%d.32 i0 g0.%d g1.%d R0 g0.%d g1.%d", pf, pf, pre, f, pre1, f, f, f, f, f), next(), "sys/invalidate-then-get")
		stCheck(c, fmt.Sprintf("n%d n%d %ss0.%d.31 i0 s0.%d.33 g0.%d", pf, pf, pre, f, f, f), next(), "sys/invalidate-then-set")
		stCheck(c, fmt.Sprintf("n%d i0 i0 g0.%d", pf, f), next(), "sys/invalidate-twice")
		// overwrite
		stCheck(c, fmt.Sprintf("n%d %ss0.%d.41 s0.%d.42 g0.%d s0.%d.43 g0.%d R0 g0.%d", pf, pre, f, f, f, f, f, f), next(), "sys/overwrite")
		// never set
		stCheck(c, fmt.Sprintf("n%d g0.%d R0 g0.%d", pf, f, f), next(), "sys/never-set")
		// a token of every protocol (0 = unknown .. 5 = any) carries the field
		{
			var sb strings.Builder
			sb.WriteString("n0 n1 n2 n3 n4 n5")
			for t := 0; t < 6; t++ {
				if f == 1 {
					fmt.Fprintf(&sb, " s%d.0.%d", t, 50+t)
				}
				fmt.Fprintf(&sb, " s%d.%d.%d g%d.%d", t, f, 60+t, t, f)
			}
			for t := 0; t < 6; t++ {
				fmt.Fprintf(&sb, " g%d.%d", t, f)
			}
			stCheck(c, sb.String(), next(), "sys/other-protocol")
		}
		// every value shape (three times in thorough: other contents), five per history through separate tokens
		reps := 1
		if !quick {
			reps = 3
		}
		for rep := 0; rep < reps; rep++ {
			for s0 := 0; s0 < stNShapes[f]; s0 += 5 {
				var sets, gets strings.Builder
				news := ""
				for k := 0; k < 5 && s0+k < stNShapes[f]; k++ {
					news += fmt.Sprintf("n%d ", pf)
					if f == 1 {
						fmt.Fprintf(&sets, "s%d.0.%d ", k, k)
					}
					fmt.Fprintf(&sets, "s%d.%d.%d ", k, f, s0+k+rep*stNShapes[f]*(1+rep))
					fmt.Fprintf(&gets, "g%d.%d ", k, f)
				}
				stCheck(c, news+sets.String()+gets.String()+"R0 "+gets.String(), next(), "sys/shape")
			}
		}
		// bad tokens never reach the value; the value survives
		{
			var sb strings.Builder
			fmt.Fprintf(&sb, "n%d n%d %ss0.%d.61", pf, pf, pre, f)
			for _, cls := range stBadClasses {
				fmt.Fprintf(&sb, " gx%s-0.%d sx%s-0.%d.62 ix%s-0", cls, f, cls, f, cls)
			}
			fmt.Fprintf(&sb, " g0.%d g1.%d", f, f)
			stCheck(c, sb.String(), next(), "sys/bad-token-all-classes")
		}
		if !quick {
			for _, cls := range stBadClasses {
				stCheck(c, fmt.Sprintf("n%d n%d %ss0.%d.61 gx%s-0.%d sx%s-0.%d.62 g0.%d ix%s-0 g0.%d R0 gx%s-0.%d g0.%d", pf, pf, pre, f, cls, f, cls, f, f, cls, f, cls, f, f), next(), "sys/bad-token")
			}
		}
	}
	stCheck(c, "n1 s0.1.71 g0.1 s0.0.72 g0.1 g0.0", next(), "sys/selfinfo-before-chain")
	stCheck(c, "n1 s0.0.73 s0.1.74 g0.1 g0.0 R0 g0.1 g0.0", next(), "sys/selfinfo-after-chain")
	// values outside what the protocol produces
	for _, e := range []struct{ f, k int }{{0, 0}, {6, 0}} {
		pf := 4
		if e.f == 0 {
			pf = 1
		}
		stCheck(c, fmt.Sprintf("n%d s0.%d.%d g0.%d R0 g0.%d", pf, e.f, stEdge+e.k, e.f, e.f), next(), "sys/edge-value")
	}
	// fields sharing a table row are independent
	stCheck(c, "n4 s0.5.1 s0.6.2 s0.10.3 s0.11.4 s0.12.5 s0.13.6 s0.7.7 s0.8.8 s0.9.9 g0.5 g0.6 g0.10 g0.11 g0.12 g0.13 g0.7 g0.8 g0.9 R0 g0.5 g0.6 g0.10 g0.11 g0.12 g0.13 g0.7 g0.8 g0.9", next(), "sys/to2-all-fields")
	stCheck(c, "n4 s0.12.5 g0.5 g0.6 g0.10 g0.11 g0.13 g0.12", next(), "sys/to2-row-exists-other-columns-null")
	stCheck(c, "n4 s0.7.5 g0.8 s0.8.1 g0.7 g0.8", next(), "sys/replacement-row")

	// --- vouchers
	for i, h := range []string{
		"av0.0 qv0 R0 qv0 dv0 qv0 dv0",
		"av0.1 av0.2 qv0",
		"av0.3 rv0.1.0 qv0 qv1 R0 qv0 qv1",
		"av0.3 av1.2 rv0.1.0 qv0 qv1",
		"av0.5 rv0.0.4 qv0",
		"rv0.1.0 qv0 qv1",
		"av0.6 av1.7 av2.9 av3.10 qv0 qv1 qv2 qv3 R2 dv1 qv0 qv1 qv2 qv3",
		"qv0 dv0 R0 qv0",
		"av0.11 R1 rv0.1.8 R0 rv1.2.9 R2 rv2.3.0 qv0 qv1 qv2 qv3",
		"rv0.0.0 qv0 av0.1 qv0", // replace an absent voucher by one with the same GUID
	} {
		stCheck(c, h, next(), fmt.Sprint("sys/voucher-", i))
	}
	for s := 0; s < stNVoucherShapes*6; s++ {
		if quick && s%3 != 0 {
			continue
		}
		stCheck(c, fmt.Sprintf("av0.%d qv0 R0 qv0 dv0", s), next(), "sys/voucher-shape")
	}
	// --- blobs
	for i, h := range []string{
		"qb0 sb0.1.2 qb0 R0 qb0 qb1",
		"sb0.1.0 qb0",
		"sb0.2.1 qb0 R0 qb0",
		"sb0.3.2 sb0.4.2 qb0 sb0.5.0 qb0 sb0.6.2 qb0",
		"sb0.7.2 sb1.8.1 sb2.9.2 qb0 qb1 qb2 R2 qb0 qb1 qb2",
		"sb0.1000.2 sb0.999.1 qb0 sb0.1998.2 qb0",
	} {
		stCheck(c, h, next(), fmt.Sprint("sys/blob-", i))
	}
	nb := 2
	if !quick {
		nb = 20
	}
	for i := 0; i < nb; i++ {
		h := fmt.Sprintf("sb0.%d.3 qb0 W qb0 R0 qb0", 100+i*37)
		if i%2 == 1 {
			h = fmt.Sprintf("sb0.%d.2 sb0.%d.3 R0 W qb0", i, 100+i*37)
		}
		stCheck(c, h, next(), "sys/blob-expiry-boundary")
	}
	c.Note("systematic part: %d histories in %.1fs", c.Rep.Evaluations, time.Since(t0).Seconds())

	// --- random histories
	n := 160
	if !quick {
		n = 5200
	}
	box := 55 * time.Second // quick tier: whole run within a minute
	if !quick {
		box = 0
		if v, err := strconv.Atoi(os.Getenv("C18_TIMEBOX_S")); err == nil && v > 0 {
			box = time.Duration(v) * time.Second
		}
	}
	t1 := time.Now()
	for i := 0; i < n; i++ {
		meta := "random"
		if !quick && i%2 == 1 {
			meta += "/nosync"
		}
		stCheck(c, stRandomHistory(c.Rng), next(), meta)
		if box > 0 && time.Since(t0) > box {
			c.Note("time box (%v) reached after %d random histories", box, i+1)
			break
		}
	}
	c.Note("random part: %.1fs", time.Since(t1).Seconds())
	// --- every key exchange suite x cipher suite: the stored session works after it was read back (store_more.go)
	stxMatrix(c)
	// --- concurrent use with sqlite.Open's own settings; DI continued on another instance (store_conc.go)
	stConcurrent(c)
	stDIRestart(c)
	if n := stOpenCount.Load(); n > 0 && stOpCount.Load() > 0 {
		c.Note("timing: %d database opens, %.1f ms each; %d operations (incl. restarts), %.2f ms each", n, float64(stOpenNs.Load())/float64(n)/1e6,
			stOpCount.Load(), float64(stOpNs.Load())/float64(stOpCount.Load())/1e6)
	}
	if c.Rep.Hist["watchdog"] != nil {
		for i := 0; i < 90 && stInflight.Load() > 0; i++ {
			time.Sleep(time.Second)
		}
		if n := stInflight.Load(); n > 0 {
			c.Fail("hang@store", fmt.Sprintf("%d evaluations never returned", n), "store.history", core.Params{}, core.Obs{})
		} else {
			c.Note("watchdog: %v; every such evaluation returned later (slow I/O, nothing stuck) and the history was run again", c.Rep.Hist["watchdog"])
		}
	}
	// summary of deviations
	if d := c.Rep.Hist["deviation"]; len(d) > 0 {
		keys := make([]string, 0, len(d))
		for k := range d {
			keys = append(keys, k)
		}
		sort.Strings(keys)
		c.Note("deviation classes (op, field, token state, model result, implementation result): %s", strings.Join(keys, " | "))
	}
	c.Note("not generated (outside the model's domain): ReplaceVoucher with a voucher that has entries (documented precondition), HMAC values whose length " +
		"is not 32/48 or whose algorithm is not an HMAC algorithm, strings/arrays at or above the CBOR decoder's 100000 limit")
}
