package props

// C15, three further families (runC15More):
//
//	(a) chunk.ownerfill  the OWNER side of the budget: serviceinfo.Producer / Producer.Available / ArraySizeCBOR and
//	    TO2Server.produceOwnerServiceInfo; the plaintext of the TO2.OwnerServiceInfo the real owner service sends is
//	    measured against the size the device announced in TO2.DeviceServiceInfoReady
//	(b) chunk.reasm      ChunkWriter / UnchunkReader (serviceinfo.NewChunkInPipe) fed with consecutive entries whose keys
//	    are equal or nearly equal (letter case, trailing space / NUL, prefixes, Unicode case folding)
//	(c) chunk.answer / chunk.answer.e2e  yields of a device module relative to its responds, across several Receive calls
//	    of one round (handleOwnerModuleMessages + the sending loop through a hook, and fdo.TO2 against the real owner)

import (
	"bytes"
	"context"
	"encoding/hex"
	"fmt"
	"io"
	"strconv"
	"strings"
	"sync"
	"time"
	"unicode"

	fdo "github.com/fido-device-onboard/go-fdo"
	"github.com/fido-device-onboard/go-fdo/cbor"
	"github.com/fido-device-onboard/go-fdo/kex"
	"github.com/fido-device-onboard/go-fdo/protocol"
	"github.com/fido-device-onboard/go-fdo/serviceinfo"

	"verifharness/internal/core"
	"verifharness/internal/raw"
)

// ---------------------------------------------------------------------------------------------------------------------
// (a) the owner side of the budget
// ---------------------------------------------------------------------------------------------------------------------

func bstrHeadLen(n int) int {
	switch {
	case n < 24:
		return 1
	case n < 256:
		return 2
	case n < 65536:
		return 3
	}
	return 5
}

// fitLen: the longest value whose byte-string encoding (head and bytes) takes at most a bytes.
func fitLen(a int) int {
	for l := a - 1; l >= 1; l-- {
		if bstrHeadLen(l)+l <= a {
			return l
		}
	}
	return 0
}

type fillRec struct {
	n, queued, avail, vlen int
}

// fillOwner is an owner module that, per ProduceInfo, queues up to n one-byte entries and then fills what is left of the
// message with one value sized by Producer.Available. mode "fit": Available is taken as the room for the encoded value
// (byte-string head included: what serviceinfo's own test and fsim.Download subtract); mode "full": as the number of value
// bytes (what fsim.RunCommand's args and the `len(body) > Available` guards of fsim/plugin let through).
type fillOwner struct {
	mode string
	elen int // length of the value of the entries queued first (0 = 1)
	plan []int
	mu   sync.Mutex
	pos  int
	recs []fillRec
}

func (m *fillOwner) HandleInfo(_ context.Context, _ string, body io.Reader) error {
	_, _ = io.Copy(io.Discard, body)
	return nil
}

func (m *fillOwner) need(l int) int {
	if m.mode == "fit" {
		return bstrHeadLen(l) + l
	}
	return l
}

func (m *fillOwner) ProduceInfo(_ context.Context, p *serviceinfo.Producer) (bool, bool, error) {
	m.mu.Lock()
	defer m.mu.Unlock()
	if m.pos >= len(m.plan) {
		return false, true, nil
	}
	rec := fillRec{n: m.plan[m.pos]}
	m.pos++
	elen := max(m.elen, 1)
	for i := 0; i < rec.n; i++ {
		if p.Available("k") < m.need(elen) {
			break
		}
		if err := p.WriteChunk("k", bytes.Repeat([]byte{byte(i)}, elen)); err != nil {
			return false, false, err
		}
		rec.queued++
	}
	rec.avail = p.Available("v")
	l := rec.avail
	if m.mode == "fit" {
		l = fitLen(rec.avail)
	}
	if l >= 1 {
		if l > 65535 {
			l = 65535
		}
		if err := p.WriteChunk("v", bytes.Repeat([]byte{0x5a}, l)); err != nil {
			return false, false, err
		}
		rec.vlen = l
	}
	m.recs = append(m.recs, rec)
	return false, m.pos >= len(m.plan), nil
}

func (m *fillOwner) taken() (int, []fillRec) {
	m.mu.Lock()
	defer m.mu.Unlock()
	return m.pos, append([]fillRec(nil), m.recs...)
}

// sizedSession is svcWorld.rawSession with a TO2.DeviceServiceInfoReady that announces devSize.
func (w *svcWorld) sizedSession(devSize int) (*svcRaw, string) {
	w.e.OwnerMTU = 1300
	s := &svcRaw{w: w, sess: -1}
	s.d = raw.NewDriver(w.e, w.dev, raw.Config{Kex: kex.ECDH256Suite, Cipher: kex.A128GcmCipher, Reuse: true})
	sz := uint16(devSize)
	ready, err := cbor.Marshal(struct {
		Hmac *protocol.Hmac
		Max  *uint16
	}{nil, &sz})
	if err != nil {
		return nil, err.Error()
	}
	s.d.Mutate = func(msg int, plain []byte) []byte {
		switch {
		case msg == 66:
			return ready
		case msg == 68 && s.next != nil:
			return s.next
		}
		return plain
	}
	for _, m := range []int{60, 62, 64, 66} {
		r := s.do(m)
		if r.RespType != m+1 {
			return nil, fmt.Sprintf("honest prefix: %d answered with %d %s %s", m, r.RespType, r.ErrStr, r.Err)
		}
	}
	return s, ""
}

// send68Plain is svcRaw.send68 that also returns the length of the decrypted TO2.OwnerServiceInfo.
func (s *svcRaw) send68Plain(kvs []*serviceinfo.KV) (typ int, plainLen int, reply *svcReply, errStr string) {
	if kvs == nil {
		kvs = []*serviceinfo.KV{}
	}
	body, err := cbor.Marshal(struct {
		IsMore bool
		Info   []*serviceinfo.KV
	}{false, kvs})
	if err != nil {
		return -1, 0, nil, "harness: " + err.Error()
	}
	s.next = body
	r := s.do(68)
	s.next = nil
	if r.Err != "" {
		return -1, 0, nil, "harness: " + r.Err
	}
	if r.Panic != "" {
		core.PanicText = r.Panic
		return -2, 0, nil, "panic " + r.Panic
	}
	if r.RespType != 69 {
		return r.RespType, 0, nil, r.ErrStr
	}
	plain, ok := s.d.Open(s.sess, r.Body)
	if !ok {
		return 69, 0, nil, "harness: the 69 did not decrypt"
	}
	var rep svcReply
	if err := cbor.Unmarshal(plain, &rep); err != nil {
		return 69, len(plain), nil, "harness: the 69 did not decode: " + err.Error()
	}
	return 69, len(plain), &rep, ""
}

type fillObs struct {
	rec      fillRec
	plainLen int
	kvs      int
	refused  string // the owner answered with an error message instead
}

var lastFill []fillObs

// evalOwnerFill: params size (what the device announces), ns (entries to queue per ProduceInfo), mode (fit | full),
// via = server (the real owner service, raw client; sessions are restarted after a refusal) | producer (serviceinfo.Producer
// alone, the message built and encoded here).
func evalOwnerFill(p core.Params) (string, string) {
	size, _ := strconv.Atoi(p["size"])
	elen, _ := strconv.Atoi(p["elen"]) // optional: length of the values of the entries queued first
	ns := atoiList(p["ns"])
	line := fmt.Sprintf("chunk.ownerfill via=%s mode=%s size=%d elen=%d ns=%s", p["via"], p["mode"], size, elen, p["ns"])
	lastFill = nil
	if p["lineonly"] != "" {
		return line, ""
	}
	var out []fillObs
	if p["via"] == "producer" {
		for _, n := range ns {
			m := &fillOwner{mode: p["mode"], elen: elen, plan: []int{n}}
			prod := serviceinfo.NewProducer("m", uint16(size))
			if _, _, err := m.ProduceInfo(context.Background(), prod); err != nil {
				return line, "err-harness " + err.Error()
			}
			info := prod.ServiceInfo()
			if info == nil {
				info = []*serviceinfo.KV{}
			}
			b, err := cbor.Marshal(struct {
				IsMore, IsDone bool
				Info           []*serviceinfo.KV
			}{false, false, info})
			if err != nil {
				return line, "err-harness " + err.Error()
			}
			arr, err := cbor.Marshal(info)
			if err != nil {
				return line, "err-harness " + err.Error()
			}
			o := fillObs{rec: m.recs[0], plainLen: len(b), kvs: len(info)}
			if got := serviceinfo.ArraySizeCBOR(info); got != int64(len(arr)) {
				o.refused = fmt.Sprintf("ArraySizeCBOR=%d-encoded=%d", got, len(arr))
			}
			out = append(out, o)
		}
	} else {
		w, err := svcGetWorld()
		if err != nil {
			return line, "err-env " + err.Error()
		}
		for len(ns) > 0 {
			mod := &fillOwner{mode: p["mode"], elen: elen, plan: ns}
			run := &svcRun{owners: []svcNamed{{"m", mod}}}
			w.begin(run)
			s, es := w.sizedSession(size)
			if s == nil {
				w.end()
				return line, "err-harness " + es
			}
			kvs := append(svcDescriptors(), svcKV("devmod:nummodules", 1),
				svcKV("devmod:modules", serviceinfo.DevmodModulesChunk{Start: 0, Len: 1, Modules: []string{"devmod"}}))
			if typ, _, _, es := s.send68Plain(kvs); typ != 69 {
				w.end()
				return line, fmt.Sprintf("err-harness devmod round answered %d %s", typ, es)
			}
			progressed := false
			for {
				before, _ := mod.taken()
				if before >= len(ns) {
					break
				}
				typ, n, rep, es := s.send68Plain(nil)
				after, recs := mod.taken()
				if strings.HasPrefix(es, "harness") || typ < 0 || after != before+1 {
					w.end()
					return line, fmt.Sprintf("err-harness round %d: %d %s (ProduceInfo calls %d -> %d)", before, typ, es, before, after)
				}
				progressed = true
				o := fillObs{rec: recs[len(recs)-1], plainLen: n}
				if typ != 69 || rep == nil {
					o.refused = fmt.Sprintf("%d:%s", typ, strings.ReplaceAll(svcClip(es, 120), " ", "_"))
					out = append(out, o)
					break // the session is over: a new one takes the rest of the plan
				}
				o.kvs = len(rep.Info)
				out = append(out, o)
			}
			w.end()
			done, _ := mod.taken()
			ns = ns[done:]
			if !progressed {
				return line, "err-harness no progress"
			}
		}
	}
	lastFill = out
	var sb strings.Builder
	sb.WriteString("ok")
	for _, o := range out {
		fmt.Fprintf(&sb, " (M n:%d q:%d a:%d v:%d len:%d kv:%d", o.rec.n, o.rec.queued, o.rec.avail, o.rec.vlen, o.plainLen, o.kvs)
		if o.refused != "" {
			sb.WriteString(" refused:" + o.refused)
		}
		sb.WriteString(")")
	}
	return line, sb.String()
}

func atoi(s string) int {
	n, _ := strconv.Atoi(s)
	return n
}

func countBucket(n int) string {
	switch {
	case n < 23:
		return "<23"
	case n < 25:
		return "23..24"
	case n < 255:
		return "25..254"
	case n < 257:
		return "255..256"
	}
	return ">=257"
}

func runC15OwnerFill(c *core.Ctx) {
	var ns []int
	for n := 0; n <= 30; n++ {
		ns = append(ns, n)
	}
	for n := 250; n <= 260; n++ {
		ns = append(ns, n)
	}
	sizes := []int{256, 1000, 1300, 65535}
	prodSizes := []int{256, 257, 280, 281, 282, 283, 300, 512, 1000, 1300, 2000, 4096, 65535}
	var prodNs, allNs []int
	for n := 0; n <= 300; n++ {
		allNs = append(allNs, n)
		if n <= 40 || (n >= 245 && n <= 265) || n == 300 {
			prodNs = append(prodNs, n)
		}
	}
	if !c.Quick() {
		prodNs = allNs
		ns = append([]int(nil), prodNs...)
		ns = append(ns, 1000, 5000, 9000)
		sizes = append(sizes, 257, 258, 279, 280, 281, 282, 283, 284, 300, 512, 1299, 1301, 2000, 4096, 10000, 30000, 65534)
		for s := 256; s <= 700; s++ {
			prodSizes = append(prodSizes, s)
		}
		for s := 1800; s <= 2400; s += 7 {
			prodSizes = append(prodSizes, s)
		}
		prodNs = append(prodNs, 1000, 5000, 9000)
	}
	monitor := func(kind string, p core.Params, o core.Obs, size int) {
		switch {
		case strings.HasPrefix(o.Impl, "panic"):
			c.Fail("panic@owner-service-info", core.PanicText, kind, p, o)
			return
		case o.Impl == "hang":
			c.Fail("hang@owner-service-info", "", kind, p, o)
			return
		case !strings.HasPrefix(o.Impl, "ok"):
			c.Fail("harness-script", "the owner-fill case did not run: "+svcClip(o.Impl, 300), kind, p, o)
			return
		}
		for _, f := range lastFill {
			want := f.rec.queued
			if f.rec.vlen > 0 {
				want++
			}
			what := fmt.Sprintf("device announced %d; the owner module queued %d entries with %d-byte values (asked %d), Producer.Available(\"v\") said %d, it wrote a value of %d bytes",
				size, f.rec.queued, max(1, atoi(p["elen"])), f.rec.n, f.rec.avail, f.rec.vlen)
			c.Count("ownerfill_entries_"+p["via"], countBucket(want))
			switch {
			case strings.HasPrefix(f.refused, "ArraySizeCBOR"):
				c.Fail("array-size-differs-from-encoding", what+": "+f.refused, kind, p, o)
			case f.refused != "" && p["mode"] == "fit":
				c.Fail("owner-refused-message-within-budget", what+"; the owner service answered "+f.refused, kind, p, o)
			case f.refused != "":
				c.Count("ownerfill_full_outcome", "refused")
			case f.plainLen > size && p["mode"] == "fit":
				c.Fail("owner-message-exceeds-device-size:value-budgeted-by-Available", fmt.Sprintf("%s (head included in the budget); TO2.OwnerServiceInfo is %d bytes, %d more than the device accepts",
					what, f.plainLen, f.plainLen-size), kind, p, o)
			case f.plainLen > size && p["via"] != "server":
				c.Count("ownerfill_full_outcome", "would-exceed(no-service)") // the service's own check is not in play here
			case f.plainLen > size:
				c.Fail("owner-message-exceeds-device-size:value-of-Available-bytes", fmt.Sprintf("%s (exactly what Available returned); TO2.OwnerServiceInfo is %d bytes, %d more than the device accepts, and the owner service sent it",
					what, f.plainLen, f.plainLen-size), kind, p, o)
			case f.kvs != want:
				c.Fail("owner-message-entries-differ", fmt.Sprintf("%s; the message carries %d entries, expected %d", what, f.kvs, want), kind, p, o)
			default:
				if p["mode"] == "fit" {
					c.Count("ownerfill_slack_"+p["via"], fmt.Sprint(min(size-f.plainLen, 9)))
				} else {
					c.Count("ownerfill_full_outcome", "fits")
				}
			}
		}
	}
	for _, mode := range []string{"fit", "full"} {
		for _, size := range sizes {
			plan := ns
			if size < 2000 { // the entries alone fill such a message long before 250: one such case is enough
				plan = nil
				for _, n := range ns {
					if n <= 60 || n == 250 {
						plan = append(plan, n)
					}
				}
			}
			if mode == "full" && c.Quick() { // the literal reading of Available: a sample of the counts is enough in the quick tier
				var few []int
				for _, n := range plan {
					if n <= 1 || n == 23 || n == 24 || n == 30 || n == 250 || n == 255 || n == 256 {
						few = append(few, n)
					}
				}
				plan = few
			}
			p := core.Params{"via": "server", "mode": mode, "size": fmt.Sprint(size), "ns": joinInts(plan)}
			o := c.Do("chunk.ownerfill", p, "owner-fill-server-"+mode)
			monitor("chunk.ownerfill", p, o, size)
		}
		for _, size := range prodSizes {
			p := core.Params{"via": "producer", "mode": mode, "size": fmt.Sprint(size), "ns": joinInts(prodNs)}
			o := c.Do("chunk.ownerfill", p, "owner-fill-producer-"+mode)
			monitor("chunk.ownerfill", p, o, size)
		}
		// entries whose own values sit at the head thresholds of a byte string
		for _, elen := range []int{22, 23, 24, 25, 255, 256, 257} {
			short := joinInts(ns[:31])
			for _, size := range []int{1300, 4096, 65535} {
				p := core.Params{"via": "producer", "mode": mode, "size": fmt.Sprint(size), "elen": fmt.Sprint(elen), "ns": short}
				o := c.Do("chunk.ownerfill", p, "owner-fill-producer-entry-lengths-"+mode)
				monitor("chunk.ownerfill", p, o, size)
			}
			if ((elen == 24 || elen == 256) && mode == "fit") || !c.Quick() {
				p := core.Params{"via": "server", "mode": mode, "size": "65535", "elen": fmt.Sprint(elen), "ns": short}
				o := c.Do("chunk.ownerfill", p, "owner-fill-server-entry-lengths-"+mode)
				monitor("chunk.ownerfill", p, o, 65535)
			}
		}
	}
}

// ---------------------------------------------------------------------------------------------------------------------
// (b) reassembly of nearly equal keys
// ---------------------------------------------------------------------------------------------------------------------

func encodeKVs(kvs [][2]string) string {
	parts := make([]string, len(kvs))
	for i, kv := range kvs {
		parts[i] = hex.EncodeToString([]byte(kv[0])) + "=" + hex.EncodeToString([]byte(kv[1]))
	}
	return strings.Join(parts, ",")
}

func decodeKVs(s string) [][2]string {
	var out [][2]string
	if s == "" {
		return nil
	}
	for _, p := range strings.Split(s, ",") {
		kv := strings.SplitN(p, "=", 2)
		k, _ := hex.DecodeString(kv[0])
		v, _ := hex.DecodeString(kv[1])
		out = append(out, [2]string{string(k), string(v)})
	}
	return out
}

// evalReasm: params kvs, buffers (0 = unbuffered io.Pipe), order = conc (writer and reader run concurrently) | seq (everything is
// written, the writer closed, then everything read: needs buffers >= number of entries; this is what the owner service does).
func evalReasm(p core.Params) (string, string) {
	kvs := decodeKVs(p["kvs"])
	buffers, _ := strconv.Atoi(p["buffers"])
	line := fmt.Sprintf("chunk.reasm buffers=%d order=%s %s", buffers, p["order"], p["kvs"])
	if p["lineonly"] != "" {
		return line, ""
	}
	r, w := serviceinfo.NewChunkInPipe(buffers)
	werr := make(chan error, 1)
	write := func() {
		var err error
		for _, kv := range kvs {
			if err = w.WriteChunk(&serviceinfo.KV{Key: kv[0], Val: []byte(kv[1])}); err != nil {
				break
			}
		}
		if cerr := w.Close(); err == nil {
			err = cerr
		}
		werr <- err
	}
	type res struct {
		s string
	}
	done := make(chan res, 1)
	go func() {
		if p["order"] == "seq" {
			write()
		} else {
			go write()
		}
		var sb strings.Builder
		sb.WriteString("ok")
		for {
			key, val, ok := r.NextServiceInfo()
			if !ok {
				break
			}
			b, err := io.ReadAll(val)
			_ = val.Close()
			fmt.Fprintf(&sb, " (K b:%x b:%x)", key, b)
			if err != nil {
				sb.WriteString(" X:" + strings.ReplaceAll(err.Error(), " ", "_"))
				break
			}
		}
		select {
		case err := <-werr:
			if err != nil {
				sb.WriteString(" W:" + strings.ReplaceAll(err.Error(), " ", "_"))
			}
		case <-time.After(3 * time.Second):
			sb.WriteString(" W:writer-blocked")
		}
		done <- res{sb.String()}
	}()
	select {
	case x := <-done:
		return line, x.s
	case <-time.After(8 * time.Second):
		return line, "hang"
	}
}

// mergeEqual: what the receiver must see: consecutive entries with byte-equal keys are one stream.
func mergeEqual(kvs [][2]string) [][2]string {
	var out [][2]string
	for _, kv := range kvs {
		if n := len(out); n > 0 && out[n-1][0] == kv[0] {
			out[n-1][1] += kv[1]
		} else {
			out = append(out, kv)
		}
	}
	return out
}

func parseStreams(obs string) [][2]string {
	var out [][2]string
	for _, tok := range strings.Split(obs, "(K ")[1:] {
		f := strings.Fields(strings.SplitN(tok, ")", 2)[0])
		if len(f) < 2 {
			continue
		}
		k, _ := hex.DecodeString(strings.TrimPrefix(f[0], "b:"))
		v, _ := hex.DecodeString(strings.TrimPrefix(f[1], "b:"))
		out = append(out, [2]string{string(k), string(v)})
	}
	return out
}

// keyVariants: keys that differ from k as little as a key can (each with a label).
func keyVariants(k string, everyPosition bool) [][2]string {
	var out [][2]string
	add := func(label, v string) {
		if v == k {
			return
		}
		for _, o := range out {
			if o[1] == v {
				return
			}
		}
		out = append(out, [2]string{label, v})
	}
	rs := []rune(k)
	flip := func(i int) string {
		c := append([]rune(nil), rs...)
		switch {
		case unicode.IsUpper(c[i]):
			c[i] = unicode.ToLower(c[i])
		case unicode.IsLower(c[i]):
			c[i] = unicode.ToUpper(c[i])
		}
		return string(c)
	}
	pos := []int{}
	if everyPosition || len(rs) <= 40 {
		for i := range rs {
			pos = append(pos, i)
		}
	} else {
		pos = []int{0, 1, 2, len(rs) / 2, len(rs) - 2, len(rs) - 1}
	}
	for _, i := range pos {
		add("case", flip(i))
	}
	add("case", strings.ToUpper(k))
	add("case", strings.ToLower(k))
	add("case-fold", strings.Replace(k, "k", "\u212a", 1)) // KELVIN SIGN folds to k
	add("case-fold", strings.Replace(k, "s", "\u017f", 1)) // LONG S folds to s
	add("case-fold", strings.Replace(k, "K", "\u212a", 1))
	add("case-fold", strings.Replace(k, "S", "\u017f", 1))
	add("trailing-space", k+" ")
	add("leading-space", " "+k)
	add("trailing-nul", k+"\x00")
	add("trailing-tab", k+"\t")
	add("trailing-newline", k+"\n")
	add("trailing-nbsp", k+"\u00a0")
	add("trailing-zwsp", k+"\u200b")
	add("trailing-colon", k+":")
	if len(k) > 0 {
		add("prefix", k[:len(k)-1])
		add("prefix", k[:len(k)/2])
	}
	if i := strings.IndexByte(k, ':'); i >= 0 {
		add("prefix", k[:i])
		add("prefix", k[:i+1])
		add("space-at-colon", k[:i]+" :"+k[i+1:])
		add("space-at-colon", k[:i+1]+" "+k[i+1:])
	}
	add("extension", k+"x")
	add("extension", k+k)
	add("empty", "")
	return out
}

func runC15Reasm(c *core.Ctx) {
	bases := []string{"m:Value", "FDO.x:active", "fdo.download:data", "devmod:modules", "custom.kv:Value", "sKs:kSk",
		"m:" + strings.Repeat("a", 21), "m:" + strings.Repeat("a", 22), "m:" + strings.Repeat("B", 253), "M:" + strings.Repeat("b", 254)}
	val := func(n int) string {
		b := make([]byte, n)
		c.Rng.Read(b)
		return string(b)
	}
	monitor := func(p core.Params, kvs [][2]string, o core.Obs, label string) {
		switch {
		case strings.HasPrefix(o.Impl, "panic"):
			c.Fail("panic@serviceinfo.ChunkWriter", core.PanicText, "chunk.reasm", p, o)
			return
		case o.Impl == "hang":
			c.Fail("hang@serviceinfo.ChunkWriter", "writing "+fmt.Sprint(len(kvs))+" entries and reading them back did not end", "chunk.reasm", p, o)
			return
		}
		got, want := parseStreams(o.Impl), mergeEqual(kvs)
		bad := strings.Contains(o.Impl, " X:") || strings.Contains(o.Impl, " W:") || len(got) != len(want)
		at := -1
		for i := 0; !bad && i < len(want); i++ {
			if got[i] != want[i] {
				bad, at = true, i
			}
		}
		if !bad {
			return
		}
		if at < 0 {
			at = min(len(got), len(want))
			for i := 0; i < min(len(got), len(want)); i++ {
				if got[i] != want[i] {
					at = i
					break
				}
			}
		}
		var keys []string
		for _, kv := range kvs {
			keys = append(keys, fmt.Sprintf("%q[%d]", kv[0], len(kv[1])))
		}
		var gk []string
		for _, kv := range got {
			gk = append(gk, fmt.Sprintf("%q[%d]", kv[0], len(kv[1])))
		}
		c.Fail("reassembly-differs:"+label, fmt.Sprintf("written %s; the receiver saw %d streams %s, expected %d (first difference at stream %d; %s)", svcClip(strings.Join(keys, " "), 700),
			len(got), svcClip(strings.Join(gk, " "), 700), len(want), at, svcClip(o.Impl[max(0, len(o.Impl)-60):], 60)), "chunk.reasm", p, o)
	}
	run := func(kvs [][2]string, label, meta string) {
		for _, pm := range [][2]string{{"0", "conc"}, {fmt.Sprint(len(kvs)), "seq"}, {"1", "conc"}} {
			p := core.Params{"kvs": encodeKVs(kvs), "buffers": pm[0], "order": pm[1]}
			o := c.Do("chunk.reasm", p, meta)
			c.Count("reasm_variant", label)
			monitor(p, kvs, o, label)
		}
	}
	for bi, k := range bases {
		for _, lv := range keyVariants(k, !c.Quick()) {
			label, v := lv[0], lv[1]
			a, b := k, v
			pats := [][][2]string{
				{{a, val(2)}, {b, val(3)}},
				{{b, val(1)}, {a, val(2)}},
				{{a, val(2)}, {a, val(1)}, {b, val(3)}, {b, val(2)}, {a, val(1)}},
				{{b, val(2)}, {a, val(30)}, {b, val(1)}, {b, val(300)}},
			}
			if c.Quick() && bi >= 6 { // the long keys: two patterns are enough in the quick tier
				pats = pats[1:3]
			}
			for _, kvs := range pats {
				run(kvs, label, "reassembly-near-equal-keys")
			}
		}
		// equal keys: everything is one stream; an entry without value bytes between two others
		run([][2]string{{k, val(2)}, {k, val(1)}, {k, val(40)}}, "equal", "reassembly-equal-keys")
		run([][2]string{{k, val(2)}, {strings.ToUpper(k), ""}, {k, val(1)}}, "empty-value", "reassembly-empty-value")
		run([][2]string{{k, ""}, {k, val(1)}, {strings.ToLower(k), ""}}, "empty-value", "reassembly-empty-value")
	}
	// random sequences over a family of nearly equal keys
	n := 150
	if !c.Quick() {
		n = 4000
	}
	for i := 0; i < n; i++ {
		k := bases[c.Rng.Intn(6)]
		fam := append(keyVariants(k, false), [2]string{"equal", k}, [2]string{"equal", k})
		var kvs [][2]string
		for j := 0; j < 2+c.Rng.Intn(7); j++ {
			if j > 0 && c.Rng.Intn(3) == 0 {
				kvs = append(kvs, [2]string{kvs[j-1][0], val(c.Rng.Intn(20))})
				continue
			}
			vl := []int{0, 1, 2, 23, 24, 255, 256, 700, 5000}[c.Rng.Intn(9)]
			kvs = append(kvs, [2]string{fam[c.Rng.Intn(len(fam))][1], val(vl)})
		}
		run(kvs, "random", "reassembly-random-near-equal")
	}
}

// ---------------------------------------------------------------------------------------------------------------------
// (c) yields in the device's answer loop
// ---------------------------------------------------------------------------------------------------------------------

// ansTok is one action of the scripted device module: yield(), or respond(name) followed by the value.
type ansTok struct {
	yield bool
	name  string
	val   []byte
	call  int // index of the Receive call it belongs to; -1: the module's Yield callback
}

// parseAnswerScript: calls separated by '/', after '|' what the module does in its Yield callback. Letters: Y yield(); r a
// new entry of 3 bytes; s 2 more bytes under the name of the previous entry; F an entry that fills an empty message of the
// given budget to the last byte; B an entry of 2*budget+7 bytes.
func parseAnswerScript(script string, budget int) (toks []ansTok, ncalls int) {
	recv, ycb, _ := strings.Cut(script, "|")
	parts := strings.Split(recv, "/")
	ncalls = len(parts)
	idx := 0
	prev := ""
	do := func(s string, call int) {
		for _, ch := range s {
			if ch == 'Y' {
				toks = append(toks, ansTok{yield: true, call: call})
				continue
			}
			name := fmt.Sprintf("r%d", idx)
			l := 3
			switch ch {
			case 's':
				l = 2
				if prev != "" {
					name = prev
				}
			case 'F':
				l = 1
				for kvSize(len("m:"+name), l+1) <= budget {
					l++
				}
			case 'B':
				l = min(2*budget+7, 9000)
			}
			v := make([]byte, l)
			for j := range v {
				v[j] = byte(idx*41 + j*7 + 1)
			}
			toks = append(toks, ansTok{name: name, val: v, call: call})
			prev = name
			idx++
		}
	}
	for i, s := range parts {
		do(s, i)
	}
	do(ycb, -1)
	return toks, ncalls
}

// ansDev plays the script.
type ansDev struct {
	toks     []ansTok
	mu       sync.Mutex
	received bool
	yielded  bool
	errs     []string
}

func (d *ansDev) Transition(bool) error { return nil }

func (d *ansDev) play(call int, respond func(string) io.Writer, yield func()) {
	for _, t := range d.toks {
		if t.call != call {
			continue
		}
		if t.yield {
			yield()
			continue
		}
		w := respond(t.name)
		v := t.val
		if len(v) > 10 { // two writes
			if _, err := w.Write(v[:7]); err != nil {
				d.errs = append(d.errs, err.Error())
			}
			v = v[7:]
		}
		if _, err := w.Write(v); err != nil {
			d.errs = append(d.errs, err.Error())
		}
	}
}

func (d *ansDev) Receive(_ context.Context, name string, body io.Reader, respond func(string) io.Writer, yield func()) error {
	_, _ = io.Copy(io.Discard, body)
	call, err := strconv.Atoi(strings.TrimPrefix(name, "q"))
	if err != nil {
		return nil
	}
	d.mu.Lock()
	defer d.mu.Unlock()
	d.received = true
	d.play(call, respond, yield)
	return nil
}

func (d *ansDev) Yield(_ context.Context, respond func(string) io.Writer, yield func()) error {
	d.mu.Lock()
	defer d.mu.Unlock()
	if !d.received || d.yielded {
		return nil
	}
	d.yielded = true
	d.play(-1, respond, yield)
	return nil
}

// ansChunk is one piece of an answer as it was seen in a TO2.DeviceServiceInfo.
type ansChunk struct {
	msg  int
	name string
	val  []byte
}

var lastAnswer []ansChunk

func answerItems(toks []ansTok) []svcMsg {
	var ms []svcMsg
	for _, t := range toks {
		if t.yield {
			ms = append(ms, svcMsg{Yield: true})
		} else {
			ms = append(ms, svcMsg{Mod: "m", Name: t.name, Val: t.val})
		}
	}
	return ms
}

// evalAnswer: the device's handling of one OwnerServiceInfo with the messages q0..q(k-1) for module m (hook
// VerifDeviceAnswerRound: handleOwnerModuleMessages + exchangeServiceInfoRound), compared with the model of one round
// over the flattened sequence of the module's actions.
func evalAnswer(p core.Params) (string, string) {
	budget, _ := strconv.Atoi(p["mtu"])
	toks, ncalls := parseAnswerScript(p["script"], budget)
	line := fmt.Sprintf("chunk.rounds %s z:%x n:1", itemsArg(answerItems(toks)), budget)
	lastAnswer = nil
	if p["lineonly"] != "" {
		return line, ""
	}
	dev := &ansDev{toks: toks}
	var owner []*serviceinfo.KV
	for i := 0; i < ncalls; i++ {
		owner = append(owner, &serviceinfo.KV{Key: fmt.Sprintf("m:q%d", i), Val: []byte{0x01}})
	}
	ctx, cancel := context.WithTimeout(context.Background(), 10*time.Second)
	defer cancel()
	msgs, err := fdo.VerifDeviceAnswerRound(ctx, uint16(budget), map[string]serviceinfo.DeviceModule{"m": dev}, []string{"m"}, "", owner)
	var sb strings.Builder
	sb.WriteString("ok")
	for i, m := range msgs {
		sb.WriteString(" (R")
		for _, kv := range m.KVs {
			sb.WriteString(" " + renderKV(kv))
			lastAnswer = append(lastAnswer, ansChunk{msg: i, name: strings.TrimPrefix(kv.Key, "m:"), val: kv.Val})
		}
		if m.IsMore {
			sb.WriteString(" more)")
		} else {
			sb.WriteString(" last)")
		}
	}
	if err != nil {
		sb.WriteString(" fail")
	}
	if len(dev.errs) > 0 {
		sb.WriteString(" fail")
	}
	return line, sb.String()
}

// ansOwner: the owner module of the end-to-end variant: activates the device module, sends q0..q(k-1) in ONE
// OwnerServiceInfo, then waits three more rounds.
type ansOwner struct {
	run    *svcRun
	ncalls int
	mu     sync.Mutex
	calls  int
	recv   []ansChunk // msg is filled in afterwards
}

func (m *ansOwner) HandleInfo(_ context.Context, name string, body io.Reader) error {
	b, _ := io.ReadAll(body)
	m.run.add(svcEv{k: 'h', a: 0, s: name + "/" + hex.EncodeToString(b)})
	return nil
}

func (m *ansOwner) ProduceInfo(_ context.Context, p *serviceinfo.Producer) (bool, bool, error) {
	m.mu.Lock()
	defer m.mu.Unlock()
	m.calls++
	switch m.calls {
	case 1:
		return false, false, p.WriteChunk("active", []byte{0xf5})
	case 2:
		for i := 0; i < m.ncalls; i++ {
			if err := p.WriteChunk(fmt.Sprintf("q%d", i), []byte{0x01}); err != nil {
				return false, false, err
			}
		}
		return false, false, nil
	}
	return false, m.calls >= 5, nil
}

// evalAnswerE2E: the same scripts through fdo.TO2 against the real owner service; params script, omtu (the size the owner
// announces, i.e. what the device may send).
func evalAnswerE2E(p core.Params) (string, string) {
	omtu, _ := strconv.Atoi(p["omtu"])
	toks, ncalls := parseAnswerScript(p["script"], omtu-5)
	line := fmt.Sprintf("chunk.answer.e2e omtu=%d script=%s", omtu, p["script"])
	lastAnswer = nil
	if p["lineonly"] != "" {
		return line, ""
	}
	w, err := svcGetWorld()
	if err != nil {
		return line, "err-env " + err.Error()
	}
	run := &svcRun{maxReqs: 200}
	own := &ansOwner{run: run, ncalls: ncalls}
	run.owners = []svcNamed{{"m", own}}
	dev := &ansDev{toks: toks}
	cfg := w.dev.TO2Config(kex.ECDH256Suite, kex.A128GcmCipher)
	cfg.AllowCredentialReuse = true
	cfg.Devmod = svcDevmod
	cfg.MaxServiceInfoSizeReceive = 1300
	cfg.DeviceModules = map[string]serviceinfo.DeviceModule{"m": dev}
	w.e.OwnerMTU = uint16(omtu)
	w.begin(run)
	ctx, cancel := context.WithTimeout(context.Background(), 10*time.Second)
	done := make(chan error, 1)
	go func() {
		_, err := fdo.TO2(ctx, w.transport(), nil, cfg)
		done <- err
	}()
	var to2err error
	hang := false
	select {
	case to2err = <-done:
	case <-time.After(11 * time.Second):
		hang = true
	}
	cancel()
	w.end()
	if hang {
		return line, "hang"
	}
	time.Sleep(200 * time.Microsecond)
	var sb strings.Builder
	if to2err != nil {
		sb.WriteString("fail " + strings.ReplaceAll(svcClip(to2err.Error(), 160), "(", "["))
	} else {
		sb.WriteString("ok")
	}
	msg, open := -1, false
	for _, e := range run.events() {
		switch {
		case e.k == 'q' && e.a == 68:
			if open {
				sb.WriteString(")")
			}
			msg++
			sb.WriteString(" (R")
			open = true
		case e.k == 'h':
			name, hx, _ := strings.Cut(e.s, "/")
			if name == "active" {
				continue
			}
			b, _ := hex.DecodeString(hx)
			lastAnswer = append(lastAnswer, ansChunk{msg: msg, name: name, val: b})
			fmt.Fprintf(&sb, " (K b:%x b:%s)", "m:"+name, hx)
		}
	}
	if open {
		sb.WriteString(")")
	}
	return line, sb.String()
}

// checkAnswerPlacement: every answer arrives whole and in order, and two answers with a yield between them are in
// different messages.
func checkAnswerPlacement(c *core.Ctx, kind string, p core.Params, o core.Obs, toks []ansTok) {
	switch {
	case strings.HasPrefix(o.Impl, "panic"):
		c.Fail("panic@device-answer-loop", core.PanicText, kind, p, o)
		return
	case o.Impl == "hang":
		c.Fail("hang@device-answer-loop", "script "+p["script"], kind, p, o)
		return
	case strings.HasPrefix(o.Impl, "err"):
		c.Fail("harness-script", svcClip(o.Impl, 300), kind, p, o)
		return
	case strings.Contains(o.Impl, " fail") || strings.HasPrefix(o.Impl, "fail"):
		c.Fail("exchange-failed", "the device module's answers (script "+p["script"]+") made the exchange fail: "+svcClip(o.Impl, 200), kind, p, o)
		return
	}
	chunks := lastAnswer
	type place struct{ first, last int }
	var places []place
	var resp []ansTok
	var yieldsBefore []int // number of yields between the previous respond and this one
	var respAt []int       // index in toks
	y := 0
	for ti, t := range toks {
		if t.yield {
			y++
			continue
		}
		resp = append(resp, t)
		respAt = append(respAt, ti)
		yieldsBefore = append(yieldsBefore, y)
		y = 0
	}
	ci, off := 0, 0 // position in chunks: chunk index, bytes of it already used
	for ri, t := range resp {
		need := t.val
		pl := place{-1, -1}
		for len(need) > 0 {
			if ci >= len(chunks) || chunks[ci].name != t.name {
				got := "nothing"
				if ci < len(chunks) {
					got = fmt.Sprintf("%q", chunks[ci].name)
				}
				c.Fail("lossy-reassembly", fmt.Sprintf("script %s: answer %d (%s, %d bytes) is not complete where it is due: %d bytes missing, next comes %s", p["script"], ri, t.name, len(t.val), len(need), got), kind, p, o)
				return
			}
			rest := chunks[ci].val[off:]
			n := min(len(rest), len(need))
			if !bytes.Equal(rest[:n], need[:n]) {
				c.Fail("lossy-reassembly", fmt.Sprintf("script %s: answer %d (%s) arrives with other bytes", p["script"], ri, t.name), kind, p, o)
				return
			}
			if pl.first < 0 {
				pl.first = chunks[ci].msg
			}
			pl.last = chunks[ci].msg
			need = need[n:]
			off += n
			if off == len(chunks[ci].val) {
				ci, off = ci+1, 0
			}
		}
		places = append(places, pl)
	}
	if ci < len(chunks) {
		c.Fail("lossy-reassembly", fmt.Sprintf("script %s: %d more pieces than the module wrote, first %q", p["script"], len(chunks)-ci, chunks[ci].name), kind, p, o)
		return
	}
	for i := 1; i < len(resp); i++ {
		if yieldsBefore[i] == 0 {
			continue
		}
		a, b := resp[i-1], resp[i]
		// where do the yields between the two answers sit?
		inLater, inEarlier, between := 0, 0, 0
		for _, t := range toks[respAt[i-1]+1 : respAt[i]] {
			switch t.call {
			case b.call:
				inLater++
			case a.call:
				inEarlier++
			default:
				between++
			}
		}
		where := "in-several-calls"
		switch {
		case a.call == b.call && a.call == -1:
			where = "between-responds-of-the-yield-callback"
		case a.call == b.call:
			where = "between-responds-of-one-call"
		case inEarlier == 0 && between == 0 && b.call == -1:
			where = "in-the-yield-callback-before-its-first-respond"
		case inEarlier == 0 && between == 0:
			where = "before-the-first-respond-of-a-later-call"
		case inLater == 0 && between == 0:
			where = "after-the-last-respond-of-an-earlier-call"
		case inEarlier == 0 && inLater == 0:
			where = "in-a-call-that-does-not-respond"
		}
		c.Count("answer_yield_placement", where)
		if places[i-1].last >= places[i].first {
			c.Fail("yield-did-not-start-new-message:"+where, fmt.Sprintf("script %s (calls separated by /, Y = yield(), other letters = respond + value): %d yield(s) between the answers %s and %s, "+
				"yet %s ends in DeviceServiceInfo #%d and %s starts in #%d", p["script"], yieldsBefore[i], a.name, b.name, a.name, places[i-1].last, b.name, places[i].first), kind, p, o)
			return
		}
	}
}

func runC15Answers(c *core.Ctx) {
	per := []string{"", "r", "Yr", "rY", "YYr", "rYr", "YrY", "rr", "Y", "YY", "rYYr", "rs", "rYs", "Ys"}
	ycbs := []string{"", "r", "Yr", "YYr", "rYr"}
	do := func(script string, budget int, meta string) {
		p := core.Params{"script": script, "mtu": fmt.Sprint(budget)}
		toks, _ := parseAnswerScript(script, budget)
		o := c.Do("chunk.answer", p, meta)
		checkAnswerPlacement(c, "chunk.answer", p, o, toks)
		if strings.HasPrefix(o.Impl, "ok") {
			checkBatches(c, p, o, budget)
		}
	}
	// every pair of per-call scripts, with and without something said in the Yield callback
	for _, a := range per {
		for _, b := range per {
			for _, y := range ycbs {
				if c.Quick() && y != "" && y != "Yr" && c.Rng.Intn(3) != 0 {
					continue
				}
				s := a + "/" + b
				if y != "" {
					s += "|" + y
				}
				do(s, 1295, "answer-yield-two-calls")
			}
		}
	}
	// one call, three calls
	for _, a := range per {
		for _, y := range ycbs {
			s := a
			if y != "" {
				s += "|" + y
			}
			do(s, 1295, "answer-yield-one-call")
		}
	}
	three := per
	if c.Quick() {
		three = []string{"", "r", "Yr", "rY", "Y", "YYr"}
	}
	for _, a := range three {
		for _, b := range three {
			for _, d := range three {
				do(a+"/"+b+"/"+d, 1295, "answer-yield-three-calls")
			}
		}
	}
	// answers that fill a message to the brim or span several, small budgets
	big := []string{"F/Yr", "F/r", "FY/r", "F/YYr", "B/Yr", "BY/Yr", "r/YB", "r/YF", "rF/Yr", "r/YF/Yr", "F/YF/YF", "B/YB", "rY/F/Yr", "F|Yr", "r/F|YF"}
	for _, budget := range []int{60, 251, 295, 1295} {
		for _, s := range big {
			do(s, budget, "answer-yield-full-messages")
		}
		if c.Quick() && budget != 251 {
			continue
		}
		for _, a := range []string{"r", "rY", "Yr", "F", "B"} {
			for _, b := range per {
				do(a+"/"+b, budget, "answer-yield-small-budget")
			}
		}
	}
	// the same through fdo.TO2 and the real owner service
	e2e := []string{"r/Yr", "r/r", "rY/r", "r/YYr", "r/Y/r", "rY/Yr", "Yr/Yr", "r/rYr", "r/Yr/Yr", "r/Ys", "r/Y|r", "r|Yr", "rr/YrYr|Yr"}
	omtus := []int{1300}
	if !c.Quick() {
		omtus = []int{256, 300, 1300, 65535}
		for _, a := range per {
			for _, b := range per {
				e2e = append(e2e, a+"/"+b)
			}
		}
		e2e = append(e2e, "F/Yr", "FY/r", "B/Yr", "r/YF", "r/YB")
	}
	for _, omtu := range omtus {
		for _, s := range e2e {
			p := core.Params{"script": s, "omtu": fmt.Sprint(omtu)}
			toks, _ := parseAnswerScript(s, omtu-5)
			o := c.Do("chunk.answer.e2e", p, "answer-yield-e2e")
			checkAnswerPlacement(c, "chunk.answer.e2e", p, o, toks)
		}
	}
}

func registerChunkMoreKinds(c *core.Ctx) {
	c.Register(&core.Kind{Name: "chunk.ownerfill", NoModel: true, Eval: evalOwnerFill})
	c.Register(&core.Kind{Name: "chunk.reasm", NoModel: true, Eval: evalReasm})
	c.Register(&core.Kind{Name: "chunk.answer", Eval: evalAnswer})
	c.Register(&core.Kind{Name: "chunk.answer.e2e", NoModel: true, Eval: evalAnswerE2E})
}

// runC15More: see the head of this file.
func runC15More(c *core.Ctx) {
	defer closeSvcWorld()
	c.Rep.Rule += "; further: (e) chunk.ownerfill = an owner module that queues n one-byte entries (n = 0..30, 250..260; thorough 0..300 and more) and fills the message with a value sized by " +
		"Producer.Available (budgeted: head included; literal: Available bytes), run by the real owner service for device sizes 256/1000/1300/65535 (raw client, the plaintext of the 69 is measured) " +
		"and on serviceinfo.Producer alone for 13 sizes x n = 0..40, 245..265, 300 (thorough: 0..300 and more); (f) chunk.reasm = ChunkWriter/UnchunkReader with consecutive keys that are equal, differ in the case of one letter (every position), " +
		"in a trailing space/NUL/tab, are prefixes or extensions of each other, fold to each other in Unicode, buffered and unbuffered, sequential and concurrent; (g) chunk.answer = a scripted device module " +
		"(yield/respond in every order over 1..3 Receive calls of one round and the Yield callback) through handleOwnerModuleMessages + exchangeServiceInfoRound (hook) against the model of one round, " +
		"and through fdo.TO2 against the real owner service (chunk.answer.e2e)"
	prev := c.Trivial
	c.Trivial = func(o core.Obs) bool { return strings.HasPrefix(o.Impl, "err") || o.Impl == "" }
	defer func() { c.Trivial = prev }()
	t0 := time.Now()
	runC15OwnerFill(c)
	t1 := time.Now()
	runC15Reasm(c)
	t2 := time.Now()
	runC15Answers(c)
	c.Note("chunk_more.go: owner fill %.1fs, reassembly %.1fs, answers %.1fs", t1.Sub(t0).Seconds(), t2.Sub(t1).Seconds(), time.Since(t2).Seconds())
}
