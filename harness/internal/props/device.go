package props

import (
	"bytes"
	"context"
	"crypto"
	"crypto/ecdsa"
	"crypto/elliptic"
	"crypto/rand"
	"crypto/rsa"
	"crypto/sha256"
	"crypto/sha512"
	"fmt"
	"hash"
	"net/http"
	"strconv"
	"strings"
	"time"

	fdo "github.com/fido-device-onboard/go-fdo"
	"github.com/fido-device-onboard/go-fdo/cbor"
	"github.com/fido-device-onboard/go-fdo/cose"
	"github.com/fido-device-onboard/go-fdo/kex"
	"github.com/fido-device-onboard/go-fdo/protocol"

	"verifharness/internal/core"
	"verifharness/internal/env"
)

// C01 — the device side of TO2 up to its own ProveDevice. The library's client (fdo.TO2) runs against the real owner
// service of a deployment; the harness sits in the middle, alters the owner's answers 61 / 63 and the to1d blob, records
// what the device sent and what it was given, and asks the extracted model (Fdo/Device.v verify_owner) for its verdict.

const devKind = "dev.verifyowner"

// ---- mirrors of the library's unexported wire types ----

type (
	devSigInfo struct {
		Type cose.SignatureAlgorithm
		Info []byte
	}
	devHello struct {
		MaxDeviceMessageSize uint16
		GUID                 protocol.GUID
		NonceTO2ProveOV      protocol.Nonce
		KexSuiteName         kex.Suite
		CipherSuite          kex.CipherSuiteID
		SigInfoA             devSigInfo
	}
	devOvhProof struct {
		OVH                 cbor.Bstr[fdo.VoucherHeader]
		NumOVEntries        uint8
		OVHHmac             protocol.Hmac
		NonceTO2ProveOV     protocol.Nonce
		SigInfoB            devSigInfo
		KeyExchangeA        []byte
		HelloDeviceHash     protocol.Hash
		MaxOwnerMessageSize uint16
	}
	devOvEntry struct {
		OVEntryNum int
		OVEntry    cose.Sign1Tag[fdo.VoucherEntryPayload, []byte]
	}
)

func mustEnc(v any) []byte {
	b, err := cbor.Marshal(v)
	if err != nil {
		panic("device.go: encode: " + err.Error())
	}
	return b
}

// ---- a COSE_Sign1 kept at the byte level: only what an alteration names changes ----

type rawS1 struct {
	tagged  bool
	prot    []byte                  // content of the protected bstr (a serialized map)
	unprot  map[int64]cbor.RawBytes // unprotected header, values untouched
	payload []byte                  // content of the payload bstr; nil = null
	sig     []byte
}

func parseRawS1(b []byte) (*rawS1, error) {
	var t cbor.Tag[[]cbor.RawBytes]
	if err := cbor.Unmarshal(b, &t); err != nil {
		return nil, err
	}
	if t.Num != 18 || len(t.Val) != 4 {
		return nil, fmt.Errorf("not a tagged COSE_Sign1")
	}
	s := &rawS1{tagged: true}
	if err := cbor.Unmarshal(t.Val[0], &s.prot); err != nil {
		return nil, err
	}
	if err := cbor.Unmarshal(t.Val[1], &s.unprot); err != nil {
		return nil, err
	}
	if !(len(t.Val[2]) == 1 && t.Val[2][0] == 0xf6) {
		if err := cbor.Unmarshal(t.Val[2], &s.payload); err != nil {
			return nil, err
		}
		if s.payload == nil {
			s.payload = []byte{}
		}
	}
	if err := cbor.Unmarshal(t.Val[3], &s.sig); err != nil {
		return nil, err
	}
	return s, nil
}

func (s *rawS1) bytes() []byte {
	pl := cbor.RawBytes{0xf6}
	if s.payload != nil {
		pl = mustEnc(s.payload)
	}
	prot := s.prot
	if prot == nil {
		prot = []byte{}
	}
	sig := s.sig
	if sig == nil {
		sig = []byte{}
	}
	un := s.unprot
	if un == nil {
		un = map[int64]cbor.RawBytes{}
	}
	arr := []cbor.RawBytes{mustEnc(prot), mustEnc(un), pl, mustEnc(sig)}
	if s.tagged {
		return mustEnc(cbor.Tag[[]cbor.RawBytes]{Num: 18, Val: arr})
	}
	return mustEnc(arr)
}

// ---- signing a Sig_structure with the standard library only ----

func devAlgFor(key crypto.Signer, pss bool) int64 {
	switch pub := key.Public().(type) {
	case *ecdsa.PublicKey:
		if pub.Curve == elliptic.P384() {
			return -35
		}
		return -7
	case *rsa.PublicKey:
		big := pub.Size() > 256
		switch {
		case pss && big:
			return -38
		case pss:
			return -37
		case big:
			return -258
		}
		return -257
	}
	return 0
}

func devOtherAlg(a int64) int64 {
	return map[int64]int64{-7: -35, -35: -7, -257: -258, -258: -257, -37: -38, -38: -37}[a]
}

func devAlgHash(a int64) (crypto.Hash, func() hash.Hash) {
	switch a {
	case -7, -257, -37:
		return crypto.SHA256, sha256.New
	}
	return crypto.SHA384, sha512.New384
}

func devProt(alg int64) []byte { return mustEnc(map[int64]int64{1: alg}) }

// devSign signs Sig_structure = ["Signature1", protected, h”, payload] under the scheme alg names.
func devSign(key crypto.Signer, alg int64, prot, payload []byte) []byte {
	if prot == nil {
		prot = []byte{}
	}
	if payload == nil {
		payload = []byte{}
	}
	tbs := mustEnc([]any{"Signature1", prot, []byte{}, payload})
	ch, nh := devAlgHash(alg)
	h := nh()
	h.Write(tbs)
	d := h.Sum(nil)
	switch k := key.(type) {
	case *ecdsa.PrivateKey:
		r, s, err := ecdsa.Sign(rand.Reader, k, d)
		if err != nil {
			panic(err)
		}
		n := (k.Params().N.BitLen() + 7) / 8
		out := make([]byte, 2*n)
		r.FillBytes(out[:n])
		s.FillBytes(out[n:])
		return out
	case *rsa.PrivateKey:
		var sig []byte
		var err error
		if alg == -37 || alg == -38 {
			sig, err = rsa.SignPSS(rand.Reader, k, ch, d, &rsa.PSSOptions{SaltLength: rsa.PSSSaltLengthEqualsHash, Hash: ch})
		} else {
			sig, err = rsa.SignPKCS1v15(rand.Reader, k, ch, d)
		}
		if err != nil {
			panic(err)
		}
		return sig
	}
	panic("device.go: unsupported key")
}

func devPubKey(spec env.KeySpec, enc protocol.KeyEncoding, key crypto.Signer, cn string) protocol.PublicKey {
	var pk *protocol.PublicKey
	var err error
	if enc == protocol.X5ChainKeyEnc {
		pk, err = protocol.NewPublicKey(spec.Type, env.Chain(key, cn), false)
	} else {
		switch pub := key.Public().(type) {
		case *ecdsa.PublicKey:
			pk, err = protocol.NewPublicKey(spec.Type, pub, enc == protocol.CoseKeyEnc)
		case *rsa.PublicKey:
			pk, err = protocol.NewPublicKey(spec.Type, pub, enc == protocol.CoseKeyEnc)
		}
	}
	if err != nil || pk == nil {
		panic(fmt.Sprint("device.go: public key: ", err))
	}
	return *pk
}

// ---- configurations and fixtures ----

type devCfg struct {
	spec  env.KeySpec
	enc   protocol.KeyEncoding
	chain int
	to1d  bool
}

func (cf devCfg) key() string {
	return fmt.Sprintf("%s/%d/%d/%v", cf.spec.Name, cf.enc, cf.chain, cf.to1d)
}

func (cf devCfg) params() core.Params {
	return core.Params{"key": cf.spec.Name, "enc": strconv.Itoa(int(cf.enc)), "chain": strconv.Itoa(cf.chain), "to1d": b2s(cf.to1d)}
}

func b2s(b bool) string {
	if b {
		return "1"
	}
	return "0"
}

func devCfgOf(p core.Params) devCfg {
	enc, _ := strconv.Atoi(p["enc"])
	chain, _ := strconv.Atoi(p["chain"])
	if chain != 3 {
		chain = 1
	}
	if enc < 1 || enc > 3 {
		enc = int(protocol.X509KeyEnc)
	}
	return devCfg{spec: specByName(p["key"]), enc: protocol.KeyEncoding(enc), chain: chain, to1d: p["to1d"] == "1"}
}

// a device enrolled by the real DI service whose voucher the owner service holds, with the redirect blob if wanted.
// A fixture is used by successive cases until a run reaches ProveDevice (after which the owner may replace the voucher).
type devFixture struct {
	dev  *env.Device
	ov   *fdo.Voucher // the voucher the owner serves
	to1d *cose.Sign1[protocol.To1d, []byte]
}

var devPool = map[string]*devFixture{}

func devExtend(ov *fdo.Voucher, enc protocol.KeyEncoding, signer, next crypto.Signer, cn string) (*fdo.Voucher, error) {
	if enc == protocol.X5ChainKeyEnc {
		return fdo.ExtendVoucher(ov, signer, env.Chain(next, cn), nil)
	}
	switch pub := next.Public().(type) {
	case *ecdsa.PublicKey:
		return fdo.ExtendVoucher(ov, signer, pub, nil)
	case *rsa.PublicKey:
		return fdo.ExtendVoucher(ov, signer, pub, nil)
	}
	return nil, fmt.Errorf("unsupported key")
}

// devChain3 rebuilds a voucher as mfg -> o2 -> o3 -> owner from the header the DI service made.
func devChain3(base *fdo.Voucher, spec env.KeySpec, enc protocol.KeyEncoding) (*fdo.Voucher, error) {
	z := *base
	z.Entries = nil
	roles := []string{"mfg", "o2", "o3", "owner"}
	cur := &z
	for i := 0; i+1 < len(roles); i++ {
		next, err := devExtend(cur, enc, env.Key(spec, roles[i]), env.Key(spec, roles[i+1]), roles[i+1])
		if err != nil {
			return nil, fmt.Errorf("extension %d: %w", i, err)
		}
		cur = next
	}
	return cur, nil
}

// devEnroll runs DI for a new device and leaves a voucher of the wanted length with the owner service.
func devEnroll(ctx context.Context, e *env.Env, cf devCfg) (*env.Device, *fdo.Voucher, string) {
	dev, err := e.NewDevice(ctx, cf.enc)
	if err != nil {
		return nil, nil, "err-di " + err.Error()
	}
	ov, err := e.DB.Voucher(ctx, dev.Cred.GUID)
	if err != nil {
		return nil, nil, "err-voucher " + err.Error()
	}
	if cf.chain == 3 {
		ov3, err := devChain3(ov, cf.spec, cf.enc)
		if err != nil {
			return nil, nil, "err-extend " + err.Error()
		}
		if _, err := e.DB.RemoveVoucher(ctx, dev.Cred.GUID); err != nil {
			return nil, nil, "err-store " + err.Error()
		}
		if err := e.DB.AddVoucher(ctx, ov3); err != nil {
			return nil, nil, "err-store " + err.Error()
		}
		ov = ov3
	}
	return dev, ov, ""
}

func devFixtureFor(ctx context.Context, e *env.Env, cf devCfg) (*devFixture, string) {
	if fx := devPool[cf.key()]; fx != nil {
		return fx, ""
	}
	dev, ov, es := devEnroll(ctx, e, cf)
	if es != "" {
		return nil, es
	}
	fx := &devFixture{dev: dev, ov: ov}
	if cf.to1d {
		if _, err := e.TO0(ctx, dev.Cred.GUID, []protocol.RvTO2Addr{{DNSAddress: strp("owner.test"), Port: 8043, TransportProtocol: protocol.HTTPSTransport}}); err != nil {
			return nil, "err-to0 " + err.Error()
		}
		to1d, err := e.TO1(ctx, dev)
		if err != nil {
			return nil, "err-to1 " + err.Error()
		}
		fx.to1d = to1d
	}
	devPool[cf.key()] = fx
	return fx, ""
}

// ---- what a run saw ----

type devMsg struct {
	typ  int
	body []byte
}

type devRun struct {
	h61, d61     devMsg   // the owner's answer to HelloDevice: as served, as delivered
	h63, d63     []devMsg // the answers to GetOVNextEntry
	hTo1d, dTo1d []byte   // the encoded redirect blob: as registered, as given to the device (nil: none)
	sent64       bool
	err          string
}

var lastDev *devRun

func respType(resp *http.Response) int {
	if resp.StatusCode == http.StatusInternalServerError {
		return 255
	}
	t, err := strconv.Atoi(strings.TrimSpace(resp.Header.Get("Message-Type")))
	if err != nil {
		return 0
	}
	return t
}

func body63(i int, en cose.Sign1Tag[fdo.VoucherEntryPayload, []byte]) []byte {
	return mustEnc(devOvEntry{OVEntryNum: i, OVEntry: en})
}

// ---- alterations ----

func flipAt(b []byte, off, bit int) []byte {
	m := bytes.Clone(b)
	if len(m) == 0 {
		return m
	}
	m[((off%len(m))+len(m))%len(m)] ^= 1 << uint(bit&7)
	return m
}

type devAlt struct {
	cf       devCfg
	fx       *devFixture
	name     string // alteration id
	change   string // 61:s: what is changed
	mode     string // 61:s: a stale signature, b stranger + own key advertised, c stranger, d the real owner key
	idx, j   int
	off, bit int
	arg      int
	sub61    *devMsg      // substitution: a 61 recorded elsewhere
	otherOV  *fdo.Voucher // voucher of another device (same chain shape)
	pss      bool
}

func (a *devAlt) stranger() crypto.Signer { return env.Key(a.cf.spec, "stranger") }
func (a *devAlt) owner() crypto.Signer    { return env.Key(a.cf.spec, "owner") }

// on61 gives what is delivered instead of the owner's ProveOVHdr.
func (a *devAlt) on61(h devMsg) devMsg {
	d := devMsg{h.typ, bytes.Clone(h.body)}
	switch a.name {
	case "61:flip":
		d.body = flipAt(h.body, a.off, a.bit)
	case "61:trunc":
		if len(d.body) > 0 {
			d.body = d.body[:len(d.body)-1]
		}
	case "61:append":
		d.body = append(d.body, byte(a.arg))
	case "61:empty":
		d.body = []byte{}
	case "61:type":
		d.typ = a.arg
	case "61:s":
		d.body = a.struct61(h.body)
	case "sub:other-device", "sub:stale-session":
		if a.sub61 != nil {
			d = devMsg{a.sub61.typ, bytes.Clone(a.sub61.body)}
		}
	}
	return d
}

func flipHashVal(raw cbor.RawBytes) cbor.RawBytes {
	var h protocol.Hash
	if err := cbor.Unmarshal(raw, &h); err != nil || len(h.Value) == 0 {
		panic("device.go: hash field")
	}
	h.Value = bytes.Clone(h.Value)
	h.Value[0] ^= 1
	return mustEnc(h)
}

// struct61: decode the ProveOVHdr, change one thing, sign (or not) as the mode says, encode.
func (a *devAlt) struct61(body []byte) []byte {
	s, err := parseRawS1(body)
	if err != nil || s.payload == nil {
		panic(fmt.Sprint("device.go: honest 61 does not parse: ", err))
	}
	var pl []cbor.RawBytes
	if err := cbor.Unmarshal(s.payload, &pl); err != nil || len(pl) != 8 {
		panic("device.go: honest ovhProof does not parse")
	}
	ovh := func(f func(h *fdo.VoucherHeader)) {
		var b cbor.Bstr[fdo.VoucherHeader]
		if err := cbor.Unmarshal(pl[0], &b); err != nil {
			panic(err)
		}
		f(&b.Val)
		pl[0] = mustEnc(b)
	}
	natural := devAlgFor(a.owner(), a.pss)
	alg := natural
	nullPayload := false
	switch a.change {
	case "none":
	case "nonce":
		var n protocol.Nonce
		_ = cbor.Unmarshal(pl[3], &n)
		n[5] ^= 0x10
		pl[3] = mustEnc(n)
	case "hellohash-val":
		pl[6] = flipHashVal(pl[6])
	case "hellohash-alg":
		var h protocol.Hash
		_ = cbor.Unmarshal(pl[6], &h)
		if h.Algorithm == protocol.Sha256Hash {
			h.Algorithm = protocol.Sha384Hash
		} else {
			h.Algorithm = protocol.Sha256Hash
		}
		pl[6] = mustEnc(h)
	case "ovh-guid":
		ovh(func(h *fdo.VoucherHeader) { h.GUID[3] ^= 1 })
	case "ovh-devinfo":
		ovh(func(h *fdo.VoucherHeader) { h.DeviceInfo += "x" })
	case "ovh-mfgkey":
		ovh(func(h *fdo.VoucherHeader) {
			h.ManufacturerKey = devPubKey(a.cf.spec, a.cf.enc, a.stranger(), "stranger")
		})
	case "other-voucher", "other-voucher-hmacalg":
		// the whole voucher of another device of the same manufacturer and owner, presented for THIS session (header, HMAC,
		// entry count; the entries follow in on63): only the header HMAC under this device's secret tells them apart
		if a.otherOV != nil {
			pl[0] = mustEnc(a.otherOV.Header)
			pl[1] = mustEnc(uint8(len(a.otherOV.Entries)))
			pl[2] = mustEnc(a.otherOV.Hmac)
		}
	case "hmac-val":
		pl[2] = flipHashVal(pl[2])
	case "hmac-alg-sha", "hmac-alg-other", "hmac-alg-unknown":
		// the header HMAC tagged with an identifier the device has no HMAC for: a plain hash id, the other HMAC size, an
		// unknown number (the value stays: whatever the device does, it cannot have verified it)
		var h protocol.Hash
		if err := cbor.Unmarshal(pl[2], &h); err != nil {
			panic("device.go: hmac field")
		}
		switch a.change {
		case "hmac-alg-sha":
			h.Algorithm = protocol.Sha256Hash
		case "hmac-alg-other":
			if h.Algorithm == protocol.HmacSha256Hash {
				h.Algorithm = protocol.HmacSha384Hash
			} else {
				h.Algorithm = protocol.HmacSha256Hash
			}
		default:
			h.Algorithm = 99
		}
		pl[2] = mustEnc(h)
	case "num+1", "num-1", "num0":
		var n uint8
		_ = cbor.Unmarshal(pl[1], &n)
		switch a.change {
		case "num+1":
			n++
		case "num-1":
			n--
		default:
			n = 0
		}
		pl[1] = mustEnc(n)
	case "kexa":
		var x []byte
		_ = cbor.Unmarshal(pl[5], &x)
		pl[5] = mustEnc(flipAt(x, len(x)/2, 2))
	case "kexa-fresh": // another well-formed parameter of the same suite
		rsaPub, _ := a.owner().Public().(*rsa.PublicKey)
		x, err := env.DefaultKex(a.cf.spec).New(nil, kex.A128GcmCipher).Parameter(rand.Reader, rsaPub)
		if err != nil {
			panic(err)
		}
		pl[5] = mustEnc(x)
	case "siginfo":
		pl[4] = mustEnc(devSigInfo{Type: cose.SignatureAlgorithm(devOtherAlg(natural)), Info: []byte{1}})
	case "maxmsg":
		pl[7] = mustEnc(uint16(1))
	case "no256":
		delete(s.unprot, 256)
	case "no257":
		delete(s.unprot, 257)
	case "alg":
		alg = devOtherAlg(natural)
		s.prot = devProt(alg)
	case "payload-null":
		nullPayload = true
	case "untagged":
		s.tagged = false
	default:
		panic("device.go: unknown change " + a.change)
	}
	s.payload = mustEnc(pl)
	var signer crypto.Signer
	switch a.mode {
	case "b":
		signer = a.stranger()
		s.unprot[257] = mustEnc(devPubKey(a.cf.spec, a.cf.enc, a.stranger(), "stranger"))
		if a.change == "no257" {
			delete(s.unprot, 257)
		}
	case "c":
		signer = a.stranger()
	case "d":
		signer = a.owner()
	}
	if signer != nil {
		s.prot = devProt(alg)
		s.sig = devSign(signer, alg, s.prot, s.payload)
	}
	if nullPayload {
		s.payload = nil
	}
	return s.bytes()
}

// on63 gives what is delivered instead of the owner's k-th OVNextEntry.
func (a *devAlt) on63(k int, h devMsg) devMsg {
	d := devMsg{h.typ, bytes.Clone(h.body)}
	if a.name == "61:s" && strings.HasPrefix(a.change, "other-voucher") && a.otherOV != nil && k < len(a.otherOV.Entries) {
		d.body = body63(k, a.otherOV.Entries[k])
		return d
	}
	if !strings.HasPrefix(a.name, "63:") {
		return d
	}
	if a.name == "63:swap" {
		if (k == a.idx || k == a.j) && a.idx < len(a.fx.ov.Entries) && a.j < len(a.fx.ov.Entries) {
			from := a.j
			if k == a.j {
				from = a.idx
			}
			d.body = body63(k, a.fx.ov.Entries[from])
		}
		return d
	}
	if k != a.idx {
		return d
	}
	entry := func(f func(s *rawS1)) {
		var parts []cbor.RawBytes
		if err := cbor.Unmarshal(h.body, &parts); err != nil || len(parts) != 2 {
			panic("device.go: honest 63 does not parse")
		}
		s, err := parseRawS1(parts[1])
		if err != nil || s.payload == nil {
			panic("device.go: honest entry does not parse")
		}
		f(s)
		parts[1] = s.bytes()
		d.body = mustEnc(parts)
	}
	payload := func(s *rawS1, f func(pl []cbor.RawBytes)) {
		var pl []cbor.RawBytes
		if err := cbor.Unmarshal(s.payload, &pl); err != nil || len(pl) != 4 {
			panic("device.go: honest entry payload does not parse")
		}
		f(pl)
		s.payload = mustEnc(pl)
	}
	switch a.name {
	case "63:flip":
		d.body = flipAt(h.body, a.off, a.bit)
	case "63:trunc":
		if len(d.body) > 0 {
			d.body = d.body[:len(d.body)-1]
		}
	case "63:append":
		d.body = append(d.body, byte(a.arg))
	case "63:empty":
		d.body = []byte{}
	case "63:num":
		var parts []cbor.RawBytes
		if err := cbor.Unmarshal(h.body, &parts); err != nil || len(parts) != 2 {
			panic("device.go: honest 63 does not parse")
		}
		parts[0] = mustEnc(k + a.arg)
		d.body = mustEnc(parts)
	case "63:sigflip":
		entry(func(s *rawS1) { s.sig = flipAt(s.sig, len(s.sig)/2, 2) })
	case "63:prevhash":
		entry(func(s *rawS1) { payload(s, func(pl []cbor.RawBytes) { pl[0] = flipHashVal(pl[0]) }) })
	case "63:hdrhash":
		entry(func(s *rawS1) { payload(s, func(pl []cbor.RawBytes) { pl[1] = flipHashVal(pl[1]) }) })
	case "63:pubkey":
		entry(func(s *rawS1) {
			payload(s, func(pl []cbor.RawBytes) { pl[3] = mustEnc(devPubKey(a.cf.spec, a.cf.enc, a.stranger(), "stranger")) })
		})
	case "63:resigned-stranger":
		entry(func(s *rawS1) {
			alg := devAlgFor(a.stranger(), a.pss)
			s.prot = devProt(alg)
			s.sig = devSign(a.stranger(), alg, s.prot, s.payload)
		})
	case "63:pubkey-resigned-stranger": // the stranger inserts his own key and signs the entry himself
		entry(func(s *rawS1) {
			payload(s, func(pl []cbor.RawBytes) { pl[3] = mustEnc(devPubKey(a.cf.spec, a.cf.enc, a.stranger(), "stranger")) })
			alg := devAlgFor(a.stranger(), a.pss)
			s.prot = devProt(alg)
			s.sig = devSign(a.stranger(), alg, s.prot, s.payload)
		})
	case "63:other-device":
		if a.otherOV != nil && len(a.otherOV.Entries) > 0 {
			i := k
			if i >= len(a.otherOV.Entries) {
				i = len(a.otherOV.Entries) - 1
			}
			d.body = body63(k, a.otherOV.Entries[i])
		}
	case "63:type":
		d.typ = a.arg
	default:
		panic("device.go: unknown alteration " + a.name)
	}
	return d
}

// onTo1d gives the blob handed to the device instead of the registered one.
func (a *devAlt) onTo1d(orig *cose.Sign1[protocol.To1d, []byte]) *cose.Sign1[protocol.To1d, []byte] {
	var t cose.Sign1[protocol.To1d, []byte]
	if err := cbor.Unmarshal(mustEnc(orig), &t); err != nil {
		panic("device.go: to1d copy: " + err.Error())
	}
	resign := func(k crypto.Signer) {
		var opts crypto.SignerOpts
		if _, isEC := k.Public().(*ecdsa.PublicKey); !isEC {
			opts = rawSignOpts(k, a.pss)
		}
		t.Signature, t.Protected = nil, nil
		if err := t.Sign(k, nil, nil, opts); err != nil {
			panic(err)
		}
	}
	switch a.name {
	case "to1d:payload":
		t.Payload.Val.RV[0].Port++
	case "to1d:hash":
		t.Payload.Val.To0dHash.Value[0] ^= 1
	case "to1d:sig-flip":
		t.Signature[len(t.Signature)/2] ^= 4
	case "to1d:sig-short":
		t.Signature = t.Signature[:len(t.Signature)-2]
	case "to1d:resigned-stranger":
		resign(a.stranger())
	case "to1d:payload-resigned-stranger":
		t.Payload.Val.RV[0].Port++
		resign(a.stranger())
	case "to1d:resigned-other-curve":
		other := env.P384
		if a.cf.spec.Type == protocol.Secp384r1KeyType {
			other = env.P256
		}
		resign(env.Key(other, "stranger"))
	case "to1d:alg-removed":
		delete(t.Protected, cose.AlgLabel)
	case "to1d:payload-null":
		t.Payload = nil
	}
	return &t
}

// ---- the semantic content of what was delivered, as the library decodes it (for the monitor) ----

func sem61(m devMsg) string {
	var s cose.Sign1Tag[devOvhProof, []byte]
	if err := cbor.NewDecoder(bytes.NewReader(m.body)).Decode(&s); err != nil {
		return fmt.Sprintf("undecodable %d %x", m.typ, m.body)
	}
	pl := "null"
	if s.Payload != nil {
		pl = fmt.Sprintf("%x", mustEnc(s.Payload.Val))
	}
	key := "nokey"
	var pk protocol.PublicKey
	if ok, err := s.Unprotected.Parse(cose.Label{Int64: 257}, &pk); ok && err == nil {
		if pub, err := pk.Public(); err == nil && pub != nil {
			if id, ok := keyID(pub); ok {
				key = id
			}
		}
	}
	var n protocol.Nonce
	has, err := s.Unprotected.Parse(cose.Label{Int64: 256}, &n)
	return fmt.Sprintf("%d|%x|%s|%x|%s|%v", m.typ, mustEnc(s.Protected), pl, s.Signature, key, has && err == nil)
}

func sem63(m devMsg) string {
	var e devOvEntry
	if err := cbor.NewDecoder(bytes.NewReader(m.body)).Decode(&e); err != nil {
		return fmt.Sprintf("undecodable %d %x", m.typ, m.body)
	}
	pl := "null"
	if e.OVEntry.Payload != nil {
		pl = fmt.Sprintf("%x", mustEnc(e.OVEntry.Payload.Val))
	}
	return fmt.Sprintf("%d|%d|%x|%s|%x", m.typ, e.OVEntryNum, mustEnc(e.OVEntry.Protected), pl, e.OVEntry.Signature)
}

func semTo1d(b []byte) string {
	if b == nil {
		return "none"
	}
	var t cose.Sign1[protocol.To1d, []byte]
	if err := cbor.Unmarshal(b, &t); err != nil {
		return fmt.Sprintf("undecodable %x", b)
	}
	pl := "null"
	if t.Payload != nil {
		pl = fmt.Sprintf("%x", mustEnc(t.Payload.Val))
	}
	return fmt.Sprintf("%x|%s|%x", mustEnc(t.Protected), pl, t.Signature)
}

// sameContent: everything delivered decodes to what the owner served (only encodings or unbound parts differ).
func (r *devRun) sameContent() (same bool) {
	defer func() {
		if recover() != nil {
			same = false
		}
	}()
	if sem61(r.h61) != sem61(r.d61) || len(r.h63) != len(r.d63) || semTo1d(r.hTo1d) != semTo1d(r.dTo1d) {
		return false
	}
	for i := range r.h63 {
		if sem63(r.h63[i]) != sem63(r.d63[i]) {
			return false
		}
	}
	return true
}

// rawDiff names the first place where the bytes delivered differ from the bytes served (for the histogram of accepted
// alterations that left the content alone).
func (r *devRun) rawDiff() (what string) {
	defer func() {
		if recover() != nil {
			what = "?"
		}
	}()
	s1 := func(hb, db []byte, pre string) string {
		h, err1 := parseRawS1(hb)
		d, err2 := parseRawS1(db)
		switch {
		case err1 != nil || err2 != nil:
			return pre + "framing"
		case !bytes.Equal(h.prot, d.prot):
			return pre + "protected-encoding"
		case !bytes.Equal(h.payload, d.payload):
			return pre + "payload-encoding"
		case !bytes.Equal(h.sig, d.sig):
			return pre + "signature-encoding"
		}
		for k, v := range h.unprot {
			if !bytes.Equal(v, d.unprot[k]) {
				return fmt.Sprintf("%sunprotected-%d", pre, k)
			}
		}
		if len(h.unprot) != len(d.unprot) {
			return pre + "unprotected-extra"
		}
		return pre + "framing"
	}
	if r.h61.typ != r.d61.typ {
		return "61-type"
	}
	if !bytes.Equal(r.h61.body, r.d61.body) {
		if bytes.HasPrefix(r.d61.body, r.h61.body) {
			return "61-trailing-bytes"
		}
		return s1(r.h61.body, r.d61.body, "61-")
	}
	for i := range r.h63 {
		if i >= len(r.d63) || bytes.Equal(r.h63[i].body, r.d63[i].body) {
			continue
		}
		if bytes.HasPrefix(r.d63[i].body, r.h63[i].body) {
			return "63-trailing-bytes"
		}
		var hp, dp []cbor.RawBytes
		if cbor.Unmarshal(r.h63[i].body, &hp) != nil || cbor.Unmarshal(r.d63[i].body, &dp) != nil || len(hp) != 2 || len(dp) != 2 {
			return "63-framing"
		}
		if !bytes.Equal(hp[0], dp[0]) {
			return "63-number-encoding"
		}
		return s1(hp[1], dp[1], "63-entry-")
	}
	if !bytes.Equal(r.hTo1d, r.dTo1d) {
		return "to1d-encoding"
	}
	return "nothing"
}

// ---- the case kind ----

func pint(p core.Params, k string) int {
	n, _ := strconv.Atoi(p[k])
	return n
}

// record61 runs the library's TO2 client for a device and keeps the owner's ProveOVHdr; the device is given an error
// instead, so the session ends there and the voucher stays.
func record61(ctx context.Context, e *env.Env, dev *env.Device, spec env.KeySpec) *devMsg {
	var rec *devMsg
	e.RT.RespHook = func(mt int, resp *http.Response, body []byte) []byte {
		if mt == 60 && rec == nil {
			rec = &devMsg{respType(resp), bytes.Clone(body)}
			resp.Header.Set("Message-Type", "255")
			return mustEnc(protocol.ErrorMessage{Code: protocol.InternalServerErrCode, PrevMsgType: 60, ErrString: "recorded", Timestamp: time.Now().Unix()})
		}
		return body
	}
	defer func() { e.RT.RespHook = nil }()
	_, _ = e.TO2(ctx, dev, nil, dev.TO2Config(env.DefaultKex(spec), kex.A128GcmCipher))
	return rec
}

func evalVerifyOwner(p core.Params) (line, impl string) {
	lastDev = nil
	if p["lineonly"] != "" {
		return devKind, ""
	}
	cf := devCfgOf(p)
	e, err := srvEnv(cf.spec)
	if err != nil {
		return devKind, "err-env " + err.Error()
	}
	ctx, cancel := context.WithTimeout(context.Background(), time.Minute)
	defer cancel()
	e.RT.Hook, e.RT.RespHook = nil, nil
	fx, es := devFixtureFor(ctx, e, cf)
	if es != "" {
		return devKind, es
	}
	a := &devAlt{cf: cf, fx: fx, name: p["alt"], change: p["change"], mode: p["mode"], idx: pint(p, "idx"), j: pint(p, "j"),
		off: pint(p, "off"), bit: pint(p, "bit"), arg: pint(p, "arg"), pss: cf.spec.Type == protocol.RsaPssKeyType}
	if a.name == "" {
		a.name = "none"
	}
	// what some alterations need from elsewhere
	switch a.name {
	case "sub:other-device", "63:other-device":
		oc := cf
		oc.to1d = false
		odev, oov, es := devEnroll(ctx, e, oc)
		if es != "" {
			return devKind, es
		}
		a.otherOV = oov
		if a.name == "sub:other-device" {
			if a.sub61 = record61(ctx, e, odev, cf.spec); a.sub61 == nil {
				return devKind, "err-record the other device's session gave no 61"
			}
		}
	case "61:s":
		if strings.HasPrefix(a.change, "other-voucher") {
			oc := cf
			oc.to1d = false
			_, oov, es := devEnroll(ctx, e, oc)
			if es != "" {
				return devKind, es
			}
			if a.change == "other-voucher-hmacalg" && len(oov.Entries) == 1 && oov.Entries[0].Payload != nil {
				// the other device tagged its header HMAC with a plain hash identifier when it was manufactured (the
				// manufacturer cannot check the HMAC): a voucher that is consistent in itself — entry 0 covers that tag
				cp := *oov
				cp.Hmac.Algorithm = protocol.Sha256Hash
				if len(cp.Hmac.Value) != 32 {
					cp.Hmac.Algorithm = protocol.Sha384Hash
				}
				alg := cp.Entries[0].Payload.Val.PreviousHash.Algorithm
				hh := alg.HashFunc().New()
				hh.Write(mustEnc(&cp.Header.Val))
				hh.Write(mustEnc(cp.Hmac))
				pl := cp.Entries[0].Payload.Val
				pl.PreviousHash = protocol.Hash{Algorithm: alg, Value: hh.Sum(nil)}
				mfg := env.Key(cf.spec, "mfg")
				salg := devAlgFor(mfg, a.pss)
				prot := devProt(salg)
				body := mustEnc(pl)
				raw := &rawS1{tagged: true, prot: prot, unprot: map[int64]cbor.RawBytes{}, payload: body, sig: devSign(mfg, salg, prot, body)}
				var en cose.Sign1Tag[fdo.VoucherEntryPayload, []byte]
				if err := cbor.Unmarshal(raw.bytes(), &en); err != nil {
					return devKind, "err-rebuild-entry " + err.Error()
				}
				cp.Entries = []cose.Sign1Tag[fdo.VoucherEntryPayload, []byte]{en}
				if err := cp.VerifyEntries(); err != nil {
					return devKind, "err-rebuilt-voucher-inconsistent " + err.Error()
				}
				oov = &cp
			}
			a.otherOV = oov
		}
	case "sub:stale-session":
		if a.sub61 = record61(ctx, e, fx.dev, cf.spec); a.sub61 == nil {
			return devKind, "err-record the earlier session gave no 61"
		}
	}
	run := &devRun{}
	var to1d *cose.Sign1[protocol.To1d, []byte]
	if cf.to1d {
		run.hTo1d = mustEnc(fx.to1d)
		to1d = fx.to1d
		if strings.HasPrefix(a.name, "to1d:") {
			to1d = a.onTo1d(fx.to1d)
		}
		run.dTo1d = mustEnc(to1d)
	}
	var hello []byte
	has61 := false
	n62 := 0
	e.RT.Reset()
	e.RT.Hook = func(mt int, _ *http.Request, body []byte, _ func([]byte, http.Header) *http.Response) *http.Response {
		if mt == 60 && hello == nil {
			hello = bytes.Clone(body)
		}
		if mt == 64 {
			run.sent64 = true
		}
		return nil
	}
	e.RT.RespHook = func(mt int, resp *http.Response, body []byte) []byte {
		switch mt {
		case 60:
			if has61 {
				return body
			}
			has61 = true
			run.h61 = devMsg{respType(resp), bytes.Clone(body)}
			run.d61 = run.h61
			if run.h61.typ == 61 {
				run.d61 = a.on61(run.h61)
			}
			if run.d61.typ != run.h61.typ {
				resp.Header.Set("Message-Type", strconv.Itoa(run.d61.typ))
			}
			return run.d61.body
		case 62:
			k := n62
			n62++
			h := devMsg{respType(resp), bytes.Clone(body)}
			d := h
			if h.typ == 63 {
				d = a.on63(k, h)
			}
			run.h63, run.d63 = append(run.h63, h), append(run.d63, d)
			if d.typ != h.typ {
				resp.Header.Set("Message-Type", strconv.Itoa(d.typ))
			}
			return d.body
		}
		return body
	}
	// the device's own side of the agreement: a credential naming another manufacturer key, or another HMAC secret
	tdev := fx.dev
	switch p["alt"] {
	case "cred:keyhash":
		d2, c2 := *fx.dev, *fx.dev.Cred
		c2.PublicKeyHash.Value = bytes.Clone(c2.PublicKeyHash.Value)
		c2.PublicKeyHash.Value[0] ^= 1
		d2.Cred = &c2
		tdev = &d2
	case "cred:secret":
		d2 := *fx.dev
		d2.Secret = bytes.Clone(d2.Secret)
		d2.Secret[0] ^= 1
		tdev = &d2
	}
	_, terr := e.TO2(ctx, tdev, to1d, tdev.TO2Config(env.DefaultKex(cf.spec), kex.A128GcmCipher))
	e.RT.Hook, e.RT.RespHook = nil, nil
	if terr != nil {
		run.err = terr.Error()
	}
	if run.sent64 {
		delete(devPool, cf.key()) // the owner may have replaced the voucher: the next case enrolls a new device
	}
	lastDev = run
	if hello == nil || !has61 {
		return devKind, "err-no-hello " + run.err
	}
	var hm devHello
	if err := cbor.Unmarshal(hello, &hm); err != nil {
		return devKind, "err-hello-decode " + err.Error()
	}
	var sb strings.Builder
	kh := tdev.Cred.PublicKeyHash
	// the fact kex_ok: the configured suite is valid and available AND the owner's key-exchange parameter, as delivered, is
	// one the device can answer (a malformed xA makes the device fail while computing its own parameter, before 64 is sent)
	kexok := 1
	func() {
		defer func() {
			if recover() != nil {
				kexok = 0
			}
		}()
		var m61 cose.Sign1Tag[devOVHProofXA, []byte]
		if cbor.NewDecoder(bytes.NewReader(run.d61.body)).Decode(&m61) != nil || m61.Payload == nil {
			return // the model aborts on its own account
		}
		sess := env.DefaultKex(cf.spec).New(bytes.Clone(m61.Payload.Val.KeyExchangeA), kex.A128GcmCipher)
		if sess == nil {
			kexok = 0
			return
		}
		rsaOwner, _ := env.Key(cf.spec, "owner").Public().(*rsa.PublicKey)
		if _, err := sess.Parameter(rand.Reader, rsaOwner); err != nil {
			kexok = 0
		}
	}()
	fmt.Fprintf(&sb, "%s b:%x z:%s b:%x b:%x b:%x n:%d (n:%x b:%x) (", devKind, tdev.Secret, zhex(int64(kh.Algorithm)), kh.Value, hello,
		hm.NonceTO2ProveOV[:], kexok, run.d61.typ, run.d61.body)
	for i, m := range run.d63 {
		if i > 0 {
			sb.WriteByte(' ')
		}
		fmt.Fprintf(&sb, "(n:%x b:%x)", m.typ, m.body)
	}
	sb.WriteString(") ")
	if to1d == nil {
		sb.WriteString("()")
	} else {
		fmt.Fprintf(&sb, "(b:%x)", run.dTo1d)
	}
	impl = "abort"
	if run.sent64 {
		impl = "accept"
	}
	return sb.String(), impl
}

func registerDeviceKinds(c *core.Ctx) {
	c.Register(&core.Kind{Name: devKind, Eval: evalVerifyOwner})
	registerTpmKinds(c)
}

// ---- the runner ----

var dev61Changes = []string{"none", "nonce", "hellohash-val", "hellohash-alg", "ovh-guid", "ovh-devinfo", "ovh-mfgkey", "hmac-val", "hmac-alg-sha", "hmac-alg-other", "hmac-alg-unknown", "other-voucher", "other-voucher-hmacalg", "num+1", "num-1", "num0",
	"kexa", "kexa-fresh", "siginfo", "maxmsg", "no256", "no257", "alg", "payload-null", "untagged"}

var devTo1dAlts = []string{"to1d:payload", "to1d:hash", "to1d:sig-flip", "to1d:sig-short", "to1d:resigned-stranger", "to1d:payload-resigned-stranger",
	"to1d:resigned-other-curve", "to1d:alg-removed", "to1d:payload-null"}

// RunC01: the device goes on to ProveDevice only for the owner its voucher names.
func RunC01(c *core.Ctx) {
	registerDeviceKinds(c)
	defer closeSrvEnvs()
	defer func() { devPool = map[string]*devFixture{} }()
	c.Trivial = func(o core.Obs) bool { return strings.HasPrefix(o.Impl, "err") }
	if tpmOnly() {
		runC01TPM(c)
		return
	}
	c.Rep.Rule = "cases = runs of the library's TO2 client (fdo.TO2) for a device enrolled by the real DI service against the real owner service (SQLite backend, " +
		"real HTTP handler), for key types x public-key encodings (quick: P-256/X509, P-384/COSE, RSA2048/X5CHAIN; thorough: all), voucher chains of 1 entry " +
		"(as DI leaves it) and 3 entries (mfg->o2->o3->owner via ExtendVoucher), with and without a to1d blob obtained by real TO0+TO1; a man in the middle " +
		"alters one thing per run: ProveOVHdr (61) at the byte level (one bit per byte, quick: a stride of bytes / thorough: every byte, EC every bit; one " +
		"byte less, one more, empty, Message-Type 255/63/65), 61 decoded-changed-encoded for each of 20 changes (nonce, HelloDevice hash value/alg, header " +
		"GUID/DeviceInfo/manufacturer key, HMAC, entry count +1/-1/0, key exchange parameter, SigInfoB, max message size, headers 256/257 removed, " +
		"protected alg swapped, null payload, tag 18 removed, nothing) x 4 signing modes (stale signature; stranger signs and advertises himself; stranger " +
		"signs, owner key advertised; the real owner key re-signs), every OVNextEntry (63) (bit flips, entry number, signature, PreviousHash, HeaderHash, " +
		"PublicKey, re-signed by a stranger, entries swapped, entry of another device's voucher, type 255), the to1d blob (payload, hash, signature bit, short " +
		"signature, re-signed by a stranger / by a key of another curve, alg header removed, null payload), and a complete 61 of another device's / an earlier " +
		"session substituted. model = extracted verify_owner over the bytes the device sent (HelloDevice) and was given; observation = did the device send " +
		"ProveDevice (64). monitors on the implementation: honest runs reach 64; a run reaches 64 after an alteration only if everything delivered decodes to " +
		"the content the owner served (the real-owner re-signing mode is left to the model). non-trivial = the device sent HelloDevice; distinct = distinct case line"

	type kc struct {
		spec env.KeySpec
		enc  protocol.KeyEncoding
	}
	var cfgs []kc
	for _, s := range env.AllKeys {
		for _, en := range []protocol.KeyEncoding{protocol.X509KeyEnc, protocol.X5ChainKeyEnc, protocol.CoseKeyEnc} {
			if en == protocol.CoseKeyEnc && s.Bits != 0 {
				continue
			}
			cfgs = append(cfgs, kc{s, en})
		}
	}
	if c.Quick() {
		cfgs = []kc{{env.P256, protocol.X509KeyEnc}, {env.P384, protocol.CoseKeyEnc}, {env.RSA2048, protocol.X5ChainKeyEnc}}
	}

	try := func(cf devCfg, class string, extra core.Params) (core.Obs, *devRun) {
		p := cf.params()
		for k, v := range extra {
			p[k] = v
		}
		o := c.Do(devKind, p, class)
		r := lastDev
		c.Count("verdict_by_class", class+" -> "+firstWordOf(o.Impl))
		if p["mode"] == "d" {
			c.Count("real_owner_resigned", p["change"]+" -> "+firstWordOf(o.Impl))
		}
		alt := p["alt"]
		what := alt
		if alt == "61:s" {
			what = "61:" + p["change"] + "/" + p["mode"]
		}
		switch {
		case strings.HasPrefix(o.Impl, "err-"):
			c.Fail("harness:"+firstWordOf(o.Impl), o.Impl, devKind, p, o)
		case strings.HasPrefix(o.Impl, "panic"):
			c.Fail("panic@fdo.TO2:"+what, core.PanicText, devKind, p, o)
		case o.Impl == "hang":
			c.Fail("hang@fdo.TO2:"+what, "", devKind, p, o)
		case alt == "none" && o.Impl != "accept":
			detail := "the device did not reach ProveDevice against the unaltered owner"
			if r != nil {
				detail += ": " + r.err
			}
			c.Fail("honest-owner-refused:"+cf.spec.Name, detail, devKind, p, o)
		case alt == "61:s" && strings.HasPrefix(p["change"], "other-voucher") && o.Impl == "accept":
			c.Fail("foreign-voucher-accepted:"+p["change"]+":"+cf.spec.Name, "the device sent ProveDevice although it was shown the voucher of ANOTHER device (its header HMAC cannot verify under this device's secret), correctly signed for this session by the owner", devKind, p, o)
		case strings.HasPrefix(alt, "cred:") && o.Impl == "accept":
			c.Fail("wrong-credential-accepted:"+alt+":"+cf.spec.Name, "the device sent ProveDevice although its credential / secret does not match the voucher it was shown", devKind, p, o)
		case alt != "none" && o.Impl == "accept" && p["mode"] != "d" && r != nil:
			if r.sameContent() {
				c.Count("accepted_with_same_content", class+" "+r.rawDiff())
			} else {
				c.Fail("altered-owner-accepted:"+what+":"+cf.spec.Name, "the device sent ProveDevice although what it was given differs in content from what the owner served", devKind, p, o)
			}
		}
		return o, r
	}
	a := func(kv ...any) core.Params {
		p := core.Params{}
		for i := 0; i+1 < len(kv); i += 2 {
			p[fmt.Sprint(kv[i])] = fmt.Sprint(kv[i+1])
		}
		return p
	}
	// flips: one bit (thorough, EC: every bit) in the bytes of a message at a stride
	flips := func(n, cap int, allBits bool, f func(off, bit int)) {
		stride := 1
		if cap > 0 && n > cap {
			stride = (n + cap - 1) / cap
		}
		if c.Quick() && stride < 3 {
			stride = 3
		}
		for off := 0; off < n; off += stride {
			if allBits {
				for bit := 0; bit < 8; bit++ {
					f(off, bit)
				}
			} else {
				f(off, c.Rng.Intn(8))
			}
		}
	}

	for _, k := range cfgs {
		if _, err := srvEnv(k.spec); err != nil {
			c.Note("env %s: %v", k.spec.Name, err)
			continue
		}
		ec := k.spec.Bits == 0
		t0 := time.Now()
		n0 := c.Rep.Evaluations
		// thorough: every byte of the EC messages (every bit for the short encodings), every other byte of the long RSA ones
		thoroughCap := 0
		if !ec {
			thoroughCap = 1500
		}
		for _, chain := range []int{1, 3} {
			for _, with := range []bool{false, true} {
				cf := devCfg{spec: k.spec, enc: k.enc, chain: chain, to1d: with}
				// in the quick tier two of the four shapes get the whole treatment
				full := !c.Quick() || (chain == 1 && !with) || (chain == 3 && with)
				o, hr := try(cf, "honest", a("alt", "none"))
				if o.Impl != "accept" || hr == nil {
					continue
				}
				try(cf, "cred:keyhash", a("alt", "cred:keyhash"))
				try(cf, "cred:secret", a("alt", "cred:secret"))
				// 61, byte level
				try(cf, "61:trunc", a("alt", "61:trunc"))
				try(cf, "61:append", a("alt", "61:append", "arg", 0))
				try(cf, "61:append", a("alt", "61:append", "arg", 0xf6))
				try(cf, "61:empty", a("alt", "61:empty"))
				for _, t := range []int{255, 63, 65} {
					try(cf, "61:type", a("alt", "61:type", "arg", t))
				}
				if chain == 1 && !with {
					capN, all := 90, false
					if !c.Quick() {
						capN, all = thoroughCap, ec && k.enc != protocol.X5ChainKeyEnc
					}
					flips(len(hr.h61.body), capN, all, func(off, bit int) { try(cf, "61:flip", a("alt", "61:flip", "off", off, "bit", bit)) })
				}
				// 61, structured
				for _, ch := range dev61Changes {
					for _, mode := range []string{"a", "b", "c", "d"} {
						if mode == "a" && ch == "none" {
							continue
						}
						if !full && !(ch == "none" || (ch == "num-1" && mode == "d") || (ch == "nonce" && mode == "a") || (ch == "hmac-val" && mode == "d")) {
							continue
						}
						try(cf, "61:struct/"+mode, a("alt", "61:s", "change", ch, "mode", mode))
					}
				}
				// 63
				for idx := 0; idx < chain; idx++ {
					if idx < len(hr.h63) && chain == 3 && with {
						capN, all := 30, false
						if !c.Quick() {
							capN, all = thoroughCap, ec && k.enc != protocol.X5ChainKeyEnc
						}
						flips(len(hr.h63[idx].body), capN, all, func(off, bit int) { try(cf, "63:flip", a("alt", "63:flip", "idx", idx, "off", off, "bit", bit)) })
					}
					for _, d := range []int{1, -1} {
						try(cf, "63:num", a("alt", "63:num", "idx", idx, "arg", d))
					}
					for _, n := range []string{"63:sigflip", "63:prevhash", "63:hdrhash", "63:pubkey", "63:resigned-stranger", "63:pubkey-resigned-stranger", "63:other-device"} {
						try(cf, n, a("alt", n, "idx", idx))
					}
					try(cf, "63:type", a("alt", "63:type", "idx", idx, "arg", 255))
					try(cf, "63:trunc", a("alt", "63:trunc", "idx", idx))
					try(cf, "63:append", a("alt", "63:append", "idx", idx, "arg", 0))
					try(cf, "63:empty", a("alt", "63:empty", "idx", idx))
					if !c.Quick() {
						try(cf, "63:type", a("alt", "63:type", "idx", idx, "arg", 61))
					}
					for j := idx + 1; j < chain; j++ {
						try(cf, "63:swap", a("alt", "63:swap", "idx", idx, "j", j))
					}
				}
				// to1d
				if with {
					for _, n := range devTo1dAlts {
						try(cf, n, a("alt", n))
					}
				}
				// substitution of a whole 61
				try(cf, "sub:other-device", a("alt", "sub:other-device"))
				try(cf, "sub:stale-session", a("alt", "sub:stale-session"))
			}
		}
		c.Note("%s enc %d: %d cases in %.1f s", k.spec.Name, k.enc, c.Rep.Evaluations-n0, time.Since(t0).Seconds())
	}
	// the same with a device whose HMAC is computed by a TPM, and TPM commands that fail (device_tpm.go)
	runC01TPM(c)
}

// devOVHProofXA: the ProveOVHdr payload, for reading the key-exchange parameter only.
type devOVHProofXA struct {
	OVH             cbor.RawBytes
	NumOVEntries    uint8
	OVHHmac         cbor.RawBytes
	NonceTO2ProveOV cbor.RawBytes
	SigInfoB        cbor.RawBytes
	KeyExchangeA    []byte
	HelloDeviceHash cbor.RawBytes
	MaxOwnerMsgSize cbor.RawBytes
}
