package props

import (
	"crypto"
	"crypto/ecdsa"
	"crypto/elliptic"
	"crypto/hmac"
	"crypto/rand"
	"crypto/rsa"
	"crypto/sha256"
	"crypto/sha512"
	"encoding/hex"
	"fmt"
	"hash"
	"math/big"
	"strconv"
	"strings"
	"sync"

	"github.com/fido-device-onboard/go-fdo/cbor"
	"github.com/fido-device-onboard/go-fdo/cose"

	"verifharness/internal/core"
)

// ---- key set shared by the COSE / voucher / protocol harnesses ----

type testKey struct {
	Name   string
	Signer crypto.Signer
	Opts   crypto.SignerOpts // signing options the library expects for this key
	Alg    int64             // COSE algorithm id the library will choose
}

var (
	keyOnce sync.Once
	keys    []*testKey
	keyBy   = map[string]*testKey{}
)

func testKeys() []*testKey {
	keyOnce.Do(func() {
		add := func(name string, s crypto.Signer, o crypto.SignerOpts, alg int64) {
			k := &testKey{name, s, o, alg}
			keys = append(keys, k)
			keyBy[name] = k
		}
		p256a, _ := ecdsa.GenerateKey(elliptic.P256(), rand.Reader)
		p256b, _ := ecdsa.GenerateKey(elliptic.P256(), rand.Reader)
		p384a, _ := ecdsa.GenerateKey(elliptic.P384(), rand.Reader)
		p384b, _ := ecdsa.GenerateKey(elliptic.P384(), rand.Reader)
		r2048, _ := rsa.GenerateKey(rand.Reader, 2048)
		r2048b, _ := rsa.GenerateKey(rand.Reader, 2048)
		r3072, _ := rsa.GenerateKey(rand.Reader, 3072)
		add("p256a", p256a, nil, -7)
		add("p256b", p256b, nil, -7)
		add("p384a", p384a, nil, -35)
		add("p384b", p384b, nil, -35)
		add("rs256", r2048, crypto.SHA256, -257)
		add("rs256b", r2048b, crypto.SHA256, -257)
		add("ps256", r2048, &rsa.PSSOptions{SaltLength: rsa.PSSSaltLengthEqualsHash, Hash: crypto.SHA256}, -37)
		add("rs384", r3072, crypto.SHA384, -258)
		add("ps384", r3072, &rsa.PSSOptions{SaltLength: rsa.PSSSaltLengthEqualsHash, Hash: crypto.SHA384}, -38)
	})
	return keys
}

func keyArgs(k *testKey) string {
	id := hex.EncodeToString([]byte(k.Name))
	switch pub := k.Signer.Public().(type) {
	case *ecdsa.PublicKey:
		return fmt.Sprintf("ec n:%x b:%s", (pub.Params().N.BitLen()+7)/8, id)
	case *rsa.PublicKey:
		return "rsa n:0 b:" + id
	}
	return "other n:0 b:" + id
}

func newHash(id string) (crypto.Hash, func() hash.Hash) {
	switch id {
	case "100":
		return crypto.SHA256, sha256.New
	case "180":
		return crypto.SHA384, sha512.New384
	case "200":
		return crypto.SHA512, sha512.New
	}
	return 0, nil
}

func arg(s string) []byte { b, _ := hex.DecodeString(strings.TrimPrefix(s, "b:")); return b }

func init() {
	// verify <keyid> <scheme> <hash> b:<tbs> b:<part>...   — standard library only
	extraOracles["verify"] = func(a []string) string {
		if len(a) < 5 {
			return "0"
		}
		testKeys()
		k := keyBy[string(arg(a[0]))]
		ch, nh := newHash(a[2])
		if k == nil || nh == nil {
			return "0"
		}
		h := nh()
		h.Write(arg(a[3]))
		digest := h.Sum(nil)
		switch pub := k.Signer.Public().(type) {
		case *ecdsa.PublicKey:
			if a[1] != "ecdsa" || len(a) < 6 {
				return "0"
			}
			if ecdsa.Verify(pub, digest, new(big.Int).SetBytes(arg(a[4])), new(big.Int).SetBytes(arg(a[5]))) {
				return "1"
			}
		case *rsa.PublicKey:
			var err error
			switch a[1] {
			case "pkcs1":
				err = rsa.VerifyPKCS1v15(pub, ch, digest, arg(a[4]))
			case "pss":
				err = rsa.VerifyPSS(pub, ch, digest, arg(a[4]), &rsa.PSSOptions{SaltLength: rsa.PSSSaltLengthEqualsHash, Hash: ch})
			default:
				return "0"
			}
			if err == nil {
				return "1"
			}
		}
		return "0"
	}
	extraOracles["hmac"] = func(a []string) string {
		if len(a) < 3 {
			return ""
		}
		_, nh := newHash(a[0])
		if nh == nil {
			return ""
		}
		m := hmac.New(nh, arg(a[1]))
		m.Write(arg(a[2]))
		return hex.EncodeToString(m.Sum(nil))
	}
}

type sign1Raw = cose.Sign1[cbor.RawBytes, []byte]

func registerCoseKinds(c *core.Ctx) {
	c.Register(&core.Kind{Name: "cose.verify", Eval: func(p core.Params) (string, string) {
		testKeys()
		k := keyBy[p["key"]]
		det, aad := "none", "(b b:"+p["aad"]+")"
		if p["detgiven"] != "" {
			det = "(r b:" + p["det"] + ")"
		}
		line := "cose.verify raw " + keyArgs(k) + " b:" + p["obj"] + " " + det + " " + aad
		if p["lineonly"] != "" {
			return line, ""
		}
		obj, _ := hex.DecodeString(p["obj"])
		var s1 sign1Raw
		if err := cbor.Unmarshal(obj, &s1); err != nil {
			return line, "err-decode"
		}
		var payload *cbor.RawBytes
		if p["detgiven"] != "" {
			b, _ := hex.DecodeString(p["det"])
			rb := cbor.RawBytes(b)
			payload = &rb
		}
		aadb, _ := hex.DecodeString(p["aad"])
		ok, err := s1.Verify(k.Signer.Public(), payload, aadb)
		if err != nil {
			return line, "err"
		}
		if ok {
			return line, "ok T"
		}
		return line, "ok F"
	}})
	c.Register(&core.Kind{Name: "cose.mac0", Eval: func(p core.Params) (string, string) {
		alg, _ := strconv.ParseInt(p["alg"], 10, 64)
		z := fmt.Sprintf("%x", alg)
		if alg < 0 {
			z = fmt.Sprintf("-%x", -alg)
		}
		// further protected headers (they must be covered by the tag): a key id (label 4) or a content type (label 3)
		protIn, protOut := "(m)", ""
		var m cose.Mac0[cbor.RawBytes, []byte]
		switch p["prot"] {
		case "kid":
			kid := []byte(p["protval"])
			protIn = fmt.Sprintf("(m ((i z:4) (b b:%x)))", kid)
			protOut = fmt.Sprintf(" ((i z:4) (b b:%x))", kid)
			m.Protected = cose.HeaderMap{cose.Label{Int64: 4}: kid}
		case "ct":
			ct, _ := strconv.ParseInt(p["protval"], 10, 64)
			protIn = fmt.Sprintf("(m ((i z:3) (i z:%x)))", ct)
			protOut = fmt.Sprintf(" ((i z:3) (i z:%x))", ct)
			m.Protected = cose.HeaderMap{cose.Label{Int64: 3}: ct}
		}
		line := "cose.mac0 raw z:" + z + " b:" + p["key"] + " " + protIn + " (r b:" + p["payload"] + ") (b b:" + p["aad"] + ")"
		if p["lineonly"] != "" {
			return line, ""
		}
		key, _ := hex.DecodeString(p["key"])
		pl, _ := hex.DecodeString(p["payload"])
		aad, _ := hex.DecodeString(p["aad"])
		rb := cbor.RawBytes(pl)
		if err := m.Digest(cose.MacAlgorithm(alg), key, &rb, aad); err != nil {
			return line, "err"
		}
		return line, fmt.Sprintf("ok (m ((i z:1) (i z:%s))%s) b:%x", z, protOut, m.Value)
	}})
}

type honest struct {
	key     *testKey
	obj     []byte // CBOR of the Sign1 (payload embedded unless detached)
	payload []byte // raw CBOR payload
	aad     []byte
	det     bool
}

func signHonest(k *testKey, payload, aad []byte, detached bool) (*honest, error) {
	var s1 sign1Raw
	rb := cbor.RawBytes(payload)
	if !detached {
		s1.Payload = cbor.NewByteWrap(rb)
	}
	if err := s1.Sign(k.Signer, &rb, aad, k.Opts); err != nil {
		return nil, err
	}
	obj, err := cbor.Marshal(s1)
	if err != nil {
		return nil, err
	}
	return &honest{k, obj, payload, aad, detached}, nil
}

// semantic parts of a Sign1 object as the implementation decodes them (for the tamper monitor)
func sign1Parts(obj []byte) (prot, payload, sig string, ok bool) {
	var s1 sign1Raw
	if err := cbor.Unmarshal(obj, &s1); err != nil {
		return "", "", "", false
	}
	pb, err := cbor.Marshal(s1.Protected)
	if err != nil {
		return "", "", "", false
	}
	pl := "nil"
	if s1.Payload != nil {
		pl = hex.EncodeToString(s1.Payload.Val)
	}
	return hex.EncodeToString(pb), pl, hex.EncodeToString(s1.Signature), true
}

// RunC13: COSE signatures and MACs verify exactly what was signed, with the right key.
func RunC13(c *core.Ctx) {
	registerCoseKinds(c)
	c.Rep.Rule = "cases = COSE_Sign1 objects produced by the library for ES256/ES384/RS256/RS384/PS256/PS384 over boundary and random payloads, embedded and " +
		"detached, with and without external AAD, then: one bit flipped in every byte (thorough: every bit) of signature / protected header / payload / AAD, " +
		"every foreign key, impossible signature lengths (truncated, padded, r||0000||s), algorithm header swapped / unknown / missing / wrong type, generic CBOR " +
		"mutations; HMAC-256/384 MAC_structure digests incl. wrong key sizes. Model (extracted sign1_verify with stdlib oracle) vs Sign1.Verify; monitor on the " +
		"implementation: honest verifies, anything whose decoded (protected, payload, signature), AAD or key differs does not, nothing panics. " +
		"COSE_Mac0 verification: genuine tunnel messages of the 4 encrypt-then-MAC suites between two real sessions, both directions, tag item rebuilt at byte " +
		"level (every byte flipped, every truncation, extensions, other key / data / context / hash, non-byte-string items, tag missing) x ciphertext untouched / " +
		"altered: the receiver must refuse (model crypter_decrypt vs library on the same bytes, and a monitor on the receiving session alone). " +
		"non-trivial = object decoded; distinct = distinct case line"
	c.Trivial = func(o core.Obs) bool { return o.Impl == "err-decode" }
	ks := testKeys()
	payloads := [][]byte{{0x40}, {0x00}, {0x82, 0x01, 0x43, 1, 2, 3}, {0xa1, 0x01, 0x81, 0xf6}, append([]byte{0x59, 0x4e, 0x20}, make([]byte, 20000)...)}
	for i := 0; i < 3; i++ {
		b, _ := cbor.Marshal(randAny(c.Rng, 3))
		payloads = append(payloads, b)
	}
	aads := [][]byte{nil, {}, {0x01, 0x02}, make([]byte, 300)}
	allBits := !c.Quick()

	check := func(h *honest, k *testKey, obj []byte, det bool, detPayload, aad []byte, meta string) {
		p := core.Params{"key": k.Name, "obj": hex.EncodeToString(obj), "aad": hex.EncodeToString(aad)}
		if det {
			p["detgiven"] = "1"
			p["det"] = hex.EncodeToString(detPayload)
		}
		o := c.Do("cose.verify", p, meta)
		switch {
		case strings.HasPrefix(o.Impl, "panic"):
			c.Fail("panic@cose.Sign1.Verify", core.PanicText, "cose.verify", p, o)
			return
		case o.Impl == "hang":
			c.Fail("hang@cose.Sign1.Verify", "", "cose.verify", p, o)
			return
		}
		// tamper monitor, independent of the model
		hp, hpl, hs, _ := sign1Parts(h.obj)
		mp, mpl, ms, okDec := sign1Parts(obj)
		if !okDec {
			return
		}
		effPayload := func(stored string, det bool, dp []byte) string {
			if det {
				return hex.EncodeToString(dp)
			}
			return stored
		}
		sameKey := fmt.Sprint(k.Signer.Public()) == fmt.Sprint(h.key.Signer.Public())
		same := hp == mp && hs == ms && sameKey && hex.EncodeToString(aad) == hex.EncodeToString(h.aad) &&
			effPayload(hpl, h.det, h.payload) == effPayload(mpl, det, detPayload)
		if same && o.Impl != "ok T" {
			c.Fail("honest-rejected:"+h.key.Name, "an unaltered signature did not verify ("+meta+")", "cose.verify", p, o)
		}
		if !same && o.Impl == "ok T" {
			what := "payload"
			switch {
			case hp != mp:
				what = "protected"
			case hs != ms:
				what = "signature"
			case !sameKey:
				what = "key"
			case hex.EncodeToString(aad) != hex.EncodeToString(h.aad):
				what = "aad"
			}
			c.Fail("altered-accepted:"+what+":"+h.key.Name, "verification succeeded although the "+what+" differs ("+meta+")", "cose.verify", p, o)
		}
	}

	flipEach := func(b []byte, from, to int, f func(m []byte)) {
		// long inputs (the 20 kB payload): every position of the first and last 96 bytes (all structure lives there) and
		// a random sample of the rest; flipping every bit of 20 kB for every key and AAD is billions of bytes of cases
		long := to-from > 2000
		for i := from; i < to && i < len(b); i++ {
			if long && i-from >= 96 && to-i > 96 && c.Rng.Intn(64) != 0 {
				continue
			}
			bits := []int{c.Rng.Intn(8)}
			if allBits {
				bits = []int{0, 1, 2, 3, 4, 5, 6, 7}
			}
			for _, bit := range bits {
				m := append([]byte(nil), b...)
				m[i] ^= 1 << uint(bit)
				f(m)
			}
		}
	}

	for ki, k := range ks {
		for pi, pl := range payloads {
			for ai, aad := range aads {
				if c.Quick() && (ki+pi+ai)%3 != 0 && !(pi == 2 && ai == 0) {
					continue
				}
				// thorough tier: every bit of every byte for a third of the (key, payload, AAD) combinations, one bit per byte
				// for the others (every combination with all bits is a couple of million signature verifications: hours)
				allBits = !c.Quick() && (ki+pi+ai)%3 == 0
				for _, det := range []bool{false, true} {
					h, err := signHonest(k, pl, aad, det)
					if err != nil {
						c.Fail("sign-failed:"+k.Name, err.Error(), "cose.verify", core.Params{"key": k.Name}, core.Obs{})
						continue
					}
					check(h, k, h.obj, det, pl, aad, "honest")
					if !det {
						// the object embeds its payload and the verifier also supplies the payload it expects: the supplied one counts
						other := append(append([]byte{}, pl...), 0x00)
						check(h, k, h.obj, true, other, aad, "embedded-but-other-payload-supplied")
						check(h, k, h.obj, true, pl, aad, "embedded-and-same-payload-supplied")
					}
					if len(pl) > 1000 && c.Quick() {
						continue
					}
					// bit flips over the whole encoded object (covers protected header, payload, signature, structure)
					flipEach(h.obj, 0, len(h.obj), func(m []byte) { check(h, k, m, det, pl, aad, "flip-object") })
					// flips in the detached payload and the AAD
					if det {
						flipEach(pl, 0, len(pl), func(m []byte) { check(h, k, h.obj, true, m, aad, "flip-detached-payload") })
						check(h, k, h.obj, false, nil, aad, "detached-missing")
					}
					flipEach(aad, 0, len(aad), func(m []byte) { check(h, k, h.obj, det, pl, m, "flip-aad") })
					check(h, k, h.obj, det, pl, append(append([]byte{}, aad...), 0), "aad-extended")
					// foreign keys
					for _, fk := range ks {
						if fk != k {
							check(h, fk, h.obj, det, pl, aad, "foreign-key")
						}
					}
					// structural: signature lengths and algorithm header
					var s1 sign1Raw
					_ = cbor.Unmarshal(h.obj, &s1)
					sig := append([]byte(nil), s1.Signature...)
					n := len(sig) / 2
					variants := [][]byte{{}, sig[:1], sig[:2], sig[:n-1], sig[:n], sig[:n+1], sig[:len(sig)-2], append(append([]byte{}, sig...), 0, 0),
						append(append(append([]byte{}, sig[:n]...), 0, 0), sig[n:]...), append(append([]byte{0, 0}, sig[:n]...), sig[n:]...),
						append(append([]byte{}, sig...), sig...), append(append([]byte{}, sig...), 0),
						// the same r and s, each zero-padded in front (the same integers in a longer encoding)
						append(append(append([]byte{0}, sig[:n]...), 0), sig[n:]...),
						append(append(append([]byte{0, 0}, sig[:n]...), 0, 0), sig[n:]...)}
					for _, v := range variants {
						s2 := s1
						s2.Signature = v
						if b, err := cbor.Marshal(s2); err == nil {
							check(h, k, b, det, pl, aad, "sig-length")
						}
					}
					for _, alg := range []any{int64(-7), int64(-35), int64(-36), int64(-257), int64(-258), int64(-259), int64(-37), int64(-38), int64(-39),
						int64(0), int64(5), int64(-999), int64(1) << 40, "ES256", []byte{1}, nil, true, []any{int64(-7)}, uint64(1 << 63)} {
						s2 := s1
						s2.Protected = cose.HeaderMap{}
						for l, v := range s1.Protected {
							s2.Protected[l] = v
						}
						s2.Protected[cose.AlgLabel] = alg
						if b, err := cbor.Marshal(s2); err == nil {
							check(h, k, b, det, pl, aad, "alg-header")
						}
					}
					s2 := s1
					s2.Protected = cose.HeaderMap{}
					if b, err := cbor.Marshal(s2); err == nil {
						check(h, k, b, det, pl, aad, "alg-missing")
					}
					// protected header extended on the wire by entries the verifier might drop when re-encoding
					// (null values, empty containers): built at the byte level, independent of the library's encoder
					if pb, err := cbor.Marshal(s1.Protected); err == nil && len(pb) > 0 && pb[0]>>5 == 5 && pb[0]&31 < 22 {
						for _, extra := range [][]byte{{0x18, 0x63, 0xf6}, {0x18, 0x63, 0xf7}, {0x18, 0x63, 0x40}, {0x18, 0x63, 0x80}, {0x61, 0x7a, 0xf6}, {0x38, 0x63, 0xf6}} {
							np := append([]byte{pb[0] + 1}, pb[1:]...)
							np = append(np, extra...)
							rest := h.obj[1:] // after the outer array(4) head: bstr(protected) ...
							if len(rest) > 0 && rest[0]>>5 == 2 && int(rest[0]&31) == len(pb) && len(pb) < 23 {
								obj := append([]byte{h.obj[0], 0x40 + byte(len(np))}, np...)
								obj = append(obj, rest[1+len(pb):]...)
								check(h, k, obj, det, pl, aad, "protected-extended")
							}
						}
					}
					s2 = s1
					s2.Unprotected = cose.HeaderMap{cose.Label{Int64: 99}: []byte{1, 2}}
					if b, err := cbor.Marshal(s2); err == nil {
						check(h, k, b, det, pl, aad, "unprotected-changed")
					}
					// generic CBOR mutations
					nm := 20
					if !c.Quick() {
						nm = 200
					}
					for i := 0; i < nm; i++ {
						check(h, k, mutate(c.Rng, h.obj), det, pl, aad, "cbor-mutation")
					}
				}
			}
		}
	}
	// signatures whose r or s has leading zero bytes (ECDSA fixed-width encoding)
	want := 3
	if !c.Quick() {
		want = 12
	}
	found := 0
	for i := 0; i < 4000 && found < want; i++ {
		k := ks[i%2*2] // p256a / p384a
		pl, _ := cbor.Marshal(int64(i))
		h, err := signHonest(k, pl, nil, false)
		if err != nil {
			continue
		}
		var s1 sign1Raw
		_ = cbor.Unmarshal(h.obj, &s1)
		n := len(s1.Signature) / 2
		if s1.Signature[0] == 0 || s1.Signature[n] == 0 {
			found++
			check(h, k, h.obj, false, pl, nil, "leading-zero-component")
		}
	}
	c.Note("leading-zero r/s signatures exercised: %d", found)

	// MAC0
	for _, alg := range []int64{5, 6} {
		for _, ksz := range []int{0, 16, 31, 32, 33, 48, 64} {
			key := make([]byte, ksz)
			c.Rng.Read(key)
			for _, pl := range payloads[:5] {
				for _, aad := range aads {
					p := core.Params{"alg": fmt.Sprint(alg), "key": hex.EncodeToString(key), "payload": hex.EncodeToString(pl), "aad": hex.EncodeToString(aad)}
					o := c.Do("cose.mac0", p, "mac0")
					if strings.HasPrefix(o.Impl, "panic") {
						c.Fail("panic@cose.Mac0.Digest", core.PanicText, "cose.mac0", p, o)
					}
					// the tag must depend on every protected header: two values of a further header give two tags
					if ksz == 16 || ksz == 32 {
						for _, pv := range [][3]string{{"kid", "key-1", "key-2"}, {"ct", "60", "61"}} {
							pa := core.Params{"alg": p["alg"], "key": p["key"], "payload": p["payload"], "aad": p["aad"], "prot": pv[0], "protval": pv[1]}
							pb := core.Params{"alg": p["alg"], "key": p["key"], "payload": p["payload"], "aad": p["aad"], "prot": pv[0], "protval": pv[2]}
							oa, ob := c.Do("cose.mac0", pa, "mac0-protected-"+pv[0]), c.Do("cose.mac0", pb, "mac0-protected-"+pv[0])
							ta, tb := oa.Impl[strings.LastIndex(oa.Impl, " ")+1:], ob.Impl[strings.LastIndex(ob.Impl, " ")+1:]
							if strings.HasPrefix(oa.Impl, "ok") && strings.HasPrefix(ob.Impl, "ok") && ta == tb {
								c.Fail("mac-ignores-protected-header:"+pv[0], "two different values of a protected header give the same tag "+ta, "cose.mac0", pb, ob)
							}
						}
					}
				}
			}
		}
	}
	// COSE_Mac0 VERIFICATION (kex.SessionCrypter.Decrypt of the encrypt-then-MAC suites): see mac0_more.go
	runMac0Verify(c, false)
}
