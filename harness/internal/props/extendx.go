package props

import (
	"context"
	"crypto"
	"crypto/ecdsa"
	"crypto/elliptic"
	"crypto/rand"
	"crypto/rsa"
	"crypto/x509"
	"encoding/hex"
	"fmt"
	"sort"
	"strconv"
	"strings"
	"sync"
	"time"

	fdo "github.com/fido-device-onboard/go-fdo"
	"github.com/fido-device-onboard/go-fdo/cbor"
	"github.com/fido-device-onboard/go-fdo/protocol"

	"verifharness/internal/core"
	"verifharness/internal/env"
)

// voucher.extendcase: ExtendVoucher against its model (Fdo/Extend.v). A voucher made by the real DI service and extended
// 0..3 times is extended once more by a chosen signer to a chosen next key with chosen extra data. The model gets the
// voucher bytes, the shapes (kind and size) of the manufacturer, signer, next and device keys, the signer's key and the
// extra map; it answers refuse / panic / ok + the encoding of the entry payload it would sign. The implementation's
// observation is refuse / panic / ok + the encoding of the payload of the entry it appended. The encoded next-owner key
// in the model's input is the one the library produced (protocol.NewPublicKey is not modelled); that it names the key
// asked for is checked by a monitor here.

type extChain struct {
	vs  []*fdo.Voucher // vs[n] has n entries
	dev *env.Device
}

var (
	extMu     sync.Mutex
	extChains = map[string]*extChain{}
	extOdd    = map[string]crypto.Signer{}
)

// oddKey: keys outside the six supported specs (for shapes the guards and hashAlgFor must cope with).
func oddKey(name string) crypto.Signer {
	extMu.Lock()
	defer extMu.Unlock()
	if k, ok := extOdd[name]; ok {
		return k
	}
	var k crypto.Signer
	switch name {
	case "P-224":
		k, _ = ecdsa.GenerateKey(elliptic.P224(), rand.Reader)
	case "P-521":
		k, _ = ecdsa.GenerateKey(elliptic.P521(), rand.Reader)
	case "RSA1024":
		k, _ = rsa.GenerateKey(rand.Reader, 1024)
	case "RSA4096":
		k, _ = rsa.GenerateKey(rand.Reader, 4096)
	}
	extOdd[name] = k
	return k
}

func keyByName(name, role string) crypto.Signer {
	for _, s := range env.AllKeys {
		if s.Name == name {
			return env.Key(s, role)
		}
	}
	return oddKey(name)
}

func shapeArg(pub crypto.PublicKey) string {
	switch k := pub.(type) {
	case *ecdsa.PublicKey:
		return fmt.Sprintf("(ec n:%x)", (k.Params().N.BitLen()+7)/8)
	case *rsa.PublicKey:
		return fmt.Sprintf("(rsa n:%x)", k.Size())
	}
	return "(other n:0)"
}

func extChainFor(spec env.KeySpec, enc protocol.KeyEncoding) (*extChain, error) {
	key := fmt.Sprintf("%s|%d", spec.Name, enc)
	extMu.Lock()
	if ch, ok := extChains[key]; ok {
		extMu.Unlock()
		return ch, nil
	}
	extMu.Unlock()
	e, err := env.New(WorkDir(), spec)
	if err != nil {
		return nil, err
	}
	defer e.Close()
	ctx, cancel := context.WithTimeout(context.Background(), time.Minute)
	defer cancel()
	dev, err := e.NewDevice(ctx, enc)
	if err != nil {
		return nil, err
	}
	base, err := e.DB.Voucher(ctx, dev.Cred.GUID)
	if err != nil {
		return nil, err
	}
	zero := *base
	zero.Entries = nil
	ch := &extChain{vs: []*fdo.Voucher{&zero, base}, dev: dev}
	roles := []string{"owner", "o2", "o3", "o4"}
	cur := base
	for n := 2; n <= 3; n++ {
		next, err := extendTo(cur, env.Key(spec, roles[n-2]), env.Key(spec, roles[n-1]).Public(), enc == protocol.X5ChainKeyEnc, env.Key(spec, roles[n-1]), nil)
		if err != nil {
			return nil, fmt.Errorf("building chain: %w", err)
		}
		ch.vs = append(ch.vs, next)
		cur = next
	}
	extMu.Lock()
	extChains[key] = ch
	extMu.Unlock()
	return ch, nil
}

// extendTo calls the library with the right type parameter.
func extendTo(v *fdo.Voucher, by crypto.Signer, next crypto.PublicKey, asChain bool, nextPriv crypto.Signer, extra map[int][]byte) (*fdo.Voucher, error) {
	if asChain && nextPriv != nil {
		return fdo.ExtendVoucher(v, by, env.Chain(nextPriv, "next"), extra)
	}
	switch pub := next.(type) {
	case *ecdsa.PublicKey:
		return fdo.ExtendVoucher(v, by, pub, extra)
	case *rsa.PublicKey:
		return fdo.ExtendVoucher(v, by, pub, extra)
	}
	return nil, fmt.Errorf("unsupported next key %T", next)
}

var extExtras = map[string]map[int][]byte{
	"none":  nil,
	"empty": {},
	"one":   {1: []byte("supply-chain")},
	"multi": {2: make([]byte, 300), -1: {}, 24: {0xff}, 1000: []byte("x"), -25: []byte("y")},
}

func roleSigner(spec env.KeySpec, n int, role string) crypto.Signer {
	roles := []string{"mfg", "owner", "o2", "o3", "o4"}
	switch role {
	case "current":
		return env.Key(spec, roles[n])
	case "previous":
		if n == 0 {
			return env.Key(spec, "stranger")
		}
		return env.Key(spec, roles[n-1])
	case "later":
		return env.Key(spec, roles[n+1])
	case "stranger":
		return env.Key(spec, "stranger")
	}
	// a key of another spec (or an odd key) as signer: role = "spec:<name>"
	return keyByName(strings.TrimPrefix(role, "spec:"), "owner")
}

func runExtendCase(p core.Params) (line, impl string) {
	spec := specByName(p["key"])
	encN, _ := strconv.Atoi(p["enc"])
	n, _ := strconv.Atoi(p["n"])
	ch, err := extChainFor(spec, protocol.KeyEncoding(encN))
	if err != nil {
		return "voucher.extend ()", "err-env " + err.Error()
	}
	if n < 0 || n >= len(ch.vs) {
		return "voucher.extend ()", "err-n"
	}
	v := ch.vs[n]
	signer := roleSigner(spec, n, p["signer"])
	nextPriv := keyByName(p["next"], "n1")
	if signer == nil || nextPriv == nil {
		return "voucher.extend ()", "err-key"
	}
	asChain := p["chain"] == "1"
	extra := extExtras[p["extra"]]

	var out *fdo.Voucher
	var xerr error
	func() {
		defer func() {
			if r := recover(); r != nil {
				core.PanicText = fmt.Sprint(r)
				impl = "panic"
			}
		}()
		out, xerr = extendTo(v, signer, nextPriv.Public(), asChain, nextPriv, extra)
	}()
	// the encoded next-owner key for the model: the library's own when it produced one
	var nextPK []byte
	switch {
	case impl == "panic":
	case xerr != nil:
		impl = "refuse"
	case out == nil || len(out.Entries) != n+1 || out.Entries[n].Payload == nil:
		impl = "err-shape"
	default:
		pl := out.Entries[n].Payload.Val
		b, err := cbor.Marshal(pl)
		if err != nil {
			impl = "err-encode"
		} else {
			impl = "ok b:" + hex.EncodeToString(b)
		}
		nextPK, _ = cbor.Marshal(pl.PublicKey)
		// monitor input: the key named in the new entry
		lastExtend = extendObs{Out: out, Want: nextPriv.Public(), Signer: signer.Public()}
	}
	if nextPK == nil {
		der, _ := x509.MarshalPKIXPublicKey(nextPriv.Public())
		body, _ := cbor.Marshal(der)
		nextPK, _ = cbor.Marshal(protocol.PublicKey{Type: v.Header.Val.ManufacturerKey.Type, Encoding: protocol.X509KeyEnc, Body: body})
	}
	vb, err := cbor.Marshal(v)
	if err != nil {
		return "voucher.extend ()", "err-marshal"
	}
	mfgPub, _ := v.Header.Val.ManufacturerKey.Public()
	var devPub crypto.PublicKey
	if v.CertChain != nil && len(*v.CertChain) > 0 {
		devPub = (*v.CertChain)[0].PublicKey
	}
	var ex strings.Builder
	keys := make([]int, 0, len(extra))
	for k := range extra {
		keys = append(keys, k)
	}
	sort.Ints(keys)
	for _, k := range keys {
		fmt.Fprintf(&ex, "(z:%s b:%x)", zhex(int64(k)), extra[k])
	}
	line = fmt.Sprintf("voucher.extend b:%x %s %s %s %s %s (%s) b:%x", vb, shapeArg(mfgPub), shapeArg(signer.Public()), shapeArg(nextPriv.Public()),
		shapeArg(devPub), keyLineArgs(signer.Public()), ex.String(), nextPK)
	return line, impl
}

type extendObs struct {
	Out    *fdo.Voucher
	Want   crypto.PublicKey
	Signer crypto.PublicKey
}

var lastExtend extendObs

func registerExtendKind(c *core.Ctx) {
	c.Register(&core.Kind{Name: "voucher.extendcase", Eval: runExtendCase})
}

// doExtendCases: every signer role x next key x extra x chain length for one (spec, encoding).
func doExtendCases(c *core.Ctx, spec env.KeySpec, enc protocol.KeyEncoding) {
	signers := []string{"current", "previous", "later", "stranger"}
	nexts := []string{spec.Name}
	for _, s := range env.AllKeys {
		if s.Name != spec.Name {
			nexts = append(nexts, s.Name)
		}
	}
	odd := []string{"P-224", "P-521", "RSA1024", "RSA4096"}
	if c.Quick() {
		// one other key of each kind, and the odd ones that are cheap to make
		nexts = []string{spec.Name, env.P256.Name, env.P384.Name, env.RSA2048.Name}
		odd = []string{"P-224", "P-521", "RSA1024"}
	}
	nexts = append(nexts, odd...)
	for _, o := range odd {
		signers = append(signers, "spec:"+o)
	}
	for n := 0; n <= 3; n++ {
		for _, sg := range signers {
			for _, nx := range nexts {
				extras := []string{"none"}
				if sg == "current" && nx == spec.Name {
					extras = []string{"none", "empty", "one", "multi"}
				}
				for _, ex := range extras {
					for _, chain := range []string{"0", "1"} {
						if chain == "1" && (enc != protocol.X5ChainKeyEnc || sg != "current") {
							continue
						}
						p := core.Params{"key": spec.Name, "enc": fmt.Sprint(int(enc)), "n": fmt.Sprint(n), "signer": sg, "next": nx, "extra": ex, "chain": chain}
						lastExtend = extendObs{}
						o := c.Do("voucher.extendcase", p, "extend:"+sg)
						if strings.HasPrefix(o.Impl, "err-") {
							c.Fail("harness:"+firstWordOf(o.Impl), o.Impl, "voucher.extendcase", p, o)
							continue
						}
						c.Count("extend", fmt.Sprintf("%s->%s:%s", sg, map[bool]string{true: "same-spec", false: "other"}[nx == spec.Name], firstWordOf(o.Impl)))
						if o.Impl == "panic" {
							c.Fail("panic@fdo.ExtendVoucher", core.PanicText, "voucher.extendcase", p, o)
						}
						if strings.HasPrefix(o.Impl, "ok") {
							// independent of the model: only the current owner extends, only to a key of its own kind and size, and
							// the result verifies and names the key asked for
							if sg != "current" {
								c.Fail("extend-by-non-owner:"+spec.Name, "ExtendVoucher accepted signer "+sg, "voucher.extendcase", p, o)
							}
							if shapeArg(lastExtend.Want) != shapeArg(lastExtend.Signer) {
								c.Fail("extend-to-other-key:"+spec.Name, "ExtendVoucher accepted next key "+nx, "voucher.extendcase", p, o)
							}
							if lastExtend.Out != nil {
								if err := lastExtend.Out.VerifyEntries(); err != nil {
									c.Fail("extended-voucher-does-not-verify:"+spec.Name, err.Error(), "voucher.extendcase", p, o)
								}
								got, err := lastExtend.Out.OwnerPublicKey()
								eq, _ := got.(interface{ Equal(crypto.PublicKey) bool })
								if err != nil || eq == nil || !eq.Equal(lastExtend.Want) {
									c.Fail("extended-voucher-names-another-key:"+spec.Name, fmt.Sprint(err), "voucher.extendcase", p, o)
								}
							}
						} else if sg == "current" && nx == spec.Name && o.Impl == "refuse" {
							c.Fail("honest-extension-refused:"+spec.Name, "the current owner could not extend to a key of its own kind", "voucher.extendcase", p, o)
						}
					}
				}
			}
		}
	}
}
