package props

import (
	"bytes"
	"crypto/x509"
	"encoding/hex"
	"fmt"
	"math/big"
	mrand "math/rand"
	"reflect"
	"strconv"
	"strings"
	"time"

	"github.com/fido-device-onboard/go-fdo/cbor"

	"verifharness/internal/core"
	"verifharness/internal/desc"
)

// StdOracle answers the model's questions with the Go standard library only (never through go-fdo).
func StdOracle(q string) string {
	f := strings.Fields(q)
	if len(f) == 0 {
		return "err"
	}
	switch f[0] {
	case "der":
		if len(f) < 2 {
			return "0"
		}
		var der []byte
		if len(f) >= 3 {
			der, _ = hex.DecodeString(f[2])
		}
		var err error
		if f[1] == "1" {
			_, err = x509.ParseCertificateRequest(der)
		} else {
			_, err = x509.ParseCertificate(der)
		}
		if err == nil {
			return "1"
		}
		return "0"
	case "rfc3339":
		var s []byte
		if len(f) >= 2 {
			s, _ = hex.DecodeString(f[1])
		}
		t, err := time.Parse(time.RFC3339, string(s))
		if err != nil {
			return "err"
		}
		z := big.NewInt(t.Unix())
		if z.Sign() < 0 {
			return "ok -" + new(big.Int).Neg(z).Text(16)
		}
		return "ok " + z.Text(16)
	}
	if h, ok := extraOracles[f[0]]; ok {
		return h(f[1:])
	}
	return "err"
}

var extraOracles = map[string]func(args []string) string{}

func registerCborKinds(c *core.Ctx) {
	c.Register(&core.Kind{Name: "cbor.dec", Eval: func(p core.Params) (string, string) {
		e := catByName[p["type"]]
		data, _ := hex.DecodeString(p["bytes"])
		line := "cbor.dec " + e.Desc + " b:" + p["bytes"]
		if p["lineonly"] != "" {
			return line, ""
		}
		buf := bytes.NewBuffer(data)
		v := reflect.New(e.T)
		if err := cbor.NewDecoder(buf).Decode(v.Interface()); err != nil {
			return line, "err"
		}
		return line, "ok " + desc.Val(v.Elem()) + " b:" + hex.EncodeToString(buf.Bytes())
	}})
	c.Register(&core.Kind{Name: "cbor.unmarshal", Eval: func(p core.Params) (string, string) {
		e := catByName[p["type"]]
		data, _ := hex.DecodeString(p["bytes"])
		line := "cbor.unmarshal " + e.Desc + " b:" + p["bytes"]
		if p["lineonly"] != "" {
			return line, ""
		}
		v := reflect.New(e.T)
		if err := cbor.Unmarshal(data, v.Interface()); err != nil {
			return line, "err"
		}
		return line, "ok " + desc.Val(v.Elem())
	}})
	c.Register(&core.Kind{Name: "cbor.enc", Eval: func(p core.Params) (string, string) {
		e := catByName[p["type"]]
		seed, _ := strconv.ParseInt(p["vseed"], 10, 64)
		v := reflect.New(e.T)
		Fill(mrand.New(mrand.NewSource(seed)), v.Elem(), 3)
		line := "cbor.enc " + e.Desc + " " + desc.Val(v.Elem())
		if p["lineonly"] != "" {
			return line, ""
		}
		b, err := cbor.Marshal(v.Elem().Interface())
		if err != nil {
			return line, "err"
		}
		return line, "ok b:" + hex.EncodeToString(b)
	}})
	c.Register(&core.Kind{Name: "cbor.wfb", Eval: func(p core.Params) (string, string) {
		e := catByName[p["type"]]
		seed, _ := strconv.ParseInt(p["vseed"], 10, 64)
		v := reflect.New(e.T)
		Fill(mrand.New(mrand.NewSource(seed)), v.Elem(), 3)
		// the implementation side of this kind is the expectation: generated values are well formed
		return "cbor.wfb " + e.Desc + " " + desc.Val(v.Elem()), "T"
	}})
	c.Register(&core.Kind{Name: "cbor.raw", Eval: func(p core.Params) (string, string) {
		data, _ := hex.DecodeString(p["bytes"])
		line := "cbor.raw b:" + p["bytes"]
		if p["lineonly"] != "" {
			return line, ""
		}
		buf := bytes.NewBuffer(data)
		raw, err := cbor.NewDecoder(buf).VerifDecodeRaw()
		if err != nil {
			return line, "err"
		}
		return line, "ok b:" + hex.EncodeToString(raw) + " b:" + hex.EncodeToString(buf.Bytes())
	}})
	registerCborMoreKinds(c) // monitor-only kinds of cbor_more.go
}

// ---- byte-string generators ----

func mutate(r *mrand.Rand, b []byte) []byte {
	out := append([]byte(nil), b...)
	n := 1 + r.Intn(2)
	for i := 0; i < n; i++ {
		switch k := r.Intn(9); {
		case k == 0 && len(out) > 0: // bit flip
			out[r.Intn(len(out))] ^= 1 << uint(r.Intn(8))
		case k == 1 && len(out) > 0: // change additional info of some byte
			j := r.Intn(len(out))
			out[j] = out[j]&0xe0 | byte([]int{0, 1, 23, 24, 25, 26, 27, 28, 30, 31}[r.Intn(10)])
		case k == 2 && len(out) > 0: // change major type
			j := r.Intn(len(out))
			out[j] = out[j]&0x1f | byte(r.Intn(8))<<5
		case k == 3 && len(out) > 0: // truncate
			out = out[:r.Intn(len(out))]
		case k == 4: // trailing data
			out = append(out, randBytes(r)...)
		case k == 5 && len(out) > 0: // +-1 on a byte
			j := r.Intn(len(out))
			out[j] += byte(r.Intn(3)) - 1
		case k == 6 && len(out) > 0: // insert a byte
			j := r.Intn(len(out) + 1)
			out = append(out[:j], append([]byte{byte(r.Intn(256))}, out[j:]...)...)
		case k == 7 && len(out) > 1: // delete a byte
			j := r.Intn(len(out))
			out = append(out[:j], out[j+1:]...)
		case k == 8 && len(out) > 0: // null / undefined in place of an item head
			out[r.Intn(len(out))] = byte(0xf6 + r.Intn(2))
		}
	}
	return out
}

func head(mt byte, n uint64) []byte {
	switch {
	case n < 24:
		return []byte{mt<<5 | byte(n)}
	case n < 1<<8:
		return []byte{mt<<5 | 24, byte(n)}
	case n < 1<<16:
		return []byte{mt<<5 | 25, byte(n >> 8), byte(n)}
	case n < 1<<32:
		return []byte{mt<<5 | 26, byte(n >> 24), byte(n >> 16), byte(n >> 8), byte(n)}
	}
	out := []byte{mt<<5 | 27}
	for i := 7; i >= 0; i-- {
		out = append(out, byte(n>>(8*uint(i))))
	}
	return out
}

// adversarial shapes: inflated lengths, maximal heads, reserved and indefinite encodings, deep nesting
func adversarial() [][]byte {
	var out [][]byte
	lens := []uint64{0, 1, 23, 24, 255, 256, 49999, 50000, 65535, 65536, 99999, 100000, 100001, 1<<31 - 1, 1 << 31, 1<<32 - 1, 1 << 32,
		1<<62 - 1, 1 << 62, 1<<63 - 1, 1 << 63, 1<<64 - 1}
	for mt := byte(0); mt < 8; mt++ {
		for _, n := range lens {
			h := head(mt, n)
			out = append(out, h, append(append([]byte{}, h...), 0x01, 0x02, 0x03))
			// non-shortest forms
			if n < 1<<16 {
				out = append(out, []byte{mt<<5 | 26, 0, 0, byte(n >> 8), byte(n)}, []byte{mt<<5 | 27, 0, 0, 0, 0, 0, 0, byte(n >> 8), byte(n)})
			}
		}
		for ai := byte(24); ai < 32; ai++ {
			out = append(out, []byte{mt<<5 | ai}, []byte{mt<<5 | ai, 0xff, 0xff, 0xff, 0xff, 0xff, 0xff, 0xff, 0xff, 0x00})
		}
	}
	// nested length-inflated arrays and maps
	for _, depth := range []int{1, 2, 8, 64, 400} {
		for _, h := range [][]byte{head(4, 99999), head(5, 49999), head(4, 1), head(6, 5), head(2, 3)} {
			var b []byte
			for i := 0; i < depth; i++ {
				b = append(b, h...)
			}
			out = append(out, b, append(append([]byte{}, b...), 0x00))
		}
	}
	// bstr wrappers with inner / outer length mismatch
	for _, inner := range [][]byte{{0x01}, {0x01, 0x02}, {0x82, 0x01}, {0x82, 0x01, 0x02}, {}} {
		for d := -1; d <= 2; d++ {
			n := len(inner) + d
			if n < 0 {
				continue
			}
			b := append(head(2, uint64(n)), inner...)
			out = append(out, b, append(append([]byte{0x82}, b...), 0x41, 0x05))
		}
	}
	return out
}

func runCborDecodeFamilies(c *core.Ctx, monitor func(kind string, p core.Params, o core.Obs)) {
	do := func(kind, typ string, data []byte, meta string) {
		p := core.Params{"type": typ, "bytes": hex.EncodeToString(data)}
		if !strings.HasPrefix(meta, "exhaustive") {
			p["alloc"] = "1"
		}
		o := c.Do(kind, p, meta)
		if monitor != nil {
			monitor(kind, p, o)
		}
	}
	// (1) exhaustive short strings against the scalar/any targets; all two-byte strings against a type subset
	exTypes := []string{"any", "u8", "i64", "bytes", "text", "bool", "SOmit", "ptr.u8", "bstr.any", "tag.any", "raw", "label", "bwbytes", "timestamp", "map.int.text", "slice.u16", "fixed16", "cert"}
	for _, tn := range exTypes {
		if catByName[tn] == nil {
			continue
		}
		do("cbor.dec", tn, nil, "exhaustive-len0")
		for a := 0; a < 256; a++ {
			do("cbor.dec", tn, []byte{byte(a)}, "exhaustive-len1")
		}
	}
	two := []string{"any", "SOmit", "bstr.any"}
	if !c.Quick() {
		two = exTypes
	}
	for _, tn := range two {
		for a := 0; a < 256; a++ {
			for b := 0; b < 256; b++ {
				do("cbor.dec", tn, []byte{byte(a), byte(b)}, "exhaustive-len2")
			}
		}
	}
	if !c.Quick() {
		for a := 0; a < 256; a++ {
			for b := 0; b < 256; b++ {
				for d := 0; d < 256; d += 1 {
					do("cbor.dec", "any", []byte{byte(a), byte(b), byte(d)}, "exhaustive-len3")
				}
			}
		}
	}
	// (2) adversarial shapes against every catalogue type
	adv := adversarial()
	for _, e := range catalogue {
		for i, b := range adv {
			if c.Quick() && (i+len(e.Name))%4 != 0 && e.Name != "any" {
				continue
			}
			do("cbor.dec", e.Name, b, "adversarial")
		}
	}
	for _, b := range adv {
		p := core.Params{"bytes": hex.EncodeToString(b), "alloc": "1"}
		o := c.Do("cbor.raw", p, "adversarial-raw")
		if monitor != nil {
			monitor("cbor.raw", p, o)
		}
	}
	// (3) valid encodings of random values, then structure-aware mutations of them
	rounds := 12
	if !c.Quick() {
		rounds = 150
	}
	for _, e := range catalogue {
		for i := 0; i < rounds; i++ {
			v := reflect.New(e.T)
			Fill(c.Rng, v.Elem(), 3)
			b, err := cbor.Marshal(v.Elem().Interface())
			if err != nil {
				continue
			}
			do("cbor.unmarshal", e.Name, b, "valid")
			do("cbor.dec", e.Name, append(append([]byte{}, b...), 0x05, 0x06), "valid+trailing")
			for j := 0; j < 6; j++ {
				m := mutate(c.Rng, b)
				if j%2 == 0 {
					do("cbor.dec", e.Name, m, "mutated")
				} else {
					do("cbor.unmarshal", e.Name, m, "mutated")
				}
			}
			// cross-type: decode the bytes of one type into another
			other := catalogue[c.Rng.Intn(len(catalogue))]
			do("cbor.dec", other.Name, b, "cross-type")
		}
	}
	// (4) large random strings (separate malformed stream)
	n := 40
	if !c.Quick() {
		n = 400
	}
	for i := 0; i < n; i++ {
		sz := []int{64, 1000, 8000, 65536}[i%4]
		b := make([]byte, sz)
		c.Rng.Read(b)
		if i%2 == 0 { // make it start like a plausible array of items
			copy(b, head(4, uint64(c.Rng.Intn(40))))
		}
		do("cbor.dec", "any", b, "random-large")
		do("cbor.dec", catalogue[c.Rng.Intn(len(catalogue))].Name, b, "random-large")
	}
}

func unsupportedNote(c *core.Ctx) {
	for n, why := range catUnsupported {
		c.Note("type %s not covered by the descriptor translation: %s", n, why)
	}
	c.Note("catalogue: %d target types (synthetic shapes + every wire type reachable by reflection)", len(catalogue))
}

// C12: decoding arbitrary bytes is total, bounded and exact.
func RunC12(c *core.Ctx) {
	registerCborKinds(c)
	unsupportedNote(c)
	c.Rep.Rule = "cases = (target type, byte string): exhaustive strings of length <=1 (<=2 for a type subset; thorough: <=2 all, <=3 for any), " +
		"adversarial shapes (inflated lengths, maximal/non-shortest/reserved/indefinite heads, deep nesting, bstr length mismatches) x every catalogue type, " +
		"valid encodings of random values + structure-aware mutations + cross-type decoding, large random strings; a case is non-trivial when the " +
		"implementation got past the first head (result is ok, or error with more than one byte consumed is not observable, so: result ok or input length >= 2); " +
		"distinct = distinct (kind, model line)"
	c.Trivial = func(o core.Obs) bool { return strings.HasPrefix(o.Impl, "err") && len(o.Line) < 40 }
	monitor := func(kind string, p core.Params, o core.Obs) {
		n := len(p["bytes"]) / 2
		switch {
		case strings.HasPrefix(o.Impl, "panic"):
			c.Fail("panic@"+kind+":"+p["type"], "decoder panicked: "+core.PanicText, kind, p, o)
		case o.Impl == "hang":
			c.Fail("hang@"+kind+":"+p["type"], "decoder did not return within 20 s", kind, p, o)
		}
		// allocation bounded by a small multiple of the input (+ one limit-sized buffer and fixed runtime noise)
		if p["alloc"] != "" && o.AllocB > uint64(600*n)+400_000 {
			c.Fail("alloc-amplification@"+kind+":"+p["type"], fmt.Sprintf("allocated %d bytes for %d input bytes", o.AllocB, n), kind, p, o)
		}
		if kind == "cbor.dec" && strings.HasPrefix(o.Impl, "ok ") {
			// exactness: what was consumed must itself be one well-formed item when the target is `any`/raw
			i := strings.LastIndex(o.Impl, " b:")
			rest := o.Impl[i+3:]
			if !strings.HasSuffix(p["bytes"], rest) {
				c.Fail("inexact-consumption@"+p["type"], "remaining stream is not a suffix of the input", kind, p, o)
			}
		}
	}
	runCborDecodeFamilies(c, monitor)
}

// C11: canonical encoding; decode/encode mutual inverses.
func RunC11(c *core.Ctx) {
	registerCborKinds(c)
	unsupportedNote(c)
	c.Rep.Rule = "cases = (target type, random well-formed value from a seeded generator incl. every integer head boundary and length boundary): " +
		"model bytes vs implementation bytes; monitor on the implementation alone: decode(encode(v)) = v, encode(decode(b)) = b, heads shortest-form, " +
		"map keys strictly increasing bytewise (checked by an independent walker); for every type, cbor.ArrayShift and protocol.Parse{Device,Owner}RvInfo: " +
		"the input bytes (and the spare capacity behind them) are untouched by Unmarshal / Decoder.Decode / direct UnmarshalCBOR / parsing, a second decode or parse of " +
		"the same input gives the same result and leaves the first one alone, re-encoding gives the same bytes; non-trivial = encoding succeeded; distinct = distinct (type, value)"
	c.Trivial = func(o core.Obs) bool { return !strings.HasPrefix(o.Impl, "ok") }
	rounds := 60
	if !c.Quick() {
		rounds = 1500
	}
	for _, e := range catalogue {
		for i := 0; i < rounds; i++ {
			seed := c.Rng.Int63()
			p := core.Params{"type": e.Name, "vseed": strconv.FormatInt(seed, 10)}
			o := c.Do("cbor.enc", p, "random-value")
			if !strings.HasPrefix(o.Impl, "ok b:") {
				if strings.HasPrefix(o.Impl, "panic") {
					c.Fail("panic@cbor.enc:"+e.Name, core.PanicText, "cbor.enc", p, o)
				} else {
					c.Fail("encode-failed@"+e.Name, "a well-formed value failed to encode", "cbor.enc", p, o)
				}
				continue
			}
			b, _ := hex.DecodeString(o.Impl[5:])
			// the value the generator produced must lie inside the theorem's hypothesis (wf, via its checker wfb)
			if !multiOmit(e.T) {
				c.Do("cbor.wfb", p, "wf-membership")
			}
			// independent canonical-form walker
			if why := canonicalWhy(b, e.Name); why != "" {
				c.Fail("non-canonical@"+e.Name, why, "cbor.enc", p, o)
			}
			// decode(encode(v)) = v and encode(decode(b)) = b on the implementation
			v := reflect.New(e.T)
			Fill(mrand.New(mrand.NewSource(seed)), v.Elem(), 3)
			if strings.Count(e.Desc, "(o ") > 1 && multiOmit(e.T) {
				continue // decoding structs with more than one omittable field is documented as unsupported
			}
			v2 := reflect.New(e.T)
			if err := cbor.Unmarshal(b, v2.Interface()); err != nil {
				c.Fail("roundtrip-decode-failed@"+e.Name, err.Error(), "cbor.enc", p, o)
				continue
			}
			if desc.Val(v.Elem()) != desc.Val(v2.Elem()) {
				c.Fail("roundtrip-value-differs@"+e.Name, desc.Val(v.Elem())+" vs "+desc.Val(v2.Elem()), "cbor.enc", p, o)
			}
			b2, err := cbor.Marshal(v2.Elem().Interface())
			if err != nil || !bytes.Equal(b, b2) {
				c.Fail("reencode-differs@"+e.Name, fmt.Sprintf("%x vs %x (%v)", b, b2, err), "cbor.enc", p, o)
			}
			// the model must decode the implementation's bytes to the same value (dec . enc = id across the two)
			pd := core.Params{"type": e.Name, "bytes": hex.EncodeToString(b)}
			c.Do("cbor.unmarshal", pd, "decode-of-encoded")
		}
	}
	// decoding, parsing and re-encoding never write into their input and do not change what they returned (cbor_more.go)
	runCborNoWrite(c)
}

// canonicalWhy walks b as CBOR (independently of go-fdo) and reports the first canonical-form violation.
func canonicalWhy(b []byte, typeName string) string {
	// raw / certificate payloads are opaque and may legitimately hold anything
	if strings.Contains(typeName, "raw") || strings.Contains(typeName, "Raw") || typeName == "SBw" {
		return ""
	}
	rest, why := walkCanon(b, 0)
	if why != "" {
		return why
	}
	if len(rest) != 0 {
		return "trailing bytes after the encoded item"
	}
	return ""
}

func walkCanon(b []byte, depth int) ([]byte, string) {
	if len(b) == 0 {
		return nil, "truncated"
	}
	mt, ai := b[0]>>5, b[0]&31
	b = b[1:]
	var n uint64
	switch {
	case ai < 24:
		n = uint64(ai)
	case ai <= 27:
		k := 1 << (ai - 24)
		if len(b) < k {
			return nil, "truncated head"
		}
		for i := 0; i < k; i++ {
			n = n<<8 | uint64(b[i])
		}
		b = b[k:]
		if mt != 7 {
			min := []uint64{24, 256, 65536, 1 << 32}[ai-24]
			if n < min {
				return nil, fmt.Sprintf("head not shortest form: value %d in %d bytes", n, k)
			}
		}
	default:
		return nil, "reserved or indefinite additional info"
	}
	switch mt {
	case 0, 1, 7:
		return b, ""
	case 2, 3:
		if uint64(len(b)) < n {
			return nil, "truncated string"
		}
		return b[n:], ""
	case 4:
		for i := uint64(0); i < n; i++ {
			var why string
			if b, why = walkCanon(b, depth+1); why != "" {
				return nil, why
			}
		}
		return b, ""
	case 5:
		var prev []byte
		for i := uint64(0); i < n; i++ {
			rest, why := walkCanon(b, depth+1)
			if why != "" {
				return nil, why
			}
			key := b[:len(b)-len(rest)]
			if prev != nil && bytes.Compare(prev, key) >= 0 {
				return nil, fmt.Sprintf("map keys not strictly increasing: %x then %x", prev, key)
			}
			prev = key
			if b, why = walkCanon(rest, depth+1); why != "" {
				return nil, why
			}
		}
		return b, ""
	default: // 6
		return walkCanon(b, depth+1)
	}
}

func multiOmit(t reflect.Type) bool {
	if t.Kind() != reflect.Struct {
		return false
	}
	n := 0
	for _, f := range cbor.VerifFieldOrder(t) {
		if f.Omittable {
			n++
		}
	}
	return n > 1
}
