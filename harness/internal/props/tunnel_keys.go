package props

// C05, the keys of the tunnel. The statement has three parts that the crypter-level cases of RunC05 do not touch:
//
//  (a) the tunnel keys ARE the keys FDO derives from the key exchange: for every key exchange suite x every registered
//      cipher the harness takes part in (or listens to) an exchange and derives SEK/SVK with the Go standard library alone
//      (crypto/ecdh for the shared x coordinate, math/big for Diffie-Hellman over the RFC 3526 groups - the primes are
//      recomputed from pi as the RFC defines them -, rsa.DecryptOAEP / EncryptOAEP for ASYMKEX, HMAC for the SP 800-108
//      counter-mode KDF with FDO's label and context) from the private value of ONE party and the parameters on the wire;
//      what a library session encrypted must open under these keys and the other way round;
//  (b) nobody else can: keys derived from the wire values alone, with the shared secret replaced by what an eavesdropper
//      has (zeros, nothing, either public value ...), open no message and no message sealed under them is accepted;
//  (c) nothing is decrypted or encrypted before the keys exist: a session that has only produced or received a parameter
//      (also restored the way the SQLite store restores it) refuses every message, in particular messages protected under
//      all-zero keys of the right length and under keys computable from the first parameter alone; at protocol level 66 /
//      68 / 70 sent after HelloDevice (and GetOVNextEntry) without ProveDevice are answered 255 without any effect.

import (
	"bytes"
	"crypto/ecdh"
	"crypto/hmac"
	"crypto/rand"
	"crypto/rsa"
	"crypto/sha256"
	"crypto/sha512"
	"encoding"
	"encoding/hex"
	"fmt"
	"hash"
	"io"
	"math/big"
	"os"
	"strings"
	"sync"
	"time"

	"github.com/fido-device-onboard/go-fdo/cbor"
	"github.com/fido-device-onboard/go-fdo/kex"

	"verifharness/internal/core"
	"verifharness/internal/env"
)

// ---- the derivation as FDO specifies it, standard library only ----

// kxCipher is the harness' own table of the registered cipher suites: key sizes in bytes and the PRF of the KDF.
type kxCipher struct {
	id       kex.CipherSuiteID
	name     string
	sek, svk int
	newHash  func() hash.Hash
}

var kxCiphers = []kxCipher{
	{kex.A128GcmCipher, "A128GCM", 16, 0, sha256.New},
	{kex.A192GcmCipher, "A192GCM", 24, 0, sha256.New},
	{kex.A256GcmCipher, "A256GCM", 32, 0, sha256.New},
	{kex.CoseAes128CbcCipher, "COSEAES128CBC", 16, 16, sha256.New},
	{kex.CoseAes128CtrCipher, "COSEAES128CTR", 16, 16, sha256.New},
	{kex.CoseAes256CbcCipher, "COSEAES256CBC", 32, 32, sha512.New384},
	{kex.CoseAes256CtrCipher, "COSEAES256CTR", 32, 32, sha512.New384},
}

var kxSuites = []kex.Suite{kex.ECDH256Suite, kex.ECDH384Suite, kex.DHKEXid14Suite, kex.DHKEXid15Suite, kex.ASYMKEX2048Suite, kex.ASYMKEX3072Suite}

// kxKDF: NIST SP 800-108 KDF in counter mode, PRF = HMAC, r = 8, K(i) = PRF(K_IN, [i]_8 || "FIDO-KDF" || 0x00 ||
// "AutomaticOnboardTunnel" || ContextRand || [L]_16) with L in bits, n = ceil(L / h); output = leftmost L bits.
func kxKDF(nh func() hash.Hash, kIn, contextRand []byte, outBytes int) []byte {
	L := outBytes * 8
	h := nh().Size() * 8
	n := (L + h - 1) / h
	var out []byte
	for i := 1; i <= n; i++ {
		m := hmac.New(nh, kIn)
		m.Write([]byte{byte(i)})
		m.Write([]byte("FIDO-KDF"))
		m.Write([]byte{0})
		m.Write([]byte("AutomaticOnboardTunnel"))
		m.Write(contextRand)
		m.Write([]byte{byte(L >> 8), byte(L)})
		out = m.Sum(out)
	}
	return out[:outBytes]
}

func (ci kxCipher) keys(shSe, contextRand []byte) (sek, svk []byte) {
	k := kxKDF(ci.newHash, shSe, contextRand, ci.sek+ci.svk)
	return k[:ci.sek], k[ci.sek:]
}

func (ci kxCipher) crypter(sek, svk []byte) kex.SessionCrypter {
	return kex.SessionCrypter{ID: ci.id, Cipher: ci.id.Suite(), SEK: sek, SVK: svk}
}

// kxPi returns floor(pi * 2^bits) (Machin: pi = 16 atan(1/5) - 4 atan(1/239), 64 guard bits).
func kxPi(bits uint) *big.Int {
	scale := new(big.Int).Lsh(big.NewInt(1), bits+64)
	atanInv := func(x int64) *big.Int {
		bx, x2 := big.NewInt(x), big.NewInt(x*x)
		term := new(big.Int).Quo(scale, bx)
		sum := new(big.Int).Set(term)
		for k := int64(1); term.Sign() != 0; k++ {
			term.Quo(term, x2)
			t := new(big.Int).Quo(term, big.NewInt(2*k+1))
			if k%2 == 1 {
				sum.Sub(sum, t)
			} else {
				sum.Add(sum, t)
			}
		}
		return sum
	}
	pi := new(big.Int).Mul(atanInv(5), big.NewInt(16))
	pi.Sub(pi, new(big.Int).Mul(atanInv(239), big.NewInt(4)))
	return pi.Rsh(pi, 64)
}

var (
	kxPrimeOnce sync.Once
	kxPrimes    map[kex.Suite]*big.Int
)

// kxPrime: the MODP groups of RFC 3526, computed from their definition:
// group 14: p = 2^2048 - 2^1984 - 1 + 2^64 * ([2^1918 pi] + 124476); group 15: p = 2^3072 - 2^3008 - 1 + 2^64 * ([2^2942 pi] + 1690314).
func kxPrime(s kex.Suite) *big.Int {
	kxPrimeOnce.Do(func() {
		mk := func(bits uint, add int64) *big.Int {
			p := new(big.Int).Lsh(big.NewInt(1), bits)
			p.Sub(p, new(big.Int).Lsh(big.NewInt(1), bits-64))
			p.Sub(p, big.NewInt(1))
			t := kxPi(bits - 130)
			t.Add(t, big.NewInt(add))
			return p.Add(p, t.Lsh(t, 64))
		}
		kxPrimes = map[kex.Suite]*big.Int{kex.DHKEXid14Suite: mk(2048, 124476), kex.DHKEXid15Suite: mk(3072, 1690314)}
	})
	return kxPrimes[s]
}

func kxCurve(s kex.Suite) (c ecdh.Curve, coord, randLen int) {
	if s == kex.ECDH384Suite {
		return ecdh.P384(), 48, 48
	}
	return ecdh.P256(), 32, 16
}

func kxParamSize(s kex.Suite) int { // bytes of randomness behind a DH exponent / an ASYMKEX random
	switch s {
	case kex.DHKEXid15Suite, kex.ASYMKEX3072Suite:
		return 96
	}
	return 32
}

// kxECDHEncode / kxECDHDecode: the ECDH parameter bstr[blen(x), x, blen(y), y, blen(r), r] with 16-bit big-endian lengths.
func kxECDHEncode(pub *ecdh.PublicKey, r []byte) []byte {
	u := pub.Bytes() // 04 || X || Y
	n := (len(u) - 1) / 2
	var b []byte
	for _, f := range [][]byte{u[1 : 1+n], u[1+n:], r} {
		b = append(append(b, byte(len(f)>>8), byte(len(f))), f...)
	}
	return b
}

func kxECDHDecode(curve ecdh.Curve, coord int, b []byte) (pub *ecdh.PublicKey, x, r []byte, err error) {
	var f [3][]byte
	for i := range f {
		if len(b) < 2 || len(b)-2 < int(b[0])<<8|int(b[1]) {
			return nil, nil, nil, fmt.Errorf("short ECDH parameter")
		}
		l := int(b[0])<<8 | int(b[1])
		f[i], b = b[2:2+l], b[2+l:]
	}
	if len(f[0]) > coord || len(f[1]) > coord {
		return nil, nil, nil, fmt.Errorf("oversized coordinate")
	}
	u := make([]byte, 1+2*coord)
	u[0] = 4
	copy(u[1+coord-len(f[0]):], f[0])
	copy(u[1+2*coord-len(f[1]):], f[1])
	pub, err = curve.NewPublicKey(u)
	return pub, u[1 : 1+coord], f[2], err
}

// ---- one key exchange with the harness on one side or listening in ----

type kxParty struct {
	role string
	s    kex.Session
}

type kxGuess struct {
	name      string
	shSe, ctx []byte
}

type kxExchange struct {
	suite    kex.Suite
	ci       kxCipher
	mode     string
	xA, xB   []byte
	libs     []kxParty // the library's sessions that took part (both in mode "listen", else one)
	sek, svk []byte    // derived by the harness
	guesses  []kxGuess // what an eavesdropper might try in place of the shared secret
}

func kxRand(n int) []byte {
	b := make([]byte, n)
	_, _ = rand.Read(b)
	return b
}

func kxPad(v *big.Int, n int) []byte {
	b := v.Bytes()
	if len(b) >= n {
		return b
	}
	return append(make([]byte, n-len(b)), b...)
}

func kxCat(parts ...[]byte) []byte {
	var out []byte
	for _, p := range parts {
		out = append(out, p...)
	}
	return out
}

// kxRSAKey: the owner key of the ASYMKEX suites.
func kxRSAKey(s kex.Suite) *rsa.PrivateKey {
	testKeys()
	name := map[kex.Suite]string{kex.ASYMKEX2048Suite: "rs256", kex.ASYMKEX3072Suite: "rs384"}[s]
	if name == "" {
		return nil
	}
	k, _ := keyBy[name].Signer.(*rsa.PrivateKey)
	return k
}

// ecdhPersisted mirrors the persisted form of an ECDH session (kex/ecdh.go ecdhPersist): the way the owner's private
// scalar leaves the session between HelloDevice and ProveDevice.
type ecdhPersisted struct {
	RandSize int
	ParamA   []byte
	ParamB   []byte
	Key      []byte
	Cipher   int64
	SEK      []byte
	SVK      []byte
}

// kxRunOpt performs one exchange. mode "listen": both sessions are the library's; the harness holds the owner's private value
// (ECDH: the scalar in the stored session; DH: the exponent, pinned through the random source; ASYMKEX: the owner's RSA
// key) and sees xA, xB. mode "as-device" / "as-owner": the harness IS that party, in standard-library arithmetic.
//
// With shortSecret (Diffie-Hellman, mode "as-device") the harness picks its exponent so that the shared value
// g^(ab) mod p begins with a zero byte: the KDF takes it at the modulus' full length, leading zeros included.
func kxRunOpt(suite kex.Suite, ci kxCipher, mode string, shortSecret bool) (x *kxExchange, err error) {
	defer func() {
		if r := recover(); r != nil {
			err = fmt.Errorf("panic: %v", r)
		}
	}()
	x = &kxExchange{suite: suite, ci: ci, mode: mode}
	priv := kxRSAKey(suite)
	var pub *rsa.PublicKey
	if priv != nil {
		pub = &priv.PublicKey
	}
	var owner, dev kex.Session
	if mode != "as-owner" {
		owner = suite.New(nil, ci.id)
		x.libs = append(x.libs, kxParty{"owner", owner})
	}
	newDev := func() {
		dev = suite.New(bytes.Clone(x.xA), ci.id)
		x.libs = append(x.libs, kxParty{"device", dev})
	}
	var shSe, ctx []byte
	switch suite {
	case kex.ECDH256Suite, kex.ECDH384Suite:
		curve, coord, rl := kxCurve(suite)
		var mine *ecdh.PrivateKey
		// the owner's half
		if owner != nil {
			if x.xA, err = owner.Parameter(rand.Reader, nil); err != nil {
				return nil, fmt.Errorf("owner.Parameter: %w", err)
			}
			x.xA = bytes.Clone(x.xA)
		} else {
			if mine, err = curve.GenerateKey(rand.Reader); err != nil {
				return nil, err
			}
			x.xA = kxECDHEncode(mine.PublicKey(), kxRand(rl))
		}
		if mode == "listen" {
			st, err := owner.(encoding.BinaryMarshaler).MarshalBinary()
			if err != nil {
				return nil, fmt.Errorf("owner.MarshalBinary: %w", err)
			}
			var p ecdhPersisted
			if err := cbor.Unmarshal(st, &p); err != nil {
				return nil, fmt.Errorf("stored ECDH session: %w", err)
			}
			if mine, err = curve.NewPrivateKey(p.Key); err != nil {
				return nil, fmt.Errorf("stored ECDH session holds no usable private key: %w", err)
			}
		}
		// the device's half
		if mode == "as-device" {
			if mine, err = curve.GenerateKey(rand.Reader); err != nil {
				return nil, err
			}
			x.xB = kxECDHEncode(mine.PublicKey(), kxRand(rl))
		} else {
			newDev()
			if x.xB, err = dev.Parameter(rand.Reader, nil); err != nil {
				return nil, fmt.Errorf("device.Parameter: %w", err)
			}
			x.xB = bytes.Clone(x.xB)
		}
		if owner != nil {
			if err = owner.SetParameter(bytes.Clone(x.xB), nil); err != nil {
				return nil, fmt.Errorf("owner.SetParameter: %w", err)
			}
		}
		pubA, xa, rA, err := kxECDHDecode(curve, coord, x.xA)
		if err != nil {
			return nil, fmt.Errorf("xA: %w", err)
		}
		pubB, xb, rB, err := kxECDHDecode(curve, coord, x.xB)
		if err != nil {
			return nil, fmt.Errorf("xB: %w", err)
		}
		peer := pubB
		if mode == "as-device" {
			peer = pubA
		}
		shx, err := mine.ECDH(peer)
		if err != nil {
			return nil, err
		}
		// ShSe = Sh.x || device random || owner random
		shSe = kxCat(shx, rB, rA)
		tail := kxCat(rB, rA)
		x.guesses = []kxGuess{
			{"zeros", kxCat(make([]byte, coord), tail), nil},
			{"empty", tail, nil},
			{"owner-public", kxCat(xa, tail), nil},
			{"device-public", kxCat(xb, tail), nil},
			{"all-zeros", make([]byte, coord+len(tail)), nil},
			{"nothing", nil, nil},
			{"wire", kxCat(x.xA, x.xB), nil},
		}
	case kex.DHKEXid14Suite, kex.DHKEXid15Suite:
		p := kxPrime(suite)
		plen := (p.BitLen() + 7) / 8
		two := big.NewInt(2)
		var exp *big.Int // the harness' private exponent
		if owner != nil {
			tape := kxRand(kxParamSize(suite))
			if mode == "listen" {
				exp = new(big.Int).SetBytes(tape)
			}
			if x.xA, err = owner.Parameter(&fixedReader{b: bytes.Clone(tape)}, nil); err != nil {
				return nil, fmt.Errorf("owner.Parameter: %w", err)
			}
			x.xA = bytes.Clone(x.xA)
		} else {
			exp = new(big.Int).SetBytes(kxRand(kxParamSize(suite)))
			x.xA = new(big.Int).Exp(two, exp, p).Bytes()
		}
		if mode == "as-device" {
			a := new(big.Int).SetBytes(x.xA)
			for tries := 0; ; tries++ {
				exp = new(big.Int).SetBytes(kxRand(kxParamSize(suite)))
				if !shortSecret || len(new(big.Int).Exp(a, exp, p).Bytes()) < plen {
					break
				}
				if tries > 5000 {
					return nil, fmt.Errorf("no exponent with a short shared value found")
				}
			}
			x.xB = new(big.Int).Exp(two, exp, p).Bytes()
		} else {
			newDev()
			if x.xB, err = dev.Parameter(rand.Reader, nil); err != nil {
				return nil, fmt.Errorf("device.Parameter: %w", err)
			}
			x.xB = bytes.Clone(x.xB)
		}
		if owner != nil {
			if err = owner.SetParameter(bytes.Clone(x.xB), nil); err != nil {
				return nil, fmt.Errorf("owner.SetParameter: %w", err)
			}
		}
		a, b := new(big.Int).SetBytes(x.xA), new(big.Int).SetBytes(x.xB)
		peer := b
		if mode == "as-device" {
			peer = a
		}
		// ShSe = the shared value at the full length of the modulus
		shSe = kxPad(new(big.Int).Exp(peer, exp, p), plen)
		prod := new(big.Int).Mul(a, b)
		x.guesses = []kxGuess{
			{"zeros", make([]byte, plen), nil},
			{"empty", nil, nil},
			{"owner-public", kxPad(a, plen), nil},
			{"device-public", kxPad(b, plen), nil},
			{"owner-public-unpadded", a.Bytes(), nil},
			{"device-public-unpadded", b.Bytes(), nil},
			{"product", kxPad(prod.Mod(prod, p), plen), nil},
			{"one", kxPad(big.NewInt(1), plen), nil},
		}
	case kex.ASYMKEX2048Suite, kex.ASYMKEX3072Suite:
		if priv == nil {
			return nil, fmt.Errorf("no RSA owner key")
		}
		n := kxParamSize(suite)
		if owner != nil {
			if x.xA, err = owner.Parameter(rand.Reader, pub); err != nil {
				return nil, fmt.Errorf("owner.Parameter: %w", err)
			}
			x.xA = bytes.Clone(x.xA)
		} else {
			x.xA = kxRand(n)
		}
		var devRandom []byte
		if mode == "as-device" {
			devRandom = kxRand(n)
			if x.xB, err = rsa.EncryptOAEP(sha256.New(), rand.Reader, pub, devRandom, nil); err != nil {
				return nil, err
			}
		} else {
			newDev()
			if x.xB, err = dev.Parameter(rand.Reader, pub); err != nil {
				return nil, fmt.Errorf("device.Parameter: %w", err)
			}
			x.xB = bytes.Clone(x.xB)
			// the private value: the owner's RSA key
			if devRandom, err = rsa.DecryptOAEP(sha256.New(), nil, priv, x.xB, nil); err != nil {
				return nil, fmt.Errorf("xB is no RSA-OAEP(SHA-256) ciphertext under the owner key: %w", err)
			}
		}
		if owner != nil {
			if err = owner.SetParameter(bytes.Clone(x.xB), priv); err != nil {
				return nil, fmt.Errorf("owner.SetParameter: %w", err)
			}
		}
		// ShSe = device random, ContextRand = owner random
		shSe, ctx = devRandom, x.xA
		x.guesses = []kxGuess{
			{"zeros", make([]byte, n), x.xA},
			{"empty", nil, x.xA},
			{"owner-public", x.xA, x.xA},
			{"device-public", x.xB, x.xA},
			{"device-public-prefix", x.xB[:min(n, len(x.xB))], x.xA},
			{"owner-public-no-context", x.xA, nil},
			{"zeros-no-context", make([]byte, n), nil},
			{"nothing", nil, nil},
		}
	default:
		return nil, fmt.Errorf("unknown suite %s", suite)
	}
	x.sek, x.svk = ci.keys(shSe, ctx)
	return x, nil
}

// kxCrypt is what sessions and bare crypters share; kxEncrypt / kxDecrypt turn panics into errors.
type kxCrypt interface {
	Encrypt(r io.Reader, payload any) (any, error)
	Decrypt(r io.Reader, in io.Reader) ([]byte, error)
}

func kxEncrypt(s kxCrypt, pt []byte) (wire []byte, err error) {
	defer func() {
		if r := recover(); r != nil {
			err = fmt.Errorf("panic: %v", r)
		}
	}()
	obj, err := s.Encrypt(rand.Reader, cbor.RawBytes(bytes.Clone(pt)))
	if err != nil {
		return nil, err
	}
	return cbor.Marshal(obj)
}

func kxDecrypt(s kxCrypt, wire []byte) (pt []byte, err error) {
	defer func() {
		if r := recover(); r != nil {
			err = fmt.Errorf("panic: %v", r)
		}
	}()
	return s.Decrypt(rand.Reader, bytes.NewReader(bytes.Clone(wire)))
}

const kxRule = " Tunnel keys (tunnel_keys.go): for 6 key exchange suites x 7 ciphers x {listening to two library sessions, harness as device, harness " +
	"as owner} SEK/SVK are re-derived with the standard library only (crypto/ecdh, math/big over the RFC 3526 primes recomputed from pi, RSA-OAEP, HMAC " +
	"counter-mode KDF) and compared with the sessions' keys; messages cross-decrypt in both directions; keys derived with the shared secret replaced by " +
	"zeros / nothing / either public value / the wire open no genuine message and seal none that is accepted; sessions without completed key exchange " +
	"(new, after Parameter, device before Parameter; each also restored the SQLite way) refuse to decrypt messages under all-zero keys and under every " +
	"key derivable from xA alone, and refuse to encrypt; at protocol level 66/68/70 after 60 or 60,62 in plaintext / zero keys / random keys get 255 and no effect."

func kxOnly() bool { return os.Getenv("C05_KX_ONLY") != "" }

// runC05TunnelKeys: parts (a), (b) and the library level of (c).
func runC05TunnelKeys(c *core.Ctx) {
	t0 := time.Now()
	defer func() {
		c.Note("tunnel keys (derivation, eavesdropper, sessions without keys): %.1fs", time.Since(t0).Seconds())
	}()
	pt, _ := cbor.Marshal([]any{"to2-message", kxRand(40), 7})
	fail := func(sig, detail string, x *kxExchange, extra core.Params) {
		p := core.Params{"suite": string(x.suite), "cipher": x.ci.name, "mode": x.mode, "xA": hex.EncodeToString(x.xA), "xB": hex.EncodeToString(x.xB)}
		for k, v := range extra {
			p[k] = v
		}
		c.Fail(sig, fmt.Sprintf("%s %s (%s): %s", x.suite, x.ci.name, x.mode, detail), "kex.tunnelkeys", p, core.Obs{})
	}
	for _, suite := range []kex.Suite{kex.DHKEXid14Suite, kex.DHKEXid15Suite} {
		if lib, _ := new(big.Int).SetString(dhPrime(string(suite)), 16); lib == nil || lib.Cmp(kxPrime(suite)) != 0 {
			c.Fail("dh-group-not-rfc3526:"+string(suite), "the session's modulus is not the RFC 3526 prime (2^n - 2^(n-64) - 1 + 2^64 ([2^(n-130) pi] + k))", "kex.tunnelkeys",
				core.Params{"suite": string(suite)}, core.Obs{})
		}
	}
	for _, suite := range kxSuites {
		for _, ci := range kxCiphers {
			// the table above against the library's registration: a changed key size changes every derived key
			if ss, vs, _ := cipherSizes(ci.id); ss != ci.sek || vs != ci.svk {
				c.Fail("tunnel-key-size:"+ci.name, fmt.Sprintf("SEK/SVK sizes %d/%d, expected %d/%d", ss, vs, ci.sek, ci.svk), "kex.tunnelkeys", core.Params{"cipher": ci.name}, core.Obs{})
			}
			type plan struct {
				mode  string
				short bool
			}
			plans := []plan{{"listen", false}, {"as-device", false}, {"as-owner", false}}
			if !c.Quick() { // fresh random values every time
				for i := 0; i < 5; i++ {
					plans = append(plans, plans[:3]...)
				}
			}
			if dh := suite == kex.DHKEXid14Suite || suite == kex.DHKEXid15Suite; dh && (ci.id == kex.A128GcmCipher || ci.id == kex.CoseAes256CtrCipher) && (!c.Quick() || suite == kex.DHKEXid14Suite) {
				plans = append(plans, plan{"as-device", true})
			}
			for _, pl := range plans {
				mode := pl.mode
				x, err := kxRunOpt(suite, ci, mode, pl.short)
				if pl.short && err == nil {
					x.mode += "+short-shared-value"
					c.Count("tunnel_keys_short_shared_value", string(suite))
				}
				c.Rep.Evaluations++
				if err != nil {
					c.Count("tunnel_keys", fmt.Sprintf("%s %s failed", suite, mode))
					c.Fail("key-exchange-failed:"+string(suite), fmt.Sprintf("%s %s (%s): %v", suite, ci.name, mode, err), "kex.tunnelkeys",
						core.Params{"suite": string(suite), "cipher": ci.name, "mode": mode}, core.Obs{})
					continue
				}
				c.Count("tunnel_keys", fmt.Sprintf("%s %s", suite, mode))
				mine := ci.crypter(x.sek, x.svk)
				var wires [][]byte // genuine messages of this exchange
				// (a) the library's keys are the independently derived ones
				for _, l := range x.libs {
					ls, lv := keysOf(l.s)
					if !bytes.Equal(ls, x.sek) || !bytes.Equal(lv, x.svk) {
						fail("session-keys-not-derived-from-shared-secret:"+string(suite), fmt.Sprintf("the %s session holds SEK %x SVK %x; KDF over the shared secret gives SEK %x SVK %x", l.role, ls, lv, x.sek, x.svk), x, nil)
					}
					w, err := kxEncrypt(l.s, pt)
					if err != nil {
						fail("session-cannot-encrypt:"+string(suite), fmt.Sprintf("%s session after the exchange: %v", l.role, err), x, nil)
						continue
					}
					wires = append(wires, w)
					if got, err := kxDecrypt(mine, w); err != nil || !bytes.Equal(got, pt) {
						fail("session-keys-not-derived-from-shared-secret:"+string(suite), fmt.Sprintf("a message of the %s session does not open under the independently derived keys: %v", l.role, err), x, core.Params{"wire": hex.EncodeToString(w)})
					}
					if w2, err := kxEncrypt(mine, pt); err != nil {
						fail("harness:tunnel-keys-seal", err.Error(), x, nil)
					} else if got, err := kxDecrypt(l.s, w2); err != nil || !bytes.Equal(got, pt) {
						fail("session-keys-not-derived-from-shared-secret:"+string(suite), fmt.Sprintf("the %s session refuses a message sealed under the independently derived keys: %v", l.role, err), x, core.Params{"wire": hex.EncodeToString(w2)})
					}
				}
				// (b) the eavesdropper
				for _, g := range x.guesses {
					c.Rep.Evaluations++
					gs, gv := ci.keys(g.shSe, g.ctx)
					sig := "eavesdropper-opens-message:" + string(suite) + ":" + g.name
					gp := core.Params{"guess": g.name, "guess-shse": hex.EncodeToString(g.shSe)}
					for _, l := range x.libs {
						ls, lv := keysOf(l.s)
						if bytes.Equal(ls, gs) || (len(gv) > 0 && bytes.Equal(lv, gv)) {
							fail(sig, fmt.Sprintf("the %s session's keys are computable from the wire (shared secret := %s)", l.role, g.name), x, gp)
						}
					}
					if bytes.Equal(gs, x.sek) { // cannot be: the harness' own derivation would be independent of the secret
						fail("harness:guess-equals-derivation", g.name, x, gp)
						continue
					}
					spy := ci.crypter(gs, gv)
					for _, w := range wires {
						if got, err := kxDecrypt(spy, w); err == nil {
							fail(sig, fmt.Sprintf("a genuine message opens under keys derived with the shared secret replaced by %s (plaintext %x)", g.name, got), x, gp)
						}
					}
					if w, err := kxEncrypt(spy, pt); err == nil {
						for _, l := range x.libs {
							if _, err := kxDecrypt(l.s, w); err == nil {
								fail(sig, fmt.Sprintf("the %s session accepts a message sealed under keys derived with the shared secret replaced by %s", l.role, g.name), x, gp)
							}
						}
					}
				}
			}
			runKeyless(c, suite, ci, pt)
		}
	}
}

// kxRestore: the way sqlite.DB.XSession rebuilds a stored session: a receiver made with a FIXED cipher, then UnmarshalBinary.
func kxRestore(suite kex.Suite, s kex.Session) (out kex.Session, err error) {
	defer func() {
		if r := recover(); r != nil {
			err = fmt.Errorf("panic: %v", r)
		}
	}()
	data, err := s.(encoding.BinaryMarshaler).MarshalBinary()
	if err != nil {
		return nil, err
	}
	out = suite.New(nil, 1)
	if err := out.(encoding.BinaryUnmarshaler).UnmarshalBinary(data); err != nil {
		return nil, err
	}
	return out, nil
}

// kxRefusedParams: device parameters an owner session refuses (degenerate Diffie-Hellman values, a point that is not on the
// curve, a truncated parameter, something that is no OAEP ciphertext).
func kxRefusedParams(suite kex.Suite, xA []byte) [][]byte {
	switch suite {
	case kex.DHKEXid14Suite, kex.DHKEXid15Suite:
		p := kxPrime(suite)
		return [][]byte{{1}, {}, new(big.Int).Sub(p, big.NewInt(1)).Bytes(), p.Bytes()}
	case kex.ECDH256Suite, kex.ECDH384Suite:
		_, coord, rl := kxCurve(suite)
		off := kxCat([]byte{0, byte(coord)}, kxRand(coord), []byte{0, byte(coord)}, kxRand(coord), []byte{0, byte(rl)}, kxRand(rl))
		return [][]byte{off, off[:len(off)/2], {}}
	}
	return [][]byte{kxRand(256), kxRand(384), kxRand(32), {}}
}

// runKeyless: (c) at the level of the session objects.
func runKeyless(c *core.Ctx, suite kex.Suite, ci kxCipher, pt []byte) {
	priv := kxRSAKey(suite)
	var pub *rsa.PublicKey
	if priv != nil {
		pub = &priv.PublicKey
	}
	sig := "keyless-session-decrypts:" + string(suite) + ":" + ci.name
	type state struct {
		name string
		s    kex.Session
	}
	var states []state
	var xA []byte
	func() {
		defer func() {
			if r := recover(); r != nil {
				c.Fail("panic@keyless-session:"+string(suite), fmt.Sprint(r), "kex.tunnelkeys", core.Params{"suite": string(suite), "cipher": ci.name}, core.Obs{})
			}
		}()
		states = append(states, state{"owner-new", suite.New(nil, ci.id)})
		owner := suite.New(nil, ci.id)
		p, err := owner.Parameter(rand.Reader, pub)
		if err != nil {
			c.Fail("key-exchange-failed:"+string(suite), fmt.Sprintf("owner.Parameter: %v", err), "kex.tunnelkeys", core.Params{"suite": string(suite), "cipher": ci.name}, core.Obs{})
			return
		}
		xA = bytes.Clone(p)
		states = append(states, state{"owner-after-parameter", owner}, state{"device-before-parameter", suite.New(bytes.Clone(xA), ci.id)})
		// an owner session whose SetParameter refused the peer's value holds no keys either
		for i, bad := range kxRefusedParams(suite, xA) {
			o2 := suite.New(nil, ci.id)
			if _, err := o2.Parameter(rand.Reader, pub); err != nil {
				continue
			}
			if err := o2.SetParameter(bad, priv); err == nil { // whether it must be refused is C14's business
				c.Count("keyless_refused_param_accepted", fmt.Sprintf("%s #%d", suite, i))
				continue
			}
			states = append(states, state{fmt.Sprintf("owner-after-refused-setparameter#%d", i), o2})
		}
	}()
	for _, st := range append([]state(nil), states...) {
		if r, err := kxRestore(suite, st.s); err == nil {
			states = append(states, state{st.name + "+restored", r})
		} else if st.name == "owner-after-parameter" { // this is the state the owner service stores after HelloDevice
			c.Fail("keyless-session-not-storable:"+string(suite), fmt.Sprintf("%s: %v", st.name, err), "kex.tunnelkeys", core.Params{"suite": string(suite), "cipher": ci.name}, core.Obs{})
		}
	}
	// what somebody who saw (at most) xA can protect a message with
	type attempt struct {
		name     string
		sek, svk []byte
	}
	atts := []attempt{{"zero-keys", make([]byte, ci.sek), make([]byte, ci.svk)}}
	var secrets [][]byte
	secrets = append(secrets, nil, xA)
	for _, n := range []int{16, 32, 48, 96, 256, 384} {
		secrets = append(secrets, make([]byte, n))
	}
	if p := kxPrime(suite); p != nil { // the degenerate shared values 1 and p-1
		plen := (p.BitLen() + 7) / 8
		secrets = append(secrets, kxPad(big.NewInt(1), plen), kxPad(new(big.Int).Sub(p, big.NewInt(1)), plen), []byte{1})
	}
	if suite == kex.ECDH256Suite || suite == kex.ECDH384Suite {
		curve, coord, _ := kxCurve(suite)
		if _, x, r, err := kxECDHDecode(curve, coord, xA); err == nil {
			// (a shared secret made of the owner's half only)
			secrets = append(secrets, x, r, kxCat(x, r), kxCat(make([]byte, coord), r), kxCat(r, r))
		}
	}
	for i, s := range secrets {
		for j, ctx := range [][]byte{nil, xA} {
			k, v := ci.keys(s, ctx)
			atts = append(atts, attempt{fmt.Sprintf("kdf(secret#%d,len %d; context#%d)", i, len(s), j), k, v})
		}
	}
	var msgs []struct {
		name string
		wire []byte
	}
	for _, a := range atts {
		if w, err := kxEncrypt(ci.crypter(a.sek, a.svk), pt); err == nil {
			msgs = append(msgs, struct {
				name string
				wire []byte
			}{a.name, w})
		} else {
			c.Fail("harness:keyless-seal", fmt.Sprintf("%s %s %s: %v", suite, ci.name, a.name, err), "kex.tunnelkeys", core.Params{}, core.Obs{})
		}
	}
	msgs = append(msgs, struct {
		name string
		wire []byte
	}{"plaintext", pt})
	for _, tag := range []uint64{16, 17} {
		b, _ := cbor.Marshal(cbor.Tag[cbor.RawBytes]{Num: tag, Val: pt})
		msgs = append(msgs, struct {
			name string
			wire []byte
		}{fmt.Sprintf("plaintext-tagged-%d", tag), b})
	}
	for _, st := range states {
		c.Count("keyless_state", st.name)
		for _, m := range msgs {
			c.Rep.Evaluations++
			got, err := kxDecrypt(st.s, m.wire)
			switch {
			case err != nil && strings.HasPrefix(err.Error(), "panic:"):
				c.Fail("panic@keyless-session:"+string(suite), fmt.Sprintf("%s %s, message %s: %v", st.name, ci.name, m.name, err), "kex.tunnelkeys",
					core.Params{"suite": string(suite), "cipher": ci.name, "state": st.name, "message": m.name, "wire": hex.EncodeToString(m.wire)}, core.Obs{})
			case err == nil:
				c.Fail(sig, fmt.Sprintf("a session in state %s (no key exchange completed) decrypted a message protected with %s: %x", st.name, m.name, got), "kex.tunnelkeys",
					core.Params{"suite": string(suite), "cipher": ci.name, "state": st.name, "message": m.name, "xA": hex.EncodeToString(xA), "wire": hex.EncodeToString(m.wire)}, core.Obs{})
			}
		}
		c.Rep.Evaluations++
		if w, err := kxEncrypt(st.s, pt); err == nil {
			c.Fail("keyless-session-encrypts:"+string(suite)+":"+ci.name, fmt.Sprintf("a session in state %s (no key exchange completed) produced the message %x", st.name, w), "kex.tunnelkeys",
				core.Params{"suite": string(suite), "cipher": ci.name, "state": st.name}, core.Obs{})
		} else if strings.HasPrefix(err.Error(), "panic:") {
			c.Fail("panic@keyless-session:"+string(suite), fmt.Sprintf("%s %s Encrypt: %v", st.name, ci.name, err), "kex.tunnelkeys",
				core.Params{"suite": string(suite), "cipher": ci.name, "state": st.name}, core.Obs{})
		}
	}
}

// runC05KeylessProtocol: (c) at protocol level. After HelloDevice the owner service holds a session without keys; 66 / 68 /
// 70 arriving before ProveDevice - in plaintext, under all-zero keys of the right length, under random keys - are answered
// with an error and leave no effect, for every family of key exchange.
func runC05KeylessProtocol(c *core.Ctx) {
	t0 := time.Now()
	defer func() { c.Note("tunnel messages before the key exchange: %.1fs", time.Since(t0).Seconds()) }()
	cfgs := []srvCfg{
		{env.P256, kex.ECDH256Suite, kex.A128GcmCipher, false},
		{env.RSA2048, kex.DHKEXid14Suite, kex.CoseAes128CtrCipher, false},
		{env.RSA2048, kex.DHKEXid15Suite, kex.A256GcmCipher, false},
		{env.RSA2048, kex.ASYMKEX2048Suite, kex.CoseAes128CbcCipher, true},
	}
	if !c.Quick() {
		cfgs = append(cfgs, srvCfg{env.P384, kex.ECDH384Suite, kex.CoseAes256CbcCipher, false}, srvCfg{env.RSAPKCS, kex.DHKEXid15Suite, kex.CoseAes256CtrCipher, false},
			srvCfg{env.RSAPSS3, kex.ASYMKEX3072Suite, kex.A192GcmCipher, false}, srvCfg{env.RSAPSS2, kex.DHKEXid14Suite, kex.A128GcmCipher, true})
	}
	for _, cf := range cfgs {
		if _, err := srvEnv(cf.spec); err != nil {
			c.Note("env %s: %v", cf.spec.Name, err)
			continue
		}
		for _, pre := range [][]int{{60}, {60, 62}} {
			for _, m := range []int{66, 68, 70} {
				for _, f := range []string{"zero-keys", "plaintext", "wrong-keys"} {
					h := append(seqSteps(pre, 0), hstep{Msg: m, Sess: 0, Tok: 's', From: -1, Fault: f})
					_, hr := doHist(c, cf, h, "tunnel-message-before-key-exchange", nil)
					if hr == nil || len(hr.Steps) != len(h) {
						continue
					}
					if first := hr.Steps[0]; first.Res.RespType != 61 {
						c.Fail("harness:keyless-setup:"+string(cf.kex), fmt.Sprintf("HelloDevice (%s, %s, %s) was answered %d %s", cf.spec.Name, cf.kex, cf.cipher, first.Res.RespType, first.Res.ErrStr),
							"srv.history", cf.params(h), core.Obs{})
						continue
					}
					last := hr.Steps[len(h)-1]
					c.Count("keyless_protocol", fmt.Sprintf("%s %d %s -> %d", cf.kex, m, f, last.Res.RespType))
					if last.Res.RespType != 255 || last.Kind != "" {
						c.Fail("keyless-session-decrypts:"+string(cf.kex)+":"+cf.cipher.String(), fmt.Sprintf("message %d (%s) sent after %v, before any ProveDevice, was answered %d with effects [%s]",
							m, f, pre, last.Res.RespType, last.Kind), "srv.history", cf.params(h), core.Obs{})
					}
				}
			}
		}
	}
}
