package props

import (
	"context"
	"crypto/hmac"
	"crypto/sha256"
	"encoding/base64"
	"encoding/hex"
	"fmt"
	"os"
	"path/filepath"
	"strings"
	"sync"

	"github.com/fido-device-onboard/go-fdo/protocol"
	"github.com/fido-device-onboard/go-fdo/sqlite"

	"verifharness/internal/core"
)

// store.token: the bearer-token check of the SQLite store (sessionID, through the verif hook) against its model
// (Store/Token.v): which strings name a session. Cases: every decoded length 0..80 of valid base64url text (random bytes; a
// genuine token cut to that length; a correct MAC over a 16-byte id the store never issued), genuine tokens, one character
// changed at every position, padded / standard-alphabet / whitespace variants, non-ASCII text.

var (
	tokOnce   sync.Once
	tokDB     *sqlite.DB
	tokSecret []byte
	tokErr    error
)

func tokSetup() {
	tokOnce.Do(func() {
		path := filepath.Join(WorkDir(), fmt.Sprintf("c18-token-%d.db", os.Getpid()))
		_ = os.Remove(path)
		tokDB, tokErr = sqlite.Open(path, "pw")
		if tokErr != nil {
			return
		}
		tokDB.DB().SetMaxOpenConns(1)
		_, _ = tokDB.DB().Exec("PRAGMA synchronous = OFF")
		tokSecret, tokErr = tokDB.VerifSecret(context.Background())
	})
}

func init() {
	extraOracles["b64url"] = func(a []string) string {
		if len(a) < 1 {
			return "err"
		}
		raw, err := base64.RawURLEncoding.DecodeString(string(arg(a[0])))
		if err != nil {
			return "err"
		}
		return "ok " + hex.EncodeToString(raw)
	}
}

func registerTokenKind(c *core.Ctx) {
	c.Register(&core.Kind{Name: "store.token", Eval: func(p core.Params) (string, string) {
		tokSetup()
		if tokErr != nil {
			return "store.token ()", "err-db " + tokErr.Error()
		}
		tok, _ := hex.DecodeString(p["tok"])
		line := fmt.Sprintf("store.token b:%x b:%x", tokSecret, tok)
		if p["lineonly"] != "" {
			return line, ""
		}
		impl := "invalid"
		func() {
			defer func() {
				if r := recover(); r != nil {
					core.PanicText = fmt.Sprint(r)
					impl = "panic"
				}
			}()
			if id, ok := tokDB.VerifSessionID(tokDB.TokenContext(context.Background(), string(tok))); ok {
				impl = fmt.Sprintf("id b:%x", id)
			}
		}()
		return line, impl
	}})
}

func doTokenCases(c *core.Ctx) {
	tokSetup()
	if tokErr != nil {
		c.Fail("harness:token-db", tokErr.Error(), "store.token", core.Params{}, core.Obs{})
		return
	}
	defer func() { _ = tokDB.Close() }()
	ctx := context.Background()
	run := func(tok string, meta string, wantValid int) {
		p := core.Params{"tok": hex.EncodeToString([]byte(tok))}
		o := c.Do("store.token", p, meta)
		c.Count("token", meta+":"+firstWordOf(o.Impl))
		if o.Impl == "panic" {
			c.Fail("panic@sqlite.sessionID", fmt.Sprintf("token %q (%d characters): %s", tok, len(tok), core.PanicText), "store.token", p, o)
		}
		if wantValid == 1 && !strings.HasPrefix(o.Impl, "id") {
			c.Fail("issued-token-refused", fmt.Sprintf("token %q", tok), "store.token", p, o)
		}
		if wantValid == 0 && strings.HasPrefix(o.Impl, "id") {
			c.Fail("forged-token-accepted", fmt.Sprintf("token %q (%s)", tok, meta), "store.token", p, o)
		}
	}
	var genuine []string
	for i := 0; i < 4; i++ {
		t, err := tokDB.NewToken(ctx, protocol.TO2Protocol)
		if err != nil {
			c.Fail("harness:new-token", err.Error(), "store.token", core.Params{}, core.Obs{})
			return
		}
		genuine = append(genuine, t)
		run(t, "genuine", 1)
	}
	g := genuine[0]
	graw, _ := base64.RawURLEncoding.DecodeString(g)
	enc := base64.RawURLEncoding.EncodeToString
	for n := 0; n <= 80; n++ {
		b := make([]byte, n)
		c.Rng.Read(b)
		run(enc(b), "random-bytes-of-each-length", 0)
		if n < len(graw) {
			run(enc(graw[:n]), "genuine-cut-to-each-length", 0)
		} else if n > len(graw) {
			run(enc(append(append([]byte{}, graw...), b[:n-len(graw)]...)), "genuine-extended", 0)
		}
		// the first n bytes as id (padded with zeros to 16 when shorter) with a MAC computed over exactly what the check will take as id
		if n >= 16 {
			m := hmac.New(sha256.New, tokSecret)
			m.Write(b[:16])
			// a correct MAC for an id the store never issued: the check accepts it (the session lookup then finds nothing);
			// -1: either outcome is consistent with the property, only agreement with the model matters
			run(enc(m.Sum(append([]byte{}, b[:16]...))), "never-issued-id-with-correct-mac", -1)
			// the same MAC with the wrong secret
			m2 := hmac.New(sha256.New, append([]byte{1}, tokSecret...))
			m2.Write(b[:16])
			run(enc(m2.Sum(append([]byte{}, b[:16]...))), "mac-under-another-secret", 0)
		}
	}
	alphabet := "ABCDEFGHIJKLMNOPQRSTUVWXYZabcdefghijklmnopqrstuvwxyz0123456789-_"
	for i := 0; i < len(g); i++ {
		ch := alphabet[(strings.IndexByte(alphabet, g[i])+1+c.Rng.Intn(62))%64]
		t := g[:i] + string(ch) + g[i+1:]
		want := 0
		if i == len(g)-1 { // the last character of an unpadded encoding carries unused bits: some changes decode to the same bytes
			want = -1
		}
		run(t, "one-character-changed", want)
	}
	for _, v := range []struct {
		t    string
		meta string
	}{{g + "=", "padded"}, {g + "==", "padded"}, {strings.NewReplacer("-", "+", "_", "/").Replace(g), "standard-alphabet"}, {" " + g, "leading-space"}, {g + "\n", "trailing-newline"},
		{g[:10] + "\r\n" + g[10:], "embedded-crlf"}, {"Bearer " + g, "with-scheme"}, {g + g, "doubled"}, {"", "empty"}, {"é" + g, "non-ascii"}, {strings.ToUpper(g), "upper-cased"}} {
		w := 0
		if v.t == g {
			w = 1
		}
		if v.meta == "standard-alphabet" || v.meta == "embedded-crlf" || v.meta == "trailing-newline" {
			w = -1 // accepted iff the decoder does: only agreement with the model matters (the model asks the same decoder)
		}
		run(v.t, v.meta, w)
	}
}
