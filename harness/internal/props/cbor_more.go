package props

// cbor_more.go — C11, "decoding or re-encoding a structure does not change it": the decoder, the exported helpers of
// /repo/cbor and the rendezvous parser of /repo/protocol never write into the bytes they are given, and whatever they
// return stays what it was when the same input is decoded / parsed a second time and when the result is encoded again.
//
// Every input is handed over as a slice with spare capacity: the bytes of the slice AND the bytes between len and cap are
// compared with a copy after every call. Three monitor-only case kinds (no model side; replayable):
//
//   cbor.nowrite  (type, bytes, op)  Unmarshal / Decoder.Decode from a Reader and from a Buffer / a direct call of the
//                                    type's UnmarshalCBOR (RawBytes and the COSE tag wrappers keep or re-read the slice) /
//                                    Decoder.VerifDecodeRaw, for every catalogue type: decode, encode the result, decode the
//                                    same input again, encode again
//   cbor.shift    (bytes)            cbor.ArrayShift: results against an independent walker, twice, input untouched
//   rv.nowrite    (role, dirs)       protocol.ParseDeviceRvInfo / ParseOwnerRvInfo over instruction values with spare
//                                    capacity (RVExtRV and every other variable): parse, encode, parse again, encode; the
//                                    same through a voucher header and through the wire encoding of the RvInfo

import (
	"bytes"
	"encoding/hex"
	"fmt"
	"reflect"
	"strings"

	fdo "github.com/fido-device-onboard/go-fdo"
	"github.com/fido-device-onboard/go-fdo/cbor"
	"github.com/fido-device-onboard/go-fdo/protocol"

	"verifharness/internal/core"
	"verifharness/internal/desc"
)

// inGuard is a copy of data in a buffer with spare capacity behind it; the spare bytes carry a pattern.
type inGuard struct {
	in   []byte // len(data), cap(data)+spare
	want []byte // the whole buffer as it has to stay
}

const guardSpare = 19

func newInGuard(data []byte) *inGuard {
	buf := make([]byte, len(data)+guardSpare)
	copy(buf, data)
	for i := len(data); i < len(buf); i++ {
		buf[i] = byte(0xa5 ^ (i * 29))
	}
	return &inGuard{in: buf[:len(data)], want: append([]byte(nil), buf...)}
}

// broken tells where the buffer differs from what it was ("" if it does not).
func (g *inGuard) broken() string {
	full := g.in[:cap(g.in)]
	if len(g.in) != len(g.want)-guardSpare {
		return "length"
	}
	for i := range g.want {
		if full[i] != g.want[i] {
			if i < len(g.in) {
				return fmt.Sprintf("byte %d of %d", i, len(g.in))
			}
			return fmt.Sprintf("spare capacity, %d bytes behind the end", i-len(g.in))
		}
	}
	return ""
}

func (g *inGuard) restore() { copy(g.in[:cap(g.in)], g.want) }

var tUnmarshaler = reflect.TypeOf((*cbor.Unmarshaler)(nil)).Elem()

// noWriteOps: how the bytes reach the decoder
var noWriteOps = []string{"unmarshal", "decode-reader", "decode-buffer", "direct-unmarshaler"}

func decodeVia(op string, in []byte, v reflect.Value) (applicable bool, err error) {
	switch op {
	case "unmarshal":
		return true, cbor.Unmarshal(in, v.Interface())
	case "decode-reader":
		return true, cbor.NewDecoder(bytes.NewReader(in)).Decode(v.Interface())
	case "decode-buffer":
		return true, cbor.NewDecoder(bytes.NewBuffer(in)).Decode(v.Interface())
	case "direct-unmarshaler":
		if !v.Type().Implements(tUnmarshaler) {
			return false, nil
		}
		return true, v.Interface().(cbor.Unmarshaler).UnmarshalCBOR(in)
	}
	return false, nil
}

func registerCborMoreKinds(c *core.Ctx) {
	c.Register(&core.Kind{Name: "cbor.nowrite", NoModel: true, Eval: func(p core.Params) (string, string) {
		e := catByName[p["type"]]
		data, _ := hex.DecodeString(p["bytes"])
		op := p["op"]
		line := "cbor.nowrite " + p["type"] + " " + op + " b:" + p["bytes"]
		if p["lineonly"] != "" || e == nil {
			return line, ""
		}
		at := op + "@" + e.Name
		g := newInGuard(data)
		if op == "decode-raw" {
			raw1, err1 := cbor.NewDecoder(bytes.NewBuffer(g.in)).VerifDecodeRaw()
			if w := g.broken(); w != "" {
				return line, "input-modified:" + at + " " + w
			}
			raw2, err2 := cbor.NewDecoder(bytes.NewBuffer(g.in)).VerifDecodeRaw()
			if (err1 == nil) != (err2 == nil) || !bytes.Equal(raw1, raw2) {
				return line, "second-parse-differs:" + at
			}
			if err1 == nil && !bytes.HasPrefix(data, raw1) {
				return line, "raw-item-is-not-a-prefix-of-the-input:" + at
			}
			return line, "ok"
		}
		v1 := reflect.New(e.T)
		applicable, err := decodeVia(op, g.in, v1)
		if !applicable {
			return line, "n/a"
		}
		if w := g.broken(); w != "" {
			return line, "input-modified:" + at + " " + w
		}
		if err != nil {
			// a failed decode must leave the input alone, and fail again
			v2 := reflect.New(e.T)
			if _, err2 := decodeVia(op, g.in, v2); err2 == nil {
				return line, "second-parse-differs:" + at + " first decode failed, second succeeded"
			}
			if w := g.broken(); w != "" {
				return line, "input-modified:" + at + " " + w
			}
			return line, "err"
		}
		r1 := desc.Val(v1.Elem())
		b1, errm := cbor.Marshal(v1.Elem().Interface())
		if w := g.broken(); w != "" {
			return line, "input-modified:encode-after-" + at + " " + w
		}
		if r := desc.Val(v1.Elem()); r != r1 {
			return line, "value-modified-by-encode:" + at
		}
		v2 := reflect.New(e.T)
		if _, err := decodeVia(op, g.in, v2); err != nil {
			return line, "second-parse-differs:" + at + " second decode failed"
		}
		if w := g.broken(); w != "" {
			return line, "input-modified:" + at + " (second decode) " + w
		}
		if r := desc.Val(v1.Elem()); r != r1 {
			return line, "first-result-modified-by-second-parse:" + at
		}
		if r2 := desc.Val(v2.Elem()); r2 != r1 {
			return line, "second-parse-differs:" + at
		}
		b1again, errm1 := cbor.Marshal(v1.Elem().Interface())
		b2, errm2 := cbor.Marshal(v2.Elem().Interface())
		if (errm == nil) != (errm1 == nil) || (errm == nil) != (errm2 == nil) || !bytes.Equal(b1, b1again) || !bytes.Equal(b1, b2) {
			return line, "reencode-differs-after-second-parse:" + at
		}
		if w := g.broken(); w != "" {
			return line, "input-modified:encode-after-" + at + " " + w
		}
		if p["canonical"] != "" && errm == nil && !bytes.Equal(b1, data) {
			return line, "reencode-differs:" + at
		}
		// does the decoded value refer to the input? (allowed — RawBytes.UnmarshalCBOR keeps the slice — but worth knowing)
		for i := range g.in {
			g.in[i] ^= 0xff
		}
		alias := desc.Val(v1.Elem()) != r1
		g.restore()
		if alias {
			return line, "ok refers-to-input"
		}
		return line, "ok"
	}})
	c.Register(&core.Kind{Name: "cbor.shift", NoModel: true, Eval: func(p core.Params) (string, string) {
		data, _ := hex.DecodeString(p["bytes"])
		line := "cbor.shift b:" + p["bytes"]
		if p["lineonly"] != "" {
			return line, ""
		}
		g := newInGuard(data)
		first, rest := cbor.ArrayShift(g.in)
		if w := g.broken(); w != "" {
			return line, "input-modified:ArrayShift " + w
		}
		f1, r1 := append([]byte(nil), first...), append([]byte(nil), rest...)
		first2, rest2 := cbor.ArrayShift(g.in)
		if w := g.broken(); w != "" {
			return line, "input-modified:ArrayShift (second call) " + w
		}
		if !bytes.Equal(first, f1) || !bytes.Equal(rest, r1) {
			return line, "first-result-modified-by-second-parse:ArrayShift"
		}
		if !bytes.Equal(first2, f1) || !bytes.Equal(rest2, r1) {
			return line, "second-parse-differs:ArrayShift"
		}
		// the independent walker's answer, where it has one ("" = no expectation: the library's raw reader accepts more
		// than the walker, and a truncated element is simply an error)
		want := ""
		it, _, ok := cread1(data)
		switch {
		case len(data) == 0 || data[0]>>5 != 4 || (ok && it.n == 0):
			want = "unshiftable"
		case ok:
			hl := 1
			if ai := data[0] & 31; ai >= 24 {
				hl += 1 << (ai - 24)
			}
			if el, after, ok := craw(data[hl:]); ok {
				want = fmt.Sprintf("%x|%x", el, cat(head(4, it.n-1), after))
			}
		}
		got := fmt.Sprintf("%x|%x", first, rest)
		if len(first) == 0 {
			got = "unshiftable"
			if !bytes.Equal(rest, data) {
				return line, "ArrayShift-result-differs: nothing shifted but remaining is not the input"
			}
		}
		if want != "" && got != want {
			return line, "ArrayShift-result-differs: got " + got + " want " + want
		}
		// shifting the whole array element by element must end with the empty array and the trailing data
		cur := append([]byte(nil), data...)
		for i := 0; i < 300; i++ {
			f, r := cbor.ArrayShift(cur)
			if len(f) == 0 {
				break
			}
			cur = r
		}
		if len(first) == 0 {
			return line, "ok unshiftable"
		}
		return line, "ok shifted"
	}})
	c.Register(&core.Kind{Name: "rv.nowrite", NoModel: true, Eval: func(p core.Params) (string, string) {
		line := "rv.nowrite " + p["role"] + " " + p["dirs"]
		if p["lineonly"] != "" {
			return line, ""
		}
		return line, evalRvNoWrite(p["role"], p["dirs"])
	}})
}

// cread1 reads only the head of the first item (the array may be longer than what follows).
func cread1(b []byte) (citem, []byte, bool) {
	if len(b) == 0 {
		return citem{}, nil, false
	}
	mt, ai := b[0]>>5, b[0]&31
	var n uint64
	switch {
	case ai < 24:
		return citem{mt: mt, n: uint64(ai)}, b[1:], true
	case ai <= 27:
		k := 1 << (ai - 24)
		if len(b) < 1+k {
			return citem{}, nil, false
		}
		for i := 0; i < k; i++ {
			n = n<<8 | uint64(b[1+i])
		}
		return citem{mt: mt, n: n}, b[1+k:], true
	}
	return citem{}, nil, false
}

// evalRvNoWrite: dirs = directives separated by '/', each in the encodeVars syntax.
func evalRvNoWrite(role, dirs string) (res string) {
	defer func() {
		if r := recover(); r != nil {
			res = "panic " + fmt.Sprint(r)
			core.PanicText = fmt.Sprint(r)
		}
	}()
	var guards []*inGuard
	var gvar []uint8
	var info [][]protocol.RvInstruction
	for _, d := range strings.Split(dirs, "/") {
		var ins []protocol.RvInstruction
		for _, v := range decodeVars(d) {
			g := newInGuard(v.Val)
			guards = append(guards, g)
			gvar = append(gvar, v.Var)
			val := g.in
			if len(v.Val) == 0 && len(guards)%2 == 0 {
				val = nil // (omitted on the wire either way)
			}
			ins = append(ins, protocol.RvInstruction{Variable: protocol.RvVar(v.Var), Value: val})
		}
		info = append(info, ins)
	}
	check := func(after string) string {
		for i, g := range guards {
			if w := g.broken(); w != "" {
				return fmt.Sprintf("input-modified:rv-value:var%d (%s) %s", gvar[i], after, w)
			}
		}
		return ""
	}
	parse := func(in [][]protocol.RvInstruction) []protocol.RvDirective {
		if role == "dev" {
			return protocol.ParseDeviceRvInfo(in)
		}
		return protocol.ParseOwnerRvInfo(in)
	}
	render := func(ds []protocol.RvDirective) string {
		var sb strings.Builder
		for _, d := range ds {
			sb.WriteString(renderDirective(d))
		}
		return sb.String()
	}
	hdr := fdo.VoucherHeader{Version: 101, DeviceInfo: "d", RvInfo: info,
		ManufacturerKey: protocol.PublicKey{Type: protocol.Secp256r1KeyType, Encoding: protocol.X509KeyEnc, Body: []byte{0x41, 0x00}}}
	enc0, err0 := cbor.Marshal(info)
	hdr0, _ := cbor.Marshal(&hdr)
	if w := check("encode"); w != "" {
		return w
	}
	d1 := parse(info)
	if w := check("parse"); w != "" {
		return w
	}
	r1 := render(d1)
	enc1, _ := cbor.Marshal(info)
	hdr1, _ := cbor.Marshal(&hdr)
	if !bytes.Equal(enc0, enc1) {
		return "reencode-differs:rvinfo-after-parse"
	}
	if !bytes.Equal(hdr0, hdr1) {
		return "reencode-differs:voucher-header-after-rv-parse"
	}
	d2 := parse(info)
	if w := check("second parse"); w != "" {
		return w
	}
	if render(d1) != r1 {
		return "first-result-modified-by-second-parse:rv"
	}
	if render(d2) != r1 {
		return "second-parse-differs:rv"
	}
	// the other role's parser reads the same values
	if role == "dev" {
		protocol.ParseOwnerRvInfo(info)
	} else {
		protocol.ParseDeviceRvInfo(info)
	}
	if w := check("parse for the other role"); w != "" {
		return w
	}
	if render(d1) != r1 {
		return "first-result-modified-by-second-parse:rv (other role)"
	}
	enc2, _ := cbor.Marshal(info)
	if !bytes.Equal(enc0, enc2) {
		return "reencode-differs:rvinfo-after-second-parse"
	}
	// through the wire: decode the encoded RvInfo from a inGuard buffer, parse, encode
	if err0 == nil {
		g := newInGuard(enc0)
		var wire [][]protocol.RvInstruction
		if err := cbor.Unmarshal(g.in, &wire); err != nil {
			return "roundtrip-decode-failed:rvinfo"
		}
		dw := parse(wire)
		if w := g.broken(); w != "" {
			return "input-modified:rvinfo-wire " + w
		}
		if render(dw) != r1 {
			return "second-parse-differs:rv-through-the-wire"
		}
		encw, _ := cbor.Marshal(wire)
		if !bytes.Equal(encw, enc0) {
			return "reencode-differs:rvinfo-through-the-wire"
		}
		parse(wire)
		encw2, _ := cbor.Marshal(wire)
		if !bytes.Equal(encw2, enc0) {
			return "reencode-differs:rvinfo-through-the-wire-after-second-parse"
		}
		// a consumer that edits what the parser returned must not reach the instructions
		for _, d := range dw {
			for i := range d.ExtArguments {
				d.ExtArguments[i] ^= 0xff
			}
		}
		encw3, _ := cbor.Marshal(wire)
		if !bytes.Equal(encw3, enc0) {
			return "ok result-refers-to-input"
		}
	}
	return "ok"
}

// shiftInputs: arrays of every small length and around every head-size boundary, with first elements of every shape,
// trailing data, and everything that is not a shiftable array.
func shiftInputs(deep bool) [][]byte {
	var out [][]byte
	firsts := [][]byte{{0x01}, {0x18, 0x64}, {0x61, 0x78}, cat([]byte{0x78, 0x18}, bytes.Repeat([]byte{'m'}, 24)), {0x82, 0x01, 0x02}, {0xa1, 0x01, 0x02},
		{0xc1, 0x00}, {0x43, 1, 2, 3}, {0xf6}, {0x80}, {0x60}}
	lens := []int{}
	for n := 0; n <= 30; n++ {
		lens = append(lens, n)
	}
	lens = append(lens, 254, 255, 256, 257, 258)
	if deep {
		for n := 31; n < 254; n++ {
			lens = append(lens, n)
		}
		lens = append(lens, 65534, 65535, 65536, 65537, 65538, 99998, 99999)
	}
	for _, n := range lens {
		for fi, f := range firsts {
			if n > 40 && fi > 2 && !deep {
				continue
			}
			var b []byte
			if n > 0 {
				b = cat(head(4, uint64(n)), f, bytes.Repeat([]byte{0x02}, n-1))
			} else {
				b = []byte{0x80}
			}
			out = append(out, b, cat(b, []byte{0x05}), cat(b, []byte{0x83, 0x01, 0x02, 0x03}))
			if n > 0 && n <= 3 {
				for k := 0; k < len(b); k++ {
					out = append(out, b[:k]) // every truncation
				}
				out = append(out, longHead(b)) // non-shortest array head
			}
		}
	}
	out = append(out, nil, []byte{}, []byte{0x9f, 0x01, 0xff}, []byte{0x9f}, []byte{0xf6}, []byte{0xf7}, []byte{0x9c, 0x01}, []byte{0x98}, []byte{0x9b, 0xff, 0xff, 0xff, 0xff, 0xff, 0xff, 0xff, 0xff, 0x01})
	for mt := byte(0); mt < 8; mt++ {
		if mt != 4 {
			out = append(out, []byte{mt<<5 | 1, 0x61, 0x78, 0x02})
		}
	}
	return out
}

// extRvValues: RVExtRV values — [mechanism, arguments...] of every small length and around the head-size boundaries, the
// mechanism in short and long text form, arguments of several shapes, trailing bytes.
func extRvValues(deep bool) [][]byte {
	var out [][]byte
	mechs := [][]byte{{0x61, 0x78}, {0x60}, cat([]byte{0x78, 0x18}, bytes.Repeat([]byte{'m'}, 24)), {0x01}, {0x41, 0x78}}
	lens := []int{1, 2, 3, 4, 5, 22, 23, 24, 25, 26, 255, 256, 257}
	if deep {
		lens = nil
		for n := 1; n <= 300; n++ {
			lens = append(lens, n)
		}
	}
	for _, n := range lens {
		for mi, m := range mechs {
			if n > 30 && mi > 1 && !deep {
				continue
			}
			for ai, a := range [][]byte{{0x01}, {0x61, 0x61}, {0x82, 0x01, 0x02}} {
				if n > 30 && ai > 0 && !deep {
					continue
				}
				var args []byte
				for i := 0; i < n-1; i++ {
					args = append(args, a...)
				}
				b := cat(head(4, uint64(n)), m, args)
				out = append(out, b)
				if n <= 25 {
					out = append(out, cat(b, []byte{0x00}))
				}
			}
		}
	}
	return out
}

// runCborNoWrite: the generators for the three kinds above.
func runCborNoWrite(c *core.Ctx) {
	fail := func(kind string, p core.Params, o core.Obs) {
		switch {
		case strings.HasPrefix(o.Impl, "ok"), o.Impl == "err", o.Impl == "n/a":
			if strings.Contains(o.Impl, "refers-to-input") {
				c.Count("result_refers_to_input", kind+":"+p["type"]+":"+p["op"])
			}
			return
		case strings.HasPrefix(o.Impl, "panic"):
			c.Fail("panic@"+kind, core.PanicText, kind, p, o)
		case o.Impl == "hang":
			c.Fail("hang@"+kind, "no result within 20 s", kind, p, o)
		default:
			sig, _, _ := strings.Cut(o.Impl, " ")
			c.Fail(sig, o.Impl, kind, p, o)
		}
	}
	// (1) every catalogue type: valid encodings of random values and mutations of them, through every entry point
	rounds, muts := 20, 3
	if !c.Quick() {
		rounds, muts = 300, 6
	}
	for _, e := range catalogue {
		var inputs []struct {
			b     []byte
			canon bool
		}
		for i := 0; i < rounds; i++ {
			v := reflect.New(e.T)
			Fill(c.Rng, v.Elem(), 3)
			b, err := cbor.Marshal(v.Elem().Interface())
			if err != nil {
				continue
			}
			inputs = append(inputs, struct {
				b     []byte
				canon bool
			}{b, !multiOmit(e.T)})
			for j := 0; j < muts; j++ {
				inputs = append(inputs, struct {
					b     []byte
					canon bool
				}{mutate(c.Rng, b), false})
			}
		}
		ops := noWriteOps
		if !reflect.PointerTo(e.T).Implements(tUnmarshaler) {
			ops = ops[:3]
		}
		for _, in := range inputs {
			for _, op := range ops {
				p := core.Params{"type": e.Name, "bytes": hex.EncodeToString(in.b), "op": op}
				if in.canon {
					p["canonical"] = "1"
				}
				fail("cbor.nowrite", p, c.Do("cbor.nowrite", p, "nowrite-"+op))
			}
		}
		if e.Name == "any" || e.Name == "raw" {
			for _, in := range inputs {
				p := core.Params{"type": e.Name, "bytes": hex.EncodeToString(in.b), "op": "decode-raw"}
				fail("cbor.nowrite", p, c.Do("cbor.nowrite", p, "nowrite-decode-raw"))
			}
		}
	}
	// (2) ArrayShift
	for _, b := range shiftInputs(!c.Quick()) {
		p := core.Params{"bytes": hex.EncodeToString(b)}
		fail("cbor.shift", p, c.Do("cbor.shift", p, "array-shift"))
	}
	for _, b := range extRvValues(!c.Quick()) {
		p := core.Params{"bytes": hex.EncodeToString(b)}
		fail("cbor.shift", p, c.Do("cbor.shift", p, "array-shift-extrv"))
	}
	// (3) rendezvous instructions
	allVars := []uint8{0, 1, 2, 3, 4, 5, 6, 7, 8, 9, 10, 11, 12, 13, 14, 15, 16, 255}
	rv := func(role, dirs, meta string) {
		p := core.Params{"role": role, "dirs": dirs}
		fail("rv.nowrite", p, c.Do("rv.nowrite", p, meta))
	}
	for _, role := range []string{"dev", "own"} {
		for _, v := range allVars {
			for _, m := range rvMenu(v) {
				rv(role, encodeVars([]rvInstr{{v, m.val}}), "rv-singleton")
			}
		}
		for _, b := range extRvValues(!c.Quick()) {
			rv(role, encodeVars([]rvInstr{{15, b}}), "rv-extrv")
			rv(role, encodeVars([]rvInstr{{5, hx("63612e62")}, {15, b}, {3, hx("191f90")}, {15, b}}), "rv-extrv-in-context")
		}
	}
	n := 3000
	if !c.Quick() {
		n = 60000
	}
	for i := 0; i < n; i++ {
		role := []string{"dev", "own"}[c.Rng.Intn(2)]
		var dirs []string
		for d := 1 + c.Rng.Intn(3); d > 0; d-- {
			var vars []rvInstr
			for l := c.Rng.Intn(7); l > 0; l-- {
				v := allVars[c.Rng.Intn(len(allVars))]
				if c.Rng.Intn(3) == 0 {
					v = 15
				}
				if v == markerOther(role) && c.Rng.Intn(4) != 0 {
					continue
				}
				menu := rvMenu(v)
				vars = append(vars, rvInstr{v, menu[c.Rng.Intn(len(menu))].val})
			}
			dirs = append(dirs, encodeVars(vars))
		}
		rv(role, strings.Join(dirs, "/"), "rv-random")
	}
}
