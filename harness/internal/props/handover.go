package props

// C03 — ownership handover.  After DI the voucher the manufacturer stored, and after every TO2 the replacement voucher the
// owner stored, must verify against the credential the device now holds; with credential reuse nothing changes; a TO2
// that is cut before the owner accepted Done leaves the owner's voucher store untouched and returns no credential.
//
// Model kinds (Fdo/Handover.v): handover.adopt (what the device computes from the header it is shown / assembles) and
// handover.replace (the header the owner assembles for the replacement voucher).  The remaining kinds are monitors only.

import (
	"bytes"
	"context"
	"crypto"
	"crypto/ecdsa"
	"crypto/hmac"
	"crypto/rand"
	"crypto/rsa"
	"crypto/sha256"
	"crypto/sha512"
	"crypto/x509"
	"crypto/x509/pkix"
	"encoding/hex"
	"encoding/json"
	"errors"
	"fmt"
	"hash"
	"io"
	"net/http"
	"os"
	"os/exec"
	"path/filepath"
	"reflect"
	"strconv"
	"strings"
	"sync"
	"sync/atomic"
	"time"

	fdo "github.com/fido-device-onboard/go-fdo"
	"github.com/fido-device-onboard/go-fdo/blob"
	"github.com/fido-device-onboard/go-fdo/cbor"
	"github.com/fido-device-onboard/go-fdo/custom"
	"github.com/fido-device-onboard/go-fdo/kex"
	"github.com/fido-device-onboard/go-fdo/protocol"
	"github.com/fido-device-onboard/go-fdo/serviceinfo"

	"verifharness/internal/core"
	"verifharness/internal/env"
	"verifharness/internal/raw"
)

// ---- configurations ----

type hoCfg struct {
	Spec   env.KeySpec // manufacturer and owner keys
	Dev    env.KeySpec // device key (normally the same type)
	Enc    protocol.KeyEncoding
	Kex    kex.Suite
	Cipher kex.CipherSuiteID
	Reuse  bool
}

func hoBool(b bool) string {
	if b {
		return "1"
	}
	return "0"
}

func (cf hoCfg) params() core.Params {
	return core.Params{"spec": cf.Spec.Name, "dev": cf.Dev.Name, "enc": strconv.Itoa(int(cf.Enc)), "kex": string(cf.Kex),
		"cipher": strconv.FormatInt(int64(cf.Cipher), 10), "reuse": hoBool(cf.Reuse)}
}

func (cf hoCfg) String() string {
	mode := "replace"
	if cf.Reuse {
		mode = "reuse"
	}
	d := ""
	if cf.Dev.Name != cf.Spec.Name {
		d = "dev=" + cf.Dev.Name + "/"
	}
	return fmt.Sprintf("%s%s/enc%d/%s/%s/%s", d, cf.Spec.Name, cf.Enc, cf.Kex, hoCipherName(cf.Cipher), mode)
}

func hoCipherName(id kex.CipherSuiteID) string {
	defer func() { _ = recover() }()
	return id.String()
}

func hoCfgOf(p core.Params) hoCfg {
	enc, _ := strconv.Atoi(p["enc"])
	ci, _ := strconv.ParseInt(p["cipher"], 10, 64)
	cf := hoCfg{Spec: specByName(p["spec"]), Dev: specByName(p["dev"]), Enc: protocol.KeyEncoding(enc), Kex: kex.Suite(p["kex"]),
		Cipher: kex.CipherSuiteID(ci), Reuse: p["reuse"] == "1"}
	if p["dev"] == "" {
		cf.Dev = cf.Spec
	}
	return cf
}

func hoInt(p core.Params, k string) int {
	n, _ := strconv.Atoi(p[k])
	return n
}

func hoWith(p core.Params, kv ...string) core.Params {
	q := core.Params{}
	for k, v := range p {
		q[k] = v
	}
	for i := 0; i+1 < len(kv); i += 2 {
		q[kv[i]] = kv[i+1]
	}
	return q
}

var hoCiphers = []kex.CipherSuiteID{kex.A128GcmCipher, kex.A192GcmCipher, kex.A256GcmCipher,
	kex.CoseAes128CbcCipher, kex.CoseAes128CtrCipher, kex.CoseAes256CbcCipher, kex.CoseAes256CtrCipher}

var hoSuites = []kex.Suite{kex.ECDH256Suite, kex.ECDH384Suite, kex.DHKEXid14Suite, kex.DHKEXid15Suite, kex.ASYMKEX2048Suite, kex.ASYMKEX3072Suite}

func hoEncodings(spec env.KeySpec) []protocol.KeyEncoding {
	if spec.Bits == 0 {
		return []protocol.KeyEncoding{protocol.X509KeyEnc, protocol.X5ChainKeyEnc, protocol.CoseKeyEnc}
	}
	return []protocol.KeyEncoding{protocol.X509KeyEnc, protocol.X5ChainKeyEnc}
}

var hoAddrs = []protocol.RvTO2Addr{{DNSAddress: strp("owner.test"), Port: 8043, TransportProtocol: protocol.HTTPSTransport}}

func hoCBOR(v any) []byte {
	b, err := cbor.Marshal(v)
	if err != nil {
		panic(err)
	}
	return b
}

// hoRv: rendezvous info that differs per party (the manufacturer's in DI, each owner's in TO2), with a value-less
// instruction and a second directive so that a header field that is merely carried over cannot go unnoticed.
func hoRv(host string, port int) [][]protocol.RvInstruction {
	return [][]protocol.RvInstruction{
		{{Variable: protocol.RVDns, Value: hoCBOR(host)}, {Variable: protocol.RVDevPort, Value: hoCBOR(port)}, {Variable: protocol.RVOwnerPort, Value: hoCBOR(port + 1)}},
		{{Variable: protocol.RVDevOnly}, {Variable: protocol.RVDns, Value: hoCBOR("alt-" + host)}},
	}
}

// hoKeySize: what voucher.go hashSizeForPubKey reports (EC: curve bits; RSA: modulus BYTES).
func hoKeySize(pub crypto.PublicKey) int {
	switch k := pub.(type) {
	case *ecdsa.PublicKey:
		return k.Curve.Params().BitSize
	case *rsa.PublicKey:
		return k.Size()
	}
	return 0
}

// ---- the world: one pair of deployments (seller "owner", buyer "owner2") per key type ----

type hoWorld struct {
	c     *core.Ctx
	mu    sync.Mutex
	pairs map[string]*[2]*env.Env
	nDev  int
	// diSums: number of Sum calls the device's HMAC objects saw in the last DI
	diSums int
}

func newHoWorld(c *core.Ctx) *hoWorld { return &hoWorld{c: c, pairs: map[string]*[2]*env.Env{}} }

func (w *hoWorld) close() {
	w.mu.Lock()
	defer w.mu.Unlock()
	for k, p := range w.pairs {
		p[0].Close()
		p[1].Close()
		delete(w.pairs, k)
	}
}

func (w *hoWorld) pair(spec env.KeySpec) (*[2]*env.Env, error) {
	w.mu.Lock()
	defer w.mu.Unlock()
	if p := w.pairs[spec.Name]; p != nil {
		return p, nil
	}
	a, err := env.New(WorkDir(), spec)
	if err != nil {
		return nil, err
	}
	b, err := env.NewWithOwner(WorkDir(), spec, "owner2")
	if err != nil {
		a.Close()
		return nil, err
	}
	a.RvInfo, b.RvInfo = hoRv("rv-mfg.test", 8041), hoRv("rv-mfg.test", 8041)
	a.TO2RvInfo, b.TO2RvInfo = hoRv("rv-owner-a.test", 8051), hoRv("rv-owner-b.test", 8061)
	p := &[2]*env.Env{a, b}
	w.pairs[spec.Name] = p
	return p, nil
}

func (w *hoWorld) fail(sig, detail, kind string, p core.Params) {
	if w.c != nil {
		w.c.Fail(sig, detail, kind, p, core.Obs{})
	}
}

func (w *hoWorld) count(h, k string) {
	if w.c != nil {
		w.c.Count(h, k)
	}
}

// hoCur is the world of the running C03 runner (nil in a replay: kinds then build a temporary one).
var hoCur *hoWorld

func hoWorldFor() (w *hoWorld, done func()) {
	if hoCur != nil {
		return hoCur, func() {}
	}
	w = newHoWorld(nil)
	return w, w.close
}

// ---- a fallible HMAC: reports an error on the N-th Sum call (counter shared by the SHA-256 and SHA-384 objects) ----

type hoFailHmac struct {
	hash.Hash
	n      *int32
	failAt int32
	err    error
}

func (h *hoFailHmac) Sum(b []byte) []byte {
	if atomic.AddInt32(h.n, 1) == h.failAt {
		h.err = errors.New("injected fault: HMAC device unavailable")
		return append(b, make([]byte, h.Hash.Size())...)
	}
	return h.Hash.Sum(b)
}
func (h *hoFailHmac) Reset()     { h.err = nil; h.Hash.Reset() }
func (h *hoFailHmac) Err() error { return h.err }

func hoHmacs(secret []byte, failAt int) (h256, h384 hash.Hash, sums *int32) {
	sums = new(int32)
	return &hoFailHmac{Hash: hmac.New(sha256.New, secret), n: sums, failAt: int32(failAt)},
		&hoFailHmac{Hash: hmac.New(sha512.New384, secret), n: sums, failAt: int32(failAt)}, sums
}

// ---- DI with a device key of our choice ----

func (w *hoWorld) di(ctx context.Context, e *env.Env, cf hoCfg, hmacFailAt int) (*env.Device, error) {
	w.mu.Lock()
	w.nDev++
	n := w.nDev
	w.mu.Unlock()
	d := &env.Device{Spec: cf.Dev, Enc: cf.Enc, Key: env.Key(cf.Dev, fmt.Sprintf("dev%d", n%4)), Secret: make([]byte, 32)}
	_, _ = rand.Read(d.Secret)
	csrDER, err := x509.CreateCertificateRequest(rand.Reader, &x509.CertificateRequest{Subject: pkix.Name{CommonName: "device"}}, d.Key)
	if err != nil {
		return nil, err
	}
	csr, _ := x509.ParseCertificateRequest(csrDER)
	h256, h384, sums := hoHmacs(d.Secret, hmacFailAt)
	defer func() { w.diSums = int(atomic.LoadInt32(sums)) }()
	cred, err := fdo.DI(ctx, e.Transport(), custom.DeviceMfgInfo{KeyType: cf.Spec.Type, KeyEncoding: cf.Enc, SerialNumber: fmt.Sprint("c03-", n),
		DeviceInfo: "verif", CertInfo: cbor.X509CertificateRequest(*csr)},
		fdo.DIConfig{HmacSha256: h256, HmacSha384: h384, Key: d.Key, PSS: cf.Dev.Type == protocol.RsaPssKeyType})
	d.Cred = cred
	return d, err
}

// ---- lines and implementation texts of the model kinds ----

func hoAdoptLine(secret []byte, devPub crypto.PublicKey, hdr *fdo.VoucherHeader) string {
	own := 0
	if pub, err := hdr.ManufacturerKey.Public(); err == nil {
		own = hoKeySize(pub)
	}
	return fmt.Sprintf("handover.adopt b:%x n:%x n:%x b:%x", secret, hoKeySize(devPub), own, hoCBOR(hdr))
}

func hoAdoptImpl(hm protocol.Hmac, cred *fdo.DeviceCredential) string {
	return fmt.Sprintf("ok hmac=%s:%x cred=%s:%x:%x:%x:%s:%x", zhex(int64(hm.Algorithm)), hm.Value,
		zhex(int64(cred.Version)), []byte(cred.DeviceInfo), cred.GUID[:], hoCBOR(cred.RvInfo), zhex(int64(cred.PublicKeyHash.Algorithm)), cred.PublicKeyHash.Value)
}

// hoOwnerPub: the public key the owner service presents for a voucher whose header names mfgKey (to2.go ownerKey: same
// type and encoding, taken from the owner's key store).
func hoOwnerPub(ctx context.Context, e *env.Env, mfgKey protocol.PublicKey) (*protocol.PublicKey, error) {
	key, chain, err := e.DB.OwnerKey(ctx, mfgKey.Type, mfgKey.RsaBits())
	if err != nil {
		return nil, err
	}
	enc := mfgKey.Encoding
	if enc == protocol.X5ChainKeyEnc && len(chain) == 0 {
		enc = protocol.X509KeyEnc
	}
	if enc == protocol.X5ChainKeyEnc {
		return protocol.NewPublicKey(mfgKey.Type, chain, false)
	}
	switch pub := key.Public().(type) {
	case *ecdsa.PublicKey:
		return protocol.NewPublicKey(mfgKey.Type, pub, enc == protocol.CoseKeyEnc)
	case *rsa.PublicKey:
		return protocol.NewPublicKey(mfgKey.Type, pub, enc == protocol.CoseKeyEnc)
	}
	return nil, fmt.Errorf("owner key of unexpected type %T", key.Public())
}

// ---- the honest chain: DI, then rounds of (TO0, TO1, TO2, resale) ----

type hoStep struct {
	adoptLine, adoptImpl string
	replLine, replImpl   string
	seq                  []int // request types of the TO2 of this round, in order
}

type hoState struct {
	cf       hoCfg
	pr       *[2]*env.Env
	holder   int
	dev      *env.Device
	cch0     []byte // CBOR of the header's device-certificate-chain hash as created in DI
	chain0   []byte // CBOR of the voucher's device certificate chain as created in DI
	devinfo0 string
	round    int
	ok       bool
	errStep  string
}

type hoChainOpt struct {
	rounds     int
	resellLast bool
	quiet      bool                  // no monitors (preparation of a device for another check)
	obs        func(r int, s hoStep) // per step: 0 = DI, r = after the r-th TO2
	run        string                // id under which the failures' replay parameters name this run
}

func (w *hoWorld) mon(opt hoChainOpt, st *hoState, sig, format string, a ...any) {
	if opt.quiet {
		return
	}
	p := hoWith(st.cf.params(), "round", strconv.Itoa(st.round))
	w.fail(sig, st.cf.String()+" round "+strconv.Itoa(st.round)+": "+fmt.Sprintf(format, a...), "handover.adopt", p)
}

// verifyStored: the C03 agreement, checked with the library's own verification functions.
func (w *hoWorld) verifyStored(opt hoChainOpt, st *hoState, ov *fdo.Voucher, dev *env.Device) {
	cred := dev.Cred
	if err := ov.VerifyHeader(hmac.New(sha256.New, dev.Secret), hmac.New(sha512.New384, dev.Secret)); err != nil {
		w.mon(opt, st, "stored-voucher-hmac-mismatch", "the stored voucher's header HMAC does not verify under the device secret: %v", err)
	}
	if err := ov.VerifyManufacturerKey(cred.PublicKeyHash); err != nil {
		w.mon(opt, st, "stored-voucher-keyhash-mismatch", "the credential's key hash does not match the stored voucher's manufacturer key: %v", err)
	}
	if ov.Header.Val.GUID != cred.GUID {
		w.mon(opt, st, "guid-mismatch", "stored header GUID %x, credential GUID %x", ov.Header.Val.GUID[:], cred.GUID[:])
	}
	if a, b := hoCBOR(ov.Header.Val.RvInfo), hoCBOR(cred.RvInfo); !bytes.Equal(a, b) {
		w.mon(opt, st, "rvinfo-mismatch", "stored header rendezvous info %x, credential %x", a, b)
	}
	if err := ov.VerifyCertChainHash(); err != nil {
		w.mon(opt, st, "certchainhash-mismatch", "the stored voucher's certificate chain does not match the header's hash: %v", err)
	}
	if a := hoCBOR(ov.Header.Val.CertChainHash); st.cch0 != nil && !bytes.Equal(a, st.cch0) {
		w.mon(opt, st, "certchainhash-mismatch", "header certificate chain hash %x differs from the one created in DI %x", a, st.cch0)
	}
	if a := hoCBOR(ov.CertChain); st.chain0 != nil && !bytes.Equal(a, st.chain0) {
		w.mon(opt, st, "certchainhash-mismatch", "the stored voucher's device certificate chain changed since DI")
	}
	if ov.Header.Val.DeviceInfo != cred.DeviceInfo || (st.devinfo0 != "" && cred.DeviceInfo != st.devinfo0) {
		w.mon(opt, st, "devinfo-mismatch", "stored header device info %q, credential %q, at DI %q", ov.Header.Val.DeviceInfo, cred.DeviceInfo, st.devinfo0)
	}
	if ov.Header.Val.Version != cred.Version {
		w.mon(opt, st, "version-mismatch", "stored header version %d, credential %d", ov.Header.Val.Version, cred.Version)
	}
}

// hoBlob writes the device's state to the blob encoding and reads it back; the device continues with what it read.
func (w *hoWorld) hoBlob(opt hoChainOpt, st *hoState, d *env.Device) (*env.Device, error) {
	in := blob.DeviceCredential{Active: true, DeviceCredential: *d.Cred, HmacSecret: d.Secret, PrivateKey: blob.Pkcs8Key{Signer: d.Key}}
	b, err := cbor.Marshal(in)
	if err != nil {
		return nil, fmt.Errorf("blob marshal: %w", err)
	}
	var back blob.DeviceCredential
	if err := cbor.Unmarshal(b, &back); err != nil {
		return nil, fmt.Errorf("blob unmarshal: %w", err)
	}
	var plain fdo.DeviceCredential
	if err := cbor.Unmarshal(hoCBOR(*d.Cred), &plain); err != nil {
		return nil, fmt.Errorf("credential unmarshal: %w", err)
	}
	want := hoCBOR(*d.Cred)
	if !bytes.Equal(hoCBOR(back.DeviceCredential), want) || !bytes.Equal(hoCBOR(plain), want) || !bytes.Equal(back.HmacSecret, d.Secret) {
		w.mon(opt, st, "blob-roundtrip-changed", "the credential read back from its blob encoding differs: %x / %x / %x", want, hoCBOR(back.DeviceCredential), hoCBOR(plain))
	}
	if !opt.quiet {
		w.count("blob_roundtrip", "deepequal="+hoBool(reflect.DeepEqual(back.DeviceCredential, *d.Cred)))
	}
	if back.PrivateKey.Signer == nil {
		return nil, errors.New("blob: no private key read back")
	}
	return &env.Device{Spec: d.Spec, Enc: d.Enc, Key: back.PrivateKey.Signer, Secret: back.HmacSecret, Cred: &back.DeviceCredential}, nil
}

func hoSeq(e *env.Env) (seq []int) {
	for _, x := range e.RT.Log {
		if x.MsgType >= 60 && x.MsgType <= 70 {
			seq = append(seq, x.MsgType)
		}
	}
	return seq
}

func hoReplaces(es []env.Effect) (n int, last string) {
	for _, f := range es {
		if f.Kind == "voucher-replace" {
			n++
			last = f.Info
		}
	}
	return n, last
}

// resell: the current holder extends the voucher it holds for the device to the other deployment's owner key.
func (w *hoWorld) resell(ctx context.Context, st *hoState) error {
	from, to := st.pr[st.holder], st.pr[1-st.holder]
	// the seller gives the voucher away (as the voucher-extension service does: RemoveVoucher, extend, hand over)
	ov, err := from.DB.RemoveVoucher(ctx, st.dev.Cred.GUID)
	if err != nil {
		return fmt.Errorf("seller holds no voucher: %w", err)
	}
	mk := ov.Header.Val.ManufacturerKey
	seller, _, err := from.DB.OwnerKey(ctx, mk.Type, mk.RsaBits())
	if err != nil {
		return err
	}
	buyer, chain, err := to.DB.OwnerKey(ctx, mk.Type, mk.RsaBits())
	if err != nil {
		return err
	}
	var ov2 *fdo.Voucher
	if st.cf.Enc == protocol.X5ChainKeyEnc {
		ov2, err = fdo.ExtendVoucher(ov, seller, chain, nil)
	} else {
		switch pub := buyer.Public().(type) {
		case *ecdsa.PublicKey:
			ov2, err = fdo.ExtendVoucher(ov, seller, pub, nil)
		case *rsa.PublicKey:
			ov2, err = fdo.ExtendVoucher(ov, seller, pub, nil)
		}
	}
	if err != nil {
		return fmt.Errorf("extend: %w", err)
	}
	if err := ov2.VerifyEntries(); err != nil {
		return fmt.Errorf("extended voucher does not verify: %w", err)
	}
	if err := to.DB.AddVoucher(ctx, ov2); err != nil {
		return fmt.Errorf("buyer store: %w", err)
	}
	st.holder = 1 - st.holder
	return nil
}

func (w *hoWorld) chain(ctx context.Context, cf hoCfg, opt hoChainOpt) (st *hoState) {
	st = &hoState{cf: cf}
	obs := func(r int, s hoStep) {
		if opt.obs != nil {
			opt.obs(r, s)
		}
	}
	stop := func(step string, err error) *hoState {
		st.errStep = step + ": " + err.Error()
		return st
	}
	pr, err := w.pair(cf.Spec)
	if err != nil {
		return stop("env", err)
	}
	st.pr = pr
	pr[0].Reuse, pr[1].Reuse = cf.Reuse, cf.Reuse
	pr[0].OwnerModules, pr[1].OwnerModules = nil, nil

	// ---- DI ----
	e := pr[0]
	dev, err := w.di(ctx, e, cf, 0)
	if err != nil {
		w.mon(opt, st, "di-failed", "honest DI failed: %v", err)
		obs(0, hoStep{adoptLine: "handover.adopt b: n:0 n:0 b:", adoptImpl: "err-di"})
		return stop("DI", err)
	}
	st.dev = dev
	ov, err := e.DB.Voucher(ctx, dev.Cred.GUID)
	if err != nil {
		w.mon(opt, st, "di-voucher-missing", "the manufacturer holds no voucher for the GUID of the new credential %x: %v", dev.Cred.GUID[:], err)
		obs(0, hoStep{adoptLine: "handover.adopt b: n:0 n:0 b:", adoptImpl: "err-di-voucher"})
		return stop("DI-voucher", err)
	}
	st.cch0, st.chain0, st.devinfo0 = hoCBOR(ov.Header.Val.CertChainHash), hoCBOR(ov.CertChain), ov.Header.Val.DeviceInfo
	if !opt.quiet {
		w.verifyStored(opt, st, ov, dev)
		if a, b := hoCBOR(ov.Header.Val.RvInfo), hoCBOR(e.RvInfo); !bytes.Equal(a, b) {
			w.mon(opt, st, "rvinfo-mismatch", "DI: stored header rendezvous info %x is not the manufacturer's %x", a, b)
		}
	}
	obs(0, hoStep{adoptLine: hoAdoptLine(dev.Secret, dev.Key.Public(), &ov.Header.Val), adoptImpl: hoAdoptImpl(ov.Hmac, dev.Cred)})

	// ---- rounds ----
	for r := 1; r <= opt.rounds; r++ {
		st.round = r
		e = pr[st.holder]
		if dev, err = w.hoBlob(opt, st, st.dev); err != nil {
			w.mon(opt, st, "blob-roundtrip-failed", "%v", err)
			return stop("blob", err)
		}
		st.dev = dev
		guid0 := dev.Cred.GUID
		before, err := e.DB.Voucher(ctx, guid0)
		if err != nil {
			return stop("pre-voucher", err)
		}
		beforeB, oldHdr := hoCBOR(before), before.Header.Val
		failStep := func(step string, err error) *hoState {
			w.mon(opt, st, "re-onboarding-failed", "%s failed for a device holding the credential of the previous handover (%d voucher entries): %v", step, len(before.Entries), err)
			obs(r, hoStep{adoptLine: hoAdoptLine(dev.Secret, dev.Key.Public(), &oldHdr), adoptImpl: "err-" + step,
				replLine: fmt.Sprintf("handover.replace b:%x b: b:80 b:", hoCBOR(&oldHdr)), replImpl: "err-" + step})
			return stop(step, err)
		}
		if _, err := e.TO0(ctx, guid0, hoAddrs); err != nil {
			return failStep("to0", err)
		}
		to1d, err := e.TO1(ctx, dev)
		if err != nil {
			return failStep("to1", err)
		}
		j0, s0 := e.Journal.Len(), e.Sess.Len()
		e.RT.Reset()
		cfg := dev.TO2Config(cf.Kex, cf.Cipher)
		cfg.AllowCredentialReuse = cf.Reuse
		newCred, err := e.TO2(ctx, dev, to1d, cfg)
		if err != nil {
			return failStep("to2", err)
		}
		step := hoStep{seq: hoSeq(e)}
		nRepl, _ := hoReplaces(e.Journal.Since(j0))
		var replGUID, replRv string
		for _, f := range e.Sess.Since(s0) {
			switch f.Kind {
			case "to2-replacement-guid":
				replGUID = f.GUID
			case "to2-rvinfo":
				replRv = f.Info
			}
		}
		if cf.Reuse {
			// nothing may change on either side
			after, err := e.DB.Voucher(ctx, guid0)
			switch {
			case newCred != nil:
				w.mon(opt, st, "reuse-credential-returned", "credential reuse: fdo.TO2 returned a credential (GUID %x)", newCred.GUID[:])
			case nRepl != 0 || replGUID != "":
				w.mon(opt, st, "reuse-voucher-replaced", "credential reuse: the owner replaced the voucher (%d replacements, session replacement GUID %q)", nRepl, replGUID)
			case err != nil:
				w.mon(opt, st, "reuse-voucher-changed", "credential reuse: the owner no longer holds the voucher: %v", err)
			case !bytes.Equal(hoCBOR(after), beforeB):
				w.mon(opt, st, "reuse-voucher-changed", "credential reuse: the stored voucher changed: %x -> %x", beforeB, hoCBOR(after))
			default:
				if !opt.quiet {
					w.verifyStored(opt, st, after, dev)
				}
			}
			obs(r, step)
		} else {
			if newCred == nil {
				w.mon(opt, st, "no-credential", "credential replacement: fdo.TO2 succeeded without returning a credential")
				obs(r, hoStep{adoptLine: hoAdoptLine(dev.Secret, dev.Key.Public(), &oldHdr), adoptImpl: "err-nocred",
					replLine: fmt.Sprintf("handover.replace b:%x b:%s b:%s b:", hoCBOR(&oldHdr), replGUID, replRv), replImpl: "err-nocred"})
				return stop("to2", errors.New("no credential"))
			}
			ndev := &env.Device{Spec: dev.Spec, Enc: dev.Enc, Key: dev.Key, Secret: dev.Secret, Cred: newCred}
			// owner side: what to2Done2 assembles from the stored voucher and the session values
			step.replLine, step.replImpl = fmt.Sprintf("handover.replace b:%x b:%s b:%s b:", hoCBOR(&oldHdr), replGUID, replRv), "err-owner-key"
			opk, err := hoOwnerPub(ctx, e, oldHdr.ManufacturerKey)
			if err == nil {
				step.replLine = fmt.Sprintf("handover.replace b:%x b:%s b:%s b:%x", hoCBOR(&oldHdr), replGUID, replRv, hoCBOR(opk))
			}
			var g protocol.GUID
			gb, _ := hex.DecodeString(replGUID)
			copy(g[:], gb)
			nov, verr := e.DB.Voucher(ctx, g)
			if nRepl != 1 || len(gb) != 16 {
				w.mon(opt, st, "replace-count", "credential replacement: %d voucher replacements, session replacement GUID %q", nRepl, replGUID)
			}
			if verr != nil {
				w.mon(opt, st, "guid-mismatch", "the owner holds no voucher under the replacement GUID of its session %q: %v", replGUID, verr)
				step.replImpl = "err-no-voucher"
				nov, verr = e.DB.Voucher(ctx, newCred.GUID)
			} else if err == nil {
				step.replImpl = fmt.Sprintf("ok b:%x", hoCBOR(&nov.Header.Val))
			}
			if verr != nil {
				w.mon(opt, st, "guid-mismatch", "the owner holds no voucher under the GUID of the device's new credential %x: %v", newCred.GUID[:], verr)
				step.adoptLine, step.adoptImpl = hoAdoptLine(dev.Secret, dev.Key.Public(), &oldHdr), "err-no-voucher"
				obs(r, step)
				return stop("to2-voucher", verr)
			}
			if !opt.quiet {
				w.verifyStored(opt, st, nov, ndev)
				if a, b := hoCBOR(nov.Header.Val.RvInfo), hoCBOR(e.TO2RvInfo); !bytes.Equal(a, b) {
					w.mon(opt, st, "rvinfo-mismatch", "replacement header rendezvous info %x is not the owner's %x", a, b)
				}
				if newCred.GUID == guid0 {
					w.mon(opt, st, "guid-mismatch", "credential replacement kept the GUID")
				}
				if len(nov.Entries) != 0 {
					w.mon(opt, st, "replacement-entries", "the replacement voucher has %d entries", len(nov.Entries))
				}
			}
			step.adoptLine, step.adoptImpl = hoAdoptLine(dev.Secret, dev.Key.Public(), &nov.Header.Val), hoAdoptImpl(nov.Hmac, newCred)
			st.dev = ndev
			obs(r, step)
		}
		if r < opt.rounds || opt.resellLast {
			if err := w.resell(ctx, st); err != nil {
				w.mon(opt, st, "resale-failed", "the stored voucher cannot be extended to the next owner: %v", err)
				return stop("resale", err)
			}
		}
	}
	st.ok = true
	return st
}

// ---- observations of chain runs, shared between the runner and the kinds ----

var (
	hoMu    sync.Mutex
	hoCache = map[string]hoStep{}
	hoRunNo int
	// hoRaceDone: results of handover.devmodrace the runner computed itself, by parameters
	hoRaceDone = map[string]string{}
)

func hoPut(run string, r int, s hoStep) {
	hoMu.Lock()
	hoCache[run+"|"+strconv.Itoa(r)] = s
	hoMu.Unlock()
}

func hoGet(p core.Params) hoStep {
	key := p["run"] + "|" + p["round"]
	hoMu.Lock()
	s, ok := hoCache[key]
	hoMu.Unlock()
	if ok && p["run"] != "" {
		return s
	}
	// replay: run the chain of the parameters up to the round asked for
	w, done := hoWorldFor()
	defer done()
	r, _ := strconv.Atoi(p["round"])
	ctx, cancel := context.WithTimeout(context.Background(), 120*time.Second)
	defer cancel()
	var got hoStep
	w.chain(ctx, hoCfgOf(p), hoChainOpt{rounds: r, quiet: true, obs: func(i int, s hoStep) {
		if i == r {
			got = s
		}
	}})
	return got
}

// ---- cuts ----

type hoCut struct {
	msg  int    // request type of the exchange that is cut
	occ  int    // which occurrence of that request type (1-based)
	kind string // req-lost | resp-lost | peer-255
	slow bool   // the failure of a 68 is reported after a short delay
}

// index names the message that is lost or replaced.
func (c hoCut) index() int {
	if c.kind == "req-lost" {
		return c.msg
	}
	return c.msg + 1
}

func hoErrResp(req *http.Request, status int) *http.Response {
	return &http.Response{StatusCode: status, Status: strconv.Itoa(status) + " injected", Header: http.Header{}, Body: io.NopCloser(bytes.NewReader(nil)), Request: req}
}

func hoInstallCut(e *env.Env, cut hoCut) (fired *bool) {
	fired = new(bool)
	seen := map[int]int{}
	down := false
	var mu sync.Mutex
	e.RT.Hook = func(mt int, req *http.Request, body []byte, do func([]byte, http.Header) *http.Response) *http.Response {
		mu.Lock()
		defer mu.Unlock()
		if down {
			return hoErrResp(req, http.StatusServiceUnavailable)
		}
		seen[mt]++
		if *fired || mt != cut.msg || seen[mt] != cut.occ {
			return nil
		}
		*fired = true
		if mt == 68 && cut.slow {
			// keep clear of a race in the library's client (see handover.devmodrace): a TO2 that fails at once in its first
			// service-info exchange can crash the process; the dedicated check looks at that, the cut cases must not die of it
			defer time.Sleep(5 * time.Millisecond)
		}
		switch cut.kind {
		case "req-lost": // the network is gone: nothing reaches the peer from now on
			down = true
			return hoErrResp(req, http.StatusServiceUnavailable)
		case "resp-lost": // the peer processed the request; its answer is lost (later messages get through)
			resp := do(body, nil)
			_, _ = io.Copy(io.Discard, resp.Body)
			_ = resp.Body.Close()
			return hoErrResp(req, http.StatusBadGateway)
		default: // the peer refuses with an FDO error message
			b := hoCBOR(protocol.ErrorMessage{Code: protocol.InternalServerErrCode, PrevMsgType: uint8(mt), ErrString: "injected refusal", Timestamp: time.Now().Unix()})
			resp := hoErrResp(req, http.StatusInternalServerError)
			resp.Header.Set("Content-Type", "application/cbor")
			resp.Header.Set("Message-Type", "255")
			resp.Header.Set("Content-Length", strconv.Itoa(len(b)))
			resp.ContentLength = int64(len(b))
			resp.Body = io.NopCloser(bytes.NewReader(b))
			return resp
		}
	}
	return fired
}

type hoCutRes struct {
	harness   string // the case could not be set up
	fired     bool
	to2Err    string
	credNil   bool
	replaced  int
	sameBytes bool
	recover   string // ok | skipped | the error
}

func (r hoCutRes) text() string {
	if r.harness != "" {
		return "err-harness " + r.harness
	}
	return fmt.Sprintf("ok fired=%s failed=%s cred=%s replaced=%d store=%s recover=%s", hoBool(r.fired), hoBool(r.to2Err != ""), map[bool]string{true: "nil", false: "returned"}[r.credNil],
		r.replaced, map[bool]string{true: "same", false: "changed"}[r.sameBytes], firstWordOf(r.recover))
}

var lastHoCut hoCutRes

// cutTO2: a device that went through `depth` honest handovers (and resales) runs a TO2 that is cut; then an honest one.
func (w *hoWorld) cutTO2(cf hoCfg, depth int, cut hoCut) (res hoCutRes) {
	ctx, cancel := context.WithTimeout(context.Background(), 120*time.Second)
	defer cancel()
	st := w.chain(ctx, cf, hoChainOpt{rounds: depth, resellLast: true, quiet: true})
	if !st.ok {
		res.harness = "chain: " + st.errStep
		return res
	}
	e, dev := st.pr[st.holder], st.dev
	guid0 := dev.Cred.GUID
	if _, err := e.TO0(ctx, guid0, hoAddrs); err != nil {
		res.harness = "to0: " + err.Error()
		return res
	}
	to1d, err := e.TO1(ctx, dev)
	if err != nil {
		res.harness = "to1: " + err.Error()
		return res
	}
	before, err := e.DB.Voucher(ctx, guid0)
	if err != nil {
		res.harness = "voucher: " + err.Error()
		return res
	}
	beforeB := hoCBOR(before)
	j0 := e.Journal.Len()
	cfg := dev.TO2Config(cf.Kex, cf.Cipher)
	cfg.AllowCredentialReuse = cf.Reuse
	fired := hoInstallCut(e, cut)
	cred, err := e.TO2(ctx, dev, to1d, cfg)
	e.RT.Hook = nil
	res.fired = *fired
	res.credNil = cred == nil
	if err != nil {
		res.to2Err = err.Error()
	}
	res.replaced, _ = hoReplaces(e.Journal.Since(j0))
	after, err := e.DB.Voucher(ctx, guid0)
	res.sameBytes = err == nil && bytes.Equal(hoCBOR(after), beforeB)
	// a fresh honest TO2 with the OLD credential
	if res.replaced == 0 && res.sameBytes {
		cfg2 := dev.TO2Config(cf.Kex, cf.Cipher)
		cfg2.AllowCredentialReuse = cf.Reuse
		c2, err := e.TO2(ctx, dev, to1d, cfg2)
		switch {
		case err != nil:
			res.recover = "failed: " + err.Error()
		case !cf.Reuse && c2 == nil:
			res.recover = "failed: no credential returned"
		default:
			res.recover = "ok"
			if !cf.Reuse {
				if nov, err := e.DB.Voucher(ctx, c2.GUID); err != nil {
					res.recover = "failed: no voucher under the new GUID: " + err.Error()
				} else if err := nov.VerifyHeader(hmac.New(sha256.New, dev.Secret), hmac.New(sha512.New384, dev.Secret)); err != nil {
					res.recover = "failed: replacement voucher does not verify: " + err.Error()
				}
			}
		}
	} else {
		res.recover = "skipped"
	}
	return res
}

type hoDICutRes struct {
	fired   bool
	err     string
	credNil bool
	stored  int
}

var lastHoDICut hoDICutRes

func (w *hoWorld) cutDI(cf hoCfg, cut hoCut) (res hoDICutRes, herr string) {
	ctx, cancel := context.WithTimeout(context.Background(), 60*time.Second)
	defer cancel()
	pr, err := w.pair(cf.Spec)
	if err != nil {
		return res, err.Error()
	}
	e := pr[0]
	j0 := e.Journal.Len()
	fired := hoInstallCut(e, cut)
	d, err := w.di(ctx, e, cf, 0)
	e.RT.Hook = nil
	res.fired = *fired
	res.credNil = d == nil || d.Cred == nil
	if err != nil {
		res.err = err.Error()
	}
	for _, f := range e.Journal.Since(j0) {
		if f.Kind == "di-voucher" {
			res.stored++
		}
	}
	return res, ""
}

// ---- a failing HMAC ----

type hoHmacRes struct {
	harness string
	failed  bool
	errText string
	sums    int
	verify  string // "ok", "n/a" or the verification error of the stored voucher
}

var lastHoHmac hoHmacRes

func (w *hoWorld) hmacFail(cf hoCfg, phase string, n int) (res hoHmacRes) {
	ctx, cancel := context.WithTimeout(context.Background(), 60*time.Second)
	defer cancel()
	pr, err := w.pair(cf.Spec)
	if err != nil {
		res.harness = err.Error()
		return res
	}
	e := pr[0]
	e.Reuse, e.OwnerModules = cf.Reuse, nil
	res.verify = "n/a"
	if phase == "di" {
		d, err := w.di(ctx, e, cf, n)
		res.sums = w.diSums
		if err != nil {
			res.failed, res.errText = true, err.Error()
			return res
		}
		ov, err := e.DB.Voucher(ctx, d.Cred.GUID)
		if err != nil {
			res.verify = "no voucher: " + err.Error()
			return res
		}
		res.verify = "ok"
		if err := ov.VerifyHeader(hmac.New(sha256.New, d.Secret), hmac.New(sha512.New384, d.Secret)); err != nil {
			res.verify = err.Error()
		}
		return res
	}
	d, err := w.di(ctx, e, cf, 0)
	if err != nil {
		res.harness = "di: " + err.Error()
		return res
	}
	if _, err := e.TO0(ctx, d.Cred.GUID, hoAddrs); err != nil {
		res.harness = "to0: " + err.Error()
		return res
	}
	to1d, err := e.TO1(ctx, d)
	if err != nil {
		res.harness = "to1: " + err.Error()
		return res
	}
	cfg := d.TO2Config(cf.Kex, cf.Cipher)
	cfg.AllowCredentialReuse = cf.Reuse
	var sums *int32
	cfg.HmacSha256, cfg.HmacSha384, sums = hoHmacs(d.Secret, n)
	cred, err := e.TO2(ctx, d, to1d, cfg)
	res.sums = int(atomic.LoadInt32(sums))
	if err != nil {
		res.failed, res.errText = true, err.Error()
		if cred != nil {
			res.verify = "credential returned together with an error"
		}
		return res
	}
	guid := d.Cred.GUID
	if cred != nil {
		guid = cred.GUID
	}
	ov, err := e.DB.Voucher(ctx, guid)
	if err != nil {
		res.verify = "no voucher: " + err.Error()
		return res
	}
	res.verify = "ok"
	if err := ov.VerifyHeader(hmac.New(sha256.New, d.Secret), hmac.New(sha512.New384, d.Secret)); err != nil {
		res.verify = err.Error()
	}
	return res
}

// ---- TO2.Done with a wrong nonce (raw client) ----

type hoNonceRes struct {
	harness   string
	respType  int
	errStr    string
	replaced  int
	sameBytes bool
}

var lastHoNonce hoNonceRes

func (w *hoWorld) wrongNonce(cf hoCfg) (res hoNonceRes) {
	ctx, cancel := context.WithTimeout(context.Background(), 60*time.Second)
	defer cancel()
	pr, err := w.pair(cf.Spec)
	if err != nil {
		res.harness = err.Error()
		return res
	}
	e := pr[0]
	e.Reuse = cf.Reuse
	e.OwnerModules = raw.OneShot(e)
	defer func() { e.OwnerModules = nil }()
	d, err := w.di(ctx, e, cf, 0)
	if err != nil {
		res.harness = "di: " + err.Error()
		return res
	}
	before, err := e.DB.Voucher(ctx, d.Cred.GUID)
	if err != nil {
		res.harness = "voucher: " + err.Error()
		return res
	}
	j0 := e.Journal.Len()
	dr := raw.NewDriver(e, d, raw.Config{Kex: cf.Kex, Cipher: cf.Cipher, Reuse: cf.Reuse})
	sess := -1
	do := func(s raw.Step) raw.Result {
		s.Sess, s.BodyFrom = sess, -1
		if sess < 0 {
			s.Tok = raw.TokNone
		}
		r := dr.Do(s)
		if r.NewSess >= 0 {
			sess = r.NewSess
		}
		return r
	}
	for _, m := range []int{60, 62, 64, 66, 68, 68} {
		if r := do(raw.Step{Msg: m}); r.RespType != m+1 {
			res.harness = fmt.Sprintf("honest prefix: %d answered with %d %s %s", m, r.RespType, r.ErrStr, r.Err)
			return res
		}
	}
	r := do(raw.Step{Msg: 70, Fault: "nonce"})
	if r.Err != "" {
		res.harness = "driver: " + r.Err
		return res
	}
	res.respType, res.errStr = r.RespType, r.ErrStr
	res.replaced, _ = hoReplaces(e.Journal.Since(j0))
	after, err := e.DB.Voucher(ctx, d.Cred.GUID)
	res.sameBytes = err == nil && bytes.Equal(hoCBOR(after), hoCBOR(before))
	return res
}

// ---- two TO2 sessions of the same device both reach Done ----

type hoDoubleRes struct {
	harness        string
	first, second  int // response types of the two TO2.Done messages
	replaced       int
	rows0, rows1   int // rows of the owner's voucher table before anything and at the end
	oldGone, newOK bool
}

var lastHoDouble hoDoubleRes

func hoVoucherRows(e *env.Env) int {
	n := -1
	_ = e.DB.DB().QueryRow("SELECT COUNT(*) FROM vouchers").Scan(&n)
	return n
}

// doubleDone: sessions A and B of one device run up to the last service-info exchange; A completes (the voucher is
// replaced), then B sends its Done. B's replacement must not happen (its old voucher is gone) and must leave nothing behind:
// the store holds exactly what it held after A.
func (w *hoWorld) doubleDone(cf hoCfg, interleaved bool) (res hoDoubleRes) {
	ctx, cancel := context.WithTimeout(context.Background(), 60*time.Second)
	defer cancel()
	pr, err := w.pair(cf.Spec)
	if err != nil {
		res.harness = err.Error()
		return res
	}
	e := pr[0]
	e.Reuse = false
	e.OwnerModules = raw.OneShot(e)
	defer func() { e.OwnerModules = nil }()
	d, err := w.di(ctx, e, cf, 0)
	if err != nil {
		res.harness = "di: " + err.Error()
		return res
	}
	res.rows0 = hoVoucherRows(e)
	j0 := e.Journal.Len()
	dr := raw.NewDriver(e, d, raw.Config{Kex: cf.Kex, Cipher: cf.Cipher})
	sess := []int{-1, -1}
	do := func(i int, s raw.Step) raw.Result {
		s.Sess, s.BodyFrom = sess[i], -1
		if sess[i] < 0 {
			s.Tok = raw.TokNone
		}
		r := dr.Do(s)
		if r.NewSess >= 0 {
			sess[i] = r.NewSess
		}
		return r
	}
	for i := 0; i < 2; i++ {
		for _, m := range []int{60, 62, 64, 66, 68, 68} {
			if r := do(i, raw.Step{Msg: m}); r.RespType != m+1 {
				res.harness = fmt.Sprintf("honest prefix of session %d: %d answered with %d %s %s", i, m, r.RespType, r.ErrStr, r.Err)
				return res
			}
		}
	}
	if interleaved {
		// B's Done has looked its voucher up and is about to replace it when A's Done runs to completion
		e.BeforeReplace = func() { res.first = do(0, raw.Step{Msg: 70}).RespType }
		res.second = do(1, raw.Step{Msg: 70}).RespType
		e.BeforeReplace = nil
	} else {
		res.first = do(0, raw.Step{Msg: 70}).RespType
		res.second = do(1, raw.Step{Msg: 70}).RespType
	}
	res.replaced, _ = hoReplaces(e.Journal.Since(j0))
	res.rows1 = hoVoucherRows(e)
	_, err = e.DB.Voucher(ctx, d.Cred.GUID)
	res.oldGone = err != nil
	return res
}

// ---- a TO2 that fails at once in its first service-info exchange, with a devmod module that takes its time ----

// hoSlowDevmod is a custom devmod module (TO2Config.DeviceModules["devmod"]): it writes the required messages, ends the
// service-info message, and then needs a moment before it returns (an application gathering system information).
type hoSlowDevmod struct{ pause time.Duration }

func (m *hoSlowDevmod) Transition(bool) error { return nil }
func (m *hoSlowDevmod) Receive(context.Context, string, io.Reader, func(string) io.Writer, func()) error {
	return nil
}
func (m *hoSlowDevmod) Yield(_ context.Context, respond func(string) io.Writer, yield func()) error {
	if err := cbor.NewEncoder(respond("active")).Encode(true); err != nil {
		return err
	}
	for _, kv := range [][2]string{{"os", "linux"}, {"arch", "amd64"}, {"version", "1"}, {"device", "verif"}, {"sep", ";"}, {"bin", "amd64"}} {
		if err := cbor.NewEncoder(respond(kv[0])).Encode(kv[1]); err != nil {
			return err
		}
	}
	yield()
	time.Sleep(m.pause)
	return nil
}

// devmodRaceChild runs in a process of its own (a panic in a goroutine of the library cannot be recovered).
func (w *hoWorld) devmodRaceChild(cf hoCfg, attempts int) string {
	ctx, cancel := context.WithTimeout(context.Background(), 120*time.Second)
	defer cancel()
	pr, err := w.pair(cf.Spec)
	if err != nil {
		return "err-harness " + err.Error()
	}
	e := pr[0]
	e.Reuse, e.OwnerModules = cf.Reuse, nil
	for i := 0; i < attempts; i++ {
		d, err := w.di(ctx, e, cf, 0)
		if err != nil {
			return "err-harness di: " + err.Error()
		}
		if _, err := e.TO0(ctx, d.Cred.GUID, hoAddrs); err != nil {
			return "err-harness to0: " + err.Error()
		}
		to1d, err := e.TO1(ctx, d)
		if err != nil {
			return "err-harness to1: " + err.Error()
		}
		cfg := d.TO2Config(cf.Kex, cf.Cipher)
		cfg.AllowCredentialReuse = cf.Reuse
		cfg.DeviceModules = map[string]serviceinfo.DeviceModule{"devmod": &hoSlowDevmod{pause: 150 * time.Millisecond}}
		fired := hoInstallCut(e, hoCut{msg: 68, occ: 1, kind: "req-lost"})
		cred, err := e.TO2(ctx, d, to1d, cfg)
		e.RT.Hook = nil
		if !*fired {
			return "err-harness the cut did not fire"
		}
		if err == nil || cred != nil {
			return "err-harness the cut TO2 did not fail"
		}
		time.Sleep(300 * time.Millisecond) // let the library's devmod goroutine run to its end
	}
	return fmt.Sprintf("ok attempts=%d no-panic", attempts)
}

func hoDevmodRace(p core.Params) string {
	if p["child"] == "1" {
		w, done := hoWorldFor()
		defer done()
		return w.devmodRaceChild(hoCfgOf(p), max(hoInt(p, "attempts"), 1))
	}
	exe, err := os.Executable()
	if err != nil {
		return "err-harness " + err.Error()
	}
	rp, err := json.Marshal(map[string]any{"kind": "handover.devmodrace", "params": hoWith(p, "child", "1")})
	if err != nil {
		return "err-harness " + err.Error()
	}
	f := filepath.Join(WorkDir(), fmt.Sprintf("c03-race-%d.json", os.Getpid()))
	if err := os.WriteFile(f, rp, 0o644); err != nil {
		return "err-harness " + err.Error()
	}
	defer os.Remove(f)
	ctx, cancel := context.WithTimeout(context.Background(), 150*time.Second)
	defer cancel()
	cmd := exec.CommandContext(ctx, exe, "-prop", "C03", "-replay", f)
	out, err := cmd.CombinedOutput()
	text := string(out)
	if cmd.Process != nil { // a child that died left its deployments behind
		if l, _ := filepath.Glob(filepath.Join(WorkDir(), fmt.Sprintf("env-%d-*", cmd.Process.Pid))); len(l) > 0 {
			for _, d := range l {
				_ = os.RemoveAll(d)
			}
		}
	}
	switch {
	case strings.Contains(text, "panic: send on closed channel") && strings.Contains(text, "UnchunkWriter).nextPipe"):
		return "panic send-on-closed-channel serviceinfo.(*UnchunkWriter).nextPipe"
	case strings.Contains(text, "panic:") || strings.Contains(text, "fatal error:"):
		i := strings.Index(text, "panic:")
		if i < 0 {
			i = strings.Index(text, "fatal error:")
		}
		return "panic other: " + firstLine(text[i:])
	case err != nil:
		return "err-harness child: " + err.Error() + " " + firstLine(text)
	}
	for _, l := range strings.Split(text, "\n") {
		if strings.HasPrefix(l, "impl :") {
			return strings.TrimSpace(strings.TrimPrefix(strings.SplitN(l, "(alloc", 2)[0], "impl :"))
		}
	}
	return "err-harness child printed no result"
}

func firstLine(s string) string {
	if i := strings.IndexByte(s, '\n'); i >= 0 {
		s = s[:i]
	}
	if len(s) > 200 {
		s = s[:200]
	}
	return s
}

// ---- kinds ----

func registerHandoverKinds(c *core.Ctx) {
	registerHandoverTpmKind(c) // handover_tpm.go
	c.Register(&core.Kind{Name: "handover.adopt", Eval: func(p core.Params) (string, string) {
		s := hoGet(p)
		if s.adoptLine == "" {
			return "handover.adopt b: n:0 n:0 b:", "err-no-observation"
		}
		return s.adoptLine, s.adoptImpl
	}})
	c.Register(&core.Kind{Name: "handover.replace", Eval: func(p core.Params) (string, string) {
		s := hoGet(p)
		if s.replLine == "" {
			return "handover.replace b: b: b:80 b:", "err-no-observation"
		}
		return s.replLine, s.replImpl
	}})
	c.Register(&core.Kind{Name: "handover.cut", NoModel: true, Eval: func(p core.Params) (string, string) {
		w, done := hoWorldFor()
		defer done()
		msg, occ, depth := hoInt(p, "msg"), hoInt(p, "occ"), hoInt(p, "depth")
		cut := hoCut{msg: msg, occ: occ, kind: p["cut"], slow: true}
		if msg < 20 {
			r, herr := w.cutDI(hoCfgOf(p), cut)
			lastHoDICut = r
			if herr != "" {
				return "", "err-harness " + herr
			}
			return "", fmt.Sprintf("ok fired=%s failed=%s cred=%s stored=%d", hoBool(r.fired), hoBool(r.err != ""), map[bool]string{true: "nil", false: "returned"}[r.credNil], r.stored)
		}
		lastHoCut = w.cutTO2(hoCfgOf(p), depth, cut)
		return "", lastHoCut.text()
	}})
	c.Register(&core.Kind{Name: "handover.hmacfail", NoModel: true, Eval: func(p core.Params) (string, string) {
		w, done := hoWorldFor()
		defer done()
		lastHoHmac = w.hmacFail(hoCfgOf(p), p["phase"], hoInt(p, "n"))
		r := lastHoHmac
		if r.harness != "" {
			return "", "err-harness " + r.harness
		}
		return "", fmt.Sprintf("ok failed=%s sums=%d stored=%s", hoBool(r.failed), r.sums, firstWordOf(r.verify))
	}})
	c.Register(&core.Kind{Name: "handover.wrongnonce", NoModel: true, Eval: func(p core.Params) (string, string) {
		w, done := hoWorldFor()
		defer done()
		lastHoNonce = w.wrongNonce(hoCfgOf(p))
		r := lastHoNonce
		if r.harness != "" {
			return "", "err-harness " + r.harness
		}
		return "", fmt.Sprintf("ok resp=%d replaced=%d store=%s", r.respType, r.replaced, map[bool]string{true: "same", false: "changed"}[r.sameBytes])
	}})
	c.Register(&core.Kind{Name: "handover.doubledone", NoModel: true, Eval: func(p core.Params) (string, string) {
		w, done := hoWorldFor()
		defer done()
		lastHoDouble = w.doubleDone(hoCfgOf(p), p["interleaved"] == "1")
		r := lastHoDouble
		if r.harness != "" {
			return "", "err-harness " + r.harness
		}
		return "", fmt.Sprintf("ok first=%d second=%d replaced=%d rows=%d->%d oldgone=%v", r.first, r.second, r.replaced, r.rows0, r.rows1, r.oldGone)
	}})
	c.Register(&core.Kind{Name: "handover.devmodrace", NoModel: true, Eval: func(p core.Params) (string, string) {
		hoMu.Lock()
		r, ok := hoRaceDone[fmt.Sprint(p)]
		hoMu.Unlock()
		if ok { // computed by the runner outside the per-case watchdog (a child process start can be slow on a loaded host)
			return "", r
		}
		return "", hoDevmodRace(p)
	}})
}

// ---- configuration sets ----

func hoQuickCfgs() (l []hoCfg) {
	base := []hoCfg{
		{Spec: env.P256, Enc: protocol.X509KeyEnc, Kex: kex.ECDH256Suite, Cipher: kex.A128GcmCipher},
		{Spec: env.P384, Enc: protocol.CoseKeyEnc, Kex: kex.ECDH384Suite, Cipher: kex.A256GcmCipher},
		{Spec: env.RSA2048, Enc: protocol.X5ChainKeyEnc, Kex: kex.DHKEXid14Suite, Cipher: kex.CoseAes128CtrCipher},
		{Spec: env.RSA2048, Enc: protocol.X509KeyEnc, Kex: kex.ASYMKEX2048Suite, Cipher: kex.CoseAes128CbcCipher},
	}
	for _, b := range base {
		for _, reuse := range []bool{false, true} {
			b.Dev, b.Reuse = b.Spec, reuse
			l = append(l, b)
		}
	}
	return l
}

// hoMixedCfgs: device and manufacturer keys of different strength (hashAlgFor takes the weaker of the two).  DI only: in
// TO2 the owner service picks its key by the DEVICE's signature type (to2.go proveOVHdr, keyTypeFor(hello.SigInfoA.Type)),
// so a voucher whose owner key type differs from the device key type is not a configuration the owner service supports.
func hoMixedCfgs() []hoCfg {
	return []hoCfg{
		{Spec: env.RSA2048, Dev: env.P384, Enc: protocol.X509KeyEnc, Kex: kex.DHKEXid14Suite, Cipher: kex.A128GcmCipher},
		{Spec: env.RSAPKCS, Dev: env.P256, Enc: protocol.X509KeyEnc, Kex: kex.DHKEXid15Suite, Cipher: kex.A256GcmCipher},
		{Spec: env.P384, Dev: env.RSA2048, Enc: protocol.X509KeyEnc, Kex: kex.ECDH384Suite, Cipher: kex.A256GcmCipher},
		{Spec: env.P256, Dev: env.RSAPKCS, Enc: protocol.X5ChainKeyEnc, Kex: kex.ECDH256Suite, Cipher: kex.CoseAes128CbcCipher, Reuse: true},
	}
}

func hoAllCfgs() (l []hoCfg) {
	for _, spec := range env.AllKeys {
		dev, o1, o2 := env.Key(spec, "dev0").Public(), env.Key(spec, "owner").Public(), env.Key(spec, "owner2").Public()
		for _, enc := range hoEncodings(spec) {
			for _, s := range hoSuites {
				if !s.Valid(dev, o1) || !s.Valid(dev, o2) {
					continue
				}
				for _, ci := range hoCiphers {
					if !kex.Available(s, ci) {
						continue
					}
					for _, reuse := range []bool{false, true} {
						l = append(l, hoCfg{Spec: spec, Dev: spec, Enc: enc, Kex: s, Cipher: ci, Reuse: reuse})
					}
				}
			}
		}
	}
	return l
}

var hoCutKinds = []string{"req-lost", "resp-lost", "peer-255"}

// ---- the runner ----

func RunC03(c *core.Ctx) {
	registerHandoverKinds(c)
	c.Trivial = func(o core.Obs) bool { return strings.HasPrefix(o.Impl, "err") }
	c.Rep.Rule = "deployments: a manufacturer+owner service and a second owner service (the buyer) on the real handler and SQLite store, per key type; the rendezvous info of the " +
		"manufacturer and of each owner differ. chains: DI, then k rounds (quick 2, thorough 3) of TO0, TO1, TO2 and a resale (fdo.ExtendVoucher to the other owner, which serves the next round); " +
		"the device continues from its credential as written to and read back from the blob encoding. configurations: quick = P-256/X509/ECDH256/A128GCM, P-384/COSE/ECDH384/A256GCM, " +
		"RSA2048/X5CHAIN/DHKEXid14/AES128-CTR, RSA2048/X509/ASYMKEX2048/AES128-CBC, each with credential reuse and with replacement, plus DI alone with device and manufacturer keys of different strength; thorough = every key " +
		"type x encoding x key exchange valid for the keys x 7 registered ciphers x reuse/replace. per DI and per replacing TO2: handover.adopt (model: HMAC and credential the device derives from " +
		"the header) against the HMAC stored and the credential held; per replacing TO2: handover.replace (model: header assembled from the stored header and the session's replacement GUID / " +
		"rendezvous info, journalled at the owner's session store, and the owner key served) against the header stored; monitors with the library's own verification functions. cuts: every request " +
		"position of DI and of the TO2 exchange sequence observed in the honest run (incl. each GetOVNextEntry and each service-info round), at handover depth 0 and after one resale, x {request lost " +
		"and network gone, response lost, peer answers error 255}; TO2.Done with a wrong nonce by the raw client; device HMAC failing at its N-th Sum (N=1..3) in DI and TO2."
	w := newHoWorld(c)
	hoCur = w
	defer func() { hoCur = nil; w.close() }()
	t0 := time.Now()
	if os.Getenv("VERIF_C03_PART") == "tpm" { // development aid (the check never sets it)
		runC03TPM(c)
		return
	}

	cfgs, rounds := hoQuickCfgs(), 2
	cfgs = append(cfgs, hoMixedCfgs()...)
	if !c.Quick() {
		rounds = 3
		cfgs = append(hoAllCfgs(), hoMixedCfgs()...)
	}
	// warm the key cache in parallel (RSA-3072 generation takes seconds)
	var wg sync.WaitGroup
	seenSpec := map[string]bool{}
	for _, cf := range cfgs {
		for _, s := range []env.KeySpec{cf.Spec, cf.Dev} {
			if seenSpec[s.Name] {
				continue
			}
			seenSpec[s.Name] = true
			for _, role := range []string{"mfg", "owner", "owner2", "dev0", "dev1", "dev2", "dev3"} {
				wg.Add(1)
				go func() { defer wg.Done(); env.Key(s, role) }()
			}
		}
	}
	wg.Wait()

	// ---- part 1: honest chains ----
	seqs := map[string][2][]int{} // per (spec, enc, reuse): TO2 request sequence at depth 0 and 1
	for _, cf := range cfgs {
		hoMu.Lock()
		hoRunNo++
		run := "r" + strconv.Itoa(hoRunNo)
		hoMu.Unlock()
		base := hoWith(cf.params(), "run", run)
		c.Count("config", fmt.Sprintf("%s/dev=%s/enc%d/reuse=%s", cf.Spec.Name, cf.Dev.Name, cf.Enc, hoBool(cf.Reuse)))
		c.Count("kex_cipher", string(cf.Kex)+"/"+hoCipherName(cf.Cipher))
		ctx, cancel := context.WithTimeout(context.Background(), 180*time.Second)
		var sq [2][]int
		k := rounds
		if cf.Dev.Name != cf.Spec.Name {
			k = 0
		}
		st := w.chain(ctx, cf, hoChainOpt{rounds: k, run: run, obs: func(r int, s hoStep) {
			hoPut(run, r, s)
			p := hoWith(base, "round", strconv.Itoa(r))
			meta := "di"
			if r > 0 {
				meta = "to2-round" + strconv.Itoa(r)
			}
			if r >= 1 && r <= 2 && s.seq != nil {
				sq[r-1] = s.seq
			}
			if s.adoptLine != "" {
				c.Do("handover.adopt", p, meta)
			}
			if s.replLine != "" {
				c.Do("handover.replace", p, meta)
			}
			if r > 0 {
				c.Count("to2_sequence", fmt.Sprint(s.seq))
			}
		}})
		cancel()
		if st.ok {
			c.Count("chain", fmt.Sprintf("ok rounds=%d", k))
		} else {
			c.Count("chain", "stopped:"+firstWordOf(st.errStep))
			c.Note("chain %s stopped: %s", cf, st.errStep)
		}
		key := fmt.Sprintf("%s|%s|%d|%s", cf.Spec.Name, cf.Dev.Name, cf.Enc, hoBool(cf.Reuse))
		if _, dup := seqs[key]; !dup && sq[0] != nil {
			seqs[key] = sq
		}
	}
	tChains := time.Since(t0)

	// ---- part 2: cuts ----
	cutCfgs := hoQuickCfgs()
	if !c.Quick() {
		cutCfgs = nil
		for _, spec := range env.AllKeys {
			for _, enc := range hoEncodings(spec) {
				for _, reuse := range []bool{false, true} {
					cutCfgs = append(cutCfgs, hoCfg{Spec: spec, Dev: spec, Enc: enc, Kex: env.DefaultKex(spec), Cipher: hoCiphers[(len(cutCfgs))%len(hoCiphers)], Reuse: reuse})
				}
			}
		}
		cutCfgs = append(cutCfgs, hoQuickCfgs()...)
	}
	for ci, cf := range cutCfgs {
		// DI
		if !cf.Reuse {
			for _, m := range []int{10, 12} {
				for _, k := range hoCutKinds {
					cut := hoCut{msg: m, occ: 1, kind: k}
					p := hoWith(cf.params(), "msg", strconv.Itoa(m), "occ", "1", "cut", k, "depth", "0")
					o := c.Do("handover.cut", p, "cut-di")
					r := lastHoDICut
					c.Count("cut", fmt.Sprintf("di:%d:%s", cut.index(), k))
					switch {
					case strings.HasPrefix(o.Impl, "err") || !r.fired:
						c.Fail("harness:cut-di", "cut did not fire or setup failed: "+o.Impl, "handover.cut", p, o)
					case r.err == "" || !r.credNil:
						c.Fail(fmt.Sprintf("credential-returned-after-cut:%d:%s", cut.index(), k), fmt.Sprintf("%s: fdo.DI with the exchange %d cut (%s) returned err=%q credential-nil=%v", cf, m, k, r.err, r.credNil), "handover.cut", p, o)
					}
					c.Count("cut_di_store", fmt.Sprintf("%d:%s:vouchers-stored=%d", cut.index(), k, r.stored))
				}
			}
		}
		// TO2
		key := fmt.Sprintf("%s|%s|%d|%s", cf.Spec.Name, cf.Dev.Name, cf.Enc, hoBool(cf.Reuse))
		sq, ok := seqs[key]
		if !ok {
			c.Note("cuts: no honest TO2 sequence known for %s (the honest chain did not complete)", cf)
			continue
		}
		depths := []int{0}
		if !c.Quick() || ci%4 == 0 {
			depths = []int{0, 1}
		}
		for _, depth := range depths {
			seq := sq[depth]
			if seq == nil {
				continue
			}
			occ := map[int]int{}
			for _, m := range seq {
				occ[m]++
				for _, k := range hoCutKinds {
					cut := hoCut{msg: m, occ: occ[m], kind: k}
					p := hoWith(cf.params(), "msg", strconv.Itoa(m), "occ", strconv.Itoa(occ[m]), "cut", k, "depth", strconv.Itoa(depth))
					o := c.Do("handover.cut", p, fmt.Sprintf("cut-to2-depth%d", depth))
					r := lastHoCut
					idx := cut.index()
					c.Count("cut", fmt.Sprintf("to2:%d:%s", idx, k))
					if r.harness != "" || !r.fired || o.Timeout {
						c.Fail("harness:cut-to2", fmt.Sprintf("%s depth %d cut %d#%d %s: %s", cf, depth, m, occ[m], k, o.Impl), "handover.cut", p, o)
						continue
					}
					if r.to2Err == "" || !r.credNil {
						c.Fail(fmt.Sprintf("credential-returned-after-cut:%d:%s", idx, k), fmt.Sprintf("%s depth %d: fdo.TO2 with exchange %d#%d cut (%s) returned err=%q credential-nil=%v", cf, depth, m, occ[m], k, r.to2Err, r.credNil), "handover.cut", p, o)
					}
					ownerAccepted := m == 70 && k == "resp-lost"
					if ownerAccepted {
						c.Count("done2_lost", fmt.Sprintf("reuse=%s owner-replaced=%d old-voucher-unchanged=%s device-credential=%s", hoBool(cf.Reuse), r.replaced, hoBool(r.sameBytes), map[bool]string{true: "none", false: "returned"}[r.credNil]))
						if cf.Reuse && (r.replaced != 0 || !r.sameBytes) {
							c.Fail("reuse-voucher-changed", fmt.Sprintf("%s: credential reuse, Done2 lost: the owner's store changed", cf), "handover.cut", p, o)
						}
						if cf.Reuse && r.recover != "ok" {
							c.Fail("onboarding-broken-after-cut", fmt.Sprintf("%s depth %d after Done2 lost (credential reuse): %s", cf, depth, r.recover), "handover.cut", p, o)
						}
						continue
					}
					if r.replaced != 0 || !r.sameBytes {
						c.Fail(fmt.Sprintf("store-touched-before-done:%d:%s", idx, k), fmt.Sprintf("%s depth %d: TO2 cut at %d#%d (%s): %d voucher replacements, voucher of the old GUID unchanged=%v", cf, depth, m, occ[m], k, r.replaced, r.sameBytes), "handover.cut", p, o)
						continue
					}
					if r.recover != "ok" {
						c.Fail("onboarding-broken-after-cut", fmt.Sprintf("%s depth %d after cut %d#%d (%s): honest TO2 with the old credential: %s", cf, depth, m, occ[m], k, r.recover), "handover.cut", p, o)
					}
				}
			}
		}
	}
	tCuts := time.Since(t0) - tChains

	// ---- part 3: wrong nonce in Done, failing HMAC ----
	for _, cf := range cutCfgs {
		if cf.Dev.Name != cf.Spec.Name {
			continue
		}
		p := cf.params()
		o := c.Do("handover.wrongnonce", p, "wrong-nonce")
		if r := lastHoNonce; r.harness != "" || o.Timeout {
			c.Fail("harness:wrong-nonce", fmt.Sprintf("%s: %s", cf, o.Impl), "handover.wrongnonce", p, o)
		} else {
			if r.respType != 255 {
				c.Fail("done-wrong-nonce-accepted", fmt.Sprintf("%s: TO2.Done with a wrong nonce answered with %d", cf, r.respType), "handover.wrongnonce", p, o)
			}
			if r.replaced != 0 || !r.sameBytes {
				c.Fail("store-touched-before-done:70:wrong-nonce", fmt.Sprintf("%s: %d voucher replacements, voucher unchanged=%v", cf, r.replaced, r.sameBytes), "handover.wrongnonce", p, o)
			}
		}
		if !cf.Reuse {
			for _, il := range []string{"0", "1"} {
				p := hoWith(cf.params(), "interleaved", il)
				o := c.Do("handover.doubledone", p, "two-sessions-reach-done")
				if r := lastHoDouble; r.harness != "" || o.Timeout {
					c.Fail("harness:double-done", fmt.Sprintf("%s: %s", cf, o.Impl), "handover.doubledone", p, o)
				} else {
					c.Count("double_done", fmt.Sprintf("first=%d second=%d replaced=%d rows %d->%d", r.first, r.second, r.replaced, r.rows0, r.rows1))
					if r.first != 71 {
						c.Fail("harness:double-done", fmt.Sprintf("%s: the first Done was answered with %d", cf, r.first), "handover.doubledone", p, o)
					} else if r.rows1 != r.rows0 || !r.oldGone || (r.second == 71) != (r.replaced == 2) {
						c.Fail("store-not-as-after-one-handover", fmt.Sprintf("%s: two sessions reached Done (answers %d, %d): %d replacements recorded, voucher rows %d -> %d, old voucher gone=%v",
							cf, r.first, r.second, r.replaced, r.rows0, r.rows1, r.oldGone), "handover.doubledone", p, o)
					}
				}
			}
		}
		for _, phase := range []string{"di", "to2"} {
			if phase == "di" && cf.Reuse {
				continue
			}
			for n := 1; n <= 3; n++ {
				p := hoWith(cf.params(), "phase", phase, "n", strconv.Itoa(n))
				o := c.Do("handover.hmacfail", p, "hmac-fail-"+phase)
				r := lastHoHmac
				c.Count("hmac_fail", fmt.Sprintf("%s:n=%d:failed=%s:sums=%d:stored=%s", phase, n, hoBool(r.failed), r.sums, firstWordOf(r.verify)))
				switch {
				case r.harness != "" || o.Timeout:
					c.Fail("harness:hmac-fail", fmt.Sprintf("%s %s n=%d: %s", cf, phase, n, o.Impl), "handover.hmacfail", p, o)
				case r.failed && r.verify != "n/a":
					c.Fail("credential-returned-after-cut:hmac", fmt.Sprintf("%s %s n=%d: %s", cf, phase, n, r.verify), "handover.hmacfail", p, o)
				case !r.failed && r.verify != "ok":
					c.Fail("stored-voucher-hmac-mismatch", fmt.Sprintf("%s: the device's HMAC reported an error at its Sum call %d during %s, the protocol succeeded and the stored voucher does not verify: %s", cf, n, phase, r.verify), "handover.hmacfail", p, o)
				}
			}
		}
	}
	// ---- part 3b: DI of a TPM-backed device while one TPM command fails (handover_tpm.go) ----
	runC03TPM(c)
	// ---- part 4: the process survives a TO2 that fails in its first service-info exchange ----
	for i, cf := range hoQuickCfgs() {
		if cf.Reuse || (c.Quick() && i > 0) {
			continue
		}
		p := hoWith(cf.params(), "attempts", "6")
		res := hoDevmodRace(p)
		hoMu.Lock()
		hoRaceDone[fmt.Sprint(p)] = res
		hoMu.Unlock()
		o := c.Do("handover.devmodrace", p, "devmod-race")
		switch {
		case strings.HasPrefix(o.Impl, "panic"):
			c.Fail("crash-after-cut:68:"+strings.Fields(o.Impl)[1], fmt.Sprintf("%s: fdo.TO2 whose first DeviceServiceInfo request fails at once, with a devmod device module that returns from Yield 150 ms after ending its "+
				"message: the process dies (%s) in the goroutine fdo.TO2 started for Devmod.Write; a failed TO2 must return an error and no credential", cf, o.Impl), "handover.devmodrace", p, o)
		case !strings.HasPrefix(o.Impl, "ok"):
			c.Fail("harness:devmod-race", fmt.Sprintf("%s: %s", cf, o.Impl), "handover.devmodrace", p, o)
		}
	}
	c.Note("wall: chains %.1fs (%d configurations x %d rounds), cuts %.1fs, nonce+hmac %.1fs", tChains.Seconds(), len(cfgs), rounds, tCuts.Seconds(), (time.Since(t0) - tChains - tCuts).Seconds())
}
