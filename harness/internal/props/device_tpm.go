package props

import (
	"bytes"
	"context"
	"crypto"
	"crypto/rand"
	"crypto/x509"
	"crypto/x509/pkix"
	"encoding/binary"
	"errors"
	"fmt"
	"io"
	"log/slog"
	"net/http"
	"os"
	"strconv"
	"strings"
	"time"

	fdo "github.com/fido-device-onboard/go-fdo"
	"github.com/fido-device-onboard/go-fdo/cbor"
	"github.com/fido-device-onboard/go-fdo/custom"
	"github.com/fido-device-onboard/go-fdo/kex"
	"github.com/fido-device-onboard/go-fdo/protocol"
	"github.com/fido-device-onboard/go-fdo/tpm"
	"github.com/google/go-tpm/tpm2"
	"github.com/google/go-tpm/tpm2/transport"
	"github.com/google/go-tpm/tpm2/transport/simulator"

	"verifharness/internal/core"
	"verifharness/internal/env"
)

// C01 with a device whose HMAC-SHA256/384 live in a TPM (tpm.NewHmac on the software TPM of go-tpm-tools). The voucher's
// header HMAC is made by the TPM during a real DI; the TO2 runs of the library's client then compute it again through a
// transport that makes chosen TPM commands fail, while the man in the middle presents the genuine header HMAC or an altered
// one (the ProveOVHdr is re-signed with the real owner key, so the HMAC is the only thing that can stop the device).
//
// There is no model prediction for these cases (the secret never leaves the TPM): the kind is monitor-only.
//
//	judge: a run that reached ProveDevice (64) was shown the genuine HMAC — whatever TPM faults occurred;
//	       the unaltered, fault-free run completes TO2; a completed TO2 leaves a replacement voucher whose HMAC the TPM verifies.

const devTpmKind = "dev.tpmhmac"

var tpmCmdNames = map[uint32]string{0x176: "StartAuthSession", 0x131: "CreatePrimary", 0x15b: "HmacStart", 0x17a: "GetCapability",
	0x15c: "SequenceUpdate", 0x13e: "SequenceComplete", 0x165: "FlushContext"}

func tpmCmdName(cc uint32) string {
	if n := tpmCmdNames[cc]; n != "" {
		return n
	}
	return fmt.Sprintf("cc%x", cc)
}

var errTpmIO = errors.New("verif: tpm transport: input/output error")

// tpmFaultRT is a TPM transport that makes the k-th command of a run (counted from 0) fail — that one only, or that one
// and every later one.
//
//	io:    the command does not reach the TPM, the transport reports an error
//	rc:    the command does not reach the TPM, the answer is a well-formed TPM_RC_RETRY
//	lost:  the TPM executes the command, the answer is lost (transport error)
//	short: the TPM executes the command, the answer arrives without its last byte
type tpmFaultRT struct {
	t     transport.TPM
	k     int
	stick bool
	how   string
	phase func() string
	n     int
	log   []uint32
	fired []string // "<command>/<phase>" of each failed command
}

func (w *tpmFaultRT) Send(in []byte) ([]byte, error) {
	var cc uint32
	if len(in) >= 10 {
		cc = binary.BigEndian.Uint32(in[6:10])
	}
	i := w.n
	w.n++
	w.log = append(w.log, cc)
	if w.k < 0 || i < w.k || (i > w.k && !w.stick) {
		return w.t.Send(in)
	}
	ph := ""
	if w.phase != nil {
		ph = w.phase()
	}
	w.fired = append(w.fired, tpmCmdName(cc)+"/"+ph)
	switch w.how {
	case "rc":
		return []byte{0x80, 0x01, 0, 0, 0, 10, 0, 0, 0x09, 0x22}, nil
	case "lost":
		_, _ = w.t.Send(in)
		return nil, errTpmIO
	case "short":
		out, err := w.t.Send(in)
		if err != nil || len(out) == 0 {
			return out, err
		}
		return out[:len(out)-1], nil
	}
	return nil, errTpmIO
}

// ---- the simulator ----

var tpmSim transport.TPMCloser

func tpmOpen() error {
	if tpmSim != nil {
		return nil
	}
	s, err := simulator.OpenSimulator()
	if err != nil {
		return err
	}
	tpmSim = s
	// a lost answer leaves the authorization session out of step, the commands that follow fail their authorization, and
	// three such failures put a TPM into dictionary-attack lockout: the sweep would test the lockout instead of the HMAC
	if err := tpmRawOK(s, tpmDAParameters); err != nil {
		return fmt.Errorf("DictionaryAttackParameters: %w", err)
	}
	return nil
}

// go-tpm has no wrappers for the two dictionary-attack commands: lockout hierarchy, empty password authorization
var (
	tpmDALockReset  = []byte{0x80, 0x02, 0, 0, 0, 27, 0, 0, 0x01, 0x39, 0x40, 0, 0, 0x0a, 0, 0, 0, 9, 0x40, 0, 0, 0x09, 0, 0, 0, 0, 0}
	tpmDAParameters = []byte{0x80, 0x02, 0, 0, 0, 39, 0, 0, 0x01, 0x3a, 0x40, 0, 0, 0x0a, 0, 0, 0, 9, 0x40, 0, 0, 0x09, 0, 0, 0, 0, 0,
		0, 0x0f, 0x42, 0x40 /* tries */, 0, 0, 0, 1 /* recovery, s */, 0, 0, 0, 0 /* lockout recovery */}
)

func tpmRawOK(t transport.TPM, cmd []byte) error {
	out, err := t.Send(cmd)
	if err != nil {
		return err
	}
	if len(out) < 10 {
		return fmt.Errorf("short answer %x", out)
	}
	if rc := binary.BigEndian.Uint32(out[6:10]); rc != 0 {
		return fmt.Errorf("response code %#x", rc)
	}
	return nil
}

func tpmClose() {
	if tpmSim != nil {
		_ = tpmSim.Close()
		tpmSim = nil
	}
}

// tpmFlushAll releases every transient object (keys, HMAC sequences) and loaded session a run left behind: a run whose
// Close was hit by a fault leaks them, and the TPM has three slots of each.
func tpmFlushAll(t transport.TPM) (n int) {
	_ = tpmRawOK(t, tpmDALockReset)
	for _, first := range []uint32{0x80000000, 0x02000000} {
		rsp, err := tpm2.GetCapability{Capability: tpm2.TPMCapHandles, Property: first, PropertyCount: 32}.Execute(t)
		if err != nil {
			continue
		}
		hs, err := rsp.CapabilityData.Data.Handles()
		if err != nil {
			continue
		}
		for _, h := range hs.Handle {
			if _, err := (tpm2.FlushContext{FlushHandle: h}).Execute(t); err == nil {
				n++
			}
		}
	}
	return n
}

func tpmHmacs(t transport.TPM) (h256, h384 tpm.Hmac, err error) {
	if h256, err = tpm.NewHmac(t, crypto.SHA256); err != nil {
		return nil, nil, err
	}
	if h384, err = tpm.NewHmac(t, crypto.SHA384); err != nil {
		_ = h256.Close()
		return nil, nil, err
	}
	return h256, h384, nil
}

// ---- fixtures: devices enrolled by the real DI service with the TPM's HMAC ----

type tpmCfg struct {
	spec  env.KeySpec
	enc   protocol.KeyEncoding
	chain int
}

func (cf tpmCfg) key() string { return fmt.Sprintf("%s/%d/%d", cf.spec.Name, cf.enc, cf.chain) }

var (
	tpmPool  = map[string]*devFixture{}
	tpmOther = map[string]*fdo.Voucher{} // a voucher of another device of the same TPM, never used for a TO2
	tpmNDev  int
)

func tpmEnroll(ctx context.Context, e *env.Env, cf tpmCfg) (*devFixture, string) {
	h256, h384, err := tpmHmacs(tpmSim)
	if err != nil {
		return nil, "err-tpm-newhmac " + err.Error()
	}
	defer func() { _, _ = h256.Close(), h384.Close() }()
	tpmNDev++
	d := &env.Device{Spec: e.Spec, Enc: cf.enc, Key: env.Key(e.Spec, fmt.Sprintf("dev%d", tpmNDev%4))}
	csrDER, err := x509.CreateCertificateRequest(rand.Reader, &x509.CertificateRequest{Subject: pkix.Name{CommonName: "device"}}, d.Key)
	if err != nil {
		return nil, "err-csr " + err.Error()
	}
	csr, _ := x509.ParseCertificateRequest(csrDER)
	cred, err := fdo.DI(ctx, e.Transport(), custom.DeviceMfgInfo{KeyType: e.Spec.Type, KeyEncoding: cf.enc, SerialNumber: fmt.Sprint("tpm", tpmNDev),
		DeviceInfo: "verif-tpm", CertInfo: cbor.X509CertificateRequest(*csr)},
		fdo.DIConfig{HmacSha256: h256, HmacSha384: h384, Key: d.Key, PSS: e.Spec.Type == protocol.RsaPssKeyType})
	if err != nil {
		return nil, "err-di " + err.Error()
	}
	d.Cred = cred
	ov, err := e.DB.Voucher(ctx, cred.GUID)
	if err != nil {
		return nil, "err-voucher " + err.Error()
	}
	// the stored voucher's HMAC is the TPM's
	if err := ov.VerifyHeader(h256, h384); err != nil {
		return nil, "err-di-hmac the voucher the DI service stored does not verify under the TPM's HMAC: " + err.Error()
	}
	if cf.chain == 3 {
		ov3, err := devChain3(ov, cf.spec, cf.enc)
		if err != nil {
			return nil, "err-extend " + err.Error()
		}
		if _, err := e.DB.RemoveVoucher(ctx, cred.GUID); err != nil {
			return nil, "err-store " + err.Error()
		}
		if err := e.DB.AddVoucher(ctx, ov3); err != nil {
			return nil, "err-store " + err.Error()
		}
		ov = ov3
	}
	return &devFixture{dev: d, ov: ov}, ""
}

// ---- alterations of the header HMAC in ProveOVHdr, re-signed by the real owner key ----

var tpmAlts = []string{"rebuilt", "hmac-bit", "hmac-empty", "hmac-prefix", "hmac-extended", "hmac-zero", "hmac-alg-other", "hmac-alg-other-empty", "hmac-alg-plain",
	"hmac-other-header", "header-other"}

// tpmForge gives a voucher that differs from the device's in the OVHeaderHMac (or, for header-other, in the header under
// the genuine HMAC) and is consistent in itself: entry 0 covers header and HMAC, so the entries are made anew with the
// manufacturer's and the intermediate owners' keys, as somebody holding those keys could. Nothing but the device's HMAC
// check stands between such a voucher and ProveDevice. genuine: header and HMAC still are the device's ("rebuilt": only the
// entries are new — the control showing that a rebuilt chain as such is accepted).
func tpmForge(cf tpmCfg, ov *fdo.Voucher, alt string, off, bit int, other *fdo.Voucher) (fv *fdo.Voucher, genuine bool, err error) {
	z := *ov
	z.Entries = nil
	h := protocol.Hmac{Algorithm: ov.Hmac.Algorithm, Value: bytes.Clone(ov.Hmac.Value)}
	otherAlg := protocol.HmacSha384Hash
	if h.Algorithm == protocol.HmacSha384Hash {
		otherAlg = protocol.HmacSha256Hash
	}
	switch alt {
	case "rebuilt":
	case "hmac-bit":
		h.Value = flipAt(h.Value, off, bit)
	case "hmac-empty":
		h.Value = []byte{}
	case "hmac-prefix": // the first off bytes
		h.Value = h.Value[:off%len(h.Value)]
	case "hmac-extended":
		h.Value = append(h.Value, byte(off))
	case "hmac-zero":
		h.Value = make([]byte, len(h.Value))
	case "hmac-alg-other":
		h.Algorithm = otherAlg
	case "hmac-alg-other-empty":
		h.Algorithm, h.Value = otherAlg, []byte{}
	case "hmac-alg-plain":
		h.Algorithm = protocol.Sha256Hash
		if len(h.Value) != 32 {
			h.Algorithm = protocol.Sha384Hash
		}
	case "hmac-other-header": // a genuine HMAC of this very TPM — of another header
		h = other.Hmac
	case "header-other": // the other way round: the genuine HMAC under another header
		hdr := z.Header.Val
		hdr.DeviceInfo += "x"
		z.Header = *cbor.NewBstr(hdr)
	default:
		return nil, false, fmt.Errorf("unknown alteration %s", alt)
	}
	z.Hmac = h
	genuine = alt != "header-other" && h.Algorithm == ov.Hmac.Algorithm && bytes.Equal(h.Value, ov.Hmac.Value)
	roles := []string{"mfg", "owner"}
	if cf.chain == 3 {
		roles = []string{"mfg", "o2", "o3", "owner"}
	}
	cur := &z
	for i := 0; i+1 < len(roles); i++ {
		next, err := devExtend(cur, cf.enc, env.Key(cf.spec, roles[i]), env.Key(cf.spec, roles[i+1]), roles[i+1])
		if err != nil {
			return nil, false, fmt.Errorf("extension %d: %w", i, err)
		}
		cur = next
	}
	if err := cur.VerifyEntries(); err != nil {
		return nil, false, fmt.Errorf("the forged voucher is not consistent: %w", err)
	}
	return cur, genuine, nil
}

// tpmForged61 puts the forged voucher's header, entry count and HMAC into the owner's ProveOVHdr and signs it with the
// real owner key.
func tpmForged61(body []byte, fv *fdo.Voucher, owner crypto.Signer, pss bool) []byte {
	s, err := parseRawS1(body)
	if err != nil || s.payload == nil {
		panic(fmt.Sprint("device_tpm.go: honest 61 does not parse: ", err))
	}
	var pl []cbor.RawBytes
	if err := cbor.Unmarshal(s.payload, &pl); err != nil || len(pl) != 8 {
		panic("device_tpm.go: honest ovhProof does not parse")
	}
	pl[0], pl[1], pl[2] = mustEnc(fv.Header), mustEnc(uint8(len(fv.Entries))), mustEnc(fv.Hmac)
	s.payload = mustEnc(pl)
	alg := devAlgFor(owner, pss)
	s.prot = devProt(alg)
	s.sig = devSign(owner, alg, s.prot, s.payload)
	return s.bytes()
}

// ---- one run ----

type tpmRun struct {
	sent64   bool
	done     bool // fdo.TO2 returned a credential
	genuine  bool
	err      string
	log      []uint32
	fired    []string
	closeErr string
	repl     string // replacement voucher: "" (no TO2 completed) | ok | absent | bad <why>
	hlen     int    // length of the genuine HMAC value
	leaked   int
}

var lastTpm *tpmRun

func tpmCfgOf(p core.Params) tpmCfg {
	enc, _ := strconv.Atoi(p["enc"])
	if enc < 1 || enc > 3 {
		enc = int(protocol.X509KeyEnc)
	}
	chain := 1
	if p["chain"] == "3" {
		chain = 3
	}
	return tpmCfg{spec: specByName(p["key"]), enc: protocol.KeyEncoding(enc), chain: chain}
}

func evalTpmHmac(p core.Params) (line, impl string) {
	cf := tpmCfgOf(p)
	alt := p["alt"]
	if alt == "" {
		alt = "none"
	}
	line = fmt.Sprintf("%s %s enc:%d chain:%d alt:%s off:%d bit:%d fault:%s/%s k:%s", devTpmKind, cf.spec.Name, cf.enc, cf.chain, alt, pint(p, "off"), pint(p, "bit"),
		p["how"], p["fmode"], p["k"])
	if p["lineonly"] != "" {
		return line, ""
	}
	lastTpm = nil
	if err := tpmOpen(); err != nil {
		return line, "err-tpm-simulator " + err.Error()
	}
	e, err := srvEnv(cf.spec)
	if err != nil {
		return line, "err-env " + err.Error()
	}
	ctx, cancel := context.WithTimeout(context.Background(), time.Minute)
	defer cancel()
	e.RT.Hook, e.RT.RespHook = nil, nil
	fx := tpmPool[cf.key()]
	if fx == nil {
		var es string
		if fx, es = tpmEnroll(ctx, e, cf); es != "" {
			return line, es
		}
		tpmPool[cf.key()] = fx
	}
	var other *fdo.Voucher
	if alt == "hmac-other-header" {
		if other = tpmOther[cf.key()]; other == nil {
			ofx, es := tpmEnroll(ctx, e, cf)
			if es != "" {
				return line, es
			}
			other = ofx.ov
			tpmOther[cf.key()] = other
		}
		if bytes.Equal(other.Hmac.Value, fx.ov.Hmac.Value) {
			return line, "err-fixture two vouchers with the same header HMAC"
		}
	}

	run := &tpmRun{genuine: true, hlen: len(fx.ov.Hmac.Value)}
	var fv *fdo.Voucher // what the owner presents instead of the voucher (nil: the voucher)
	if alt != "none" {
		if fv, run.genuine, err = tpmForge(cf, fx.ov, alt, pint(p, "off"), pint(p, "bit"), other); err != nil {
			return line, "err-forge " + err.Error()
		}
	}
	lastTpm = run
	w := &tpmFaultRT{t: tpmSim, k: -1, how: p["how"], stick: p["fmode"] == "stick"}
	if p["fmode"] == "once" || p["fmode"] == "stick" {
		w.k = pint(p, "k")
	}
	w.phase = func() string {
		if run.sent64 {
			return "after64"
		}
		return "verify"
	}
	defer func() {
		// whatever happened (a panic of the library included): what the TPM saw, and no handles left for the next run
		run.log, run.fired = w.log, w.fired
		run.leaked = tpmFlushAll(tpmSim)
	}()
	h256, h384, err := tpmHmacs(w)
	if err != nil {
		run.err = err.Error()
		return line, "abort no-hmac"
	}
	closed := false
	closeAll := func() {
		if closed {
			return
		}
		closed = true
		var es []string
		for _, h := range []tpm.Hmac{h256, h384} {
			if err := h.Close(); err != nil {
				es = append(es, err.Error())
			}
		}
		run.closeErr = strings.Join(es, "; ")
	}
	defer closeAll()

	has61 := false
	e.RT.Reset()
	e.RT.Hook = func(mt int, _ *http.Request, _ []byte, _ func([]byte, http.Header) *http.Response) *http.Response {
		if mt == 64 {
			run.sent64 = true
		}
		return nil
	}
	n62 := 0
	e.RT.RespHook = func(mt int, resp *http.Response, body []byte) []byte {
		switch {
		case mt == 60 && !has61 && respType(resp) == 61:
			has61 = true
			if fv != nil {
				return tpmForged61(body, fv, env.Key(cf.spec, "owner"), cf.spec.Type == protocol.RsaPssKeyType)
			}
		case mt == 62 && respType(resp) == 63:
			k := n62
			n62++
			if fv != nil && k < len(fv.Entries) {
				return body63(k, fv.Entries[k])
			}
		}
		return body
	}
	defer func() { e.RT.Hook, e.RT.RespHook = nil, nil }()
	cfg := fx.dev.TO2Config(env.DefaultKex(cf.spec), kex.A128GcmCipher)
	cfg.HmacSha256, cfg.HmacSha384 = h256, h384
	cred, terr := e.TO2(ctx, fx.dev, nil, cfg)
	e.RT.Hook, e.RT.RespHook = nil, nil
	if terr != nil {
		run.err = terr.Error()
	}
	run.done = terr == nil && cred != nil
	closeAll()
	if run.sent64 {
		delete(tpmPool, cf.key()) // the owner may have replaced the voucher
	}
	if !has61 {
		return line, "err-no-61 " + run.err
	}
	if run.done {
		// the credential the device now holds names a voucher whose header HMAC the device itself computed during this run
		run.repl = "absent"
		tpmFlushAll(tpmSim) // (a failed release must not starve the check that follows)
		if nov, err := e.DB.Voucher(ctx, cred.GUID); err == nil && nov != nil {
			c256, c384, err := tpmHmacs(tpmSim)
			if err != nil {
				return line, "err-tpm-newhmac " + err.Error()
			}
			run.repl = "ok"
			if cred.GUID == fx.dev.Cred.GUID {
				run.repl = "bad the credential was not replaced"
			} else if err := nov.VerifyHeader(c256, c384); err != nil {
				run.repl = "bad " + err.Error()
			}
			_, _ = c256.Close(), c384.Close()
		}
	}
	switch {
	case run.done:
		return line, "accept done"
	case run.sent64:
		return line, "accept failed-later"
	}
	return line, "abort"
}

func registerTpmKinds(c *core.Ctx) {
	c.Register(&core.Kind{Name: devTpmKind, NoModel: true, Eval: evalTpmHmac})
}

// runC01TPM: the TPM-backed device of RunC01.
func runC01TPM(c *core.Ctx) {
	t0 := time.Now()
	n0 := c.Rep.Evaluations
	old := slog.Default()
	slog.SetDefault(slog.New(slog.NewTextHandler(io.Discard, nil))) // tpm.hmac logs the buffer size it assumes, once per HMAC
	defer slog.SetDefault(old)
	if err := tpmOpen(); err != nil {
		c.Fail("harness:err-tpm-simulator", err.Error(), devTpmKind, core.Params{}, core.Obs{Impl: "err-tpm-simulator"})
		return
	}
	defer tpmClose()
	defer func() { tpmPool, tpmOther = map[string]*devFixture{}, map[string]*fdo.Voucher{} }()
	c.Rep.Rule += "; TPM-backed device (kind " + devTpmKind + ", monitor only): DI and TO2 of the library's client with tpm.NewHmac HMAC-SHA256/384 on the software TPM " +
		"(quick: P-256/X509 and P-384/COSE, chain 1; thorough also X5CHAIN, chain 3, RSA2048), the owner presenting the genuine voucher, a chain rebuilt with the same header " +
		"and HMAC (control), or a self-consistent voucher (entries re-made with the manufacturer/owner keys, ProveOVHdr signed by the real owner key) whose OVHeaderHMac is " +
		"altered (a bit of every byte, empty, every/sampled proper prefix, one byte more, zeros, the other HMAC algorithm id with the same/an empty value, the plain hash id, the TPM's " +
		"HMAC of another header) or whose header is altered under the genuine HMAC; x the k-th TPM command of the run (sessions, CreatePrimary, HmacStart, GetCapability, " +
		"SequenceUpdate.., SequenceComplete, FlushContext; quick: first/last/one of each stretch of equal commands, thorough: every k) failing once or from then on, as a " +
		"transport error, a TPM_RC_RETRY answer, a lost answer, a truncated answer. monitors: ProveDevice (64) is sent only if header and HMAC shown are the device's, whatever " +
		"failed; genuine + no fault completes TO2; a completed TO2 leaves a replacement voucher whose HMAC the TPM verifies; no panic, no hang"

	type run struct {
		o core.Obs
		r *tpmRun
	}
	try := func(cf tpmCfg, p core.Params) run {
		p["key"], p["enc"], p["chain"] = cf.spec.Name, strconv.Itoa(int(cf.enc)), strconv.Itoa(cf.chain)
		if p["alt"] == "" {
			p["alt"] = "none"
		}
		fault := "nofault"
		if p["fmode"] != "" {
			fault = p["how"] + "-" + p["fmode"]
		}
		class := "tpm:" + p["alt"] + "/" + fault
		o := c.Do(devTpmKind, p, class)
		r := lastTpm
		if r == nil {
			r = &tpmRun{genuine: p["alt"] == "none"}
		}
		// the fault, for signatures and histograms: how, once/persistent, and the first command it hit
		if len(r.fired) > 0 {
			fault += "@" + r.fired[0]
			for _, f := range r.fired {
				c.Count("tpm_failed_command", p["how"]+"-"+p["fmode"]+" "+f)
			}
		} else if p["fmode"] != "" {
			fault += "@not-reached"
		}
		c.Count("tpm_verdict", p["alt"]+" "+fault+" -> "+o.Impl)
		if r.closeErr != "" {
			c.Count("tpm_close_error_after_fault", firstWordOf(fault))
		}
		if r.repl != "" {
			c.Count("tpm_replacement_voucher", firstWordOf(r.repl))
			if r.repl == "absent" {
				c.Note("tpm: replacement voucher absent after %s %s: %s", p["alt"], fault, r.err)
			}
		}
		what := "tpm:" + fault + ":" + p["alt"]
		switch {
		case strings.HasPrefix(o.Impl, "err-"):
			c.Fail("harness:"+firstWordOf(o.Impl), o.Impl, devTpmKind, p, o)
		case strings.HasPrefix(o.Impl, "panic"):
			pw := "tpm:nofault"
			if len(r.fired) > 0 {
				pw = "tpm:" + r.fired[0] + "-failed"
			}
			c.Fail("panic@fdo.TO2:"+pw, core.PanicText+" ("+what+")", devTpmKind, p, o)
		case o.Impl == "hang":
			c.Fail("hang@fdo.TO2:"+what, "", devTpmKind, p, o)
		case (r.sent64 || r.done) && !r.genuine:
			c.Fail("altered-hmac-accepted:"+what, "the device sent ProveDevice although the header HMAC it was shown is not the one its TPM made for this header (ProveOVHdr correctly "+
				"signed by the owner); TPM commands failed: "+strings.Join(r.fired, ","), devTpmKind, p, o)
		case (p["alt"] == "none" || p["alt"] == "rebuilt") && p["fmode"] == "" && !r.done:
			c.Fail("honest-owner-refused:tpm:"+p["alt"]+":"+cf.spec.Name, "TO2 of the TPM-backed device shown its genuine header and HMAC (rebuilt: with entries signed anew), no TPM fault: sent64="+
				b2s(r.sent64)+" "+r.err, devTpmKind, p, o)
		case r.done && strings.HasPrefix(r.repl, "bad"):
			c.Fail("replacement-hmac-unverifiable:"+what, "TO2 completed, but the header HMAC the device gave for its replacement voucher does not verify under its TPM: "+r.repl+
				"; TPM commands failed: "+strings.Join(r.fired, ","), devTpmKind, p, o)
		case r.done && len(r.fired) > 0 && strings.HasSuffix(r.fired[0], "/verify") && cmdOfHmac(r.fired[0]):
			// not a violation of C01 in itself (the HMAC shown was genuine), but it means a failed TPM command went unnoticed
			c.Count("tpm_completed_despite_fault_in_verification", fault)
		}
		return run{o, r}
	}
	a := func(kv ...any) core.Params {
		p := core.Params{}
		for i := 0; i+1 < len(kv); i += 2 {
			p[fmt.Sprint(kv[i])] = fmt.Sprint(kv[i+1])
		}
		return p
	}

	cfgs := []tpmCfg{{env.P256, protocol.X509KeyEnc, 1}, {env.P384, protocol.CoseKeyEnc, 1}}
	if !c.Quick() {
		cfgs = append(cfgs, tpmCfg{env.P256, protocol.X5ChainKeyEnc, 3}, tpmCfg{env.P384, protocol.X5ChainKeyEnc, 1}, tpmCfg{env.RSA2048, protocol.X5ChainKeyEnc, 1})
	}
	hows := []string{"io", "rc", "lost", "short"}
	for _, cf := range cfgs {
		if _, err := srvEnv(cf.spec); err != nil {
			c.Note("tpm env %s: %v", cf.spec.Name, err)
			continue
		}
		// 1. no fault: the honest run completes; every alteration of the HMAC field, at every position
		h := try(cf, a())
		if !h.r.done {
			continue
		}
		allLog := h.r.log // TPM commands of a complete run (sessions, key, both HMAC computations, release)
		hl := h.r.hlen
		var abortLog []uint32 // TPM commands of a run that stops at the HMAC check
		for _, alt := range tpmAlts {
			switch alt {
			case "hmac-bit":
				for off := 0; off < hl; off++ {
					if c.Quick() {
						try(cf, a("alt", alt, "off", off, "bit", c.Rng.Intn(8)))
						continue
					}
					for bit := 0; bit < 8; bit++ {
						try(cf, a("alt", alt, "off", off, "bit", bit))
					}
				}
			case "hmac-prefix":
				for n := 1; n < hl; n++ {
					if c.Quick() && n != 1 && n != hl-1 && n%8 != c.Rng.Intn(8) {
						continue
					}
					try(cf, a("alt", alt, "off", n))
				}
			case "hmac-extended":
				try(cf, a("alt", alt, "off", 0))
				try(cf, a("alt", alt, "off", 0x80))
			default:
				r := try(cf, a("alt", alt))
				if alt == "hmac-empty" {
					abortLog = r.r.log
				}
			}
		}
		if len(abortLog) == 0 {
			abortLog = allLog
		}
		// the positions k: thorough, every command of the run; quick, of each stretch of equal commands (the SequenceUpdates of
		// one computation) the first, the last and one in between
		pick := func(log []uint32) (ks []int) {
			for i := 0; i < len(log); {
				j := i
				for j < len(log) && log[j] == log[i] {
					j++
				}
				for k := i; k < j; k++ {
					if !c.Quick() || k == i || k == j-1 {
						ks = append(ks, k)
					}
				}
				if c.Quick() && j-i > 2 {
					ks = append(ks, i+1+c.Rng.Intn(j-i-2))
				}
				i = j
			}
			return ks
		}
		// 2. the genuine voucher, the k-th TPM command of the run failing: once, and from then on
		for _, k := range pick(allLog) {
			for _, fm := range []string{"once", "stick"} {
				for hi, how := range hows {
					if c.Quick() && hi != (k+len(fm))%len(hows) && how != "io" {
						continue // quick: the plain transport error at every position, the other three in turn
					}
					try(cf, a("k", k, "fmode", fm, "how", how))
				}
			}
		}
		// 3. an altered HMAC and a failing TPM command: every command up to the one that ends the run
		faultAlts := []string{"hmac-empty", "hmac-bit", "hmac-alg-other", "hmac-alg-other-empty", "hmac-other-header", "hmac-zero", "header-other"}
		for ai, alt := range faultAlts {
			for _, k := range pick(abortLog) {
				for fi, fm := range []string{"once", "stick"} {
					for hi, how := range hows {
						// the empty byte string is what a failed computation yields: all of it, always; quick: the others with one
						// kind of fault per position, in turn
						if c.Quick() && alt != "hmac-empty" && (hi != (k+ai)%len(hows) || fi != (k+ai/len(hows))%2) {
							continue
						}
						try(cf, a("alt", alt, "off", c.Rng.Intn(hl), "bit", c.Rng.Intn(8), "k", k, "fmode", fm, "how", how))
					}
				}
			}
		}
		nAll, nAbort := len(allLog), len(abortLog)
		c.Note("tpm %s enc %d chain %d: %d TPM commands per complete run, %d up to a refused HMAC", cf.spec.Name, cf.enc, cf.chain, nAll, nAbort)
	}
	c.Note("tpm device: %d cases in %.1f s", c.Rep.Evaluations-n0, time.Since(t0).Seconds())
}

// tpmOnly: VERIF_C01_PART=tpm runs the TPM scenario alone (for working on it; the check never sets it).
func tpmOnly() bool { return os.Getenv("VERIF_C01_PART") == "tpm" }

// cmdOfHmac: the failed command is one of the HMAC computation proper (not the buffer-size query, which has a fallback).
func cmdOfHmac(fired string) bool {
	return !strings.HasPrefix(fired, "GetCapability/") && !strings.HasPrefix(fired, "FlushContext/")
}
