package props

import (
	"bytes"
	"crypto"
	"crypto/hmac"
	"crypto/sha256"
	"crypto/sha512"
	"fmt"
	"hash"
	"sort"
	"strings"

	"github.com/fido-device-onboard/go-fdo/cose"
)

func hashID(h crypto.Hash) int {
	switch h {
	case crypto.SHA256:
		return 256
	case crypto.SHA384:
		return 384
	case crypto.SHA512:
		return 512
	}
	return 0
}

func init() {
	tableHooks = append(tableHooks, func() []TableConst {
		// signature algorithm -> hash
		sigs := cose.VerifSignatureAlgorithms()
		var ids []int64
		for a := range sigs {
			ids = append(ids, int64(a))
		}
		sort.Slice(ids, func(i, j int) bool { return ids[i] < ids[j] })
		var rows []string
		for _, a := range ids {
			rows = append(rows, fmt.Sprintf("((%d)%%Z, %d)", a, hashID(sigs[cose.SignatureAlgorithm(a)])))
		}
		out := []TableConst{{"sig_alg_table", "list (Z * N)", "[" + strings.Join(rows, "; ") + "]"}}

		// MAC algorithm -> (hash id found by behaviour: 0 when it is not a plain HMAC, key size, tag length)
		macs := cose.VerifMacAlgorithms()
		ids = ids[:0]
		for a := range macs {
			ids = append(ids, int64(a))
		}
		sort.Slice(ids, func(i, j int) bool { return ids[i] < ids[j] })
		rows = nil
		for _, a := range ids {
			ksz := int(macs[cose.MacAlgorithm(a)])
			key := make([]byte, ksz)
			for i := range key {
				key[i] = byte(i + 1)
			}
			msg := []byte("verif-probe")
			hid, tag := 0, 0
			if w, err := cose.MacAlgorithm(a).NewMac(key); err == nil {
				w.Write(msg)
				got := w.Sum(nil)
				tag = len(got)
				for _, c := range []struct {
					id int
					nh func() hash.Hash
				}{{256, sha256.New}, {384, sha512.New384}, {512, sha512.New}} {
					m := hmac.New(c.nh, key)
					m.Write(msg)
					if bytes.Equal(m.Sum(nil), got) {
						hid = c.id
					}
				}
			}
			rows = append(rows, fmt.Sprintf("((%d)%%Z, (%d, %d, %d))", a, hid, ksz, tag))
		}
		out = append(out, TableConst{"mac_alg_table", "list (Z * (N * N * N))", "[" + strings.Join(rows, "; ") + "]"})
		return out
	})
}
