package props

import (
	"context"
	"crypto"
	"crypto/ecdsa"
	"crypto/hmac"
	"crypto/rsa"
	"crypto/sha256"
	"crypto/sha512"
	"crypto/x509"
	"encoding/hex"
	"fmt"
	"github.com/fido-device-onboard/go-fdo/cose"
	"io"
	"strconv"
	"strings"
	"time"

	fdo "github.com/fido-device-onboard/go-fdo"
	"github.com/fido-device-onboard/go-fdo/cbor"
	"github.com/fido-device-onboard/go-fdo/protocol"

	"verifharness/internal/core"
	"verifharness/internal/env"
)

// ---- a tiny independent CBOR reader for the oracles (no go-fdo involved) ----

type citem struct {
	mt   byte
	n    uint64
	b    []byte  // string content
	kids []citem // array items, or map k,v,k,v
}

func cread(b []byte) (citem, []byte, bool) {
	if len(b) == 0 {
		return citem{}, nil, false
	}
	mt, ai := b[0]>>5, b[0]&31
	b = b[1:]
	var n uint64
	switch {
	case ai < 24:
		n = uint64(ai)
	case ai <= 27:
		k := 1 << (ai - 24)
		if len(b) < k {
			return citem{}, nil, false
		}
		for i := 0; i < k; i++ {
			n = n<<8 | uint64(b[i])
		}
		b = b[k:]
	default:
		return citem{}, nil, false
	}
	it := citem{mt: mt, n: n}
	switch mt {
	case 2, 3:
		if uint64(len(b)) < n {
			return citem{}, nil, false
		}
		it.b, b = b[:n], b[n:]
	case 4, 5:
		cnt := n
		if mt == 5 {
			cnt *= 2
		}
		for i := uint64(0); i < cnt; i++ {
			k, rest, ok := cread(b)
			if !ok {
				return citem{}, nil, false
			}
			it.kids = append(it.kids, k)
			b = rest
		}
	case 6:
		k, rest, ok := cread(b)
		if !ok {
			return citem{}, nil, false
		}
		it.kids, b = []citem{k}, rest
	}
	return it, b, true
}

func keyID(pub crypto.PublicKey) (string, bool) {
	der, err := x509.MarshalPKIXPublicKey(pub)
	if err != nil {
		return "", false
	}
	switch k := pub.(type) {
	case *ecdsa.PublicKey:
		return fmt.Sprintf("ec %x %x", (k.Params().N.BitLen()+7)/8, der), true
	case *rsa.PublicKey:
		return fmt.Sprintf("rsa %x", der), true
	}
	return "", false
}

func init() {
	extraOracles["hash"] = func(a []string) string {
		if len(a) < 2 {
			return ""
		}
		_, nh := newHash(a[0])
		if nh == nil {
			return ""
		}
		h := nh()
		h.Write(arg(a[1]))
		return hex.EncodeToString(h.Sum(nil))
	}
	// pubkey <type> <enc> b:<raw CBOR body>: what protocol.PublicKey.Public() should yield, via the standard library
	extraOracles["pubkey"] = func(a []string) string {
		if len(a) < 3 {
			return "err"
		}
		typ, _ := strconv.ParseInt(a[0], 16, 64)
		enc, _ := strconv.ParseInt(a[1], 16, 64)
		it, rest, ok := cread(arg(a[2]))
		if (!ok || len(rest) != 0) && enc != 3 { // (enc 3: the library's COSE_Key parser is the oracle, also for what cread cannot read)
			return "err"
		}
		wantEC := typ == 10 || typ == 11
		wantRSA := typ == 1 || typ == 5 || typ == 6
		if !wantEC && !wantRSA && enc != 3 { // the COSE_Key path of the library does not look at the key type
			return "err"
		}
		var pub crypto.PublicKey
		switch enc {
		case 1: // X509: bstr(SubjectPublicKeyInfo)
			if it.mt != 2 && it.mt != 3 {
				return "err"
			}
			k, err := x509.ParsePKIXPublicKey(it.b)
			if err != nil {
				return "err"
			}
			pub = k
		case 2: // X5CHAIN: [+ bstr(cert)]
			if it.mt != 4 || len(it.kids) == 0 {
				return "err"
			}
			for _, c := range it.kids {
				if c.mt != 2 && c.mt != 3 {
					return "err"
				}
				if _, err := x509.ParseCertificate(c.b); err != nil {
					return "err"
				}
			}
			cert, _ := x509.ParseCertificate(it.kids[0].b)
			pub = cert.PublicKey
		case 3: // COSE_Key: parsing is NOT modelled — the answer is the library's own (cose.Key), recorded in the trusted base
			pk := protocol.PublicKey{Type: protocol.KeyType(typ), Encoding: protocol.CoseKeyEnc, Body: cbor.RawBytes(arg(a[2]))}
			k, err := func() (k crypto.PublicKey, err error) {
				defer func() {
					if r := recover(); r != nil {
						err = fmt.Errorf("panic")
					}
				}()
				return pk.Public()
			}()
			if err != nil || k == nil {
				return "err"
			}
			if s, ok := keyID(k); ok {
				return s
			}
			return "other"
		default:
			return "err"
		}
		switch pub.(type) {
		case *ecdsa.PublicKey:
			if !wantEC {
				return "err"
			}
		case *rsa.PublicKey:
			if !wantRSA {
				return "err"
			}
		default:
			return "err"
		}
		s, ok := keyID(pub)
		if !ok {
			return "err"
		}
		return s
	}
	// let the signature oracle accept PKIX-DER key ids as well as names from the fixed key set
	old := extraOracles["verify"]
	extraOracles["verify"] = func(a []string) string {
		if len(a) >= 1 {
			testKeys()
			if _, known := keyBy[string(arg(a[0]))]; !known {
				if pub, err := x509.ParsePKIXPublicKey(arg(a[0])); err == nil {
					name := "der:" + a[0]
					if _, ok := keyBy[name]; !ok {
						keyBy[name] = &testKey{Name: name, Signer: pubOnly{pub}}
					}
					a = append([]string{hex.EncodeToString([]byte(name))}, a[1:]...)
				}
			}
		}
		return old(a)
	}
}

// pubOnly lets a bare public key sit in the key table (only Public() is ever used by the oracle).
type pubOnly struct{ pub crypto.PublicKey }

func (p pubOnly) Public() crypto.PublicKey { return p.pub }
func (p pubOnly) Sign(_ io.Reader, _ []byte, _ crypto.SignerOpts) ([]byte, error) {
	return nil, fmt.Errorf("public key only")
}

func step(f func() error) (res string) {
	defer func() {
		if r := recover(); r != nil {
			res = "panic"
			core.PanicText = fmt.Sprint(r)
		}
	}()
	if err := f(); err != nil {
		return "err"
	}
	return "ok"
}

func registerVoucherKinds(c *core.Ctx) {
	registerExtendKind(c)
	c.Register(&core.Kind{Name: "voucher.verify", Eval: func(p core.Params) (string, string) {
		kalg, _ := strconv.ParseInt(p["kalg"], 10, 64)
		line := "voucher.verify b:" + p["voucher"] + " b:" + p["secret"] + " z:" + zhex(kalg) + " b:" + p["kval"]
		if p["lineonly"] != "" {
			return line, ""
		}
		vb, _ := hex.DecodeString(p["voucher"])
		secret, _ := hex.DecodeString(p["secret"])
		kval, _ := hex.DecodeString(p["kval"])
		var v fdo.Voucher
		if err := cbor.Unmarshal(vb, &v); err != nil {
			return line, "err-decode"
		}
		var sb strings.Builder
		sb.WriteString("ok hdr=" + step(func() error { return v.VerifyHeader(hmac.New(sha256.New, secret), hmac.New(sha512.New384, secret)) }))
		sb.WriteString(" mfg=" + step(func() error {
			return v.VerifyManufacturerKey(protocol.Hash{Algorithm: protocol.HashAlg(kalg), Value: kval})
		}))
		sb.WriteString(" cch=" + step(func() error { return v.VerifyCertChainHash() }))
		sb.WriteString(" entries=" + step(func() error { return v.VerifyEntries() }))
		owner := "err"
		func() {
			defer func() {
				if r := recover(); r != nil {
					owner = "panic"
					core.PanicText = fmt.Sprint(r)
				}
			}()
			if pub, err := v.OwnerPublicKey(); err == nil {
				if s, ok := keyID(pub); ok {
					owner = strings.ReplaceAll(s, " ", ":")
				} else {
					owner = "other"
				}
			}
		}()
		sb.WriteString(" owner=" + owner)
		return line, sb.String()
	}})
}

// semantic (bound) parts of a voucher as the implementation decodes them
func voucherParts(vb []byte) (parts []string, ok bool) {
	var v fdo.Voucher
	if err := cbor.Unmarshal(vb, &v); err != nil {
		return nil, false
	}
	enc := func(x any) string { b, _ := cbor.Marshal(x); return hex.EncodeToString(b) }
	parts = append(parts, "hdr:"+enc(v.Header.Val), "hmac:"+enc(v.Hmac), "chain:"+enc(v.CertChain))
	for i, e := range v.Entries {
		parts = append(parts, fmt.Sprintf("e%d:%s|%s|%x", i, enc(e.Protected), enc(e.Payload), e.Signature))
	}
	return parts, true
}

// RunC04: ownership vouchers verify iff untampered; only the current owner can extend.
func RunC04(c *core.Ctx) {
	registerVoucherKinds(c)
	c.Rep.Rule = "cases = vouchers created by the real DI service and extended 0..4 times with the library, for every key type and public-key encoding " +
		"(quick: a covering subset), then: one bit flipped in every byte (thorough: every bit) of the encoded voucher, entries swapped / duplicated / dropped / " +
		"spliced from a voucher of another device, header or HMAC from another voucher, wrong device secret, wrong manufacturer-key hash, generic CBOR " +
		"mutations, and by byte surgery (voucher_more.go): the header / protected-header / payload / OVEExtra byte strings altered from the inside (trailing bytes, " +
		"wrapper emptied, removed or doubled, non-canonical and indefinite heads, duplicated keys, extra labels and elements, reserved additional info), also with the " +
		"entry signed again by the right key; every hash-type number (HMAC, cert-chain hash, both entry hashes) set to each of {-16,-43,-44,5,6,7,0,1}; entry chains " +
		"rebuilt and re-signed with the type numbers of the other family; model (extracted voucher checks, hashes/HMAC/signatures/key parsing via stdlib oracle) vs Voucher.Verify*/OwnerPublicKey step by step; " +
		"monitor on the implementation: honest vouchers pass every step and name the last key, any change to a bound part fails some step, nothing panics; " +
		"ExtendVoucher succeeds only for the current owner key of the manufacturer key's type/size. non-trivial = voucher decoded; distinct = distinct case line"
	c.Trivial = func(o core.Obs) bool { return o.Impl == "err-decode" }
	type cfg struct {
		spec env.KeySpec
		enc  protocol.KeyEncoding
	}
	var cfgs []cfg
	for _, s := range env.AllKeys {
		for _, e := range []protocol.KeyEncoding{protocol.X509KeyEnc, protocol.X5ChainKeyEnc, protocol.CoseKeyEnc} {
			if e == protocol.CoseKeyEnc && s.Bits != 0 {
				continue
			}
			cfgs = append(cfgs, cfg{s, e})
		}
	}
	if c.Quick() {
		cfgs = []cfg{{env.P256, protocol.X509KeyEnc}, {env.P384, protocol.CoseKeyEnc}, {env.RSA2048, protocol.X5ChainKeyEnc}}
	}
	ctx, cancel := context.WithTimeout(context.Background(), 30*time.Minute)
	defer cancel()
	for _, cf := range cfgs {
		doExtendCases(c, cf.spec, cf.enc)
		e, err := env.New(WorkDir(), cf.spec)
		if err != nil {
			c.Note("env failed: %v", err)
			continue
		}
		func() {
			defer e.Close()
			dev, err := e.NewDevice(ctx, cf.enc)
			if err != nil {
				c.Fail("di-failed:"+cf.spec.Name, err.Error(), "voucher.verify", core.Params{}, core.Obs{})
				return
			}
			dev2, _ := e.NewDevice(ctx, cf.enc)
			base, err := e.DB.Voucher(ctx, dev.Cred.GUID)
			if err != nil {
				c.Note("voucher lookup: %v", err)
				return
			}
			other, _ := e.DB.Voucher(ctx, dev2.Cred.GUID)
			// chain of owners: owner -> o2 -> o3 -> o4
			signers := []crypto.Signer{env.Key(cf.spec, "owner"), env.Key(cf.spec, "o2"), env.Key(cf.spec, "o3"), env.Key(cf.spec, "o4")}
			vs := map[int]*fdo.Voucher{1: base}
			zero := *base
			zero.Entries = nil
			vs[0] = &zero
			cur := base
			maxLen := 4
			if c.Quick() && cf.spec.Bits != 0 {
				maxLen = 2
			} else if c.Quick() {
				maxLen = 3
			}
			for n := 2; n <= maxLen; n++ {
				var next *fdo.Voucher
				var err error
				switch pub := signers[n-1].Public().(type) {
				case *ecdsa.PublicKey:
					if cf.enc == protocol.X5ChainKeyEnc {
						next, err = fdo.ExtendVoucher(cur, signers[n-2], env.Chain(signers[n-1], fmt.Sprint("o", n)), nil)
					} else {
						next, err = fdo.ExtendVoucher(cur, signers[n-2], pub, nil)
					}
				case *rsa.PublicKey:
					if cf.enc == protocol.X5ChainKeyEnc {
						next, err = fdo.ExtendVoucher(cur, signers[n-2], env.Chain(signers[n-1], fmt.Sprint("o", n)), nil)
					} else {
						next, err = fdo.ExtendVoucher(cur, signers[n-2], pub, nil)
					}
				}
				// next-owner keys of another type or size must be refused even from the current owner
				for _, ws := range env.AllKeys {
					// a Go key carries curve or modulus size only: RSA key types of equal size are the same key material
					if ws.Bits == cf.spec.Bits && (ws.Bits != 0 || ws.Type == cf.spec.Type) {
						continue
					}
					if c.Quick() && ws.Bits > 2048 && !(cf.spec.Bits == 2048 && ws.Name == env.RSAPKCS.Name) {
						continue // (one larger RSA size is kept in the quick tier: a 2048-bit voucher must not move on to a 3072-bit owner)
					}
					var e3 error
					switch pub := env.Key(ws, "o2").Public().(type) {
					case *ecdsa.PublicKey:
						_, e3 = fdo.ExtendVoucher(cur, signers[n-2], pub, nil)
					case *rsa.PublicKey:
						_, e3 = fdo.ExtendVoucher(cur, signers[n-2], pub, nil)
					}
					c.Rep.Evaluations++
					c.Count("extend_wrong_next_key", fmt.Sprint(e3 != nil))
					if e3 == nil && (ws.Bits == 0 || cf.spec.Bits == 0) {
						c.Fail("extend-to-other-key-type:"+cf.spec.Name, "ExtendVoucher accepted a next-owner key of type "+ws.Name, "voucher.extend", core.Params{"n": fmt.Sprint(n), "next": ws.Name}, core.Obs{})
					} else if e3 == nil {
						c.Fail("extend-to-other-key-size:"+cf.spec.Name, "ExtendVoucher accepted a next-owner key "+ws.Name, "voucher.extend", core.Params{"n": fmt.Sprint(n), "next": ws.Name}, core.Obs{})
					}
				}
				if err != nil {
					c.Fail("extend-failed:"+cf.spec.Name, fmt.Sprintf("extension %d by the current owner failed: %v", n, err), "voucher.verify", core.Params{}, core.Obs{})
					break
				}
				// extension guard: every other signer must be refused
				for si, s := range append(signers, env.Key(cf.spec, "stranger"), env.Key(cf.spec, "mfg")) {
					if s == signers[n-2] {
						continue
					}
					var e2 error
					func() {
						defer func() {
							if r := recover(); r != nil {
								e2 = nil
								c.Fail("panic@fdo.ExtendVoucher", fmt.Sprint(r), "voucher.extend", core.Params{"n": fmt.Sprint(n), "signer": fmt.Sprint(si)}, core.Obs{})
								e2 = fmt.Errorf("panic")
							}
						}()
						switch pub := signers[n-1].Public().(type) {
						case *ecdsa.PublicKey:
							_, e2 = fdo.ExtendVoucher(cur, s, pub, nil)
						case *rsa.PublicKey:
							_, e2 = fdo.ExtendVoucher(cur, s, pub, nil)
						}
					}()
					c.Rep.Evaluations++
					c.Count("extend_wrong_signer", fmt.Sprint(e2 != nil))
					if e2 == nil {
						c.Fail("extend-by-non-owner:"+cf.spec.Name, fmt.Sprintf("ExtendVoucher accepted signer #%d for a voucher of length %d", si, n-1), "voucher.extend", core.Params{"n": fmt.Sprint(n), "signer": fmt.Sprint(si)}, core.Obs{})
					}
				}
				vs[n] = next
				cur = next
			}
			// a chain in which an owner comes back: mfg -> owner -> o2 -> owner -> o3. Cutting the two middle entries leaves
			// [e0, e3] with e3 correctly signed by the key e0 names: only its PreviousHash gives the cut away.
			var loop *fdo.Voucher
			func() {
				ext := func(v *fdo.Voucher, by crypto.Signer, to crypto.Signer) *fdo.Voucher {
					if v == nil {
						return nil
					}
					var nv *fdo.Voucher
					var err error
					switch pub := to.Public().(type) {
					case *ecdsa.PublicKey:
						nv, err = fdo.ExtendVoucher(v, by, pub, nil)
					case *rsa.PublicKey:
						nv, err = fdo.ExtendVoucher(v, by, pub, nil)
					}
					if err != nil {
						return nil
					}
					return nv
				}
				loop = ext(ext(ext(base, signers[0], signers[1]), signers[1], signers[0]), signers[0], signers[2])
			}()
			kh := dev.Cred.PublicKeyHash
			secret := dev.Secret
			for n, v := range vs {
				vb, err := cbor.Marshal(v)
				if err != nil {
					continue
				}
				hparts, _ := voucherParts(vb)
				wantOwner := ""
				if n == 0 {
					s, _ := keyID(env.Key(cf.spec, "mfg").Public())
					wantOwner = strings.ReplaceAll(s, " ", ":")
				} else {
					s, _ := keyID(signers[n-1].Public())
					wantOwner = strings.ReplaceAll(s, " ", ":")
				}
				try := func(b, sec []byte, kalg int64, kval []byte, meta string) {
					p := core.Params{"voucher": hex.EncodeToString(b), "secret": hex.EncodeToString(sec), "kalg": fmt.Sprint(kalg), "kval": hex.EncodeToString(kval)}
					o := c.Do("voucher.verify", p, meta)
					if strings.Contains(o.Impl, "panic") {
						c.Fail("panic@fdo.Voucher.Verify", core.PanicText+" ("+meta+")", "voucher.verify", p, o)
						return
					}
					mparts, okd := voucherParts(b)
					if !okd || !strings.HasPrefix(o.Impl, "ok ") {
						return
					}
					same := fmt.Sprint(mparts) == fmt.Sprint(hparts) && hex.EncodeToString(sec) == hex.EncodeToString(secret) &&
						hex.EncodeToString(kval) == hex.EncodeToString(kh.Value) && kalg == int64(kh.Algorithm)
					allok := strings.Contains(o.Impl, "hdr=ok mfg=ok cch=ok entries=ok")
					owner := o.Impl[strings.Index(o.Impl, "owner=")+6:]
					if same && (!allok || owner != wantOwner) {
						c.Fail("honest-rejected:"+cf.spec.Name, "an untampered voucher failed a step or names the wrong owner ("+meta+"): "+o.Impl[:60], "voucher.verify", p, o)
					}
					if !same && allok && owner == wantOwner {
						what := "?"
						for i := range hparts {
							if i >= len(mparts) || mparts[i] != hparts[i] {
								what = strings.SplitN(hparts[i], ":", 2)[0]
								break
							}
						}
						if len(mparts) != len(hparts) {
							what = "entry-count"
						}
						c.Fail("tamper-accepted:"+what+":"+cf.spec.Name, "every verification step passed although a bound part differs ("+meta+")", "voucher.verify", p, o)
					}
				}
				try(vb, secret, int64(kh.Algorithm), kh.Value, "honest")
				try(vb, append([]byte{secret[0] ^ 1}, secret[1:]...), int64(kh.Algorithm), kh.Value, "wrong-secret")
				try(vb, secret, int64(kh.Algorithm), append([]byte{kh.Value[0] ^ 1}, kh.Value[1:]...), "wrong-keyhash")
				try(vb, secret, -43, kh.Value, "keyhash-alg")
				try(vb, secret, 0, kh.Value, "keyhash-alg")
				stride := 1
				if c.Quick() && len(vb) > 600 {
					stride = 3
				}
				for i := 0; i < len(vb); i += stride {
					bits := []int{c.Rng.Intn(8)}
					if !c.Quick() {
						bits = []int{0, 1, 2, 3, 4, 5, 6, 7}
					}
					for _, bit := range bits {
						m := append([]byte(nil), vb...)
						m[i] ^= 1 << uint(bit)
						try(m, secret, int64(kh.Algorithm), kh.Value, "bitflip")
					}
				}
				// structural changes
				restruct := func(f func(v *fdo.Voucher), meta string) {
					var cp fdo.Voucher
					if err := cbor.Unmarshal(vb, &cp); err != nil {
						return
					}
					f(&cp)
					if b, err := cbor.Marshal(&cp); err == nil {
						try(b, secret, int64(kh.Algorithm), kh.Value, meta)
					}
				}
				if n >= 2 {
					for i := 0; i+1 < n; i++ {
						i := i
						restruct(func(v *fdo.Voucher) { v.Entries[i], v.Entries[i+1] = v.Entries[i+1], v.Entries[i] }, "entries-swapped")
						restruct(func(v *fdo.Voucher) { v.Entries[i+1] = v.Entries[i] }, "entry-duplicated")
					}
					restruct(func(v *fdo.Voucher) { v.Entries = v.Entries[1:] }, "first-entry-dropped")
					restruct(func(v *fdo.Voucher) { v.Entries = append(v.Entries[:1], v.Entries[2:]...) }, "middle-entry-dropped")
				}
				if n >= 1 {
					// the same (r, s) / the same integer in another length: every entry's signature bytes are a bound field
					for i := 0; i < n; i++ {
						i := i
						restruct(func(v *fdo.Voucher) {
							sig := v.Entries[i].Signature
							h := len(sig) / 2
							if cf.spec.Bits != 0 {
								v.Entries[i].Signature = append([]byte{0, 0}, sig...)
								return
							}
							v.Entries[i].Signature = append(append(append([]byte{0}, sig[:h]...), 0), sig[h:]...)
						}, "entry-signature-repadded")
					}
					restruct(func(v *fdo.Voucher) { v.Entries = v.Entries[:len(v.Entries)-1] }, "last-entry-dropped")
					if other != nil && len(other.Entries) > 0 {
						restruct(func(v *fdo.Voucher) { v.Entries[0] = other.Entries[0] }, "entry-spliced-from-other-voucher")
						restruct(func(v *fdo.Voucher) { v.Entries = append(v.Entries, other.Entries[0]) }, "entry-appended-from-other-voucher")
					}
				}
				restruct(func(v *fdo.Voucher) { v.CertChain = nil }, "certchain-removed")
				if other != nil {
					restruct(func(v *fdo.Voucher) { v.Header = other.Header }, "header-from-other-voucher")
					restruct(func(v *fdo.Voucher) { v.Hmac = other.Hmac }, "hmac-from-other-voucher")
					restruct(func(v *fdo.Voucher) { v.CertChain = other.CertChain }, "certchain-from-other-voucher")
				}
				restruct(func(v *fdo.Voucher) { v.Version++ }, "outer-version-changed(unbound)")
				nm := 40
				if !c.Quick() {
					nm = 400
				}
				for i := 0; i < nm; i++ {
					try(mutate(c.Rng, vb), secret, int64(kh.Algorithm), kh.Value, "cbor-mutation")
				}
				// wrappers altered from the inside, hash-type numbers, rebuilt chains (voucher_more.go)
				voucherMore(c, cf.spec, n, vb, secret, kh, wantOwner, append([]crypto.Signer{env.Key(cf.spec, "mfg")}, signers...))
			}
			if loop != nil && len(loop.Entries) == 4 {
				cut := *loop
				cut.Entries = []cose.Sign1Tag[fdo.VoucherEntryPayload, []byte]{loop.Entries[0], loop.Entries[3]}
				for _, lv := range []struct {
					v    *fdo.Voucher
					meta string
				}{{loop, "returning-owner-chain"}, {&cut, "returning-owner-chain-middle-cut"}} {
					b, err := cbor.Marshal(lv.v)
					if err != nil {
						continue
					}
					p := core.Params{"voucher": hex.EncodeToString(b), "secret": hex.EncodeToString(secret), "kalg": fmt.Sprint(int64(kh.Algorithm)), "kval": hex.EncodeToString(kh.Value)}
					o := c.Do("voucher.verify", p, lv.meta)
					allok := strings.Contains(o.Impl, "hdr=ok mfg=ok cch=ok entries=ok")
					if lv.v == loop && !allok {
						c.Fail("honest-rejected:"+cf.spec.Name, "a chain in which an owner returns failed a step: "+o.Impl[:min(60, len(o.Impl))], "voucher.verify", p, o)
					}
					if lv.v == &cut && allok {
						c.Fail("tamper-accepted:middle-cut:"+cf.spec.Name, "two entries cut out of the middle of the chain and every step still passes", "voucher.verify", p, o)
					}
				}
			}
		}()
	}
}
