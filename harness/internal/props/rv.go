package props

import (
	"encoding/hex"
	"fmt"
	mrand "math/rand"
	"net"
	"strconv"
	"strings"

	"github.com/fido-device-onboard/go-fdo/protocol"

	"verifharness/internal/core"
)

func init() {
	extraOracles["ipstring"] = func(args []string) string {
		var b []byte
		if len(args) > 0 {
			b, _ = hex.DecodeString(args[0])
		}
		return hex.EncodeToString([]byte(net.IP(b).String()))
	}
}

type rvInstr struct {
	Var uint8
	Val []byte
}

func encodeVars(vars []rvInstr) string {
	parts := make([]string, len(vars))
	for i, v := range vars {
		parts[i] = fmt.Sprintf("%d:%x", v.Var, v.Val)
	}
	return strings.Join(parts, ",")
}

func decodeVars(s string) []rvInstr {
	if s == "" {
		return nil
	}
	var out []rvInstr
	for _, p := range strings.Split(s, ",") {
		a, b, _ := strings.Cut(p, ":")
		n, _ := strconv.Atoi(a)
		val, _ := hex.DecodeString(b)
		out = append(out, rvInstr{uint8(n), val})
	}
	return out
}

func renderDirective(d protocol.RvDirective) string {
	var sb strings.Builder
	sb.WriteString("(dir (urls")
	for _, u := range d.URLs {
		fmt.Fprintf(&sb, " (u b:%x b:%x)", u.Scheme, u.Host)
	}
	sb.WriteString(")")
	b2s := func(b bool) string {
		if b {
			return "T"
		}
		return "F"
	}
	p8 := func(p *uint8) string {
		if p == nil {
			return "N"
		}
		return fmt.Sprintf("n:%x", *p)
	}
	z := func(i int64) string {
		if i < 0 {
			return fmt.Sprintf("-%x", uint64(-i)) // MinInt64: -i wraps to itself, uint64 gives 2^63
		}
		return fmt.Sprintf("%x", i)
	}
	ph := func(h *protocol.Hash) string {
		if h == nil {
			return "N"
		}
		return fmt.Sprintf("(z:%s b:%x)", z(int64(h.Algorithm)), h.Value)
	}
	fmt.Fprintf(&sb, " bypass %s eth %s wlan %s ssid b:%x pass b:%x mech b:%x args b:%x delay z:%s svcert %s clcert %s)",
		b2s(d.Bypass), p8(d.EthIface), p8(d.WlanIface), d.WlanSSID, d.WlanPass, d.ExtMechanism, d.ExtArguments, z(int64(d.Delay)), ph(d.ServerCert), ph(d.ServerCA))
	return sb.String()
}

func evalRv(role string, vars []rvInstr) (res string) {
	defer func() {
		if r := recover(); r != nil {
			res = "panic " + fmt.Sprint(r)
		}
	}()
	ins := make([]protocol.RvInstruction, len(vars))
	for i, v := range vars {
		ins[i] = protocol.RvInstruction{Variable: protocol.RvVar(v.Var), Value: v.Val}
	}
	var dirs []protocol.RvDirective
	if role == "dev" {
		dirs = protocol.ParseDeviceRvInfo([][]protocol.RvInstruction{ins})
	} else {
		dirs = protocol.ParseOwnerRvInfo([][]protocol.RvInstruction{ins})
	}
	return "ok " + renderDirective(dirs[0])
}

func registerRvKinds(c *core.Ctx) {
	c.Register(&core.Kind{Name: "rv.parse", Eval: func(p core.Params) (string, string) {
		vars := decodeVars(p["vars"])
		var sb strings.Builder
		sb.WriteString("rv.parse " + p["role"] + " (")
		for _, v := range vars {
			fmt.Fprintf(&sb, "(n:%x b:%x)", v.Var, v.Val)
		}
		sb.WriteString(")")
		if p["lineonly"] != "" {
			return sb.String(), ""
		}
		return sb.String(), evalRv(p["role"], vars)
	}})
}

type menuVal struct {
	val       []byte
	malformed bool
}

func hx(s string) []byte { b, _ := hex.DecodeString(strings.ReplaceAll(s, " ", "")); return b }

// value menu per variable: valid / boundary values and values that are malformed BY CONSTRUCTION (truncated,
// trailing bytes, wrong major type, out of range, wrong length) — the generator, not go-fdo, decides which is which.
func rvMenu(v uint8) []menuVal {
	ok := func(xs ...string) (out []menuVal) {
		for _, x := range xs {
			out = append(out, menuVal{hx(x), false})
		}
		return
	}
	bad := func(xs ...string) (out []menuVal) {
		for _, x := range xs {
			out = append(out, menuVal{hx(x), true})
		}
		return
	}
	switch v {
	case 0, 1, 14, 8, 16, 17, 255:
		return ok("", "00", "f5", "ff", "6161")
	case 11, 12:
		return append(ok("00", "01", "02", "03", "04", "05", "06", "07", "09", "0a", "0b", "13", "14", "15", "16", "17", "1818", "18ff"),
			bad("190100", "20", "4101", "", "0102", "18", "f6", "8101", "1b0000000000000001ff")...)
	case 3, 4:
		return append(ok("00", "1850", "191f90", "19ffff", "1901bb"), bad("1a00010000", "20", "", "1901", "191f9000", "6131", "f6")...)
	case 5, 9, 10:
		return append(ok("60", "63612e62", "6b6578616d706c652e636f6d", "633a3a31", "43612e62", "6331323e", "67312e322e332e34"),
			bad("01", "6361", "616100", "", "f6", "816161", "7a00010000")...)
	case 2:
		return append(ok("447f000001", "5000000000000000000000000000000001", "50fe800000000000000000000000000001", "64c0a80001", "440a000001"),
			bad("43010203", "40", "450102030405", "01", "", "447f0000", "447f00000100", "f6", "8401020304ff")...)
	case 13:
		return append(ok("00", "0a", "1903e8", "1b00000002540be400", "20", "3b7fffffffffffffff", "1b7fffffffffffffff"),
			bad("1bffffffffffffffff", "4100", "", "0a00", "f6", "3bffffffffffffffff")...)
	case 6, 7:
		return append(ok("822f41aa", "82382a5830"+strings.Repeat("ab", 48), "820040", "82056101"),
			bad("812f", "832f41aa00", "8241004100", "", "01", "822f41aa00", "f6", "822f")...)
	case 15:
		// also argument counts around the CBOR inline-length limit (23): mechanism + 22, 23, 24, 39, 255, 256 arguments
		many := func(n int) string {
			h := fmt.Sprintf("98%02x", n)
			if n < 24 {
				h = fmt.Sprintf("%02x", 0x80+n)
			} else if n > 255 {
				h = fmt.Sprintf("99%04x", n)
			}
			return h + "6178" + strings.Repeat("01", n-1)
		}
		return append(ok("8163616263", "836178010203"[:10]+"02", "826178f6", "81606f"[:4], "826178820102", many(23), many(24), many(25), many(40), many(256), many(257)),
			bad("", "80", "01", "8101", "81", "f6", "a0", "6161")...)
	}
	return ok("", "00")
}

func markerOther(role string) uint8 {
	if role == "dev" {
		return 1
	}
	return 0
}

// RunC20: rendezvous instructions are interpreted totally and per role as specified.
func RunC20(c *core.Ctx) {
	registerRvKinds(c)
	c.Rep.Rule = "cases = (role, instruction list) over all 16 variables + unknown ones with valid / boundary / malformed-by-construction / empty values: " +
		"all singletons, all ordered pairs over a reduced menu, random lists up to length 7 with multiplicity up to 3, for both roles; model (extracted interp) " +
		"vs protocol.Parse{Device,Owner}RvInfo; implementation-only monitors: no panic, other-role marker => zero directive, order independence for " +
		"duplicate-free lists, malformed values ignored; non-trivial = result differs from the zero directive; distinct = distinct (role, list)"
	zero := map[string]string{"dev": evalRv("dev", nil), "own": evalRv("own", nil)}
	c.Trivial = func(o core.Obs) bool { return o.Impl == zero["dev"] }
	allVars := []uint8{0, 1, 2, 3, 4, 5, 6, 7, 8, 9, 10, 11, 12, 13, 14, 15, 16, 255}
	run := func(role string, vars []rvInstr, meta string) core.Obs {
		p := core.Params{"role": role, "vars": encodeVars(vars)}
		o := c.Do("rv.parse", p, meta)
		if strings.HasPrefix(o.Impl, "panic") {
			c.Fail("panic@protocol.parseDirective", core.PanicText, "rv.parse", p, o)
		}
		if o.Impl == "hang" {
			c.Fail("hang@protocol.parseDirective", "no result within 20 s", "rv.parse", p, o)
		}
		return o
	}
	for _, role := range []string{"dev", "own"} {
		// singletons
		for _, v := range allVars {
			for _, m := range rvMenu(v) {
				one := []rvInstr{{v, m.val}}
				o := run(role, one, "singleton")
				if m.malformed && o.Impl != zero[role] && !strings.HasPrefix(o.Impl, "panic") {
					c.Fail(fmt.Sprintf("malformed-not-ignored:var%d", v), "a malformed value changed the directive", "rv.parse", core.Params{"role": role, "vars": encodeVars(one)}, o)
				}
			}
		}
		// ordered pairs over a reduced menu
		for _, v1 := range allVars {
			for _, v2 := range allVars {
				m1, m2 := rvMenu(v1), rvMenu(v2)
				n := 3
				if !c.Quick() {
					n = 8
				}
				for i := 0; i < n; i++ {
					a, b := m1[c.Rng.Intn(len(m1))], m2[c.Rng.Intn(len(m2))]
					run(role, []rvInstr{{v1, a.val}, {v2, b.val}}, "pair")
				}
			}
		}
	}
	// random lists + the three implementation-only monitors
	n := 6000
	if !c.Quick() {
		n = 120000
	}
	for i := 0; i < n; i++ {
		role := []string{"dev", "own"}[c.Rng.Intn(2)]
		l := 1 + c.Rng.Intn(7)
		var vars []rvInstr
		nodup := c.Rng.Intn(2) == 0
		used := map[uint8]bool{}
		for len(vars) < l {
			v := allVars[c.Rng.Intn(len(allVars))]
			if c.Rng.Intn(3) == 0 {
				v = []uint8{2, 3, 4, 5, 12}[c.Rng.Intn(5)] // make address-forming variables frequent
			}
			if v == markerOther(role) && c.Rng.Intn(4) != 0 {
				continue
			}
			if nodup && used[v] {
				l--
				continue
			}
			used[v] = true
			menu := rvMenu(v)
			m := menu[c.Rng.Intn(len(menu))]
			if m.malformed && c.Rng.Intn(3) != 0 {
				m = menu[0]
			}
			vars = append(vars, rvInstr{v, m.val})
		}
		o := run(role, vars, map[bool]string{true: "random-nodup", false: "random-dups"}[nodup])
		p := core.Params{"role": role, "vars": encodeVars(vars)}
		// role: a marker for the other role anywhere => zero directive
		hasOther := false
		for _, v := range vars {
			if v.Var == markerOther(role) {
				hasOther = true
			}
		}
		if hasOther && o.Impl != zero[role] {
			c.Fail("other-role-directive-not-empty", "directive marked for the other role contributed data", "rv.parse", p, o)
		}
		// order independence of distinct instructions
		if nodup && len(vars) > 1 {
			sh := append([]rvInstr(nil), vars...)
			mrand.New(mrand.NewSource(c.Rng.Int63())).Shuffle(len(sh), func(i, j int) { sh[i], sh[j] = sh[j], sh[i] })
			if evalRv(role, sh) != o.Impl {
				c.Fail("order-dependent", "permuting distinct instructions changed the result: "+encodeVars(sh), "rv.parse", p, o)
			}
		}
		// malformed values are ignored: inserting one anywhere changes nothing
		v := allVars[c.Rng.Intn(len(allVars))]
		var badVals []menuVal
		for _, m := range rvMenu(v) {
			if m.malformed {
				badVals = append(badVals, m)
			}
		}
		if len(badVals) > 0 {
			bv := badVals[c.Rng.Intn(len(badVals))]
			pos := c.Rng.Intn(len(vars) + 1)
			ins := append(append(append([]rvInstr(nil), vars[:pos]...), rvInstr{v, bv.val}), vars[pos:]...)
			if got := evalRv(role, ins); got != o.Impl {
				c.Fail(fmt.Sprintf("malformed-not-ignored:var%d", v), "inserting a malformed value changed the result: "+encodeVars(ins), "rv.parse", p, o)
			}
		}
	}
}
