package props

// svcinfo_more.go — C16, four more families (called from runC16; kind svc.sized):
//
//	(a) keylen: scripted owner and device modules whose "module:message" keys are exactly L bytes long, L at the CBOR
//	    head boundaries (22..25, 254..257; thorough: every L in windows around them), with bodies of 0 bytes, 1 byte and
//	    several messages' worth, in both directions, at device/owner sizes from {256, 300, 1300}; the key is long either
//	    because the message name is long or because the module name is.
//	(b) burst: an owner module that queues exactly N entries in ONE ProduceInfo, N at the array-head boundaries (22..26,
//	    254..258), the last entry sized by Producer.Available so that it fills the message; device sizes just large
//	    enough for N entries (+0, +1, +23..25, +255..257 bytes of room for the last value) and the usual ones.
//	(c) asym: the device announces a receive size (4000, 65535) LARGER than the owner's (256..1300) and has a long list of
//	    equal-length module names: the size the device itself accepts must play no part in how it sizes what it sends.
//	(d) nofit: a device key that can be placed in no message of the announced size (alone, or after an entry that fits):
//	    fdo.TO2 must fail, not end as a success in which the entry silently never arrived (unsendable-entry-lost-silently;
//	    repaired in go-fdo 8481160).  overfill: an owner module that writes a last value 1..4 bytes longer than
//	    Producer.Available allows: the owner service must refuse it or send a message within the device's size (open:
//	    message-exceeds-announced-size:own->dev:overfilled-by-module, +1..+3 bytes pass the check in produceOwnerServiceInfo).
//	(e) devburst: a device module that answers with 22..26 / 254..258 entries at once, the last one (short key or a key at
//	    the head boundaries) cut by the sending loop so that the TO2.DeviceServiceInfo is full.
//
// All families run complete fdo.TO2 sessions against the real owner service.  Every run (these and the svc.e2e runs of
// svcinfo.go) goes through a size meter: the plaintext of every TO2.DeviceServiceInfo (68) must be no longer than the
// size the owner announced in 67, the plaintext of every TO2.OwnerServiceInfo (69) no longer than the size the device
// announced in 66.

import (
	"bytes"
	"context"
	"fmt"
	"io"
	"math/rand"
	"os"
	"runtime"
	"strconv"
	"strings"
	"sync"
	"time"

	fdo "github.com/fido-device-onboard/go-fdo"
	"github.com/fido-device-onboard/go-fdo/cbor"
	"github.com/fido-device-onboard/go-fdo/kex"
	"github.com/fido-device-onboard/go-fdo/serviceinfo"

	"verifharness/internal/core"
)

// ---- the size meter ----

// sizeMeter is a fdo.Transport that measures the plaintext of the service-info messages on their way through.
type sizeMeter struct {
	inner            fdo.Transport
	lim68, lim69     int
	mu               sync.Mutex
	n68, n69         int
	max68, max69     int
	over68, over69   int // messages longer than the limit
	first68, first69 string
	maxEntries69     int
	maxEntries68     int
	full68, full69   int // messages that use the announced size to the last byte
}

func newSizeMeter(inner fdo.Transport, ownMTU, devMTU int) *sizeMeter {
	return &sizeMeter{inner: inner, lim68: ownMTU, lim69: devMTU}
}

func (t *sizeMeter) Send(ctx context.Context, msgType uint8, msg any, sess kex.Session) (uint8, io.ReadCloser, error) {
	if msgType == 68 {
		if b, err := cbor.Marshal(msg); err == nil {
			t.mu.Lock()
			t.n68++
			t.max68 = max(t.max68, len(b))
			var m struct {
				More bool
				Info []cbor.RawBytes
			}
			if cbor.Unmarshal(b, &m) == nil {
				t.maxEntries68 = max(t.maxEntries68, len(m.Info))
			}
			if len(b) == t.lim68 {
				t.full68++
			}
			if len(b) > t.lim68 {
				t.over68++
				if t.first68 == "" {
					t.first68 = fmt.Sprintf("DeviceServiceInfo number %d is %d bytes (%s)", t.n68, len(b), meterShape(b, 1))
				}
			}
			t.mu.Unlock()
		}
	}
	rt, rc, err := t.inner.Send(ctx, msgType, msg, sess)
	if err != nil || rt != 69 || rc == nil {
		return rt, rc, err
	}
	body, rerr := io.ReadAll(rc)
	_ = rc.Close()
	if rerr != nil {
		return rt, nil, rerr
	}
	t.mu.Lock()
	t.n69++
	t.max69 = max(t.max69, len(body))
	if len(body) == t.lim69 {
		t.full69++
	}
	var rep svcReply
	if cbor.Unmarshal(body, &rep) == nil {
		t.maxEntries69 = max(t.maxEntries69, len(rep.Info))
	}
	if len(body) > t.lim69 {
		t.over69++
		if t.first69 == "" {
			t.first69 = fmt.Sprintf("OwnerServiceInfo number %d is %d bytes (%s)", t.n69, len(body), meterShape(body, 2))
		}
	}
	t.mu.Unlock()
	return rt, io.NopCloser(bytes.NewReader(body)), nil
}

// meterShape: entries, key and value lengths of a service-info message (flags: number of booleans before the list).
func meterShape(b []byte, flags int) string {
	var kvs []*serviceinfo.KV
	if flags == 1 {
		var m struct {
			More bool
			Info []*serviceinfo.KV
		}
		if cbor.Unmarshal(b, &m) != nil {
			return "undecodable"
		}
		kvs = m.Info
	} else {
		var m svcReply
		if cbor.Unmarshal(b, &m) != nil {
			return "undecodable"
		}
		kvs = m.Info
	}
	var sb strings.Builder
	fmt.Fprintf(&sb, "%d entries:", len(kvs))
	for i, kv := range kvs {
		if i >= 4 && i < len(kvs)-2 {
			if i == 4 {
				sb.WriteString(" …")
			}
			continue
		}
		fmt.Fprintf(&sb, " key %d/value %d", len(kv.Key), len(kv.Val))
	}
	return sb.String()
}

// report turns what the meter saw into failures of the run. ownerOverfills: the scripted owner module writes
// Producer.Available raw bytes (svc.e2e avail=1), which is up to 3 bytes more than fit (see runC16More's note).
func (t *sizeMeter) report(o *e2eObs, ownerOverfills bool) {
	t.mu.Lock()
	defer t.mu.Unlock()
	if t.over68 > 0 {
		o.fail("message-exceeds-announced-size:dev->own", "the owner announced %d bytes in TO2.OwnerServiceInfoReady; %d of %d TO2.DeviceServiceInfo messages are longer, the longest %d bytes; the first: %s",
			t.lim68, t.over68, t.n68, t.max68, t.first68)
	}
	if t.over69 > 0 && !ownerOverfills {
		o.fail("message-exceeds-announced-size:own->dev", "the device announced %d bytes in TO2.DeviceServiceInfoReady; %d of %d TO2.OwnerServiceInfo messages are longer, the longest %d bytes; the first: %s",
			t.lim69, t.over69, t.n69, t.max69, t.first69)
	}
}

// ---- running a script (the body of evalSvcE2E, with explicit owner modules) ----

type sizedObs struct {
	e      *e2eObs
	meter  *sizeMeter
	fam    string
	bursts []*burstOwner
}

var lastSized *sizedObs

func runSizedScript(sc *e2eScript, named []svcNamed) (*e2eObs, *sizeMeter, error) {
	obs := &e2eObs{sc: sc}
	w, err := svcGetWorld()
	if err != nil {
		return obs, nil, err
	}
	run := &svcRun{maxReqs: 3000}
	obs.run = run
	for i, o := range sc.owners {
		o.run = run
		if named != nil {
			run.owners = append(run.owners, named[i])
		} else {
			run.owners = append(run.owners, svcNamed{o.name, o})
		}
	}
	cfg := w.dev.TO2Config(kex.ECDH256Suite, kex.A128GcmCipher)
	cfg.AllowCredentialReuse = true
	cfg.Devmod = svcDevmod
	cfg.MaxServiceInfoSizeReceive = uint16(sc.devMTU)
	cfg.DeviceModules = map[string]serviceinfo.DeviceModule{}
	for _, m := range sc.inert {
		cfg.DeviceModules[m.name] = m
		obs.devKeys = append(obs.devKeys, m.name)
	}
	for n, d := range sc.devs {
		cfg.DeviceModules[n] = d
		obs.devKeys = append(obs.devKeys, n)
	}
	w.e.OwnerMTU = uint16(sc.ownMTU)
	w.begin(run)
	ctx, cancel := context.WithTimeout(context.Background(), 14*time.Second)
	meter := newSizeMeter(w.transport(), sc.ownMTU, sc.devMTU)
	done := make(chan error, 1)
	go func() {
		_, err := fdo.TO2(ctx, meter, nil, cfg)
		done <- err
	}()
	select {
	case obs.err = <-done:
	case <-time.After(15 * time.Second):
		obs.hang = true
	}
	cancel()
	w.end()
	if !obs.hang {
		time.Sleep(200 * time.Microsecond)
	}
	checkE2E(obs)
	meter.report(obs, false)
	return obs, meter, nil
}

// ---- (a) keys of an exact length ----

func padTo(prefix string, n int) string {
	if n < len(prefix) {
		panic("harness: name shorter than its prefix")
	}
	return prefix + strings.Repeat("-", n-len(prefix))
}

func cborHead(n int) int {
	switch {
	case n < 24:
		return 1
	case n < 256:
		return 2
	case n < 65536:
		return 3
	}
	return 5
}

// keyFits: can an entry with a key of L bytes and at least one value byte be placed in a message of the size?
// own->dev: [more, done, [[key, h'..']]] = 3 + 1 + 1 + key + 1 + 1.
// dev->own: the sending loop works with size-5 and needs room for [key, h'..'] with one value byte.
func keyFitsOwnerToDevice(L, devMTU int) bool { return 3+1+1+cborHead(L)+L+1+1 <= devMTU }
func keyFitsDeviceToOwner(L, ownMTU int) bool { return 1+cborHead(L)+L+1+1 <= ownMTU-5 }

// keylenScript: one owner module and its device module per key length in Ls; each owner module sends (after active) one
// message per body class in bodies ('0' no bytes, '1' one byte, 'm' several messages' worth), the device module answers
// each with a message of the same class; every key of module i is exactly Ls[i] bytes long in the owner's direction and
// (Ld > 0: Ld, else Ls[i]) bytes in the device's; pre: the device module sends a one-byte message with a short key first.
func keylenScript(Ls []int, Ld, dmtu, omtu int, longmod, pre bool, bodies string, seed int64) *e2eScript {
	rng := rand.New(rand.NewSource(seed))
	rnd := func(n int) []byte { b := make([]byte, n); rng.Read(b); return b }
	sc := &e2eScript{devs: map[string]*scDev{}, devMTU: dmtu, ownMTU: omtu, class: "keylen"}
	for i, L := range Ls {
		mod := fmt.Sprintf("m%d", i)
		if longmod {
			mod = padTo(fmt.Sprintf("M%d", i), L-4)
		}
		ml := L - len(mod) - 1
		mld := ml
		if Ld > 0 {
			mld = Ld - len(mod) - 1
		}
		o := &scOwner{idx: i, name: mod, devMTU: dmtu, linger: 1}
		o.acts = []oAct{{name: "active", data: []byte{0xf5}}}
		d := &scDev{name: mod, rng: rand.New(rand.NewSource(seed*31 + int64(i))), onRecv: map[string][]dSend{}, onYield: map[int][]dSend{}}
		for _, b := range bodies {
			var no, nd int
			switch b {
			case '1':
				no, nd = 1, 1
			case 'm':
				// three full messages and a little more (what one entry with this key carries at most, times three)
				ko, kd := cborHead(L)+L, cborHead(L)+L
				if Ld > 0 {
					kd = cborHead(Ld) + Ld
				}
				no, nd = 3*max(1, dmtu-3-1-1-ko-3)+5, 3*max(1, omtu-5-1-kd-3)+7
			}
			q, r := padTo(fmt.Sprintf("q%d%c", i, b), ml), padTo(fmt.Sprintf("r%d%c", i, b), mld)
			o.acts = append(o.acts, oAct{name: q, data: rnd(no)})
			s := dSend{name: r, data: rnd(nd)}
			if rng.Intn(2) == 0 && nd > 1 {
				s.piece = 1 + rng.Intn(omtu)
			}
			d.onRecv[q] = []dSend{s}
			if pre {
				d.onRecv[q] = []dSend{{name: fmt.Sprintf("r%dp%c", i, b), data: rnd(1)}, s}
			}
		}
		o.acts = append(o.acts, oAct{end: true})
		sc.owners = append(sc.owners, o)
		sc.devs[mod] = d
	}
	return sc
}

// ---- (b) an owner module that queues exactly N entries at once ----

// burstOwner writes, in its first ProduceInfo, exactly n entries: active, small ones (one value byte), with target > 0 a
// padding entry sized so that Producer.Available for the last entry comes out as target (or target+1 where no value has
// that encoded length), and the last entry, whose value is as long as Available allows (its byte-string head included).
// over > 0: the last value is that many bytes longer than fit (a module that relies on WriteChunk to refuse).
type burstOwner struct {
	*scOwner
	n, target, over int
	fill            bool
	fired           bool
	// what the module saw when it sized the last entry
	avail, lastLen int
}

// svcFitLen: the longest value whose byte string (head and bytes) takes at most room bytes (-1: none).
func svcFitLen(room int) int {
	n := room - 1
	for n >= 0 && cborHead(n)+n > room {
		n--
	}
	return n
}

func (b *burstOwner) ProduceInfo(_ context.Context, p *serviceinfo.Producer) (bool, bool, error) {
	m := b.scOwner
	m.calls++
	if b.fired {
		m.done = true
		m.run.add(svcEv{k: 'p', a: m.idx, b: 1})
		return false, true, nil
	}
	b.fired = true
	write := func(name string, data []byte) error {
		if err := p.WriteChunk(name, data); err != nil {
			return err
		}
		m.sent = append(m.sent, frag{name, data})
		return nil
	}
	bad := func(format string, a ...any) (bool, bool, error) {
		m.viol = append(m.viol, "harness: "+fmt.Sprintf(format, a...))
		return false, false, fmt.Errorf("burst script does not fit")
	}
	if err := write("active", []byte{0xf5}); err != nil {
		return false, false, err
	}
	small := b.n - 2
	if b.target > 0 {
		small--
	}
	if small < 0 {
		return bad("%d entries are too few for this burst", b.n)
	}
	for i := 1; i <= small; i++ {
		if err := write(fmt.Sprintf("q%d_%03d", m.idx%10, i), []byte{byte(i)}); err != nil {
			return false, false, err
		}
	}
	last := fmt.Sprintf("q%d_last", m.idx%10)
	if b.target > 0 {
		pad := fmt.Sprintf("q%d_pad", m.idx%10)
		info := p.ServiceInfo()
		sum := int(serviceinfo.ArraySizeCBOR(info)) - cborHead(len(info))
		keyEnc := func(name string) int { k := len(m.name) + 1 + len(name); return cborHead(k) + k }
		room := m.devMTU - 3 - cborHead(b.n) - sum - (1 + keyEnc(last)) // for the padding entry and the last value
		x := svcFitLen(room - b.target - 1 - keyEnc(pad))
		if x < 1 {
			return bad("device size %d has no room for %d entries and a last value of %d bytes", m.devMTU, b.n, b.target)
		}
		if err := write(pad, bytes.Repeat([]byte{0x5a}, x)); err != nil {
			return false, false, err
		}
	}
	data := []byte{0xee}
	if b.fill {
		// the room Available reports is the room for the value as it is encoded: its byte-string head and its bytes
		b.avail = p.Available(last)
		n := svcFitLen(b.avail)
		if n < 1 {
			return bad("device size %d leaves no room (Available=%d) for entry %d of %d", m.devMTU, b.avail, b.n, b.n)
		}
		if b.over > 0 {
			n = max(n, svcFitLen(b.avail+b.over))
		}
		data = bytes.Repeat([]byte{0xa5}, n)
	}
	b.lastLen = len(data)
	if err := write(last, data); err != nil {
		// (the documented behaviour for a value that does not fit; the module then sends what it has)
		m.run.add(svcEv{k: 'p', a: m.idx, b: 0})
		return false, false, nil
	}
	m.run.add(svcEv{k: 'p', a: m.idx, b: 0})
	return false, false, nil
}

// burstNeed: the size of a TO2.OwnerServiceInfo with n entries as module m0's burstOwner writes them without padding,
// the last with one value byte.
func burstNeed(n int) int {
	return 3 + cborHead(n) + (1 + 1 + len("m0:active") + 1 + 1) + (n-2)*(1+1+len("m0:q0_000")+1+1) + (1 + 1 + len("m0:q0_last") + 1 + 1)
}

func burstScript(ns, targets []int, over, dmtu, omtu int, fill bool) (*e2eScript, []svcNamed, []*burstOwner) {
	sc := &e2eScript{devs: map[string]*scDev{}, devMTU: dmtu, ownMTU: omtu, class: "burst"}
	var named []svcNamed
	var bs []*burstOwner
	if len(targets) == 0 {
		targets = []int{0}
	}
	for _, n := range ns {
		for _, t := range targets {
			i := len(sc.owners)
			o := &scOwner{idx: i, name: fmt.Sprintf("m%d", i), devMTU: dmtu, linger: 1}
			b := &burstOwner{scOwner: o, n: n, target: t, over: over, fill: fill}
			sc.owners = append(sc.owners, o)
			sc.devs[o.name] = &scDev{name: o.name, rng: rand.New(rand.NewSource(int64(n))), onRecv: map[string][]dSend{}, onYield: map[int][]dSend{}}
			named = append(named, svcNamed{o.name, b})
			bs = append(bs, b)
		}
	}
	return sc, named, bs
}

// devBurstScript: device module i answers its owner module's one message with ks[i]-1 one-byte messages and one of
// several messages' worth whose key is Ls[i] bytes long (0: short): TO2.DeviceServiceInfo messages with ks[i] entries, the
// last one cut so that the message is full.
func devBurstScript(ks, Ls []int, dmtu, omtu int, seed int64) *e2eScript {
	rng := rand.New(rand.NewSource(seed))
	rnd := func(n int) []byte { b := make([]byte, n); rng.Read(b); return b }
	sc := &e2eScript{devs: map[string]*scDev{}, devMTU: dmtu, ownMTU: omtu, class: "devburst"}
	for i, k := range ks {
		mod := fmt.Sprintf("m%d", i)
		o := &scOwner{idx: i, name: mod, devMTU: dmtu, linger: 1}
		q := fmt.Sprintf("q%d", i)
		o.acts = []oAct{{name: "active", data: []byte{0xf5}}, {name: q, data: rnd(3)}, {end: true}}
		d := &scDev{name: mod, rng: rand.New(rand.NewSource(seed*31 + int64(i))), onRecv: map[string][]dSend{}, onYield: map[int][]dSend{}}
		for j := 0; j < k-1; j++ {
			d.onRecv[q] = append(d.onRecv[q], dSend{name: fmt.Sprintf("r%d_%03d", i, j), data: rnd(1)})
		}
		big := fmt.Sprintf("r%d_big", i)
		if i < len(Ls) && Ls[i] > len(mod)+1+len(big) {
			big = padTo(big, Ls[i]-len(mod)-1)
		}
		d.onRecv[q] = append(d.onRecv[q], dSend{name: big, data: rnd(min(2*omtu, omtu+3000) + 7)})
		sc.owners = append(sc.owners, o)
		sc.devs[mod] = d
	}
	return sc
}

// ---- (c) a long module list, the device's own receive size larger than the owner's ----

func asymScript(n, l, dmtu, omtu int) *e2eScript {
	sc := &e2eScript{devs: map[string]*scDev{}, devMTU: dmtu, ownMTU: omtu, class: "asym"}
	sc.inertKeys = fixedNames(n, l)
	for _, k := range sc.inertKeys {
		sc.inert = append(sc.inert, &scInert{name: k})
	}
	return sc
}

// ---- the kind ----

func evalSvcSized(p core.Params) (string, string) {
	line := "svc.sized " + paramLine(p)
	if p["lineonly"] != "" {
		return line, ""
	}
	atoi := func(k string) int { n, _ := strconv.Atoi(p[k]); return n }
	so := &sizedObs{fam: p["fam"]}
	lastSized = so
	var sc *e2eScript
	var named []svcNamed
	seed, _ := strconv.ParseInt(p["seed"], 10, 64)
	switch p["fam"] {
	case "keylen", "nofit":
		sc = keylenScript(atoiList(p["L"]), atoi("Ld"), atoi("dmtu"), atoi("omtu"), p["longmod"] == "1", p["pre"] == "1", p["bodies"], seed)
	case "burst", "overfill":
		sc, named, so.bursts = burstScript(atoiList(p["n"]), atoiList(p["t"]), atoi("over"), atoi("dmtu"), atoi("omtu"), p["fill"] == "1")
	case "devburst":
		sc = devBurstScript(atoiList(p["k"]), atoiList(p["L"]), atoi("dmtu"), atoi("omtu"), seed)
	case "asym":
		sc = asymScript(atoi("n"), atoi("l"), atoi("dmtu"), atoi("omtu"))
	default:
		return line, "err-harness unknown family"
	}
	if p["procs"] == "1" {
		defer runtime.GOMAXPROCS(runtime.GOMAXPROCS(1))
	}
	obs, meter, err := runSizedScript(sc, named)
	if err != nil {
		return line, "err-env " + err.Error()
	}
	so.e, so.meter = obs, meter
	var sb strings.Builder
	switch {
	case obs.hang:
		sb.WriteString("hang")
	case obs.err != nil && obs.expected != "":
		sb.WriteString("refused:" + obs.expected)
	case obs.err != nil:
		sb.WriteString("fail " + svcClip(obs.err.Error(), 160))
	default:
		sb.WriteString("ok")
	}
	fmt.Fprintf(&sb, " n68=%d max68=%d/%d entries68=%d max69=%d/%d entries69=%d", obs.n68, meter.max68, sc.ownMTU, meter.maxEntries68, meter.max69, sc.devMTU, meter.maxEntries69)
	for _, f := range obs.fails {
		sb.WriteString(" !" + f[0])
	}
	return line, sb.String()
}

func registerSvcMoreKinds(c *core.Ctx) {
	c.Register(&core.Kind{Name: "svc.sized", NoModel: true, Eval: evalSvcSized})
}

func intsCSV(xs []int) string { return joinInts(xs) }

// asymLists: (names, name length, owner size) triples whose devmod the UNCHANGED library sends in messages the owner can
// read when both sides announce the owner size (they do not hit the recorded defect devmod-modules-split); found by
// running the unchanged library (C16_ASYM_SEARCH=1 prints the table).
var asymLists = [][3]int{
	{50, 11, 256}, {50, 13, 256}, {50, 12, 300}, {50, 14, 300}, {50, 20, 512}, {50, 21, 512}, {50, 53, 1300}, {50, 58, 1300},
	{120, 11, 256}, {120, 13, 256}, {120, 9, 300}, {120, 14, 300}, {120, 12, 512}, {120, 14, 512}, {120, 22, 1300}, {120, 25, 1300},
	{200, 11, 256}, {200, 13, 256}, {200, 8, 300}, {200, 9, 300}, {200, 12, 512}, {200, 14, 512}, {200, 15, 1300}, {200, 19, 1300},
}

func runC16More(c *core.Ctx) {
	t0 := time.Now()
	n0 := c.Rep.Evaluations
	c.Rep.Rule += "; (6) svc.sized = fdo.TO2 with keys of exactly 22..25 / 254..257 bytes (long message name or long module name; thorough: every length 6..40, 250..262) carrying 0 bytes, 1 byte and " +
		"several messages' worth in both directions at sizes {256,300,1300}^2 (thorough: the boundary lengths also at 512, 4096, 65535); an owner module queueing exactly 22..26 / 254..258 entries in one ProduceInfo, the last " +
		"sized by Producer.Available (room for the last value 2..4, 23..28, 255..262 bytes; device sizes just large enough and the usual ones); a device module answering with 22..26 / 254..258 " +
		"entries at once; module lists of 50/120/200 equal-length names with the device's own receive size (4000, 65535) above the owner's (256..1300); keys that fit no message; an owner module " +
		"that overfills by 1..4 bytes. Every TO2 run is metered: plaintext of each 68 <= size announced in 67, of each 69 <= size announced in 66"
	seen := map[string]int{}
	do := func(p core.Params, meta string) (*sizedObs, core.Obs) {
		o := c.Do("svc.sized", p, meta)
		so := lastSized
		c.Count("sized_outcome", p["fam"]+":"+svcFirst(o.Impl))
		if os.Getenv("C16_TIMING") != "" {
			fmt.Fprintf(os.Stderr, "timing %dms %s %s\n", o.WallUs/1000, meta, svcClip(paramLine(p), 150))
		}
		if strings.HasPrefix(o.Impl, "panic") || strings.HasPrefix(o.Impl, "err-") || o.Impl == "hang" {
			svcFail(c, "harness-or-panic:"+svcFirst(o.Impl), o.Impl+" "+core.PanicText, "svc.sized", p, o)
			return nil, o
		}
		return so, o
	}
	report := func(so *sizedObs, p core.Params, o core.Obs) {
		for _, f := range so.e.fails {
			seen[f[0]]++
			if seen[f[0]] <= 4 {
				svcFail(c, f[0], f[1], "svc.sized", p, o)
			}
			c.Count("failure_signature_all", f[0])
		}
	}
	base := func(fam string, dm, om int) core.Params {
		return core.Params{"fam": fam, "dmtu": fmt.Sprint(dm), "omtu": fmt.Sprint(om), "seed": fmt.Sprint(c.Rng.Int63n(1 << 40))}
	}
	quick := c.Quick()
	if os.Getenv("C16_ASYM_SEARCH") != "" { // (prints candidates for asymLists to stderr; the run goes on as usual)
		asymSearch(c, do, base)
	}

	// (a) keys of an exact length
	lens := []int{22, 23, 24, 25, 254, 255, 256, 257}
	sizes := []int{256, 300, 1300}
	var allLens []int
	for l := 6; l <= 40; l++ {
		allLens = append(allLens, l)
	}
	for l := 250; l <= 262; l++ {
		allLens = append(allLens, l)
	}
	keylen := func(Ls []int, dm, om int, longmod bool, bodies string) {
		var fit []int
		for _, L := range Ls {
			if !keyFitsOwnerToDevice(L, dm) || !keyFitsDeviceToOwner(L, om) {
				c.Count("sized_keylen_skipped", fmt.Sprintf("key %d fits no message at %d/%d", L, dm, om))
				continue
			}
			fit = append(fit, L)
		}
		for len(fit) > 0 {
			// one session: at most 8 modules (the scripts tell a module's messages by one digit); with long module names, as
			// many as devmod lists in ONE devmod:modules entry with 8 bytes to spare (Devmod.Write takes the names in map
			// order: a list of several entries would be cut differently from run to run, now and then the way the recorded
			// defect devmod-modules-split needs)
			k, list := 0, 17+1+2+7
			for k < len(fit) && k < 8 {
				if longmod {
					if n := fit[k] - 4; list+cborHead(n)+n > om-8 {
						break
					}
					list += cborHead(fit[k]-4) + fit[k] - 4
				}
				k++
			}
			if k == 0 {
				c.Count("sized_keylen_skipped", fmt.Sprintf("module name for key %d does not fit devmod at %d", fit[0], om))
				fit = fit[1:]
				continue
			}
			p := base("keylen", dm, om)
			p["L"], p["bodies"] = intsCSV(fit[:k]), bodies
			fit = fit[k:]
			if longmod {
				p["longmod"] = "1"
			}
			if c.Rng.Intn(6) == 0 {
				p["procs"] = "1"
			}
			so, o := do(p, "sized-keylen-"+bodies)
			if so == nil {
				continue
			}
			report(so, p, o)
			c.Count("sized_keylen_room_left_68", roomBucket(om-so.meter.max68))
			c.Count("sized_keylen_room_left_69", roomBucket(dm-so.meter.max69))
		}
	}
	if !quick {
		sizes = []int{256, 300, 512, 1300, 4096, 65535}
	}
	for _, dm := range sizes {
		for _, om := range sizes {
			for _, longmod := range []bool{false, true} {
				if quick && longmod && dm != om {
					continue
				}
				keylen(lens, dm, om, longmod, "01m")
				if dm == om && !longmod {
					for _, b := range []string{"0", "1", "m"} {
						keylen(lens, dm, om, false, b)
					}
				}
				if quick || dm > 1300 || om > 1300 || dm == 512 || om == 512 {
					continue
				}
				for _, L := range allLens { // every length on its own
					for _, b := range []string{"01m", "0", "1", "m"} {
						keylen([]int{L}, dm, om, longmod, b)
					}
				}
			}
		}
	}
	nA := c.Rep.Evaluations - n0

	// (b) bursts
	n1 := c.Rep.Evaluations
	counts := []int{22, 23, 24, 25, 26, 254, 255, 256, 257, 258}
	targets := []int{2, 3, 4, 23, 24, 25, 26, 27, 28, 255, 256, 257, 258, 259, 260, 261, 262}
	burst := func(ns, ts []int, dm int, fill bool, meta string) {
		p := base("burst", dm, 1300)
		p["n"], p["t"] = intsCSV(ns), intsCSV(ts)
		if fill {
			p["fill"] = "1"
		}
		so, o := do(p, meta)
		if so == nil {
			return
		}
		report(so, p, o)
		if so.e.err != nil {
			return
		}
		want := 0
		for _, b := range so.bursts {
			want = max(want, b.n)
			if fill {
				c.Count("sized_burst_available_for_last_value", roomBucketWide(b.avail))
			}
		}
		if so.meter.maxEntries69 != want {
			svcFail(c, "harness-script", fmt.Sprintf("bursts of up to %d entries arrived as at most %d entries per message", want, so.meter.maxEntries69), "svc.sized", p, o)
		}
		if fill {
			c.Count("sized_burst_room_left_69", roomBucket(dm-so.meter.max69))
			if so.meter.full69 == 0 {
				c.Count("sized_burst_no_message_full", meta)
			}
		}
	}
	// many bursts in one session: every count with every room for the last value
	if quick {
		targets = []int{2, 3, 23, 24, 25, 26, 255, 256, 257, 258, 259, 260}
		burst([]int{24, 256}, []int{2, 24, 26, 257, 259}, 65535, true, "sized-burst-session")
	} else {
		for i := 0; i < len(counts); i += 5 {
			burst(counts[i:i+5], targets, 65535, true, "sized-burst-session")
		}
	}
	for i := 0; i < len(counts); i += 5 {
		burst(counts[i:i+5], targets, 4096, true, "sized-burst-session")
	}
	// one burst per session, at device sizes that are just enough
	single := counts
	ds := []int{0, 1, 23, 24}
	if quick {
		single = []int{23, 24, 255, 256}
		ds = []int{0, 24}
	} else {
		for n := 2; n <= 40; n++ {
			single = append(single, n)
		}
		for n := 250; n <= 262; n++ {
			single = append(single, n)
		}
		ds = []int{0, 1, 2, 3, 22, 23, 24, 25, 26, 254, 255, 256, 257, 258, 259}
	}
	for _, n := range single {
		need := burstNeed(n)
		for _, d := range ds {
			if dm := need + d; dm >= minServiceInfoMTU && dm <= 65535 {
				burst([]int{n}, nil, dm, true, "sized-burst-minimal-size")
			}
		}
		if !quick {
			for _, dm := range []int{256, 300, 512, 1300, 4096, 65535} {
				if dm >= need {
					burst([]int{n}, nil, dm, true, "sized-burst-usual-size")
					burst([]int{n}, nil, dm, false, "sized-burst-small-entries")
				}
			}
		}
	}
	// the device's side: that many entries in one TO2.DeviceServiceInfo, the last one (short key, or a key at the head
	// boundaries) cut to fill the message
	small, large := []int{22, 23, 24, 25, 26}, []int{254, 255, 256, 257, 258}
	devBurst := func(ks, Ls []int, om int) {
		p := base("devburst", 1300, om)
		p["k"], p["L"] = intsCSV(ks), intsCSV(Ls)
		so, o := do(p, "sized-device-burst")
		if so == nil {
			return
		}
		report(so, p, o)
		c.Count("sized_devburst_room_left_68", roomBucket(om-so.meter.max68))
		c.Count("sized_devburst_entries_68", bucket(so.meter.maxEntries68))
	}
	for _, om := range []int{512, 1300} {
		devBurst(small, nil, om)
		devBurst([]int{24, 24, 24, 24, 25, 25, 25, 25}, []int{22, 23, 24, 25, 22, 23, 24, 25}, om)
	}
	for _, om := range []int{4096, 65535} {
		devBurst(large, nil, om)
		devBurst([]int{256, 256, 256, 256, 256, 256, 256, 256}, lens, om)
		if !quick {
			devBurst([]int{24, 25, 255, 257, 24, 25, 255, 257}, lens, om)
		}
	}
	nB := c.Rep.Evaluations - n1

	// (c) the device's own receive size above the owner's
	n2 := c.Rep.Evaluations
	for i, t := range asymLists {
		if quick && i%2 == 1 {
			continue
		}
		n, l, om := t[0], t[1], t[2]
		for _, dm := range []int{4000, 65535} {
			p := base("asym", dm, om)
			p["n"], p["l"] = fmt.Sprint(n), fmt.Sprint(l)
			so, o := do(p, "sized-asym")
			if so == nil {
				continue
			}
			if len(so.e.fails) == 0 {
				c.Count("sized_asym", fmt.Sprintf("complete: owner size %d", om))
				continue
			}
			// the same list with the device announcing the owner's size too: a failure there is the recorded defect (or
			// whatever else it is), not a matter of the two sizes differing
			ps := base("asym", om, om)
			ps["n"], ps["l"] = p["n"], p["l"]
			ss, os2 := do(ps, "sized-asym-symmetric-control")
			if ss != nil && len(ss.e.fails) > 0 {
				report(ss, ps, os2)
				c.Count("sized_asym", "fails with symmetric sizes too")
				continue
			}
			var what []string
			for _, f := range so.e.fails {
				what = append(what, f[0]+": "+f[1])
			}
			svcFail(c, "devmod-modules-incomplete:asymmetric-sizes", fmt.Sprintf("%d module names of %d bytes (+devmod), owner size %d, device receive size %d: %s | with the device announcing %d too, the same list "+
				"is delivered completely", n, l, om, dm, svcClip(strings.Join(what, " ;; "), 1200), om), "svc.sized", p, o)
		}
	}
	nC := c.Rep.Evaluations - n2

	// (d) what cannot be sent
	n3 := c.Rep.Evaluations
	for _, Ld := range []int{254, 255, 256, 257} {
		for _, pre := range []string{"", "1"} {
			// the device module answers with a key that fits no TO2.DeviceServiceInfo of 256 bytes (pre: after an entry that
			// does fit): TO2 cannot deliver it, so it must fail (repaired in 8481160; before, it sent an empty message,
			// dropped the entry and whatever followed, and reported success)
			p := base("nofit", 1300, 256)
			p["L"], p["Ld"], p["bodies"] = "22", fmt.Sprint(Ld), "1"
			if pre != "" {
				p["pre"] = pre
			}
			so, o := do(p, "sized-key-fits-no-message")
			if so == nil {
				continue
			}
			lost := false
			for _, f := range so.e.fails {
				lost = lost || strings.HasPrefix(f[0], "stream-differs")
			}
			switch {
			case so.e.err != nil && strings.Contains(so.e.err.Error(), "does not fit"):
				c.Count("sized_nofit", "to2-failed: entry does not fit")
			case so.e.err != nil:
				c.Count("sized_nofit", "to2-failed: "+svcClip(so.e.err.Error(), 80))
			case lost:
				svcFail(c, "unsendable-entry-lost-silently", fmt.Sprintf("owner size 256: the device module answers with a %d-byte key (and one value byte), which fits no TO2.DeviceServiceInfo; fdo.TO2 reports success, "+
					"the entry never arrived and nobody was told: %s", Ld, so.e.fails[0][1]), "svc.sized", p, o)
			default:
				svcFail(c, "harness-script", "an entry that fits no message: TO2 succeeded and nothing is missing", "svc.sized", p, o)
			}
		}
	}
	for _, dm := range []int{256, 1300} {
		for over := 1; over <= 4; over++ {
			p := base("overfill", dm, 1300)
			p["n"], p["over"], p["fill"] = "3", fmt.Sprint(over), "1"
			so, o := do(p, "sized-owner-module-overfills")
			if so == nil {
				continue
			}
			switch {
			case so.e.err != nil:
				c.Count("sized_overfill", fmt.Sprintf("+%d: refused", over))
			case so.meter.over69 > 0:
				c.Count("sized_overfill", fmt.Sprintf("+%d: sent", over))
				svcFail(c, "message-exceeds-announced-size:own->dev:overfilled-by-module", fmt.Sprintf("device size %d: an owner module writes a value %d bytes longer than Producer.Available allows; "+
					"Producer.WriteChunk accepts it, the owner service's check lets it pass and sends a TO2.OwnerServiceInfo of %d bytes", dm, over, so.meter.max69), "svc.sized", p, o)
			default:
				report(so, p, o)
			}
		}
	}
	nD := c.Rep.Evaluations - n3
	c.Note("svc.sized: %d key-length sessions, %d burst sessions, %d asymmetric-size sessions, %d unsendable/overfill sessions in %.1fs", nA, nB, nC, nD, time.Since(t0).Seconds())
}

// asymSearch (development aid): for each (count, owner size) the shortest name lengths whose list the unchanged library
// delivers when both sides announce the owner size.
func asymSearch(c *core.Ctx, do func(core.Params, string) (*sizedObs, core.Obs), base func(string, int, int) core.Params) {
	for _, n := range []int{50, 120, 200} {
		for _, om := range []int{256, 300, 512, 1300} {
			found := 0
			for l := max(3, 2*om/n); l <= 60 && found < 2; l++ { // (lists of at least two chunks)
				if sim := simDevmod(unknownModules(fixedNames(n, l)), om); sim.Verdict != "" || sim.SimErr != "" {
					continue
				}
				p := base("asym", om, om)
				p["n"], p["l"] = fmt.Sprint(n), fmt.Sprint(l)
				if so, _ := do(p, "asym-search"); so != nil && len(so.e.fails) == 0 {
					fmt.Fprintf(os.Stderr, "asym {%d, %d, %d},\n", n, l, om)
					found++
				}
			}
		}
	}
}

func roomBucket(n int) string {
	switch {
	case n < 0:
		return "over"
	case n <= 3:
		return fmt.Sprint(n)
	case n <= 10:
		return "4-10"
	}
	return ">10"
}

func roomBucketWide(n int) string {
	if n <= 30 || (n >= 250 && n <= 265) {
		return fmt.Sprintf("%03d", n)
	}
	return "other"
}
