package props

import (
	"crypto/ecdsa"
	"crypto/elliptic"
	"crypto/rand"
	"crypto/x509"
	"crypto/x509/pkix"
	"math"
	"math/big"
	mrand "math/rand"
	"reflect"
	"sort"
	"time"

	fdo "github.com/fido-device-onboard/go-fdo"
	"github.com/fido-device-onboard/go-fdo/cbor"
	"github.com/fido-device-onboard/go-fdo/cose"
	"github.com/fido-device-onboard/go-fdo/protocol"
	"github.com/fido-device-onboard/go-fdo/serviceinfo"

	"verifharness/internal/desc"
)

// ---- synthetic target shapes covering the model's universe ----

type SOmit struct {
	A uint8
	B []byte `cbor:",omitempty"`
}
type SOmit2 struct {
	A int    `cbor:",omitempty"`
	B string `cbor:",omitempty"`
	C []int  `cbor:",omitempty"`
	D bool
}
type SOmit3 struct {
	A uint8
	B string `cbor:",omitempty"`
	C int16
	D []byte `cbor:",omitempty"`
}
type SWeights struct {
	A int    `cbor:"2"`
	B string `cbor:"1"`
	C []byte `cbor:"-"`
	D bool   `cbor:"1"`
	E int8   `cbor:"-3"`
}
type Inner struct {
	X int8
	Y string
}
type SEmbed struct {
	K uint32
	Inner
	Z []byte
}
// three levels of embedding: the promoted fields X, Y, Z have index paths of length 4
type L3 struct {
	X int8
	Y string
	Z bool
}
type L2 struct {
	C uint8
	L3
}
type L1 struct {
	B uint16
	L2
}
type SDeep struct {
	A int
	L1
	D []byte
}
type SPtr struct {
	P *uint16
	R *Inner
	S *string
}
type SNest struct {
	L []SOmit
	M map[int]string
	T cbor.Tag[int]
	B cbor.Bstr[SOmit]
	W cbor.ByteWrap[[]byte]
	F [4]byte
	U cbor.Bstr[[]uint16]
}
type SInts struct {
	A uint8
	B uint16
	C uint32
	D uint64
	E int8
	F int16
	G int32
	H int64
	I int
	J uint
}
type SAny struct {
	A any
	B []any
	C map[string]any
}
type SHdr struct {
	cose.Header `cbor:",flat2"`
	P           []byte
}
type SCert struct {
	C  *cbor.X509Certificate
	Cs []*cbor.X509Certificate
	T  cbor.Timestamp
}
type SEmpty struct{}
type SBw struct {
	A cbor.ByteWrap[Inner]
	B *cbor.Bstr[uint8]
	R cbor.RawBytes
}

type CatEntry struct {
	Name string
	T    reflect.Type
	Desc string
}

var catalogue []CatEntry
var catByName = map[string]*CatEntry{}
var catUnsupported = map[string]string{}

func addType(name string, t reflect.Type) {
	d, err := desc.Of(t)
	if err != nil {
		catUnsupported[name] = err.Error()
		return
	}
	catalogue = append(catalogue, CatEntry{Name: name, T: t, Desc: d})
}

func init() {
	t := func(v any) reflect.Type { return reflect.TypeOf(v) }
	syn := map[string]reflect.Type{
		"any": reflect.TypeOf((*any)(nil)).Elem(), "u8": t(uint8(0)), "u16": t(uint16(0)), "u32": t(uint32(0)), "u64": t(uint64(0)),
		"i8": t(int8(0)), "i16": t(int16(0)), "i32": t(int32(0)), "i64": t(int64(0)), "int": t(int(0)), "uint": t(uint(0)),
		"bool": t(false), "bytes": t([]byte(nil)), "text": t(""), "fixed16": t([16]byte{}), "fixed0": t([0]byte{}),
		"slice.u16": t([]uint16(nil)), "slice.slice.any": t([][]any(nil)), "ptr.u8": t((*uint8)(nil)),
		"map.int.text": t(map[int]string(nil)), "map.text.any": t(map[string]any(nil)), "map.any.any": t(map[any]any(nil)),
		"map.label.any": t(map[cose.Label]any(nil)),
		"tag.any":       t(cbor.Tag[any]{}), "tag.u8": t(cbor.Tag[uint8]{}), "bstr.any": t(cbor.Bstr[any]{}), "bstr.raw": t(cbor.Bstr[cbor.RawBytes]{}),
		"bstr.bstr.u8": t(cbor.Bstr[cbor.Bstr[uint8]]{}), "slice.bstr.int": t([]cbor.Bstr[int](nil)),
		"bwbytes": t(cbor.ByteWrap[[]byte]{}), "bw.text": t(cbor.ByteWrap[string]{}), "raw": t(cbor.RawBytes(nil)),
		"cert": t((*cbor.X509Certificate)(nil)), "csr": t(cbor.X509CertificateRequest{}), "timestamp": t(cbor.Timestamp{}), "label": t(cose.Label{}),
		"SOmit": t(SOmit{}), "SOmit2": t(SOmit2{}), "SOmit3": t(SOmit3{}), "SWeights": t(SWeights{}), "SEmbed": t(SEmbed{}), "SDeep": t(SDeep{}), "SPtr": t(SPtr{}),
		"SNest": t(SNest{}), "SInts": t(SInts{}), "SAny": t(SAny{}), "SHdr": t(SHdr{}), "SCert": t(SCert{}), "SEmpty": t(SEmpty{}), "SBw": t(SBw{}),
		"slice.SPtr": t([]SPtr(nil)),
		// wire types outside package fdo
		"protocol.ErrorMessage": t(protocol.ErrorMessage{}), "protocol.Hash": t(protocol.Hash{}), "protocol.Hmac": t(protocol.Hmac{}),
		"protocol.PublicKey":     t(protocol.PublicKey{}),
		"protocol.RvInstruction": t(protocol.RvInstruction{}), "protocol.RvInfo": t([][]protocol.RvInstruction(nil)),
		"protocol.RvTO2Addr": t(protocol.RvTO2Addr{}), "protocol.To1d": t(protocol.To1d{}), "protocol.GUID": t(protocol.GUID{}), "protocol.Nonce": t(protocol.Nonce{}),
		"serviceinfo.KV": t(serviceinfo.KV{}), "serviceinfo.KVs": t([]*serviceinfo.KV(nil)),
		"cose.Sign1.raw": t(cose.Sign1[cbor.RawBytes, []byte]{}), "cose.Sign1Tag.raw": t(cose.Sign1Tag[cbor.RawBytes, []byte]{}),
		"cose.Mac0.any": t(cose.Mac0[any, []byte]{}), "cose.Mac0Tag.raw": t(cose.Mac0Tag[cbor.RawBytes, []byte]{}),
		"cose.Encrypt0.bytes": t(cose.Encrypt0[[]byte, []byte]{}), "cose.Encrypt0Tag.bytes": t(cose.Encrypt0Tag[[]byte, []byte]{}),
	}
	for n, ty := range fdo.VerifWireTypes() {
		syn["fdo."+n] = ty
	}
	names := make([]string, 0, len(syn))
	for n := range syn {
		names = append(names, n)
	}
	sort.Strings(names)
	for _, n := range names {
		addType(n, syn[n])
	}
	for i := range catalogue {
		catByName[catalogue[i].Name] = &catalogue[i]
	}
}

// ---- a real certificate and CSR for the opaque-DER types ----

var testCert *x509.Certificate
var testCSR *x509.CertificateRequest

func init() {
	key, _ := ecdsa.GenerateKey(elliptic.P256(), rand.Reader)
	tmpl := &x509.Certificate{SerialNumber: big.NewInt(7), Subject: pkix.Name{CommonName: "verif"},
		NotBefore: time.Unix(1700000000, 0), NotAfter: time.Unix(1900000000, 0)}
	der, err := x509.CreateCertificate(rand.Reader, tmpl, tmpl, &key.PublicKey, key)
	if err != nil {
		panic(err)
	}
	testCert, _ = x509.ParseCertificate(der)
	csrDer, err := x509.CreateCertificateRequest(rand.Reader, &x509.CertificateRequest{Subject: pkix.Name{CommonName: "verif"}}, key)
	if err != nil {
		panic(err)
	}
	testCSR, _ = x509.ParseCertificateRequest(csrDer)
}

// ---- deterministic random values ----

var boundaryU = []uint64{0, 1, 23, 24, 255, 256, 65535, 65536, 1<<32 - 1, 1 << 32, 1<<63 - 1, 1 << 63, math.MaxUint64}

func randU(r *mrand.Rand, max uint64) uint64 {
	var v uint64
	if r.Intn(3) == 0 {
		v = boundaryU[r.Intn(len(boundaryU))]
	} else {
		v = r.Uint64() >> uint(r.Intn(64))
	}
	if max != math.MaxUint64 {
		v %= max + 1
	}
	return v
}

func randBytes(r *mrand.Rand) []byte {
	var n int
	switch r.Intn(8) {
	case 0:
		n = 0
	case 1:
		n = []int{23, 24, 255, 256}[r.Intn(4)]
	default:
		n = r.Intn(12)
	}
	b := make([]byte, n)
	r.Read(b)
	return b
}

func randAny(r *mrand.Rand, depth int) any {
	k := r.Intn(10)
	if depth <= 0 && k >= 5 && k <= 7 {
		k = 0
	}
	switch k {
	case 0, 1:
		u := randU(r, math.MaxInt64)
		if r.Intn(2) == 0 {
			return -int64(u) - 1 + int64(r.Intn(2))
		}
		return int64(u)
	case 2:
		return randBytes(r)
	case 3:
		return string(randBytes(r))
	case 4:
		return r.Intn(2) == 0
	case 5:
		n := r.Intn(4)
		l := make([]any, n)
		for i := range l {
			l[i] = randAny(r, depth-1)
		}
		return l
	case 6:
		n := r.Intn(4)
		m := map[any]any{}
		for i := 0; i < n; i++ {
			var key any
			switch r.Intn(3) {
			case 0:
				key = int64(r.Intn(600)) - 300
			case 1:
				key = string(randBytes(r))
			default:
				key = r.Intn(2) == 0
			}
			m[key] = randAny(r, depth-1)
		}
		return m
	case 7:
		inner, err := cbor.Marshal(randAny(r, depth-1))
		if err != nil {
			inner = []byte{0x00}
		}
		return cbor.Tag[cbor.RawBytes]{Num: randU(r, math.MaxUint64), Val: inner}
	case 8:
		return nil
	default:
		return int64(r.Intn(48)) - 24
	}
}

// Fill sets v (settable) to a deterministic pseudo-random well-formed value.
func Fill(r *mrand.Rand, v reflect.Value, depth int) {
	t := v.Type()
	switch {
	case t == reflect.TypeOf(cbor.RawBytes(nil)):
		b, _ := cbor.Marshal(randAny(r, 1))
		v.SetBytes(b)
		return
	case t == reflect.TypeOf(cbor.X509Certificate{}):
		v.Set(reflect.ValueOf(cbor.X509Certificate(*testCert)))
		return
	case t == reflect.TypeOf(cbor.X509CertificateRequest{}):
		v.Set(reflect.ValueOf(cbor.X509CertificateRequest(*testCSR)))
		return
	case t == reflect.TypeOf(cbor.Timestamp{}):
		if r.Intn(4) == 0 {
			return
		}
		v.Set(reflect.ValueOf(cbor.Timestamp(time.Unix(int64(randU(r, 1<<40))-int64(r.Intn(3))*100000, 0))))
		return
	case t == reflect.TypeOf(cose.IntOrStr{}):
		if r.Intn(2) == 0 {
			n := int64(r.Intn(600)) - 300
			if n == 0 {
				n = 1
			}
			v.Set(reflect.ValueOf(cose.IntOrStr{Int64: n}))
		} else {
			v.Set(reflect.ValueOf(cose.IntOrStr{Str: string(randBytes(r))}))
		}
		return
	}
	switch t.Kind() {
	case reflect.Uint8:
		v.SetUint(randU(r, math.MaxUint8))
	case reflect.Uint16:
		v.SetUint(randU(r, math.MaxUint16))
	case reflect.Uint32:
		v.SetUint(randU(r, math.MaxUint32))
	case reflect.Uint64, reflect.Uint:
		v.SetUint(randU(r, math.MaxUint64))
	case reflect.Int8, reflect.Int16, reflect.Int32, reflect.Int64, reflect.Int:
		bits := t.Bits()
		max := uint64(1)<<(bits-1) - 1
		u := randU(r, max)
		if r.Intn(2) == 0 {
			v.SetInt(-int64(u) - 1 + int64(r.Intn(2)))
		} else {
			v.SetInt(int64(u))
		}
	case reflect.Bool:
		v.SetBool(r.Intn(2) == 0)
	case reflect.String:
		v.SetString(string(randBytes(r)))
	case reflect.Slice:
		if t.Elem().Kind() == reflect.Uint8 {
			v.SetBytes(randBytes(r))
			return
		}
		n := r.Intn(4)
		if depth <= 0 {
			n = 0
		}
		s := reflect.MakeSlice(t, n, n)
		for i := 0; i < n; i++ {
			Fill(r, s.Index(i), depth-1)
		}
		v.Set(s)
	case reflect.Array:
		for i := 0; i < v.Len(); i++ {
			v.Index(i).SetUint(uint64(r.Intn(256)))
		}
	case reflect.Pointer:
		if r.Intn(3) == 0 {
			return
		}
		p := reflect.New(t.Elem())
		Fill(r, p.Elem(), depth)
		if desc.Val(p.Elem()) == "N" {
			return // a non-nil pointer to a nil value is not representable in the model's value domain
		}
		v.Set(p)
	case reflect.Interface:
		a := randAny(r, depth)
		if a != nil {
			v.Set(reflect.ValueOf(a))
		}
	case reflect.Map:
		n := r.Intn(4)
		m := reflect.MakeMap(t)
		for i := 0; i < n; i++ {
			k := reflect.New(t.Key()).Elem()
			if t.Key().Kind() == reflect.Interface {
				switch r.Intn(3) {
				case 0:
					k.Set(reflect.ValueOf(int64(r.Intn(600)) - 300))
				case 1:
					k.Set(reflect.ValueOf(string(randBytes(r))))
				default:
					k.Set(reflect.ValueOf(r.Intn(2) == 0))
				}
			} else {
				Fill(r, k, 0)
			}
			e := reflect.New(t.Elem()).Elem()
			Fill(r, e, depth-1)
			m.SetMapIndex(k, e)
		}
		v.Set(m)
	case reflect.Struct:
		for i := 0; i < t.NumField(); i++ {
			if !t.Field(i).IsExported() {
				continue
			}
			Fill(r, v.Field(i), depth-1)
		}
	}
}
