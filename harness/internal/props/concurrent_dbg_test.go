//go:build verif

package props

import (
	"fmt"
	"testing"
	"time"

	"verifharness/internal/core"
	"verifharness/internal/env"
)

func TestC19Dbg(t *testing.T) {
	dp, err := newC19Deploy([]env.KeySpec{env.P256}, false)
	if err != nil {
		t.Fatal(err)
	}
	defer dp.e.Close()
	c := core.New("C19", "quick", 1, nil)
	pp := &c19Pipe{c: c, dp: dp}
	pp.fsimRun(3000, true, 20*time.Millisecond)
	pp.fsimRun(70000, true, 20*time.Millisecond)
	fmt.Println(c.Rep.Hist, len(c.Rep.Failures))
	for _, f := range c.Rep.Failures {
		fmt.Println(f.Signature, f.Detail)
	}
}
