package props

// C07, server side, two more classes of registrations:
//
//	noProofProbe:         registrations whose voucher gives the rendezvous server NO usable device key (no certificate
//	                      chain at all, an empty chain, a leaf certificate with a key type the library cannot verify with):
//	                      nobody can prove to be that device, so a TO1.ProveToRV signed by ANY key must be refused.
//	autoRegistrationProbe: the all-in-one auto-registration (fdo.AllInOne.RegisterOwnerAddr): the stored expiry is
//	                      now + the lifetime OwnerAddrs returned (zero: the documented 30 years), and the blob carries the
//	                      addresses OwnerAddrs returned under the owner's signature.

import (
	"bytes"
	"context"
	"crypto"
	"crypto/ecdsa"
	"crypto/ed25519"
	"crypto/elliptic"
	"crypto/rand"
	"crypto/rsa"
	"crypto/x509"
	"crypto/x509/pkix"
	"errors"
	"fmt"
	"io"
	"math/big"
	"net/http"
	"strings"
	"time"

	fdo "github.com/fido-device-onboard/go-fdo"
	"github.com/fido-device-onboard/go-fdo/cbor"
	"github.com/fido-device-onboard/go-fdo/cose"
	"github.com/fido-device-onboard/go-fdo/protocol"
	"github.com/fido-device-onboard/go-fdo/sqlite"

	"verifharness/internal/core"
	"verifharness/internal/env"
	"verifharness/internal/raw"
)

// ---- a hand-written TO1 client: HelloRV for a GUID, then a ProveToRV token signed by a key of the caller's choice ----

type to1Try struct {
	hello, prove int // reply types (255 error, 31 / 33 success, 0 nothing sent)
	errStr       string
	panicked     string
	released     []byte // body of a 33
}

func to1Reply(resp *http.Response) (typ int, body []byte, tok string) {
	body, _ = io.ReadAll(resp.Body)
	_ = resp.Body.Close()
	typ = -1
	if mt := resp.Header.Get("Message-Type"); mt != "" {
		_, _ = fmt.Sscan(strings.TrimSpace(mt), &typ)
	}
	return typ, body, strings.TrimPrefix(resp.Header.Get("Authorization"), "Bearer ")
}

func lastPanic(e *env.Env) string {
	if l := e.RT.Log; len(l) > 0 {
		return l[len(l)-1].Panic
	}
	return ""
}

// to1Attempt runs one TO1 session by hand: the EAT names guid and carries the nonce of THIS session, so that the
// signature is the only thing that can be wrong with it.
func to1Attempt(e *env.Env, guid protocol.GUID, key crypto.Signer, pss bool) (t to1Try) {
	opts := raw.SignOpts(key, pss)
	alg, err := cose.SignatureAlgorithmFor(key.Public(), opts)
	if err != nil {
		t.errStr = "harness: " + err.Error()
		return t
	}
	type sigInfo struct {
		Type cose.SignatureAlgorithm
		Info []byte
	}
	hdr := http.Header{}
	hdr.Set("Content-Type", "application/cbor")
	hello, _ := cbor.Marshal(struct {
		GUID protocol.GUID
		Sig  sigInfo
	}{guid, sigInfo{Type: alg, Info: []byte{}}})
	typ, body, tok := to1Reply(e.RT.Do(30, hello, hdr))
	t.hello, t.panicked = typ, lastPanic(e)
	if typ != 31 {
		var em protocol.ErrorMessage
		if cbor.Unmarshal(body, &em) == nil {
			t.errStr = em.ErrString
		}
		return t
	}
	var ack struct {
		Nonce protocol.Nonce
		Sig   sigInfo
	}
	if err := cbor.Unmarshal(body, &ack); err != nil {
		t.errStr = "harness: HelloRVAck: " + err.Error()
		return t
	}
	claims, _ := cbor.Marshal(map[int64]any{10: ack.Nonce[:], 256: append([]byte{0x01}, guid[:]...)})
	s1 := cose.Sign1[cbor.RawBytes, []byte]{Payload: cbor.NewByteWrap(cbor.RawBytes(claims))}
	if err := s1.Sign(key, nil, nil, opts); err != nil {
		t.errStr = "harness: sign: " + err.Error()
		return t
	}
	prove, _ := cbor.Marshal(s1.Tag())
	hdr.Set("Authorization", "Bearer "+tok)
	typ, body, _ = to1Reply(e.RT.Do(32, prove, hdr))
	t.prove, t.panicked = typ, lastPanic(e)
	switch typ {
	case 33:
		t.released = body
	case 255:
		var em protocol.ErrorMessage
		if cbor.Unmarshal(body, &em) == nil {
			t.errStr = em.ErrString
		}
	}
	return t
}

// ---- vouchers without a usable device key ----

type oneVoucher struct{ v *fdo.Voucher }

func (o oneVoucher) AddVoucher(context.Context, *fdo.Voucher) error { return errors.New("read only") }
func (o oneVoucher) Voucher(context.Context, protocol.GUID) (*fdo.Voucher, error) {
	return o.v, nil
}

// unusableLeaf makes a chain [leaf, CA] whose leaf certifies a public key the library's COSE verification has no case for.
func unusableLeaf(kind string) ([]*cbor.X509Certificate, error) {
	var pub crypto.PublicKey
	switch kind {
	case "ed25519":
		p, _, err := ed25519.GenerateKey(rand.Reader)
		if err != nil {
			return nil, err
		}
		pub = p
	case "p224":
		k, err := ecdsa.GenerateKey(elliptic.P224(), rand.Reader)
		if err != nil {
			return nil, err
		}
		pub = k.Public()
	default:
		return nil, fmt.Errorf("unknown leaf kind %q", kind)
	}
	ca := env.Key(env.P256, "c07-leaf-ca")
	caCert := env.SelfSigned(ca, "c07 leaf CA")[0]
	tmpl := &x509.Certificate{SerialNumber: big.NewInt(time.Now().UnixNano()), Subject: pkix.Name{CommonName: "device " + kind},
		NotBefore: time.Now().Add(-time.Hour), NotAfter: time.Now().Add(30 * 365 * 24 * time.Hour), KeyUsage: x509.KeyUsageDigitalSignature}
	der, err := x509.CreateCertificate(rand.Reader, tmpl, caCert, pub, ca)
	if err != nil {
		return nil, err
	}
	leaf, err := x509.ParseCertificate(der)
	if err != nil {
		return nil, err
	}
	return []*cbor.X509Certificate{(*cbor.X509Certificate)(leaf), (*cbor.X509Certificate)(caCert)}, nil
}

// noKeyVoucher derives from a genuine one-entry voucher a voucher of the same GUID whose certificate chain is chain (nil:
// OVDevCertChain = null). fix: the header's certificate chain hash is made to agree with the new chain (absent for no
// chain) and entry 0, which covers the header, is made anew with the manufacturer's key, as the manufacturer could.
func noKeyVoucher(ov *fdo.Voucher, spec env.KeySpec, chain *[]*cbor.X509Certificate, fix bool) (*fdo.Voucher, error) {
	v := *ov
	v.CertChain = chain
	if !fix {
		return &v, nil
	}
	hdr := ov.Header.Val
	switch {
	case chain == nil || len(*chain) == 0:
		hdr.CertChainHash = nil
	default:
		alg := protocol.Sha256Hash
		if hdr.CertChainHash != nil {
			alg = hdr.CertChainHash.Algorithm
		}
		h := alg.HashFunc().New()
		for _, c := range *chain {
			h.Write(c.Raw)
		}
		hdr.CertChainHash = &protocol.Hash{Algorithm: alg, Value: h.Sum(nil)}
	}
	v.Header = *cbor.NewBstr(hdr)
	v.Entries = nil
	if len(ov.Entries) == 0 || ov.Entries[0].Payload == nil {
		return nil, errors.New("the genuine voucher has no entry")
	}
	next, err := ov.Entries[len(ov.Entries)-1].Payload.Val.PublicKey.Public()
	if err != nil {
		return nil, err
	}
	// fdo.ExtendVoucher reads the device key from the chain to choose the hash (and dereferences a null chain): the entry is
	// made with the genuine chain in place, which no entry covers, and the chain is exchanged afterwards
	v.CertChain = ov.CertChain
	mfg := env.Key(spec, "mfg")
	var out *fdo.Voucher
	switch pub := next.(type) {
	case *ecdsa.PublicKey:
		out, err = fdo.ExtendVoucher(&v, mfg, pub, nil)
	case *rsa.PublicKey:
		out, err = fdo.ExtendVoucher(&v, mfg, pub, nil)
	default:
		err = fmt.Errorf("owner key %T", next)
	}
	if err != nil {
		return nil, err
	}
	out.CertChain = chain
	return out, nil
}

type to1Signer struct {
	name string
	key  crypto.Signer
	pss  bool
}

// to1Strangers: a fresh key of every type the library signs with (RSA from the cache: generation takes long), plus the keys
// a voucher DOES name or that stand behind it (owner, manufacturer, device CA), plus the device's own key.
func to1Strangers(c *core.Ctx, spec env.KeySpec, dev *env.Device, ownerRole string) []to1Signer {
	ec := func(cv elliptic.Curve) crypto.Signer { k, _ := ecdsa.GenerateKey(cv, rand.Reader); return k }
	l := []to1Signer{
		{"fresh-P-256", ec(elliptic.P256()), false},
		{"fresh-P-384", ec(elliptic.P384()), false},
		{"fresh-P-521", ec(elliptic.P521()), false},
		{"stranger-RSA2048-pkcs", env.Key(env.RSA2048, "stranger"), false},
		{"stranger-RSA2048-pss", env.Key(env.RSA2048, "stranger"), true},
		{"voucher-owner-key", env.Key(spec, ownerRole), spec.Type == protocol.RsaPssKeyType},
		{"voucher-manufacturer-key", env.Key(spec, "mfg"), spec.Type == protocol.RsaPssKeyType},
		{"device-ca-key", env.Key(env.P384, "devca"), false},
		{"device-key", dev.Key, spec.Type == protocol.RsaPssKeyType},
	}
	if !c.Quick() || spec.Bits == 3072 {
		l = append(l, to1Signer{"stranger-RSA3072-pkcs", env.Key(env.RSAPKCS, "stranger"), false}, to1Signer{"stranger-RSA3072-pss", env.Key(env.RSAPKCS, "stranger"), true})
	}
	return l
}

// ruleOnce appends a sentence to the evidence file's description of the generators, once.
func ruleOnce(c *core.Ctx, text string) {
	if !strings.Contains(c.Rep.Rule, text) {
		c.Rep.Rule += " " + text
	}
}

// noProofProbe: see the head of this file.
func noProofProbe(c *core.Ctx, spec env.KeySpec) {
	ruleOnce(c, "registrations without a usable device key (voucher with OVDevCertChain null / empty, with and without the header's chain hash, entries re-made by the manufacturer; "+
		"leaf certificate with an Ed25519 / P-224 key), registered through TO0 and directly in the blob store: ProveToRV with the session's nonce signed by a fresh key of every type, by the "+
		"voucher's owner and manufacturer keys, the device CA key and the device key is never answered with the redirect (control: the genuine voucher serves exactly the device key).")
	e, err := srvEnv(spec)
	if err != nil {
		return
	}
	ctx, cancel := context.WithTimeout(context.Background(), 2*time.Minute)
	defer cancel()
	e.RT.Hook, e.RT.RespHook = nil, nil
	dev, err := e.NewDevice(ctx, protocol.X509KeyEnc)
	if err != nil {
		c.Note("no-proof probe %s: %v", spec.Name, err)
		return
	}
	ov, err := e.DB.Voucher(ctx, dev.Cred.GUID)
	if err != nil {
		c.Note("no-proof probe %s: %v", spec.Name, err)
		return
	}
	guid := dev.Cred.GUID
	pss := spec.Type == protocol.RsaPssKeyType
	kind := "srv.noproof"
	empty := []*cbor.X509Certificate{}
	type variant struct {
		name  string
		chain *[]*cbor.X509Certificate
		fix   bool
		keep  bool // the genuine voucher (control)
	}
	vs := []variant{{name: "genuine", keep: true}, {name: "chain-null"}, {name: "chain-null+hash-null", fix: true}, {name: "chain-empty", chain: &empty}, {name: "chain-empty+hash-null", chain: &empty, fix: true}}
	for _, k := range []string{"ed25519", "p224"} {
		ch, err := unusableLeaf(k)
		if err != nil {
			c.Note("no-proof probe: leaf %s cannot be made: %v", k, err)
			continue
		}
		vs = append(vs, variant{name: "leaf-" + k, chain: &ch}, variant{name: "leaf-" + k + "+hash", chain: &ch, fix: true})
	}
	signers := to1Strangers(c, spec, dev, e.OwnerRole)
	addrs := []protocol.RvTO2Addr{{DNSAddress: strp("owner.test"), Port: 8043, TransportProtocol: protocol.HTTPSTransport}}
	for _, va := range vs {
		v := ov
		if !va.keep {
			if v, err = noKeyVoucher(ov, spec, va.chain, va.fix); err != nil {
				c.Fail("harness:no-proof-voucher", fmt.Sprintf("%s %s: %v", spec.Name, va.name, err), kind, core.Params{"key": spec.Name, "voucher": va.name}, core.Obs{})
				continue
			}
		}
		for _, path := range []string{"to0", "store"} {
			p := core.Params{"key": spec.Name, "voucher": va.name, "registered": path}
			// no registration is left over from the variant before
			_, _ = e.DB.DB().ExecContext(ctx, "DELETE FROM rv_blobs WHERE guid = ?", guid[:])
			switch path {
			case "to0":
				cl := &fdo.TO0Client{Vouchers: oneVoucher{v}, OwnerKeys: e.DB}
				if _, err := cl.RegisterBlob(ctx, e.Transport(), guid, addrs); err != nil {
					// the rendezvous server may well refuse such a voucher: then there is nothing to release
					c.Count("no_proof_registration", fmt.Sprintf("%s via %s: refused", va.name, path))
					if va.keep {
						c.Fail("harness:no-proof-control", fmt.Sprintf("%s: TO0 for the genuine voucher: %v", spec.Name, err), kind, p, core.Obs{})
					}
					continue
				}
			case "store":
				to1d := cose.Sign1[protocol.To1d, []byte]{Payload: cbor.NewByteWrap(protocol.To1d{RV: addrs, To0dHash: protocol.Hash{Algorithm: protocol.Sha256Hash, Value: make([]byte, 32)}})}
				ok := env.Key(spec, e.OwnerRole)
				if err := to1d.Sign(ok, nil, nil, raw.SignOpts(ok, pss)); err != nil {
					c.Fail("harness:no-proof-blob", err.Error(), kind, p, core.Obs{})
					continue
				}
				if err := e.TO1S.RVBlobs.SetRVBlob(ctx, v, &to1d, time.Now().Add(time.Hour)); err != nil {
					c.Count("no_proof_registration", fmt.Sprintf("%s via %s: refused", va.name, path))
					if va.keep {
						c.Fail("harness:no-proof-control", fmt.Sprintf("%s: SetRVBlob for the genuine voucher: %v", spec.Name, err), kind, p, core.Obs{})
					}
					continue
				}
			}
			c.Count("no_proof_registration", fmt.Sprintf("%s via %s: stored", va.name, path))
			for _, sg := range signers {
				t := to1Attempt(e, guid, sg.key, sg.pss)
				c.Rep.Evaluations++
				q := core.Params{"key": spec.Name, "voucher": va.name, "registered": path, "signer": sg.name}
				out := fmt.Sprintf("hello=%d prove=%d", t.hello, t.prove)
				c.Count("no_proof_attempt", fmt.Sprintf("%s: %s", va.name, out))
				proven := va.keep && sg.name == "device-key"
				switch {
				case strings.HasPrefix(t.errStr, "harness:"):
					c.Fail("harness:no-proof-client", t.errStr, kind, q, core.Obs{})
				case t.panicked != "":
					c.Fail("panic@TO1:"+va.name, fmt.Sprintf("%s, registered via %s, token signed by %s: the handler panicked: %s", va.name, path, sg.name, t.panicked), kind, q, core.Obs{Impl: out})
				case proven && t.prove != 33:
					c.Fail("harness:no-proof-control", fmt.Sprintf("%s: the device's own token for its genuine registration was answered %s (%s): the hand-written client is wrong", spec.Name, out, t.errStr), kind, q, core.Obs{Impl: out})
				case !proven && (t.prove == 33 || t.released != nil):
					c.Fail("redirect-released-without-proof:"+va.name, fmt.Sprintf("%s: the registration's voucher is %s (registered via %s); a TO1.ProveToRV for its GUID with the session's nonce, signed by %s, was answered with RVRedirect (%d bytes)",
						spec.Name, va.name, path, sg.name, len(t.released)), kind, q, core.Obs{Impl: out})
				}
			}
		}
	}
	_, _ = e.DB.DB().ExecContext(ctx, "DELETE FROM rv_blobs WHERE guid = ?", guid[:])
}

// ---- all-in-one auto-registration ----

type aioRV struct {
	*sqlite.DB
	addrs []protocol.RvTO2Addr
	life  time.Duration
	calls *int
}

func (a aioRV) OwnerAddrs(context.Context, fdo.Voucher) ([]protocol.RvTO2Addr, time.Duration, error) {
	*a.calls++
	return a.addrs, a.life, nil
}

// autoLifetimes: what OwnerAddrs answers. Zero selects the documented default.
var autoLifetimes = []time.Duration{time.Second, time.Minute, 24 * time.Hour, 0, 1500 * time.Millisecond, 2 * time.Second, time.Hour, 30 * 24 * time.Hour, 365 * 24 * time.Hour, 10 * 365 * 24 * time.Hour}

// autoRegistrationProbe: see the head of this file. The returned function finishes the probe of the 1 s lifetime (the
// registration must be gone two seconds later); the caller runs it after its other work so that the wait costs nothing.
func autoRegistrationProbe(c *core.Ctx, spec env.KeySpec) (finish func()) {
	finish = func() {}
	ruleOnce(c, "all-in-one auto-registration (fdo.AllInOne.RegisterOwnerAddr) with OwnerAddrs lifetimes 1 s .. 10 years and zero: rv_blobs.exp = registration time + lifetime (zero: 30 years), "+
		"blob = the addresses returned, signed by the voucher's owner; the 1 s registration is gone 2 s later.")
	e, err := srvEnv(spec)
	if err != nil {
		return
	}
	ctx, cancel := context.WithTimeout(context.Background(), 2*time.Minute)
	defer cancel()
	e.RT.Hook, e.RT.RespHook = nil, nil
	kind := "srv.autoreg"
	lives := autoLifetimes
	if c.Quick() {
		lives = lives[:6]
	}
	var shortDev *env.Device
	var shortAt time.Time
	for li, life := range lives {
		p := core.Params{"key": spec.Name, "lifetime": life.String()}
		dev, err := e.NewDevice(ctx, protocol.X509KeyEnc)
		if err != nil {
			c.Note("auto-registration probe %s: %v", spec.Name, err)
			return
		}
		ov, err := e.DB.Voucher(ctx, dev.Cred.GUID)
		if err != nil {
			c.Note("auto-registration probe %s: %v", spec.Name, err)
			return
		}
		host := fmt.Sprintf("auto%d.owner.test", li)
		addrs := []protocol.RvTO2Addr{{DNSAddress: strp(host), Port: uint16(8000 + li), TransportProtocol: protocol.HTTPSTransport}, {DNSAddress: strp("second." + host), Port: 443, TransportProtocol: protocol.HTTPTransport}}
		calls := 0
		aio := fdo.AllInOne{RendezvousAndOwner: aioRV{DB: e.DB, addrs: addrs, life: life, calls: &calls}}
		t0 := time.Now()
		err = aio.RegisterOwnerAddr(ctx, *ov)
		t1 := time.Now()
		c.Rep.Evaluations++
		if err != nil || calls != 1 {
			c.Fail("auto-registration-failed", fmt.Sprintf("%s lifetime %v: RegisterOwnerAddr: %v (OwnerAddrs called %d times)", spec.Name, life, err, calls), kind, p, core.Obs{})
			continue
		}
		var exp int64
		if err := e.DB.DB().QueryRowContext(ctx, "SELECT exp FROM rv_blobs WHERE guid = ?", dev.Cred.GUID[:]).Scan(&exp); err != nil {
			c.Fail("auto-registration-expiry-wrong", fmt.Sprintf("%s lifetime %v: no row in rv_blobs for the device: %v", spec.Name, life, err), kind, p, core.Obs{})
			continue
		}
		lo, hi := t0.Add(life).Unix(), t1.Add(life).Unix()
		what := fmt.Sprintf("registration time + %v", life)
		if life == 0 { // "a default of 30 years": thirty calendar years, give or take the leap days
			lo, hi = t0.Add(30*365*24*time.Hour).Unix(), t1.Add(30*366*24*time.Hour).Unix()
			what = "registration time + 30 years (documented default for a zero lifetime)"
		}
		c.Count("auto_registration", fmt.Sprintf("lifetime %v: stored expiry in range=%v", life, exp >= lo && exp <= hi))
		if exp < lo || exp > hi {
			c.Fail("auto-registration-expiry-wrong", fmt.Sprintf("%s: OwnerAddrs returned the lifetime %v; rv_blobs.exp is %d = registration time %+d s; expected %s, i.e. within [%d, %d]",
				spec.Name, life, exp, exp-t0.Unix(), what, lo, hi), kind, p, core.Obs{})
		}
		if life == time.Second {
			shortDev, shortAt = dev, t1
			continue
		}
		if life < 10*time.Second {
			continue // (too short for the reads below to be sure to come before the expiry)
		}
		// the blob: the store gives it back, it names the addresses OwnerAddrs returned, the voucher's owner signed it, and the
		// device gets it through TO1
		blob, bov, err := e.DB.RVBlob(ctx, dev.Cred.GUID)
		if err != nil || blob == nil || blob.Payload == nil || bov == nil {
			c.Fail("auto-registration-blob-wrong", fmt.Sprintf("%s lifetime %v: RVBlob right after the registration: %v", spec.Name, life, err), kind, p, core.Obs{})
			continue
		}
		want, _ := cbor.Marshal(addrs)
		got, _ := cbor.Marshal(blob.Payload.Val.RV)
		ownerPub, _ := ov.OwnerPublicKey()
		okSig, verr := blob.Verify(ownerPub, nil, nil)
		if !bytes.Equal(want, got) || !okSig || bov.Header.Val.GUID != dev.Cred.GUID {
			c.Fail("auto-registration-blob-wrong", fmt.Sprintf("%s lifetime %v: addresses as returned by OwnerAddrs=%v, signature by the voucher's owner key verifies=%v (%v), voucher GUID matches=%v",
				spec.Name, life, bytes.Equal(want, got), okSig, verr, bov.Header.Val.GUID == dev.Cred.GUID), kind, p, core.Obs{})
		}
		to1d, err := e.TO1(ctx, dev)
		if err != nil || to1d == nil || to1d.Payload == nil {
			c.Fail("auto-registration-blob-wrong", fmt.Sprintf("%s lifetime %v: TO1 of the device after the auto-registration: %v", spec.Name, life, err), kind, p, core.Obs{})
			continue
		}
		if got, _ := cbor.Marshal(to1d.Payload.Val.RV); !bytes.Equal(want, got) {
			c.Fail("auto-registration-blob-wrong", fmt.Sprintf("%s lifetime %v: TO1 released other addresses than OwnerAddrs returned", spec.Name, life), kind, p, core.Obs{})
		}
	}
	if shortDev == nil {
		return
	}
	return func() {
		time.Sleep(time.Until(shortAt.Add(2050 * time.Millisecond)))
		c.Rep.Evaluations++
		_, _, err := e.DB.RVBlob(context.Background(), shortDev.Cred.GUID)
		c.Count("auto_registration", fmt.Sprintf("lifetime 1s: found %.1f s later=%v", time.Since(shortAt).Seconds(), err == nil))
		if err == nil {
			c.Fail("auto-registration-expiry-wrong", fmt.Sprintf("%s: OwnerAddrs returned the lifetime 1s; %.2f s after the registration RVBlob still finds the blob", spec.Name, time.Since(shortAt).Seconds()),
				kind, core.Params{"key": spec.Name, "lifetime": "1s", "probe": "after-expiry"}, core.Obs{})
		}
	}
}
