package props

// Protocol-level histories against the real server side (http.Handler + DI/TO0/TO1/TO2 responders + SQLite), compared
// with the abstract server state machine of Fdo/Server.v and watched by implementation-side monitors.  Used by the
// runners of C02, C05, C06, C07 and C08.

import (
	"context"
	"crypto/ecdsa"
	"crypto/rsa"
	"fmt"
	fdo "github.com/fido-device-onboard/go-fdo"
	"strconv"
	"strings"
	"sync"
	"sync/atomic"
	"time"

	"github.com/fido-device-onboard/go-fdo/kex"
	"github.com/fido-device-onboard/go-fdo/protocol"

	"verifharness/internal/core"
	"verifharness/internal/env"
	"verifharness/internal/raw"
)

// hstep is one request of a history. Sess / From are LOGICAL session numbers: the k-th start message (10/20/30/60) of
// the history, whether or not it was answered with a token (the model numbers sessions the same way).
type hstep struct {
	Msg     int
	Sess    int
	Tok     byte // 's' session token, 'n' none, 'f' forged, 'd' damaged
	From    int  // -1: body from the token's session
	Fault   string
	Variant int
}

func (s hstep) String() string {
	return fmt.Sprintf("%d,%d,%c,%d,%s,%d", s.Msg, s.Sess, s.Tok, s.From, s.Fault, s.Variant)
}

func histString(h []hstep) string {
	parts := make([]string, len(h))
	for i, s := range h {
		parts[i] = s.String()
	}
	return strings.Join(parts, ";")
}

func parseHist(s string) (h []hstep) {
	for _, p := range strings.Split(s, ";") {
		f := strings.Split(p, ",")
		if len(f) != 6 {
			continue
		}
		var st hstep
		st.Msg, _ = strconv.Atoi(f[0])
		st.Sess, _ = strconv.Atoi(f[1])
		if len(f[2]) > 0 {
			st.Tok = f[2][0]
		}
		st.From, _ = strconv.Atoi(f[3])
		st.Fault = f[4]
		st.Variant, _ = strconv.Atoi(f[5])
		h = append(h, st)
	}
	return h
}

// ---- deployments (one per key type, shared by all histories of a run) ----

var (
	srvMu   sync.Mutex
	srvEnvs = map[string]*env.Env{}
)

func specByName(n string) env.KeySpec {
	for _, s := range env.AllKeys {
		if s.Name == n {
			return s
		}
	}
	return env.P256
}

func srvEnv(spec env.KeySpec) (*env.Env, error) {
	srvMu.Lock()
	defer srvMu.Unlock()
	if e := srvEnvs[spec.Name]; e != nil {
		return e, nil
	}
	e, err := env.New(WorkDir(), spec)
	if err != nil {
		return nil, err
	}
	e.OwnerModules = raw.OneShot(e)
	// every key a history may ask for is made here, outside the per-case watchdog (a dozen RSA keys take many seconds on
	// a loaded machine)
	for _, role := range []string{"dev0", "dev1", "dev2", "dev3", "rawdi0", "rawdi1", "rawdi2", "rawdi3", "stranger", "o2", "mfg", "owner"} {
		_ = env.Key(spec, role)
	}
	srvEnvs[spec.Name] = e
	return e, nil
}

func closeSrvEnvs() {
	srvMu.Lock()
	defer srvMu.Unlock()
	for k, e := range srvEnvs {
		e.Close()
		delete(srvEnvs, k)
	}
}

// ---- running a history ----

type stepObs struct {
	Step hstep
	Res  raw.Result
	Tok  int // logical session the presented token names, -1 none
	Kind string
}

type histRun struct {
	Steps []stepObs
	Err   string
}

var lastHist *histRun // what the last srv.history evaluation observed (for the monitors)

var effLetter = map[string]string{"di-voucher": "V", "rv-blob": "B", "module-invoke": "M", "voucher-replace": "R"}

func effString(es []env.Effect) string {
	var sb strings.Builder
	for _, e := range es {
		if l, ok := effLetter[e.Kind]; ok {
			sb.WriteString(l)
		} else {
			sb.WriteString("?" + e.Kind)
		}
	}
	return sb.String()
}

func isStartMsg(m int) bool { return m == 10 || m == 20 || m == 30 || m == 60 }

func b2n(b bool) string {
	if b {
		return "n:1"
	}
	return "n:0"
}

func kexByName(n string) kex.Suite { return kex.Suite(n) }

func runHistory(p core.Params) (line, impl string) {
	lastHist = &histRun{}
	spec := specByName(p["key"])
	e, err := srvEnv(spec)
	if err != nil {
		lastHist.Err = err.Error()
		return "srv.history ()", "err-env " + err.Error()
	}
	ctx, cancel := context.WithTimeout(context.Background(), time.Minute)
	defer cancel()
	keyEnc := protocol.X509KeyEnc
	if p["enc"] == "x5chain" { // manufacturer and owner keys travel as certificate chains [leaf, CA]
		keyEnc = protocol.X5ChainKeyEnc
	}
	dev, err := e.NewDevice(ctx, keyEnc)
	if err != nil {
		lastHist.Err = err.Error()
		return "srv.history ()", "err-di " + err.Error()
	}
	other, _ := e.NewDevice(ctx, keyEnc)
	if p["chunked"] == "1" { // requests without Content-Length to a handler whose size limit is switched off
		e.RT.Chunked, e.Handler.MaxContentLength = true, -1
		defer func() { e.RT.Chunked, e.Handler.MaxContentLength = false, 0 }()
	}
	cipher, _ := strconv.Atoi(p["cipher"])
	reuse := p["reuse"] == "1"
	e.Reuse = reuse
	defer func() { e.Reuse = false }()
	e.AcceptTTL = nil
	if p["ttl"] != "" { // rendezvous policy: the accepted TTL is this constant whatever was asked (0 refuses)
		ttl, _ := strconv.Atoi(p["ttl"])
		e.AcceptTTL = func(uint32) (uint32, error) { return uint32(ttl), nil }
		defer func() { e.AcceptTTL = nil }()
	}
	ownerRole := ""
	if p["chain2"] == "1" {
		// the voucher goes on to a second owner: manufacturer -> owner -> o2. "owner" is now a former owner.
		if ov, err := e.DB.RemoveVoucher(ctx, dev.Cred.GUID); err == nil {
			var ext *fdo.Voucher
			switch pub := env.Key(spec, "o2").Public().(type) {
			case *ecdsa.PublicKey:
				ext, err = fdo.ExtendVoucher(ov, env.Key(spec, "owner"), pub, nil)
			case *rsa.PublicKey:
				ext, err = fdo.ExtendVoucher(ov, env.Key(spec, "owner"), pub, nil)
			}
			if err == nil && ext != nil {
				err = e.DB.AddVoucher(ctx, ext)
				ownerRole = "o2"
			}
			if err != nil {
				lastHist.Err = "chain2: " + err.Error()
			}
		}
	}
	d := raw.NewDriver(e, dev, raw.Config{Kex: kexByName(p["kex"]), Cipher: kex.CipherSuiteID(cipher), Reuse: reuse, OwnerRole: ownerRole})
	d.Other = other
	d.KeepRejectedKeys = p["keepkeys"] == "1"
	invfail := -1 // index of the step during which the token store fails to invalidate (fault injection)
	if p["invfail"] != "" {
		invfail, _ = strconv.Atoi(p["invfail"])
	}
	defer atomic.StoreInt32(&e.InvalFail, 0)
	if p["prereg"] == "1" { // TO1 needs a registered blob: an honest TO0 that is not part of the history
		if _, err := e.TO0(ctx, dev.Cred.GUID, []protocol.RvTO2Addr{{DNSAddress: strp("owner.test"), Port: 8043, TransportProtocol: protocol.HTTPSTransport}}); err != nil {
			lastHist.Err = "to0: " + err.Error()
		}
	}
	var logical []int // logical session number -> driver session index (-1: the start message got no token)
	var lsb, isb strings.Builder
	lsb.WriteString("srv.history (")
	isb.WriteString("ok")
	for si, st := range parseHist(p["hist"]) {
		if si == invfail {
			atomic.StoreInt32(&e.InvalFail, 1)
		} else {
			atomic.StoreInt32(&e.InvalFail, 0)
		}
		drv := func(l int) int {
			if l >= 0 && l < len(logical) {
				return logical[l]
			}
			return -1
		}
		rs := raw.Step{Msg: st.Msg, Sess: drv(st.Sess), BodyFrom: -1, Fault: st.Fault, Variant: st.Variant}
		if st.From >= 0 {
			rs.BodyFrom = drv(st.From)
			if rs.BodyFrom < 0 {
				rs.BodyFrom = 1 << 20 // a context that does not exist
			}
		}
		switch st.Tok {
		case 'n':
			rs.Tok = raw.TokNone
		case 'f':
			rs.Tok = raw.TokForged
		case 'd':
			rs.Tok = raw.TokDamaged
		default:
			rs.Tok = raw.TokSession
			if rs.Sess < 0 {
				rs.Tok = raw.TokNone
			}
		}
		r := d.Do(rs)
		tok := -1
		if st.Tok == 's' && st.Sess >= 0 && st.Sess < len(logical) {
			tok = st.Sess
		}
		if isStartMsg(st.Msg) {
			logical = append(logical, r.NewSess)
		}
		lastHist.Steps = append(lastHist.Steps, stepObs{Step: st, Res: r, Tok: tok, Kind: effString(r.Effects)})
		if r.Err != "" {
			lastHist.Err = r.Err
		}
		fmt.Fprintf(&lsb, "(n:%x z:%s %s %s %s)", st.Msg, zhex(int64(tok)), b2n(r.OK), b2n(r.Enc), b2n(r.Hmac))
		rt := "-"
		if r.RespType >= 0 {
			rt = fmt.Sprintf("%x", r.RespType)
		}
		if r.Panic != "" {
			rt = "panic"
			core.PanicText = r.Panic
		}
		isb.WriteString(" " + rt + ":" + effString(r.Effects))
	}
	lsb.WriteString(")")
	if lastHist.Err != "" {
		return lsb.String(), "err-driver " + lastHist.Err
	}
	return lsb.String(), isb.String()
}

func registerServerKinds(c *core.Ctx) {
	c.Register(&core.Kind{Name: "srv.history", Eval: runHistory})
}

// ---- monitors on the implementation's trace (independent of the model) ----

type sessMon struct {
	proto   protocol.Protocol
	dead    bool
	got     map[int]int // accepted response types
	hmac    bool
	devmod  bool
	svcdone bool
}

var finalResp = map[int]bool{13: true, 23: true, 33: true, 71: true}
var clientMsg = map[int]bool{10: true, 12: true, 20: true, 22: true, 30: true, 32: true, 60: true, 62: true, 64: true, 66: true, 68: true, 70: true}

// monitorHistory checks the statements of C02/C06/C07/C08 directly on what the server answered and did.
func monitorHistory(c *core.Ctx, p core.Params, o core.Obs, h *histRun) {
	fail := func(sig, detail string) {
		c.Fail(sig, detail+" in history "+p["hist"]+" ("+p["key"]+")", "srv.history", p, o)
	}
	var ss []*sessMon
	for i, so := range h.Steps {
		st, r := so.Step, so.Res
		at := fmt.Sprintf("step %d (msg %d fault %q tok %c)", i, st.Msg, st.Fault, st.Tok)
		if r.Panic != "" {
			fail(fmt.Sprintf("panic@server:%d", st.Msg), at+": "+r.Panic)
		}
		accepted := r.RespType == st.Msg+1
		if r.RespType == 255 && so.Kind != "" {
			fail("effect-with-error:"+so.Kind, at)
		}
		known := protocol.Of(uint8(st.Msg)) != protocol.UnknownProtocol && st.Msg >= 0 && st.Msg < 255
		if isStartMsg(st.Msg) {
			m := &sessMon{proto: protocol.Of(uint8(st.Msg)), got: map[int]int{}}
			ss = append(ss, m)
			if accepted {
				m.got[r.RespType]++
				if !r.OK {
					fail(fmt.Sprintf("accepted-bad-request:%d:%s", st.Msg, st.Fault), at)
				}
			} else {
				m.dead = true
			}
			if so.Kind != "" {
				fail("effect-at-start:"+so.Kind, at)
			}
			continue
		}
		var m *sessMon
		if so.Tok >= 0 && so.Tok < len(ss) {
			m = ss[so.Tok]
		}
		if st.Msg == 255 {
			if so.Kind != "" {
				fail("effect-at-error-message:"+so.Kind, at)
			}
			if m != nil {
				m.dead = true
			}
			continue
		}
		if !known || !clientMsg[st.Msg] && st.Msg < 65 {
			// unsupported types and server-to-client types: refused without looking at the token
			if so.Kind != "" || r.RespType != 255 {
				fail(fmt.Sprintf("non-client-type-served:%d:%s", st.Msg, so.Kind), at+fmt.Sprintf(": answered %d", r.RespType))
			}
			if known && m != nil { // an error from a responder ends the session whose token was presented
				m.dead = true
			}
			continue
		}
		served := r.RespType != 255
		switch {
		case m == nil:
			if served || so.Kind != "" {
				fail(fmt.Sprintf("bad-token-served:%d:%c%d", st.Msg, st.Tok, st.Variant%4), at+fmt.Sprintf(": answered %d effects [%s]", r.RespType, so.Kind))
			}
			continue
		case m.dead:
			if served || so.Kind != "" {
				fail(fmt.Sprintf("dead-token-served:%d", st.Msg), at+fmt.Sprintf(": answered %d effects [%s]", r.RespType, so.Kind))
			}
			continue
		case m.proto != protocol.Of(uint8(st.Msg)):
			if served || so.Kind != "" {
				fail(fmt.Sprintf("foreign-protocol-token-served:%d", st.Msg), at+fmt.Sprintf(": answered %d effects [%s]", r.RespType, so.Kind))
			}
			m.dead = true
			continue
		}
		if accepted && !r.OK {
			fail(fmt.Sprintf("accepted-bad-request:%d:%s", st.Msg, st.Fault), at)
		}
		if accepted && st.From >= 0 && st.From != so.Tok && st.Msg != 62 && st.Msg != 12 {
			fail(fmt.Sprintf("accepted-foreign-session-body:%d", st.Msg), at)
		}
		// order gates
		need := func(what string, ok bool) {
			if !ok && (accepted || so.Kind != "") {
				fail(fmt.Sprintf("served-without:%s:%d:%s", what, st.Msg, so.Kind), at+fmt.Sprintf(": answered %d effects [%s]", r.RespType, so.Kind))
			}
		}
		switch st.Msg {
		case 12:
			need("11", m.got[11] > 0)
		case 22:
			need("21", m.got[21] > 0)
		case 32:
			need("31", m.got[31] > 0)
		case 62, 64:
			need("61", m.got[61] > 0)
		case 66:
			need("65", m.got[65] > 0)
			need("tunnel", r.Enc)
		case 68:
			need("65", m.got[65] > 0)
			need("67", m.got[67] > 0)
			need("tunnel", r.Enc)
		case 70:
			need("65", m.got[65] > 0)
			need("tunnel", r.Enc)
			if strings.Contains(so.Kind, "R") {
				need("67", m.got[67] > 0)
				if c.Prop == "C08" || c.Prop == "C16" { // the order of the service-info phase is those properties' business
					need("serviceinfo", m.svcdone)
				}
			}
		}
		want := map[int]string{12: "V", 22: "B", 70: "R", 68: "M"}[st.Msg]
		for _, ch := range so.Kind {
			if string(ch) != want {
				fail(fmt.Sprintf("effect-at-wrong-message:%c:%d", ch, st.Msg), at)
			}
		}
		if accepted {
			m.got[r.RespType]++
			if st.Msg == 66 && r.Hmac {
				m.hmac = true
			}
			if st.Msg == 68 {
				if m.devmod && strings.Contains(so.Kind, "M") {
					m.svcdone = true
				}
				m.devmod = true
			}
			if st.Msg == 70 && m.hmac != strings.Contains(so.Kind, "R") {
				fail("replace-iff-hmac", at+fmt.Sprintf(": hmac stored %v, effects [%s]", m.hmac, so.Kind))
			}
		}
		if r.RespType == 255 || finalResp[r.RespType] {
			m.dead = true
		}
	}
}

// ---- history generators ----

var honestSeq = map[string][]int{"DI": {10, 12}, "TO0": {20, 22}, "TO1": {30, 32}, "TO2": {60, 62, 64, 66, 68, 68, 70}}

func seqSteps(msgs []int, sess int) []hstep {
	out := make([]hstep, len(msgs))
	for i, m := range msgs {
		out[i] = hstep{Msg: m, Sess: sess, Tok: 's', From: -1}
	}
	return out
}

type srvCfg struct {
	spec   env.KeySpec
	kex    kex.Suite
	cipher kex.CipherSuiteID
	reuse  bool
}

func (cf srvCfg) params(h []hstep) core.Params {
	p := core.Params{"key": cf.spec.Name, "kex": string(cf.kex), "cipher": fmt.Sprint(int(cf.cipher)), "hist": histString(h)}
	if cf.reuse {
		p["reuse"] = "1"
	}
	for _, s := range h {
		if s.Msg == 30 {
			p["prereg"] = "1"
		}
	}
	return p
}

// doHist runs one history on both sides and applies the monitors.
func doHist(c *core.Ctx, cf srvCfg, h []hstep, meta string, extra core.Params) (core.Obs, *histRun) {
	p := cf.params(h)
	for k, v := range extra {
		p[k] = v
	}
	o := c.Do("srv.history", p, meta)
	hr := lastHist
	if o.Timeout || o.Impl == "hang" {
		// the evaluation is still running in the background: what it has recorded so far must not be judged as a history
		c.Fail("hang@srv.history", "no result within the watchdog's 20 s: "+p["hist"], "srv.history", p, o)
		return o, nil
	}
	if strings.HasPrefix(o.Impl, "err-") {
		c.Fail("harness:"+firstWordOf(o.Impl), o.Impl, "srv.history", p, o)
		return o, hr
	}
	c.Count("history_len", fmt.Sprint(len(h)))
	for _, so := range hr.Steps {
		c.Count("msg", fmt.Sprint(so.Step.Msg))
		c.Count("resp", fmt.Sprint(so.Res.RespType))
		if so.Step.Fault != "" {
			c.Count("fault", fmt.Sprintf("%d:%s", so.Step.Msg, so.Step.Fault))
		}
		c.Count("tok", string(so.Step.Tok))
		if so.Kind != "" {
			c.Count("effect", so.Kind)
		}
	}
	monitorHistory(c, p, o, hr)
	return o, hr
}

func firstWordOf(s string) string {
	if i := strings.IndexByte(s, ' '); i >= 0 {
		return s[:i]
	}
	return s
}

func srvConfigs(c *core.Ctx) []srvCfg {
	all := []srvCfg{
		{env.P256, kex.ECDH256Suite, kex.A128GcmCipher, false},
		{env.RSA2048, kex.DHKEXid14Suite, kex.CoseAes128CtrCipher, false},
		{env.P384, kex.ECDH384Suite, kex.A256GcmCipher, true},
		{env.RSA2048, kex.ASYMKEX2048Suite, kex.CoseAes128CbcCipher, true},
		{env.P256, kex.ECDH256Suite, kex.A192GcmCipher, false},
		{env.RSAPKCS, kex.DHKEXid15Suite, kex.CoseAes256CtrCipher, false},
		{env.RSAPSS2, kex.DHKEXid14Suite, kex.A128GcmCipher, false},
		{env.RSAPSS3, kex.ASYMKEX3072Suite, kex.CoseAes256CbcCipher, false},
		{env.P384, kex.ECDH384Suite, kex.A256GcmCipher, false},
	}
	if c.Quick() {
		return all[:3]
	}
	return all
}

var tokForms = []struct {
	tok byte
	v   int
}{{'n', 0}, {'f', 0}, {'d', 0}, {'d', 1}, {'d', 2}, {'d', 3}}

// genSystematic yields the structured histories for one protocol: honest; every fault at every position followed by
// the rest of the honest run on the same token; every token form at every position; one message dropped, repeated,
// an error message inserted; the whole run replayed with the bodies of a parallel session.
func genSystematic(name string, emit func(h []hstep, meta string)) {
	msgs := honestSeq[name]
	emit(seqSteps(msgs, 0), "honest:"+name)
	for i, m := range msgs {
		for _, f := range raw.Faults(m) {
			h := seqSteps(msgs, 0)
			h[i].Fault = f
			emit(h, "single-fault")
		}
		if i > 0 {
			for _, tf := range tokForms {
				h := seqSteps(msgs, 0)
				h[i].Tok, h[i].Variant = tf.tok, tf.v
				emit(h, "bad-token")
			}
			// drop message i
			h := append(seqSteps(msgs[:i], 0), seqSteps(msgs[i+1:], 0)...)
			emit(h, "dropped-message")
			// error message before message i, then go on
			for _, ef := range []string{"", "prev-0", "prev-99", "prev-255", "garbage", "empty"} {
				h = append(append(seqSteps(msgs[:i], 0), hstep{Msg: 255, Sess: 0, Tok: 's', From: -1, Fault: ef}), seqSteps(msgs[i:], 0)...)
				emit(h, "error-message-then-continue")
			}
			// a parallel session of the same protocol: message i arrives with the other session's token / body
			par := append(seqSteps(msgs[:i], 0), seqSteps(msgs[:i], 1)...)
			// fix logical numbering: the second run's start is session 1
			h = append(append([]hstep{}, par...), hstep{Msg: m, Sess: 0, Tok: 's', From: 1})
			h = append(h, seqSteps(msgs[i:], 1)...)
			emit(h, "body-from-parallel-session")
		}
		// repeat message i
		h := append(append(seqSteps(msgs[:i+1], 0), hstep{Msg: m, Sess: 0, Tok: 's', From: -1}), seqSteps(msgs[i+1:], 0)...)
		if !isStartMsg(m) {
			emit(h, "repeated-message")
		}
	}
	// finished token reused
	h := append(seqSteps(msgs, 0), seqSteps(msgs[1:], 0)...)
	emit(h, "finished-token-reused")
}

// genCrossProtocol: a token of one protocol presented to another protocol's messages.
func genCrossProtocol(emit func(h []hstep, meta string)) {
	names := []string{"DI", "TO0", "TO1", "TO2"}
	for _, a := range names {
		for _, b := range names {
			if a == b {
				continue
			}
			for k := 1; k < len(honestSeq[b]); k++ {
				// session 0: protocol a started; session 1: protocol b up to k; message k of b with a's token
				h := seqSteps(honestSeq[a][:1], 0)
				h = append(h, seqSteps(honestSeq[b][:k], 1)...)
				h = append(h, hstep{Msg: honestSeq[b][k], Sess: 0, Tok: 's', From: 1})
				h = append(h, seqSteps(honestSeq[a][1:], 0)...) // a's token afterwards
				h = append(h, seqSteps(honestSeq[b][k:], 1)...) // b goes on undisturbed
				emit(h, "foreign-protocol-token")
			}
		}
	}
}

var alphabet = []int{10, 12, 20, 22, 30, 32, 60, 62, 64, 66, 68, 70, 255, 11, 61, 67, 40, 100, 254, 65}

// genRandom: interleaved sessions, mostly following their protocol, with random deviations.
func genRandom(c *core.Ctx, n int) []hstep {
	r := c.Rng
	type ls struct {
		name string
		pos  int
	}
	var sessions []ls
	var h []hstep
	names := []string{"DI", "TO0", "TO1", "TO2", "TO2", "TO2"}
	for len(h) < n {
		if len(sessions) == 0 || r.Intn(6) == 0 {
			nm := names[r.Intn(len(names))]
			st := hstep{Msg: honestSeq[nm][0], Sess: len(sessions), Tok: 's', From: -1}
			if r.Intn(12) == 0 {
				fs := raw.Faults(st.Msg)
				st.Fault = fs[r.Intn(len(fs))]
			}
			h = append(h, st)
			sessions = append(sessions, ls{nm, 1})
			continue
		}
		si := r.Intn(len(sessions))
		s := &sessions[si]
		seq := honestSeq[s.name]
		st := hstep{Sess: si, Tok: 's', From: -1}
		switch x := r.Intn(20); {
		case x < 12 && s.pos < len(seq): // next message in order
			st.Msg = seq[s.pos]
			s.pos++
		case x < 14: // some message of the protocol, out of order
			st.Msg = seq[r.Intn(len(seq))]
		case x < 15:
			st.Msg = alphabet[r.Intn(len(alphabet))]
		case x < 16 && s.pos < len(seq): // faulty next message
			st.Msg = seq[s.pos]
			fs := raw.Faults(st.Msg)
			st.Fault = fs[r.Intn(len(fs))]
		case x < 17 && s.pos < len(seq): // bad token
			st.Msg = seq[s.pos]
			tf := tokForms[r.Intn(len(tokForms))]
			st.Tok, st.Variant = tf.tok, tf.v
		case x < 18 && s.pos < len(seq) && len(sessions) > 1: // other session's token or body
			st.Msg = seq[s.pos]
			o := r.Intn(len(sessions))
			if r.Intn(2) == 0 {
				st.From = o
			} else {
				st.Sess, st.From = o, si
			}
		case x < 19:
			st.Msg = 255
		default:
			if s.pos < len(seq) {
				st.Msg = seq[s.pos]
				s.pos++
			} else {
				st.Msg = seq[len(seq)-1]
			}
		}
		if isStartMsg(st.Msg) { // a start message opens a new logical session
			sessions = append(sessions, ls{map[int]string{10: "DI", 20: "TO0", 30: "TO1", 60: "TO2"}[st.Msg], 1})
		}
		h = append(h, st)
	}
	return h
}

// ---- runners ----

func srvRule(extra string) string {
	return "cases = request histories sent by a hand-built client (internal/raw) to the real http.Handler + responders + SQLite of a deployment per key " +
		"type: honest runs; every fault of the driver's catalogue at every position followed by the rest of the run on the same token; every " +
		"token form (none, forged, 4 damaged forms, other session's, other protocol's, finished, errored) at every position; dropped, repeated, " +
		"replayed-from-parallel-session messages; client error messages; random interleavings of several sessions. Each history is also run " +
		"through the extracted abstract server machine (Fdo/Server.v) on the facts the driver established by construction; compared per step: " +
		"response message type and persistent effects (voucher stored, blob stored, module invoked, voucher replaced). Implementation-side " +
		"monitors re-check the statements without the model. non-trivial = history executed; distinct = distinct request line. " + extra
}

// RunC08: server effects happen only through in-order, session-bound message sequences.
func RunC08(c *core.Ctx) {
	registerServerKinds(c)
	defer closeSrvEnvs()
	c.Rep.Rule = srvRule("")
	c.Trivial = func(o core.Obs) bool { return !strings.HasPrefix(o.Impl, "ok") }
	cfgs := srvConfigs(c)
	for ci, cf := range cfgs {
		if _, err := srvEnv(cf.spec); err != nil {
			c.Note("env %s: %v", cf.spec.Name, err)
			continue
		}
		emit := func(h []hstep, meta string) { doHist(c, cf, h, meta, nil) }
		for _, name := range []string{"DI", "TO0", "TO1", "TO2"} {
			if c.Quick() && ci > 0 && name != "TO2" {
				continue
			}
			genSystematic(name, emit)
		}
		if !c.Quick() || ci == 0 {
			genCrossProtocol(emit)
		}
		n := 120
		if !c.Quick() {
			n = 450 // (nine configurations; 1500 each took more than 45 minutes)
		}
		for i := 0; i < n; i++ {
			doHist(c, cf, genRandom(c, 4+c.Rng.Intn(14)), "random-interleaving", nil)
		}
		if !c.Quick() || ci == 0 {
			hangupProbe(c, cf.spec)
			lockedProbe(c, cf.spec)
		}
	}
}
