package props

import (
	"bytes"
	"context"
	"fmt"
	"io"
	"net/http"
	"strconv"
	"strings"
	"sync"
	"time"

	fdo "github.com/fido-device-onboard/go-fdo"
	"github.com/fido-device-onboard/go-fdo/cbor"
	fdohttp "github.com/fido-device-onboard/go-fdo/http"
	"github.com/fido-device-onboard/go-fdo/kex"
	"github.com/fido-device-onboard/go-fdo/protocol"

	"verifharness/internal/core"
	"verifharness/internal/env"
)

// The device side of C05: after ProveDevice every reply the device acts on must have been decrypted and authenticated
// under the session keys — whatever the HTTP framing of the reply (Content-Length or chunked, empty, oversized claim) and
// whatever the transport's size limit setting. A man in the middle replaces ONE tunnelled reply (65, 67, 69, 71) by a
// well-formed PLAINTEXT message of the expected type, by the honest ciphertext with one bit flipped, or by an empty body;
// the library's fdo.TO2 must fail, and after the altered reply the device must send nothing but an error message.

type tdFramer struct {
	rt      *env.HookRT
	mu      sync.Mutex
	n       int // index of the exchange (0-based)
	at      int // exchange whose reply is altered
	alter   func(respType int, body []byte) []byte
	chunked bool
	after   []int // request types seen after the altered reply
	hit     bool
	hitType int
}

func (f *tdFramer) RoundTrip(req *http.Request) (*http.Response, error) {
	parts := strings.Split(req.URL.Path, "/")
	mt, _ := strconv.Atoi(parts[len(parts)-1])
	f.mu.Lock()
	i := f.n
	f.n++
	if f.hit {
		f.after = append(f.after, mt)
	}
	f.mu.Unlock()
	resp, err := f.rt.RoundTrip(req)
	if err != nil || i != f.at {
		return resp, err
	}
	body, _ := io.ReadAll(resp.Body)
	_ = resp.Body.Close()
	rt, _ := strconv.Atoi(strings.TrimSpace(resp.Header.Get("Message-Type")))
	nb := f.alter(rt, body)
	f.mu.Lock()
	f.hit, f.hitType = true, rt
	f.mu.Unlock()
	resp.Body = io.NopCloser(bytes.NewReader(nb))
	if f.chunked {
		resp.ContentLength = -1
		resp.Header.Del("Content-Length")
		resp.TransferEncoding = []string{"chunked"}
	} else {
		resp.ContentLength = int64(len(nb))
		resp.Header.Set("Content-Length", strconv.Itoa(len(nb)))
	}
	return resp, nil
}

// tdPlain: a well-formed plaintext message of the given reply type (what an attacker without the keys can always build).
func tdPlain(respType int) []byte {
	var v any
	switch respType {
	case 65: // SetupDevice is a COSE_Sign1: the attacker has no owner key, so an unsigned shell
		v = []any{[]byte{}, map[int]any{}, []byte{0x80}, []byte{}}
	case 67:
		v = []any{nil}
	case 69:
		v = []any{false, false, []any{}}
	case 71:
		v = []any{make([]byte, 16)}
	default:
		v = []any{}
	}
	b, _ := cbor.Marshal(v)
	return b
}

func runC05Device(c *core.Ctx) {
	defer closeSrvEnvs()
	cfgs := []srvCfg{
		{env.P256, kex.ECDH256Suite, kex.A128GcmCipher, false},
		{env.RSA2048, kex.DHKEXid14Suite, kex.CoseAes128CbcCipher, false},
	}
	if !c.Quick() {
		cfgs = append(cfgs, srvCfg{env.P384, kex.ECDH384Suite, kex.A256GcmCipher, false}, srvCfg{env.RSA2048, kex.ASYMKEX2048Suite, kex.CoseAes128CtrCipher, false},
			srvCfg{env.P256, kex.ECDH256Suite, kex.CoseAes256CtrCipher, true})
	}
	limits := []int64{0, -1, 1 << 20}
	alters := []string{"plaintext", "bitflip", "empty", "cut"}
	for _, cf := range cfgs {
		e, err := srvEnv(cf.spec)
		if err != nil {
			c.Note("env %s: %v", cf.spec.Name, err)
			continue
		}
		e.Reuse = cf.reuse
		ctx, cancel := context.WithTimeout(context.Background(), 5*time.Minute)
		run := func(at int, alter string, limit int64, chunked bool) (terr error, f *tdFramer, ok bool) {
			dev, err := e.NewDevice(ctx, protocol.X509KeyEnc)
			if err != nil {
				c.Note("tunnel device side: %v", err)
				return nil, nil, false
			}
			f = &tdFramer{rt: e.RT, at: at, chunked: chunked}
			f.alter = func(rt int, body []byte) []byte {
				switch alter {
				case "plaintext":
					return tdPlain(rt)
				case "bitflip":
					nb := bytes.Clone(body)
					if len(nb) > 0 {
						nb[len(nb)/2] ^= 0x10
					}
					return nb
				case "empty":
					return nil
				case "cut":
					if len(body) > 0 {
						return bytes.Clone(body[:len(body)-1])
					}
				}
				return body
			}
			tr := &fdohttp.Transport{BaseURL: "http://fdo.test", Client: &http.Client{Transport: f}, MaxContentLength: limit}
			tctx, tcancel := context.WithTimeout(ctx, 20*time.Second)
			defer tcancel()
			tcfg := dev.TO2Config(cf.kex, cf.cipher)
			tcfg.AllowCredentialReuse = cf.reuse
			_, terr = fdo.TO2(tctx, tr, nil, tcfg)
			return terr, f, true
		}
		// the honest run tells which exchanges carry tunnelled replies
		terr, f0, ok := run(-1, "", 0, false)
		if !ok || terr != nil {
			c.Fail("harness:tunnel-device-honest", fmt.Sprint(terr), "tunnel.device", core.Params{"cfg": cfgName(cf)}, core.Obs{})
			cancel()
			continue
		}
		total := f0.n
		// exchanges 0..2 are 60/62/64 with one entry in the voucher: the reply to 64 is the first tunnelled one
		for at := 2; at < total; at++ {
			for _, alter := range alters {
				for _, limit := range limits {
					for _, chunked := range []bool{false, true} {
						if c.Quick() && alter != "plaintext" && (limit == 1<<20 || (chunked && limit == 0)) {
							continue
						}
						terr, f, ok := run(at, alter, limit, chunked)
						if !ok {
							continue
						}
						c.Rep.Evaluations++
						p := core.Params{"cfg": cfgName(cf), "exchange": fmt.Sprint(at), "alter": alter, "limit": fmt.Sprint(limit), "chunked": fmt.Sprint(chunked)}
						went := ""
						for _, m := range f.after {
							if m != 255 {
								went += fmt.Sprint(m, " ")
							}
						}
						outcome := "refused"
						switch {
						case !f.hit:
							outcome = "position-not-reached"
						case went != "" || (terr == nil && f.hitType != 71):
							outcome = "ACCEPTED"
							c.Fail(fmt.Sprintf("device-accepted-unauthenticated-reply:%d:%s", f.hitType, alter),
								fmt.Sprintf("%s: reply %d replaced (%s, chunked=%v, MaxContentLength=%d): TO2 error=%v, the device went on with %s", cfgName(cf), f.hitType, alter, chunked, limit, terr, went),
								"tunnel.device", p, core.Obs{Impl: "accepted"})
						case terr == nil:
							outcome = "ACCEPTED-final"
							c.Fail(fmt.Sprintf("device-accepted-unauthenticated-reply:%d:%s", f.hitType, alter),
								fmt.Sprintf("%s: Done2 replaced (%s, chunked=%v, MaxContentLength=%d) and TO2 reported success", cfgName(cf), alter, chunked, limit), "tunnel.device", p, core.Obs{Impl: "accepted"})
						}
						c.Count("tunnel_device", fmt.Sprintf("%d:%s:chunked=%v:limit=%d:%s", f.hitType, alter, chunked, limit, outcome))
					}
				}
			}
		}
		e.Reuse = false
		cancel()
	}
}
