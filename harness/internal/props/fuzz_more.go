package props

// C10, three further families of peer input (hooked into fzChild after the main server/client sweeps of a configuration):
//
//	(a) tokenSweep: Authorization tokens that ARE valid base64 text, of every decoded length 0..64, against the
//	    SQLite-backed token store (which slices the decoded token into session id and MAC);
//	(b) devmodSweep: hand-built devmod service info at the first TO2.DeviceServiceInfo whose module list is inconsistent
//	    (nummodules against the [start, len, names...] chunks, over one or several 68 messages);
//	(c) kexSrv / kexCli: key exchange parameters damaged inside their signed container and re-signed, so that the damage
//	    reaches the key exchange code: xB in the EAT of 64 (server), xA in the payload of 61 (client).

import (
	"bytes"
	"crypto"
	"encoding/base64"
	"fmt"
	"io"
	mrand "math/rand"
	"net/http"
	"net/http/httptest"
	"os"
	"strconv"
	"strings"
	"time"

	"github.com/fido-device-onboard/go-fdo/cbor"
	"github.com/fido-device-onboard/go-fdo/kex"
	"github.com/fido-device-onboard/go-fdo/protocol"

	"verifharness/internal/core"
	"verifharness/internal/env"
	"verifharness/internal/raw"
)

const fzMoreRule = " further families (after the sweeps of each configuration): (t) Authorization = 'Bearer <token>' where the token is VALID base64 text of every decoded " +
	"length 0..64 (contents: random bytes, bytes whose text uses the alphabet's last two characters, and the prefix of a REAL session token of the deployment, padded beyond its end; " +
	"encodings: base64url and standard alphabet, each with and without padding) with message types 12, 22, 32, 62, 64, 66, 68, 70 and 255 and a well-formed (stale) body of that type, " +
	"against the SQLite-backed handler: no panic, reply within 5 s, allocation in proportion, reply = error message 255 (for type 255: empty HTTP 200), and the real session still answers afterwards; " +
	"(m) at the FIRST TO2.DeviceServiceInfo of an honest session, hand-built devmod key/values: devmod:nummodules n (0,1,2,3,255,65535 and the refused 65536, 2^32, 2^63, 2^64-1, -1, text, null) " +
	"followed in the same message, in the same key/value run, or in a following 68 message (IsMoreServiceInfo true or false) by devmod:modules chunks [start, len, names...] for start and len " +
	"over small values and 255, 65535, 65536, 2^32, 2^63-1, 2^63, 2^64-1, -1, -2^63, -2^64 and 0..3 names (len matching or not): single chunks, pairs of chunks (repeated start, overlap, beyond the " +
	"announced number), chunks before nummodules (with and without the descriptor entries), nummodules sent twice; per message: no panic, reply within 5 s, allocation in proportion, reply 69 or error 255; " +
	"(k) key exchange parameters damaged INSIDE their signed container and re-signed so that the signature verifies: server side xB in the EAT FDO claim of 64 (device key), client side xA in the " +
	"payload of 61 (owner key): every truncation length, one byte appended, CBOR null, and for ECDH every 2-byte length prefix set to 0 / len-1 / len+1 / 0xffff; a control (re-signed, undamaged) must " +
	"be accepted. Server: no panic/hang, reply 255 (65 only where the damaged value is still a valid parameter: Diffie-Hellman integers, ECDH trailing bytes); client: fdo.TO2 returns an error, " +
	"never success (except ECDH trailing bytes, which are not read). Quick tier: (t) and (m) in the first configuration only; (t) every type for the real-prefix tokens in base64url, three resp. one " +
	"type in rotation for the others; (m) a fixed selection that keeps every class and every extreme value (the thorough tier runs the full products in the first configuration); (k) every length " +
	"for ECDH, and for the unstructured parameters (Diffie-Hellman integer, random string, OAEP ciphertext) the 16 lengths at either end and every 8th between." + kexUnequalRule

// fzMore runs the three families for one configuration. It is called while the client-side wrapper is still installed.
func fzMore(f *fzRun, srv *fzSrv, cli *fzCli, first bool) {
	c := f.c
	if os.Getenv("C10_NO_MORE") != "" { // timing comparisons: the run as it was before these families
		cli.uninstall()
		return
	}
	f.risky = false
	t0, n0 := time.Now(), f.nCase
	var parts []string
	lap := func(name string, fn func()) {
		t, n := time.Now(), f.nCase
		fn()
		parts = append(parts, fmt.Sprintf("%s %d in %.1fs", name, f.nCase-n, time.Since(t).Seconds()))
	}
	// the client side first: its wrapper is installed
	f.risky = true
	lap("kex-client", cli.kexCli)
	f.risky = false
	cli.uninstall()
	if e, err := srvEnv(srv.cf.spec); err == nil && e != srv.e { // a hang replaced the deployment
		srv.e = e
		srv.e.Reuse = srv.cf.reuse
		if err := srv.enrol(); err != nil {
			c.Fail("harness:enrol", err.Error(), "fuzz.server", core.Params{"cfg": cfgName(srv.cf)}, core.Obs{})
			return
		}
	}
	srv.e.Reuse = srv.cf.reuse
	if first || !c.Quick() {
		lap("tokens", srv.tokenSweep)
		lap("devmod", func() { srv.devmodSweep(first && !c.Quick()) })
	}
	lap("kex-server", srv.kexSrv)
	if f.nCase >= f.from {
		c.Note("further families %s: %d cases in %.1fs (%s)", cfgName(srv.cf), f.nCase-max(n0, f.from-1), time.Since(t0).Seconds(), strings.Join(parts, ", "))
	}
}

func fzMoreOnly() bool { return os.Getenv("C10_MORE_ONLY") != "" }

// ---------------------------------------------------------------------------------------------------------------------
// measured requests and the monitor (as in fzSrv.one, for requests that are not "the honest run-up plus one message")
// ---------------------------------------------------------------------------------------------------------------------

// serve hands one request to the handler under the watchdog.
func (s *fzSrv) serve(msg int, body []byte, hdr http.Header) (*http.Response, fzMeas) {
	var resp *http.Response
	meas := fzMeasure(5*time.Second, func() {
		req := httptest.NewRequest(http.MethodPost, "/fdo/101/msg/"+strconv.Itoa(msg), bytes.NewReader(body))
		req.ContentLength = int64(len(body))
		for k, v := range hdr {
			req.Header[k] = v
		}
		rr := httptest.NewRecorder()
		s.e.RT.H.ServeHTTP(rr, req)
		resp = rr.Result()
	})
	if meas.hang || meas.panic != "" || resp == nil {
		code := 598 // hang
		if meas.panic != "" {
			code = 599
		}
		resp = &http.Response{StatusCode: code, Header: http.Header{}, Body: io.NopCloser(bytes.NewReader(nil))}
	}
	return resp, meas
}

type fzShot struct {
	r           raw.Result
	meas        fzMeas
	plain, wire []byte
}

// shoot sends message msg of session sess through the raw driver with the plaintext produced by edit (nil: honest).
func (s *fzSrv) shoot(sess, msg int, edit func(honest []byte) []byte) (sh fzShot) {
	s.e.RT.Reset()
	s.d.Mutate = func(_ int, plain []byte) []byte {
		if edit != nil {
			plain = edit(plain)
		}
		sh.plain = plain
		return plain
	}
	s.d.Send = func(m int, body []byte, hdr http.Header) *http.Response {
		sh.wire = body
		resp, meas := s.serve(m, body, hdr)
		sh.meas = meas
		return resp
	}
	st := raw.Step{Msg: msg, Sess: sess, BodyFrom: -1}
	if sess < 0 {
		st.Tok = raw.TokNone
	}
	sh.r = s.d.Do(st)
	s.d.Mutate, s.d.Send = nil, nil
	return sh
}

func fzReplyClass(msg int, r raw.Result) string {
	var em protocol.ErrorMessage
	switch {
	case r.RespType == 255:
		if (r.Status != http.StatusInternalServerError && r.Status != http.StatusOK) || cbor.Unmarshal(r.Body, &em) != nil {
			return "255-malformed"
		}
		return "255"
	case r.RespType == msg+1 && r.Status == http.StatusOK && msg != 255:
		return "successor"
	case r.RespType == -1 && len(r.Body) == 0:
		return fmt.Sprintf("http-%d-empty", r.Status)
	}
	return fmt.Sprintf("type-%d-http-%d", r.RespType, r.Status)
}

// verdict applies the monitor to one answered request: no panic, no hang, allocation in proportion, reply class among
// accept (space separated). where is the position part of the signatures; hist names the family's reply histogram.
func (s *fzSrv) verdict(where, hist, id, gen string, msg int, r raw.Result, meas fzMeas, sent []byte, wireLen int, accept string, extra core.Params) (class string) {
	c := s.c
	params := core.Params{"side": "server", "cfg": cfgName(s.cf), "pos": where, "msg": fmt.Sprint(msg), "mutator": gen, "sent": fzHexClip(sent), "sent_len": fmt.Sprint(wireLen),
		"seed": fmt.Sprint(c.Seed), "case": fmt.Sprint(s.nCase)}
	for k, v := range extra {
		params[k] = v
	}
	obs := core.Obs{Impl: fmt.Sprintf("status %d type %d alloc %d wall %s %s", r.Status, r.RespType, meas.alloc, meas.wall.Round(time.Microsecond), r.ErrStr), AllocB: meas.alloc, WallUs: meas.wall.Microseconds()}
	c.Count("srv_alloc", fzBucket(meas.alloc))
	s.sample(map[string]string{"kind": "fuzz.server", "case": fmt.Sprintf("%s: %s", id, fzHexClip(sent[:min(len(sent), 120)])), "impl": obs.Impl, "gen": gen})
	switch {
	case meas.panic != "":
		c.Count(hist, where+" -> panic")
		c.Fail("panic@server:"+where, id+": "+meas.panic, "fuzz.server", params, obs)
		return "panic"
	case meas.hang:
		c.Count(hist, where+" -> hang")
		c.Fail("hang@server:"+where, id+": no reply within 5 s", "fuzz.server", params, obs)
		s.replaceEnv()
		return "hang"
	}
	if lim := fzAllocLimit(wireLen, 0); meas.alloc > lim {
		sig := "alloc@server:" + where
		if strings.Contains(gen, "n=65535") && meas.alloc < 64<<20 {
			// the session announced the largest module count the library accepts: the stored list is decoded again for
			// every later message (a few hundred bytes per announced module); anything else, or more than that, is another matter
			sig += ":announced-65535-modules"
		}
		c.Fail(sig, fmt.Sprintf("%s: %d bytes allocated for a %d-byte request (limit %d)", id, meas.alloc, wireLen, lim), "fuzz.server", params, obs)
	}
	class = fzReplyClass(msg, r)
	c.Count(hist, where+" -> "+class)
	if r.RespType == 255 {
		c.Count("srv_error_http_status", strconv.Itoa(r.Status))
	}
	if !strings.Contains(" "+accept+" ", " "+class+" ") {
		rt := fmt.Sprint(r.RespType)
		if r.RespType < 0 {
			rt = fmt.Sprintf("http%d", r.Status)
		}
		c.Fail(fmt.Sprintf("bad-reply@server:%s:%s", where, rt), fmt.Sprintf("%s: reply class %s (acceptable: %s) body %s", id, class, accept, fzHexClip(r.Body[:min(len(r.Body), 200)])), "fuzz.server", params, obs)
	}
	return class
}

// ---------------------------------------------------------------------------------------------------------------------
// (a) well-formed tokens of every length
// ---------------------------------------------------------------------------------------------------------------------

var fzTokenTypes = []int{12, 22, 32, 62, 64, 66, 68, 70, 255}

// staleBodies runs honest sessions of every protocol and keeps the request bodies as sent: well-formed bodies for the
// token sweep, so that a responder that decodes the body before it looks at the session gets that far.
func (s *fzSrv) staleBodies() map[int][]byte {
	out := map[int][]byte{}
	s.d.Send = func(msg int, body []byte, hdr http.Header) *http.Response {
		out[msg] = bytes.Clone(body)
		return s.e.RT.Do(msg, body, hdr)
	}
	defer func() { s.d.Send = nil }()
	for _, seq := range [][]int{{10, 12}, {20, 22}, {30, 32}, {60, 62, 64, 66, 68}} {
		sess := -1
		for _, m := range seq {
			if r := fzStep(s.d, &sess, m); r.RespType != m+1 {
				break
			}
		}
		if seq[0] == 60 && sess >= 0 {
			fzStep(s.d, &sess, 255)
		}
	}
	s.e.RT.Reset()
	if out[66] != nil { // nobody without the keys can tell one encrypted body from another
		out[70] = out[66]
	}
	return out
}

func (s *fzSrv) tokenSweep() {
	c := s.c
	bodies := s.staleBodies()
	// a live session: the prefix family presents its session id with every length of MAC
	live := -1
	if r := fzStep(s.d, &live, 60); r.RespType != 61 {
		if err := s.enrol(); err == nil {
			live = -1
			r = fzStep(s.d, &live, 60)
		}
		if r.RespType != 61 {
			c.Fail("harness:token-sweep-start", fmt.Sprintf("honest 60 answered %d %s %s", r.RespType, r.ErrStr, r.Err), "fuzz.server", core.Params{"cfg": cfgName(s.cf)}, core.Obs{})
			return
		}
	}
	realTok := s.d.Token(live)
	real, err := base64.RawURLEncoding.DecodeString(realTok)
	if err != nil || len(real) == 0 || len(real) > 64 {
		c.Note("token sweep: the deployment's tokens are not base64url of at most 64 bytes (%d bytes, %v): the prefix family uses random bytes", len(real), err)
		real = make([]byte, 48)
		s.c.Rng.Read(real)
	}
	padded := append(bytes.Clone(real), bytes.Repeat([]byte{0xa5}, 64-len(real))...)
	encs := []struct {
		name string
		e    *base64.Encoding
	}{{"rawurl", base64.RawURLEncoding}, {"url", base64.URLEncoding}, {"rawstd", base64.RawStdEncoding}, {"std", base64.StdEncoding}}
	rot := 0
	hi := bytes.Repeat([]byte{0xfb, 0xff, 0xfe}, 22) // text made of the alphabet's characters 62 and 63 ("-_" / "+/")
	for n := 0; n <= 64; n++ {
		rnd := make([]byte, n)
		c.Rng.Read(rnd)
		for _, ct := range []struct {
			name string
			b    []byte
		}{{"random", rnd}, {"high", hi[:n]}, {"real-prefix", padded[:n]}} {
			if ct.name == "real-prefix" && n == len(real) { // that IS the session's token
				continue
			}
			for _, en := range encs {
				if n%3 == 0 && (en.name == "url" || en.name == "std") { // no padding at this length: same text as the raw variant
					continue
				}
				tok := en.e.EncodeToString(ct.b)
				types := fzTokenTypes
				if c.Quick() {
					// every type for the tokens that get furthest (they decode, and carry a real session id); three, resp. one of
					// the types in rotation for the others (the thorough tier presents every token with every type)
					switch {
					case en.name == "rawurl" && ct.name == "real-prefix":
					case en.name == "rawurl":
						types = []int{types[rot%9], types[(rot+3)%9], types[(rot+6)%9]}
						rot++
					default:
						types = types[rot%9 : rot%9+1]
						rot++
					}
				}
				for _, mt := range types {
					s.tokenCase(mt, bodies[mt], tok, fmt.Sprintf("token:%s:%s:%d", ct.name, en.name, n))
				}
			}
		}
	}
	// the live session is still there: none of its look-alikes was taken for it (and invalidated it)
	if run, done := s.begin(fmt.Sprintf("server %s pos token:62 token:live-session-after-sweep", cfgName(s.cf)), false); run {
		sh := s.shoot(live, 62, nil)
		s.verdict("token:live", "tok_reply", "the session whose token prefixes were presented, continued with an honest 62", "token:live-session-after-sweep", 62, sh.r, sh.meas, sh.wire, len(sh.wire), "successor",
			core.Params{"token": realTok})
		done()
	}
	fzStep(s.d, &live, 255)
}

func (s *fzSrv) tokenCase(mt int, body []byte, tok, gen string) {
	where := fmt.Sprintf("token:%d", mt)
	id := fmt.Sprintf("server %s pos %s %s", cfgName(s.cf), where, gen)
	run, done := s.begin(id, false)
	if !run {
		return
	}
	defer done()
	if body == nil {
		body = []byte{0x80}
	}
	hdr := http.Header{}
	hdr.Set("Content-Type", "application/cbor")
	hdr.Set("Authorization", "Bearer "+tok)
	resp, meas := s.serve(mt, body, hdr)
	r := raw.Result{RespType: -1, Status: resp.StatusCode}
	r.Body, _ = io.ReadAll(resp.Body)
	if v := resp.Header.Get("Message-Type"); v != "" {
		r.RespType, _ = strconv.Atoi(strings.TrimSpace(v))
	}
	var em protocol.ErrorMessage
	if r.RespType == 255 && cbor.Unmarshal(r.Body, &em) == nil {
		r.ErrStr = fmt.Sprintf("%d: %s", em.Code, em.ErrString)
	}
	s.distinct("tok:"+strconv.Itoa(mt), []byte(tok))
	s.c.Count("srv_position", where+" "+s.cf.spec.Name)
	s.c.Count("srv_mutator", gen[:strings.LastIndexByte(gen, ':')])
	accept := "255"
	if mt == 255 { // a client error message is consumed without a reply message
		accept = "http-200-empty"
	}
	s.verdict(where, "tok_reply", id, gen, mt, r, meas, []byte(tok), len(body), accept, core.Params{"authorization": "Bearer " + tok, "body": fzHexClip(body)})
}

// ---------------------------------------------------------------------------------------------------------------------
// (b) inconsistent devmod module lists at the first TO2.DeviceServiceInfo
// ---------------------------------------------------------------------------------------------------------------------

type dmNum struct {
	name string
	b    []byte // the CBOR item
}

func dmU(v uint64) dmNum   { return dmNum{strconv.FormatUint(v, 10), head(0, v)} }
func dmNeg(v uint64) dmNum { return dmNum{"-" + strconv.FormatUint(v, 10), head(1, v-1)} } // -v, v >= 1

var (
	dmMinInt64  = dmNum{"-2^63", head(1, 1<<63-1)}
	dmBelowInt  = dmNum{"-2^64", head(1, 1<<64-1)}
	dmSmall     = []dmNum{dmU(0), dmU(1), dmU(2), dmU(3)}
	dmStarts    = append(append([]dmNum{}, dmSmall...), dmU(255), dmU(65535), dmU(65536), dmU(1<<32), dmU(1<<63-1), dmU(1<<63), dmU(1<<64-1), dmNeg(1), dmMinInt64, dmBelowInt)
	dmLens      = append(append([]dmNum{}, dmSmall...), dmU(65535), dmU(1<<32), dmU(1<<63-1), dmNeg(1), dmMinInt64)
	dmCounts    = append(append([]dmNum{}, dmSmall...), dmU(255), dmU(65535))
	dmBadCounts = []dmNum{dmU(65536), dmU(1 << 32), dmU(1 << 63), dmU(1<<64 - 1), dmNeg(1), {"text", []byte{0x61, '2'}}, {"null", []byte{0xf6}}}
)

func (n dmNum) small() bool { return len(n.b) == 1 && n.b[0] <= 3 }

type dmMsg struct {
	more bool
	desc bool     // the honest descriptor entries (active, os, arch, ...) go first
	kvs  [][]byte // encoded [key, bstr value] entries
}

type dmSeq struct {
	class, name string
	msgs        []dmMsg
}

func dmKV(key string, val []byte) []byte {
	var b bytes.Buffer
	b.WriteByte(0x82)
	b.Write(head(3, uint64(len(key))))
	b.WriteString(key)
	b.Write(head(2, uint64(len(val))))
	b.Write(val)
	return b.Bytes()
}

func dmChunk(start, ln dmNum, names int) []byte {
	var b bytes.Buffer
	b.Write(head(4, uint64(2+names)))
	b.Write(start.b)
	b.Write(ln.b)
	for i := 0; i < names; i++ {
		nm := fmt.Sprintf("mod%d", i)
		b.Write(head(3, uint64(len(nm))))
		b.WriteString(nm)
	}
	return b.Bytes()
}

// dmBuild assembles a sequence of 68 messages from nummodules / modules entries.
type dmBuild struct {
	parts []string
	msgs  []dmMsg
	cur   dmMsg
}

func newDmBuild(desc bool) *dmBuild {
	b := &dmBuild{cur: dmMsg{desc: desc}}
	if !desc {
		b.parts = append(b.parts, "bare")
	}
	return b
}

func (b *dmBuild) num(n dmNum) *dmBuild {
	b.cur.kvs = append(b.cur.kvs, dmKV("devmod:nummodules", n.b))
	b.parts = append(b.parts, "n="+n.name)
	return b
}

func (b *dmBuild) chunk(start, ln dmNum, names int) *dmBuild {
	b.cur.kvs = append(b.cur.kvs, dmKV("devmod:modules", dmChunk(start, ln, names)))
	b.parts = append(b.parts, fmt.Sprintf("[%s,%s,%dx]", start.name, ln.name, names))
	return b
}

// sep puts another entry between two entries of the same key (adjacent entries of one key are chunks of ONE value).
func (b *dmBuild) sep() *dmBuild {
	b.cur.kvs = append(b.cur.kvs, dmKV("devmod:active", []byte{0xf5}))
	b.parts = append(b.parts, "|")
	return b
}

// next ends the current 68 message.
func (b *dmBuild) next(more bool) *dmBuild {
	b.cur.more = more
	b.msgs = append(b.msgs, b.cur)
	b.cur = dmMsg{}
	b.parts = append(b.parts, map[bool]string{true: "/more/", false: "/68/"}[more])
	return b
}

// place puts the boundary between two parts of a sequence: 0 the same key/value run, 1 the same message, 2 and 3 the
// following message (IsMoreServiceInfo true / false).
func (b *dmBuild) place(p int) *dmBuild {
	switch p % 4 {
	case 1:
		return b.sep()
	case 2:
		return b.next(true)
	case 3:
		return b.next(false)
	}
	return b
}

func (b *dmBuild) done(class string) dmSeq {
	return dmSeq{class: class, name: strings.Join(b.parts, ""), msgs: append(b.msgs, b.cur)}
}

// dmSequences lists the module-list sequences: the full products, or (quick tier, and all but the first configuration) a
// fixed selection that keeps every class and every extreme value.
func dmSequences(full bool) (out []dmSeq) {
	// single chunk after nummodules
	for _, n := range dmCounts {
		for _, st := range dmStarts {
			for _, ln := range dmLens {
				for k := 0; k <= 3; k++ {
					match := len(ln.b) == 1 && int(ln.b[0]) == k
					sel := full
					switch {
					case n.small() && st.small() && ln.small() && match && st.b[0] <= n.b[0]+1 && ln.b[0] <= n.b[0]+1: // below, at and one beyond the announced number
						sel = true
					case n.name == "2" && st.name == "0" && ln.small(): // names against len
						sel = true
					case n.name == "2" && ln.name == "1" && k == 1: // every start value
						sel = true
					case n.name == "2" && st.name == "0" && k == 1: // every len value
						sel = true
					case !n.small() && match && (st.name == "0" || st.name == n.name || st.name == "65535") && (k == 0 || k == 1):
						sel = true
					}
					if sel {
						out = append(out, newDmBuild(true).num(n).chunk(st, ln, k).done("single"))
					}
				}
			}
		}
	}
	for _, n := range dmBadCounts {
		out = append(out, newDmBuild(true).num(n).chunk(dmU(0), dmU(1), 1).done("bad-count"))
		if full {
			out = append(out, newDmBuild(true).num(n).next(false).chunk(dmU(0), dmU(1), 1).done("bad-count"))
		}
	}
	// two chunks: repeated start, overlap, gaps, beyond the announced number; in one run, one message, two messages
	i := 0
	for _, n := range []dmNum{dmU(2), dmU(3)} {
		if !full && n.name != "2" {
			continue
		}
		top := uint64(3)
		if !full {
			top = 2
		}
		for s1 := uint64(0); s1 <= top; s1++ {
			for l1 := 0; l1 <= 2; l1++ {
				if !full && (s1 > 1 || l1 == 0) { // quick: a first chunk that fills something, at 0 or 1
					continue
				}
				for s2 := uint64(0); s2 <= top; s2++ {
					for l2 := 0; l2 <= 2; l2++ {
						for p := 0; p < 4; p++ {
							if !full && p != i%4 {
								continue
							}
							out = append(out, newDmBuild(true).num(n).chunk(dmU(s1), dmU(uint64(l1)), l1).place(p).chunk(dmU(s2), dmU(uint64(l2)), l2).done("pair"))
						}
						i++
					}
				}
			}
		}
	}
	// modules before nummodules
	for _, desc := range []bool{true, false} {
		if !desc && !full {
			continue
		}
		for st := uint64(0); st <= 1; st++ {
			for l := 0; l <= 2; l++ {
				for _, n := range []dmNum{dmU(0), dmU(2)} {
					for again := 0; again < 2; again++ {
						if !full && again != (int(st)+l)%2 {
							continue
						}
						b := newDmBuild(desc).chunk(dmU(st), dmU(uint64(l)), l).place(1 + (int(st)+l+again)%3).num(n)
						if again == 1 {
							b.chunk(dmU(st), dmU(uint64(l)), l)
						}
						out = append(out, b.done("modules-first"))
					}
				}
			}
		}
	}
	// nothing but modules, never a nummodules
	out = append(out, newDmBuild(true).chunk(dmU(0), dmU(0), 0).done("modules-only"), newDmBuild(true).chunk(dmU(0), dmU(1), 1).done("modules-only"),
		newDmBuild(false).chunk(dmU(0), dmU(0), 0).next(true).chunk(dmU(0), dmU(0), 0).next(false).done("modules-only"))
	// nummodules twice
	counts := []dmNum{dmU(0), dmU(1), dmU(3), dmU(65535)} // 65535 is the library's own cap: the stored list is re-decoded on every later 68 (D53)
	i = 0
	for _, n1 := range counts {
		for _, n2 := range counts {
			for k1 := 0; k1 <= 1; k1++ {
				for k2 := 0; k2 <= 1; k2++ {
					for p := 1; p < 4; p++ {
						if !full && (p != 1+i%3 || (2*k1+k2) != i/4%4) {
							continue
						}
						out = append(out, newDmBuild(true).num(n1).chunk(dmU(0), dmU(uint64(k1)), k1).place(p).num(n2).chunk(dmU(0), dmU(uint64(k2)), k2).done("count-twice"))
					}
					i++
				}
			}
			// adjacent: the two numbers are chunks of one value
			out = append(out, newDmBuild(true).num(n1).num(n2).done("count-twice"))
		}
	}
	return out
}

// dmDescriptors extracts the entries of an honest first 68 that are not about the module list.
func dmDescriptors(honest []byte) (kvs [][]byte) {
	root, rest, ok := fzParse(honest, 0)
	if !ok || len(rest) != 0 || root.mt != 4 || len(root.kids) != 2 || root.kids[1].mt != 4 {
		return nil
	}
	for _, kv := range root.kids[1].kids {
		if kv.mt != 4 || len(kv.kids) != 2 {
			continue
		}
		if k := string(kv.kids[0].str); k == "devmod:nummodules" || k == "devmod:modules" {
			continue
		}
		kvs = append(kvs, kv.bytes())
	}
	return kvs
}

func (m dmMsg) encode(honest []byte) []byte {
	kvs := m.kvs
	if m.desc {
		kvs = append(dmDescriptors(honest), kvs...)
	}
	var b bytes.Buffer
	b.WriteByte(0x82)
	b.WriteByte(map[bool]byte{false: 0xf4, true: 0xf5}[m.more])
	b.Write(head(4, uint64(len(kvs))))
	for _, kv := range kvs {
		b.Write(kv)
	}
	return b.Bytes()
}

var fzPos68 = fzPos{"68", 68, []int{60, 62, 64, 66}}

func (s *fzSrv) devmodSweep(full bool) {
	for _, q := range dmSequences(full) {
		s.devmodCase(q)
	}
}

func (s *fzSrv) devmodCase(q dmSeq) {
	c := s.c
	where := "68:devmod"
	id := fmt.Sprintf("server %s pos %s %s %s", cfgName(s.cf), where, q.class, q.name)
	run, done := s.begin(id, false)
	if !run {
		return
	}
	defer done()
	sess, err := s.runUp(fzPos68)
	if err != nil {
		c.Fail("harness:run-up:68", err.Error(), "fuzz.server", core.Params{"cfg": cfgName(s.cf), "pos": where}, core.Obs{})
		return
	}
	c.Count("srv_position", where+" "+s.cf.spec.Name)
	c.Count("srv_mutator", "devmod:"+q.class)
	alive := true
	var all []byte
	for i, m := range q.msgs {
		sh := s.shoot(sess, 68, m.encode)
		if sh.r.Err != "" && sh.meas.panic == "" && !sh.meas.hang {
			c.Fail("harness:driver:68", sh.r.Err, "fuzz.server", core.Params{"cfg": cfgName(s.cf), "pos": where, "mutator": q.name}, core.Obs{})
			return
		}
		all = append(all, sh.plain...)
		class := s.verdict(where, "devmod_reply", fmt.Sprintf("%s (message %d of %d)", id, i+1, len(q.msgs)), "devmod:"+q.class+":"+q.name, 68, sh.r, sh.meas, sh.plain, len(sh.wire), "255 successor",
			core.Params{"layer": "plaintext (then encrypted under the session keys)", "message": fmt.Sprintf("%d/%d", i+1, len(q.msgs)), "sequence": q.name})
		c.Count("devmod_class", fmt.Sprintf("%s -> %s", q.class, class))
		if class == "hang" {
			return
		}
		if class != "successor" {
			alive = false
			break
		}
	}
	s.distinct("srv:68:devmod", all)
	if alive { // release the server-side module state
		s.d.Do(raw.Step{Msg: 255, Sess: sess, BodyFrom: -1})
	}
}

// ---------------------------------------------------------------------------------------------------------------------
// (c) key exchange parameters damaged inside the signed container
// ---------------------------------------------------------------------------------------------------------------------

type kexVar struct {
	name string
	f    func(x []byte) []byte // nil result: CBOR null instead of the byte string
	same bool                  // the receiver reads the same parameter out of it (trailing bytes)
	// dynamic: f works out same / must from the honest value it is applied to and leaves them in kexLastVerdict (kex_unequal.go)
	dynamic bool
}

// kexNominal is the length of a key exchange parameter as the library writes it (a Diffie-Hellman value may come out
// shorter once in 256 times: truncations beyond its end then leave it whole).
func kexNominal(suite kex.Suite, xA bool) int {
	switch suite {
	case kex.ECDH256Suite:
		return 2 + 32 + 2 + 32 + 2 + 16
	case kex.ECDH384Suite:
		return 2 + 48 + 2 + 48 + 2 + 48
	case kex.DHKEXid14Suite:
		return 256
	case kex.DHKEXid15Suite:
		return 384
	case kex.ASYMKEX2048Suite:
		if xA {
			return 32
		}
		return 256 // OAEP ciphertext under the owner key
	case kex.ASYMKEX3072Suite:
		if xA {
			return 96
		}
		return 384
	}
	return 64
}

// kexFields walks the three length-prefixed fields of an ECDH parameter: the offsets of the 2-byte prefixes.
func kexFields(x []byte) (offs []int, lens []int) {
	for o := 0; len(offs) < 3 && o+2 <= len(x); {
		l := int(x[o])<<8 | int(x[o+1])
		offs, lens = append(offs, o), append(lens, l)
		o += 2 + l
	}
	return offs, lens
}

func kexVariants(suite kex.Suite, xA, quick bool) (out []kexVar) {
	n := kexNominal(suite, xA)
	ecdh := suite == kex.ECDH256Suite || suite == kex.ECDH384Suite
	for k := 0; k < n; k++ {
		// an unstructured value (an integer, a random string, a ciphertext): the quick tier takes the lengths near both ends
		// and every 8th in between
		if quick && !ecdh && k > 16 && k < n-16 && k%8 != 0 {
			continue
		}
		out = append(out, kexVar{name: fmt.Sprintf("trunc:%d", k), f: func(x []byte) []byte { return bytes.Clone(x[:min(k, len(x))]) }})
	}
	out = append(out, kexVar{name: "append:1", same: ecdh, f: func(x []byte) []byte { return append(bytes.Clone(x), 0x00) }})
	out = append(out, kexVar{name: "null", f: func([]byte) []byte { return nil }})
	if ecdh {
		for fi := 0; fi < 3; fi++ {
			for _, v := range []string{"0", "len-1", "len+1", "ffff"} {
				out = append(out, kexVar{name: fmt.Sprintf("lenfield:%d:%s", fi, v), f: func(x []byte) []byte {
					x = bytes.Clone(x)
					offs, lens := kexFields(x)
					if fi >= len(offs) {
						return x[:len(x)/2]
					}
					nv := map[string]int{"0": 0, "len-1": lens[fi] - 1, "len+1": lens[fi] + 1, "ffff": 0xffff}[v]
					x[offs[fi]], x[offs[fi]+1] = byte(nv>>8), byte(nv)
					return x
				}})
			}
		}
	}
	return append(out, kexUnequalVariants(suite, quick)...)
}

// kexSet replaces a byte-string node by the variant's value; it reports whether that changed anything (a
// Diffie-Hellman value that came out a byte short is not changed by cutting it to the nominal length minus one).
func kexSet(n *fzNode, v kexVar) (changed bool) {
	old := append([]byte(nil), n.content()...)
	x := v.f(bytes.Clone(old))
	n.emb = nil
	if x == nil {
		n.rawOv = []byte{0xf6}
		return true
	}
	n.str = x
	return !bytes.Equal(old, x)
}

// sign1Payload returns the node of the embedded payload item of a (tagged) COSE_Sign1.
func sign1Payload(root *fzNode) *fzNode {
	s := root
	if s.mt == 6 && len(s.kids) == 1 {
		s = s.kids[0]
	}
	if s.mt != 4 || len(s.kids) != 4 || s.kids[2].mt != 2 {
		return nil
	}
	return s.kids[2].emb
}

// kexEdit applies a variant to the key exchange parameter that find locates in the payload of a COSE_Sign1 and re-signs
// the message.
func kexEdit(body []byte, v kexVar, find func(payload *fzNode) *fzNode, key crypto.Signer, pss bool) (out []byte, changed, ok bool) {
	root, rest, ok := fzParse(body, 0)
	if !ok || len(rest) != 0 {
		return nil, false, false
	}
	p := sign1Payload(root)
	if p == nil {
		return nil, false, false
	}
	x := find(p)
	if x == nil || x.mt != 2 {
		return nil, false, false
	}
	if v.f != nil {
		changed = kexSet(x, v)
	}
	out, ok = fzResign(key, pss, root.bytes())
	return out, changed, ok
}

func kexFindXB(p *fzNode) *fzNode {
	if p.mt != 5 {
		return nil
	}
	for i := 0; i+1 < len(p.kids); i += 2 {
		if k, v := p.kids[i], p.kids[i+1]; k.mt == 1 && k.arg == 256 && v.mt == 4 && len(v.kids) == 1 { // -257: [xB]
			return v.kids[0]
		}
	}
	return nil
}

func kexFindXA(p *fzNode) *fzNode {
	if p.mt != 4 || len(p.kids) != 8 { // ovhProof: [OVH, NumEntries, Hmac, Nonce, SigInfo, xA, HelloHash, MaxMsg]
		return nil
	}
	return p.kids[5]
}

var fzPos64 = fzPos{"64", 64, []int{60, 62}}

func (s *fzSrv) kexSrv() {
	c := s.c
	pss := s.cf.spec.Type == protocol.RsaPssKeyType
	applied, changed := false, false
	edit := func(v kexVar) func(h []byte) ([]byte, string) {
		applied, changed = false, false
		return func(h []byte) ([]byte, string) {
			if m, ch, ok := kexEdit(h, v, kexFindXB, s.dev.Key, pss); ok {
				applied, changed = true, ch
				return m, ""
			}
			return h, "kex:not-applied"
		}
	}
	// control: the re-signed honest message is accepted (the damaged ones below get as far as the key exchange)
	if rt := s.one(fzPos64, fzReq{kind: "kex:control+resign", plain: edit(kexVar{})}); rt != 65 && rt != -1 {
		c.Fail("harness:kex-control@server", fmt.Sprintf("%s: the re-signed honest 64 was answered with %d", cfgName(s.cf), rt), "fuzz.server", core.Params{"cfg": cfgName(s.cf)}, core.Obs{})
		return
	}
	strictAll := s.cf.kex == kex.ASYMKEX2048Suite || s.cf.kex == kex.ASYMKEX3072Suite // any other ciphertext fails to decrypt
	ecdh := s.cf.kex == kex.ECDH256Suite || s.cf.kex == kex.ECDH384Suite              // a truncated parameter lacks bytes its prefixes announce
	for _, v := range kexVariants(s.cf.kex, false, c.Quick()) {
		kind := "kex:" + v.name + "+resign"
		rt := s.one(fzPos64, fzReq{kind: kind, plain: edit(v)})
		if rt != -1 && !applied {
			c.Fail("harness:kex-edit@server", fmt.Sprintf("%s: no xB found in the honest 64 (%s)", cfgName(s.cf), kind), "fuzz.server", core.Params{"cfg": cfgName(s.cf)}, core.Obs{})
			return
		}
		c.Count("kex_reply", fmt.Sprintf("server %s %s -> %d", s.cf.kex, strings.SplitN(v.name, ":", 2)[0], rt))
		must := strictAll || v.name == "null" || v.name == "trunc:0" || (ecdh && strings.HasPrefix(v.name, "trunc:"))
		if v.dynamic {
			v.same, must = kexLastVerdict.same, kexLastVerdict.must
		}
		if rt == 65 && must && !v.same && changed {
			c.Fail("accepted-damaged-kex@server:64", fmt.Sprintf("server %s pos 64 %s: TO2.ProveDevice with a damaged key exchange parameter (%s, re-signed) was answered with 65", cfgName(s.cf), kind, v.name),
				"fuzz.server", core.Params{"side": "server", "cfg": cfgName(s.cf), "pos": "64", "mutator": kind, "seed": fmt.Sprint(c.Seed), "case": fmt.Sprint(s.nCase)}, core.Obs{Impl: "type 65"})
		}
	}
}

func (s *fzCli) kexCli() {
	c := s.c
	seq := s.seq["TO2"]
	if len(seq) == 0 || seq[0] != 60 {
		if !fzMoreOnly() {
			c.Note("client-side key exchange family skipped for %s: no honest TO2 run to go by (%v)", cfgName(s.cf), seq)
			return
		}
		s.one("TO2", -1, fzResp{kind: "honest"})
		if seq = s.seq["TO2"]; len(seq) == 0 || seq[0] != 60 {
			return
		}
	}
	pss := s.cf.spec.Type == protocol.RsaPssKeyType
	owner := env.Key(s.cf.spec, s.e.OwnerRole)
	applied, changed := false, false
	edit := func(v kexVar) func(*http.Response, []byte, *mrand.Rand) ([]byte, string) {
		applied, changed = false, false
		return func(_ *http.Response, b []byte, _ *mrand.Rand) ([]byte, string) {
			if m, ch, ok := kexEdit(b, v, kexFindXA, owner, pss); ok {
				applied, changed = true, ch
				return m, ""
			}
			return b, "kex:not-applied"
		}
	}
	s.one("TO2", 0, fzResp{kind: "kex:control+resign", wire: edit(kexVar{})})
	if s.last != "success" && s.last != "" {
		c.Fail("harness:kex-control@client", fmt.Sprintf("%s: fdo.TO2 against a re-signed honest 61 ended with %s", cfgName(s.cf), s.last), "fuzz.client", core.Params{"cfg": cfgName(s.cf)}, core.Obs{})
		return
	}
	for _, v := range kexVariants(s.cf.kex, true, c.Quick()) {
		kind := "kex:" + v.name + "+resign"
		s.one("TO2", 0, fzResp{kind: kind, wire: edit(v)})
		if s.last == "" {
			continue
		}
		if !applied {
			c.Fail("harness:kex-edit@client", fmt.Sprintf("%s: no xA found in the honest 61 (%s)", cfgName(s.cf), kind), "fuzz.client", core.Params{"cfg": cfgName(s.cf)}, core.Obs{})
			return
		}
		c.Count("kex_reply", fmt.Sprintf("client %s %s -> %s", s.cf.kex, strings.SplitN(v.name, ":", 2)[0], s.last))
		if v.dynamic {
			v.same = kexLastVerdict.same
		}
		if s.last == "success" && !v.same && changed {
			c.Fail("accepted-damaged-kex@client:TO2:61", fmt.Sprintf("client %s TO2:61 %s: fdo.TO2 succeeded although the key exchange parameter in TO2.ProveOVHdr was damaged (%s, re-signed with the owner key)",
				cfgName(s.cf), kind, v.name), "fuzz.client", core.Params{"side": "client", "cfg": cfgName(s.cf), "role": "TO2", "pos": "TO2:61", "mutator": kind, "seed": fmt.Sprint(c.Seed), "case": fmt.Sprint(s.nCase)},
				core.Obs{Impl: "success"})
		}
	}
}
