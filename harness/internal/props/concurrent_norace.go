//go:build !race

package props

// raceEnabled: the binary was built with the Go race detector (see RunC19).
const raceEnabled = false
