package props

import (
	"fmt"
	"strings"

	"github.com/fido-device-onboard/go-fdo/cose"
	"github.com/fido-device-onboard/go-fdo/kex"
)

var allCipherIDs = []kex.CipherSuiteID{kex.A128GcmCipher, kex.A192GcmCipher, kex.A256GcmCipher, kex.AesCcm16_128_128Cipher, kex.AesCcm16_128_256Cipher,
	kex.AesCcm64_128_128Cipher, kex.AesCcm64_128_256Cipher, kex.CoseAes128CbcCipher, kex.CoseAes128CtrCipher, kex.CoseAes256CbcCipher, kex.CoseAes256CtrCipher}

func suiteOf(id kex.CipherSuiteID) (s kex.CipherSuite, ok bool) {
	defer func() {
		if recover() != nil {
			ok = false
		}
	}()
	return id.Suite(), true
}

func encInfo(alg cose.EncryptAlgorithm) (ad bool, ksz int, ok bool) {
	defer func() {
		if recover() != nil {
			ok = false
		}
	}()
	return alg.SupportsAD(), int(alg.KeySize()), true
}

func init() {
	tableHooks = append(tableHooks, func() []TableConst {
		var rows []string
		for _, id := range allCipherIDs {
			if s, ok := suiteOf(id); ok {
				rows = append(rows, fmt.Sprintf("((%d)%%Z, ((%d)%%Z, (%d)%%Z, %d))", int64(id), int64(s.EncryptAlg), int64(s.MacAlg), hashID(s.PRFHash)))
			}
		}
		out := []TableConst{{"cipher_suite_table", "list (Z * (Z * Z * N))", "[" + strings.Join(rows, "; ") + "]"}}
		rows = nil
		// probe the COSE encryption-algorithm id space used anywhere (1..33 and the private-use block)
		var algs []int64
		for a := int64(-65540); a <= -65520; a++ {
			algs = append(algs, a)
		}
		for a := int64(0); a <= 40; a++ {
			algs = append(algs, a)
		}
		for _, a := range algs {
			if ad, ksz, ok := encInfo(cose.EncryptAlgorithm(a)); ok {
				rows = append(rows, fmt.Sprintf("((%d)%%Z, (%v, %d))", a, ad, ksz))
			}
		}
		out = append(out, TableConst{"enc_alg_table", "list (Z * (bool * N))", "[" + strings.Join(rows, "; ") + "]"})
		return out
	})
}
