package props

import (
	"context"
	"crypto"
	"crypto/rsa"
	"encoding/hex"
	"fmt"
	"math/rand"
	"net/http"
	"strconv"
	"strings"
	"time"

	"github.com/fido-device-onboard/go-fdo/kex"
	"github.com/fido-device-onboard/go-fdo/protocol"

	"verifharness/internal/core"
	"verifharness/internal/env"
	"verifharness/internal/raw"
)

// srv.proof: the byte-level meaning of the fact "the proof in this message is in order" for the three messages that
// carry one (64 TO2.ProveDevice, 32 TO1.ProveToRV, 22 TO0.OwnerSign). An honest prefix is run with the raw client, then
// the message is sent — honest, with one named fault, built for a parallel session, or with its bytes altered at random —
// and the bytes that went on the wire, together with what the session holds (nonce, GUID, device key, registrations),
// are given to the model (Fdo/Owner.v). The implementation's observation is whether the responder answered msg+1.
//
// Two questions are answered by the harness, not the model: whether the key exchange of the live session accepts xB
// (oracle xbok; the key exchanges are the subject of C09/C14) and whether the deployment's policy accepts the requested
// wait (oracle ttlok; the policy is a callback of the deployment).

var (
	proofXB  func(xb []byte) bool
	proofTTL func(wait int64) bool
)

func init() {
	extraOracles["xbok"] = func(a []string) string {
		if len(a) < 2 || proofXB == nil {
			return "0"
		}
		if proofXB(arg(a[1])) {
			return "1"
		}
		return "0"
	}
	extraOracles["ttlok"] = func(a []string) string {
		if len(a) < 2 || proofTTL == nil {
			return "0"
		}
		w, err := strconv.ParseInt(strings.TrimPrefix(a[1], "z:"), 16, 64)
		if err != nil {
			return "0"
		}
		if proofTTL(w) {
			return "1"
		}
		return "0"
	}
}

func keyLineArgs(pub crypto.PublicKey) string {
	id, ok := keyID(pub)
	if !ok {
		return "other n:0 b:"
	}
	f := strings.Fields(id)
	if f[0] == "ec" {
		return fmt.Sprintf("ec n:%s b:%s", f[1], f[2])
	}
	return "rsa n:0 b:" + f[1]
}

// mutateBytes alters b in one of a few ways chosen by r.
func mutateBytes(r *rand.Rand, b []byte) []byte {
	out := append([]byte(nil), b...)
	if len(out) == 0 {
		return []byte{byte(r.Intn(256))}
	}
	switch r.Intn(6) {
	case 0: // one bit
		i := r.Intn(len(out))
		out[i] ^= 1 << uint(r.Intn(8))
	case 1: // one byte
		out[r.Intn(len(out))] = byte(r.Intn(256))
	case 2: // cut
		out = out[:r.Intn(len(out))]
	case 3: // trailing bytes
		for n := 1 + r.Intn(4); n > 0; n-- {
			out = append(out, byte(r.Intn(256)))
		}
	case 4: // a byte removed
		i := r.Intn(len(out))
		out = append(out[:i], out[i+1:]...)
	default: // a byte inserted
		i := r.Intn(len(out) + 1)
		out = append(out[:i], append([]byte{byte(r.Intn(256))}, out[i:]...)...)
	}
	return out
}

func runProof(p core.Params) (line, impl string) {
	proofXB, proofTTL = nil, nil
	msg, _ := strconv.Atoi(p["msg"])
	kind := map[int]string{64: "own.provedevice", 32: "rv.provetorv", 22: "rv.ownersign"}[msg]
	bad := kind + " ()"
	spec := specByName(p["key"])
	e, err := srvEnv(spec)
	if err != nil {
		return bad, "err-env " + err.Error()
	}
	ctx, cancel := context.WithTimeout(context.Background(), time.Minute)
	defer cancel()
	dev, err := e.NewDevice(ctx, protocol.X509KeyEnc)
	if err != nil {
		return bad, "err-di " + err.Error()
	}
	other, err := e.NewDevice(ctx, protocol.X509KeyEnc)
	if err != nil {
		return bad, "err-di " + err.Error()
	}
	cipher, _ := strconv.Atoi(p["cipher"])
	e.AcceptTTL = nil
	if p["ttl"] != "" {
		ttl, _ := strconv.Atoi(p["ttl"])
		e.AcceptTTL = func(uint32) (uint32, error) { return uint32(ttl), nil }
		defer func() { e.AcceptTTL = nil }()
	}
	d := raw.NewDriver(e, dev, raw.Config{Kex: kexByName(p["kex"]), Cipher: kex.CipherSuiteID(cipher)})
	d.Other = other
	addr := []protocol.RvTO2Addr{{DNSAddress: strp("owner.test"), Port: 8043, TransportProtocol: protocol.HTTPSTransport}}
	var regs []*env.Device
	if msg == 32 {
		for i, dv := range []*env.Device{dev, other} {
			if strings.Contains(p["reg"], string(rune('a'+i))) {
				if _, err := e.TO0(ctx, dv.Cred.GUID, addr); err != nil {
					return bad, "err-to0 " + err.Error()
				}
				regs = append(regs, dv)
			}
		}
	}
	pre := map[int][]int{64: {60, 62}, 32: {30}, 22: {20}}[msg]
	nsess := 1
	if p["from"] == "1" {
		nsess = 2
	}
	for s := 0; s < nsess; s++ {
		for _, m := range pre {
			r := d.Do(raw.Step{Msg: m, Sess: s, BodyFrom: -1})
			if r.Err != "" || r.RespType != m+1 {
				if msg == 32 && len(regs) == 0 || msg == 32 && !strings.Contains(p["reg"], "a") {
					// HelloRV for a GUID without a registration is refused: there is no session to prove anything in
					return kind + " (noreg)", "err-noreg"
				}
				return bad, fmt.Sprintf("err-prefix %d -> %d %s %s", m, r.RespType, r.ErrStr, r.Err)
			}
		}
	}
	var sent []byte
	var mrng *rand.Rand
	if p["mut"] != "" {
		seed, _ := strconv.ParseInt(p["mut"], 10, 64)
		mrng = rand.New(rand.NewSource(seed))
	}
	tokSess := 0
	d.Send = func(m int, body []byte, hdr http.Header) *http.Response {
		if m == msg {
			if mrng != nil {
				for n := 1 + mrng.Intn(2); n > 0; n-- {
					body = mutateBytes(mrng, body)
				}
			}
			sent = append([]byte(nil), body...)
			if msg == 64 { // the key exchange state of the session as it is when the message arrives
				tok := d.Token(tokSess)
				if suite, sess, err := e.DB.XSession(e.DB.TokenContext(ctx, tok)); err == nil {
					_ = suite
					priv, _ := env.Key(spec, e.OwnerRole).(*rsa.PrivateKey)
					cache := map[string]bool{}
					proofXB = func(xb []byte) bool {
						k := string(xb)
						if v, ok := cache[k]; ok {
							return v
						}
						v := func() (ok bool) {
							defer func() {
								if recover() != nil {
									ok = false
								}
							}()
							return sess.SetParameter(xb, priv) == nil
						}()
						cache[k] = v
						return v
					}
				}
			}
		}
		return e.RT.Do(m, body, hdr)
	}
	st := raw.Step{Msg: msg, Sess: tokSess, BodyFrom: -1, Fault: p["fault"]}
	if p["from"] == "1" {
		st.BodyFrom = 1
	}
	r := d.Do(st)
	d.Send = nil
	if r.Err != "" {
		return bad, "err-driver " + r.Err
	}
	nonce, hasNonce, proveDv, has61 := d.SessionFacts(tokSess)
	switch msg {
	case 64:
		if !has61 {
			return bad, "err-no61"
		}
		line = fmt.Sprintf("own.provedevice %s b:%x b:%x b:00 b:%x", keyLineArgs(dev.Key.Public()), dev.Cred.GUID[:], proveDv[:], sent)
	case 32:
		if !hasNonce {
			return bad, "err-nononce"
		}
		var sb strings.Builder
		for _, dv := range regs {
			fmt.Fprintf(&sb, "(b:%x %s)", dv.Cred.GUID[:], keyLineArgs(dv.Key.Public()))
		}
		line = fmt.Sprintf("rv.provetorv (%s) b:%x b:%x", sb.String(), nonce[:], sent)
	case 22:
		if !hasNonce {
			return bad, "err-nononce"
		}
		pol := e.AcceptTTL
		proofTTL = func(w int64) bool {
			if w < 0 || w > 0xffffffff {
				return false
			}
			if pol == nil { // the deployment of env always installs AcceptVoucher; with no policy set it returns the request
				return w != 0
			}
			ttl, err := pol(uint32(w))
			return err == nil && ttl != 0
		}
		line = fmt.Sprintf("rv.ownersign b:%x b:00 b:%x", nonce[:], sent)
	}
	switch {
	case r.Panic != "":
		core.PanicText = r.Panic
		impl = "panic"
	case r.RespType == msg+1:
		impl = "accept"
	default:
		impl = "reject"
	}
	lastProof = proofObs{Sent: sent, Res: r}
	return line, impl
}

type proofObs struct {
	Sent []byte
	Res  raw.Result
}

var lastProof proofObs

func registerProofKind(c *core.Ctx) {
	c.Register(&core.Kind{Name: "srv.proof", Eval: runProof})
}

// doProofs runs the byte-level proof cases of one message type for one configuration.
func doProofs(c *core.Ctx, cf srvCfg, msg int, nmut int) {
	base := core.Params{"key": cf.spec.Name, "kex": string(cf.kex), "cipher": fmt.Sprint(int(cf.cipher)), "msg": fmt.Sprint(msg)}
	with := func(kv ...string) core.Params {
		q := core.Params{}
		for k, v := range base {
			q[k] = v
		}
		for i := 0; i+1 < len(kv); i += 2 {
			q[kv[i]] = kv[i+1]
		}
		return q
	}
	run := func(p core.Params, meta string) {
		o := c.Do("srv.proof", p, meta)
		if strings.HasPrefix(o.Impl, "err-") && o.Impl != "err-noreg" {
			c.Fail("harness:"+firstWordOf(o.Impl), o.Impl, "srv.proof", p, o)
			return
		}
		c.Count("proof", fmt.Sprintf("%d:%s:%s", msg, p["fault"], o.Impl))
	}
	regs := []string{""}
	if msg == 32 {
		base["reg"] = "a"
		regs = []string{"a", "ab"}
	}
	for _, rg := range regs {
		kv := []string{}
		if msg == 32 {
			kv = []string{"reg", rg}
		}
		run(with(kv...), "proof-honest")
		run(with(append(kv, "from", "1")...), "proof-of-parallel-session")
		for _, f := range raw.Faults(msg) {
			run(with(append(kv, "fault", f)...), "proof-fault")
		}
	}
	if msg == 22 {
		for _, ttl := range []string{"0", "5"} {
			run(with("ttl", ttl), "proof-policy")
			run(with("ttl", ttl, "fault", "ttl-zero"), "proof-policy")
		}
	}
	for i := 0; i < nmut; i++ {
		run(with("mut", fmt.Sprint(c.Rng.Int63())), "proof-bytes-altered")
	}
}

var _ = hex.EncodeToString
