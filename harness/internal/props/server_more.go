package props

import (
	"context"
	"fmt"
	"time"

	"github.com/fido-device-onboard/go-fdo/kex"
	"github.com/fido-device-onboard/go-fdo/protocol"

	"verifharness/internal/core"
	"verifharness/internal/env"
	"verifharness/internal/raw"
)

// Two faults of the world around the server under which "a token is dead after its session ended" must still hold
// (C08): the client hangs up between the effect of the final message and the end of the request (its context is
// cancelled), and another writer holds the database while a refused message is being answered.

func hangupProbe(c *core.Ctx, spec env.KeySpec) {
	e, err := srvEnv(spec)
	if err != nil {
		return
	}
	ctx, cancel := context.WithTimeout(context.Background(), time.Minute)
	defer cancel()
	for _, name := range []string{"DI", "TO0", "TO2"} {
		for _, reuse := range []bool{false, true} {
			if reuse && name != "TO2" {
				continue
			}
			dev, err := e.NewDevice(ctx, protocol.X509KeyEnc)
			if err != nil {
				c.Note("hangup probe: %v", err)
				return
			}
			e.Reuse = reuse
			e.OwnerModules = raw.OneShot(e)
			d := raw.NewDriver(e, dev, raw.Config{Kex: env.DefaultKex(spec), Cipher: kex.A128GcmCipher, Reuse: reuse})
			seq := honestSeq[name]
			sess := -1
			step := func(m int) raw.Result {
				s := raw.Step{Msg: m, Sess: sess, BodyFrom: -1}
				if sess < 0 {
					s.Tok = raw.TokNone
				}
				r := d.Do(s)
				if r.NewSess >= 0 {
					sess = r.NewSess
				}
				return r
			}
			ok := true
			for _, m := range seq[:len(seq)-1] {
				if r := step(m); r.RespType != m+1 {
					c.Fail("harness:hangup-prefix", fmt.Sprintf("%s: %d answered with %d %s", name, m, r.RespType, r.ErrStr), "srv.hangup", core.Params{"key": spec.Name}, core.Obs{})
					ok = false
					break
				}
			}
			if !ok {
				continue
			}
			last := seq[len(seq)-1]
			// the client goes away the moment the persistent effect of the final message has happened
			fired := false
			e.Journal.OnAdd = func(string) { fired = true; e.RT.CancelCurrent() }
			r1 := step(last)
			e.Journal.OnAdd = nil
			j0 := e.Journal.Len()
			r2 := step(last) // the same token once more
			fx := effString(e.Journal.Since(j0))
			e.Reuse = false
			c.Rep.Evaluations++
			p := core.Params{"key": spec.Name, "proto": name, "reuse": fmt.Sprint(reuse)}
			c.Count("hangup_probe", fmt.Sprintf("%s reuse=%v: hangup-fired=%v first=%d again=%d effects=%q", name, reuse, fired, r1.RespType, r2.RespType, fx))
			if !fired && !(name == "TO2" && reuse) {
				continue // no persistent effect happened in the final message (nothing to hang up after)
			}
			if r2.RespType == last+1 || fx != "" {
				c.Fail(fmt.Sprintf("token-survives-client-hangup:%d", last), fmt.Sprintf("%s: the client hung up right after the effect of message %d (answered %d); the same token and message again: answered %d, effects %q",
					name, last, r1.RespType, r2.RespType, fx), "srv.hangup", p, core.Obs{})
			}
		}
	}
}

// lockedProbe: a refused message is answered while another writer holds the database for a moment; afterwards the token
// must be dead all the same. The deployment keeps the library's own connection-pool settings (sqlite.Open).
func lockedProbe(c *core.Ctx, spec env.KeySpec) {
	e, err := env.NewWithOptions(WorkDir(), spec, env.Options{PoolConns: true})
	if err != nil {
		c.Note("locked probe env: %v", err)
		return
	}
	defer e.Close()
	ctx, cancel := context.WithTimeout(context.Background(), time.Minute)
	defer cancel()
	for _, name := range []string{"DI", "TO0", "TO2"} {
		dev, err := e.NewDevice(ctx, protocol.X509KeyEnc)
		if err != nil {
			c.Note("locked probe: %v", err)
			return
		}
		e.OwnerModules = raw.OneShot(e)
		d := raw.NewDriver(e, dev, raw.Config{Kex: env.DefaultKex(spec), Cipher: kex.A128GcmCipher})
		seq := honestSeq[name]
		sess := -1
		step := func(m int, fault string) raw.Result {
			s := raw.Step{Msg: m, Sess: sess, BodyFrom: -1, Fault: fault}
			if sess < 0 {
				s.Tok = raw.TokNone
			}
			r := d.Do(s)
			if r.NewSess >= 0 {
				sess = r.NewSess
			}
			return r
		}
		if r := step(seq[0], ""); r.RespType != seq[0]+1 {
			c.Fail("harness:locked-prefix", fmt.Sprintf("%s: %d answered with %d %s", name, seq[0], r.RespType, r.ErrStr), "srv.locked", core.Params{"key": spec.Name}, core.Obs{})
			continue
		}
		// another writer takes the database and keeps it for 300 ms
		conn, err := e.DB.DB().Conn(ctx)
		if err != nil {
			c.Note("locked probe conn: %v", err)
			continue
		}
		if _, err := conn.ExecContext(ctx, "BEGIN IMMEDIATE"); err != nil {
			_ = conn.Close()
			c.Note("locked probe begin: %v", err)
			continue
		}
		released := make(chan struct{})
		go func() {
			time.Sleep(300 * time.Millisecond)
			_, _ = conn.ExecContext(context.Background(), "ROLLBACK")
			_ = conn.Close()
			close(released)
		}()
		r1 := step(seq[1], "garbage") // refused: the session must end
		<-released
		j0 := e.Journal.Len()
		r2 := step(seq[1], "") // the honest message with the same token
		fx := effString(e.Journal.Since(j0))
		c.Rep.Evaluations++
		p := core.Params{"key": spec.Name, "proto": name}
		c.Count("locked_probe", fmt.Sprintf("%s: refused=%d retry=%d effects=%q", name, r1.RespType, r2.RespType, fx))
		if r2.RespType == seq[1]+1 || fx != "" {
			c.Fail(fmt.Sprintf("token-survives-refusal-under-db-lock:%d", seq[1]), fmt.Sprintf("%s: message %d was refused (%d) while another writer held the database; the honest message with the same token was then answered %d, effects %q",
				name, seq[1], r1.RespType, r2.RespType, fx), "srv.locked", p, core.Obs{})
		}
	}
}
