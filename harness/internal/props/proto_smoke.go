package props

import (
	"context"
	"fmt"
	"os"
	"path/filepath"
	"time"

	"github.com/fido-device-onboard/go-fdo/kex"
	"github.com/fido-device-onboard/go-fdo/protocol"

	"verifharness/internal/core"
	"verifharness/internal/env"
)

// WorkDir is where deployments keep their database files (never /tmp).
func WorkDir() string {
	exe, _ := os.Executable()
	d := filepath.Join(filepath.Dir(exe), "work")
	_ = os.MkdirAll(d, 0o755)
	return d
}

// RunSmoke is a development aid: one honest onboarding per key type.
func RunSmoke(c *core.Ctx) {
	for _, spec := range env.AllKeys {
		t0 := time.Now()
		res := func() string {
			e, err := env.New(WorkDir(), spec)
			if err != nil {
				return "env: " + err.Error()
			}
			defer e.Close()
			ctx, cancel := context.WithTimeout(context.Background(), 60*time.Second)
			defer cancel()
			d, err := e.NewDevice(ctx, protocol.X509KeyEnc)
			if err != nil {
				return "DI: " + err.Error()
			}
			if _, err := e.TO0(ctx, d.Cred.GUID, []protocol.RvTO2Addr{{DNSAddress: strp("owner.test"), Port: 8043, TransportProtocol: protocol.HTTPSTransport}}); err != nil {
				return "TO0: " + err.Error()
			}
			to1d, err := e.TO1(ctx, d)
			if err != nil {
				return "TO1: " + err.Error()
			}
			cred, err := e.TO2(ctx, d, to1d, d.TO2Config(env.DefaultKex(spec), kex.A128GcmCipher))
			if err != nil {
				return "TO2: " + err.Error()
			}
			return fmt.Sprintf("ok newguid=%x effects=%v", cred.GUID[:4], e.Journal.E)
		}()
		c.Note("%s: %s (%.1fs)", spec.Name, res, time.Since(t0).Seconds())
		fmt.Println(spec.Name, res, time.Since(t0))
		c.Rep.Evaluations++
	}
}

func strp(s string) *string { return &s }
