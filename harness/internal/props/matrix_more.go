package props

// C09, COSE-key encoded EC keys with short coordinates. One P-256 / P-384 key in 128 has an X or Y coordinate that begins
// with a zero byte. Such keys are ordinary keys: a deployment whose manufacturer or owner key happens to be one of them
// (COSE key encoding) must onboard like any other. The library writes the coordinates of a COSE_Key in minimal length
// (big.Int.Bytes) and other implementations write them at the full length of the field (RFC 9053 section 7.1.1): both forms
// must give the same key back.
//
//   - round trip: protocol.NewPublicKey(type, key, asCOSE=true) -> CBOR -> protocol.PublicKey.Public() is the key again, for
//     keys whose X, whose Y and whose X and Y begin with one (or two) zero bytes, and for ordinary keys; the same for a
//     COSE_Key written by hand with full-length, minimal-length and mixed coordinates;
//   - chain: a fresh deployment whose manufacturer key and owner key are such keys runs DI (COSE key encoding), TO0, TO1 and
//     TO2 (credential replaced); the replaced voucher (its header now carries the OWNER key as manufacturer key, in COSE
//     encoding) matches the new credential and can be extended to a next owner whose entry verifies.

import (
	"context"
	"crypto/ecdsa"
	"crypto/elliptic"
	"crypto/rand"
	"encoding/hex"
	"fmt"
	"math/big"
	"os"
	"time"

	fdo "github.com/fido-device-onboard/go-fdo"
	"github.com/fido-device-onboard/go-fdo/cbor"
	"github.com/fido-device-onboard/go-fdo/cose"
	"github.com/fido-device-onboard/go-fdo/kex"
	"github.com/fido-device-onboard/go-fdo/protocol"

	"verifharness/internal/core"
	"verifharness/internal/env"
	"verifharness/internal/raw"
)

// ckFixed: private scalars found once by the search below; "both" takes 65 536 candidates on average, too many for every
// quick run. x2 / y2: TWO leading zero bytes.
var ckFixed = map[string]map[string]string{
	"P-256": {
		"short-x+y": "2e55b75701651325d60bd6f516f31da9878fd4b4e0d92b54d401afe28bd96745",
		"short-xx":  "2e55b75701651325d60bd6f516f31da9878fd4b4e0d92b54d401afe28bd97939",
		"short-yy":  "2e55b75701651325d60bd6f516f31da9878fd4b4e0d92b54d401afe28bd965e8",
	},
	"P-384": {
		"short-x+y": "53d8669fb3e062fab07d2405455a27ebdfa32f6cf5f10db4bd436dd71e43093fc046b664f9191c3cb02bb305fd0bbcc2",
		"short-xx":  "53d8669fb3e062fab07d2405455a27ebdfa32f6cf5f10db4bd436dd71e43093fc046b664f9191c3cb02bb305fd0965a6",
		"short-yy":  "53d8669fb3e062fab07d2405455a27ebdfa32f6cf5f10db4bd436dd71e43093fc046b664f9191c3cb02bb305fd0921d8",
	},
}

const ckRule = "; part 3 (matrix_more.go): P-256 / P-384 keys whose X, Y, X and Y coordinate begins with one or two zero bytes (searched per run; " +
	"the rare shapes from stored scalars) and an ordinary key: NewPublicKey(asCOSE) -> CBOR -> Public() and hand-written COSE_Keys with full-length, " +
	"minimal and mixed coordinates give the key back; fresh deployments with such manufacturer and owner keys run DI (COSE key encoding), TO0, TO1, TO2 " +
	"with credential replacement, twice"

func ckOnly() bool { return os.Getenv("C09_COSE_ONLY") != "" }

type ckKey struct {
	which string
	key   *ecdsa.PrivateKey
}

func ckZeroBytes(curve elliptic.Curve, v *big.Int) int {
	return (curve.Params().BitSize+7)/8 - len(v.Bytes())
}

func ckShape(curve elliptic.Curve, x, y *big.Int) string {
	zx, zy := ckZeroBytes(curve, x), ckZeroBytes(curve, y)
	switch {
	case zx > 0 && zy > 0:
		return "short-x+y"
	case zx > 1:
		return "short-xx"
	case zy > 1:
		return "short-yy"
	case zx > 0:
		return "short-x"
	case zy > 0:
		return "short-y"
	}
	return "ordinary"
}

func ckFromScalar(curve elliptic.Curve, d *big.Int) *ecdsa.PrivateKey {
	k := &ecdsa.PrivateKey{PublicKey: ecdsa.PublicKey{Curve: curve}, D: new(big.Int).Set(d)}
	k.X, k.Y = curve.ScalarBaseMult(d.Bytes())
	return k
}

// ckSearch walks d, d+1, d+2, ... from a random start (one point addition per candidate) until every wanted shape has
// been seen or the budget is used up.
func ckSearch(curve elliptic.Curve, want []string, budget int) (out []ckKey) {
	n := curve.Params().N
	d, _ := rand.Int(rand.Reader, new(big.Int).Sub(n, big.NewInt(int64(budget)+2)))
	d.Add(d, big.NewInt(1))
	x, y := curve.ScalarBaseMult(d.Bytes())
	missing := map[string]bool{}
	for _, w := range want {
		missing[w] = true
	}
	one := big.NewInt(1)
	for i := 0; i < budget && len(missing) > 0; i++ {
		if s := ckShape(curve, x, y); missing[s] {
			delete(missing, s)
			out = append(out, ckKey{s, ckFromScalar(curve, d)})
		}
		x, y = curve.Add(x, y, curve.Params().Gx, curve.Params().Gy)
		d.Add(d, one)
	}
	return out
}

func ckKeys(c *core.Ctx, curve elliptic.Curve) (out []ckKey) {
	name := curve.Params().Name
	want := []string{"short-x", "short-y", "ordinary"}
	budget := 20000 // short-x / short-y: one candidate in 256 each
	if !c.Quick() {
		want = append(want, "short-x+y", "short-xx", "short-yy")
		budget = 1500000
	}
	out = ckSearch(curve, want, budget)
	have := map[string]bool{}
	for _, k := range out {
		have[k.which] = true
	}
	for which, hexD := range ckFixed[name] {
		d, _ := new(big.Int).SetString(hexD, 16)
		k := ckFromScalar(curve, d)
		if got := ckShape(curve, k.X, k.Y); got != which {
			c.Fail("harness:cose-key-fixed-scalar", fmt.Sprintf("%s %s: the stored scalar gives a key of shape %s", name, which, got), "cosekey.roundtrip", core.Params{"curve": name}, core.Obs{})
			continue
		}
		tag := which
		if have[which] {
			tag += "(fixed)"
		}
		out = append(out, ckKey{tag, k})
	}
	for _, w := range []string{"short-x", "short-y", "short-x+y"} {
		found := false
		for _, k := range out {
			found = found || k.which == w
		}
		if !found {
			c.Note("cose keys: no %s %s key found within %d candidates", name, w, budget)
		}
	}
	return out
}

func ckType(curve elliptic.Curve) (protocol.KeyType, env.KeySpec, int64) {
	if curve == elliptic.P384() {
		return protocol.Secp384r1KeyType, env.P384, 2
	}
	return protocol.Secp256r1KeyType, env.P256, 1
}

func ckSame(a *ecdsa.PublicKey, b any) bool {
	pb, ok := b.(*ecdsa.PublicKey)
	return ok && pb != nil && pb.Curve == a.Curve && pb.X != nil && pb.Y != nil && pb.X.Cmp(a.X) == 0 && pb.Y.Cmp(a.Y) == 0
}

// ckRoundTrip: one encoded key through CBOR and back.
func ckRoundTrip(pk *protocol.PublicKey) (got any, wire []byte, err error) {
	defer func() {
		if r := recover(); r != nil {
			err = fmt.Errorf("panic: %v", r)
		}
	}()
	if wire, err = cbor.Marshal(pk); err != nil {
		return nil, nil, fmt.Errorf("marshal: %w", err)
	}
	var back protocol.PublicKey
	if err = cbor.Unmarshal(wire, &back); err != nil {
		return nil, wire, fmt.Errorf("unmarshal: %w", err)
	}
	got, err = back.Public()
	return got, wire, err
}

func runC09CoseKeys(c *core.Ctx) {
	t0 := time.Now()
	for _, curve := range []elliptic.Curve{elliptic.P256(), elliptic.P384()} {
		name := curve.Params().Name
		typ, spec, crv := ckType(curve)
		size := (curve.Params().BitSize + 7) / 8
		keys := ckKeys(c, curve)
		byShape := map[string]*ecdsa.PrivateKey{}
		for _, k := range keys {
			if _, dup := byShape[k.which]; !dup {
				byShape[k.which] = k.key
			}
			pub := &k.key.PublicKey
			p := core.Params{"curve": name, "which": k.which, "x": hex.EncodeToString(pub.X.Bytes()), "y": hex.EncodeToString(pub.Y.Bytes())}
			sig := "cose-key-roundtrip-failed:" + name + ":" + k.which
			// the library's own encoder
			c.Rep.Evaluations++
			c.Count("cose_key_roundtrip", name+" "+k.which+" NewPublicKey")
			pk, err := protocol.NewPublicKey(typ, pub, true)
			if err != nil {
				c.Fail(sig, fmt.Sprintf("protocol.NewPublicKey(asCOSE): %v", err), "cosekey.roundtrip", p, core.Obs{})
			} else if got, wire, err := ckRoundTrip(pk); err != nil || !ckSame(pub, got) {
				p["wire"] = hex.EncodeToString(wire)
				c.Fail(sig, fmt.Sprintf("NewPublicKey(asCOSE) -> CBOR -> Public() gave %v (error %v) for the key x=%x y=%x", got, err, pub.X.Bytes(), pub.Y.Bytes()), "cosekey.roundtrip", p, core.Obs{})
			}
			// the same key in X.509 encoding is the control
			if pk, err := protocol.NewPublicKey(typ, pub, false); err == nil {
				if got, _, err := ckRoundTrip(pk); err != nil || !ckSame(pub, got) {
					c.Fail("x509-key-roundtrip-failed:"+name+":"+k.which, fmt.Sprintf("NewPublicKey(X509) -> CBOR -> Public(): %v", err), "cosekey.roundtrip", p, core.Obs{})
				}
			}
			// COSE_Keys as other implementations write them: coordinates at full length / minimal / mixed
			forms := map[string][2][]byte{
				"full-length": {pub.X.FillBytes(make([]byte, size)), pub.Y.FillBytes(make([]byte, size))},
				"minimal":     {pub.X.Bytes(), pub.Y.Bytes()},
				"x-full":      {pub.X.FillBytes(make([]byte, size)), pub.Y.Bytes()},
				"y-full":      {pub.X.Bytes(), pub.Y.FillBytes(make([]byte, size))},
			}
			for form, xy := range forms {
				c.Rep.Evaluations++
				c.Count("cose_key_roundtrip", name+" "+k.which+" "+form)
				body, err := cbor.Marshal(cose.Key{cose.KeyTypeKeyLabel: cose.EC2KeyType, cose.KeyLabel{Int64: -1}: crv, cose.KeyLabel{Int64: -2}: xy[0], cose.KeyLabel{Int64: -3}: xy[1]})
				if err != nil {
					c.Fail("harness:cose-key-build", err.Error(), "cosekey.roundtrip", p, core.Obs{})
					continue
				}
				got, wire, err := ckRoundTrip(&protocol.PublicKey{Type: typ, Encoding: protocol.CoseKeyEnc, Body: body})
				if err != nil || !ckSame(pub, got) {
					pp := core.Params{"form": form, "wire": hex.EncodeToString(wire)}
					for k, v := range p {
						pp[k] = v
					}
					c.Fail(sig, fmt.Sprintf("a COSE_Key with %s coordinates decodes to %v (error %v), expected x=%x y=%x", form, got, err, pub.X.Bytes(), pub.Y.Bytes()), "cosekey.roundtrip", pp, core.Obs{})
				}
			}
		}
		// chains: manufacturer / owner keys of these shapes
		pairs := [][2]string{{"short-x", "short-y"}, {"short-y", "short-x+y"}, {"short-x+y", "short-x"}}
		if !c.Quick() {
			pairs = append(pairs, [2]string{"short-xx", "short-yy"}, [2]string{"short-yy", "short-xx"}, [2]string{"short-x", "short-x"}, [2]string{"short-y", "short-y"},
				[2]string{"short-x+y", "short-x+y"}, [2]string{"ordinary", "short-x"}, [2]string{"short-y", "ordinary"})
		}
		for _, pr := range pairs {
			mfg, owner := byShape[pr[0]], byShape[pr[1]]
			if mfg == nil || owner == nil {
				continue
			}
			c.Rep.Evaluations++
			step, err := ckChain(spec, mfg, owner)
			c.Count("cose_key_chain", fmt.Sprintf("%s mfg=%s owner=%s -> %s", name, pr[0], pr[1], map[bool]string{true: "ok", false: "failed:" + step}[err == nil]))
			if err != nil {
				which := "mfg=" + pr[0] + ",owner=" + pr[1]
				c.Fail("cose-key-onboarding-failed:"+name+":"+which+":"+step, fmt.Sprintf("deployment with manufacturer key x=%x y=%x and owner key x=%x y=%x, COSE key encoding: %s failed: %v",
					mfg.X.Bytes(), mfg.Y.Bytes(), owner.X.Bytes(), owner.Y.Bytes(), step, err), "cosekey.chain",
					core.Params{"curve": name, "mfg": hex.EncodeToString(mfg.D.Bytes()), "owner": hex.EncodeToString(owner.D.Bytes())}, core.Obs{})
			}
		}
	}
	c.Note("cose keys with short coordinates: %.1fs", time.Since(t0).Seconds())
}

// ckChain: a fresh deployment whose manufacturer and owner keys are the given ones; DI in COSE key encoding, TO0, TO1, TO2
// with credential replacement; then the replaced voucher is checked and sold on.
func ckChain(spec env.KeySpec, mfg, owner *ecdsa.PrivateKey) (step string, err error) {
	defer func() {
		if r := recover(); r != nil {
			err = fmt.Errorf("panic: %v", r)
		}
	}()
	e, err := env.New(WorkDir(), spec)
	if err != nil {
		return "env", err
	}
	defer e.Close()
	e.OwnerModules = raw.OneShot(e)
	// the deployment was made with the cached keys of its key type: replace them before anything uses them
	for _, q := range []string{"DELETE FROM mfg_keys", "DELETE FROM owner_keys"} {
		if _, err := e.DB.DB().Exec(q); err != nil {
			return "env-keys", err
		}
	}
	if err := e.DB.AddManufacturerKey(spec.Type, mfg, env.Chain(mfg, "mfg")); err != nil {
		return "env-keys", err
	}
	if err := e.DB.AddOwnerKey(spec.Type, owner, env.Chain(owner, "owner")); err != nil {
		return "env-keys", err
	}
	ctx, cancel := context.WithTimeout(context.Background(), time.Minute)
	defer cancel()
	dev, err := e.NewDevice(ctx, protocol.CoseKeyEnc)
	if err != nil {
		return "DI", err
	}
	// what DI left behind names the two keys, in COSE encoding
	ov, err := e.DB.Voucher(ctx, dev.Cred.GUID)
	if err != nil {
		return "DI-voucher", err
	}
	if enc := ov.Header.Val.ManufacturerKey.Encoding; enc != protocol.CoseKeyEnc {
		return "DI-voucher", fmt.Errorf("manufacturer key encoding %d, asked for COSE", enc)
	}
	if got, err := ov.Header.Val.ManufacturerKey.Public(); err != nil || !ckSame(&mfg.PublicKey, got) {
		return "DI-voucher", fmt.Errorf("the voucher header's manufacturer key is %v (%v)", got, err)
	}
	if got, err := ov.OwnerPublicKey(); err != nil || !ckSame(&owner.PublicKey, got) {
		return "DI-voucher", fmt.Errorf("the voucher's owner key is %v (%v)", got, err)
	}
	if _, err := e.TO0(ctx, dev.Cred.GUID, mxAddrs); err != nil {
		return "TO0", err
	}
	to1d, err := e.TO1(ctx, dev)
	if err != nil {
		return "TO1", err
	}
	cred, err := e.TO2(ctx, dev, to1d, dev.TO2Config(env.DefaultKex(spec), kex.A128GcmCipher))
	if err != nil {
		return "TO2", err
	}
	if cred == nil || cred.GUID == dev.Cred.GUID {
		return "TO2", fmt.Errorf("no replacement credential")
	}
	// the replaced voucher: its header carries the OWNER key as manufacturer key, in COSE encoding; the device's new
	// credential commits to it; the owner can pass it on (resale) and the new entry verifies
	nov, err := e.DB.Voucher(ctx, cred.GUID)
	if err != nil {
		return "replaced-voucher", err
	}
	if enc := nov.Header.Val.ManufacturerKey.Encoding; enc != protocol.CoseKeyEnc {
		return "replaced-voucher", fmt.Errorf("manufacturer key encoding %d, expected COSE", enc)
	}
	if got, err := nov.Header.Val.ManufacturerKey.Public(); err != nil || !ckSame(&owner.PublicKey, got) {
		return "replaced-voucher", fmt.Errorf("the replaced voucher's manufacturer key is %v (%v), expected the owner key", got, err)
	}
	if err := nov.VerifyManufacturerKey(cred.PublicKeyHash); err != nil {
		return "replaced-voucher", fmt.Errorf("the new credential's key hash does not match the replaced voucher: %w", err)
	}
	ext, err := fdo.ExtendVoucher(nov, owner, &mfg.PublicKey, nil) // sold on, to the holder of the other key
	if err != nil {
		return "resale-extend", err
	}
	if err := ext.VerifyEntries(); err != nil {
		return "resale-verify", err
	}
	if got, err := ext.OwnerPublicKey(); err != nil || !ckSame(&mfg.PublicKey, got) {
		return "resale-verify", fmt.Errorf("the extended voucher's owner key is %v (%v)", got, err)
	}
	return "", nil
}
