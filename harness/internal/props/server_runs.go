package props

import (
	"context"
	"crypto"
	"crypto/ecdsa"
	"crypto/elliptic"
	"crypto/rand"
	"encoding/hex"
	"fmt"
	"os"
	"strconv"
	"strings"
	"time"

	"github.com/fido-device-onboard/go-fdo/cbor"
	"github.com/fido-device-onboard/go-fdo/cose"
	"github.com/fido-device-onboard/go-fdo/kex"
	"github.com/fido-device-onboard/go-fdo/protocol"

	"verifharness/internal/core"
	"verifharness/internal/env"
	"verifharness/internal/raw"
)

// proofCount: byte-altered proofs per configuration (every case is two DI runs and a protocol prefix with the
// configuration's signatures: the thorough tier's larger n would take an hour per check with P-384 / RSA-3072 keys).
func proofCount(c *core.Ctx, quick int) int {
	if c.Quick() {
		return quick
	}
	return 300
}

func srvSetup(c *core.Ctx) {
	registerServerKinds(c)
	registerProofKind(c)
	c.Trivial = func(o core.Obs) bool { return strings.HasPrefix(o.Impl, "err") }
}

// RunC02: the owner serves only a peer that proved the device key for this session.
func RunC02(c *core.Ctx) {
	srvSetup(c)
	defer closeSrvEnvs()
	c.Rep.Rule = srvRule("C02 adds: every ProveDevice fault (other signer, genuine token of another enrolled device, replay from a parallel session, " +
		"wrong / missing / mistyped claims, unused registered algorithm, short signature) followed by 66/68/70 in plaintext, under self-chosen keys " +
		"and under the keys the attacker derived himself; later TO2 messages with no ProveDevice at all; all key types, key exchanges and cipher suites.")
	cfgs := srvConfigs(c)
	tun := []string{"", "plaintext", "wrong-keys", "zero-keys", "bitflip", "enc-garbage"}
	for _, cf := range cfgs {
		if _, err := srvEnv(cf.spec); err != nil {
			c.Note("env %s: %v", cf.spec.Name, err)
			continue
		}
		emit := func(h []hstep, meta string) { doHist(c, cf, h, meta, nil) }
		genSystematic("TO2", emit)
		for _, f := range raw.Faults(64) {
			for _, tf := range tun {
				h := seqSteps([]int{60, 62, 64, 66, 68, 68, 70}, 0)
				h[2].Fault = f
				for i := 3; i < len(h); i++ {
					h[i].Fault = tf
				}
				emit(h, "bad-proof-then-tunnel-attempts")
			}
		}
		for _, tf := range tun {
			for _, pre := range [][]int{{60}, {60, 62}} {
				for _, m := range []int{66, 68, 70} {
					h := append(seqSteps(pre, 0), hstep{Msg: m, Sess: 0, Tok: 's', From: -1, Fault: tf})
					emit(h, "tunnel-message-without-proof")
				}
			}
		}
		// the same tunnel faults arriving without Content-Length at a handler whose size limit is switched off
		for _, tf := range tun {
			for _, m := range []int{66, 68, 70} {
				h := seqSteps([]int{60, 62, 64, 66, 68, 68, 70}, 0)
				for i := range h {
					if h[i].Msg == m {
						h[i].Fault = tf
						h = append(h[:i+1], hstep{Msg: m, Sess: 0, Tok: 's', From: -1})
						break
					}
				}
				doHist(c, cf, h, "tunnel-fault-chunked-request", core.Params{"chunked": "1"})
			}
			for _, pre := range [][]int{{60}, {60, 62}} {
				h := append(seqSteps(pre, 0), hstep{Msg: 66, Sess: 0, Tok: 's', From: -1, Fault: tf}, hstep{Msg: 68, Sess: 0, Tok: 's', From: -1, Fault: tf})
				doHist(c, cf, h, "tunnel-message-without-proof-chunked", core.Params{"chunked": "1"})
			}
		}
		// the token store fails to invalidate the session of a refused ProveDevice (or the attacker's 66 races it): the
		// keys the attacker derived from his own parameter must not have become the session's keys
		for _, f := range []string{"signer", "sig-flip", "other-device", "alg-512", "sig-short", "nonce", "ueid", "null-payload"} {
			h := seqSteps([]int{60, 62, 64, 66, 68, 70}, 0)
			h[2].Fault = f
			doHist(c, cf, h, "refused-proof-survives-invalidation-fault", core.Params{"invfail": "2", "keepkeys": "1"})
		}
		// a genuine proof recorded in session 1 replayed in session 0, then the attacker goes on in session 0
		h := append(seqSteps([]int{60, 62}, 0), seqSteps([]int{60, 62, 64}, 1)...)
		h = append(h, hstep{Msg: 64, Sess: 0, Tok: 's', From: 1}, hstep{Msg: 66, Sess: 0, Tok: 's', From: 1}, hstep{Msg: 66, Sess: 0, Tok: 's', From: -1})
		emit(h, "proof-replayed-from-other-session")
		n := 40
		if !c.Quick() {
			n = 250
		}
		for i := 0; i < n; i++ {
			doHist(c, cf, genRandomTO2(c, 5+c.Rng.Intn(12)), "random-to2", nil)
		}
		doProofs(c, cf, 64, proofCount(c, 3*n))
	}
}

// genRandomTO2: a few TO2 sessions, deviations concentrated around ProveDevice and the tunnel.
func genRandomTO2(c *core.Ctx, n int) []hstep {
	r := c.Rng
	seq := honestSeq["TO2"]
	var pos []int
	var h []hstep
	for len(h) < n {
		if len(pos) == 0 || r.Intn(7) == 0 {
			h = append(h, hstep{Msg: 60, Sess: len(pos), Tok: 's', From: -1})
			pos = append(pos, 1)
			continue
		}
		si := r.Intn(len(pos))
		st := hstep{Sess: si, Tok: 's', From: -1}
		if pos[si] >= len(seq) {
			pos[si] = len(seq) - 1
		}
		st.Msg = seq[pos[si]]
		switch x := r.Intn(10); {
		case x < 6:
			pos[si]++
		case x < 8:
			fs := raw.Faults(st.Msg)
			st.Fault = fs[r.Intn(len(fs))]
		case x < 9 && len(pos) > 1:
			st.From = r.Intn(len(pos))
		default:
			st.Msg = seq[r.Intn(len(seq))]
		}
		if st.Msg == 60 {
			pos = append(pos, 1)
		}
		h = append(h, st)
	}
	return h
}

// RunC06: the rendezvous server registers a redirect only for the voucher's current owner.
func RunC06(c *core.Ctx) {
	srvSetup(c)
	defer closeSrvEnvs()
	c.Rep.Rule = srvRule("C06 adds: every OwnerSign fault (to0d hash, nonce, blob signed by a stranger / by an earlier owner, flipped or short signature, " +
		"voucher without entries, flipped entry signature, header+HMAC+certificate chain of another device spliced around the entries), replays " +
		"from a parallel and from a finished session, and TTL policies (refuse, shorten, extend, none) with a monitor comparing the stored expiry " +
		"and the reported WaitSeconds with the policy's value; all key types.")
	specs := env.AllKeys
	if c.Quick() {
		specs = []env.KeySpec{env.P256, env.RSA2048, env.P384}
	}
	for _, spec := range specs {
		cf := srvCfg{spec: spec, kex: env.DefaultKex(spec), cipher: kex.A128GcmCipher}
		if _, err := srvEnv(spec); err != nil {
			c.Note("env %s: %v", spec.Name, err)
			continue
		}
		emit := func(h []hstep, meta string) { doHist(c, cf, h, meta, nil) }
		genSystematic("TO0", emit)
		// replay of a complete OwnerSign from a finished session into a new one
		emit([]hstep{{Msg: 20, Sess: 0, Tok: 's', From: -1}, {Msg: 22, Sess: 0, Tok: 's', From: -1}, {Msg: 20, Sess: 1, Tok: 's', From: -1},
			{Msg: 22, Sess: 1, Tok: 's', From: 0}, {Msg: 22, Sess: 1, Tok: 's', From: -1}}, "replay-from-finished-session")
		// TO0 with the token of a session of another protocol, and with no Hello at all
		for _, start := range []int{10, 30, 60} {
			emit([]hstep{{Msg: start, Sess: 0, Tok: 's', From: -1}, {Msg: 20, Sess: 1, Tok: 's', From: -1}, {Msg: 22, Sess: 0, Tok: 's', From: 1}}, "ownersign-in-foreign-session")
		}
		// owner keys that travel as certificate chains [leaf, CA]: the key of the chain is its LEAF's
		for _, f := range append([]string{""}, raw.Faults(22)...) {
			h := seqSteps(honestSeq["TO0"], 0)
			h[1].Fault = f
			doHist(c, cf, h, "x5chain-owner-key", core.Params{"enc": "x5chain"})
		}
		// a voucher that has moved on to a second owner: every fault again, in particular a blob signed by the FORMER owner
		for _, f := range append([]string{""}, raw.Faults(22)...) {
			h := seqSteps(honestSeq["TO0"], 0)
			h[1].Fault = f
			doHist(c, cf, h, "two-entry-voucher", core.Params{"chain2": "1"})
		}
		for _, ttl := range []int{0, 1, 60, 3600, 86400, 1 << 31} {
			for _, f := range []string{"", "ttl-zero"} {
				h := seqSteps(honestSeq["TO0"], 0)
				h[1].Fault = f
				_, hr := doHist(c, cf, h, "ttl-policy", core.Params{"ttl": fmt.Sprint(ttl)})
				checkTTL(c, hr, uint32(ttl), true)
			}
		}
		_, hr := doHist(c, cf, seqSteps(honestSeq["TO0"], 0), "ttl-no-policy", nil)
		checkTTL(c, hr, raw.WaitSeconds, false)
		n := 30
		if !c.Quick() {
			n = 400
		}
		for i := 0; i < n; i++ {
			doHist(c, cf, genRandomOf(c, "TO0", 3+c.Rng.Intn(8)), "random-to0", nil)
		}
		doProofs(c, cf, 22, proofCount(c, 4*n))
		if !c.Quick() || spec.Name == env.P256.Name {
			reRegistrationExpiryProbe(c, spec)
		}
	}
}

// reRegistrationExpiryProbe: a second registration for the same GUID replaces the first one's lifetime as well as its
// blob: a refresh outlives the registration it refreshes, and a shorter registration ends an earlier longer one.
func reRegistrationExpiryProbe(c *core.Ctx, spec env.KeySpec) {
	e, err := srvEnv(spec)
	if err != nil {
		return
	}
	ctx, cancel := context.WithTimeout(context.Background(), time.Minute)
	defer cancel()
	addr := []protocol.RvTO2Addr{{DNSAddress: strp("owner.test"), Port: 8043, TransportProtocol: protocol.HTTPSTransport}}
	type plan struct {
		name        string
		first, then uint32
		wantServed  bool
	}
	var devs []*env.Device
	plans := []plan{{"short-then-long", 1, 3600, true}, {"long-then-short", 3600, 1, false}}
	for _, pl := range plans {
		dev, err := e.NewDevice(ctx, protocol.X509KeyEnc)
		if err != nil {
			c.Note("re-registration expiry probe: %v", err)
			return
		}
		devs = append(devs, dev)
		for _, ttl := range []uint32{pl.first, pl.then} {
			t := ttl
			e.AcceptTTL = func(uint32) (uint32, error) { return t, nil }
			_, err := e.TO0(ctx, dev.Cred.GUID, addr)
			e.AcceptTTL = nil
			if err != nil {
				c.Fail("re-registration-refused", fmt.Sprintf("%s: %v", pl.name, err), "srv.history", core.Params{"key": spec.Name}, core.Obs{})
				return
			}
		}
	}
	time.Sleep(2100 * time.Millisecond)
	for i, pl := range plans {
		d := raw.NewDriver(e, devs[i], raw.Config{Kex: env.DefaultKex(spec), Cipher: kex.A128GcmCipher})
		r := d.Do(raw.Step{Msg: 30, Tok: raw.TokNone, BodyFrom: -1})
		c.Rep.Evaluations++
		c.Count("re_registration_expiry", fmt.Sprintf("%s served=%v", pl.name, r.RespType == 31))
		if (r.RespType == 31) != pl.wantServed {
			c.Fail("re-registration-keeps-old-expiry:"+pl.name, fmt.Sprintf("registered for %d s, then again for %d s; 2.1 s later HelloRV was answered %d", pl.first, pl.then, r.RespType),
				"srv.history", core.Params{"key": spec.Name, "plan": pl.name}, core.Obs{})
		}
	}
}

// checkTTL: the blob is stored with expiry = now + accepted TTL and AcceptOwner reports the accepted TTL.
func checkTTL(c *core.Ctx, hr *histRun, ttl uint32, policy bool) {
	if hr == nil {
		return
	}
	for _, so := range hr.Steps {
		if so.Step.Msg != 22 {
			continue
		}
		p := core.Params{"ttl": fmt.Sprint(ttl), "fault": so.Step.Fault}
		if ttl == 0 {
			if so.Res.RespType != 255 || so.Kind != "" {
				c.Fail("ttl-zero-accepted", fmt.Sprintf("the policy returned 0 but the request was answered %d effects [%s]", so.Res.RespType, so.Kind), "srv.history", p, core.Obs{})
			}
			continue
		}
		if so.Res.RespType != 23 {
			continue
		}
		c.Rep.Evaluations++
		for _, e := range so.Res.Effects {
			if e.Kind != "rv-blob" {
				continue
			}
			got, _ := strconv.ParseInt(e.Info, 10, 64)
			if got < int64(ttl)-2 || got > int64(ttl)+2 {
				c.Fail("stored-expiry-differs-from-accepted-ttl", fmt.Sprintf("accepted TTL %d s (policy=%v), blob stored with %d s to live", ttl, policy, got), "srv.history", p, core.Obs{})
			}
		}
		var ack struct{ WaitSeconds uint32 }
		if err := cbor.Unmarshal(so.Res.Body, &ack); err != nil || ack.WaitSeconds != ttl {
			c.Fail("reported-ttl-differs-from-accepted-ttl", fmt.Sprintf("accepted TTL %d s, AcceptOwner reports %d (%v)", ttl, ack.WaitSeconds, err), "srv.history", p, core.Obs{})
		}
	}
}

// genRandomOf: random walk inside one protocol over a few sessions.
func genRandomOf(c *core.Ctx, name string, n int) []hstep {
	r := c.Rng
	seq := honestSeq[name]
	var pos []int
	var h []hstep
	for len(h) < n {
		if len(pos) == 0 || r.Intn(4) == 0 {
			h = append(h, hstep{Msg: seq[0], Sess: len(pos), Tok: 's', From: -1})
			pos = append(pos, 1)
			continue
		}
		si := r.Intn(len(pos))
		st := hstep{Msg: seq[len(seq)-1], Sess: si, Tok: 's', From: -1}
		switch x := r.Intn(10); {
		case x < 5:
		case x < 8:
			fs := raw.Faults(st.Msg)
			st.Fault = fs[r.Intn(len(fs))]
		case x < 9 && len(pos) > 1:
			st.From = r.Intn(len(pos))
		default:
			tf := tokForms[r.Intn(len(tokForms))]
			st.Tok, st.Variant = tf.tok, tf.v
		}
		h = append(h, st)
	}
	return h
}

// RunC07: TO1 releases the registered redirect, unmodified, only to the proven device.
func RunC07(c *core.Ctx) {
	srvSetup(c)
	registerRedirectKind(c)
	defer closeSrvEnvs()
	c.Rep.Rule = srvRule("C07 adds: every ProveToRV fault (nonce, other GUID, UEID type, foreign signer, genuine token of another enrolled device, flipped " +
		"signature, missing or mistyped nonce claim, null payload), replays across sessions; registrations probed inside the second in which they " +
		"expire; and on the device side the library's TO1+TO2 client given the registered blob unaltered and altered (payload, signature bit, " +
		"signature length, empty signature, re-signed by a stranger of the same and of another curve, algorithm header removed or changed) against " +
		"the model of the device's decision (dev.redirect = COSE model of verifyVoucher's to1d check).")
	specs := env.AllKeys
	if c.Quick() {
		specs = []env.KeySpec{env.P256, env.RSA2048, env.P384}
	}
	for si, spec := range specs {
		cf := srvCfg{spec: spec, kex: env.DefaultKex(spec), cipher: kex.A128GcmCipher}
		if _, err := srvEnv(spec); err != nil {
			c.Note("env %s: %v", spec.Name, err)
			continue
		}
		if os.Getenv("VERIF_C07_PART") == "more" { // development aid (the check never sets it): to1_more.go alone
			finish := autoRegistrationProbe(c, spec)
			noProofProbe(c, spec)
			finish()
			continue
		}
		emit := func(h []hstep, meta string) { doHist(c, cf, h, meta, nil) }
		genSystematic("TO1", emit)
		n := 30
		if !c.Quick() {
			n = 400
		}
		for i := 0; i < n; i++ {
			doHist(c, cf, genRandomOf(c, "TO1", 3+c.Rng.Intn(8)), "random-to1", nil)
		}
		doProofs(c, cf, 32, proofCount(c, 4*n))
		if !c.Quick() || si == 0 {
			expiryProbe(c, spec)
		}
		reRegistrationProbe(c, spec)
		finishAuto := autoRegistrationProbe(c, spec) // to1_more.go
		noProofProbe(c, spec)
		for _, alt := range redirectAlterations {
			p := core.Params{"key": spec.Name, "alt": alt}
			o := c.Do("dev.redirect", p, "device-side:"+alt)
			if strings.HasPrefix(o.Impl, "err-") {
				c.Fail("harness:"+firstWordOf(o.Impl), o.Impl, "dev.redirect", p, o)
				continue
			}
			sent64 := strings.Contains(o.Impl, "+64")
			impl := strings.TrimSuffix(o.Impl, "+64")
			_ = impl
			if alt == "none" && !strings.HasPrefix(o.Impl, "accept") {
				c.Fail("honest-redirect-refused:"+spec.Name, "the device refused the blob the owner registered", "dev.redirect", p, o)
			}
			if alt != "none" && (strings.HasPrefix(o.Impl, "accept") || sent64) {
				c.Fail("altered-redirect-accepted:"+alt, "the device went on with TO2 (ProveDevice sent: "+fmt.Sprint(sent64)+") although the redirect blob was altered: "+alt, "dev.redirect", p, o)
			}
		}
		finishAuto() // (the 1 s auto-registration has expired by now: no waiting)
	}
}

// expiryProbe registers blobs with a short life and asks for them right after the expiry instant (inside the same
// wall-clock second as the stored whole-second expiry) and well before it.
func expiryProbe(c *core.Ctx, spec env.KeySpec) {
	e, err := srvEnv(spec)
	if err != nil {
		return
	}
	ctx, cancel := context.WithTimeout(context.Background(), time.Minute)
	defer cancel()
	for round := 0; round < 2; round++ {
		dev, err := e.NewDevice(ctx, protocol.X509KeyEnc)
		if err != nil {
			c.Note("expiry probe: %v", err)
			return
		}
		e.AcceptTTL = func(uint32) (uint32, error) { return 2, nil }
		j0 := e.Journal.Len()
		_, err = e.TO0(ctx, dev.Cred.GUID, []protocol.RvTO2Addr{{DNSAddress: strp("owner.test"), Port: 8043, TransportProtocol: protocol.HTTPSTransport}})
		e.AcceptTTL = nil
		if err != nil {
			c.Note("expiry probe TO0: %v", err)
			return
		}
		_ = j0
		reg := time.Now()
		d := raw.NewDriver(e, dev, raw.Config{Kex: env.DefaultKex(spec), Cipher: kex.A128GcmCipher})
		probe := func(label string, wantServed bool) {
			r := d.Do(raw.Step{Msg: 30, Tok: raw.TokNone, BodyFrom: -1})
			c.Rep.Evaluations++
			c.Count("expiry_probe", fmt.Sprintf("%s served=%v", label, r.RespType == 31))
			if (r.RespType == 31) != wantServed {
				sig := "expired-registration-served"
				if wantServed {
					sig = "live-registration-refused"
				}
				c.Fail(sig, fmt.Sprintf("%s: HelloRV answered %d, %.3f s after a registration with 2 s to live", label, r.RespType, time.Since(reg).Seconds()), "srv.history",
					core.Params{"key": spec.Name, "probe": label}, core.Obs{})
			}
		}
		probe("before-expiry", true)
		// the stored expiry is (registration time + 2 s) truncated to whole seconds: it lies in (reg+1s, reg+2s]. Wait until
		// the wall clock has passed reg+2s by a few milliseconds: the registration has expired by any reading.
		time.Sleep(time.Until(reg.Add(2*time.Second + 20*time.Millisecond)))
		probe("just-after-expiry", false)
		time.Sleep(1100 * time.Millisecond)
		probe("one-second-after-expiry", false)
	}
}

// reRegistrationProbe: the owner registers again for the same GUID (other address, other TTL; after the voucher moved on
// to a new owner): TO1 must release the LATEST blob, also after a restart of the rendezvous service.
func reRegistrationProbe(c *core.Ctx, spec env.KeySpec) {
	e, err := srvEnv(spec)
	if err != nil {
		return
	}
	ctx, cancel := context.WithTimeout(context.Background(), time.Minute)
	defer cancel()
	dev, err := e.NewDevice(ctx, protocol.X509KeyEnc)
	if err != nil {
		c.Note("re-registration probe: %v", err)
		return
	}
	addr := func(host string, port uint16) []protocol.RvTO2Addr {
		return []protocol.RvTO2Addr{{DNSAddress: strp(host), Port: port, TransportProtocol: protocol.HTTPSTransport}}
	}
	regs := []struct {
		host string
		port uint16
		ttl  uint32
	}{{"owner.test", 8043, 3600}, {"owner2.test", 9043, 7200}, {"owner2.test", 9043, 60}, {"owner.test", 8043, 3600}, {"third.test", 1, 86400}}
	for i, rg := range regs {
		ttl := rg.ttl
		e.AcceptTTL = func(uint32) (uint32, error) { return ttl, nil }
		_, err := e.TO0(ctx, dev.Cred.GUID, addr(rg.host, rg.port))
		e.AcceptTTL = nil
		if err != nil {
			c.Fail("re-registration-refused", fmt.Sprintf("registration #%d for the same GUID: %v", i+1, err), "srv.history", core.Params{"key": spec.Name}, core.Obs{})
			return
		}
		for _, restart := range []bool{false, true} {
			if restart {
				if i != 1 && i != len(regs)-1 {
					continue
				}
				if err := e.Restart(); err != nil {
					c.Note("re-registration probe restart: %v", err)
					return
				}
			}
			to1d, err := e.TO1(ctx, dev)
			c.Rep.Evaluations++
			got := "error"
			if err == nil && to1d != nil && to1d.Payload != nil && len(to1d.Payload.Val.RV) == 1 && to1d.Payload.Val.RV[0].DNSAddress != nil {
				got = fmt.Sprintf("%s:%d", *to1d.Payload.Val.RV[0].DNSAddress, to1d.Payload.Val.RV[0].Port)
			}
			want := fmt.Sprintf("%s:%d", rg.host, rg.port)
			c.Count("re_registration", fmt.Sprintf("#%d restart=%v latest=%v", i+1, restart, got == want))
			if got != want {
				c.Fail("stale-redirect-served", fmt.Sprintf("after registration #%d (%s) TO1 released %s (restart=%v, err=%v)", i+1, want, got, restart, err), "srv.history",
					core.Params{"key": spec.Name, "registration": fmt.Sprint(i + 1)}, core.Obs{})
			}
		}
	}
}

var redirectAlterations = []string{"none", "payload-port", "payload-hash", "sig-flip", "sig-short", "sig-odd", "sig-empty", "resigned-stranger", "resigned-other-curve",
	"alg-removed", "alg-changed", "payload-null"}

// registerRedirectKind: the device side of C07. The library's TO2 client is given a (possibly altered) redirect blob; the
// model answers whether verifyVoucher's signature check lets it go on.
func registerRedirectKind(c *core.Ctx) {
	c.Register(&core.Kind{Name: "dev.redirect", Eval: func(p core.Params) (string, string) {
		spec := specByName(p["key"])
		e, err := srvEnv(spec)
		if err != nil {
			return "dev.redirect", "err-env " + err.Error()
		}
		ctx, cancel := context.WithTimeout(context.Background(), time.Minute)
		defer cancel()
		dev, err := e.NewDevice(ctx, protocol.X509KeyEnc)
		if err != nil {
			return "dev.redirect", "err-di " + err.Error()
		}
		if _, err := e.TO0(ctx, dev.Cred.GUID, []protocol.RvTO2Addr{{DNSAddress: strp("owner.test"), Port: 8043, TransportProtocol: protocol.HTTPSTransport}}); err != nil {
			return "dev.redirect", "err-to0 " + err.Error()
		}
		to1d, err := e.TO1(ctx, dev)
		if err != nil {
			return "dev.redirect", "err-to1 " + err.Error()
		}
		owner := env.Key(spec, "owner")
		pss := spec.Type == protocol.RsaPssKeyType
		resign := func(k crypto.Signer) {
			var opts crypto.SignerOpts
			if _, isEC := k.Public().(*ecdsa.PublicKey); !isEC {
				opts = rawSignOpts(k, pss)
			}
			to1d.Signature = nil
			to1d.Protected = nil
			if err := to1d.Sign(k, nil, nil, opts); err != nil {
				panic(err)
			}
		}
		switch p["alt"] {
		case "payload-port":
			to1d.Payload.Val.RV[0].Port++
		case "payload-hash":
			to1d.Payload.Val.To0dHash.Value[0] ^= 1
		case "sig-flip":
			to1d.Signature[len(to1d.Signature)/2] ^= 4
		case "sig-short":
			to1d.Signature = to1d.Signature[:len(to1d.Signature)-2]
		case "sig-odd":
			to1d.Signature = to1d.Signature[:len(to1d.Signature)-1]
		case "sig-empty":
			to1d.Signature = []byte{}
		case "resigned-stranger":
			to1d.Payload.Val.RV[0].Port++
			resign(env.Key(spec, "stranger"))
		case "resigned-other-curve":
			to1d.Payload.Val.RV[0].Port++
			var k crypto.Signer
			if spec.Type == protocol.Secp384r1KeyType {
				k, _ = ecdsa.GenerateKey(elliptic.P256(), rand.Reader)
			} else {
				k, _ = ecdsa.GenerateKey(elliptic.P384(), rand.Reader)
			}
			resign(k)
		case "alg-removed":
			to1d.Payload.Val.RV[0].Port++
			delete(to1d.Protected, cose.AlgLabel)
		case "alg-changed":
			to1d.Payload.Val.RV[0].Port++
			to1d.Protected[cose.AlgLabel] = int64(-36)
		case "payload-null":
			to1d.Payload = nil
		}
		obj, err := cbor.Marshal(to1d)
		if err != nil {
			return "dev.redirect", "err-marshal " + err.Error()
		}
		name := "env:" + spec.Name + ":owner"
		testKeys()
		keyBy[name] = &testKey{Name: name, Signer: owner}
		line := "dev.redirect raw " + keyArgs(keyBy[name]) + " b:" + hex.EncodeToString(obj)
		e.RT.Reset()
		_, terr := e.TO2(ctx, dev, to1d, dev.TO2Config(env.DefaultKex(spec), kex.A128GcmCipher))
		impl := "accept"
		if terr != nil {
			impl = "abort"
		}
		for _, ex := range e.RT.Log {
			if ex.MsgType == 64 && impl == "abort" {
				impl += "+64"
			}
		}
		return line, impl
	}})
}

func rawSignOpts(key crypto.Signer, pss bool) crypto.SignerOpts {
	return raw.SignOpts(key, pss)
}

// runC05Protocol: the tunnel at protocol level. Every fault of the encryption of 66/68/70 (plaintext, keys of the
// attacker's choosing, one flipped ciphertext bit, well-encrypted garbage) ends the session: the honest continuation
// on the same token is refused. The server's own encrypted replies never reuse an IV and are COSE wrappers.
func runC05Protocol(c *core.Ctx) {
	registerServerKinds(c)
	defer closeSrvEnvs()
	cfgs := []srvCfg{
		{env.P256, kex.ECDH256Suite, kex.A128GcmCipher, false},
		{env.RSA2048, kex.DHKEXid14Suite, kex.CoseAes128CtrCipher, false},
		{env.RSA2048, kex.ASYMKEX2048Suite, kex.CoseAes128CbcCipher, true},
	}
	if !c.Quick() {
		cfgs = append(cfgs, srvCfg{env.P384, kex.ECDH384Suite, kex.A256GcmCipher, false}, srvCfg{env.RSAPKCS, kex.DHKEXid15Suite, kex.CoseAes256CbcCipher, false},
			srvCfg{env.P256, kex.ECDH256Suite, kex.A192GcmCipher, true}, srvCfg{env.RSAPSS2, kex.ASYMKEX2048Suite, kex.CoseAes256CtrCipher, false})
	}
	ivs := map[string]string{}
	for _, cf := range cfgs {
		if _, err := srvEnv(cf.spec); err != nil {
			c.Note("env %s: %v", cf.spec.Name, err)
			continue
		}
		msgs := honestSeq["TO2"]
		run := func(h []hstep, meta string) {
			_, hr := doHist(c, cf, h, meta, nil)
			if hr == nil {
				return
			}
			for i, so := range hr.Steps {
				if so.Res.RespType < 65 || so.Res.RespType > 71 {
					continue
				}
				iv, wrapped := wireIV(so.Res.Body)
				if !wrapped {
					c.Fail(fmt.Sprintf("tunnel-reply-not-wrapped:%d", so.Res.RespType), fmt.Sprintf("reply %d of step %d is not a COSE_Encrypt0 / COSE_Mac0 object", so.Res.RespType, i), "srv.history", cf.params(h), core.Obs{})
					continue
				}
				c.Rep.Evaluations++
				key := hex.EncodeToString(iv)
				if prev, dup := ivs[key]; dup {
					c.Fail("iv-reused", fmt.Sprintf("IV %s of reply %d (%s) was used before in %s", key, so.Res.RespType, meta, prev), "srv.history", cf.params(h), core.Obs{})
				}
				ivs[key] = fmt.Sprintf("%s reply %d", cf.spec.Name, so.Res.RespType)
			}
		}
		run(seqSteps(msgs, 0), "honest:TO2")
		for i := 3; i < len(msgs); i++ {
			for _, f := range []string{"plaintext", "wrong-keys", "zero-keys", "bitflip", "enc-garbage", "enc-truncated", "garbage", "empty"} {
				h := append(seqSteps(msgs[:i+1], 0), seqSteps(msgs[i:], 0)...) // the faulty message, then the honest one and the rest
				h[i].Fault = f
				run(h, "tunnel-fault-then-honest-retry")
			}
		}
		// another session's ciphertext
		h := append(seqSteps(msgs[:3], 0), seqSteps(msgs[:4], 1)...)
		h = append(h, hstep{Msg: 66, Sess: 0, Tok: 's', From: 1}, hstep{Msg: 66, Sess: 0, Tok: 's', From: -1})
		run(h, "ciphertext-of-other-session")
	}
	runC05KeylessProtocol(c) // tunnel_keys.go: 66/68/70 before any ProveDevice, per key exchange family
	c.Count("distinct_reply_ivs", fmt.Sprint(len(ivs) > 0))
}

// wireIV extracts the IV (unprotected header 5) of a COSE_Encrypt0, possibly wrapped in a COSE_Mac0.
func wireIV(body []byte) (iv []byte, wrapped bool) {
	var e0 cose.Encrypt0Tag[[]byte, []byte]
	if err := cbor.Unmarshal(body, &e0); err == nil {
		ok, _ := e0.Unprotected.Parse(cose.Label{Int64: 5}, &iv)
		return iv, ok
	}
	var m0 cose.Mac0Tag[cbor.RawBytes, []byte]
	if err := cbor.Unmarshal(body, &m0); err == nil && m0.Payload != nil {
		var inner cose.Encrypt0[[]byte, []byte]
		if err := cbor.Unmarshal([]byte(m0.Payload.Val), &inner); err == nil {
			ok, _ := inner.Unprotected.Parse(cose.Label{Int64: 5}, &iv)
			return iv, ok
		}
		var innerT cose.Encrypt0Tag[[]byte, []byte]
		if err := cbor.Unmarshal([]byte(m0.Payload.Val), &innerT); err == nil {
			ok, _ := innerT.Unprotected.Parse(cose.Label{Int64: 5}, &iv)
			return iv, ok
		}
	}
	return nil, false
}
