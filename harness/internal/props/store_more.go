// C18, key exchange sessions: what the owner service stores between two TO2 messages (sqlite.DB.SetXSession) must come
// back (XSession) as a session that WORKS like the one stored - in the same process and after the database file was closed
// and opened again - for every key exchange suite x every cipher suite the library registers, at both points at which
// the TO2 responder stores it: after Parameter() (HelloDevice; the restored session must still complete the exchange with
// the device's parameter) and after SetParameter() (ProveDevice; the restored session must hold the device's keys).
//
// The histories of store.go compare the re-marshalled bytes of a restored session for a sample of (suite, cipher); this
// file sweeps the whole matrix and judges by behaviour: same cipher suite id and algorithms, same keys, a message
// encrypted by the DEVICE-side session decrypts with the restored owner session and the other way round.
package props

import (
	"bytes"
	"context"
	"crypto/rand"
	"crypto/rsa"
	"fmt"
	"os"
	"path/filepath"
	"strings"
	"time"

	"github.com/fido-device-onboard/go-fdo/cbor"
	"github.com/fido-device-onboard/go-fdo/kex"
	"github.com/fido-device-onboard/go-fdo/protocol"
	"github.com/fido-device-onboard/go-fdo/sqlite"

	"verifharness/internal/core"
	"verifharness/internal/env"
)

const stxKind = "store.xsession"

// stxAllCiphers: every cipher suite id the library names (registered or not; the unregistered ones are counted and skipped).
var stxAllCiphers = []kex.CipherSuiteID{kex.A128GcmCipher, kex.A192GcmCipher, kex.A256GcmCipher,
	kex.AesCcm16_128_128Cipher, kex.AesCcm16_128_256Cipher, kex.AesCcm64_128_128Cipher, kex.AesCcm64_128_256Cipher,
	kex.CoseAes128CbcCipher, kex.CoseAes128CtrCipher, kex.CoseAes256CbcCipher, kex.CoseAes256CtrCipher}

var stxAllSuites = []kex.Suite{kex.ECDH256Suite, kex.ECDH384Suite, kex.DHKEXid14Suite, kex.DHKEXid15Suite, kex.ASYMKEX2048Suite, kex.ASYMKEX3072Suite}

// stxCrypter returns the cipher state of a session of any of the library's three session types.
func stxCrypter(s kex.Session) (kex.SessionCrypter, bool) {
	switch x := s.(type) {
	case *kex.ECDHSession:
		return x.SessionCrypter, true
	case *kex.DHSession:
		return x.SessionCrypter, true
	case *kex.OAEPSession:
		return x.SessionCrypter, true
	}
	return kex.SessionCrypter{}, false
}

// stxPayloads: lengths around the AES block size (CBC padding), empty, and more than one service info message.
var stxPayloadLens = []int{0, 1, 15, 16, 17, 1300}

// stxTalk: a message encrypted by from must decrypt with to and give the payload back. Returns "" or what went wrong.
func stxTalk(from, to kex.Session, dir string) string {
	for _, n := range stxPayloadLens {
		payload := make([]byte, n)
		for i := range payload {
			payload[i] = byte(i*7 + n)
		}
		want, _ := cbor.Marshal(payload)
		ct, err := from.Encrypt(rand.Reader, payload)
		if err != nil {
			return fmt.Sprintf("%s: Encrypt of %d bytes failed: %v", dir, n, err)
		}
		wire, err := cbor.Marshal(ct)
		if err != nil {
			return fmt.Sprintf("%s: encoding the ciphertext failed: %v", dir, err)
		}
		got, err := to.Decrypt(rand.Reader, bytes.NewReader(wire))
		if err != nil {
			return fmt.Sprintf("%s: Decrypt of a %d byte message failed: %v", dir, n, err)
		}
		if !bytes.Equal(got, want) {
			return fmt.Sprintf("%s: a %d byte message decrypted to other bytes", dir, n)
		}
	}
	return ""
}

// stxCase is one stored session.
type stxCase struct {
	suite  kex.Suite
	cipher kex.CipherSuiteID
	stage  string // "param" (after Parameter), "keys" (after SetParameter), "param-then-keys" (stored twice through one token)
	token  string
	orig   kex.Session // the session as it was stored last (never used afterwards, so that it stays what was stored)
	dev    kex.Session // the device side of the same exchange (holds the keys)
	xB     []byte      // the device's parameter
	priv   *rsa.PrivateKey
}

func (k *stxCase) params(phase string) core.Params {
	return core.Params{"suite": string(k.suite), "cipher": k.cipher.String(), "cipher_id": fmt.Sprint(int64(k.cipher)), "stage": k.stage, "phase": phase}
}

// stxJudge compares the session read back in some phase with the one stored.
func stxJudge(c *core.Ctx, db *sqlite.DB, k *stxCase, phase string) {
	c.Rep.Evaluations++
	c.Count("xsession_case", fmt.Sprintf("%s/%s", k.stage, phase))
	var bad []string
	defer func() {
		if r := recover(); r != nil {
			bad = append(bad, fmt.Sprintf("panic: %v", r))
		}
		if len(bad) > 0 {
			c.Count("xsession_outcome", "bad")
			c.Fail(fmt.Sprintf("xsession-not-restored:%s:%s", k.suite, k.cipher), fmt.Sprintf("stage %s, %s: %s", k.stage, phase, strings.Join(bad, "; ")),
				stxKind, k.params(phase), core.Obs{Impl: strings.Join(bad, "; ")})
		} else {
			c.Count("xsession_outcome", "ok")
		}
	}()
	suite, got, err := db.XSession(db.TokenContext(context.Background(), k.token))
	if err != nil {
		bad = append(bad, "XSession: "+err.Error())
		return
	}
	if suite != k.suite {
		bad = append(bad, fmt.Sprintf("suite read back is %q", suite))
	}
	if fmt.Sprintf("%T", got) != fmt.Sprintf("%T", k.orig) {
		bad = append(bad, fmt.Sprintf("session read back is a %T, stored a %T", got, k.orig))
		return
	}
	oc, _ := stxCrypter(k.orig)
	gc, ok := stxCrypter(got)
	if !ok {
		bad = append(bad, fmt.Sprintf("unknown session type %T", got))
		return
	}
	if gc.ID != k.cipher || gc.ID != oc.ID {
		bad = append(bad, fmt.Sprintf("cipher suite id read back is %d (%s)", int64(gc.ID), gc.ID))
	}
	if gc.Cipher != oc.Cipher {
		bad = append(bad, fmt.Sprintf("algorithms read back are enc=%d mac=%d prf=%v, stored enc=%d mac=%d prf=%v", gc.Cipher.EncryptAlg, gc.Cipher.MacAlg, gc.Cipher.PRFHash,
			oc.Cipher.EncryptAlg, oc.Cipher.MacAlg, oc.Cipher.PRFHash))
	}
	if want := k.cipher.Suite(); gc.Cipher != want {
		bad = append(bad, fmt.Sprintf("algorithms read back (enc=%d mac=%d) are not those of cipher suite %s (enc=%d mac=%d)", gc.Cipher.EncryptAlg, gc.Cipher.MacAlg, k.cipher, want.EncryptAlg, want.MacAlg))
	}
	if !bytes.Equal(gc.SEK, oc.SEK) || !bytes.Equal(gc.SVK, oc.SVK) {
		bad = append(bad, fmt.Sprintf("keys read back differ from the keys stored (SEK %d/%d bytes, SVK %d/%d bytes)", len(gc.SEK), len(oc.SEK), len(gc.SVK), len(oc.SVK)))
	}
	if d, err := stKexDig(k.suite, k.orig); err == nil {
		if d2, err2 := stKexDig(suite, got); err2 != nil || d2 != d {
			bad = append(bad, fmt.Sprintf("the session read back marshals to other bytes than the one stored (%v)", err2))
		}
	}
	if k.stage == "param" {
		// the exchange is completed by the RESTORED session, as the TO2 responder does on ProveDevice
		if err := got.SetParameter(bytes.Clone(k.xB), k.priv); err != nil {
			bad = append(bad, "SetParameter on the session read back: "+err.Error())
			return
		}
		gc, _ = stxCrypter(got)
		dc, _ := stxCrypter(k.dev)
		if !bytes.Equal(gc.SEK, dc.SEK) || !bytes.Equal(gc.SVK, dc.SVK) {
			bad = append(bad, "the keys the restored session derives from the device's parameter are not the device's")
		}
	}
	if len(gc.SEK) == 0 {
		bad = append(bad, "the session read back has no encryption key")
		return
	}
	if s := stxTalk(k.dev, got, "device->owner"); s != "" {
		bad = append(bad, s)
	}
	if s := stxTalk(got, k.dev, "owner->device"); s != "" {
		bad = append(bad, s)
	}
}

// stxMatrix runs the whole sweep on one database file.
func stxMatrix(c *core.Ctx) {
	t0 := time.Now()
	c.Rep.Rule += " KEY EXCHANGE SESSIONS (store_more.go): every key exchange suite x every registered cipher suite, owner session stored through SetXSession after Parameter(), after SetParameter(), and " +
		"both in turn through one token; read back in the same process (twice, the second time in reverse order after all others were written) and after closing and reopening the file (twice): same suite, " +
		"session type, cipher suite id, algorithms, keys and marshalled bytes; a session stored before SetParameter completes the exchange with the device's parameter to the device's keys; messages of " +
		"0/1/15/16/17/1300 bytes encrypted by the device-side session decrypt with the session read back and the other way round: xsession-not-restored:<suite>:<cipher>."
	bg := context.Background()
	path := filepath.Join(WorkDir(), fmt.Sprintf("c18-xsess-%d-%d.db", os.Getpid(), stFileSeq.Add(1)))
	defer func() {
		for _, sfx := range []string{"", "-wal", "-shm", "-journal"} {
			_ = os.Remove(path + sfx)
		}
	}()
	db, err := stOpen(path, true)
	if err != nil {
		c.Fail("harness:xsession", "open: "+err.Error(), stxKind, core.Params{}, core.Obs{})
		return
	}
	defer func() {
		if db != nil {
			_ = db.Close()
		}
	}()
	rsa2 := env.Key(env.RSA2048, "owner").(*rsa.PrivateKey)
	rsa3 := env.Key(env.RSAPKCS, "owner").(*rsa.PrivateKey)

	// mk builds owner and device session of one exchange; full: the owner has the device's parameter already.
	mk := func(suite kex.Suite, cipher kex.CipherSuiteID, stage string) (*stxCase, error) {
		k := &stxCase{suite: suite, cipher: cipher, stage: stage}
		switch suite {
		case kex.ASYMKEX2048Suite:
			k.priv = rsa2
		case kex.ASYMKEX3072Suite:
			k.priv = rsa3
		}
		var pub *rsa.PublicKey
		if k.priv != nil {
			pub = &k.priv.PublicKey
		}
		owner := suite.New(nil, cipher)
		if owner == nil {
			return nil, fmt.Errorf("suite.New returned nil")
		}
		xA, err := owner.Parameter(rand.Reader, pub)
		if err != nil {
			return nil, fmt.Errorf("owner Parameter: %w", err)
		}
		k.dev = suite.New(bytes.Clone(xA), cipher)
		xB, err := k.dev.Parameter(rand.Reader, pub)
		if err != nil {
			return nil, fmt.Errorf("device Parameter: %w", err)
		}
		k.xB = bytes.Clone(xB)
		k.orig = owner
		tok, err := db.NewToken(bg, protocol.TO2Protocol)
		if err != nil {
			return nil, fmt.Errorf("NewToken: %w", err)
		}
		k.token = tok
		return k, nil
	}
	complete := func(k *stxCase) error { return k.orig.SetParameter(bytes.Clone(k.xB), k.priv) }
	store := func(k *stxCase) error { return db.SetXSession(db.TokenContext(bg, k.token), k.suite, k.orig) }

	var cases []*stxCase
	nReg, nUnreg := 0, 0
	for _, suite := range stxAllSuites {
		for _, cipher := range stxAllCiphers {
			if !kex.Available(suite, cipher) {
				nUnreg++
				c.Count("xsession_unregistered", fmt.Sprintf("%s/%d", suite, int64(cipher)))
				continue
			}
			nReg++
			c.Count("xsession_matrix", fmt.Sprintf("%s/%s", suite, cipher))
			for _, stage := range []string{"param", "keys", "param-then-keys"} {
				k, err := mk(suite, cipher, stage)
				if err == nil && stage == "keys" {
					err = complete(k)
				}
				if err == nil {
					err = store(k)
				}
				if err == nil && stage == "param-then-keys" {
					// the responder's own sequence: stored on HelloDevice, read, completed, stored again through the same token
					k.stage = "param"
					cp := *k
					stxJudge(c, db, &cp, "same-process-before-overwrite")
					k.stage = stage
					if err = complete(k); err == nil {
						err = store(k)
					}
				}
				if err != nil {
					c.Fail(fmt.Sprintf("xsession-not-restored:%s:%s", suite, cipher), fmt.Sprintf("stage %s: storing failed: %v", stage, err), stxKind, k2p(suite, cipher, stage), core.Obs{Impl: err.Error()})
					continue
				}
				cases = append(cases, k)
			}
		}
	}
	// same process. A "param" session is completed by the judge on the copy read back, never on the stored original.
	for _, k := range cases {
		stxJudge(c, db, k, "same-process")
	}
	// every session is still its own after all the others were written and read (isolation across tokens), in reverse order
	for i := len(cases) - 1; i >= 0; i-- {
		stxJudge(c, db, cases[i], "same-process-again")
	}
	// close, open the file again: nothing survives but the file
	if err := db.Close(); err != nil {
		c.Fail("harness:xsession", "close: "+err.Error(), stxKind, core.Params{}, core.Obs{})
	}
	db, err = stOpen(path, true)
	if err != nil {
		db = nil
		c.Fail("harness:xsession", "reopen: "+err.Error(), stxKind, core.Params{}, core.Obs{})
		return
	}
	for _, k := range cases {
		stxJudge(c, db, k, "reopened")
	}
	// and once more through a second restart with the default (synchronous) settings
	_ = db.Close()
	db, err = stOpen(path, false)
	if err != nil {
		db = nil
		c.Fail("harness:xsession", "second reopen: "+err.Error(), stxKind, core.Params{}, core.Obs{})
		return
	}
	for i := len(cases) - 1; i >= 0; i-- {
		stxJudge(c, db, cases[i], "reopened-twice")
	}
	c.Note("key exchange session matrix: %d (suite, cipher) pairs registered (%d named but not registered, skipped), %d stored sessions, judged in 4-5 phases each, %.1fs",
		nReg, nUnreg, len(cases), time.Since(t0).Seconds())
}

func k2p(suite kex.Suite, cipher kex.CipherSuiteID, stage string) core.Params {
	return core.Params{"suite": string(suite), "cipher": cipher.String(), "cipher_id": fmt.Sprint(int64(cipher)), "stage": stage}
}

// development aid: `implrun -prop C18-XSESSION` runs the matrix alone
func init() {
	Registry["C18-XSESSION"] = func(c *core.Ctx) {
		if p := stPool(); p.err != nil {
			c.Fail("harness", p.err.Error(), stxKind, core.Params{}, core.Obs{})
			return
		}
		stxMatrix(c)
	}
}
