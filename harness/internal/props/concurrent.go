// C19: many devices against one server instance, and the device-side TO2 pipeline under permuted goroutine speeds.
//
// Part 1 (concurrent onboardings) builds ONE deployment (one http.Handler, one set of DI/TO0/TO1/TO2 responders, one
// SQLite store) that holds manufacturer and owner keys of several key types and lets N devices of mixed key types, key
// encodings, key exchanges and ciphers run DI -> TO0 -> TO1 -> TO2 (and, for some, a second TO0 -> TO1 -> TO2 with the
// replaced credential) at the same time. Every device carries a unique tag in its devmod serial number; the owner module
// of a session streams bytes derived from the tag it finds in the devmod the SERVER hands it, the device module streams
// bytes derived from its own tag, and each side verifies what it receives byte by byte: data that crossed from one
// session into another cannot go unnoticed.
//
// Part 2 (device-side pipeline) runs single TO2s whose device module, transport and owner module sleep for permuted
// delays, for service-info volumes below the documented buffering bound (to2.go: 1000 buffered logical service infos per
// direction and round), each under a watchdog; plus cancellation and transport-failure runs.
//
// Races are read from the race detector's log files at the end (see c19CollectRaces) and reported as failures.
package props

import (
	"bytes"
	"context"
	"crypto/hmac"
	"crypto/rand"
	"crypto/sha256"
	"crypto/sha512"
	"crypto/x509"
	"crypto/x509/pkix"
	"errors"
	"fmt"
	"io"
	"iter"
	mrand "math/rand"
	"net/http"
	"net/http/httptest"
	"net/url"
	"os"
	"path/filepath"
	"runtime"
	"sort"
	"strconv"
	"strings"
	"sync"
	"sync/atomic"
	"time"

	fdo "github.com/fido-device-onboard/go-fdo"
	"github.com/fido-device-onboard/go-fdo/cbor"
	"github.com/fido-device-onboard/go-fdo/cose"
	"github.com/fido-device-onboard/go-fdo/custom"
	"github.com/fido-device-onboard/go-fdo/fsim"
	fdohttp "github.com/fido-device-onboard/go-fdo/http"
	"github.com/fido-device-onboard/go-fdo/kex"
	"github.com/fido-device-onboard/go-fdo/protocol"
	"github.com/fido-device-onboard/go-fdo/serviceinfo"

	"verifharness/internal/core"
	"verifharness/internal/env"
)

const c19Module = "verif.c19"

// ---- tagged streams ----

// c19Gen is the byte stream of one (tag, direction): every byte depends on the tag and on its offset.
type c19Gen struct{ k [32]byte }

func newC19Gen(tag string, dir byte) c19Gen {
	return c19Gen{sha256.Sum256(append([]byte{dir}, tag...))}
}

func (g c19Gen) at(off int) byte { return g.k[off&31] ^ byte(off>>5) ^ byte(off>>13) }

func (g c19Gen) fill(b []byte, off int) {
	for i := range b {
		b[i] = g.at(off + i)
	}
}

// check returns the index of the first byte that is not the stream's, or -1.
func (g c19Gen) check(b []byte, off int) int {
	for i := range b {
		if b[i] != g.at(off+i) {
			return i
		}
	}
	return -1
}

// ---- plans ----

// c19Plan is everything that distinguishes one device run.
type c19Plan struct {
	Tag     string
	Spec    env.KeySpec
	Enc     protocol.KeyEncoding
	Suite   kex.Suite
	Cipher  kex.CipherSuiteID
	NMods   int  // extra module names the device lists in devmod
	DevSize int  // bytes the device module streams to the owner module
	OwnSize int  // bytes the owner module streams to the device module
	Block   bool // the owner module sets IsMoreServiceInfo while it streams
	InYield bool // the device module sends its stream from Yield instead of from Receive
	Second  bool // after the credential was replaced: TO2 once more (unused: the owner refuses a replacement voucher, which has no entries, until it was extended to a next owner)
	Seed    int64
	// delays: fixed (Fix=true) or uniformly random in [0, d]
	Fix                bool
	DevDelay, OwnDelay time.Duration
	// part 2 only
	DoubleYield    bool // side probe: the device module yields twice in a row (see c19Pipe.sideProbe)
	BlockInReceive bool // the device module stops inside Receive until its context is cancelled (at most 10 s)
}

func (p *c19Plan) cfgKey() string {
	return fmt.Sprintf("%s/%s/%s/%s", p.Spec.Name, mxEncName(p.Enc), p.Suite, mxCipherName(p.Cipher))
}

func (p *c19Plan) params() core.Params {
	return core.Params{"tag": p.Tag, "key": p.Spec.Name, "enc": mxEncName(p.Enc), "kex": string(p.Suite), "cipher": mxCipherName(p.Cipher),
		"mods": strconv.Itoa(p.NMods), "dev_bytes": strconv.Itoa(p.DevSize), "own_bytes": strconv.Itoa(p.OwnSize),
		"block": boolTF(p.Block), "in_yield": boolTF(p.InYield), "second": boolTF(p.Second),
		"seed": strconv.FormatInt(p.Seed, 10), "dev_delay": p.DevDelay.String(), "own_delay": p.OwnDelay.String(), "fixed_delay": boolTF(p.Fix)}
}

func c19Sleep(fix bool, d time.Duration) {
	if d <= 0 {
		return
	}
	if !fix {
		d = time.Duration(mrand.Int63n(int64(d) + 1))
	}
	time.Sleep(d)
}

func c19Suites(spec env.KeySpec) []kex.Suite {
	switch {
	case spec.Type == protocol.Secp256r1KeyType:
		return []kex.Suite{kex.ECDH256Suite}
	case spec.Type == protocol.Secp384r1KeyType:
		return []kex.Suite{kex.ECDH384Suite}
	case spec.Bits >= 3072:
		return []kex.Suite{kex.DHKEXid15Suite, kex.ASYMKEX3072Suite}
	}
	return []kex.Suite{kex.DHKEXid14Suite, kex.ASYMKEX2048Suite}
}

// ---- owner side: one module instance per TO2 session ----

// c19Sess is what the harness knows about one TO2 run of one device (keyed by the tag in the devmod serial).
type c19Sess struct {
	plan   *c19Plan
	mu     sync.Mutex
	owners []*c19Owner
}

type c19Registry struct {
	mu    sync.Mutex
	m     map[string]*c19Sess
	stray []string // owner modules requested for a serial nobody registered
}

func (r *c19Registry) add(tag string, s *c19Sess) {
	r.mu.Lock()
	r.m[tag] = s
	r.mu.Unlock()
}

func (r *c19Registry) drop(tag string) {
	r.mu.Lock()
	delete(r.m, tag)
	r.mu.Unlock()
}

func (r *c19Registry) get(tag string) *c19Sess {
	r.mu.Lock()
	defer r.mu.Unlock()
	return r.m[tag]
}

func (r *c19Registry) takeStray() []string {
	r.mu.Lock()
	defer r.mu.Unlock()
	s := r.stray
	r.stray = nil
	return s
}

// c19Owner is the owner module of one session. Everything it sends is derived from the tag the server handed it.
type c19Owner struct {
	mu        sync.Mutex
	tag       string
	guid      protocol.GUID
	supported []string
	plan      *c19Plan
	gen, peer c19Gen
	calls     int
	sent      int
	endSent   bool
	devGot    int
	fin       bool
	finBuf    []byte
	active    bool
	bad       []string
}

func (o *c19Owner) flag(format string, a ...any) {
	if len(o.bad) < 8 {
		o.bad = append(o.bad, fmt.Sprintf(format, a...))
	}
}

func (o *c19Owner) HandleInfo(ctx context.Context, name string, body io.Reader) error {
	c19Sleep(o.plan.Fix, o.plan.OwnDelay)
	o.mu.Lock()
	defer o.mu.Unlock()
	if dm, ok := serviceinfo.DevmodFromContext(ctx); !ok || string(dm.Serial) != o.tag {
		got := "<none>"
		if ok {
			got = string(dm.Serial)
		}
		o.flag("HandleInfo context carries the devmod of serial %q, the session's is %q", got, o.tag)
	}
	switch name {
	case "active":
		var a bool
		if err := cbor.NewDecoder(body).Decode(&a); err != nil {
			return err
		}
		o.active = a
	case "data":
		buf := make([]byte, 4096)
		for {
			n, err := body.Read(buf)
			if n > 0 {
				if i := o.peer.check(buf[:n], o.devGot); i >= 0 {
					o.flag("device stream byte %d is not the byte of the stream of %q", o.devGot+i, o.tag)
				}
				o.devGot += n
			}
			if err != nil {
				break
			}
		}
	case "fin":
		// the device-side chunker cuts a logical message wherever a 68 is full, so even this five-byte value may arrive in
		// two fragments (two HandleInfo calls): collect until it decodes
		b, _ := io.ReadAll(body)
		o.finBuf = append(o.finBuf, b...)
		var total int
		if err := cbor.Unmarshal(o.finBuf, &total); err != nil {
			if len(o.finBuf) < 9 {
				return nil
			}
			return err
		}
		o.fin = true
		if total != o.devGot || total != o.plan.DevSize {
			o.flag("device announced %d bytes, owner module received %d, planned %d", total, o.devGot, o.plan.DevSize)
		}
	default:
		o.flag("unexpected message %q", name)
	}
	return nil
}

func (o *c19Owner) ProduceInfo(ctx context.Context, p *serviceinfo.Producer) (bool, bool, error) {
	c19Sleep(o.plan.Fix, o.plan.OwnDelay)
	o.mu.Lock()
	defer o.mu.Unlock()
	o.calls++
	if o.calls == 1 {
		if err := p.WriteChunk("active", []byte{0xf5}); err != nil {
			return false, false, err
		}
		v, _ := cbor.Marshal([]byte(o.tag))
		if err := p.WriteChunk("start", v); err != nil {
			return false, false, err
		}
	}
	for o.sent < o.plan.OwnSize {
		n := p.Available("data") - 6
		if n <= 0 {
			break
		}
		n = min(n, o.plan.OwnSize-o.sent)
		b := make([]byte, n)
		o.gen.fill(b, o.sent)
		if err := p.WriteChunk("data", b); err != nil {
			return false, false, err
		}
		o.sent += n
	}
	if o.sent < o.plan.OwnSize {
		return o.plan.Block, false, nil
	}
	if !o.endSent {
		if p.Available("end") < 12 {
			return o.plan.Block, false, nil
		}
		v, _ := cbor.Marshal(o.sent)
		if err := p.WriteChunk("end", v); err != nil {
			return false, false, err
		}
		o.endSent = true
		return false, false, nil
	}
	if o.calls > 5000 || (o.plan.DoubleYield && o.calls > 60) {
		return false, false, fmt.Errorf("c19 owner module: device never finished")
	}
	return false, o.fin, nil
}

// ---- device side ----

type c19Dev struct {
	mu       sync.Mutex
	tag      string
	plan     *c19Plan
	gen      c19Gen // the device's own stream
	peer     c19Gen // the stream the owner module of THIS device's session sends
	rng      *mrand.Rand
	started  bool
	streamed bool
	ownGot   int
	ownEnd   int
	receives int
	yields   int
	bad      []string
	// part 2: blocking inside Receive
	blocked   chan struct{} // closed once the module sits inside Receive
	ctxDone   chan struct{} // closed when the module's context was cancelled while it sat there
	blockOnce sync.Once
}

func newC19Dev(pl *c19Plan) *c19Dev {
	return &c19Dev{tag: pl.Tag, plan: pl, gen: newC19Gen(pl.Tag, 'd'), peer: newC19Gen(pl.Tag, 'o'), rng: mrand.New(mrand.NewSource(pl.Seed)),
		ownEnd: -1, blocked: make(chan struct{}), ctxDone: make(chan struct{})}
}

func (d *c19Dev) flag(format string, a ...any) {
	if len(d.bad) < 8 {
		d.bad = append(d.bad, fmt.Sprintf(format, a...))
	}
}

func (d *c19Dev) Transition(bool) error { return nil }

func (d *c19Dev) Receive(ctx context.Context, name string, body io.Reader, respond func(string) io.Writer, yield func()) error {
	c19Sleep(d.plan.Fix, d.plan.DevDelay)
	d.mu.Lock()
	defer d.mu.Unlock()
	d.receives++
	switch name {
	case "start":
		var t []byte
		if err := cbor.NewDecoder(body).Decode(&t); err != nil {
			return err
		}
		if string(t) != d.tag {
			d.flag("owner module addressed serial %q, this device is %q", t, d.tag)
		}
		d.started = true
		if d.plan.BlockInReceive {
			return d.blockInside(ctx, respond, yield)
		}
		if !d.plan.InYield {
			return d.stream(respond, yield)
		}
	case "data":
		buf := make([]byte, 4096)
		for {
			n, err := body.Read(buf)
			if n > 0 {
				if i := d.peer.check(buf[:n], d.ownGot); i >= 0 {
					d.flag("owner stream byte %d is not the byte of the stream for %q", d.ownGot+i, d.tag)
				}
				d.ownGot += n
			}
			if err != nil {
				break
			}
		}
	case "end":
		if err := cbor.NewDecoder(body).Decode(&d.ownEnd); err != nil {
			return err
		}
	default:
		d.flag("unexpected message %q", name)
		_, _ = io.Copy(io.Discard, body)
	}
	return nil
}

func (d *c19Dev) Yield(ctx context.Context, respond func(string) io.Writer, yield func()) error {
	c19Sleep(d.plan.Fix, d.plan.DevDelay)
	d.mu.Lock()
	defer d.mu.Unlock()
	d.yields++
	if d.started && !d.streamed && d.plan.InYield {
		return d.stream(respond, yield)
	}
	return nil
}

// stream writes the device's stream and the closing "fin", in one of two styles (by the plan's seed): large writes of random
// sizes without any yield (the library chunks them at the MTU), or, as fsim.Upload does, writes of at most 1000 bytes each
// followed by a yield. At most ~135 logical service infos: well below the bound of 1000.
//
// Deliberately NOT used: a yield after a write larger than the MTU. When such a write happens to end exactly at the end of
// a 68, or a module yields twice in a row, the forced message break is the first thing of the next 68, exchangeServiceInfoRound
// takes it for "nothing more to send" and the rest of the round's device service info is silently dropped: that loses data
// for a device running alone as well (no concurrency involved), so it is outside this property; see the note in RunC19.
func (d *c19Dev) stream(respond func(string) io.Writer, yield func()) error {
	d.streamed = true
	if d.plan.DoubleYield {
		b := make([]byte, d.plan.DevSize)
		d.gen.fill(b, 0)
		h := len(b) / 2
		_, _ = respond("data").Write(b[:h])
		yield()
		yield()
		_, _ = respond("data").Write(b[h:])
		return cbor.NewEncoder(respond("fin")).Encode(d.plan.DevSize)
	}
	small := d.rng.Intn(2) == 0
	for off := 0; off < d.plan.DevSize; {
		n := 1 + d.rng.Intn(3000)
		if small {
			n = 1 + d.rng.Intn(1000)
		}
		n = min(n, d.plan.DevSize-off)
		b := make([]byte, n)
		d.gen.fill(b, off)
		if _, err := respond("data").Write(b); err != nil {
			return err
		}
		off += n
		if small {
			yield()
		}
	}
	return cbor.NewEncoder(respond("fin")).Encode(d.plan.DevSize)
}

// blockInside: send something, force a message boundary so that the transport has a 68 to send, and sit inside Receive
// until the context the library handed the module is cancelled.
func (d *c19Dev) blockInside(ctx context.Context, respond func(string) io.Writer, yield func()) error {
	b := make([]byte, 100)
	d.gen.fill(b, 0)
	_, _ = respond("data").Write(b)
	yield()
	d.blockOnce.Do(func() { close(d.blocked) })
	select {
	case <-ctx.Done():
		close(d.ctxDone)
		return ctx.Err()
	case <-time.After(10 * time.Second):
		return errors.New("c19 device module: context never cancelled")
	}
}

// ---- the deployment ----

type c19Deploy struct {
	e      *env.Env
	specs  []env.KeySpec
	pooled bool
	reg    *c19Registry
	// transport delay (uniform in [0, trDelay]) injected before every request and after every response
	trDelay atomic.Int64
	maxReq  atomic.Int64 // slowest request (ns) since the last reset
	serial  atomic.Int64
}

func newC19Deploy(specs []env.KeySpec, pooled bool) (*c19Deploy, error) {
	e, err := env.NewWithOptions(WorkDir(), specs[0], env.Options{Extra: specs[1:], PoolConns: pooled})
	if err != nil {
		return nil, err
	}
	dp := &c19Deploy{e: e, specs: specs, pooled: pooled, reg: &c19Registry{m: map[string]*c19Sess{}}}
	e.OwnerModules = func(_ context.Context, guid protocol.GUID, dm serviceinfo.Devmod, supported []string) iter.Seq2[string, serviceinfo.OwnerModule] {
		return func(yield func(string, serviceinfo.OwnerModule) bool) {
			tag := string(dm.Serial)
			s := dp.reg.get(tag)
			if s == nil {
				dp.reg.mu.Lock()
				dp.reg.stray = append(dp.reg.stray, fmt.Sprintf("guid %x serial %q", guid[:], tag))
				dp.reg.mu.Unlock()
				return
			}
			o := &c19Owner{tag: tag, guid: guid, supported: append([]string(nil), supported...), plan: s.plan,
				gen: newC19Gen(tag, 'o'), peer: newC19Gen(tag, 'd')}
			s.mu.Lock()
			s.owners = append(s.owners, o)
			s.mu.Unlock()
			e.Journal.Add("module-invoke", fmt.Sprintf("%x", guid[:]), tag)
			yield(c19Module, o)
		}
	}
	e.RT.Hook = func(mt int, _ *http.Request, body []byte, do func([]byte, http.Header) *http.Response) *http.Response {
		if d := dp.trDelay.Load(); d > 0 {
			time.Sleep(time.Duration(mrand.Int63n(d + 1)))
		}
		t0 := time.Now()
		resp := do(body, nil)
		dt := int64(time.Since(t0))
		for {
			m := dp.maxReq.Load()
			if dt <= m || dp.maxReq.CompareAndSwap(m, dt) {
				break
			}
		}
		return resp
	}
	e.RT.RespHook = func(_ int, _ *http.Response, body []byte) []byte {
		if d := dp.trDelay.Load(); d > 0 {
			time.Sleep(time.Duration(mrand.Int63n(d + 1)))
		}
		return body
	}
	return dp, nil
}

func (dp *c19Deploy) mode() string {
	if dp.pooled {
		return "pooled"
	}
	return "single-conn"
}

var c19Addrs = []protocol.RvTO2Addr{{DNSAddress: strp("owner.test"), Port: 8043, TransportProtocol: protocol.HTTPSTransport}}

// newDevice runs DI for a device of any of the deployment's key types (env.NewDevice is neither concurrent nor mixed).
func (dp *c19Deploy) newDevice(ctx context.Context, spec env.KeySpec, enc protocol.KeyEncoding, serial string) (*env.Device, error) {
	role := "dev0"
	if spec.Bits == 0 {
		role = fmt.Sprintf("dev%d", dp.serial.Add(1)%4)
	}
	d := &env.Device{Spec: spec, Enc: enc, Key: env.Key(spec, role), Secret: make([]byte, 32)}
	_, _ = rand.Read(d.Secret)
	csrDER, err := x509.CreateCertificateRequest(rand.Reader, &x509.CertificateRequest{Subject: pkix.Name{CommonName: "device"}}, d.Key)
	if err != nil {
		return nil, err
	}
	csr, _ := x509.ParseCertificateRequest(csrDER)
	cred, err := fdo.DI(ctx, dp.e.Transport(), custom.DeviceMfgInfo{KeyType: spec.Type, KeyEncoding: enc, SerialNumber: serial,
		DeviceInfo: "verif", CertInfo: cbor.X509CertificateRequest(*csr)},
		fdo.DIConfig{HmacSha256: hmac.New(sha256.New, d.Secret), HmacSha384: hmac.New(sha512.New384, d.Secret), Key: d.Key, PSS: spec.Type == protocol.RsaPssKeyType})
	if err != nil {
		return nil, err
	}
	d.Cred = cred
	return d, nil
}

// c19TO2 is what one TO2 run left behind.
type c19TO2 struct {
	tag     string
	before  protocol.GUID
	after   protocol.GUID
	dev     *c19Dev
	sess    *c19Sess
	modList []string
}

type c19Result struct {
	plan   *c19Plan
	step   string // the step that failed ("" = the whole chain succeeded)
	err    string
	panicd bool
	dev    *env.Device
	to2    []*c19TO2
	wall   time.Duration
}

func (r *c19Result) outcome() string {
	if r.step == "" {
		return "ok"
	}
	return r.step + ": " + r.err
}

func (dp *c19Deploy) to2Config(dev *env.Device, pl *c19Plan, tag string) (fdo.TO2Config, *c19TO2) {
	p2 := *pl
	p2.Tag = tag
	dm := newC19Dev(&p2)
	cfg := dev.TO2Config(pl.Suite, pl.Cipher)
	cfg.Devmod.Serial = []byte(tag)
	cfg.Devmod.Device = tag
	cfg.DeviceModules = map[string]serviceinfo.DeviceModule{c19Module: dm}
	t := &c19TO2{tag: tag, before: dev.Cred.GUID, dev: dm, sess: &c19Sess{plan: &p2}, modList: []string{c19Module, "devmod"}}
	for i := 0; i < pl.NMods; i++ {
		n := fmt.Sprintf("x.%s.%03d", tag, i)
		cfg.DeviceModules[n] = serviceinfo.UnknownModule{}
		t.modList = append(t.modList, n)
	}
	sort.Strings(t.modList)
	return cfg, t
}

// chain runs one device through DI -> TO0 -> TO1 -> TO2 (-> TO2 with the replaced credential).
func (dp *c19Deploy) chain(pl *c19Plan) (res *c19Result) {
	res = &c19Result{plan: pl}
	t0 := time.Now()
	step := "DI"
	defer func() {
		res.wall = time.Since(t0)
		if r := recover(); r != nil {
			res.step, res.err, res.panicd = step, "panic: "+fmt.Sprint(r), true
		}
	}()
	fail := func(err error) *c19Result {
		res.step, res.err = step, err.Error()
		return res
	}
	ctx, cancel := context.WithTimeout(context.Background(), 150*time.Second)
	defer cancel()
	dev, err := dp.newDevice(ctx, pl.Spec, pl.Enc, pl.Tag)
	if err != nil {
		return fail(err)
	}
	res.dev = dev
	cycles := 1
	if pl.Second {
		cycles = 2
	}
	for cyc := 0; cyc < cycles; cyc++ {
		sfx := ""
		tag := pl.Tag
		if cyc == 1 {
			sfx, tag = "#2", pl.Tag+"#2"
		}
		var to1d *cose.Sign1[protocol.To1d, []byte]
		if cyc == 0 {
			step = "TO0"
			if _, err := dp.e.TO0(ctx, dev.Cred.GUID, c19Addrs); err != nil {
				return fail(err)
			}
			step = "TO1"
			var err error
			if to1d, err = dp.e.TO1(ctx, dev); err != nil {
				return fail(err)
			}
		}
		// (second cycle: the replacement voucher has no entries, so the owner cannot register it with the rendezvous server:
		// TO0 refuses "ownership voucher has zero extensions"; the device goes to the owner directly)
		step = "TO2" + sfx
		cfg, t := dp.to2Config(dev, pl, tag)
		dp.reg.add(tag, t.sess)
		res.to2 = append(res.to2, t)
		cred, err := dp.e.TO2(ctx, dev, to1d, cfg)
		if err != nil {
			return fail(err)
		}
		if cred == nil {
			return fail(errors.New("TO2 returned no replacement credential"))
		}
		t.after = cred.GUID
		nd := *dev
		nd.Cred = cred
		dev = &nd
		res.dev = dev
	}
	return res
}

// checkTO2 applies the leak monitors to one finished TO2 run.
func (dp *c19Deploy) checkTO2(c *core.Ctx, t *c19TO2, p core.Params, kind string) {
	pl := t.sess.plan
	var leaks []string
	d := t.dev
	d.mu.Lock()
	leaks = append(leaks, d.bad...)
	if d.ownGot != pl.OwnSize || d.ownEnd != pl.OwnSize {
		leaks = append(leaks, fmt.Sprintf("device module received %d bytes (owner announced %d), planned %d", d.ownGot, d.ownEnd, pl.OwnSize))
	}
	if !d.streamed {
		leaks = append(leaks, "device module was never started")
	}
	d.mu.Unlock()
	t.sess.mu.Lock()
	owners := append([]*c19Owner(nil), t.sess.owners...)
	t.sess.mu.Unlock()
	if len(owners) != 1 {
		leaks = append(leaks, fmt.Sprintf("%d owner module instances were created for the session of %q (want 1)", len(owners), t.tag))
	}
	for _, o := range owners {
		o.mu.Lock()
		leaks = append(leaks, o.bad...)
		if o.guid != t.before {
			leaks = append(leaks, fmt.Sprintf("owner module of %q was created for GUID %x, the device's is %x", t.tag, o.guid[:], t.before[:]))
		}
		got := append([]string(nil), o.supported...)
		sort.Strings(got)
		if strings.Join(got, ",") != strings.Join(t.modList, ",") {
			leaks = append(leaks, fmt.Sprintf("owner saw devmod module list of %d names %s, device listed %d names %s", len(got), clipS(strings.Join(got, ","), 200), len(t.modList), clipS(strings.Join(t.modList, ","), 200)))
		}
		if o.devGot != pl.DevSize || !o.fin || o.sent != pl.OwnSize {
			leaks = append(leaks, fmt.Sprintf("owner module received %d/%d bytes (fin=%v), sent %d/%d", o.devGot, pl.DevSize, o.fin, o.sent, pl.OwnSize))
		}
		o.mu.Unlock()
	}
	if len(leaks) > 0 {
		c.Fail("module-data-leak", strings.Join(leaks, "; "), kind, p, core.Obs{Impl: "tag=" + t.tag})
	}
}

// c19FdoStacks dumps the stacks of all goroutines that have a frame in library code.
func c19FdoStacks(limit int) string {
	buf := make([]byte, 8<<20)
	buf = buf[:runtime.Stack(buf, true)]
	var sb strings.Builder
	n := 0
	for _, g := range strings.Split(string(buf), "\n\n") {
		if !strings.Contains(g, "go-fdo") {
			continue
		}
		n++
		lines := strings.Split(g, "\n")
		var keep []string
		for i, l := range lines {
			if i == 0 || (!strings.HasPrefix(l, "\t") && (strings.Contains(l, "go-fdo") || strings.Contains(l, "verifharness"))) {
				keep = append(keep, strings.TrimSpace(strings.ReplaceAll(l, "github.com/fido-device-onboard/", "")))
			}
		}
		if len(keep) > 9 {
			keep = keep[:9]
		}
		sb.WriteString(strings.Join(keep, " < ") + "\n")
		if sb.Len() > limit {
			break
		}
	}
	return fmt.Sprintf("%d goroutines with library frames:\n%s", n, sb.String())
}

// c19Settle waits until the number of goroutines is back at the baseline (plus slack).
func c19Settle(base, slack int, wait time.Duration) (int, bool) {
	dl := time.Now().Add(wait)
	for {
		n := runtime.NumGoroutine()
		if n <= base+slack {
			return n, true
		}
		if time.Now().After(dl) {
			return n, false
		}
		time.Sleep(20 * time.Millisecond)
	}
}

// ---- part 1: concurrent onboardings ----

type c19Part1 struct {
	c       *core.Ctx
	guids   map[protocol.GUID]string // every GUID any device ever ended with
	batchNo int
	soloOK  map[string]string // cfgKey -> outcome of a run alone
}

func (pt *c19Part1) plan(dp *c19Deploy, tag string, sizes []int) *c19Plan {
	c := pt.c
	spec := dp.specs[c.Rng.Intn(len(dp.specs))]
	encs := mxEncodings(spec)
	suites := c19Suites(spec)
	pl := &c19Plan{Tag: tag, Spec: spec, Enc: encs[c.Rng.Intn(len(encs))], Suite: suites[c.Rng.Intn(len(suites))],
		Cipher: mxRegisteredCiphers[c.Rng.Intn(len(mxRegisteredCiphers))], NMods: []int{0, 0, 3, 20}[c.Rng.Intn(4)],
		DevSize: sizes[c.Rng.Intn(len(sizes))], OwnSize: sizes[c.Rng.Intn(len(sizes))], Block: c.Rng.Intn(2) == 0, InYield: c.Rng.Intn(2) == 0,
		Seed: c.Rng.Int63(), DevDelay: time.Duration(c.Rng.Intn(3)) * time.Millisecond, OwnDelay: time.Duration(c.Rng.Intn(3)) * time.Millisecond}
	return pl
}

// check applies the monitors to one finished chain; solo names the outcome of the same configuration run alone ("" = not run).
func (pt *c19Part1) check(dp *c19Deploy, r *c19Result, effects map[string]map[string][]env.Effect, kind string, extra core.Params) {
	c := pt.c
	p := r.plan.params()
	for k, v := range extra {
		p[k] = v
	}
	o := core.Obs{Impl: r.outcome()}
	if r.panicd {
		c.Fail("panic@concurrent:"+r.step, r.err, kind, p, o)
	}
	for _, t := range r.to2 {
		if t.after != (protocol.GUID{}) {
			dp.checkTO2(c, t, p, kind)
		}
	}
	if r.step != "" {
		return
	}
	// credentials and vouchers
	ctx := context.Background()
	for _, t := range r.to2 {
		if prev, dup := pt.guids[t.after]; dup {
			c.Fail("voucher-mixup", fmt.Sprintf("replacement GUID %x of %s was already given to %s", t.after[:], t.tag, prev), kind, p, o)
		}
		pt.guids[t.after] = t.tag
		if t.after == t.before {
			c.Fail("voucher-mixup", fmt.Sprintf("replacement GUID equals the old GUID %x", t.after[:]), kind, p, o)
		}
	}
	last := r.to2[len(r.to2)-1]
	ov, err := dp.e.DB.Voucher(ctx, last.after)
	switch {
	case err != nil:
		c.Fail("voucher-mixup", fmt.Sprintf("owner holds no voucher for the device's new GUID %x: %v", last.after[:], err), kind, p, o)
	default:
		h256, h384 := r.dev.Hmacs()
		if err := ov.VerifyHeader(h256, h384); err != nil {
			c.Fail("voucher-mixup", fmt.Sprintf("replacement voucher %x does not verify under the device's secret: %v", last.after[:], err), kind, p, o)
		}
		if ov.Header.Val.GUID != r.dev.Cred.GUID || ov.Header.Val.DeviceInfo != r.dev.Cred.DeviceInfo {
			c.Fail("voucher-mixup", fmt.Sprintf("replacement voucher header (guid %x) differs from the device credential (guid %x)", ov.Header.Val.GUID[:], r.dev.Cred.GUID[:]), kind, p, o)
		}
		if err := ov.VerifyManufacturerKey(r.dev.Cred.PublicKeyHash); err != nil {
			c.Fail("voucher-mixup", fmt.Sprintf("replacement voucher's owner key is not the one the device credential names: %v", err), kind, p, o)
		}
	}
	if _, err := dp.e.DB.Voucher(ctx, r.to2[0].before); err == nil {
		c.Fail("voucher-mixup", fmt.Sprintf("the replaced voucher %x is still in the owner's store", r.to2[0].before[:]), kind, p, o)
	}
	// effects per GUID
	if effects == nil {
		return
	}
	var bad []string
	want := func(guid protocol.GUID, kindName string, n int, info string) {
		es := effects[fmt.Sprintf("%x", guid[:])][kindName]
		if len(es) != n {
			bad = append(bad, fmt.Sprintf("%s x%d for %x (want %d)", kindName, len(es), guid[:4], n))
			return
		}
		if n == 1 && info != "" && es[0].Info != info {
			bad = append(bad, fmt.Sprintf("%s for %x carries %q (want %q)", kindName, guid[:4], es[0].Info, info))
		}
	}
	for i, t := range r.to2 {
		di := 0
		if i == 0 {
			di = 1
		}
		want(t.before, "di-voucher", di, "")
		want(t.before, "rv-blob", di, "")
		want(t.before, "module-invoke", 1, t.tag)
		want(t.before, "voucher-replace", 1, fmt.Sprintf("%x", t.after[:]))
		want(t.before, "voucher-remove", 0, "")
	}
	for _, k := range []string{"di-voucher", "rv-blob", "module-invoke", "voucher-replace", "voucher-remove"} {
		want(last.after, k, 0, "")
	}
	if len(bad) > 0 {
		c.Fail("effects-mismatch", strings.Join(bad, "; "), kind, p, o)
	}
}

func (pt *c19Part1) solo(dp *c19Deploy, pl *c19Plan) string {
	c := pt.c
	q := *pl
	pt.batchNo++
	q.Tag = fmt.Sprintf("c19-solo%d", pt.batchNo)
	dp.trDelay.Store(0)
	j0 := dp.e.Journal.Len()
	done := make(chan *c19Result, 1)
	go func() { done <- dp.chain(&q) }()
	var r *c19Result
	select {
	case r = <-done:
	case <-time.After(170 * time.Second):
		c.Fail("hang@solo", "a chain run alone did not finish within 170 s\n"+c19FdoStacks(1500), "concurrent.solo", q.params(), core.Obs{})
		return "hang"
	}
	c.Rep.Evaluations++
	c.Count("solo_outcome", clipS(r.outcome(), 60))
	pt.check(dp, r, c19Effects(dp.e.Journal.Since(j0)), "concurrent.solo", core.Params{"store": dp.mode()})
	for _, t := range r.to2 {
		dp.reg.drop(t.tag)
	}
	return r.outcome()
}

func c19Effects(es []env.Effect) map[string]map[string][]env.Effect {
	m := map[string]map[string][]env.Effect{}
	for _, e := range es {
		if m[e.GUID] == nil {
			m[e.GUID] = map[string][]env.Effect{}
		}
		m[e.GUID][e.Kind] = append(m[e.GUID][e.Kind], e)
	}
	return m
}

func c19ErrClass(s string) string {
	for _, k := range []string{"database is locked", "SQLITE_BUSY", "context deadline exceeded", "context canceled", "not found", "nonce", "hmac", "signature", "decrypt", "panic"} {
		if strings.Contains(strings.ToLower(s), strings.ToLower(k)) {
			return k
		}
	}
	return "other"
}

// batch starts n chains at once under the given GOMAXPROCS.
func (pt *c19Part1) batch(dp *c19Deploy, n, procs int, sizes []int) {
	c := pt.c
	pt.batchNo++
	id := pt.batchNo
	extra := core.Params{"n": strconv.Itoa(n), "gomaxprocs": strconv.Itoa(procs), "store": dp.mode(), "batch": strconv.Itoa(id)}
	plans := make([]*c19Plan, n)
	mix := map[string]bool{}
	for i := range plans {
		plans[i] = pt.plan(dp, fmt.Sprintf("c19-b%d-d%d", id, i), sizes)
		mix[plans[i].Spec.Name] = true
		c.Count("device_key", plans[i].Spec.Name)
		c.Count("device_kex", string(plans[i].Suite))
		c.Count("device_cipher", mxCipherName(plans[i].Cipher))
	}
	c.Count("batch_N", strconv.Itoa(n))
	c.Count("batch_GOMAXPROCS", strconv.Itoa(procs))
	c.Count("batch_store", dp.mode())
	c.Count("batch_key_types", strconv.Itoa(len(mix)))
	base := runtime.NumGoroutine()
	dp.trDelay.Store(int64(3 * time.Millisecond))
	dp.maxReq.Store(0)
	dp.e.RT.Reset()
	j0 := dp.e.Journal.Len()
	prev := runtime.GOMAXPROCS(procs)
	results := make([]*c19Result, n)
	var wg sync.WaitGroup
	start := make(chan struct{})
	for i := range plans {
		wg.Add(1)
		go func(i int) {
			defer wg.Done()
			<-start
			r := dp.chain(plans[i])
			results[i] = r
		}(i)
	}
	t0 := time.Now()
	close(start)
	all := make(chan struct{})
	go func() { wg.Wait(); close(all) }()
	hung := false
	select {
	case <-all:
	case <-time.After(200 * time.Second):
		hung = true
		c.Fail("hang@concurrent", fmt.Sprintf("batch of %d chains did not finish within 200 s\n%s", n, c19FdoStacks(1500)), "concurrent.run", extra, core.Obs{})
	}
	runtime.GOMAXPROCS(prev)
	wall := time.Since(t0)
	c.Count("batch_wall", fmt.Sprintf("N=%d:%s", n, c19DurBucket(wall)))
	defer func() {
		c.Note("batch %d (%s): N=%d GOMAXPROCS=%d chains took %.1fs, with checks and solo re-runs %.1fs", id, dp.mode(), n, procs, wall.Seconds(), time.Since(t0).Seconds())
	}()
	if hung {
		return // the result slots may still be written: do not read them
	}
	if m := time.Duration(dp.maxReq.Load()); m > 20*time.Second {
		c.Fail("hang@concurrent", fmt.Sprintf("a single request took %v while %d devices ran", m, n), "concurrent.run", extra, core.Obs{})
	}
	for _, x := range dp.e.RT.Log {
		if x.Panic != "" {
			c.Fail("panic@concurrent:server", fmt.Sprintf("handler panicked on message %d: %s", x.MsgType, x.Panic), "concurrent.run", extra, core.Obs{})
		}
	}
	dp.e.RT.Reset()
	effects := c19Effects(dp.e.Journal.Since(j0))
	known := map[string]bool{}
	for _, r := range results {
		c.Rep.Evaluations++
		c.Count("chain_outcome", clipS(r.step, 12)+"|"+func() string {
			if r.step == "" {
				return "ok"
			}
			return c19ErrClass(r.err)
		}())
		for _, t := range r.to2 {
			known[fmt.Sprintf("%x", t.before[:])] = true
			known[fmt.Sprintf("%x", t.after[:])] = true
		}
		if r.dev != nil {
			known[fmt.Sprintf("%x", r.dev.Cred.GUID[:])] = true
		}
		pt.check(dp, r, effects, "concurrent.run", extra)
	}
	// effects that belong to nobody (a failed DI leaves no device, so only complain when every chain got past DI)
	allDI := true
	for _, r := range results {
		if r.dev == nil {
			allDI = false
		}
	}
	if allDI {
		for g, kinds := range effects {
			if !known[g] {
				c.Fail("effects-mismatch", fmt.Sprintf("effects %v for GUID %s which no device of the batch holds", kinds, g), "concurrent.run", extra, core.Obs{})
			}
		}
	}
	for _, s := range dp.reg.takeStray() {
		c.Fail("module-data-leak", "owner modules were requested for a devmod serial that no running device has: "+s, "concurrent.run", extra, core.Obs{})
	}
	// failures: compare with the same configuration alone
	for _, r := range results {
		for _, t := range r.to2 {
			dp.reg.drop(t.tag)
		}
	}
	if got, ok := c19Settle(base, 3, 3*time.Second); !ok {
		c.Fail("goroutine-leak", fmt.Sprintf("%d goroutines before the batch, %d three seconds after it\n%s", base, got, c19FdoStacks(1500)), "concurrent.run", extra, core.Obs{})
	}
	soloed := 0
	for _, r := range results {
		if r.step == "" {
			continue
		}
		p := r.plan.params()
		for k, v := range extra {
			p[k] = v
		}
		alone := "not-run"
		if soloed < 3 {
			soloed++
			alone = pt.solo(dp, r.plan)
		}
		p["alone"] = clipS(alone, 200)
		step := strings.TrimSuffix(r.step, "#2")
		if alone == "ok" || alone == "not-run" {
			c.Fail("concurrent-run-failed:"+step, fmt.Sprintf("%s failed among %d concurrent devices (%s, GOMAXPROCS=%d): %s; alone: %s", r.step, n, dp.mode(), procs, r.err, alone), "concurrent.run", p, core.Obs{Impl: r.outcome()})
		} else {
			c.Count("fails_alone_too", r.plan.cfgKey()+" "+clipS(c19StripTime(alone), 260))
		}
	}
}

// c19StripTime removes the timestamp of an FDO error message.
func c19StripTime(s string) string {
	if i := strings.Index(s, " +0000 UTC"); i >= 19 {
		return s[:i-19] + s[i+10:]
	}
	return s
}

func c19DurBucket(d time.Duration) string {
	switch {
	case d < time.Second:
		return "<1s"
	case d < 5*time.Second:
		return "1-5s"
	case d < 20*time.Second:
		return "5-20s"
	case d < 60*time.Second:
		return "20-60s"
	}
	return ">60s"
}

func (pt *c19Part1) run(specs []env.KeySpec, pooled bool, sched, fileSched [][2]int, sizes []int) {
	c := pt.c
	dp, err := newC19Deploy(specs, pooled)
	if err != nil {
		c.Fail("harness:env", err.Error(), "concurrent.run", core.Params{"store": fmt.Sprint(pooled)}, core.Obs{})
		return
	}
	defer dp.e.Close()
	// each key type alone first: the outcome a device obtains without company
	tSolo := time.Now()
	defer func() { c.Note("deployment (%s) lived %.1fs", dp.mode(), time.Since(tSolo).Seconds()) }()
	for _, spec := range specs {
		suites := c19Suites(spec)
		pl := &c19Plan{Spec: spec, Enc: protocol.X509KeyEnc, Suite: suites[0], Cipher: kex.A128GcmCipher, NMods: 3, DevSize: 3000, OwnSize: 3000,
			Seed: c.Rng.Int63()}
		if out := pt.solo(dp, pl); out != "ok" {
			c.Fail("fails-alone", fmt.Sprintf("%s (%s): %s", pl.cfgKey(), dp.mode(), out), "concurrent.solo", pl.params(), core.Obs{Impl: out})
		}
	}
	c.Note("solo baseline (%s): %d key types in %.1fs", dp.mode(), len(specs), time.Since(tSolo).Seconds())
	for _, s := range sched {
		pt.batch(dp, s[0], s[1], sizes)
	}
	for _, s := range fileSched {
		pt.fileBatch(dp, s[0], s[1])
	}
}

// ---- part 1b: concurrent sessions whose fsim owner modules ask for / send a file of the SAME name ----

// c19FileDev is one device of a same-name file batch.
type c19FileDev struct {
	tag      string
	spec     env.KeySpec
	up       []byte // what THIS device serves as report.bin
	down     []byte // what the owner sends THIS device as config.bin
	devsrc   string
	devdest  string
	owndest  string
	step     string
	err      string
	ownerGot protocol.GUID
}

const (
	c19UpName   = "report.bin"
	c19DownName = "config.bin"
)

// c19WhoseBytes says which devices' upload (or download) streams a wrong file is made of.
func c19WhoseBytes(got []byte, devs []*c19FileDev, down bool) string {
	if len(got) == 0 {
		return "empty"
	}
	var parts []string
	const blk = 512
	last := ""
	for off := 0; off < len(got); off += blk {
		end := min(off+blk, len(got))
		who := "?"
		for _, d := range devs {
			src := d.up
			if down {
				src = d.down
			}
			if end <= len(src) && bytes.Equal(got[off:end], src[off:end]) {
				who = d.tag
				break
			}
			if bytes.Contains(src, got[off:end]) {
				who = d.tag + "(shifted)"
				break
			}
		}
		if who != last {
			parts = append(parts, fmt.Sprintf("@%d:%s", off, who))
			last = who
		}
		if len(parts) > 12 {
			parts = append(parts, "...")
			break
		}
	}
	return strings.Join(parts, " ")
}

// fileChain: DI -> TO0 -> TO1 -> TO2 with the library's fsim.Upload / fsim.Download device modules.
func (dp *c19Deploy) fileChain(d *c19FileDev) {
	step := "DI"
	defer func() {
		if r := recover(); r != nil {
			d.step, d.err = step, "panic: "+fmt.Sprint(r)
		}
	}()
	fail := func(err error) { d.step, d.err = step, err.Error() }
	ctx, cancel := context.WithTimeout(context.Background(), 150*time.Second)
	defer cancel()
	dev, err := dp.newDevice(ctx, d.spec, protocol.X509KeyEnc, d.tag)
	if err != nil {
		fail(err)
		return
	}
	step = "TO0"
	if _, err := dp.e.TO0(ctx, dev.Cred.GUID, c19Addrs); err != nil {
		fail(err)
		return
	}
	step = "TO1"
	to1d, err := dp.e.TO1(ctx, dev)
	if err != nil {
		fail(err)
		return
	}
	step = "TO2"
	cfg := dev.TO2Config(c19Suites(d.spec)[0], kex.A128GcmCipher)
	cfg.Devmod.Serial = []byte(d.tag)
	cfg.Devmod.Device = d.tag
	cfg.DeviceModules = map[string]serviceinfo.DeviceModule{
		"fdo.upload":   &fsim.Upload{FS: os.DirFS(d.devsrc)},
		"fdo.download": &fsim.Download{NameToPath: func(n string) string { return filepath.Join(d.devdest, filepath.Base(n)) }},
	}
	if _, err := dp.e.TO2(ctx, dev, to1d, cfg); err != nil {
		fail(err)
	}
}

// fileBatch: n devices onboard at the same instant; every session's owner module list is
// [fdo.download DownloadContents{Name: config.bin, that device's content}, fdo.upload UploadRequest{Name: report.bin, Dir: that
// session's directory}] with the modules' DEFAULT temporary files (os.CreateTemp under $TMPDIR, which is pointed at a
// directory next to the destinations so that the final rename stays on one file system); every device serves its own
// tagged 20-60 kB as report.bin, so the data messages of the sessions interleave.
func (pt *c19Part1) fileBatch(dp *c19Deploy, n, procs int) {
	c := pt.c
	pt.batchNo++
	id := pt.batchNo
	extra := core.Params{"n": strconv.Itoa(n), "gomaxprocs": strconv.Itoa(procs), "store": dp.mode(), "batch": strconv.Itoa(id), "upload_name": c19UpName, "download_name": c19DownName}
	kind := "concurrent.files"
	base, err := os.MkdirTemp(WorkDir(), "c19-files-")
	if err != nil {
		c.Note("harness: %v", err)
		return
	}
	defer os.RemoveAll(base)
	tmp := filepath.Join(base, "tmp")
	_ = os.Mkdir(tmp, 0o755)
	prevTmp, hadTmp := os.LookupEnv("TMPDIR")
	_ = os.Setenv("TMPDIR", tmp)
	defer func() {
		if hadTmp {
			_ = os.Setenv("TMPDIR", prevTmp)
		} else {
			_ = os.Unsetenv("TMPDIR")
		}
	}()
	mk := func(i int, tag string) *c19FileDev {
		d := &c19FileDev{tag: tag, spec: []env.KeySpec{env.P256, env.P384}[c.Rng.Intn(2)],
			up: make([]byte, 20000+c.Rng.Intn(40001)), down: make([]byte, 20000+c.Rng.Intn(40001))}
		newC19Gen(tag, 'u').fill(d.up, 0)
		newC19Gen(tag, 'w').fill(d.down, 0)
		for _, x := range []struct {
			p *string
			n string
		}{{&d.devsrc, "devsrc"}, {&d.devdest, "devdest"}, {&d.owndest, "owndest"}} {
			*x.p = filepath.Join(base, fmt.Sprintf("%s-%d-%s", x.n, i, tag))
			_ = os.MkdirAll(*x.p, 0o755)
		}
		_ = os.WriteFile(filepath.Join(d.devsrc, c19UpName), d.up, 0o644)
		return d
	}
	devs := make([]*c19FileDev, n)
	var mu sync.Mutex
	byTag := map[string]*c19FileDev{}
	var stray []string
	for i := range devs {
		devs[i] = mk(i, fmt.Sprintf("c19-f%d-d%d", id, i))
		byTag[devs[i].tag] = devs[i]
	}
	prevMods := dp.e.OwnerModules
	defer func() { dp.e.OwnerModules = prevMods }()
	dp.e.OwnerModules = func(_ context.Context, guid protocol.GUID, dm serviceinfo.Devmod, _ []string) iter.Seq2[string, serviceinfo.OwnerModule] {
		return func(yield func(string, serviceinfo.OwnerModule) bool) {
			mu.Lock()
			d := byTag[string(dm.Serial)]
			if d == nil {
				stray = append(stray, fmt.Sprintf("guid %x serial %q", guid[:], dm.Serial))
			} else {
				d.ownerGot = guid
			}
			mu.Unlock()
			if d == nil {
				return
			}
			if !yield("fdo.download", &fsim.DownloadContents[*bytes.Reader]{Name: c19DownName, Contents: bytes.NewReader(d.down), MustDownload: true}) {
				return
			}
			yield("fdo.upload", &fsim.UploadRequest{Dir: d.owndest, Name: c19UpName})
		}
	}
	c.Count("files_batch_N", strconv.Itoa(n))
	c.Count("files_batch_GOMAXPROCS", strconv.Itoa(procs))
	g0 := runtime.NumGoroutine()
	dp.trDelay.Store(int64(3 * time.Millisecond))
	dp.e.RT.Reset()
	prev := runtime.GOMAXPROCS(procs)
	var wg sync.WaitGroup
	start := make(chan struct{})
	for _, d := range devs {
		wg.Add(1)
		go func() { defer wg.Done(); <-start; dp.fileChain(d) }()
	}
	t0 := time.Now()
	close(start)
	all := make(chan struct{})
	go func() { wg.Wait(); close(all) }()
	select {
	case <-all:
	case <-time.After(200 * time.Second):
		runtime.GOMAXPROCS(prev)
		c.Fail("hang@concurrent", fmt.Sprintf("batch of %d same-name file chains did not finish within 200 s\n%s", n, c19FdoStacks(1500)), kind, extra, core.Obs{})
		return
	}
	runtime.GOMAXPROCS(prev)
	wall := time.Since(t0)
	dp.trDelay.Store(0)
	for _, x := range dp.e.RT.Log {
		if x.Panic != "" {
			c.Fail("panic@concurrent:server", fmt.Sprintf("handler panicked on message %d: %s", x.MsgType, x.Panic), kind, extra, core.Obs{})
		}
	}
	dp.e.RT.Reset()
	check := func(d *c19FileDev, k string, p core.Params) {
		o := core.Obs{Impl: "ok"}
		if d.step != "" {
			o.Impl = d.step + ": " + d.err
		}
		// the upload as the owner stored it
		got, rerr := os.ReadFile(filepath.Join(d.owndest, c19UpName))
		switch {
		case rerr != nil && d.step == "":
			c.Fail("module-data-leak:upload", fmt.Sprintf("TO2 of %s succeeded but the owner has no %s in the session's directory: %v", d.tag, c19UpName, rerr), k, p, o)
		case rerr == nil && !bytes.Equal(got, d.up):
			c.Fail("module-data-leak:upload", fmt.Sprintf("the owner's copy of %s from %s has %d bytes (device served %d) made of: %s", c19UpName, d.tag, len(got), len(d.up), c19WhoseBytes(got, devs, false)), k, p, o)
		}
		got, rerr = os.ReadFile(filepath.Join(d.devdest, c19DownName))
		switch {
		case rerr != nil && d.step == "":
			c.Fail("module-data-leak:download", fmt.Sprintf("TO2 of %s succeeded but the device has no %s: %v", d.tag, c19DownName, rerr), k, p, o)
		case rerr == nil && !bytes.Equal(got, d.down):
			c.Fail("module-data-leak:download", fmt.Sprintf("the copy of %s on %s has %d bytes (owner sent it %d) made of: %s", c19DownName, d.tag, len(got), len(d.down), c19WhoseBytes(got, devs, true)), k, p, o)
		}
	}
	pfor := func(d *c19FileDev) core.Params {
		p := core.Params{"tag": d.tag, "key": d.spec.Name, "up_bytes": strconv.Itoa(len(d.up)), "down_bytes": strconv.Itoa(len(d.down))}
		for k, v := range extra {
			p[k] = v
		}
		return p
	}
	for _, d := range devs {
		c.Rep.Evaluations++
		c.Count("files_chain_outcome", func() string {
			if d.step == "" {
				return "ok"
			}
			return d.step + "|" + clipS(c19StripTime(d.err), 90)
		}())
		check(d, kind, pfor(d))
	}
	mu.Lock()
	for _, s := range stray {
		c.Fail("module-data-leak", "owner modules were requested for a devmod serial that no running device has: "+s, kind, extra, core.Obs{})
	}
	stray = nil
	mu.Unlock()
	// leftovers in the temporary directory: a finished session renames its file away
	if left, _ := os.ReadDir(tmp); len(left) > 0 {
		allOK := true
		for _, d := range devs {
			allOK = allOK && d.step == ""
		}
		if allOK {
			var names []string
			for _, f := range left {
				names = append(names, f.Name())
			}
			c.Count("files_tmp_leftover", clipS(strings.Join(names, ","), 80))
		}
	}
	if got, ok := c19Settle(g0, 3, 3*time.Second); !ok {
		c.Fail("goroutine-leak", fmt.Sprintf("%d goroutines before the same-name file batch, %d three seconds after it\n%s", g0, got, c19FdoStacks(1500)), kind, extra, core.Obs{})
	}
	// failed chains: the same device configuration alone
	soloed := 0
	for i, d := range devs {
		if d.step == "" {
			continue
		}
		p := pfor(d)
		alone := "not-run"
		if soloed < 2 {
			soloed++
			s := mk(1000+i, d.tag+"-solo")
			s.spec = d.spec
			mu.Lock()
			byTag[s.tag] = s
			mu.Unlock()
			dp.fileChain(s)
			c.Rep.Evaluations++
			alone = "ok"
			if s.step != "" {
				alone = s.step + ": " + s.err
			}
			check(s, "concurrent.files.solo", pfor(s))
		}
		p["alone"] = clipS(alone, 200)
		if alone == "ok" || alone == "not-run" {
			c.Fail("concurrent-run-failed:"+d.step, fmt.Sprintf("%s failed among %d concurrent devices whose owner modules all request %q / send %q (%s, GOMAXPROCS=%d): %s; alone: %s",
				d.step, n, c19UpName, c19DownName, dp.mode(), procs, d.err, alone), kind, p, core.Obs{Impl: d.step + ": " + d.err})
		} else {
			c.Count("fails_alone_too", "files "+clipS(c19StripTime(alone), 260))
		}
	}
	c.Note("same-name file batch %d (%s): N=%d GOMAXPROCS=%d chains took %.1fs", id, dp.mode(), n, procs, wall.Seconds())
}

// ---- part 2: the device-side pipeline ----

// c19RT is a context-aware RoundTripper in front of the deployment's (as a network transport would be): a cancelled request
// fails. before may delay or fail a request.
type c19RT struct {
	inner  http.RoundTripper
	before func(mt int, req *http.Request) error
	after  func(mt int)
}

func (t *c19RT) RoundTrip(req *http.Request) (*http.Response, error) {
	parts := strings.Split(req.URL.Path, "/")
	mt, _ := strconv.Atoi(parts[len(parts)-1])
	if t.before != nil {
		if err := t.before(mt, req); err != nil {
			return nil, err
		}
	}
	if err := req.Context().Err(); err != nil {
		return nil, err
	}
	resp, err := t.inner.RoundTrip(req)
	if t.after != nil {
		t.after(mt)
	}
	if cerr := req.Context().Err(); cerr != nil {
		return nil, cerr
	}
	return resp, err
}

type c19Pipe struct {
	c  *core.Ctx
	dp *c19Deploy
	n  int
}

type c19Scenario struct {
	plan    c19Plan
	tr      time.Duration // transport delay (fixed, or random up to, per direction)
	mode    string        // "normal", "cancel", "tr-fail"
	cancelK int           // cancel / fail at the k-th 68
}

func (s *c19Scenario) label() string {
	return fmt.Sprintf("%s dm=%v tr=%v om=%v fixed=%v mods=%d dev=%d own=%d block=%v yield=%v", s.mode, s.plan.DevDelay, s.tr, s.plan.OwnDelay, s.plan.Fix,
		s.plan.NMods, s.plan.DevSize, s.plan.OwnSize, s.plan.Block, s.plan.InYield)
}

func (pp *c19Pipe) run(sc c19Scenario) {
	c, dp := pp.c, pp.dp
	pp.n++
	sc.plan.Tag = fmt.Sprintf("c19-p%d", pp.n)
	sc.plan.Spec, sc.plan.Enc, sc.plan.Suite, sc.plan.Cipher = env.P256, protocol.X509KeyEnc, kex.ECDH256Suite, kex.A128GcmCipher
	if sc.plan.Seed == 0 {
		sc.plan.Seed = int64(pp.n)
	}
	p := sc.plan.params()
	p["transport_delay"], p["mode"], p["at_68"] = sc.tr.String(), sc.mode, strconv.Itoa(sc.cancelK)
	kind := "concurrent.pipeline"
	c.Rep.Evaluations++
	c.Count("pipeline_mode", sc.mode)
	c.Count("pipeline_delays", fmt.Sprintf("dm=%v tr=%v om=%v fixed=%v", sc.plan.DevDelay, sc.tr, sc.plan.OwnDelay, sc.plan.Fix))
	c.Count("pipeline_volume", fmt.Sprintf("mods=%d dev=%d own=%d", sc.plan.NMods, sc.plan.DevSize, sc.plan.OwnSize))
	dp.trDelay.Store(0)
	// a devmod module list that does not fit into one service info message fails for a device alone (the owner's devmod
	// module decodes each fragment by itself: "error decoding array/map ... unexpected EOF"), so the 200-name runs negotiate
	// a send MTU under which the list fits
	dp.e.OwnerMTU = 0
	if sc.plan.NMods >= 100 {
		dp.e.OwnerMTU = 8192
	}
	p["owner_mtu"] = strconv.Itoa(int(dp.e.OwnerMTU))
	ctx0, cancel0 := context.WithTimeout(context.Background(), 60*time.Second)
	defer cancel0()
	dev, err := dp.newDevice(ctx0, sc.plan.Spec, sc.plan.Enc, sc.plan.Tag)
	if err != nil {
		c.Fail("pipeline-setup-failed", "DI: "+err.Error(), kind, p, core.Obs{})
		return
	}
	cfg, t := dp.to2Config(dev, &sc.plan, sc.plan.Tag)
	dp.reg.add(t.tag, t.sess)
	defer dp.reg.drop(t.tag)
	base := runtime.NumGoroutine()
	gBefore := c19Goroutines()
	ctx, cancel := context.WithCancel(ctx0)
	defer cancel()
	var n68 atomic.Int32
	var cancelledAt atomic.Int64
	injected := errors.New("injected transport failure")
	rt := &c19RT{inner: dp.e.RT}
	rt.before = func(mt int, _ *http.Request) error {
		c19Sleep(sc.plan.Fix, sc.tr)
		if mt != 68 {
			return nil
		}
		k := int(n68.Add(1))
		switch sc.mode {
		case "cancel":
			if k == sc.cancelK {
				cancelledAt.Store(time.Now().UnixNano())
				cancel()
			}
		case "tr-fail":
			if cancelledAt.Load() != 0 {
				return injected
			}
			select {
			case <-t.dev.blocked:
				// the module sits inside Receive and this 68 carries what it wrote before: fail it
				cancelledAt.Store(time.Now().UnixNano())
				return injected
			default:
			}
		}
		return nil
	}
	rt.after = func(int) { c19Sleep(sc.plan.Fix, sc.tr) }
	tr := &fdohttp.Transport{BaseURL: "http://fdo.test", Client: &http.Client{Transport: rt}}
	type out struct {
		cred *fdo.DeviceCredential
		err  error
		pan  string
	}
	done := make(chan out, 1)
	t0 := time.Now()
	go func() {
		var o out
		defer func() {
			if r := recover(); r != nil {
				o.pan = fmt.Sprint(r)
			}
			done <- o
		}()
		o.cred, o.err = fdo.TO2(ctx, tr, nil, cfg)
	}()
	var o out
	select {
	case o = <-done:
	case <-time.After(30 * time.Second):
		stacks := c19FdoStacks(1600)
		c.Fail("deadlock@device-pipeline:"+sc.mode, fmt.Sprintf("TO2 did not return within 30 s (%s; %d messages 68 so far)\n%s", sc.label(), n68.Load(), stacks), kind, p, core.Obs{Impl: "hang"})
		c.Count("pipeline_outcome", "deadlock")
		cancel()
		select {
		case <-done:
		case <-time.After(10 * time.Second):
			c.Count("pipeline_outcome", "deadlock-survives-cancel")
		}
		return
	}
	wall := time.Since(t0)
	ob := core.Obs{Impl: fmt.Sprintf("err=%v rounds=%d wall=%v", o.err, n68.Load(), wall.Round(time.Millisecond))}
	c.Count("pipeline_rounds", fsimBucket(int(n68.Load())))
	if o.pan != "" {
		c.Fail("panic@device-pipeline", o.pan, kind, p, ob)
	}
	switch sc.mode {
	case "normal":
		if o.err != nil || o.cred == nil {
			c.Count("pipeline_outcome", "error")
			c.Fail("pipeline-run-failed", fmt.Sprintf("%s: %v", sc.label(), o.err), kind, p, ob)
		} else {
			c.Count("pipeline_outcome", "ok")
			t.after = o.cred.GUID
			dp.checkTO2(c, t, p, kind)
		}
	case "cancel":
		at := cancelledAt.Load()
		switch {
		case at == 0:
			c.Count("pipeline_outcome", "cancel-point-not-reached")
		case o.err == nil:
			c.Count("pipeline_outcome", "cancelled-but-succeeded")
			c.Fail("cancel-ignored", fmt.Sprintf("context cancelled at 68 number %d of %d, TO2 still reported success (%s)", sc.cancelK, n68.Load(), sc.label()), kind, p, ob)
		default:
			c.Count("pipeline_outcome", "cancelled")
			if late := time.Since(time.Unix(0, at)); late > 5*time.Second {
				c.Fail("slow-return-after-cancel", fmt.Sprintf("TO2 returned %v after its context was cancelled (%s)", late, sc.label()), kind, p, ob)
			}
		}
	case "tr-fail":
		select {
		case <-t.dev.blocked:
			if o.err == nil {
				c.Fail("transport-failure-ignored", "a 68 failed in the transport and TO2 reported success", kind, p, ob)
			}
			select {
			case <-t.dev.ctxDone:
				c.Count("pipeline_outcome", "module-context-cancelled")
			case <-time.After(3 * time.Second):
				c.Count("pipeline_outcome", "module-context-NOT-cancelled")
				c.Fail("module-context-not-cancelled", fmt.Sprintf("TO2 returned (%v) while a device module was inside Receive; three seconds later the module's context is still live (%s)", o.err, sc.label()), kind, p, ob)
			}
		default:
			c.Count("pipeline_outcome", "module-never-blocked")
			c.Note("tr-fail run %s: the module never reached its blocking point (err=%v)", sc.label(), o.err)
		}
	}
	// exact, and before the caller's context is cancelled: no goroutine with a library frame that was not there before TO2
	// (concurrent_more.go)
	c19CheckLib(c, gBefore, "after-"+sc.mode, kind, p, ob)
	cancel()
	if got, ok := c19Settle(base, 2, 3*time.Second); !ok {
		sig := "goroutine-leak"
		if sc.mode != "normal" {
			sig = "goroutine-leak-after-cancel"
		}
		c.Fail(sig, fmt.Sprintf("%d goroutines before TO2, %d three seconds after it returned (%s, err=%v)\n%s", base, got, sc.label(), o.err, c19FdoStacks(1500)), kind, p, ob)
	}
	for _, s := range dp.reg.takeStray() {
		c.Fail("module-data-leak", "owner modules requested for an unknown serial: "+s, kind, p, ob)
	}
}

// sideProbe documents a defect that is NOT a violation of this property (a device running alone is hit the same way) but
// that decides which device-module behaviours the runs above may use: when a forced message break (yield) is the first
// thing of a 68 - a module yields twice in a row, or a write larger than the MTU happens to end exactly at the end of a
// 68 and is followed by a yield - exchangeServiceInfoRound sends an empty 68 without IsMoreServiceInfo ("likely due to a
// yield") and returns; the service info the module wrote after the break stays in the round's pipe, which is then
// abandoned: the data is silently lost.
func (pp *c19Pipe) sideProbe() {
	c, dp := pp.c, pp.dp
	pp.n++
	pl := c19Plan{Tag: fmt.Sprintf("c19-p%d", pp.n), Spec: env.P256, Enc: protocol.X509KeyEnc, Suite: kex.ECDH256Suite, Cipher: kex.A128GcmCipher,
		DevSize: 200, OwnSize: 0, DoubleYield: true, Seed: 1}
	ctx, cancel := context.WithTimeout(context.Background(), 60*time.Second)
	defer cancel()
	dp.e.OwnerMTU = 0
	dev, err := dp.newDevice(ctx, pl.Spec, pl.Enc, pl.Tag)
	if err != nil {
		return
	}
	cfg, t := dp.to2Config(dev, &pl, pl.Tag)
	dp.reg.add(t.tag, t.sess)
	defer dp.reg.drop(t.tag)
	_, err = dp.e.TO2(ctx, dev, nil, cfg)
	got, fin := -1, false
	t.sess.mu.Lock()
	if len(t.sess.owners) == 1 {
		o := t.sess.owners[0]
		o.mu.Lock()
		got, fin = o.devGot, o.fin
		o.mu.Unlock()
	}
	t.sess.mu.Unlock()
	lost := got != pl.DevSize || !fin
	c.Count("side_probe_double_yield", fmt.Sprintf("lost=%v", lost))
	if lost {
		c.Note("side finding (not a C19 violation: no concurrency involved): a device module that wrote 100 bytes, yielded twice and wrote 100 more bytes plus a closing message "+
			"got only %d of 200 bytes (closing message arrived: %v) through to the owner module; TO2 ended with: %v. exchangeServiceInfoRound (to2.go) treats a forced break at the start of a 68 as "+
			"'nothing more to send' and the rest of the round's device service info is dropped. The same happens when a write larger than the MTU ends exactly at the end of a 68 and is followed by a yield "+
			"(seen with a 2532-byte write). The runs of this property therefore never yield after a large write.", got, fin, err)
	}
}

// fsimRun: one TO2 with the library's own fsim device modules (download, upload, wget with its download goroutine) so
// that the race detector sees them at work. urlFirst: a scripted owner module sends fdo.wget's url before name and sha-384
// (the device module's own error text "name not sent before file download completed" shows that it expects this order to
// be possible).
func (pp *c19Pipe) fsimRun(size int, urlFirst bool, nameAt int, srvDelay time.Duration) {
	c, dp := pp.c, pp.dp
	pp.n++
	kind := "concurrent.fsim"
	p := core.Params{"size": strconv.Itoa(size), "url_first": boolTF(urlFirst), "name_at_round": strconv.Itoa(nameAt), "server_delay": srvDelay.String()}
	c.Rep.Evaluations++
	c.Count("pipeline_mode", "fsim")
	base, err := os.MkdirTemp(WorkDir(), "c19-fsim-")
	if err != nil {
		c.Note("harness: %v", err)
		return
	}
	defer os.RemoveAll(base)
	dirs := map[string]string{}
	for _, n := range []string{"devdest", "devtmp", "devsrc", "owndest", "owntmp"} {
		dirs[n] = filepath.Join(base, n)
		_ = os.Mkdir(dirs[n], 0o755)
	}
	data := make([]byte, size)
	newC19Gen("fsim", 'f').fill(data, 0)
	_ = os.WriteFile(filepath.Join(dirs["devsrc"], "up.bin"), data, 0o644)
	srv := httptest.NewServer(http.HandlerFunc(func(w http.ResponseWriter, _ *http.Request) {
		time.Sleep(srvDelay)
		w.Header().Set("Content-Length", strconv.Itoa(len(data)))
		half := len(data) / 2
		_, _ = w.Write(data[:half])
		if f, ok := w.(http.Flusher); ok {
			f.Flush()
		}
		time.Sleep(srvDelay)
		_, _ = w.Write(data[half:])
	}))
	defer srv.Close()
	mkTemp := func(dir string) func() (*os.File, error) {
		return func() (*os.File, error) { return os.CreateTemp(dir, "t_*") }
	}
	u, _ := url.Parse(srv.URL + "/f")
	sum := sha512.Sum384(data)
	prevMods := dp.e.OwnerModules
	defer func() { dp.e.OwnerModules = prevMods }()
	dp.e.OwnerModules = func(context.Context, protocol.GUID, serviceinfo.Devmod, []string) iter.Seq2[string, serviceinfo.OwnerModule] {
		return func(yield func(string, serviceinfo.OwnerModule) bool) {
			if !yield("fdo.download", &fsim.DownloadContents[*bytes.Reader]{Name: "down.bin", Contents: bytes.NewReader(data), MustDownload: true}) {
				return
			}
			if !yield("fdo.upload", &fsim.UploadRequest{Dir: dirs["owndest"], Name: "up.bin", CreateTemp: mkTemp(dirs["owntmp"])}) {
				return
			}
			var w serviceinfo.OwnerModule = &fsim.WgetCommand{Name: "wget.bin", URL: u, Length: int64(len(data)), Checksum: sum[:]}
			if urlFirst {
				w = &c19WgetOwner{url: u.String(), name: "wget.bin", sum: sum[:], nameAt: nameAt}
			}
			yield("fdo.wget", w)
		}
	}
	ctx, cancel := context.WithTimeout(context.Background(), 60*time.Second)
	defer cancel()
	dev, err := dp.newDevice(ctx, env.P256, protocol.X509KeyEnc, fmt.Sprintf("c19-f%d", pp.n))
	if err != nil {
		c.Fail("pipeline-setup-failed", "DI: "+err.Error(), kind, p, core.Obs{})
		return
	}
	cfg := dev.TO2Config(kex.ECDH256Suite, kex.A128GcmCipher)
	htr := &http.Transport{DisableKeepAlives: true}
	defer htr.CloseIdleConnections()
	toPath := func(n string) string { return filepath.Join(dirs["devdest"], n) }
	cfg.DeviceModules = map[string]serviceinfo.DeviceModule{
		"fdo.download": &fsim.Download{CreateTemp: mkTemp(dirs["devtmp"]), NameToPath: toPath},
		"fdo.upload":   &fsim.Upload{FS: os.DirFS(dirs["devsrc"])},
		"fdo.wget":     &fsim.Wget{CreateTemp: mkTemp(dirs["devtmp"]), NameToPath: toPath, Timeout: 20 * time.Second, Client: &http.Client{Transport: htr}},
	}
	nG := runtime.NumGoroutine()
	done := make(chan error, 1)
	go func() {
		defer func() {
			if r := recover(); r != nil {
				done <- fmt.Errorf("panic: %v", r)
			}
		}()
		_, err := dp.e.TO2(ctx, dev, nil, cfg)
		done <- err
	}()
	select {
	case err = <-done:
	case <-time.After(40 * time.Second):
		c.Fail("deadlock@device-pipeline:fsim", "TO2 with fsim modules did not return within 40 s\n"+c19FdoStacks(1500), kind, p, core.Obs{Impl: "hang"})
		return
	}
	ob := core.Obs{Impl: fmt.Sprint("err=", err)}
	if err != nil && urlFirst && strings.Contains(err.Error(), "name not sent before file download completed") {
		// the download goroutine was faster than the owner's next message: fsim.Wget's documented answer to this order
		c.Count("pipeline_outcome", "fsim-wget-name-late")
	} else if err != nil {
		c.Count("pipeline_outcome", "fsim-error")
		c.Fail("pipeline-run-failed:fsim", err.Error(), kind, p, ob)
	} else {
		c.Count("pipeline_outcome", "fsim-ok")
		for _, f := range []string{filepath.Join(dirs["devdest"], "down.bin"), filepath.Join(dirs["owndest"], "up.bin"), filepath.Join(dirs["devdest"], "wget.bin")} {
			if b, rerr := os.ReadFile(f); rerr != nil || !bytes.Equal(b, data) {
				c.Fail("fsim-file-differs", fmt.Sprintf("%s: %v, %d bytes (want %d)", filepath.Base(f), rerr, len(b), len(data)), kind, p, ob)
			}
		}
	}
	htr.CloseIdleConnections()
	srv.Close()
	if got, ok := c19Settle(nG, 2, 3*time.Second); !ok {
		c.Fail("goroutine-leak", fmt.Sprintf("%d goroutines before TO2 with fsim modules, %d three seconds after\n%s", nG, got, c19FdoStacks(1500)), kind, p, ob)
	}
}

// c19WgetOwner drives fdo.wget with url first, then name and sha-384 in the next round, then waits for done/error.
type c19WgetOwner struct {
	url, name string
	sum       []byte
	nameAt    int // the ProduceInfo call that carries name and sha-384 (default 2)
	calls     int
	done      bool
	err       string
}

func (w *c19WgetOwner) HandleInfo(_ context.Context, name string, body io.Reader) error {
	switch name {
	case "done":
		var n int64
		_ = cbor.NewDecoder(body).Decode(&n)
		w.done = true
	case "error":
		_ = cbor.NewDecoder(body).Decode(&w.err)
		return fmt.Errorf("device reported error: %s", w.err)
	default:
		_, _ = io.Copy(io.Discard, body)
	}
	return nil
}

func (w *c19WgetOwner) ProduceInfo(_ context.Context, p *serviceinfo.Producer) (bool, bool, error) {
	w.calls++
	enc := func(v any) []byte { b, _ := cbor.Marshal(v); return b }
	at := max(w.nameAt, 2)
	switch {
	case w.calls == 1:
		_ = p.WriteChunk("active", enc(true))
		_ = p.WriteChunk("url", enc(w.url))
		return false, false, nil
	case w.calls == at:
		_ = p.WriteChunk("name", enc(w.name))
		_ = p.WriteChunk("sha-384", enc(w.sum))
		return false, false, nil
	case w.calls < at:
		time.Sleep(5 * time.Millisecond)
		return false, false, nil
	}
	if w.calls > 3000 {
		return false, false, errors.New("c19 wget owner: device never finished")
	}
	time.Sleep(time.Millisecond)
	return false, w.done, nil
}

// ---- race reports ----

type c19Race struct {
	text   string
	frames [][]string // function names of each access stack (not the "created at" stacks)
}

// c19ParseRaces splits race detector output into reports.
func c19ParseRaces(text string) []c19Race {
	var out []c19Race
	for _, blk := range strings.Split(text, "==================") {
		if !strings.Contains(blk, "WARNING: DATA RACE") {
			continue
		}
		r := c19Race{text: strings.TrimSpace(blk)}
		for _, sec := range strings.Split(r.text, "\n\n") {
			lines := strings.Split(strings.TrimLeft(sec, "\n"), "\n")
			hdr := strings.TrimSpace(strings.TrimPrefix(strings.TrimSpace(lines[0]), "WARNING: DATA RACE"))
			if hdr == "" && len(lines) > 1 {
				lines = lines[1:]
				hdr = strings.TrimSpace(lines[0])
			}
			if strings.HasPrefix(hdr, "Goroutine ") || hdr == "" {
				continue
			}
			var fr []string
			for _, l := range lines[1:] {
				if strings.HasPrefix(l, "  ") && !strings.HasPrefix(l, "   ") {
					f := strings.TrimSpace(l)
					if i := strings.LastIndex(f, "("); i > 0 {
						f = f[:i]
					}
					fr = append(fr, f)
				}
			}
			r.frames = append(r.frames, fr)
		}
		out = append(out, r)
	}
	return out
}

// c19FirstFdo: the first library frame of a stack; frames of the cbor package (which only moves bytes on behalf of its
// caller) are passed over when another library frame follows, so that a race on a module's field is named after the module.
func c19FirstFdo(fr []string) string {
	first := ""
	for _, f := range fr {
		if !strings.Contains(f, "go-fdo") {
			continue
		}
		f = strings.TrimPrefix(f, "github.com/fido-device-onboard/")
		if first == "" {
			first = f
		}
		if !strings.HasPrefix(f, "go-fdo/cbor.") {
			return f
		}
	}
	return first
}

// c19CollectRaces reads the race detector's log files and reports every distinct race with library frames.
func c19CollectRaces(c *core.Ctx) {
	dir := os.Getenv("VERIF_RACE_DIR")
	if dir == "" {
		dir = WorkDir()
	}
	files, _ := filepath.Glob(filepath.Join(dir, "race.*"))
	seen := map[string]bool{}
	total, harnessOnly := 0, 0
	for _, f := range files {
		b, err := os.ReadFile(f)
		if err != nil {
			continue
		}
		for _, r := range c19ParseRaces(string(b)) {
			total++
			var tops []string
			for _, fr := range r.frames {
				if t := c19FirstFdo(fr); t != "" {
					tops = append(tops, t)
				}
			}
			if len(tops) == 0 {
				harnessOnly++
				c.Count("harness_only_race", clipS(strings.Join(func() []string {
					var s []string
					for _, fr := range r.frames {
						if len(fr) > 0 {
							s = append(s, fr[0])
						}
					}
					return s
				}(), " | "), 160))
				continue
			}
			first := tops[0]
			sorted := append([]string(nil), tops...)
			sort.Strings(sorted)
			key := strings.Join(sorted, "|")
			c.Count("data_race", key)
			if seen[key] {
				continue
			}
			seen[key] = true
			p := core.Params{"log": filepath.Base(f), "library_frames": key}
			for i, fr := range r.frames {
				p[fmt.Sprintf("stack%d", i)] = clipS(strings.ReplaceAll(strings.Join(fr, " < "), "github.com/fido-device-onboard/", ""), 600)
			}
			c.Fail("data-race:"+first, clipS(r.text, 1500), "concurrent.run", p, core.Obs{})
		}
	}
	c.Note("race detector logs: %d files under %s, %d reports, %d distinct with library frames, %d without any library frame (harness-only, not reported as failures)",
		len(files), dir, total, len(seen), harnessOnly)
}

// ---- the runner ----

func RunC19(c *core.Ctx) {
	c.Rep.Rule = "C19: part 1 - one deployment (one http.Handler, one DI/TO0/TO1/TO2 responder set, one SQLite store; once with the single connection every " +
		"other property uses and once with database/sql's default connection pool, which is what sqlite.Open returns) holds manufacturer and owner keys of several " +
		"key types; N devices (quick {2,8,32}, thorough {2,4,8,16,32,64}) of mixed key types / encodings / key exchanges / ciphers start DI->TO0->TO1->TO2 " +
		"(credential replacement) at the same instant, GOMAXPROCS in {1,2,16}, 0-3 ms random delay before every request and " +
		"after every response (env.HookRT hooks) and 0-2 ms in module callbacks. Each device has a unique tag in its devmod serial; owner and device modules exchange " +
		"streams (0 B..64 KB) derived from the tag and verify every byte. Monitors: concurrent-run-failed:<step> (a chain fails although the same configuration " +
		"succeeds alone), voucher-mixup (GUID reused; replacement voucher missing / not verifying under the device's own HMAC secret / not matching the device " +
		"credential), module-data-leak (any byte, devmod serial, module list, GUID or stream length seen by a module that is not its own session's), effects-mismatch " +
		"(journal per GUID must be exactly 1 di-voucher, 1 rv-blob, 1 module-invoke, 1 voucher-replace), panic@concurrent, hang@concurrent (request > 20 s or batch > 200 s), " +
		"goroutine-leak. " +
		"Part 1b - N devices (quick {2,4}, thorough {2,4,8,16}) onboard at the same instant against the same deployment while every session's owner module list is " +
		"[fsim.DownloadContents{Name: config.bin, that device's own 20-60 kB}, fsim.UploadRequest{Name: report.bin, Dir: that session's own directory}] with the modules' DEFAULT " +
		"temporary files (os.CreateTemp; $TMPDIR points next to the destinations), every device serving its own tagged 20-60 kB as report.bin through fsim.Upload and receiving through " +
		"fsim.Download: module-data-leak:upload / module-data-leak:download (a stored file is missing or is not bit-identical to what ITS session's peer served; the detail says whose " +
		"bytes it is made of), concurrent-run-failed:<step> (compared with the same configuration alone). " +
		"Part 2 - single TO2 runs with fixed delays in {0,1,5} ms in device module x transport x owner module (all 27 permutations) and random delays, " +
		"devmod with 0/20/200 extra module names, device and owner streams of 0 / 1 KB / 64 KB (at most ~120 logical service infos per round: below the documented bound " +
		"of 1000 buffered service infos per direction, to2.go exchangeServiceInfo), 30 s watchdog (deadlock@device-pipeline:<mode> with the library goroutines' stacks), " +
		"context cancellation at a random 68 (slow-return-after-cancel, cancel-ignored, goroutine-leak-after-cancel), transport failure at a 68 while a device module " +
		"sits inside Receive (module-context-not-cancelled), and TO2s with the library's fsim download/upload/wget device modules. " +
		"DATA RACES: the caller must run a binary built with -race with GORACE=\"log_path=<dir>/race exitcode=0\" and VERIF_RACE_DIR=<dir> (default: the work directory next " +
		"to the binary); at the end every file <dir>/race.* is parsed and each distinct report whose access stacks contain a go-fdo frame becomes a failure " +
		"data-race:<first library frame> (the first go-fdo frame outside the cbor package; deduplicated by that frame of each access stack); reports without any library frame are harness races and are only counted in a note."
	if !raceEnabled {
		c.Note("race detector not enabled: this binary was built without -race; only the functional monitors run")
	}
	t0 := time.Now()
	quick := c.Quick()
	// which key types the one deployment holds
	specs := []env.KeySpec{env.P256, env.P384, env.RSA2048, env.RSAPSS2}
	if !quick {
		specs = env.AllKeys
	}
	// warm the key cache in parallel (RSA generation is slow, slower still under the race detector)
	var wg sync.WaitGroup
	for _, s := range specs {
		roles := []string{"mfg", "owner", "dev0"}
		if s.Bits == 0 {
			roles = append(roles, "dev1", "dev2", "dev3")
		}
		for _, r := range roles {
			wg.Add(1)
			go func() { defer wg.Done(); env.Key(s, r) }()
		}
	}
	wg.Wait()
	c.Note("keys ready after %.1fs", time.Since(t0).Seconds())

	pt := &c19Part1{c: c, guids: map[protocol.GUID]string{}, soloOK: map[string]string{}}
	sizes := []int{0, 100, 1000, 5000, 20000}
	var sched [][2]int
	if quick {
		sched = [][2]int{{2, 1}, {8, 2}, {32, 16}}
	} else {
		sizes = append(sizes, 65536)
		for rep := 0; rep < 2; rep++ {
			for _, n := range []int{2, 4, 8, 16, 32, 64} {
				for _, procs := range []int{1, 2, 16} {
					sched = append(sched, [2]int{n, procs})
				}
			}
		}
	}
	for _, pooled := range []bool{false, true} {
		t1 := time.Now()
		s := sched
		if quick && pooled {
			// (time budget: since sqlite.Open itself limits the pool to one connection both modes run every chain to its end;
			// N=32 is left to the single-connection deployment)
			s = [][2]int{{2, 16}, {8, 1}}
		}
		var fs [][2]int
		switch {
		case quick && !pooled:
			fs = [][2]int{{2, 16}, {4, 2}}
		case quick:
			fs = [][2]int{{4, 1}}
		default:
			for _, n := range []int{2, 4, 8, 16} {
				for _, procs := range []int{1, 2, 16} {
					fs = append(fs, [2]int{n, procs})
				}
			}
		}
		pt.run(specs, pooled, s, fs, sizes)
		c.Note("part 1 (%s): %.1fs", map[bool]string{false: "single connection", true: "pooled connections"}[pooled], time.Since(t1).Seconds())
	}

	// part 2
	t2 := time.Now()
	dp, err := newC19Deploy([]env.KeySpec{env.P256}, false)
	if err != nil {
		c.Fail("harness:env", err.Error(), "concurrent.pipeline", core.Params{}, core.Obs{})
	} else {
		pp := &c19Pipe{c: c, dp: dp}
		delays := []time.Duration{0, time.Millisecond, 5 * time.Millisecond}
		vols := []int{0, 1024, 65536}
		mods := []int{0, 20, 200}
		i := 0
		for _, dm := range delays {
			for _, tr := range delays {
				for _, om := range delays {
					if quick {
						// one volume combination per delay permutation, walking through all 27 volume combinations
						// (time budget: 64 KB streams in six of the 27 runs, alternating direction; the others use 0 / 1 KB; the random
						// runs below and the thorough tier have 64 KB in both directions at once)
						v := i
						ds, os := vols[(v/3)%3], vols[(v/9)%3]
						if ds == 65536 {
							ds = 1024
						}
						if os == 65536 {
							os = 1024
						}
						if i%5 == 0 {
							if (i/5)%2 == 0 {
								ds = 65536
							} else {
								os = 65536
							}
						}
						pp.run(c19Scenario{mode: "normal", tr: tr, plan: c19Plan{Fix: true, DevDelay: dm, OwnDelay: om, NMods: mods[v%3], DevSize: ds, OwnSize: os,
							Block: c.Rng.Intn(2) == 0, InYield: c.Rng.Intn(2) == 0}})
					} else {
						for v := 0; v < 27; v++ {
							pp.run(c19Scenario{mode: "normal", tr: tr, plan: c19Plan{Fix: true, DevDelay: dm, OwnDelay: om, NMods: mods[v%3], DevSize: vols[(v/3)%3], OwnSize: vols[(v/9)%3],
								Block: c.Rng.Intn(2) == 0, InYield: c.Rng.Intn(2) == 0}})
						}
					}
					i++
				}
			}
		}
		c.Note("part 2, 27 delay permutations: %.1fs", time.Since(t2).Seconds())
		t3 := time.Now()
		nRand, nCancel, nFail, nFsim := 4, 6, 4, 3
		if !quick {
			nRand, nCancel, nFail, nFsim = 150, 80, 40, 12
		}
		rd := func() time.Duration { return time.Duration(c.Rng.Intn(6)) * time.Millisecond }
		for k := 0; k < nRand; k++ {
			pp.run(c19Scenario{mode: "normal", tr: rd(), plan: c19Plan{DevDelay: rd(), OwnDelay: rd(), NMods: mods[c.Rng.Intn(3)], DevSize: vols[c.Rng.Intn(3)], OwnSize: vols[c.Rng.Intn(3)],
				Block: c.Rng.Intn(2) == 0, InYield: c.Rng.Intn(2) == 0}})
		}
		c.Note("part 2, random delays: %.1fs", time.Since(t3).Seconds())
		t3 = time.Now()
		for k := 0; k < nCancel; k++ {
			ck, nm := 1+c.Rng.Intn(12), mods[c.Rng.Intn(2)]
			if k%3 == 0 {
				// while the devmod goroutine is still writing (its list needs a second message)
				ck, nm = 1, 20
			}
			pp.run(c19Scenario{mode: "cancel", tr: time.Duration(c.Rng.Intn(2)) * time.Millisecond, cancelK: ck,
				plan: c19Plan{DevDelay: time.Duration(c.Rng.Intn(3)) * time.Millisecond, OwnDelay: time.Duration(c.Rng.Intn(3)) * time.Millisecond, NMods: nm, DevSize: 65536, OwnSize: 65536,
					Block: c.Rng.Intn(2) == 0, InYield: c.Rng.Intn(2) == 0}})
		}
		c.Note("part 2, cancellations: %.1fs", time.Since(t3).Seconds())
		t3 = time.Now()
		for k := 0; k < nFail; k++ {
			pp.run(c19Scenario{mode: "tr-fail", tr: time.Duration(c.Rng.Intn(2)) * time.Millisecond,
				plan: c19Plan{BlockInReceive: true, DevDelay: time.Duration(c.Rng.Intn(3)) * time.Millisecond, NMods: mods[c.Rng.Intn(2)], DevSize: 1024, OwnSize: []int{0, 1024, 20000}[c.Rng.Intn(3)],
					Block: false}})
		}
		c.Note("part 2, transport failures: %.1fs", time.Since(t3).Seconds())
		t3 = time.Now()
		for k := 0; k < nFsim; k++ {
			switch k % 3 {
			case 0: // url before name, fast server: the download ends before the name arrives
				pp.fsimRun(3000, true, 2, 0)
			case 1: // the library's own WgetCommand (name, sha-384, url)
				pp.fsimRun(70000, false, 2, time.Duration(5+c.Rng.Intn(30))*time.Millisecond)
			default: // url before name, slow server: the name arrives while the download runs
				pp.fsimRun(20000, true, 2, time.Duration(20+c.Rng.Intn(30))*time.Millisecond)
			}
		}
		pp.sideProbe()
		c.Note("part 2, fsim modules and side probe: %.1fs", time.Since(t3).Seconds())
		// goroutine lifecycle under a fault at every message position; fsim.Command with a slow consumer (concurrent_more.go)
		c19More(c, dp)
		dp.e.Close()
	}
	c.Note("part 2: %.1fs", time.Since(t2).Seconds())
	c.Rep.Distinct = c.Rep.Evaluations
	if raceEnabled {
		c19CollectRaces(c)
	}
}
