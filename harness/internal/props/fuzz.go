package props

// C10: robustness of every receiver against arbitrary peer input.  Server side: the real http.Handler + responders are
// sent, after the honest run-up to each protocol position, structure-aware mutations of the honest message of that
// position, arbitrary byte strings, and a catalogue of damaged HTTP envelopes.  Client side: the library's DI / TO0 /
// TO1 / TO2 client functions run against the real server while one response is replaced.  Per case the monitor checks:
// no panic, no hang, allocation in proportion to the message size, and the reply class (server) / outcome (client).

import (
	"bytes"
	"context"
	"crypto"
	"crypto/ecdsa"
	crand "crypto/rand"
	"crypto/sha256"
	"encoding/hex"
	"encoding/json"
	"fmt"
	"io"
	"log/slog"
	mrand "math/rand"
	"net/http"
	"net/http/httptest"
	"os"
	"os/exec"
	"path/filepath"
	"runtime"
	"strconv"
	"strings"
	"sync"
	"time"

	"github.com/fido-device-onboard/go-fdo/cbor"
	"github.com/fido-device-onboard/go-fdo/cose"
	"github.com/fido-device-onboard/go-fdo/kex"
	"github.com/fido-device-onboard/go-fdo/protocol"

	"verifharness/internal/core"
	"verifharness/internal/env"
	"verifharness/internal/raw"
)

// ---------------------------------------------------------------------------------------------------------------------
// an independent CBOR tree (strict, definite lengths only: that is what honest messages are made of)
// ---------------------------------------------------------------------------------------------------------------------

type fzNode struct {
	mt, ai byte
	arg    uint64
	ext    []byte    // major type 7: the bytes following the initial byte
	str    []byte    // content of byte / text strings
	kids   []*fzNode // array items; map k,v,k,v,...; tag content
	emb    *fzNode   // a byte string whose content is exactly one well-formed item
	par    *fzNode
	headOv []byte // head as written, whatever the content is (length inflation, indefinite heads)
	tailOv []byte // bytes written after the content (break of indefinite items)
	rawOv  []byte // the whole item as written
}

func fzParse(b []byte, depth int) (n *fzNode, rest []byte, ok bool) {
	if len(b) == 0 || depth > 48 {
		return nil, nil, false
	}
	n = &fzNode{mt: b[0] >> 5, ai: b[0] & 31}
	b = b[1:]
	switch {
	case n.ai < 24:
		n.arg = uint64(n.ai)
	case n.ai <= 27:
		k := 1 << (n.ai - 24)
		if len(b) < k {
			return nil, nil, false
		}
		for i := 0; i < k; i++ {
			n.arg = n.arg<<8 | uint64(b[i])
		}
		if n.mt == 7 {
			n.ext = append([]byte(nil), b[:k]...)
		}
		b = b[k:]
	default:
		return nil, nil, false
	}
	switch n.mt {
	case 2, 3:
		if uint64(len(b)) < n.arg {
			return nil, nil, false
		}
		n.str = append([]byte(nil), b[:n.arg]...)
		b = b[n.arg:]
		if n.mt == 2 && len(n.str) > 1 {
			if e, r, ok := fzParse(n.str, depth+1); ok && len(r) == 0 && (e.mt >= 4 && e.mt <= 6) {
				n.emb = e
				e.par = n
			}
		}
	case 4, 5:
		cnt := n.arg
		if n.mt == 5 {
			cnt *= 2
		}
		if cnt > uint64(len(b)) {
			return nil, nil, false
		}
		for i := uint64(0); i < cnt; i++ {
			k, r, ok := fzParse(b, depth+1)
			if !ok {
				return nil, nil, false
			}
			k.par = n
			n.kids = append(n.kids, k)
			b = r
		}
	case 6:
		k, r, ok := fzParse(b, depth+1)
		if !ok {
			return nil, nil, false
		}
		k.par = n
		n.kids = []*fzNode{k}
		b = r
	}
	return n, b, true
}

func (n *fzNode) content() []byte {
	if n.emb != nil {
		return n.emb.bytes()
	}
	return n.str
}

func (n *fzNode) write(out *bytes.Buffer) {
	if n.rawOv != nil {
		out.Write(n.rawOv)
		return
	}
	hd := func(def []byte) {
		if n.headOv != nil {
			out.Write(n.headOv)
		} else {
			out.Write(def)
		}
	}
	switch n.mt {
	case 0, 1:
		hd(head(n.mt, n.arg))
	case 2, 3:
		c := n.content()
		hd(head(n.mt, uint64(len(c))))
		out.Write(c)
	case 4:
		hd(head(4, uint64(len(n.kids))))
		for _, k := range n.kids {
			k.write(out)
		}
	case 5:
		hd(head(5, uint64(len(n.kids)/2)))
		for _, k := range n.kids {
			k.write(out)
		}
	case 6:
		hd(head(6, n.arg))
		for _, k := range n.kids {
			k.write(out)
		}
	default:
		hd(append([]byte{7<<5 | n.ai}, n.ext...))
	}
	out.Write(n.tailOv)
}

func (n *fzNode) bytes() []byte {
	var b bytes.Buffer
	n.write(&b)
	return b.Bytes()
}

func (n *fzNode) all(out []*fzNode) []*fzNode {
	out = append(out, n)
	if n.emb != nil {
		out = n.emb.all(out)
	}
	for _, k := range n.kids {
		out = k.all(out)
	}
	return out
}

// index of n in its parent's kids (-1: root, embedded root)
func (n *fzNode) index() int {
	if n.par == nil {
		return -1
	}
	for i, k := range n.par.kids {
		if k == n {
			return i
		}
	}
	return -1
}

// fzWellFormed: the first item of b parses under the strict reader (trailing bytes do not matter: receivers read a stream).
func fzWellFormed(b []byte) bool {
	_, _, ok := fzParse(b, 0)
	return ok
}

// ---------------------------------------------------------------------------------------------------------------------
// structure-aware mutation
// ---------------------------------------------------------------------------------------------------------------------

var fzInts = []uint64{0, 1, 2, 3, 5, 10, 23, 24, 25, 100, 101, 127, 128, 255, 256, 257, 1000, 9999, 32767, 32768, 65535, 65536, 1<<31 - 1, 1 << 31, 1<<32 - 1,
	1 << 32, 1<<53 + 1, 1<<63 - 1, 1 << 63, 1<<64 - 1}

var fzCounts = []uint64{0, 1, 23, 24, 255, 256, 65535, 65536, 1 << 20, 1<<31 - 1, 1 << 31, 1<<32 - 1, 1 << 32, 1 << 40, 1<<62 - 1, 1<<63 - 1, 1 << 63, 1<<64 - 1}

var fzFloats = [][]byte{{0xf9, 0x80, 0x00}, {0xf9, 0x00, 0x00}, {0xf9, 0x7e, 0x00}, {0xf9, 0x7c, 0x00}, {0xfa, 0x7f, 0xc0, 0, 0}, {0xfa, 0x80, 0, 0, 0},
	{0xfb, 0x80, 0, 0, 0, 0, 0, 0, 0}, {0xfb, 0x7f, 0xf0, 0, 0, 0, 0, 0, 0}, {0xfb, 0x43, 0xf0, 0, 0, 0, 0, 0, 0}, {0xf8, 0x00}, {0xf8, 0x18}, {0xf8, 0x1f}, {0xf8, 0xff},
	{0xe0}, {0xf3}, {0xf4}, {0xf5}, {0xfc}, {0xfd}, {0xfe}, {0xff}}

var fzKinds = []string{"insert", "int-boundary", "int-boundary", "int-near", "type-swap", "type-swap", "null", "null", "str-edit", "str-huge", "utf8", "len-inflate",
	"len-inflate", "drop", "dup", "swap", "absent-nofix", "nest-deep", "indef", "float", "tag", "bignum", "emb-stale", "truncate", "truncate", "trailing", "bytes"}

func fzPick(r *mrand.Rand, nodes []*fzNode, pred func(*fzNode) bool) *fzNode {
	var c []*fzNode
	for _, n := range nodes {
		if pred(n) {
			c = append(c, n)
		}
	}
	if len(c) == 0 {
		return nil
	}
	return c[r.Intn(len(c))]
}

func fzRep(b []byte, n int) []byte { return bytes.Repeat(b, n) }

// fzMutate derives one mutant of a well-formed message. The result is capped at 70000 bytes (the transport refuses more
// than 65535 anyway).
func fzMutate(r *mrand.Rand, honest []byte) (out []byte, kind string) {
	defer func() {
		if len(out) > 70000 {
			out = out[:70000]
		}
	}()
	root, rest, ok := fzParse(honest, 0)
	if !ok || len(rest) != 0 {
		return mutate(r, honest), "bytes"
	}
	for try := 0; try < 40; try++ {
		kind = fzKinds[r.Intn(len(fzKinds))]
		if b, ok := fzApply(r, root, kind); ok {
			if r.Intn(6) == 0 { // a second, byte-level change on top
				return mutate(r, b), kind + "+bytes"
			}
			return b, kind
		}
		root, _, _ = fzParse(honest, 0) // a failed attempt may have left marks
	}
	return mutate(r, honest), "bytes"
}

func fzApply(r *mrand.Rand, root *fzNode, kind string) ([]byte, bool) {
	nodes := root.all(nil)
	isInt := func(n *fzNode) bool { return n.mt <= 1 }
	isStr := func(n *fzNode) bool { return n.mt == 2 || n.mt == 3 }
	hasLen := func(n *fzNode) bool { return n.mt >= 2 && n.mt <= 5 }
	inContainer := func(n *fzNode) bool { return n.par != nil && (n.par.mt == 4 || n.par.mt == 5) && n.index() >= 0 }
	anyNode := func(*fzNode) bool { return true }
	switch kind {
	case "int-boundary":
		n := fzPick(r, nodes, isInt)
		if n == nil {
			return nil, false
		}
		n.rawOv = head(byte(r.Intn(2)), fzInts[r.Intn(len(fzInts))])
	case "int-near":
		n := fzPick(r, nodes, isInt)
		if n == nil {
			return nil, false
		}
		n.arg += uint64(int64(r.Intn(5) - 2))
		if r.Intn(4) == 0 {
			n.mt ^= 1
		}
	case "type-swap":
		n := fzPick(r, nodes, anyNode)
		self := n.bytes()
		alts := [][]byte{{0x00}, {0x20}, {0x40}, append(head(2, uint64(len(self))), self...), {0x61, 0x78}, {0x80}, append([]byte{0x81}, self...), {0xa0},
			append([]byte{0xa1, 0x00}, self...), append([]byte{0xa1}, append(append([]byte{}, self...), 0x00)...), append([]byte{0xd8, 0x18}, self...), {0xf5}, {0xf9, 0x3c, 0x00},
			append([]byte{0x82}, append(append([]byte{}, self...), self...)...)}
		if n.mt == 2 || n.mt == 3 { // the same content under the other string type
			alts = append(alts, append(head(5-n.mt, uint64(len(n.content()))), n.content()...))
		}
		if n.mt == 4 { // the same items as a map head / as a flat sequence
			alts = append(alts, append(head(5, uint64(len(n.kids)/2)), self[len(head(4, uint64(len(n.kids)))):]...))
		}
		n.rawOv = alts[r.Intn(len(alts))]
	case "null":
		n := fzPick(r, nodes, anyNode)
		n.rawOv = [][]byte{{0xf6}, {0xf6}, {0xf7}, {0xf4}}[r.Intn(4)]
	case "str-edit":
		n := fzPick(r, nodes, isStr)
		if n == nil {
			return nil, false
		}
		c := append([]byte(nil), n.content()...)
		n.emb = nil
		switch k := r.Intn(6); {
		case k == 0:
			c = nil
		case k == 1 && len(c) > 0:
			c = c[:len(c)-1]
		case k == 2:
			c = append(c, byte(r.Intn(256)))
		case k == 3 && len(c) > 0:
			c[r.Intn(len(c))] ^= 1 << uint(r.Intn(8))
		case k == 4 && len(c) > 0:
			r.Read(c)
		default:
			c = append(c, c...)
		}
		n.str = c
	case "str-huge":
		n := fzPick(r, nodes, isStr)
		if n == nil {
			return nil, false
		}
		n.emb = nil
		n.str = fzRep([]byte{'A'}, []int{256, 4096, 30000, 60000, 65000}[r.Intn(5)])
	case "utf8":
		n := fzPick(r, nodes, func(n *fzNode) bool { return n.mt == 3 })
		if n != nil {
			n.str = [][]byte{{0xff}, {0xc0, 0x80}, {0xed, 0xa0, 0x80}, {0xf8, 0x88, 0x80, 0x80, 0x80}, {'a', 0x00, 'b'}, {0xe2, 0x82}, append([]byte{0xfe}, n.str...)}[r.Intn(7)]
			break
		}
		n = fzPick(r, nodes, func(n *fzNode) bool { return n.mt == 2 })
		if n == nil {
			return nil, false
		}
		n.mt = 3
		if utf8ish(n.content()) {
			n.str, n.emb = append([]byte{0xff}, n.content()...), nil
		}
	case "len-inflate":
		n := fzPick(r, nodes, hasLen)
		if n == nil {
			return nil, false
		}
		cur := uint64(len(n.kids))
		if n.mt == 5 {
			cur /= 2
		}
		if isStr(n) {
			cur = uint64(len(n.content()))
		}
		v := fzCounts[r.Intn(len(fzCounts))]
		switch r.Intn(4) {
		case 0:
			v = cur + 1
		case 1:
			v = cur - 1
		}
		n.headOv = head(n.mt, v)
		if r.Intn(5) == 0 { // non-shortest head
			n.headOv = []byte{n.mt<<5 | 27, 0, 0, 0, 0, byte(v >> 24), byte(v >> 16), byte(v >> 8), byte(v)}
		}
	case "drop", "dup", "swap", "absent-nofix":
		n := fzPick(r, nodes, inContainer)
		if n == nil {
			return nil, false
		}
		p, i := n.par, n.index()
		w := 1
		if p.mt == 5 {
			i, w = i&^1, 2
		}
		keep := head(p.mt, uint64(len(p.kids)/w))
		switch kind {
		case "drop", "absent-nofix":
			p.kids = append(append([]*fzNode{}, p.kids[:i]...), p.kids[i+w:]...)
			if kind == "absent-nofix" {
				p.headOv = keep
			}
		case "dup":
			p.kids = append(append(append([]*fzNode{}, p.kids[:i+w]...), p.kids[i:i+w]...), p.kids[i+w:]...)
			if r.Intn(4) == 0 {
				p.headOv = keep
			}
		case "swap":
			if len(p.kids) < 2*w {
				return nil, false
			}
			j := r.Intn(len(p.kids)/w) * w
			for k := 0; k < w; k++ {
				p.kids[i+k], p.kids[j+k] = p.kids[j+k], p.kids[i+k]
			}
		}
	case "insert":
		n := fzPick(r, nodes, func(n *fzNode) bool { return n.mt == 4 || n.mt == 5 })
		if n == nil {
			return nil, false
		}
		w := 1
		if n.mt == 5 {
			w = 2
		}
		var el []*fzNode
		for k := 0; k < w; k++ {
			nw := &fzNode{par: n, rawOv: [][]byte{{0xf6}, {0xf6}, {0xf7}, {0x00}, {0x40}, {0x80}, {0xa0}, {0x60}, {0xf4}}[r.Intn(9)]}
			if len(n.kids) > 0 && r.Intn(3) == 0 {
				nw.rawOv = n.kids[r.Intn(len(n.kids))].bytes()
			}
			el = append(el, nw)
		}
		at := r.Intn(len(n.kids)/w+1) * w
		n.kids = append(append(append([]*fzNode{}, n.kids[:at]...), el...), n.kids[at:]...)
	case "nest-deep":
		n := fzPick(r, nodes, anyNode)
		pre := [][]byte{{0x81}, {0xa1, 0x00}, {0xc1}, {0xd8, 0x18}, {0x9f}, {0xbf, 0x00}, {0x82, 0x00}, {0xd8, 0x18, 0x41}}[r.Intn(8)]
		depth := []int{8, 64, 300, 2000, 20000, 32000, 65000}[r.Intn(7)]
		n.rawOv = append(fzRep(pre, depth), n.bytes()...)
	case "indef":
		n := fzPick(r, nodes, hasLen)
		if n == nil {
			return nil, false
		}
		n.headOv = []byte{n.mt<<5 | 31}
		if isStr(n) { // one definite chunk inside
			c := n.content()
			n.headOv = append(n.headOv, head(n.mt, uint64(len(c)))...)
		}
		if r.Intn(3) != 0 {
			n.tailOv = []byte{0xff}
		}
	case "float":
		n := fzPick(r, nodes, anyNode)
		n.rawOv = fzFloats[r.Intn(len(fzFloats))]
	case "tag":
		n := fzPick(r, nodes, anyNode)
		if n.mt == 6 && r.Intn(2) == 0 {
			if r.Intn(2) == 0 {
				n.rawOv = n.kids[0].bytes() // tag stripped
			} else {
				n.arg = []uint64{0, 1, 2, 16, 17, 18, 24, 96, 98, 55799, 1<<64 - 1}[r.Intn(11)]
			}
			break
		}
		t := []uint64{0, 1, 2, 3, 4, 16, 18, 24, 32, 55799, 1 << 32, 1<<64 - 1}[r.Intn(12)]
		n.rawOv = append(head(6, t), n.bytes()...)
	case "bignum":
		n := fzPick(r, nodes, isInt)
		if n == nil {
			return nil, false
		}
		n.rawOv = [][]byte{{0xc2, 0x41, 0x01}, {0xc2, 0x49, 1, 0, 0, 0, 0, 0, 0, 0, 0}, {0xc3, 0x49, 1, 0, 0, 0, 0, 0, 0, 0, 0}, {0xc2, 0x40}, {0x3b, 0xff, 0xff, 0xff, 0xff, 0xff, 0xff, 0xff, 0xff},
			{0x1b, 0, 0, 0, 0, 0, 0, 0, byte(n.arg)}, {0x18, byte(n.arg & 15)}}[r.Intn(7)]
	case "emb-stale":
		n := fzPick(r, nodes, func(n *fzNode) bool { return n.emb != nil })
		if n == nil {
			return nil, false
		}
		n.headOv = head(2, uint64(len(n.content())))
		sub := n.emb.all(nil)
		m := sub[r.Intn(len(sub))]
		switch r.Intn(4) {
		case 0:
			m.rawOv = []byte{0xf6}
		case 1:
			m.rawOv = append(m.bytes(), fzRep([]byte{0x00}, 1+r.Intn(40))...)
		case 2:
			if hasLen(m) {
				m.headOv = head(m.mt, fzCounts[r.Intn(len(fzCounts))])
			} else {
				m.rawOv = []byte{0x1b, 0xff, 0xff, 0xff, 0xff, 0xff, 0xff, 0xff, 0xff}
			}
		default:
			m.rawOv = []byte{}
		}
	case "truncate":
		b := root.bytes()
		if len(b) == 0 {
			return nil, false
		}
		var cut int
		switch r.Intn(5) {
		case 0:
			cut = len(b) - 1
		case 1:
			cut = 1
		case 2: // right after the head of some item
			n := nodes[r.Intn(len(nodes))]
			cut = bytes.Index(b, n.bytes())
			if cut < 0 {
				cut = 0
			}
			cut += len(head(n.mt, n.arg))
		case 3:
			cut = len(b) / 2
		default:
			cut = r.Intn(len(b))
		}
		return b[:min(cut, len(b))], true
	case "trailing":
		b := root.bytes()
		switch r.Intn(6) {
		case 0:
			b = append(b, 0x00)
		case 1:
			b = append(b, b...)
		case 2:
			b = append(b, 0xff)
		case 3:
			t := make([]byte, 1+r.Intn(64))
			r.Read(t)
			b = append(b, t...)
		case 4:
			if len(b) < 65535 {
				b = append(b, make([]byte, 65535-len(b))...)
			}
		default:
			if len(b) < 65536 {
				b = append(b, make([]byte, 65536-len(b))...)
			}
		}
		return b, true
	case "bytes":
		return mutate(r, root.bytes()), true
	default:
		return nil, false
	}
	return root.bytes(), true
}

func utf8ish(b []byte) bool {
	for _, c := range b {
		if c >= 0x80 {
			return false
		}
	}
	return true
}

// fzResign recomputes the signature of a (tagged or bare) COSE_Sign1 over its present protected header and payload with
// the given key, as the library's clients sign, so that a changed payload gets past the signature check.
func fzResign(key crypto.Signer, pss bool, body []byte) ([]byte, bool) {
	root, rest, ok := fzParse(body, 0)
	if !ok || len(rest) != 0 {
		return nil, false
	}
	s := root
	if s.mt == 6 && len(s.kids) == 1 {
		s = s.kids[0]
	}
	if s.mt != 4 || len(s.kids) != 4 || s.kids[0].mt != 2 || s.kids[2].mt != 2 || s.kids[3].mt != 2 {
		return nil, false
	}
	var tbs bytes.Buffer
	tbs.WriteByte(0x84)
	tbs.Write(append(head(3, 10), "Signature1"...))
	for _, c := range [][]byte{s.kids[0].content(), {}, s.kids[2].content()} {
		tbs.Write(head(2, uint64(len(c))))
		tbs.Write(c)
	}
	opts := raw.SignOpts(key, pss)
	alg, err := cose.SignatureAlgorithmFor(key.Public(), opts)
	if err != nil {
		return nil, false
	}
	h := alg.HashFunc().New()
	h.Write(tbs.Bytes())
	sk := key
	if _, ok := key.Public().(*ecdsa.PublicKey); ok {
		sk = cose.RFC8152Signer{Signer: key}
	}
	sig, err := sk.Sign(crand.Reader, h.Sum(nil), opts)
	if err != nil {
		return nil, false
	}
	s.kids[3].str, s.kids[3].emb = sig, nil
	return root.bytes(), true
}

// ---- systematic sweep: the same few changes at every node of the honest message (shallow nodes first) ----

type fzOp struct {
	idx int // index of the node in pre-order
	op  string
}

func (n *fzNode) depth() int {
	d := 0
	for p := n.par; p != nil; p = p.par {
		d++
	}
	return d
}

// fzSweepOps lists the sweep for a message of the given shape: at most maxNodes nodes, shallow ones first.
func fzSweepOps(honest []byte, maxNodes int) (ops []fzOp) {
	root, rest, ok := fzParse(honest, 0)
	if !ok || len(rest) != 0 {
		return nil
	}
	nodes := root.all(nil)
	order := make([]int, len(nodes))
	for i := range order {
		order[i] = i
	}
	// stable sort by depth
	for d, out := 0, order[:0:0]; len(out) < len(nodes) && d < 64; d++ {
		for i, n := range nodes {
			if n.depth() == d {
				out = append(out, i)
			}
		}
		order = out
	}
	for _, i := range order[:min(len(order), maxNodes)] {
		n := nodes[i]
		ops = append(ops, fzOp{i, "null"})
		switch {
		case n.mt <= 1:
			ops = append(ops, fzOp{i, "zero"}, fzOp{i, "max"})
			if n.arg < 1<<31 { // small integers are mostly identifiers (algorithms, key types, cipher suites, versions): registry neighbours
				for k := range fzRegistryIDs {
					// all of them where the message is a protocol's first (anyone can send it); elsewhere a rotating sixth
					if fzFullIDs || (k+i)%6 == 0 {
						ops = append(ops, fzOp{i, fmt.Sprintf("id:%d", k)})
					}
				}
			}
		case n.mt == 2 || n.mt == 3:
			ops = append(ops, fzOp{i, "empty"})
		case n.mt == 4 || n.mt == 5:
			ops = append(ops, fzOp{i, "empty"}, fzOp{i, "insert-null"})
			if n.mt == 4 && len(n.kids) >= 1 {
				ops = append(ops, fzOp{i, "repeat:1001"}, fzOp{i, "repeat:3000"})
			}
			if n.mt == 4 {
				ops = append(ops, fzOp{i, "claim:99999"}, fzOp{i, "claim-nested:99999"})
			}
		}
	}
	// claimed counts are tried at EVERY array of the message, however deep (the slices a decoder might size by the claim sit
	// deep inside vouchers and headers)
	if maxNodes < len(order) {
		for _, i := range order[maxNodes:] {
			if nodes[i].mt == 4 {
				ops = append(ops, fzOp{i, "claim:99999"}, fzOp{i, "claim-nested:99999"})
			}
		}
	}
	return ops
}

// fzRegistryIDs: identifiers around the library's registries (COSE algorithms, key types and encodings, cipher suites,
// hash algorithms) including named-but-unregistered ones.
var fzFullIDs bool

var fzRegistryIDs = []int64{1, 2, 3, 4, 5, 6, 7, 10, 11, 12, 13, 14, 30, 31, 32, 33, 34, 101, 255, 256, -1, -5, -7, -8, -16, -17, -35, -36, -37, -38, -39, -43, -44,
	-257, -258, -259, -260, -17760701, -17760702, -17760703, -17760707, -17760708, -65535}

// fzApplyOp applies a sweep operation to a fresh instance of the message (same shape, other nonces).
func fzApplyOp(h []byte, o fzOp) []byte {
	root, rest, ok := fzParse(h, 0)
	if !ok || len(rest) != 0 {
		return h
	}
	nodes := root.all(nil)
	if o.idx >= len(nodes) {
		return h
	}
	n := nodes[o.idx]
	switch o.op {
	case "null":
		n.rawOv = []byte{0xf6}
	case "zero":
		n.rawOv = []byte{0x00}
	default:
		if strings.HasPrefix(o.op, "id:") {
			k, _ := strconv.Atoi(strings.TrimPrefix(o.op, "id:"))
			if k >= 0 && k < len(fzRegistryIDs) {
				v := fzRegistryIDs[k]
				if v >= 0 {
					n.rawOv = head(0, uint64(v))
				} else {
					n.rawOv = head(1, uint64(-1-v))
				}
			}
		}
	case "max":
		n.rawOv = []byte{0x1b, 0xff, 0xff, 0xff, 0xff, 0xff, 0xff, 0xff, 0xff}
	case "empty":
		n.rawOv = []byte{n.mt << 5}
	case "repeat:1001", "repeat:3000":
		// the array's own elements cycled up to N items (service info lists: more entries than any internal queue holds)
		want, _ := strconv.Atoi(strings.TrimPrefix(o.op, "repeat:"))
		orig := n.kids
		if len(orig) == 0 { // the fresh instance of the message has another shape here
			break
		}
		size := len(root.bytes())
		for k := 0; len(n.kids) < want && size < 60000; k++ {
			kid := orig[k%len(orig)]
			n.kids = append(n.kids, &fzNode{par: n, rawOv: kid.bytes()})
			size += len(kid.bytes())
		}
	case "claim:99999":
		// the largest count the decoder admits, with the honest (short) content behind it
		n.headOv = []byte{0x9a, 0x00, 0x01, 0x86, 0x9f}
	case "claim-nested:99999":
		// ... and nothing but further such heads behind it
		n.rawOv = fzRep([]byte{0x9a, 0x00, 0x01, 0x86, 0x9f}, 8)
	case "insert-null":
		for k := 0; k < int(n.mt)-3; k++ { // one element for arrays, a pair for maps
			n.kids = append(n.kids, &fzNode{par: n, rawOv: []byte{0xf6}})
		}
	}
	return root.bytes()
}

// fzShapes: adversarial whole bodies that are not derived from the honest message.
func fzShapes() (out []fzNamed) {
	add := func(n string, b []byte) { out = append(out, fzNamed{n, b}) }
	add("shape:65535x81", fzRep([]byte{0x81}, 65535))
	add("shape:65535x9f", fzRep([]byte{0x9f}, 65535))
	add("shape:65535xbf", fzRep([]byte{0xbf}, 65535))
	add("shape:65535xd818", fzRep([]byte{0xd8, 0x18}, 32767))
	add("shape:65535xa100", fzRep([]byte{0xa1, 0x00}, 32767))
	add("shape:32767x5f", fzRep([]byte{0x5f}, 32767))
	add("shape:bstr-4G", append([]byte{0x5a, 0xff, 0xff, 0xff, 0xff}, fzRep([]byte{0x41}, 100)...))
	add("shape:bstr-2^63", append([]byte{0x5b, 0x80, 0, 0, 0, 0, 0, 0, 0}, fzRep([]byte{0x41}, 100)...))
	add("shape:bstr-2^64-1", append([]byte{0x5b, 0xff, 0xff, 0xff, 0xff, 0xff, 0xff, 0xff, 0xff}, fzRep([]byte{0x41}, 100)...))
	add("shape:tstr-4G", append([]byte{0x7a, 0xff, 0xff, 0xff, 0xff}, fzRep([]byte{0x41}, 100)...))
	add("shape:array-2^32", append([]byte{0x9a, 0xff, 0xff, 0xff, 0xff}, fzRep([]byte{0x00}, 100)...))
	add("shape:array-2^31", append([]byte{0x9a, 0x80, 0, 0, 0}, fzRep([]byte{0x00}, 65000)...))
	add("shape:array-2^63", append([]byte{0x9b, 0x80, 0, 0, 0, 0, 0, 0, 0}, fzRep([]byte{0x00}, 100)...))
	add("shape:array-2^64-1", append([]byte{0x9b, 0xff, 0xff, 0xff, 0xff, 0xff, 0xff, 0xff, 0xff}, fzRep([]byte{0x00}, 100)...))
	add("shape:map-2^32", append([]byte{0xba, 0xff, 0xff, 0xff, 0xff}, fzRep([]byte{0x00}, 100)...))
	add("shape:map-2^63", append([]byte{0xbb, 0x80, 0, 0, 0, 0, 0, 0, 0}, fzRep([]byte{0x00}, 100)...))
	add("shape:array-65535-of-array-65535", append(fzRep([]byte{0x99, 0xff, 0xff}, 20000), 0x00))
	add("shape:array-60000-of-0", append([]byte{0x99, 0xea, 0x60}, fzRep([]byte{0x00}, 60000)...))
	add("shape:array-30000-of-empty-bstr", append([]byte{0x99, 0x75, 0x30}, fzRep([]byte{0x40}, 30000)...))
	add("shape:array-20000-of-empty-map", append([]byte{0x99, 0x4e, 0x20}, fzRep([]byte{0xa0}, 20000)...))
	add("shape:tag-2^64-1-chain", fzRep([]byte{0xdb, 0xff, 0xff, 0xff, 0xff, 0xff, 0xff, 0xff, 0xff}, 7000))
	add("shape:bstr-in-bstr", func() []byte {
		b := []byte{0x00}
		for len(b) < 60000 {
			b = append(head(2, uint64(len(b))), b...)
		}
		return b
	}())
	// arrays claiming the largest count the decoder admits (MaxArrayDecodeLength-1 = 99999), nested, with nothing behind:
	// a decoder that sizes its slices by the claimed count pays megabytes per level for a few bytes of input
	for _, k := range []int{1, 4, 16, 64, 120} {
		add(fmt.Sprintf("shape:nested-array-99999x%d", k), fzRep([]byte{0x9a, 0x00, 0x01, 0x86, 0x9f}, k))
		add(fmt.Sprintf("shape:nested-map-49999x%d", k), fzRep([]byte{0xba, 0x00, 0x00, 0xc3, 0x4f}, k))
	}
	add("shape:break", []byte{0xff})
	add("shape:reserved-1c", []byte{0x1c})
	add("shape:float-negzero", []byte{0xf9, 0x80, 0x00})
	add("shape:tstr-60000-invalid-utf8", append([]byte{0x79, 0xea, 0x60}, fzRep([]byte{0xff}, 60000)...))
	return out
}

type fzNamed struct {
	name string
	b    []byte
}

var fzSizes = []int{0, 1, 2, 100, 4096, 65535, 65536, 70000}

// ---------------------------------------------------------------------------------------------------------------------
// measurement
// ---------------------------------------------------------------------------------------------------------------------

type fzMeas struct {
	alloc uint64
	wall  time.Duration
	hang  bool
	panic string
}

// fzMeasure runs fn on its own goroutine with a watchdog; allocation is the TotalAlloc delta (cumulative, so garbage
// collection does not disturb it; other goroutines of this single-purpose process are idle meanwhile).
func fzMeasure(limit time.Duration, fn func()) fzMeas {
	ch := make(chan fzMeas, 1)
	t0 := time.Now()
	go func() {
		var m fzMeas
		var a, b runtime.MemStats
		defer func() {
			if rec := recover(); rec != nil {
				m.panic = fmt.Sprint(rec)
				buf := make([]byte, 4096)
				m.panic += " | " + fzFrames(string(buf[:runtime.Stack(buf, false)]))
			}
			runtime.ReadMemStats(&b)
			m.alloc = b.TotalAlloc - a.TotalAlloc
			m.wall = time.Since(t0)
			ch <- m
		}()
		runtime.ReadMemStats(&a)
		fn()
	}()
	select {
	case m := <-ch:
		return m
	case <-time.After(limit):
		return fzMeas{hang: true, wall: time.Since(t0)}
	}
}

// fzFrames keeps the library frames of a stack trace (where the panic came from).
func fzFrames(stack string) string {
	var out []string
	for _, l := range strings.Split(stack, "\n") {
		l = strings.TrimSpace(l)
		if strings.HasPrefix(l, "/repo/") {
			if i := strings.IndexByte(l, ' '); i > 0 {
				l = l[:i]
			}
			out = append(out, strings.TrimPrefix(l, "/repo/"))
			if len(out) == 6 {
				break
			}
		}
	}
	return strings.Join(out, " < ")
}

func fzAllocLimit(n int, base uint64) uint64 { return 128*uint64(n) + 4<<20 + 2*base }

func fzHexClip(b []byte) string {
	if len(b) <= 1500 {
		return hex.EncodeToString(b)
	}
	s := sha256.Sum256(b)
	return fmt.Sprintf("%x...(%d bytes, sha256 %x)", b[:300], len(b), s[:8])
}

func fzBucket(n uint64) string {
	switch {
	case n < 64<<10:
		return "<64KiB"
	case n < 256<<10:
		return "<256KiB"
	case n < 1<<20:
		return "<1MiB"
	case n < 2<<20:
		return "<2MiB"
	case n < 8<<20:
		return "<8MiB"
	case n < 32<<20:
		return "<32MiB"
	}
	return ">=32MiB"
}

// ---------------------------------------------------------------------------------------------------------------------
// shared state of a run
// ---------------------------------------------------------------------------------------------------------------------

type fzRun struct {
	c        *core.Ctx
	seen     map[string]map[[32]byte]struct{}
	caseFile string
	nCase    int
	deadline time.Time
	rng      *mrand.Rand // the current case's own generator, derived from (seed, case number): skipping cases does not shift later ones

	// resumption after a process-killing panic (see fzSupervise)
	from      int          // cases below this number were evaluated by an earlier process
	skip      map[int]bool // cases that killed an earlier process
	out       string       // where the report is flushed
	progress  string       // file holding the number of the last case covered by the flushed report
	lastFlush int
	risky     bool            // flush after every case
	hung      map[string]bool // client positions that already produced a 10 s hang
}

func (f *fzRun) distinct(pos string, b []byte) {
	m := f.seen[pos]
	if m == nil {
		m = map[[32]byte]struct{}{}
		f.seen[pos] = m
	}
	h := sha256.Sum256(b)
	if _, dup := m[h]; !dup {
		m[h] = struct{}{}
		f.c.Rep.Distinct++
	}
}

// begin notes the case about to run in a file: a panic on a library goroutine kills the process, and the file then names
// the case that did it.
//
// It returns whether the case is to be run and what to call when it is over. Cases that an earlier process evaluated are
// skipped, except baselines (their measurements are needed again), which run without being recorded.
func (f *fzRun) begin(id string, baseline bool) (bool, func()) {
	f.nCase++
	idx := f.nCase
	f.rng = mrand.New(mrand.NewSource(f.c.Seed*1_000_003 + int64(idx)))
	if idx < f.from || f.skip[idx] {
		if !baseline || f.skip[idx] {
			return false, nil
		}
		saved := f.c.Rep
		f.c.Rep = &core.Report{Hist: map[string]map[string]int{}}
		return true, func() { f.c.Rep = saved }
	}
	f.c.Rep.Evaluations++
	_ = os.WriteFile(f.caseFile, []byte(fmt.Sprintf("%d %s\n", idx, id)), 0o644)
	return true, func() {
		if f.out != "" && (f.risky || idx-f.lastFlush >= 25) {
			f.flush()
		}
	}
}

func (f *fzRun) flush() {
	if f.out == "" {
		return
	}
	if err := f.c.Finish(f.out); err == nil {
		f.lastFlush = f.nCase
		_ = os.WriteFile(f.progress, []byte(strconv.Itoa(f.nCase)), 0o644)
	}
}

func (f *fzRun) sample(m map[string]string) {
	if len(f.c.Rep.Samples) < 40 && f.c.Rng.Intn(1+f.nCase/40) == 0 {
		f.c.Rep.Samples = append(f.c.Rep.Samples, m)
	}
}

func cfgName(cf srvCfg) string {
	return fmt.Sprintf("%s/%s/%s", cf.spec.Name, cf.kex, cf.cipher)
}

func fzTunnelled(m int) bool { return m >= 65 && m <= 254 }

// ---------------------------------------------------------------------------------------------------------------------
// server side
// ---------------------------------------------------------------------------------------------------------------------

type fzPos struct {
	name   string
	msg    int
	prefix []int
}

var fzPositions = []fzPos{
	{"10", 10, nil}, {"12", 12, []int{10}},
	{"20", 20, nil}, {"22", 22, []int{20}},
	{"30", 30, nil}, {"32", 32, []int{30}},
	{"60", 60, nil}, {"62", 62, []int{60}}, {"64", 64, []int{60, 62}}, {"66", 66, []int{60, 62, 64}},
	{"68", 68, []int{60, 62, 64, 66}}, {"68.2", 68, []int{60, 62, 64, 66, 68}}, {"70", 70, []int{60, 62, 64, 66, 68, 68}},
	{"255", 255, []int{60, 62}},
}

type fzSrv struct {
	*fzRun
	cf   srvCfg
	e    *env.Env
	dev  *env.Device
	d    *raw.Driver
	base map[string]uint64 // honest allocation per position
	// the honest message of the position just measured (plaintext, and as sent), for the sweep
	honestPlain, honestWire []byte
}

func (s *fzSrv) enrol() error {
	ctx, cancel := context.WithTimeout(context.Background(), time.Minute)
	defer cancel()
	dev, err := s.e.NewDevice(ctx, protocol.X509KeyEnc)
	if err != nil {
		return err
	}
	s.dev = dev
	s.d = raw.NewDriver(s.e, dev, raw.Config{Kex: s.cf.kex, Cipher: s.cf.cipher, Reuse: s.cf.reuse})
	sess := -1
	for _, m := range []int{20, 22} { // TO1 needs a registered blob
		if r := fzStep(s.d, &sess, m); r.RespType != m+1 {
			return fmt.Errorf("honest %d answered %d %s", m, r.RespType, r.ErrStr)
		}
	}
	s.e.RT.Reset()
	return nil
}

func fzStep(d *raw.Driver, sess *int, msg int) raw.Result {
	st := raw.Step{Msg: msg, Sess: *sess, BodyFrom: -1}
	if *sess < 0 {
		st.Tok = raw.TokNone
	}
	r := d.Do(st)
	if r.NewSess >= 0 {
		*sess = r.NewSess
	}
	return r
}

// runUp performs the honest prefix of a position in a fresh session; a device whose voucher is gone is enrolled anew.
func (s *fzSrv) runUp(p fzPos) (sess int, err error) {
	for attempt := 0; ; attempt++ {
		sess = -1
		bad := ""
		for _, m := range p.prefix {
			if r := fzStep(s.d, &sess, m); r.RespType != m+1 {
				bad = fmt.Sprintf("run-up %d to position %s answered %d %s %s", m, p.name, r.RespType, r.ErrStr, r.Err)
				break
			}
		}
		if bad == "" {
			return sess, nil
		}
		if attempt == 1 {
			return -1, fmt.Errorf("%s", bad)
		}
		if err := s.enrol(); err != nil {
			return -1, err
		}
	}
}

type fzReq struct {
	kind     string
	plain    func(honest []byte) ([]byte, string)    // alters the plaintext body (before tunnel encryption); may rename the case
	wire     func(honest []byte) ([]byte, string)    // alters the bytes on the wire; may rename the case
	serve    func(req *http.Request) (accept string) // envelope cases: alters the request; returns the reply classes that are acceptable besides 255
	envelope bool
}

func fzConst(b []byte) func([]byte) ([]byte, string) {
	return func([]byte) ([]byte, string) { return b, "" }
}

// one runs one server case and applies the monitor. It returns the reply type.
func (s *fzSrv) one(p fzPos, q fzReq) int {
	c := s.c
	id := fmt.Sprintf("server %s pos %s %s", cfgName(s.cf), p.name, q.kind)
	run, done := s.begin(id, q.kind == "honest")
	if !run {
		return -1
	}
	defer done()
	sess, err := s.runUp(p)
	if err != nil {
		c.Fail("harness:run-up:"+p.name, err.Error(), "fuzz.server", core.Params{"cfg": cfgName(s.cf), "pos": p.name}, core.Obs{})
		return -1
	}
	var sentPlain, sentWire, honestPlain []byte
	var meas fzMeas
	var accept string
	var reqDesc string
	kind := q.kind
	s.e.RT.Reset()
	s.d.Mutate = func(_ int, plain []byte) []byte {
		honestPlain = plain
		if q.plain != nil {
			var k string
			if plain, k = q.plain(plain); k != "" {
				kind = k
			}
		}
		sentPlain = plain
		return plain
	}
	s.d.Send = func(msg int, body []byte, hdr http.Header) *http.Response {
		if q.wire != nil {
			var k string
			if body, k = q.wire(body); k != "" {
				kind = k
			}
		}
		sentWire = body
		var resp *http.Response
		meas = fzMeasure(5*time.Second, func() {
			// the handler is called directly (as env.HookRT.Do does) so that a panic is caught here, with its stack
			req := httptest.NewRequest(http.MethodPost, "/fdo/101/msg/"+strconv.Itoa(msg), bytes.NewReader(body))
			req.ContentLength = int64(len(body))
			for k, v := range hdr {
				req.Header[k] = v
			}
			if q.serve != nil {
				accept = q.serve(req)
				reqDesc = fmt.Sprintf("%s %q CL=%d", req.Method, clipS(req.URL.Path, 80), req.ContentLength)
			}
			rr := httptest.NewRecorder()
			s.e.RT.H.ServeHTTP(rr, req)
			resp = rr.Result()
		})
		if resp == nil {
			code := 598 // hang
			if meas.panic != "" {
				code = 599
			}
			resp = &http.Response{StatusCode: code, Header: http.Header{}, Body: io.NopCloser(bytes.NewReader(nil))}
		}
		return resp
	}
	st := raw.Step{Msg: p.msg, Sess: sess, BodyFrom: -1}
	if sess < 0 {
		st.Tok = raw.TokNone
	}
	r := s.d.Do(st)
	s.d.Mutate, s.d.Send = nil, nil
	if r.NewSess >= 0 {
		sess = r.NewSess
	}
	if r.Err != "" && meas.panic == "" && !meas.hang {
		c.Fail("harness:driver:"+p.name, r.Err, "fuzz.server", core.Params{"cfg": cfgName(s.cf), "pos": p.name, "mutator": kind}, core.Obs{})
		return -1
	}
	id += " " + kind
	sent := sentPlain
	if q.wire != nil || q.serve != nil || !fzTunnelled(p.msg) {
		sent = sentWire
	}
	if q.serve != nil {
		s.distinct("env:"+p.name, []byte(kind))
	} else {
		s.distinct("srv:"+p.name, sent)
	}
	params := core.Params{"side": "server", "cfg": cfgName(s.cf), "pos": p.name, "msg": fmt.Sprint(p.msg), "mutator": kind, "sent": fzHexClip(sent),
		"sent_len": fmt.Sprint(len(sentWire)), "seed": fmt.Sprint(c.Seed), "case": fmt.Sprint(s.nCase)}
	if reqDesc != "" {
		params["request"] = reqDesc
	}
	if fzTunnelled(p.msg) && q.wire == nil && q.serve == nil {
		params["layer"] = "plaintext (then encrypted under the session keys)"
	}
	obs := core.Obs{Impl: fmt.Sprintf("status %d type %d alloc %d wall %s %s", r.Status, r.RespType, meas.alloc, meas.wall.Round(time.Microsecond), r.ErrStr), AllocB: meas.alloc, WallUs: meas.wall.Microseconds()}
	where := p.name
	if q.envelope {
		where = "envelope"
		if t, ok := strings.CutPrefix(kind, "path:type-"); ok { // another message type was addressed
			where = t
		}
	}
	c.Count("srv_position", p.name+" "+s.cf.spec.Name)
	c.Count("srv_mutator", kind[:min(len(kind), 40)])
	c.Count("srv_alloc", fzBucket(meas.alloc))
	s.sample(map[string]string{"kind": "fuzz.server", "case": fmt.Sprintf("%s: %s", id, fzHexClip(sent[:min(len(sent), 120)])), "impl": obs.Impl, "gen": kind})

	switch {
	case meas.panic != "":
		c.Count("srv_reply", fmt.Sprintf("%s -> panic", p.name))
		c.Fail(fmt.Sprintf("panic@server:%s", where), id+": "+meas.panic, "fuzz.server", params, obs)
	case meas.hang:
		c.Count("srv_reply", fmt.Sprintf("%s -> hang", p.name))
		c.Fail(fmt.Sprintf("hang@server:%s", where), id+": no reply within 5 s", "fuzz.server", params, obs)
		s.replaceEnv()
		return -1
	}
	if lim := fzAllocLimit(len(sentWire), 0); meas.alloc > lim {
		c.Fail(fmt.Sprintf("alloc@server:%s", where), fmt.Sprintf("%s: %d bytes allocated for a %d-byte request (limit %d)", id, meas.alloc, len(sentWire), lim), "fuzz.server", params, obs)
	}
	if meas.panic != "" {
		return -1
	}
	// the reply
	var em protocol.ErrorMessage
	class := ""
	switch {
	case r.RespType == 255:
		// the handler's own refusals come with HTTP 500, the responders' with HTTP 200: the library's client takes both
		class = "255"
		c.Count("srv_error_http_status", strconv.Itoa(r.Status))
		if (r.Status != http.StatusInternalServerError && r.Status != http.StatusOK) || cbor.Unmarshal(r.Body, &em) != nil {
			class = "255-malformed"
		}
	case r.RespType == p.msg+1 && r.Status == http.StatusOK && p.msg != 255:
		class = "successor"
	case r.RespType == -1 && len(r.Body) == 0:
		class = fmt.Sprintf("http-%d-empty", r.Status)
	default:
		class = fmt.Sprintf("type-%d-http-%d", r.RespType, r.Status)
	}
	c.Count("srv_reply", fmt.Sprintf("%s -> %s", p.name, class))
	ok := class == "255" || (class == "successor" && !q.envelope) || (accept != "" && strings.Contains(" "+accept+" ", " "+class+" "))
	if p.msg == 255 && !q.envelope { // a client error message is consumed without a reply message
		ok = ok || class == "http-200-empty"
	}
	if !ok {
		rt := fmt.Sprint(r.RespType)
		if r.RespType < 0 {
			rt = fmt.Sprintf("http%d", r.Status)
		}
		c.Fail(fmt.Sprintf("bad-reply@server:%s:%s", where, rt), fmt.Sprintf("%s: reply class %s (acceptable: 255, %s) body %s", id, class, accept, fzHexClip(r.Body[:min(len(r.Body), 200)])), "fuzz.server", params, obs)
	}
	if q.kind == "honest" {
		s.base[p.name] = meas.alloc
		s.honestPlain, s.honestWire = append([]byte(nil), honestPlain...), append([]byte(nil), sentWire...)
		c.Count("srv_honest_alloc", fmt.Sprintf("%s pos %s: %d KiB for %d B on the wire", cfgName(s.cf), p.name, meas.alloc>>10, len(sentWire)))
		if meas.alloc*4 > fzAllocLimit(len(sentWire), 0) {
			c.Note("allocation limit has less than 4x margin over the honest message at %s %s: %d bytes", cfgName(s.cf), p.name, meas.alloc)
		}
		if class != "successor" && p.msg != 255 {
			c.Fail("harness:honest-refused:"+p.name, id+": "+obs.Impl, "fuzz.server", params, obs)
		}
	}
	// release server-side module state of sessions that will not be continued
	if p.msg >= 64 && p.msg < 255 && class == "successor" && sess >= 0 {
		s.d.Do(raw.Step{Msg: 255, Sess: sess, BodyFrom: -1})
	}
	if p.msg == 70 && class == "successor" && !s.cf.reuse { // the voucher was replaced: this device is gone
		if err := s.enrol(); err != nil {
			c.Note("re-enrol after 70: %v", err)
		}
	}
	return r.RespType
}

// replaceEnv abandons a deployment in which a request is still stuck.
func (s *fzSrv) replaceEnv() {
	srvMu.Lock()
	delete(srvEnvs, s.cf.spec.Name)
	srvMu.Unlock()
	e, err := srvEnv(s.cf.spec)
	if err != nil {
		s.c.Note("cannot replace deployment: %v", err)
		return
	}
	s.e = e
	s.e.Reuse = s.cf.reuse
	_ = s.enrol()
}

func (s *fzSrv) run(nMut, nShapes, nSweep int, envelope bool) {
	c := s.c
	r := c.Rng
	shapes := fzShapes()
	s.risky = false
	t0, n0, full := time.Now(), s.nCase, nMut
	for pi, p := range fzPositions {
		// when the configuration is slower than planned, the later positions get fewer mutants (never fewer than 30) rather than none
		if done := s.nCase - n0; done > 100 {
			avg := time.Since(t0) / time.Duration(done)
			can := int(time.Until(s.deadline)/time.Duration(len(fzPositions)-pi+2)/max(avg, time.Microsecond)) - 80
			if nMut = max(min(full, can), 30); nMut < full {
				c.Count("srv_reduced_mutants", fmt.Sprintf("%s pos %s: %d of %d", cfgName(s.cf), p.name, nMut, full))
			}
		}
		s.honestPlain, s.honestWire = nil, nil
		s.one(p, fzReq{kind: "honest"})
		signed := p.msg == 32 || p.msg == 64
		fzFullIDs = p.msg == 10 || p.msg == 20 || p.msg == 30 || p.msg == 60
		sweepOps := fzSweepOps(s.honestPlain, nSweep)
		fzFullIDs = false
		for _, op := range sweepOps {
			s.one(p, fzReq{kind: "sweep:" + op.op, plain: func(h []byte) ([]byte, string) {
				m := fzApplyOp(h, op)
				if signed {
					if rs, ok := fzResign(s.dev.Key, s.cf.spec.Type == protocol.RsaPssKeyType, m); ok {
						return rs, "sweep:" + op.op + "+resign"
					}
				}
				return m, ""
			}})
		}
		if fzTunnelled(p.msg) {
			for _, op := range fzSweepOps(s.honestWire, nSweep) {
				s.one(p, fzReq{kind: "wire-sweep:" + op.op, wire: func(h []byte) ([]byte, string) { return fzApplyOp(h, op), "" }})
			}
		}
		for i := 0; i < nMut; i++ {
			resign := signed && i%2 == 1
			s.one(p, fzReq{kind: "mut", plain: func(h []byte) ([]byte, string) {
				m, k := fzMutate(s.rng, h)
				if resign {
					if rs, ok := fzResign(s.dev.Key, s.cf.spec.Type == protocol.RsaPssKeyType, m); ok {
						m, k = rs, k+"+resign"
					}
				}
				return m, k
			}})
		}
		if fzTunnelled(p.msg) { // the encrypted envelope itself
			for i := 0; i < max(nMut/3, 4); i++ {
				s.one(p, fzReq{kind: "wire", wire: func(h []byte) ([]byte, string) {
					m, k := fzMutate(s.rng, h)
					return m, "wire:" + k
				}})
			}
		}
		for _, n := range fzSizes {
			b := make([]byte, n)
			r.Read(b)
			s.one(p, fzReq{kind: fmt.Sprintf("random:%d", n), plain: fzConst(b)})
			if fzTunnelled(p.msg) {
				s.one(p, fzReq{kind: fmt.Sprintf("wire-random:%d", n), wire: fzConst(b)})
			}
		}
		for i := 0; i < nShapes; i++ {
			sh := shapes[r.Intn(len(shapes))]
			if nShapes >= len(shapes) {
				sh = shapes[i%len(shapes)]
			}
			s.one(p, fzReq{kind: sh.name, plain: fzConst(sh.b)})
			if fzTunnelled(p.msg) && i%2 == 0 {
				s.one(p, fzReq{kind: "wire-" + sh.name, wire: fzConst(sh.b)})
			}
		}
	}
	if envelope {
		s.envelopes()
	}
}

// ---- HTTP envelope ----

type fzEnvCase struct {
	name   string
	mod    func(req *http.Request)
	accept string // acceptable reply classes besides "255"
}

func fzEnvelopeCases(msg int, r *mrand.Rand) []fzEnvCase {
	succ := "successor"
	var out []fzEnvCase
	path := func(name, p, accept string) {
		out = append(out, fzEnvCase{"path:" + name, func(req *http.Request) { req.URL.Path = p; req.URL.RawPath = "" }, accept})
	}
	base := "/fdo/101/msg/"
	m := strconv.Itoa(msg)
	path("-1", base+"-1", "")
	path("256", base+"256", "")
	path("999999999999", base+"999999999999", "")
	path("abc", base+"abc", "")
	path("empty", base, "")
	path("no-slash", "/fdo/101/msg", "http-404-empty")
	path("leading-zero", base+"0"+m, succ)
	path("plus", base+"+"+m, "")
	path("space", base+" "+m, "")
	path("decimal", base+m+".0", "")
	path("hex", base+"0x3c", "")
	path("fullwidth", base+"６０", "")
	path("long-digits", base+strings.Repeat("9", 5000), "")
	path("long-zeros", base+strings.Repeat("0", 5000)+m, succ)
	path("trailing-slash", base+m+"/", "http-404-empty")
	path("double-slash", "/fdo/101/msg//"+m, "http-404-empty")
	path("dotdot", base+"../msg/"+m, "http-404-empty")
	path("nul", base+m+"\x00", "")
	path("newline", base+m+"\n", "")
	path("version-100", "/fdo/100/msg/"+m, "http-404-empty")
	path("version-102", "/fdo/102/msg/"+m, "http-404-empty")
	path("version-none", "/fdo/msg/"+m, "http-404-empty")
	path("upper", "/FDO/101/MSG/"+m, "http-404-empty")
	path("root", "/", "http-404-empty")
	path("blank", "", "")
	path("bare-number", m, succ)
	path("64KiB", base+strings.Repeat("a", 65536), "")
	for _, t := range []int{0, 1, 9, 11, 13, 14, 19, 21, 23, 29, 31, 33, 34, 40, 59, 61, 63, 65, 67, 69, 71, 72, 100, 254} {
		path("type-"+strconv.Itoa(t), base+strconv.Itoa(t), "")
	}
	for _, meth := range []string{"GET", "PUT", "HEAD", "DELETE", "OPTIONS", "PATCH", "post", ""} {
		meth := meth
		out = append(out, fzEnvCase{"method:" + meth, func(req *http.Request) { req.Method = meth }, "http-405-empty"})
	}
	auth := func(name string, vals ...string) {
		out = append(out, fzEnvCase{"auth:" + name, func(req *http.Request) {
			tok := strings.TrimPrefix(req.Header.Get("Authorization"), "Bearer ")
			delete(req.Header, "Authorization")
			for _, v := range vals {
				req.Header.Add("Authorization", strings.ReplaceAll(v, "$T", tok))
			}
		}, map[bool]string{true: succ}[msg == 60 || name == "duplicated-same" || name == "then-garbage"]})
	}
	auth("missing")
	auth("duplicated-same", "Bearer $T", "Bearer $T")
	auth("garbage-then-real", "Bearer AAAA", "Bearer $T")
	auth("then-garbage", "Bearer $T", "Bearer AAAA")
	auth("bearer-nothing", "Bearer ")
	auth("bearer-no-space", "Bearer")
	auth("lowercase-scheme", "bearer $T")
	auth("basic", "Basic $T")
	auth("no-scheme", "$T")
	auth("64KiB", "Bearer "+strings.Repeat("A", 65536))
	auth("1MiB", "Bearer "+strings.Repeat("A", 1<<20))
	auth("non-ascii", "Bearer \xff\xfeé世界")
	auth("nul", "Bearer $T\x00")
	auth("space-inside", "Bearer $T $T")
	auth("double-space", "Bearer  $T")
	auth("trailing-space", "Bearer $T ")
	auth("sql", "Bearer ' OR 1=1 --")
	auth("percent", "Bearer %00%ff%")
	auth("base64-padding", "Bearer $T==")
	auth("newline", "Bearer $T\r\nX: y")
	rb := make([]byte, 48)
	r.Read(rb)
	auth("random-binary", "Bearer "+string(rb))
	ct := func(name string, vals ...string) {
		out = append(out, fzEnvCase{"content-type:" + name, func(req *http.Request) {
			delete(req.Header, "Content-Type")
			for _, v := range vals {
				req.Header.Add("Content-Type", v)
			}
		}, succ})
	}
	ct("missing")
	ct("text", "text/plain")
	ct("json", "application/json")
	ct("params", "application/cbor; charset=utf-8")
	ct("upper", "APPLICATION/CBOR")
	ct("two", "application/cbor", "text/html")
	ct("64KiB", strings.Repeat("x", 65536))
	ct("binary", "\xff\x00\x01")
	cl := func(name string, f func(n int64) int64, accept string) {
		out = append(out, fzEnvCase{"content-length:" + name, func(req *http.Request) {
			req.ContentLength = f(req.ContentLength)
			req.Header.Set("Content-Length", strconv.FormatInt(req.ContentLength, 10))
		}, accept})
	}
	cl("plus-1", func(n int64) int64 { return n + 1 }, succ) // the decoder stops at the end of the item
	cl("plus-1000", func(n int64) int64 { return n + 1000 }, succ)
	cl("minus-1", func(n int64) int64 { return max(n-1, 0) }, "")
	cl("half", func(n int64) int64 { return n / 2 }, "")
	cl("zero", func(int64) int64 { return 0 }, succ) // net/http would hand over an empty body; called directly the body is still there
	cl("unknown", func(int64) int64 { return -1 }, "")
	cl("65535", func(int64) int64 { return 65535 }, succ)
	cl("65536", func(int64) int64 { return 65536 }, "")
	cl("2^62", func(int64) int64 { return 1 << 62 }, "")
	cl("min-int64", func(int64) int64 { return -1 << 63 }, "")
	out = append(out, fzEnvCase{"body:nil-reader", func(req *http.Request) { req.Body = http.NoBody }, ""})
	out = append(out, fzEnvCase{"body:error-reader", func(req *http.Request) { req.Body = io.NopCloser(fzErrReader{}) }, ""})
	out = append(out, fzEnvCase{"header:message-type-request", func(req *http.Request) { req.Header.Set("Message-Type", "255") }, succ})
	out = append(out, fzEnvCase{"header:1000-headers", func(req *http.Request) {
		for i := 0; i < 1000; i++ {
			req.Header.Add("X-"+strconv.Itoa(i), strings.Repeat("v", 60))
		}
	}, succ})
	out = append(out, fzEnvCase{"query", func(req *http.Request) { req.URL.RawQuery = "msg=70&x=" + strings.Repeat("q", 5000) }, succ})
	return out
}

type fzErrReader struct{}

func (fzErrReader) Read([]byte) (int, error) { return 0, fmt.Errorf("connection reset by peer") }

func (s *fzSrv) envelopes() {
	for _, p := range fzPositions {
		if p.name != "60" && p.name != "62" && p.name != "66" && p.name != "32" {
			continue
		}
		for _, ec := range fzEnvelopeCases(p.msg, s.c.Rng) {
			ec := ec
			s.one(p, fzReq{kind: ec.name, envelope: true, serve: func(req *http.Request) string { ec.mod(req); return ec.accept }})
		}
	}
}

// ---------------------------------------------------------------------------------------------------------------------
// client side
// ---------------------------------------------------------------------------------------------------------------------

// fzResponder wraps the owner service's responder so that the plaintext of a tunnelled response can be replaced before
// the handler encrypts it.
type fzResponder struct {
	inner interface {
		protocol.Responder
		CryptSession(ctx context.Context) (kex.Session, error)
	}
	mu  sync.Mutex
	mut func(respType uint8, plain []byte) []byte
}

func (w *fzResponder) Respond(ctx context.Context, msgType uint8, msg io.Reader) (uint8, any) {
	t, v := w.inner.Respond(ctx, msgType, msg)
	w.mu.Lock()
	mut := w.mut
	w.mu.Unlock()
	if mut != nil && t != protocol.ErrorMsgType {
		if b, err := cbor.Marshal(v); err == nil {
			if nb := mut(t, b); nb != nil {
				return t, cbor.RawBytes(nb)
			}
		}
	}
	return t, v
}
func (w *fzResponder) HandleError(ctx context.Context, em protocol.ErrorMessage) {
	w.inner.HandleError(ctx, em)
}
func (w *fzResponder) CryptSession(ctx context.Context) (kex.Session, error) {
	return w.inner.CryptSession(ctx)
}

type fzCli struct {
	*fzRun
	cf   srvCfg
	e    *env.Env
	dev  *env.Device
	to1d *cose.Sign1[protocol.To1d, []byte]
	wrap *fzResponder
	base map[string]uint64
	seq  map[string][]int // honest request-type sequence per role
	// honest responses per role and exchange: as received, and (tunnelled ones) the plaintext before encryption
	hWire, hPlain map[string][][]byte
	addrs         []protocol.RvTO2Addr
	last          string // outcome of the last case run ("" when it was skipped)
}

func (s *fzCli) enrol() error {
	ctx, cancel := context.WithTimeout(context.Background(), time.Minute)
	defer cancel()
	s.e.RT.RespHook = nil
	dev, err := s.e.NewDevice(ctx, protocol.X509KeyEnc)
	if err != nil {
		return fmt.Errorf("DI: %w", err)
	}
	if _, err := s.e.TO0(ctx, dev.Cred.GUID, s.addrs); err != nil {
		return fmt.Errorf("TO0: %w", err)
	}
	to1d, err := s.e.TO1(ctx, dev)
	if err != nil {
		return fmt.Errorf("TO1: %w", err)
	}
	s.dev, s.to1d = dev, to1d
	s.e.RT.Reset()
	return nil
}

func (s *fzCli) role(ctx context.Context, role string) error {
	switch role {
	case "DI":
		_, err := s.e.NewDevice(ctx, protocol.X509KeyEnc)
		return err
	case "TO0":
		_, err := s.e.TO0(ctx, s.dev.Cred.GUID, s.addrs)
		return err
	case "TO1":
		_, err := s.e.TO1(ctx, s.dev)
		return err
	default:
		cfg := s.dev.TO2Config(s.cf.kex, s.cf.cipher)
		cfg.AllowCredentialReuse = true
		_, err := s.e.TO2(ctx, s.dev, s.to1d, cfg)
		return err
	}
}

type fzResp struct {
	kind    string
	garbage bool                                                                   // the replacement is not derived from the honest response and may be checked for well-formedness
	wire    func(resp *http.Response, body []byte, r *mrand.Rand) ([]byte, string) // alters the response as received (body, headers, status)
	plain   func(plain []byte, r *mrand.Rand) ([]byte, string)                     // alters the plaintext of a tunnelled response inside the server
}

// one runs a client role with the k-th response (0-based exchange index) replaced.
func (s *fzCli) one(role string, k int, q fzResp) {
	c := s.c
	respType := -1
	if k >= 0 && k < len(s.seq[role]) {
		respType = s.seq[role][k] + 1
	}
	pos := fmt.Sprintf("%s:%d", role, respType)
	if k < 0 {
		pos = role + ":honest"
	}
	if k >= 0 && role == "TO2" { // 63 and 69 occur more than once
		n := 0
		for _, t := range s.seq[role][:k] {
			if t+1 == respType {
				n++
			}
		}
		if n > 0 {
			pos += fmt.Sprintf(".%d", n+1)
		}
	}
	id := fmt.Sprintf("client %s %s exchange %d %s", cfgName(s.cf), pos, k, q.kind)
	run, done := s.begin(id, q.kind == "honest")
	s.last = ""
	if !run {
		return
	}
	defer done()
	var mu sync.Mutex
	n := 0
	var sent, honest []byte
	kind := q.kind
	hit := false
	var seq []int
	var hWire, hPlain [][]byte
	j0 := s.e.Journal.Len()
	s.e.RT.Reset()
	s.e.RT.RespHook = func(reqType int, resp *http.Response, body []byte) []byte {
		mu.Lock()
		defer mu.Unlock()
		i := n
		n++
		seq = append(seq, reqType)
		if q.kind == "honest" {
			for len(hWire) <= i {
				hWire = append(hWire, nil)
			}
			hWire[i] = append([]byte(nil), body...)
		}
		if i == k && q.wire != nil {
			honest = body
			nb, kd := q.wire(resp, body, s.rng)
			if kd != "" {
				kind = kd
			}
			sent, hit = nb, true
			return nb
		}
		return body
	}
	if q.kind == "honest" {
		s.wrap.mu.Lock()
		s.wrap.mut = func(_ uint8, plain []byte) []byte {
			mu.Lock()
			defer mu.Unlock()
			for len(hPlain) <= n {
				hPlain = append(hPlain, nil)
			}
			hPlain[n] = append([]byte(nil), plain...)
			return nil
		}
		s.wrap.mu.Unlock()
	}
	if q.plain != nil {
		s.wrap.mu.Lock()
		s.wrap.mut = func(_ uint8, plain []byte) []byte {
			mu.Lock()
			defer mu.Unlock()
			if n != k {
				return nil
			}
			honest = plain
			nb, kd := q.plain(plain, s.rng)
			if kd != "" {
				kind = kd
			}
			sent, hit = nb, true
			return nb
		}
		s.wrap.mu.Unlock()
	}
	ctx, cancel := context.WithTimeout(context.Background(), 40*time.Second)
	var err error
	limit := 10 * time.Second
	if s.hung[pos] { // this position already produced a 10 s hang in this run: do not spend 10 s on each repetition
		limit = 3 * time.Second
	}
	meas := fzMeasure(limit, func() { err = s.role(ctx, role) })
	released := ""
	if meas.hang { // does it at least honour cancellation?
		cancel()
		t0 := time.Now()
		m2 := fzMeasure(5*time.Second, func() {
			for time.Since(t0) < 4500*time.Millisecond {
				mu.Lock()
				cnt := n
				mu.Unlock()
				time.Sleep(300 * time.Millisecond)
				mu.Lock()
				same := cnt == n
				mu.Unlock()
				if same {
					return
				}
			}
		})
		released = fmt.Sprintf("after cancel: exchanges stopped=%v", !m2.hang)
	}
	cancel()
	s.e.RT.RespHook = nil
	s.wrap.mu.Lock()
	s.wrap.mut = nil
	s.wrap.mu.Unlock()
	mu.Lock()
	exchanges := n
	mu.Unlock()

	if q.kind == "honest" {
		s.seq[role] = seq
		s.hWire[role], s.hPlain[role] = hWire, hPlain
		s.base[role] = meas.alloc
		c.Count("cli_honest_alloc", fmt.Sprintf("%s %s: %d KiB, exchanges %v", cfgName(s.cf), role, meas.alloc>>10, seq))
		if err != nil || meas.panic != "" || meas.hang {
			c.Fail("harness:honest-client-failed:"+role, fmt.Sprintf("%s: %v %s", id, err, meas.panic), "fuzz.client", core.Params{"cfg": cfgName(s.cf), "role": role}, core.Obs{})
		}
	}
	outcome := "error"
	switch {
	case meas.panic != "":
		outcome = "panic"
	case meas.hang:
		outcome = "hang"
	case err == nil:
		outcome = "success"
	}
	if !hit && q.kind != "honest" {
		outcome += "(position-not-reached)"
	}
	s.last = outcome
	s.distinct("cli:"+pos, append([]byte(kind+"|"), sent...))
	c.Count("cli_position", pos+" "+s.cf.spec.Name)
	c.Count("cli_outcome", pos+" -> "+outcome)
	c.Count("cli_mutator", kind[:min(len(kind), 40)])
	c.Count("cli_alloc", fzBucket(meas.alloc))
	errs := ""
	if err != nil {
		errs = err.Error()
	}
	params := core.Params{"side": "client", "cfg": cfgName(s.cf), "role": role, "pos": pos, "exchange": fmt.Sprint(k), "mutator": kind, "sent": fzHexClip(sent), "sent_len": fmt.Sprint(len(sent)),
		"honest_len": fmt.Sprint(len(honest)), "seed": fmt.Sprint(c.Seed), "case": fmt.Sprint(s.nCase)}
	if q.plain != nil {
		params["layer"] = "plaintext (replaced inside the server, then encrypted under the session keys)"
	}
	obs := core.Obs{Impl: fmt.Sprintf("%s after %d exchanges, alloc %d wall %s: %s", outcome, exchanges, meas.alloc, meas.wall.Round(time.Microsecond), clipS(errs, 300)), AllocB: meas.alloc, WallUs: meas.wall.Microseconds()}
	s.sample(map[string]string{"kind": "fuzz.client", "case": fmt.Sprintf("%s: %s", id, fzHexClip(sent[:min(len(sent), 120)])), "impl": obs.Impl, "gen": kind})
	sigPos := fmt.Sprintf("%s:%d", role, respType)
	switch {
	case meas.panic != "":
		c.Fail("panic@client:"+sigPos, id+": "+meas.panic, "fuzz.client", params, obs)
	case meas.hang:
		c.Fail("hang@client:"+sigPos, fmt.Sprintf("%s: the client function did not return within %s (%d exchanges so far; %s)", id, limit, exchanges, released), "fuzz.client", params, obs)
		s.hung[pos] = true
	}
	if lim := fzAllocLimit(len(sent), 4*s.base[role]); q.kind != "honest" && meas.alloc > lim && !meas.hang {
		c.Fail("alloc@client:"+sigPos, fmt.Sprintf("%s: %d bytes allocated (limit %d; honest run %d)", id, meas.alloc, lim, s.base[role]), "fuzz.client", params, obs)
	}
	// the clients decode a stream: what counts is whether the bytes BEGIN with a well-formed item (trailing bytes are not read)
	var firstItem cbor.RawBytes
	startsWithItem := cbor.NewDecoder(bytes.NewReader(sent)).Decode(&firstItem) == nil
	if outcome == "success" && hit && q.garbage && len(sent) > 0 && !fzWellFormed(sent) && !startsWithItem {
		c.Fail("accepted-garbage@client:"+sigPos, id+": the client reported success although the response was replaced by bytes that are not CBOR", "fuzz.client", params, obs)
	}
	if meas.hang {
		s.replaceEnv()
		return
	}
	// what the case did to the deployment
	replaced := false
	for _, ef := range s.e.Journal.Since(j0) {
		if ef.Kind == "voucher-replace" {
			replaced = true
		}
	}
	if replaced || (role == "TO2" && err == nil) {
		if e2 := s.enrol(); e2 != nil {
			c.Note("client-side re-enrol: %v", e2)
		}
	}
}

func clipS(s string, n int) string {
	if len(s) > n {
		return s[:n] + "..."
	}
	return s
}

func (s *fzCli) replaceEnv() {
	srvMu.Lock()
	delete(srvEnvs, s.cf.spec.Name)
	srvMu.Unlock()
	e, err := srvEnv(s.cf.spec)
	if err != nil {
		s.c.Note("cannot replace deployment: %v", err)
		return
	}
	s.install(e)
	if err := s.enrol(); err != nil {
		s.c.Note("client-side enrol in the replacement deployment: %v", err)
	}
}

func (s *fzCli) install(e *env.Env) {
	s.e = e
	s.e.Reuse = s.cf.reuse
	s.wrap = &fzResponder{inner: e.TO2S}
	e.Handler.TO2Responder = s.wrap
}

func (s *fzCli) uninstall() {
	s.e.Handler.TO2Responder = s.e.TO2S
	s.e.RT.RespHook = nil
}

// header / status / size variants of a response (not derived by the CBOR mutator)
func fzRespVariants() []fzResp {
	hdr := func(name string, f func(resp *http.Response, body []byte) []byte) fzResp {
		return fzResp{kind: name, wire: func(resp *http.Response, body []byte, _ *mrand.Rand) ([]byte, string) { return f(resp, body), "" }}
	}
	garb := func(name string, b []byte) fzResp {
		return fzResp{kind: name, garbage: true, wire: func(_ *http.Response, _ []byte, _ *mrand.Rand) ([]byte, string) { return b, "" }}
	}
	mt := func(v string) fzResp {
		return hdr("message-type:"+v, func(resp *http.Response, body []byte) []byte { resp.Header.Set("Message-Type", v); return body })
	}
	out := []fzResp{
		hdr("message-type:missing", func(resp *http.Response, body []byte) []byte { resp.Header.Del("Message-Type"); return body }),
		mt("255"), mt("0"), mt("256"), mt("-1"), mt("abc"), mt(""), mt(" 61 "), mt("99999999999999999999"), mt("1e2"),
		hdr("message-type:plus-2", func(resp *http.Response, body []byte) []byte {
			t, _ := strconv.Atoi(resp.Header.Get("Message-Type"))
			resp.Header.Set("Message-Type", strconv.Itoa(t+2))
			return body
		}),
		hdr("message-type:minus-1", func(resp *http.Response, body []byte) []byte {
			t, _ := strconv.Atoi(resp.Header.Get("Message-Type"))
			resp.Header.Set("Message-Type", strconv.Itoa(t-1))
			return body
		}),
		hdr("all-headers-missing", func(resp *http.Response, body []byte) []byte { resp.Header = http.Header{}; return body }),
		hdr("authorization:missing", func(resp *http.Response, body []byte) []byte { resp.Header.Del("Authorization"); return body }),
		hdr("authorization:64KiB", func(resp *http.Response, body []byte) []byte {
			resp.Header.Set("Authorization", "Bearer "+strings.Repeat("A", 65536))
			return body
		}),
		hdr("authorization:binary", func(resp *http.Response, body []byte) []byte {
			resp.Header.Set("Authorization", "\xff\x00\r\n")
			return body
		}),
		hdr("content-type:text", func(resp *http.Response, body []byte) []byte {
			resp.Header.Set("Content-Type", "text/html")
			return body
		}),
		hdr("status:500-honest-body", func(resp *http.Response, body []byte) []byte {
			resp.StatusCode, resp.Status = 500, "500 x"
			return body
		}),
		hdr("status:500-garbage", func(resp *http.Response, _ []byte) []byte {
			resp.StatusCode, resp.Status = 500, "500 x"
			resp.Header.Set("Content-Type", "application/cbor")
			return []byte{0x9f, 0xff, 0xff, 0x1c}
		}),
		hdr("status:500-huge-error", func(resp *http.Response, _ []byte) []byte {
			resp.StatusCode, resp.Status = 500, "500 x"
			resp.Header.Set("Content-Type", "application/cbor")
			return append(append([]byte{0x85, 0x19, 0x01, 0xf4, 0x18, 0x3c, 0x79, 0xfd, 0xe8}, fzRep([]byte{'E'}, 65000)...), 0x00, 0xf6)
		}),
		hdr("status:500-no-content-type", func(resp *http.Response, body []byte) []byte {
			resp.StatusCode, resp.Status = 500, "500 x"
			resp.Header.Del("Content-Type")
			return body
		}),
		hdr("status:404", func(resp *http.Response, body []byte) []byte {
			resp.StatusCode, resp.Status = 404, "404 x"
			return body
		}),
		hdr("status:204", func(resp *http.Response, body []byte) []byte { resp.StatusCode, resp.Status = 204, "204 x"; return nil }),
		// without Location: net/http hands a redirect without target to the caller (with one it would re-issue the request
		// as GET, which is the HTTP client's business, not the library's)
		hdr("status:302", func(resp *http.Response, body []byte) []byte {
			resp.StatusCode, resp.Status = 302, "302 x"
			return body
		}),
		hdr("status:0", func(resp *http.Response, body []byte) []byte { resp.StatusCode, resp.Status = 0, ""; return body }),
		garb("empty", []byte{}),
		garb("huge:1MiB-x81", fzRep([]byte{0x81}, 1<<20)),
		garb("huge:1MiB-x9f", fzRep([]byte{0x9f}, 1<<20)),
		garb("huge:1MiB-bstr4G", append([]byte{0x5a, 0xff, 0xff, 0xff, 0xff}, fzRep([]byte{0x00}, 1<<20)...)),
	}
	for _, sh := range fzShapes() {
		out = append(out, garb(sh.name, sh.b))
	}
	return out
}

func (s *fzCli) run(nMut, nVar, nSweep int) {
	c := s.c
	variants := fzRespVariants()
	t0, n0, full, posDone := time.Now(), s.nCase, nMut, 0
	for _, role := range []string{"DI", "TO0", "TO1", "TO2"} {
		s.risky = role == "TO2" // the only client role that starts goroutines of its own
		s.one(role, -1, fzResp{kind: "honest"})
		for k := range s.seq[role] {
			if done := s.nCase - n0; done > 100 { // as on the server side: fewer mutants rather than skipped positions
				avg := time.Since(t0) / time.Duration(done)
				can := int(time.Until(s.deadline)/time.Duration(max(15-posDone, 1))/max(avg, time.Microsecond)) - nVar - 12
				if nMut = max(min(full, can), 12); nMut < full {
					c.Count("cli_reduced_mutants", fmt.Sprintf("%s %s exchange %d: %d of %d", cfgName(s.cf), role, k, nMut, full))
				}
			}
			posDone++
			tun := fzTunnelled(s.seq[role][k] + 1)
			if k < len(s.hWire[role]) {
				for _, op := range fzSweepOps(s.hWire[role][k], nSweep) {
					s.one(role, k, fzResp{kind: map[bool]string{false: "sweep:", true: "wire-sweep:"}[tun] + op.op, wire: func(_ *http.Response, b []byte, _ *mrand.Rand) ([]byte, string) {
						return fzApplyOp(b, op), ""
					}})
				}
			}
			if tun && k < len(s.hPlain[role]) {
				for _, op := range fzSweepOps(s.hPlain[role][k], nSweep) {
					s.one(role, k, fzResp{kind: "sweep:" + op.op, plain: func(b []byte, _ *mrand.Rand) ([]byte, string) { return fzApplyOp(b, op), "" }})
				}
			}
			for i := 0; i < nMut; i++ {
				if tun && i%2 == 0 {
					s.one(role, k, fzResp{kind: "mut", plain: func(p []byte, r *mrand.Rand) ([]byte, string) { return fzMutate(r, p) }})
					continue
				}
				s.one(role, k, fzResp{kind: "mut", wire: func(_ *http.Response, b []byte, r *mrand.Rand) ([]byte, string) {
					m, kd := fzMutate(r, b)
					if tun {
						kd = "wire:" + kd
					}
					return m, kd
				}})
			}
			for _, n := range fzSizes {
				b := make([]byte, n)
				c.Rng.Read(b)
				s.one(role, k, fzResp{kind: fmt.Sprintf("random:%d", n), garbage: true, wire: func(*http.Response, []byte, *mrand.Rand) ([]byte, string) { return b, "" }})
				if tun && n <= 4096 {
					s.one(role, k, fzResp{kind: fmt.Sprintf("plain-random:%d", n), garbage: true, plain: func([]byte, *mrand.Rand) ([]byte, string) { return b, "" }})
				}
			}
			for i := 0; i < nVar; i++ {
				v := variants[c.Rng.Intn(len(variants))]
				if nVar >= len(variants) {
					v = variants[i%len(variants)]
				}
				s.one(role, k, v)
				if tun && strings.HasPrefix(v.kind, "shape:") {
					w := v.wire
					s.one(role, k, fzResp{kind: "plain-" + v.kind, garbage: true, plain: func(p []byte, r *mrand.Rand) ([]byte, string) { return w(nil, p, r) }})
				}
			}
		}
	}
}

// ---------------------------------------------------------------------------------------------------------------------
// the runner
// ---------------------------------------------------------------------------------------------------------------------

func fzConfigs(c *core.Ctx) []srvCfg {
	all := []srvCfg{
		{env.P256, kex.ECDH256Suite, kex.A128GcmCipher, false},
		{env.RSA2048, kex.DHKEXid14Suite, kex.CoseAes128CtrCipher, false},
		{env.P384, kex.ECDH384Suite, kex.CoseAes256CbcCipher, true},
		{env.RSA2048, kex.ASYMKEX2048Suite, kex.CoseAes128CbcCipher, false},
		{env.P256, kex.ECDH256Suite, kex.A192GcmCipher, true}, // the CCM suites of the specification are not registered in this library (kex.Available is false)
		{env.RSAPSS2, kex.DHKEXid14Suite, kex.A256GcmCipher, false},
		{env.RSAPKCS, kex.ASYMKEX3072Suite, kex.CoseAes256CtrCipher, false},
	}
	if c.Quick() {
		return all[:2]
	}
	return all
}

// RunC10: whatever bytes arrive from a protocol peer, the receiver neither panics nor hangs nor allocates out of
// proportion; the server answers with an error message and the client role returns an error.
func RunC10(c *core.Ctx) {
	c.Rep.Rule = fzRule
	if os.Getenv("C10_CHILD") == "" {
		fzSupervise(c)
		RunOddKeys(c) // well-formed keys of unsupported sizes/curves at DI (both roles); handlers that serve a subset of the protocols
		return
	}
	fzChild(c)
}

const fzRule = "keys and deployments: fdo.DI against a manufacturer key of an odd size/curve (RSA-1024/4096, P-224, P-521, Ed25519) for each device key type; DI.AppStart with a CSR " +
	"for such a key; http.Handler serving only TO2 / only TO0+TO1 / only DI / nothing against every client message type and error messages naming every protocol. " +
	"server side: for each protocol position (10,12 | 20,22 | 30,32 | 60,62,64,66,68 first and second,70, and a client error message 255) and key type / " +
	"key exchange / cipher configuration, a hand-built client (internal/raw) runs the honest messages up to the position in a fresh session against the real " +
	"http.Handler + responders + SQLite, then sends ONE altered message: (s) a systematic sweep over the nodes of the honest message, shallow nodes first (each node replaced by null; integers by 0 and 2^64-1; strings, arrays " +
	"and maps emptied; a null element appended to arrays and maps; for 32/64 re-signed; for tunnelled messages on the plaintext and on the encrypted envelope); (a) random structure-aware mutants of the honest body (an independent CBOR tree: integer " +
	"boundaries and neighbours, major-type swaps, null/undefined/absent, element drop/duplicate/swap, count and length heads inflated up to 2^64-1, non-shortest " +
	"heads, indefinite heads with and without break, nesting up to 65000 deep, floats/simple/reserved heads, tags and bignums, string edits, 60000-byte strings, " +
	"invalid UTF-8, byte-string wrappers with stale outer length, truncation at item boundaries and elsewhere, trailing data up to the 64 KiB limit and beyond, " +
	"byte-level changes); for the signed messages 32 and 64 every second mutant is re-signed with the device key so that it passes the signature check; for the " +
	"tunnelled messages 66/68/70 the mutant is the PLAINTEXT, encrypted under the session keys so that it reaches the responder, and in addition the encrypted " +
	"COSE envelope is mutated; (b) random byte strings of 0,1,2,100,4096,65535,65536,70000 bytes (plaintext and, for tunnelled messages, raw on the wire); " +
	"(c) adversarial whole bodies (64 KiB of 0x81 / 0x9f / 0xbf / tag heads, strings and arrays claiming 2^32..2^64-1 elements, ...); (d) at positions 32, 60, 62 and 66 " +
	"the HTTP envelope: path (type -1, 256, 10^12, abc, empty, zero-padded, other versions, server-to-client and unassigned types, 64 KiB), methods, Authorization " +
	"(missing, doubled, 64 KiB, 1 MiB, non-ASCII, no token, wrong scheme, SQL text, control characters), Content-Type, Content-Length disagreeing with the body, " +
	"failing body reader. Per request: panic (recovered), reply within 5 s, TotalAlloc delta <= 64 x request bytes + 8 MiB, reply = error message 255 that decodes " +
	"(HTTP 500) or the regular successor (mutation without meaning); for non-POST methods and foreign paths HTTP 405/404. client side: fdo.DI, TO0Client.RegisterBlob, " +
	"fdo.TO1 and fdo.TO2 run against the real server while ONE response (each exchange index of the honest run: 11,13 | 21,23 | 31,33 | 61,63,65,67,69,69,71) is replaced: " +
	"the same sweep and mutants of the honest response as above (tunnelled responses: mutants of the plaintext, substituted inside the server before encryption, alternating with mutants " +
	"of the encrypted envelope), random strings, adversarial bodies (also 1 MiB), Message-Type / Authorization / Content-Type / status variants. Per run: no panic, " +
	"return within 10 s, allocation <= 4 x honest run + 64 x response bytes + 8 MiB, and success is a failure only when the replacement was not CBOR at all. " +
	"evaluations = requests / client runs with one altered message (honest baselines included); distinct = distinct altered byte strings per position. " +
	"All mutation choices derive from the run's seed (key material and nonces are fresh per run)." + fzMoreRule

func fzBudget(c *core.Ctx) time.Duration {
	if c.Quick() {
		return 85 * time.Second
	}
	return 28 * time.Minute
}

func fzCaseFile() string { return filepath.Join(WorkDir(), "c10-current-case.txt") }

// fzChild evaluates the cases (all of them, or from a given case number on when an earlier process died).
func fzChild(c *core.Ctx) {
	defer closeSrvEnvs()
	slog.SetDefault(slog.New(slog.NewTextHandler(io.Discard, nil))) // the library logs every refused message
	f := &fzRun{c: c, seen: map[string]map[[32]byte]struct{}{}, caseFile: fzCaseFile(), skip: map[int]bool{}, hung: map[string]bool{}, out: os.Getenv("C10_OUT")}
	f.progress = f.out + ".progress"
	f.from, _ = strconv.Atoi(os.Getenv("C10_FROM"))
	for _, x := range strings.Split(os.Getenv("C10_SKIP"), ",") {
		if n, err := strconv.Atoi(x); err == nil {
			f.skip[n] = true
		}
	}
	f.lastFlush = f.from - 1
	nSrv, nShapes, nCli, nVar, nSweep := 40, 8, 12, 10, 12
	budget := fzBudget(c)
	if !c.Quick() {
		nSrv, nShapes, nCli, nVar, nSweep = 400, 26, 130, 60, 80
	}
	if b, err := strconv.Atoi(os.Getenv("C10_BUDGET_S")); err == nil && b > 0 {
		budget = time.Duration(b) * time.Second
	}
	start := time.Now()
	var extra time.Duration // spent on the further families (fuzz_more.go): not taken from the sweeps' budget
	cfgs := fzConfigs(c)
	addrs := []protocol.RvTO2Addr{{DNSAddress: strp("owner.test"), Port: 8043, TransportProtocol: protocol.HTTPSTransport}}
	for ci, cf := range cfgs {
		e, err := srvEnv(cf.spec)
		if err != nil {
			c.Note("env %s: %v", cf.spec.Name, err)
			continue
		}
		// each configuration gets an equal share of what is left; the server side gets the first half of the share
		share := (budget + extra - time.Since(start)) / time.Duration(len(cfgs)-ci)
		f.deadline = time.Now().Add(share * 55 / 100)
		e.Reuse = cf.reuse
		t0 := time.Now()
		srv := &fzSrv{fzRun: f, cf: cf, e: e, base: map[string]uint64{}}
		if err := srv.enrol(); err != nil {
			c.Fail("harness:enrol", err.Error(), "fuzz.server", core.Params{"cfg": cfgName(cf)}, core.Obs{})
			continue
		}
		n0 := f.nCase
		if !fzMoreOnly() {
			srv.run(nSrv, nShapes, nSweep, ci == 0 || !c.Quick())
		}
		if f.nCase >= f.from {
			c.Note("server side %s: %d cases in %.1fs", cfgName(cf), f.nCase-max(n0, f.from-1), time.Since(t0).Seconds())
		}

		e, err = srvEnv(cf.spec) // a hang replaces the deployment
		if err != nil {
			continue
		}
		f.deadline = time.Now().Add(share - time.Since(t0))
		t0, n0 = time.Now(), f.nCase
		cli := &fzCli{fzRun: f, cf: cf, base: map[string]uint64{}, hWire: map[string][][]byte{}, hPlain: map[string][][]byte{}, seq: map[string][]int{}, addrs: addrs}
		cli.install(e)
		if err := cli.enrol(); err != nil {
			c.Fail("harness:enrol", err.Error(), "fuzz.client", core.Params{"cfg": cfgName(cf)}, core.Obs{})
			cli.uninstall()
			continue
		}
		if !fzMoreOnly() {
			cli.run(nCli, nVar, nSweep)
		}
		if f.nCase >= f.from {
			c.Note("client side %s: %d cases in %.1fs", cfgName(cf), f.nCase-max(n0, f.from-1), time.Since(t0).Seconds())
		}
		tm := time.Now()
		fzMore(f, srv, cli, ci == 0) // uninstalls the client-side wrapper
		extra += time.Since(tm)
		cli.e.Reuse = false
	}
	_ = os.Remove(f.caseFile)
}

// fzSupervise runs the cases in a child process: a panic on a goroutine the library started itself cannot be recovered by
// the caller and kills the process. When that happens the case noted in the case file is recorded as a failure and a new
// child continues after the last case covered by the flushed report, leaving the killer out.
func fzSupervise(c *core.Ctx) {
	exe, err := os.Executable()
	if err != nil {
		c.Fail("harness:supervisor", err.Error(), "fuzz", nil, core.Obs{})
		return
	}
	tmp := filepath.Join(WorkDir(), fmt.Sprintf("c10-child-%d.json", os.Getpid()))
	defer func() { _ = os.Remove(tmp); _ = os.Remove(tmp + ".progress") }()
	end := time.Now().Add(fzBudget(c))
	from := 1
	var skip []string
	for attempt := 0; attempt < 200; attempt++ {
		_ = os.Remove(tmp)
		_ = os.Remove(tmp + ".progress")
		_ = os.Remove(fzCaseFile())
		cmd := exec.Command(exe, "-prop", c.Prop, "-tier", c.Tier, "-seed", fmt.Sprint(c.Seed), "-out", tmp)
		left := int(time.Until(end).Seconds())
		cmd.Env = append(os.Environ(), "C10_CHILD=1", "C10_OUT="+tmp, "C10_FROM="+strconv.Itoa(from), "C10_SKIP="+strings.Join(skip, ","),
			"C10_BUDGET_S="+strconv.Itoa(max(left, 20)))
		var stderr fzCapBuffer
		cmd.Stderr = &stderr
		if err := cmd.Start(); err != nil {
			c.Fail("harness:supervisor", err.Error(), "fuzz", nil, core.Obs{})
			return
		}
		exited := make(chan error, 1)
		go func() { exited <- cmd.Wait() }()
		var werr error
		stuck := false
		lastChange, lastSeen := time.Now(), ""
	wait:
		for {
			select {
			case werr = <-exited:
				break wait
			case <-time.After(2 * time.Second):
				cur, _ := os.ReadFile(fzCaseFile())
				if string(cur) != lastSeen {
					lastSeen, lastChange = string(cur), time.Now()
				} else if time.Since(lastChange) > 150*time.Second {
					stuck = true
					_ = cmd.Process.Kill()
					werr = <-exited
					break wait
				}
			}
		}
		last := from - 1
		if b, err := os.ReadFile(tmp + ".progress"); err == nil {
			if n, err := strconv.Atoi(strings.TrimSpace(string(b))); err == nil {
				last = n
			}
		}
		if raw, err := os.ReadFile(tmp); err == nil {
			var rep core.Report
			if json.Unmarshal(raw, &rep) == nil {
				fzMerge(c, &rep)
			}
		}
		if werr == nil && !stuck {
			if attempt > 0 {
				c.Note("the cases were evaluated by %d processes: %d died", attempt+1, attempt)
			}
			return
		}
		idx, id := 0, ""
		if b, err := os.ReadFile(fzCaseFile()); err == nil {
			f := strings.SplitN(strings.TrimSpace(string(b)), " ", 2)
			idx, _ = strconv.Atoi(f[0])
			if len(f) > 1 {
				id = f[1]
			}
		}
		if idx < from {
			c.Fail("harness:child-died-early", fmt.Sprintf("%v: %s", werr, stderr.excerpt()), "fuzz", nil, core.Obs{})
			return
		}
		what, sig := "panic", ""
		if stuck {
			what = "hang"
		}
		w := strings.Fields(id)
		switch {
		case len(w) >= 3 && w[0] == "client":
			sig = what + "@client:" + strings.SplitN(w[2], ".", 2)[0]
		case len(w) >= 4 && w[0] == "server":
			sig = what + "@server:" + w[3]
		default:
			sig = what + "@unknown"
		}
		detail := fmt.Sprintf("%s: the process was killed by a panic outside the calling goroutine (not recoverable by the caller): %s", id, stderr.excerpt())
		if stuck {
			detail = fmt.Sprintf("%s: the whole process made no progress for 150 s and was killed", id)
		}
		c.Fail(sig, detail, "fuzz.process", core.Params{"case": strconv.Itoa(idx), "id": id, "seed": fmt.Sprint(c.Seed), "process-killing": "1"}, core.Obs{Impl: what})
		c.Rep.Evaluations++
		c.Count("process_death", sig)
		skip = append(skip, strconv.Itoa(idx))
		from = last + 1
		if time.Now().After(end.Add(2 * time.Minute)) {
			c.Note("supervisor: time is up after %d processes; cases from %d on were not evaluated", attempt+1, from)
			return
		}
	}
	c.Note("supervisor: gave up after 200 processes")
}

// fzCapBuffer keeps the first 256 KiB written to it.
type fzCapBuffer struct{ b []byte }

func (w *fzCapBuffer) Write(p []byte) (int, error) {
	if room := 256<<10 - len(w.b); room > 0 {
		w.b = append(w.b, p[:min(len(p), room)]...)
	}
	return len(p), nil
}

// excerpt: the panic message and the library frames of the goroutine that panicked.
func (w *fzCapBuffer) excerpt() string {
	s := string(w.b)
	i := strings.Index(s, "panic: ")
	if j := strings.Index(s, "fatal error: "); i < 0 || (j >= 0 && j < i) {
		i = j
	}
	if i < 0 {
		return clipS(s, 600)
	}
	s = s[i:]
	msg := s
	if k := strings.IndexByte(s, '\n'); k >= 0 {
		msg = s[:k]
	}
	if k := strings.Index(s, "\n\ngoroutine "); k >= 0 { // the first goroutine listed is the one that panicked
		g := s[k+2:]
		if e := strings.Index(g, "\n\n"); e >= 0 {
			g = g[:e]
		}
		var created string
		if ci := strings.Index(g, "created by "); ci >= 0 {
			created = strings.SplitN(g[ci:], "\n", 2)[0]
		}
		return clipS(msg, 300) + " | " + fzFrames(g) + " | " + created
	}
	return clipS(msg, 600)
}

func fzMerge(c *core.Ctx, r *core.Report) {
	c.Rep.Evaluations += r.Evaluations
	c.Rep.Distinct += r.Distinct
	for h, m := range r.Hist {
		for k, v := range m {
			if c.Rep.Hist[h] == nil {
				c.Rep.Hist[h] = map[string]int{}
			}
			c.Rep.Hist[h][k] += v
		}
	}
	c.Rep.Failures = append(c.Rep.Failures, r.Failures...)
	c.Rep.Notes = append(c.Rep.Notes, r.Notes...)
	for _, sm := range r.Samples {
		if len(c.Rep.Samples) < 40 {
			c.Rep.Samples = append(c.Rep.Samples, sm)
		}
	}
}
