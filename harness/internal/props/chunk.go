package props

import (
	"context"
	"encoding/hex"
	"errors"
	"fmt"
	"io"
	"strconv"
	"strings"
	"time"

	fdo "github.com/fido-device-onboard/go-fdo"
	"github.com/fido-device-onboard/go-fdo/serviceinfo"

	"verifharness/internal/core"
)

// a logical message as a module writes it; Yield = ForceNewMessage
type svcMsg struct {
	Mod, Name string
	Val       []byte
	Yield     bool
}

func encodeMsgs(ms []svcMsg) string {
	parts := make([]string, len(ms))
	for i, m := range ms {
		if m.Yield {
			parts[i] = "Y"
		} else {
			parts[i] = hex.EncodeToString([]byte(m.Mod)) + ":" + hex.EncodeToString([]byte(m.Name)) + "=" + hex.EncodeToString(m.Val)
		}
	}
	return strings.Join(parts, ",")
}

func decodeMsgs(s string) []svcMsg {
	if s == "" {
		return nil
	}
	var out []svcMsg
	for _, p := range strings.Split(s, ",") {
		if p == "Y" {
			out = append(out, svcMsg{Yield: true})
			continue
		}
		kv := strings.SplitN(p, "=", 2)
		mn := strings.SplitN(kv[0], ":", 2)
		mod, _ := hex.DecodeString(mn[0])
		name, _ := hex.DecodeString(mn[1])
		val, _ := hex.DecodeString(kv[1])
		out = append(out, svcMsg{Mod: string(mod), Name: string(name), Val: val})
	}
	return out
}

// the content of the pipe for one message: CBOR text key followed by the value bytes (built here, not by go-fdo)
func itemBytes(m svcMsg) []byte {
	if m.Yield {
		return nil
	}
	key := m.Mod + ":" + m.Name
	return append(append(head(3, uint64(len(key))), key...), m.Val...)
}

func itemsArg(ms []svcMsg) string {
	var sb strings.Builder
	sb.WriteString("(")
	for i, m := range ms {
		if i > 0 {
			sb.WriteString(" ")
		}
		sb.WriteString("b:" + hex.EncodeToString(itemBytes(m)))
	}
	sb.WriteString(")")
	return sb.String()
}

// startProducer writes the messages into a ChunkOutPipe the way a module does.
func startProducer(ms []svcMsg, buffers, split int) (*serviceinfo.ChunkReader, chan error) {
	r, w := serviceinfo.NewChunkOutPipe(buffers)
	done := make(chan error, 1)
	go func() {
		var err error
		defer func() { _ = w.Close(); done <- err }()
		for _, m := range ms {
			if m.Yield {
				if err = w.ForceNewMessage(); err != nil {
					return
				}
				continue
			}
			if err = w.NextServiceInfo(m.Mod, m.Name); err != nil {
				return
			}
			val := m.Val
			for len(val) > 0 {
				n := len(val)
				if split > 0 && split < n {
					n = split
				}
				if _, err = w.Write(val[:n]); err != nil {
					return
				}
				val = val[n:]
			}
		}
	}()
	return r, done
}

func renderKV(kv *serviceinfo.KV) string {
	return fmt.Sprintf("(K b:%x b:%x)", kv.Key, kv.Val)
}

func registerChunkKinds(c *core.Ctx) {
	c.Register(&core.Kind{Name: "chunk.run", Eval: func(p core.Params) (string, string) {
		ms := decodeMsgs(p["msgs"])
		var sizes []int
		var zs []string
		for _, s := range strings.Split(p["sizes"], ",") {
			n, _ := strconv.Atoi(s)
			sizes = append(sizes, n)
			zs = append(zs, fmt.Sprintf("z:%x", n))
		}
		line := "chunk.run " + itemsArg(ms) + " (" + strings.Join(zs, " ") + ")"
		if p["lineonly"] != "" {
			return line, ""
		}
		buffers, _ := strconv.Atoi(p["buffers"])
		split, _ := strconv.Atoi(p["split"])
		r, done := startProducer(ms, buffers, split)
		var sb strings.Builder
		sb.WriteString("ok")
		for _, sz := range sizes {
			kv, err := r.ReadChunk(uint16(sz))
			switch {
			case err == nil:
				sb.WriteString(" " + renderKV(kv))
				continue
			case errors.Is(err, serviceinfo.ErrSizeTooSmall):
				sb.WriteString(" S")
				continue
			case errors.Is(err, io.EOF):
				sb.WriteString(" E")
			default:
				sb.WriteString(" X")
			}
			break
		}
		// let the producer finish (it may be blocked on an unbuffered pipe if we stopped early)
		go func() {
			for {
				if _, err := r.ReadChunk(65535); err != nil && !errors.Is(err, serviceinfo.ErrSizeTooSmall) {
					return
				}
			}
		}()
		select {
		case <-done:
		case <-time.After(5 * time.Second):
		}
		return line, sb.String()
	}})
	c.Register(&core.Kind{Name: "chunk.rounds", Eval: func(p core.Params) (string, string) {
		ms := decodeMsgs(p["msgs"])
		mtu, _ := strconv.Atoi(p["mtu"])
		calls, _ := strconv.Atoi(p["calls"])
		line := fmt.Sprintf("chunk.rounds %s z:%x n:%x", itemsArg(ms), mtu, calls)
		if p["lineonly"] != "" {
			return line, ""
		}
		buffers, _ := strconv.Atoi(p["buffers"])
		split, _ := strconv.Atoi(p["split"])
		r, done := startProducer(ms, buffers, split)
		msgs, err := fdo.VerifServiceInfoRounds(context.Background(), uint16(mtu), r, calls)
		var sb strings.Builder
		sb.WriteString("ok")
		for _, m := range msgs {
			sb.WriteString(" (R")
			for _, kv := range m.KVs {
				sb.WriteString(" " + renderKV(kv))
			}
			if m.IsMore {
				sb.WriteString(" more)")
			} else {
				sb.WriteString(" last)")
			}
		}
		if err != nil {
			sb.WriteString(" fail")
		}
		go func() {
			for {
				if _, err := r.ReadChunk(65535); err != nil && !errors.Is(err, serviceinfo.ErrSizeTooSmall) {
					return
				}
			}
		}()
		select {
		case <-done:
		case <-time.After(5 * time.Second):
		}
		return line, sb.String()
	}})
	// chunk.exchange: exchangeServiceInfo itself (negotiated message size -> budget of a round -> messages), compared with
	// the model of one round at budget mtu-5; the monitor measures the WHOLE encoded message against the negotiated size
	c.Register(&core.Kind{Name: "chunk.exchange", Eval: func(p core.Params) (string, string) {
		ms := decodeMsgs(p["msgs"])
		mtu, _ := strconv.Atoi(p["mtu"])
		line := fmt.Sprintf("chunk.rounds %s z:%x n:1", itemsArg(ms), mtu-5)
		if p["lineonly"] != "" {
			return line, ""
		}
		buffers, _ := strconv.Atoi(p["buffers"])
		r, done := startProducer(ms, buffers, 0)
		ctx, cancel := context.WithTimeout(context.Background(), 10*time.Second)
		defer cancel()
		msgs, _ := fdo.VerifExchangeServiceInfo(ctx, uint16(mtu), r)
		var sb strings.Builder
		sb.WriteString("ok")
		for _, m := range msgs {
			sb.WriteString(" (R")
			for _, kv := range m.KVs {
				sb.WriteString(" " + renderKV(kv))
			}
			if m.IsMore {
				sb.WriteString(" more)")
			} else {
				sb.WriteString(" last)")
			}
		}
		go func() {
			for {
				if _, err := r.ReadChunk(65535); err != nil && !errors.Is(err, serviceinfo.ErrSizeTooSmall) {
					return
				}
			}
		}()
		select {
		case <-done:
		case <-time.After(5 * time.Second):
		}
		return line, sb.String()
	}})
	registerChunkMoreKinds(c) // chunk_more.go
}

// reassemble what the receiver would see: consecutive equal keys concatenated (independent of go-fdo)
func reassemble(obs string) [][2]string {
	var out [][2]string
	for _, tok := range strings.Split(obs, "(K ")[1:] {
		f := strings.Fields(strings.SplitN(tok, ")", 2)[0])
		if len(f) < 2 {
			continue
		}
		k, v := strings.TrimPrefix(f[0], "b:"), strings.TrimPrefix(f[1], "b:")
		if n := len(out); n > 0 && out[n-1][0] == k {
			out[n-1][1] += v
		} else {
			out = append(out, [2]string{k, v})
		}
	}
	return out
}

func expected(ms []svcMsg) [][2]string {
	var out [][2]string
	for _, m := range ms {
		if m.Yield {
			continue
		}
		k, v := hex.EncodeToString([]byte(m.Mod+":"+m.Name)), hex.EncodeToString(m.Val)
		if n := len(out); n > 0 && out[n-1][0] == k {
			out[n-1][1] += v
		} else {
			out = append(out, [2]string{k, v})
		}
	}
	return out
}

// RunC15: service-info chunking is lossless, ordered and within the MTU.
func RunC15(c *core.Ctx) {
	registerChunkKinds(c)
	c.Rep.Rule = "cases = (message list with keys of 3..40 bytes and values of >=1 byte, yields, size schedule / MTU, buffered or unbuffered pipe, write split): " +
		"(a) a two-message sweep in which the budget left when the second key starts takes every value 0..45, for 3 key lengths; (b) random message lists against " +
		"random per-call size schedules; (c) the device's batching loop (exchangeServiceInfoRound via hook) for MTUs 24..1300 and 65535; model (extracted read_chunk / " +
		"round) vs serviceinfo.ChunkReader; monitor on the implementation alone: every chunk fits its budget, every batch fits the MTU, reassembly of all chunks equals " +
		"the original messages, a yield starts a new batch, nothing fails. non-trivial = at least one chunk emitted; distinct = distinct case line"
	c.Trivial = func(o core.Obs) bool { return !strings.Contains(o.Impl, "(K ") }
	rnd := func(n int) []byte { b := make([]byte, n); c.Rng.Read(b); return b }
	name := func(n int) string { return strings.Repeat("m", n) }

	monitorRun := func(kind string, p core.Params, ms []svcMsg, o core.Obs, complete bool) {
		switch {
		case strings.HasPrefix(o.Impl, "panic"):
			c.Fail("panic@serviceinfo.ChunkReader", core.PanicText, kind, p, o)
			return
		case o.Impl == "hang":
			c.Fail("hang@serviceinfo.ChunkReader", "", kind, p, o)
			return
		case strings.Contains(o.Impl, " X") || strings.Contains(o.Impl, " fail"):
			c.Fail("exchange-failed", "reading chunks failed for a well-formed producer: "+tail(o.Impl, 80), kind, p, o)
			return
		}
		got, want := reassemble(o.Impl), expected(ms)
		if complete {
			if fmt.Sprint(got) != fmt.Sprint(want) {
				c.Fail("lossy-reassembly", fmt.Sprintf("reassembled %d streams, expected %d (first difference at stream %d)", len(got), len(want), firstDiff(got, want)), kind, p, o)
			}
		} else { // prefix consistency
			for i := range got {
				if i >= len(want) || got[i][0] != want[i][0] || !strings.HasPrefix(want[i][1], got[i][1]) {
					c.Fail("lossy-reassembly", fmt.Sprintf("stream %d is not a prefix of the original", i), kind, p, o)
					break
				}
			}
		}
	}

	// (a) remainder sweep: first message fills the budget so that `rem` bytes remain when the second key starts
	for _, klen := range []int{3, 22, 40} {
		for rem := 0; rem <= 45; rem++ {
			for _, buffers := range []int{0, 8} {
				mtu := 300
				k1 := "a:b"
				// value length such that KV.Size of the first chunk = mtu - rem
				target := mtu - rem
				vlen := target - 1 - (1 + len(k1)) - 3 // 3-byte header for values >= 256
				if vlen < 256 {
					continue
				}
				ms := []svcMsg{{Mod: k1[:1], Name: k1[2:], Val: rnd(vlen)}, {Mod: name(klen / 2), Name: name(klen - klen/2 - 1), Val: rnd(30)}}
				p := core.Params{"msgs": encodeMsgs(ms), "mtu": fmt.Sprint(mtu), "calls": "4", "buffers": fmt.Sprint(buffers), "split": "0"}
				o := c.Do("chunk.rounds", p, fmt.Sprintf("remainder-sweep-key%d", klen))
				monitorRun("chunk.rounds", p, ms, o, true)
				checkBatches(c, p, o, mtu)
			}
		}
	}
	// (b) random lists vs random size schedules
	n := 400
	if !c.Quick() {
		n = 8000
	}
	for i := 0; i < n; i++ {
		var ms []svcMsg
		for j := 0; j < 1+c.Rng.Intn(5); j++ {
			if c.Rng.Intn(6) == 0 {
				ms = append(ms, svcMsg{Yield: true})
				continue
			}
			mod := []string{"devmod", "fdo.download", "m", name(20)}[c.Rng.Intn(4)]
			nm := []string{"active", "data", "x", name(17)}[c.Rng.Intn(4)]
			if j > 0 && c.Rng.Intn(4) == 0 && !ms[j-1].Yield {
				mod, nm = ms[j-1].Mod, ms[j-1].Name // consecutive equal keys
			}
			vl := []int{1, 2, 23, 24, 25, 255, 256, 257, 700, 3000}[c.Rng.Intn(10)]
			ms = append(ms, svcMsg{Mod: mod, Name: nm, Val: rnd(vl)})
		}
		var sizes []string
		total := 0
		for _, m := range ms {
			total += len(m.Val)
		}
		for k := 0; k < 60+total/20; k++ {
			sizes = append(sizes, fmt.Sprint([]int{0, 5, 7, 8, 9, 20, 27, 30, 31, 32, 50, 64, 100, 281, 282, 283, 300, 1300, 65535}[c.Rng.Intn(19)]))
		}
		p := core.Params{"msgs": encodeMsgs(ms), "sizes": strings.Join(sizes, ","), "buffers": fmt.Sprint([]int{0, 16}[c.Rng.Intn(2)]), "split": fmt.Sprint([]int{0, 1, 7, 100}[c.Rng.Intn(4)])}
		o := c.Do("chunk.run", p, "random-schedule")
		monitorRun("chunk.run", p, ms, o, strings.HasSuffix(o.Impl, " E"))
		// every chunk fits the budget it was given
		toks := strings.Fields(strings.TrimPrefix(o.Impl, "ok"))
		si := 0
		for ti := 0; ti < len(toks) && si < len(sizes); ti++ {
			if toks[ti] == "(K" {
				k, v := strings.TrimPrefix(toks[ti+1], "b:"), strings.TrimSuffix(strings.TrimPrefix(toks[ti+2], "b:"), ")")
				sz, _ := strconv.Atoi(sizes[si])
				if kvSize(len(k)/2, len(v)/2) > sz {
					c.Fail("chunk-exceeds-budget", fmt.Sprintf("chunk of size %d for budget %d", kvSize(len(k)/2, len(v)/2), sz), "chunk.run", p, o)
				}
				if len(v) == 0 {
					c.Fail("empty-chunk", "a chunk without value bytes was emitted", "chunk.run", p, o)
				}
				ti += 2
				si++
			} else {
				si++
			}
		}
	}
	// (c) batching loop over an MTU grid
	mtus := []int{24, 30, 64, 100, 256, 300, 512, 1300, 65535}
	for _, mtu := range mtus {
		reps := 6
		if !c.Quick() {
			reps = 60
		}
		for i := 0; i < reps; i++ {
			var ms []svcMsg
			for j := 0; j < 1+c.Rng.Intn(6); j++ {
				if c.Rng.Intn(7) == 0 {
					ms = append(ms, svcMsg{Yield: true})
					continue
				}
				klen := 1 + c.Rng.Intn(8)
				if mtu >= 64 {
					klen = 1 + c.Rng.Intn(20)
				}
				vl := 1 + c.Rng.Intn(3*mtu)
				if vl > 9000 {
					vl = 9000
				}
				ms = append(ms, svcMsg{Mod: name(klen), Name: "x", Val: rnd(vl)})
			}
			p := core.Params{"msgs": encodeMsgs(ms), "mtu": fmt.Sprint(mtu), "calls": fmt.Sprint(len(ms) + 2), "buffers": fmt.Sprint([]int{0, 16}[c.Rng.Intn(2)]), "split": fmt.Sprint([]int{0, 3, 1000}[c.Rng.Intn(3)])}
			o := c.Do("chunk.rounds", p, "mtu-grid")
			monitorRun("chunk.rounds", p, ms, o, true)
			checkBatches(c, p, o, mtu)
		}
	}
	// (d) whole messages against the negotiated size: n small KVs followed by a value long enough to fill the message to
	// the brim; the array head of the KV list grows at 24 and 256 entries, which the 5 bytes reserved by the caller must cover
	counts := []int{0, 1, 22, 23, 24, 25, 100, 254, 255, 256, 257, 300}
	sizesD := []int{256, 1300, 4000, 65535}
	if !c.Quick() {
		counts = append(counts, 2, 3, 10, 50, 150, 200, 253, 258, 400, 1000)
		sizesD = append(sizesD, 300, 512, 2000, 10000, 30000)
	}
	for _, mtu := range sizesD {
		for _, n := range counts {
			if n*7 > mtu-40 && !(n <= 25) {
				continue // the small KVs alone would not fit into one message
			}
			var ms []svcMsg
			for j := 0; j < n; j++ {
				ms = append(ms, svcMsg{Mod: "m", Name: "k", Val: rnd(1)})
			}
			long := 2*mtu + 10
			if long > 70000 {
				long = 70000
			}
			ms = append(ms, svcMsg{Mod: "m", Name: "v", Val: rnd(long)})
			p := core.Params{"msgs": encodeMsgs(ms), "mtu": fmt.Sprint(mtu), "buffers": fmt.Sprint([]int{0, 16}[c.Rng.Intn(2)])}
			o := c.Do("chunk.exchange", p, "message-filled-to-the-brim")
			monitorRun("chunk.exchange", p, ms, o, true)
			checkMessages(c, p, o, mtu)
		}
	}
	runC15More(c) // chunk_more.go: owner side of the budget, nearly equal keys, yields in the device's answer loop
}

func kvSize(k, v int) int {
	l := func(n int) int {
		switch {
		case n < 24:
			return 1 + n
		case n < 256:
			return 2 + n
		}
		return 3 + n
	}
	return 1 + l(k) + l(v)
}

func checkBatches(c *core.Ctx, p core.Params, o core.Obs, mtu int) {
	for _, r := range strings.Split(o.Impl, "(R")[1:] {
		sum := 0
		for _, tok := range strings.Split(r, "(K ")[1:] {
			f := strings.Fields(strings.SplitN(tok, ")", 2)[0])
			if len(f) >= 2 {
				sum += kvSize((len(f[0])-2)/2, (len(f[1])-2)/2)
			}
		}
		if sum > mtu {
			c.Fail("batch-exceeds-mtu", fmt.Sprintf("batch of %d bytes for MTU %d", sum, mtu), "chunk.rounds", p, o)
		}
	}
}

// checkMessages: the whole TO2.DeviceServiceInfo message ([IsMoreServiceInfo, [KV...]]) fits the negotiated size.
func checkMessages(c *core.Ctx, p core.Params, o core.Obs, mtu int) {
	for _, r := range strings.Split(o.Impl, "(R")[1:] {
		sum, n := 0, 0
		for _, tok := range strings.Split(r, "(K ")[1:] {
			f := strings.Fields(strings.SplitN(tok, ")", 2)[0])
			if len(f) >= 2 {
				sum += kvSize((len(f[0])-2)/2, (len(f[1])-2)/2)
				n++
			}
		}
		head := 1
		switch {
		case n >= 65536:
			head = 5
		case n >= 256:
			head = 3
		case n >= 24:
			head = 2
		}
		if total := 2 + head + sum; total > mtu {
			c.Fail("message-exceeds-mtu", fmt.Sprintf("TO2.DeviceServiceInfo of %d bytes (%d KVs) for a negotiated size of %d", total, n, mtu), "chunk.exchange", p, o)
		}
		c.Count("exchange_kvs_per_message", map[bool]string{true: ">=256", false: map[bool]string{true: "24..255", false: "<24"}[n >= 24]}[n >= 256])
	}
}

func firstDiff(a, b [][2]string) int {
	for i := range a {
		if i >= len(b) || a[i] != b[i] {
			return i
		}
	}
	return len(a)
}

func tail(s string, n int) string {
	if len(s) > n {
		return s[len(s)-n:]
	}
	return s
}
