package props

// C18, two more scenarios on the real sqlite.DB, both with the connection settings sqlite.Open itself makes (the harness
// sets no SetMaxOpenConns, no pragma):
//
//	stConcurrent: 8..16 goroutines, each with tokens of its own, set and read every session field and add / read / replace /
//	              remove vouchers and rendezvous blobs of their own GUIDs at the same time: every call succeeds (no
//	              "database is locked") and every read returns what that session wrote last; afterwards, and after a
//	              reopen, every session still reads its own values.
//	stDIRestart:  DI.AppStart answered by one fdo.DIServer over a sqlite.DB, DI.SetHMAC by a NEW DIServer over a new
//	              sqlite.DB on the same file (reopened / opened next to the first): the voucher stored at the end carries
//	              exactly the header the device received in DI.SetCredentials, and the device's HMAC verifies over it.

import (
	"bytes"
	"context"
	"crypto/ecdsa"
	"crypto/hmac"
	"crypto/rand"
	"crypto/rsa"
	"crypto/sha256"
	"crypto/sha512"
	"crypto/x509"
	"crypto/x509/pkix"
	"errors"
	"fmt"
	"net/http"
	"os"
	"path/filepath"
	"sort"
	"strings"
	"sync"
	"time"

	fdo "github.com/fido-device-onboard/go-fdo"
	"github.com/fido-device-onboard/go-fdo/cbor"
	"github.com/fido-device-onboard/go-fdo/custom"
	fdohttp "github.com/fido-device-onboard/go-fdo/http"
	"github.com/fido-device-onboard/go-fdo/protocol"
	"github.com/fido-device-onboard/go-fdo/sqlite"

	"verifharness/internal/core"
	"verifharness/internal/env"
)

// ---- concurrent use ----

type concFail struct{ sig, detail string }

type concTok struct {
	worker int
	token  string
	last   [stNFields]string // digest of the value written last ("" = never written)
}

type concRun struct {
	db     *sqlite.DB
	reread bool // every round ends with a read of all fields
	mu     sync.Mutex
	fails  []concFail
	ops    map[string]int
	ns     map[string]time.Duration // time spent inside set / get calls, summed over the goroutines
	live   []*concTok
	blobs  map[protocol.GUID]string // GUID -> digest of the blob stored last (left in the store for the final pass)
	vous   map[protocol.GUID]string
}

func (r *concRun) fail(sig, format string, a ...any) {
	r.mu.Lock()
	r.fails = append(r.fails, concFail{sig, fmt.Sprintf(format, a...)})
	r.mu.Unlock()
}

// insertOnly: fields whose setter is a plain INSERT (one value per session: the DI responder sets them once)
func insertOnly(f int) bool { return f == 0 || f == 2 }

func (r *concRun) worker(w int, hseed int64, deadline time.Time, wg *sync.WaitGroup) {
	defer wg.Done()
	defer func() {
		if p := recover(); p != nil {
			r.fail("concurrent-store-call-failed", "worker %d: panic: %v", w, p)
		}
	}()
	bg := context.Background()
	db := r.db
	ops := map[string]int{}
	ns := map[string]time.Duration{}
	timed := func(name string, t time.Time) { ns[name] += time.Since(t) }
	vseed := 0
	nv := func() int { vseed++; return vseed }
	for round := 0; time.Now().Before(deadline); round++ {
		tok, err := db.NewToken(bg, protocol.Protocol(1+(w+round)%4))
		ops["NewToken"]++
		if err != nil {
			r.fail("concurrent-store-call-failed", "worker %d round %d: NewToken: %v", w, round, err)
			continue
		}
		ct := &concTok{worker: w, token: tok}
		ctx := db.TokenContext(bg, tok)
		setGet := func(f int) {
			v := stValue(f, hseed, nv())
			ops["set"]++
			ts := time.Now()
			err := v.write(ctx, db)
			timed("set", ts)
			if err != nil {
				r.fail("concurrent-store-call-failed", "worker %d round %d: Set%s (%s): %v", w, round, stFieldNames[f], v.shape, err)
				return
			}
			ct.last[f] = v.dig
			ops["get"]++
			tg := time.Now()
			got, err := stRead(ctx, db, f, tok)
			timed("get", tg)
			if err != nil {
				r.fail("concurrent-store-call-failed", "worker %d round %d: reading %s right after setting it (%s): %v", w, round, stFieldNames[f], v.shape, err)
				return
			}
			if got != v.dig {
				r.fail("concurrent-read-differs", "worker %d round %d: %s read back through the same token is not the value just written (%s): wrote %s, read %s", w, round, stFieldNames[f], v.shape, v.dig, got)
			}
		}
		for f := 0; f < stNFields; f++ {
			setGet(f)
		}
		for f := 0; f < stNFields; f++ { // overwrite, then every field once more (a neighbour's write must not have touched them)
			if !insertOnly(f) && (f+round)%3 == 0 {
				setGet(f)
			}
		}
		for f := 0; f < stNFields && r.reread; f++ { // (quick tier: left to the final pass, which reads every kept session)
			if ct.last[f] == "" {
				continue
			}
			ops["get"]++
			if got, err := stRead(ctx, db, f, tok); err != nil {
				r.fail("concurrent-store-call-failed", "worker %d round %d: reading %s: %v", w, round, stFieldNames[f], err)
			} else if got != ct.last[f] {
				r.fail("concurrent-read-differs", "worker %d round %d: %s read at the end of the round is not this session's last write: wrote %s, read %s", w, round, stFieldNames[f], ct.last[f], got)
			}
		}
		// vouchers and blobs of GUIDs only this worker uses
		g1, g2 := stGUIDOf(hseed, 2*round), stGUIDOf(hseed, 2*round+1)
		ov, _ := stVoucher(hseed, g1, nv())
		step := func(name string, err error) bool {
			ops[name]++
			if err != nil {
				r.fail("concurrent-store-call-failed", "worker %d round %d: %s: %v", w, round, name, err)
				return false
			}
			return true
		}
		if step("AddVoucher", db.AddVoucher(bg, ov)) {
			got, err := db.Voucher(bg, g1)
			if step("Voucher", err) && stVoucherDig(got) != stVoucherDig(ov) {
				r.fail("concurrent-read-differs", "worker %d round %d: Voucher(g) is not the voucher just added", w, round)
			}
			ov2, _ := stVoucher(hseed, g2, 12*nv()) // (shape 0: no entries, as ReplaceVoucher requires)
			if step("ReplaceVoucher", db.ReplaceVoucher(bg, g1, ov2)) {
				if _, err := db.Voucher(bg, g1); !errors.Is(err, fdo.ErrNotFound) {
					r.fail("concurrent-read-differs", "worker %d round %d: the replaced voucher is still found (%v)", w, round, err)
				}
				ops["Voucher"]++
				got, err := db.Voucher(bg, g2)
				if step("Voucher", err) && stVoucherDig(got) != stVoucherDig(ov2) {
					r.fail("concurrent-read-differs", "worker %d round %d: Voucher(replacement GUID) is not the replacement voucher", w, round)
				}
				if round%2 == 0 {
					got, err := db.RemoveVoucher(bg, g2)
					if step("RemoveVoucher", err) && stVoucherDig(got) != stVoucherDig(ov2) {
						r.fail("concurrent-read-differs", "worker %d round %d: RemoveVoucher returned another voucher", w, round)
					}
				} else {
					r.mu.Lock()
					r.vous[g2] = stVoucherDig(ov2)
					r.mu.Unlock()
				}
			}
		}
		bov, to1d, _ := stBlob(hseed, g1, nv())
		if step("SetRVBlob", db.SetRVBlob(bg, bov, to1d, time.Now().Add(time.Hour))) {
			gb, gv, err := db.RVBlob(bg, g1)
			if step("RVBlob", err) {
				if stBlobDig(gb, gv) != stBlobDig(to1d, bov) {
					r.fail("concurrent-read-differs", "worker %d round %d: RVBlob is not the blob just stored", w, round)
				}
				r.mu.Lock()
				r.blobs[g1] = stBlobDig(to1d, bov)
				r.mu.Unlock()
			}
		}
		// every other session ends here: its token grants nothing from then on
		if round%2 == 1 {
			if step("InvalidateToken", db.InvalidateToken(ctx)) {
				ops["get"]++
				if got, err := stRead(ctx, db, 5, tok); err == nil {
					r.fail("concurrent-read-differs", "worker %d round %d: GUID read through an invalidated token: %s", w, round, got)
				}
			}
			continue
		}
		r.mu.Lock()
		r.live = append(r.live, ct)
		r.mu.Unlock()
	}
	r.mu.Lock()
	for k, n := range ops {
		r.ops[k] += n
	}
	for k, d := range ns {
		r.ns[k] += d
	}
	r.mu.Unlock()
}

// finalPass: quiet again, every live session reads its own last writes, every kept voucher and blob is the one stored last.
func (r *concRun) finalPass(db *sqlite.DB, when string) {
	bg := context.Background()
	for _, ct := range r.live {
		ctx := db.TokenContext(bg, ct.token)
		for f := 0; f < stNFields; f++ {
			if ct.last[f] == "" {
				continue
			}
			if got, err := stRead(ctx, db, f, ct.token); err != nil {
				r.fail("concurrent-store-call-failed", "%s: worker %d's session: reading %s: %v", when, ct.worker, stFieldNames[f], err)
			} else if got != ct.last[f] {
				r.fail("concurrent-read-differs", "%s: worker %d's session: %s is not that session's last write: wrote %s, read %s", when, ct.worker, stFieldNames[f], ct.last[f], got)
			}
		}
	}
	for g, d := range r.vous {
		if got, err := db.Voucher(bg, g); err != nil {
			r.fail("concurrent-store-call-failed", "%s: Voucher: %v", when, err)
		} else if stVoucherDig(got) != d {
			r.fail("concurrent-read-differs", "%s: a voucher differs from the one stored under its GUID", when)
		}
	}
	for g, d := range r.blobs {
		if gb, gv, err := db.RVBlob(bg, g); err != nil {
			r.fail("concurrent-store-call-failed", "%s: RVBlob: %v", when, err)
		} else if stBlobDig(gb, gv) != d {
			r.fail("concurrent-read-differs", "%s: a rendezvous blob differs from the one stored last under its GUID", when)
		}
	}
}

func stConcurrent(c *core.Ctx) {
	t0 := time.Now()
	ruleOnce(c, "concurrent use (monitor only): 8..16 goroutines on one sqlite.DB exactly as sqlite.Open returns it, each with its own tokens and GUIDs, set+get of all 14 session fields, "+
		"voucher add/read/replace/remove, blob set/read, token invalidation: every call succeeds, every read is that session's last write, also afterwards and after a reopen.")
	dir := filepath.Join(WorkDir(), fmt.Sprintf("c18conc-%d", os.Getpid()))
	_ = os.MkdirAll(dir, 0o755)
	defer os.RemoveAll(dir)
	stPool()                                          // (built outside the measured window)
	groups, dur := []int{8, 16}, 300*time.Millisecond // (every goroutine completes at least one round: about 25 writes, each an fsync)
	if !c.Quick() {
		groups, dur = []int{8, 9, 10, 11, 12, 13, 14, 15, 16}, 8*time.Second // (several rounds: sessions are invalidated, fields overwritten)
	}
	for gi, n := range groups {
		p := core.Params{"goroutines": fmt.Sprint(n), "ms": fmt.Sprint(dur.Milliseconds())}
		path := filepath.Join(dir, fmt.Sprintf("conc%d.db", n))
		db, err := sqlite.Open(path, "pw") // the library's own settings, nothing added
		if err != nil {
			c.Fail("harness:concurrent-open", err.Error(), "store.concurrent", p, core.Obs{})
			continue
		}
		r := &concRun{db: db, reread: !c.Quick(), ops: map[string]int{}, ns: map[string]time.Duration{}, blobs: map[protocol.GUID]string{}, vous: map[protocol.GUID]string{}}
		var wg sync.WaitGroup
		deadline := time.Now().Add(dur)
		for w := 0; w < n; w++ {
			wg.Add(1)
			go r.worker(w, c.Seed*1000+int64(7000+100*gi+w), deadline, &wg)
		}
		done := make(chan struct{})
		go func() { wg.Wait(); close(done) }()
		select {
		case <-done:
		case <-time.After(dur + 120*time.Second):
			c.Fail("concurrent-store-hang", fmt.Sprintf("%d goroutines using one sqlite.DB (opened by sqlite.Open, settings untouched) for %v: not all of them returned 120 s later", n, dur), "store.concurrent", p, core.Obs{})
			continue // (the database is left open: closing it under a stuck call could block as well)
		}
		tPhase := time.Since(deadline.Add(-dur))
		r.finalPass(db, "after the concurrent phase")
		_ = db.Close()
		if db2, err := sqlite.Open(path, "pw"); err != nil {
			r.fail("concurrent-store-call-failed", "reopening the database: %v", err)
		} else {
			r.finalPass(db2, "after a reopen")
			_ = db2.Close()
		}
		c.Rep.Evaluations++
		total := 0
		names := make([]string, 0, len(r.ops))
		for k, v := range r.ops {
			total += v
			names = append(names, fmt.Sprintf("%s=%d", k, v))
		}
		sort.Strings(names)
		c.Count("concurrent_store", fmt.Sprintf("%d goroutines: failures=%d", n, len(r.fails)))
		c.Note("concurrent store: %d goroutines x %v: %d calls (%s), %d sessions kept, %d failures; a set call took %.1f ms, a get call %.1f ms (waiting for the connection included); concurrent phase %.1fs", n, dur, total, strings.Join(names, " "), len(r.live), len(r.fails),
			float64(r.ns["set"].Milliseconds())/float64(max(r.ops["set"], 1)), float64(r.ns["get"].Milliseconds())/float64(max(r.ops["get"], 1)), tPhase.Seconds())
		if total < 20*n {
			c.Note("concurrent store: only %d calls by %d goroutines in %v (slow disk?)", total, n, dur)
		}
		// report: the first few of each signature, with the number of its kind
		cnt := map[string]int{}
		for _, f := range r.fails {
			cnt[f.sig]++
		}
		shown := map[string]int{}
		for _, f := range r.fails {
			if shown[f.sig]++; shown[f.sig] <= 3 {
				c.Fail(f.sig, fmt.Sprintf("%d goroutines on one sqlite.DB as sqlite.Open returns it (%d failures of this kind): %s", n, cnt[f.sig], f.detail), "store.concurrent", p, core.Obs{})
			}
		}
	}
	c.Note("concurrent store part: %.1fs", time.Since(t0).Seconds())
}

// ---- DI continued on another instance ----

type diRestartCase struct {
	spec    env.KeySpec
	enc     protocol.KeyEncoding
	rvShape int    // stRvInfo shape (non-empty ones), -1: hoRv
	info    string // device info string the manufacturer's callback returns
	mode    string // none | reopen | second-handle | two-instances
	extend  bool   // BeforeVoucherPersist = AllInOne.Extend
}

var diInfoStrings = []string{"verif-device", "", "d", strings.Repeat("long-device-info-", 180), "dév ïce 漢字 ✓", "a\x00b", "it's \"quoted\"; DROP TABLE vouchers;--", "  padded  ", "line1\nline2\ttab"}

func diRestartCases(quick bool) (l []diRestartCase) {
	specs := env.AllKeys
	if quick {
		specs = []env.KeySpec{env.P256, env.P384, env.RSA2048}
	}
	modes := []string{"reopen", "second-handle", "two-instances", "none"}
	rvShapes := []int{-1, 4, 2, 3, 5, 6, 8}
	i := 0
	for _, spec := range specs {
		for _, enc := range hoEncodings(spec) {
			n := 3
			if !quick {
				n = len(diInfoStrings)
			}
			for k := 0; k < n; k++ {
				l = append(l, diRestartCase{spec: spec, enc: enc, rvShape: rvShapes[i%len(rvShapes)], info: diInfoStrings[i%len(diInfoStrings)], mode: modes[i%len(modes)], extend: i%3 != 2})
				i++
			}
		}
	}
	return l
}

type diInstance struct {
	db *sqlite.DB
	h  *fdohttp.Handler
}

func stDIRestart(c *core.Ctx) {
	t0 := time.Now()
	ruleOnce(c, "DI across instances (monitor only): DI.AppStart answered by one fdo.DIServer+sqlite.DB, DI.SetHMAC by a new DIServer over a reopened / second / parallel sqlite.DB on the same file, "+
		"manufacturer callbacks returning non-empty rendezvous info of 7 shapes and 9 device info strings, key encodings X509/X5CHAIN/COSE, with and without auto-extension: the stored voucher's "+
		"header equals, field by field, the header the device received, and the device's HMAC verifies over it.")
	dir := filepath.Join(WorkDir(), fmt.Sprintf("c18di-%d", os.Getpid()))
	_ = os.MkdirAll(dir, 0o755)
	defer os.RemoveAll(dir)
	devCA := env.Key(env.P384, "devca")
	devCAChain := env.SelfSigned(devCA, "device CA")
	kind := "store.direstart"
	files := map[string]string{}
	for ci, k := range diRestartCases(c.Quick()) {
		p := core.Params{"key": k.spec.Name, "enc": fmt.Sprint(int(k.enc)), "rv": fmt.Sprint(k.rvShape), "info": clipStr(fmt.Sprintf("%q", k.info), 40), "mode": k.mode, "extend": fmt.Sprint(k.extend)}
		var rv [][]protocol.RvInstruction
		if k.rvShape < 0 {
			rv = hoRv("rv-mfg.test", 8041)
		} else {
			rv, _ = stRvInfo(stRng(c.Seed, 3000+ci), k.rvShape)
		}
		harness := func(format string, a ...any) {
			c.Fail("harness:di-restart", fmt.Sprintf(format, a...), kind, p, core.Obs{})
		}
		// one database file per key type; manufacturer and owner keys are put in once
		path, known := files[k.spec.Name]
		if !known {
			path = filepath.Join(dir, "di-"+k.spec.Name+".db")
		}
		open := func() (*diInstance, error) {
			db, err := sqlite.Open(path, "pw")
			if err != nil {
				return nil, err
			}
			dis := &fdo.DIServer[custom.DeviceMfgInfo]{Session: db, Vouchers: db,
				SignDeviceCertificate: custom.SignDeviceCertificate(devCA, devCAChain),
				DeviceInfo: func(ctx context.Context, info *custom.DeviceMfgInfo, _ []*x509.Certificate) (string, protocol.PublicKey, error) {
					mk, chain, err := db.ManufacturerKey(ctx, info.KeyType, k.spec.Bits)
					if err != nil {
						return "", protocol.PublicKey{}, err
					}
					var pk *protocol.PublicKey
					switch pub := mk.Public().(type) {
					case *ecdsa.PublicKey:
						pk, err = protocol.NewPublicKey(info.KeyType, pub, info.KeyEncoding == protocol.CoseKeyEnc)
					case *rsa.PublicKey:
						pk, err = protocol.NewPublicKey(info.KeyType, pub, false)
					}
					if info.KeyEncoding == protocol.X5ChainKeyEnc {
						pk, err = protocol.NewPublicKey(info.KeyType, chain, false)
					}
					if err != nil {
						return "", protocol.PublicKey{}, err
					}
					return k.info, *pk, nil
				},
				RvInfo: func(context.Context, *fdo.Voucher) ([][]protocol.RvInstruction, error) { return rv, nil },
			}
			if k.extend {
				dis.BeforeVoucherPersist = func(ctx context.Context, ov *fdo.Voucher) error { return fdo.AllInOne{DIAndOwner: db}.Extend(ctx, ov) }
			}
			return &diInstance{db: db, h: &fdohttp.Handler{Tokens: db, DIResponder: dis}}, nil
		}
		first, err := open()
		if err != nil {
			harness("open: %v", err)
			continue
		}
		if !known {
			mk, ok := env.Key(k.spec, "mfg"), env.Key(k.spec, "owner")
			if err := first.db.AddManufacturerKey(k.spec.Type, mk, env.Chain(mk, "mfg")); err != nil {
				harness("AddManufacturerKey: %v", err)
				_ = first.db.Close()
				continue
			}
			if err := first.db.AddOwnerKey(k.spec.Type, ok, env.Chain(ok, "owner")); err != nil {
				harness("AddOwnerKey: %v", err)
				_ = first.db.Close()
				continue
			}
			files[k.spec.Name] = path
		}
		insts := []*diInstance{first}
		if k.mode == "two-instances" {
			second, err := open()
			if err != nil {
				harness("open second instance: %v", err)
				_ = first.db.Close()
				continue
			}
			insts = append(insts, second)
		}
		cur := first
		rt := &env.HookRT{H: first.h}
		var hdr11 []byte
		switched, swErr := false, error(nil)
		rt.Hook = func(mt int, _ *http.Request, _ []byte, _ func([]byte, http.Header) *http.Response) *http.Response {
			if mt != 12 || switched {
				return nil
			}
			switched = true
			switch k.mode {
			case "reopen":
				_ = cur.db.Close()
				cur, swErr = open()
			case "second-handle":
				old := cur
				cur, swErr = open()
				_ = old.db.Close()
			case "two-instances":
				cur = insts[1]
			}
			if swErr != nil {
				return hoErrResp(nil, 500)
			}
			if cur != first {
				insts = append(insts, cur)
			}
			rt.H = cur.h // fresh DIServer, fresh sqlite.DB: nothing of the first instance but the file
			return nil
		}
		rt.RespHook = func(mt int, resp *http.Response, body []byte) []byte {
			if mt == 10 && respType(resp) == 11 {
				hdr11 = bytes.Clone(body)
			}
			return body
		}
		secret := make([]byte, 32)
		_, _ = rand.Read(secret)
		devKey := env.Key(k.spec, fmt.Sprintf("dev%d", ci%4))
		csrDER, err := x509.CreateCertificateRequest(rand.Reader, &x509.CertificateRequest{Subject: pkix.Name{CommonName: "device"}}, devKey)
		if err != nil {
			harness("csr: %v", err)
			continue
		}
		csr, _ := x509.ParseCertificateRequest(csrDER)
		ctx, cancel := context.WithTimeout(context.Background(), time.Minute)
		cred, derr := fdo.DI(ctx, &fdohttp.Transport{BaseURL: "http://fdo.test", Client: &http.Client{Transport: rt}},
			custom.DeviceMfgInfo{KeyType: k.spec.Type, KeyEncoding: k.enc, SerialNumber: fmt.Sprint("c18-", ci), DeviceInfo: "self", CertInfo: cbor.X509CertificateRequest(*csr)},
			fdo.DIConfig{HmacSha256: hmac.New(sha256.New, secret), HmacSha384: hmac.New(sha512.New384, secret), Key: devKey, PSS: k.spec.Type == protocol.RsaPssKeyType})
		cancel()
		c.Rep.Evaluations++
		closeAll := func() {
			seen := map[*diInstance]bool{}
			for _, in := range insts {
				if in != nil && !seen[in] {
					seen[in] = true
					_ = in.db.Close()
				}
			}
		}
		switch {
		case swErr != nil:
			harness("switching instances: %v", swErr)
			closeAll()
			continue
		case derr != nil || cred == nil:
			c.Count("di_restart", fmt.Sprintf("%s: DI failed", k.mode))
			c.Fail("di-fails-after-restart:"+k.mode, fmt.Sprintf("%s enc %d, device info %q, rendezvous info shape %d: DI.AppStart answered by one instance, DI.SetHMAC by another (%s): %v", k.spec.Name, k.enc, clipStr(k.info, 40), k.rvShape, k.mode, derr), kind, p, core.Obs{})
			closeAll()
			continue
		}
		var sc struct{ OVH cbor.Bstr[fdo.VoucherHeader] }
		if err := cbor.Unmarshal(hdr11, &sc); err != nil {
			harness("DI.SetCredentials as seen by the device does not decode: %v", err)
			closeAll()
			continue
		}
		sent := sc.OVH.Val
		ov, err := cur.db.Voucher(context.Background(), cred.GUID)
		if err != nil {
			c.Fail("di-header-differs-after-restart:voucher-missing", fmt.Sprintf("%s mode %s: DI completed, the voucher store has no voucher for the GUID of the header the device received: %v", k.spec.Name, k.mode, err), kind, p, core.Obs{})
			closeAll()
			continue
		}
		st := ov.Header.Val
		enc := func(v any) []byte { b, _ := cbor.Marshal(v); return b }
		differs := func(field string, a, b any) {
			if ea, eb := enc(a), enc(b); !bytes.Equal(ea, eb) {
				c.Fail("di-header-differs-after-restart:"+field, fmt.Sprintf("%s enc %d mode %s: %s of the stored voucher's header is not what the device received in DI.SetCredentials: sent %s, stored %s",
					k.spec.Name, k.enc, k.mode, field, clipStr(fmt.Sprintf("%x", ea), 300), clipStr(fmt.Sprintf("%x", eb), 300)), kind, p, core.Obs{})
			}
		}
		differs("version", sent.Version, st.Version)
		differs("guid", sent.GUID, st.GUID)
		differs("rvinfo", sent.RvInfo, st.RvInfo)
		differs("deviceinfo", sent.DeviceInfo, st.DeviceInfo)
		differs("manufacturer-key", sent.ManufacturerKey, st.ManufacturerKey)
		differs("certchain-hash", sent.CertChainHash, st.CertChainHash)
		differs("header", sent, st)
		// what the device received is what the manufacturer's callbacks said (else the comparison above proves little)
		if !bytes.Equal(enc(sent.RvInfo), enc(rv)) || len(rv) == 0 || sent.DeviceInfo != k.info {
			c.Fail("di-header-not-from-callbacks", fmt.Sprintf("%s mode %s: the header sent in DI.SetCredentials does not carry the rendezvous info / device info the manufacturer's callbacks returned (rvinfo equal=%v, %d directives; deviceinfo equal=%v)",
				k.spec.Name, k.mode, bytes.Equal(enc(sent.RvInfo), enc(rv)), len(rv), sent.DeviceInfo == k.info), kind, p, core.Obs{})
		}
		if cred.GUID != st.GUID || !bytes.Equal(enc(cred.RvInfo), enc(st.RvInfo)) || cred.DeviceInfo != st.DeviceInfo {
			c.Fail("di-header-differs-after-restart:credential", fmt.Sprintf("%s mode %s: the device's credential and the stored voucher's header disagree", k.spec.Name, k.mode), kind, p, core.Obs{})
		}
		if err := ov.VerifyHeader(hmac.New(sha256.New, secret), hmac.New(sha512.New384, secret)); err != nil {
			c.Fail("di-header-differs-after-restart:hmac", fmt.Sprintf("%s enc %d mode %s: the HMAC the device computed over the header it received does not verify over the stored voucher's header: %v", k.spec.Name, k.enc, k.mode, err), kind, p, core.Obs{})
		}
		if err := ov.VerifyCertChainHash(); err != nil {
			c.Fail("di-header-differs-after-restart:certchain", fmt.Sprintf("%s mode %s: the stored certificate chain does not match the header's certificate chain hash: %v", k.spec.Name, k.mode, err), kind, p, core.Obs{})
		}
		if k.extend {
			if err := ov.VerifyEntries(); err != nil || len(ov.Entries) != 1 {
				c.Fail("di-header-differs-after-restart:entries", fmt.Sprintf("%s mode %s: the voucher extended before it was stored has %d entries, VerifyEntries: %v", k.spec.Name, k.mode, len(ov.Entries), err), kind, p, core.Obs{})
			}
		}
		c.Count("di_restart", fmt.Sprintf("%s: DI completed", k.mode))
		c.Count("di_restart_shape", fmt.Sprintf("%s enc%d rv%d extend=%v", k.spec.Name, k.enc, k.rvShape, k.extend))
		closeAll()
	}
	c.Note("DI across instances part: %.1fs", time.Since(t0).Seconds())
}
